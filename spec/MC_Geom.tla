------------------------------ MODULE MC_Geom ------------------------------
(* Design-level models of C19 (selected by INIT/NEXT in the cfg).                                               *)
(*  MC_GeomNudge.cfg - check-and-nudge as an automaton (state: pass, index, points) on a W x H image with        *)
(*     coordinates in half pixels from {-2 .. 1/2} u {size-1 .. size+1}: all rows of <= MaxPts arbitrary points   *)
(*     and all equally spaced lines of <= MaxLine points.  Invariant NudgeLaws: the automaton equals the          *)
(*     functional form used by trace validation; on lines it equals the pointwise definition and leaves every     *)
(*     point inside the image (or NotFound); x/y transposition and reversal of the row commute with it (the four  *)
(*     edges and the two ends are treated alike).  With Record = TRUE every row is printed as a case.             *)
(*  MC_GeomQuad.cfg  - every quadrilateral with corners in 0..Q: SquareToQuad has its defining property.          *)
(*  MC_GeomXform.cfg - reads quads.ndjson (pairs of quadrilaterals + grid fineness m) and prints, per pair, the   *)
(*     source points p = SquareToQuad(src)(i/m, j/m) as exact rationals: inputs for the real TransformPoints.     *)
EXTENDS Geom, Json
CONSTANTS W, H, MaxPts, MaxLine, Q, Record
VARIABLES pts, st
vars == <<pts, st>>

(* ------------------------------------------------------------------ nudge automaton (S = 2: half pixels) *)
Band(size) == (-4..1) \cup ((2 * size - 2)..(2 * size + 2))
Steps == -3..3
Line(x, y, dx, dy, n) == [i \in 1..n |-> <<x + (i - 1) * dx, y + (i - 1) * dy>>]
InitNudge == pts = <<>> /\ st = [ph |-> "build"]
AddPoint == /\ st.ph = "build" /\ Len(pts) < MaxPts
            /\ \E x \in Band(W), y \in Band(H) : pts' = Append(pts, <<x, y>>)
            /\ UNCHANGED st
MakeLine == /\ st.ph = "build" /\ pts = <<>>
            /\ \E x \in Band(W), y \in Band(H), dx \in Steps, dy \in Steps, n \in 3..MaxLine :
                 pts' = Line(x, y, dx, dy, n)
            /\ st' = [ph |-> "line"]
Begin == /\ st.ph \in {"build", "line"}
         /\ \E len \in BOOLEAN : st' = [ph |-> "pass", dir |-> 1, i |-> 1, cur |-> pts, len |-> len]
         /\ UNCHANGED pts
Finish(r) == [ph |-> "done", out |-> r, len |-> st.len]
StepPass == /\ st.ph = "pass"
            /\ st' = IF st.i < 1 \/ st.i > Len(pts)                                   \* ran over the whole row
                     THEN (IF st.dir = 1 THEN [st EXCEPT !.dir = -1, !.i = Len(pts)] ELSE Finish(OK(st.cur)))
                     ELSE LET r == NudgePoint(st.cur[st.i], W, H, 2, st.len, FALSE) IN
                          IF r.far THEN Finish(NF)
                          ELSE IF r.nudged THEN [st EXCEPT !.cur[st.i] = r.p, !.i = @ + st.dir]
                          ELSE IF st.dir = 1 THEN [st EXCEPT !.dir = -1, !.i = Len(pts)]   \* first pass found an inside point
                          ELSE Finish(OK(st.cur))
            /\ UNCHANGED pts
EmitNudge == /\ st.ph = "done" /\ Record /\ st.len
             /\ PrintT(<<"GEN", ToJson([op |-> "nudge", w |-> W, h |-> H, s |-> 2, pts |-> pts])>>)
             /\ st' = [ph |-> "end"] /\ UNCHANGED pts
NextNudge == AddPoint \/ MakeLine \/ Begin \/ StepPass \/ EmitNudge

Swap(ps) == [i \in 1..Len(ps) |-> <<ps[i][2], ps[i][1]>>]
Reverse(ps) == [i \in 1..Len(ps) |-> ps[Len(ps) + 1 - i]]
MapPts(r, F(_)) == IF r.nf = 1 THEN r ELSE OK(F(r.pts))
NudgeLaws ==
  st.ph = "done" =>
    LET r == Nudge(pts, W, H, 2, st.len) IN
    /\ st.out = r                                                                    \* automaton = functional form
    /\ Nudge(Swap(pts), H, W, 2, st.len) = MapPts(r, Swap)                           \* x and y edges alike
    /\ Nudge(Reverse(pts), W, H, 2, st.len) = MapPts(r, Reverse)                     \* both ends alike
    /\ (IsLine(pts) => /\ r = PointwiseNudge(pts, W, H, 2, st.len)
                       /\ (r.nf = 0 => \A i \in 1..Len(pts) : Inside(r.pts[i], W, H, 2)))
    /\ (r.nf = 0 => /\ Len(r.pts) = Len(pts)
                    /\ Nudge(r.pts, W, H, 2, st.len) = r                             \* idempotent
                    /\ (Len(pts) >= 1 => Inside(r.pts[1], W, H, 2) /\ Inside(r.pts[Len(pts)], W, H, 2)))
    /\ (~HasAmb(pts, W, H, 2) => Nudge(pts, W, H, 2, TRUE) = Nudge(pts, W, H, 2, FALSE))

(* ------------------------------------------------------------------ SquareToQuad *)
InitQuad == pts \in [1..8 -> 0..Q] /\ st = [ph |-> "quad"]
NextQuad == UNCHANGED vars
QuadLaw == st.ph = "quad" /\ Convex(pts) => SquareToQuadOK(pts)

(* ------------------------------------------------------------------ transform cases *)
Quads == ndJsonDeserialize("quads.ndjson")
InitXform == pts = <<>> /\ st = [ph |-> "x", i |-> 1]
NextXform == /\ st.ph = "x" /\ st.i <= Len(Quads)
             /\ LET c == Quads[st.i]  m == SquareToQuad(c.src) IN
                PrintT(<<"GEN", ToJson([op |-> "xform", src |-> c.src, dst |-> c.dst, f |-> c.f, m |-> c.m,
                     in |-> [k \in 1..(c.m + 1) * (c.m + 1) |-> Apply(m, (k - 1) % (c.m + 1), (k - 1) \div (c.m + 1), c.m)]])>>)
             /\ st' = [st EXCEPT !.i = @ + 1] /\ UNCHANGED pts
=============================================================================
