----------------------------- MODULE BitSource -----------------------------
(* X04: common.BitSource, the cursor over a byte string that the QR and Data Matrix bit-stream parsers read through.       *)
(* Abstract state: the byte string and ONE bit position (the code keeps byteOffset / bitOffset; they are a projection).   *)
(* ReadBits(n) answers the n bits from the position on, most significant first, and advances by n; it refuses n < 1,     *)
(* n > 32 and n > Available() and then leaves the cursor where it was.  Values are given as two 16-bit halves because    *)
(* a 32-bit answer does not fit TLC's integers.                                                                          *)
EXTENDS Integers, Sequences
RECURSIVE Pow2(_)
Pow2(k) == IF k = 0 THEN 1 ELSE 2 * Pow2(k - 1)
NBits(bytes) == 8 * Len(bytes)
\* bit i (0-based, most significant bit of byte 1 first)
Bit(bytes, i) == (bytes[(i \div 8) + 1] \div Pow2(7 - (i % 8))) % 2
RECURSIVE Val(_, _, _)
Val(bytes, p, n) == IF n = 0 THEN 0 ELSE (2 * Val(bytes, p, n - 1)) + Bit(bytes, p + n - 1)
Available(bytes, p) == NBits(bytes) - p
ReadOK(bytes, p, n) == n >= 1 /\ n <= 32 /\ n <= Available(bytes, p)
Hi(bytes, p, n) == IF n > 16 THEN Val(bytes, p, n - 16) ELSE 0
Lo(bytes, p, n) == IF n > 16 THEN Val(bytes, p + n - 16, 16) ELSE Val(bytes, p, n)
\* the answer of ReadBits(n) at position p: [err, hi, lo, pos']
Read(bytes, p, n) ==
  IF ReadOK(bytes, p, n) THEN [err |-> 0, hi |-> Hi(bytes, p, n), lo |-> Lo(bytes, p, n), pos |-> p + n]
  ELSE [err |-> 1, hi |-> 0, lo |-> 0, pos |-> p]
ByteOffset(p) == p \div 8
BitOffset(p) == p % 8
=============================================================================
