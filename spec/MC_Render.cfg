SPECIFICATION SpecL
CONSTANTS
  NMax = 40
  QMax = 40
  ReqMax = 400
  K = 1
INVARIANT Lemmas
CHECK_DEADLOCK FALSE
