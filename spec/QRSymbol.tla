----------------------------- MODULE QRSymbol -----------------------------
(* The QR Code symbol built directly from ISO/IEC 18004: function patterns, format / version information,    *)
(* block split + RS parity + interleaving, zig-zag placement, masking - and the inverse read-out.            *)
(* A matrix is a sequence of rows of 0/1 (row y+1, column x+1), 1 = dark.                                    *)
EXTENDS QRTables

\* 0 = no alignment pattern here, else 1 + Chebyshev distance to the centre of the pattern covering (x,y)
AlignAt(v, x, y) ==
  LET n == NumAlign(v) C == Centers(v)
      hits == { <<i,j>> \in (1..n) \X (1..n) :
                  /\ ~(i = 1 /\ j = 1) /\ ~(i = 1 /\ j = n) /\ ~(i = n /\ j = 1)
                  /\ x >= C[i]-2 /\ x <= C[i]+2 /\ y >= C[j]-2 /\ y <= C[j]+2 }
  IN IF hits = {} THEN 0
     ELSE LET h == CHOOSE h \in hits : TRUE
              dx == IF x >= C[h[1]] THEN x - C[h[1]] ELSE C[h[1]] - x
              dy == IF y >= C[h[2]] THEN y - C[h[2]] ELSE C[h[2]] - y
          IN 1 + (IF dx > dy THEN dx ELSE dy)
IsFunc(v, x, y) == LET d == Dim(v) IN
               \/ (x <= 8 /\ y <= 8) \/ (x >= d-8 /\ y <= 8) \/ (x <= 8 /\ y >= d-8)          \* finders, separators, format areas
               \/ x = 6 \/ y = 6                                                               \* timing
               \/ (v >= 7 /\ ((x < 6 /\ y >= d-11 /\ y <= d-9) \/ (y < 6 /\ x >= d-11 /\ x <= d-9)))   \* version info
               \/ AlignAt(v, x, y) # 0
FMap(v) == TLCEval([yy \in 1..Dim(v) |-> TLCEval([xx \in 1..Dim(v) |-> IF IsFunc(v, xx-1, yy-1) THEN 1 ELSE 0])])

(* placement order (7.7.3): two-module wide columns from the right, alternately upwards and downwards, skipping the *)
(* vertical timing column; within a pair the right module first                                                    *)
NPairs(v) == (Dim(v) - 1) \div 2
RightCol(v, p) == LET c == Dim(v) - 1 - 2*p IN IF c <= 6 THEN c - 1 ELSE c
PairSeq(v, p, fm) == LET d == Dim(v) rc == RightCol(v, p)
                         up == (p % 2 = 0)
                         cells == [k \in 1..(2*d) |-> <<rc - ((k-1) % 2), IF up THEN d - 1 - ((k-1) \div 2) ELSE (k-1) \div 2>>]
                     IN SelectSeq(cells, LAMBDA c : fm[c[2]+1][c[1]+1] = 0)
RECURSIVE Cat(_,_,_,_)
Cat(v, p, acc, fm) == IF p = NPairs(v) THEN acc ELSE Cat(v, p+1, acc \o PairSeq(v, p, fm), fm)
Positions(v, fm) == Cat(v, 0, <<>>, fm)          \* sequence of <<x, y>>, one per data/remainder module

(* block structure: data codewords are split into NBlocks blocks (the last NumLong ones are one longer), each gets *)
(* ECPer parity codewords; the final stream takes the blocks' i-th data codewords in turn, then the parity likewise *)
BlockLen(v, ec, b) == ShortLen(v, ec) + (IF b > NBlocks(v, ec) - NumLong(v, ec) THEN 1 ELSE 0)
BlockStart(v, ec, b) == (b-1)*ShortLen(v, ec) + (IF b > NBlocks(v, ec) - NumLong(v, ec) THEN b - 1 - (NBlocks(v, ec) - NumLong(v, ec)) ELSE 0)
Blocks(v, ec, data) == [b \in 1..NBlocks(v, ec) |->
                         LET blk == SubSeq(data, BlockStart(v, ec, b) + 1, BlockStart(v, ec, b) + BlockLen(v, ec, b))
                         IN [d |-> blk, e |-> Parity(blk, ECPer(v, ec))]]
\* stream index (1-based) of data codeword i of block b / parity codeword i of block b
DataIdx(v, ec, b, i) == LET nb == NBlocks(v, ec) sl == ShortLen(v, ec) IN
                        IF i <= sl THEN (i-1)*nb + b ELSE sl*nb + (b - (nb - NumLong(v, ec)))
EccIdx(v, ec, b, i) == DataCodewords(v, ec) + (i-1)*NBlocks(v, ec) + b
Stream(v, ec, data) ==
  LET B == TLCEval(Blocks(v, ec, data)) nb == NBlocks(v, ec) nd == DataCodewords(v, ec) sl == ShortLen(v, ec)
      at(k) == IF k <= sl*nb THEN B[((k-1) % nb) + 1].d[((k-1) \div nb) + 1]
               ELSE IF k <= nd THEN B[(nb - NumLong(v, ec)) + (k - sl*nb)].d[sl + 1]
               ELSE B[((k-nd-1) % nb) + 1].e[((k-nd-1) \div nb) + 1]
  IN TLCEval([k \in 1..TotalCodewords(v) |-> at(k)])

(* the value of every function module *)
FuncVal(v, ec, mask, x, y) ==
  LET d == Dim(v)
      finder(fx, fy) == LET dx == IF x >= fx THEN x - fx ELSE fx - x
                            dy == IF y >= fy THEN y - fy ELSE fy - y
                            m == IF dx > dy THEN dx ELSE dy
                        IN IF m <= 1 \/ m = 3 THEN 1 ELSE 0      \* 3x3 dark core, light ring, dark border
      fw == FormatWord(ec, mask)
      vw == VersionWord(v)
  IN  IF x = 8 /\ y <= 5 THEN Bit(fw, y)                          \* format information, copy around the top-left finder
      ELSE IF x = 8 /\ y = 7 THEN Bit(fw, 6)
      ELSE IF x = 8 /\ y = 8 THEN Bit(fw, 7)
      ELSE IF y = 8 /\ x = 7 THEN Bit(fw, 8)
      ELSE IF y = 8 /\ x <= 5 THEN Bit(fw, 14 - x)
      ELSE IF y = 8 /\ x >= d - 8 THEN Bit(fw, d - 1 - x)         \* second copy: top-right ...
      ELSE IF x = 8 /\ y = d - 8 THEN 1                            \* dark module
      ELSE IF x = 8 /\ y >= d - 7 THEN Bit(fw, y - (d - 15))      \* ... and bottom-left
      ELSE IF v >= 7 /\ x < 6 /\ y >= d-11 /\ y <= d-9 THEN Bit(vw, x*3 + (y - (d-11)))   \* version information, bottom-left block
      ELSE IF v >= 7 /\ y < 6 /\ x >= d-11 /\ x <= d-9 THEN Bit(vw, y*3 + (x - (d-11)))   \* and its transpose, top-right
      ELSE IF x <= 7 /\ y <= 7 THEN (IF x = 7 \/ y = 7 THEN 0 ELSE finder(3, 3))
      ELSE IF x >= d-8 /\ y <= 7 THEN (IF x = d-8 \/ y = 7 THEN 0 ELSE finder(d-4, 3))
      ELSE IF x <= 7 /\ y >= d-8 THEN (IF x = 7 \/ y = d-8 THEN 0 ELSE finder(3, d-4))
      ELSE IF AlignAt(v, x, y) # 0 THEN (IF AlignAt(v, x, y) = 2 THEN 0 ELSE 1)
      ELSE IF y = 6 THEN (x + 1) % 2
      ELSE IF x = 6 THEN (y + 1) % 2
      ELSE 2   \* not a function module

CwBit(cw, k) == IF k <= 8 * Len(cw) THEN (cw[((k-1) \div 8) + 1] \div 2^(7 - ((k-1) % 8))) % 2 ELSE 0   \* remainder bits are 0
\* compare a matrix (rows of 0/1) with the reference symbol for the codeword stream cw: <<size ok, data ok, function ok>>
RefCheck(rows, v, ec, mask, cw, fm, pos) ==
  LET d == Dim(v)
      sizeOK == Len(rows) = d /\ (\A y \in 1..d : Len(rows[y]) = d) /\ Len(pos) = RawModules(v) /\ Len(cw) = TotalCodewords(v)
  IN IF ~sizeOK THEN <<FALSE, FALSE, FALSE>>
     ELSE <<TRUE,
            \A k \in 1..Len(pos) : LET p == pos[k] b == CwBit(cw, k) IN
                                   rows[p[2]+1][p[1]+1] = IF MaskBit(mask, p[1], p[2]) THEN 1 - b ELSE b,
            \A x \in 0..d-1, y \in 0..d-1 : fm[y+1][x+1] = 1 => rows[y+1][x+1] = FuncVal(v, ec, mask, x, y)>>
RECURSIVE PlaceData(_,_,_,_,_,_)
PlaceData(flat, d, mask, cw, pos, k) ==
  IF k > Len(pos) THEN flat
  ELSE LET p == pos[k] b == CwBit(cw, k) IN
       PlaceData([flat EXCEPT ![p[2]*d + p[1] + 1] = IF MaskBit(mask, p[1], p[2]) THEN 1 - b ELSE b], d, mask, cw, pos, k + 1)
\* the complete reference matrix (used on small versions by MC_QR; trace validation uses RefCheck)
RefMatrix(v, ec, mask, cw, fm, pos) ==
  LET d == Dim(v)
      f0 == [i \in 1..d*d |-> LET x == (i-1) % d y == (i-1) \div d IN IF fm[y+1][x+1] = 1 THEN FuncVal(v, ec, mask, x, y) ELSE 0]
      flat == PlaceData(f0, d, mask, cw, pos, 1)
  IN [y \in 1..d |-> [x \in 1..d |-> flat[(y-1)*d + x]]]

(* inverse direction *)
ReadCodewords(rows, v, mask, pos) ==
  LET ub(k) == LET p == pos[k] m == rows[p[2]+1][p[1]+1] IN IF MaskBit(mask, p[1], p[2]) THEN 1 - m ELSE m
  IN TLCEval([c \in 1..TotalCodewords(v) |->
        128*ub(8*c-7) + 64*ub(8*c-6) + 32*ub(8*c-5) + 16*ub(8*c-4) + 8*ub(8*c-3) + 4*ub(8*c-2) + 2*ub(8*c-1) + ub(8*c)])
\* data codewords in their original order, recovered from an interleaved stream
Deinterleave(v, ec, cw) ==
  LET blockOf(k) == CHOOSE b \in 1..NBlocks(v, ec) : k > BlockStart(v, ec, b) /\ k <= BlockStart(v, ec, b) + BlockLen(v, ec, b)
  IN TLCEval([k \in 1..DataCodewords(v, ec) |-> LET b == blockOf(k) IN cw[DataIdx(v, ec, b, k - BlockStart(v, ec, b))]])
\* the two copies of the 15 format bits and of the 18 version bits as coordinate lists, bit 0 first
Format1(d) == [i \in 0..14 |-> IF i <= 5 THEN <<8, i>> ELSE IF i = 6 THEN <<8, 7>> ELSE IF i = 7 THEN <<8, 8>> ELSE IF i = 8 THEN <<7, 8>> ELSE <<14 - i, 8>>]
Format2(d) == [i \in 0..14 |-> IF i <= 7 THEN <<d - 1 - i, 8>> ELSE <<8, d - 15 + i>>]
Version1(d) == [i \in 0..17 |-> <<i \div 3, d - 11 + (i % 3)>>]
Version2(d) == [i \in 0..17 |-> <<d - 11 + (i % 3), i \div 3>>]
=============================================================================
