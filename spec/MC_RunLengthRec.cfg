INIT InitRec
NEXT NextRec
CONSTANTS
  MaxLen = 8
  MaxN = 4
  MaxK = 3
  Record = FALSE
  Extra <- QuickExtra
  Bound3 = 8
  Bound4 = 6
  Bound5 = 3
INVARIANTS RecAgree RecMeaning
CHECK_DEADLOCK FALSE
