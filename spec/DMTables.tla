----------------------------- MODULE DMTables -----------------------------
(* ISO/IEC 16022 (ECC 200) numbers, from the standard's Table 7 and formulae - not from gozxing's tables.      *)
EXTENDS Integers, Sequences, FiniteSets, TLC, Bitwise

\* Table 7: <<symbol rows, symbol cols, data codewords, error codewords, region rows, region cols (data region size),
\*            horizontal regions, vertical regions, interleaved blocks>>; 24 squares then 6 rectangles
T7 == << <<10,10,3,5,8,8,1,1,1>>, <<12,12,5,7,10,10,1,1,1>>, <<14,14,8,10,12,12,1,1,1>>, <<16,16,12,12,14,14,1,1,1>>,
         <<18,18,18,14,16,16,1,1,1>>, <<20,20,22,18,18,18,1,1,1>>, <<22,22,30,20,20,20,1,1,1>>, <<24,24,36,24,22,22,1,1,1>>,
         <<26,26,44,28,24,24,1,1,1>>, <<32,32,62,36,14,14,2,2,1>>, <<36,36,86,42,16,16,2,2,1>>, <<40,40,114,48,18,18,2,2,1>>,
         <<44,44,144,56,20,20,2,2,1>>, <<48,48,174,68,22,22,2,2,1>>, <<52,52,204,84,24,24,2,2,2>>, <<64,64,280,112,14,14,4,4,2>>,
         <<72,72,368,144,16,16,4,4,4>>, <<80,80,456,192,18,18,4,4,4>>, <<88,88,576,224,20,20,4,4,4>>, <<96,96,696,272,22,22,4,4,4>>,
         <<104,104,816,336,24,24,4,4,6>>, <<120,120,1050,408,18,18,6,6,6>>, <<132,132,1304,496,20,20,6,6,8>>, <<144,144,1558,620,22,22,6,6,10>>,
         <<8,18,5,7,6,16,1,1,1>>, <<8,32,10,11,6,14,2,1,1>>, <<12,26,16,14,10,24,1,1,1>>, <<12,36,22,18,10,16,2,1,1>>,
         <<16,36,32,24,14,16,2,1,1>>, <<16,48,49,28,14,22,2,1,1>> >>
NSizes == 30
SRows(t) == t[1]  SCols(t) == t[2]  NData(t) == t[3]  NEcc(t) == t[4]  RRows(t) == t[5]  RCols(t) == t[6]
HReg(t) == t[7]   VReg(t) == t[8]   NBlk(t) == t[9]
MapRows(t) == t[5] * t[8]
MapCols(t) == t[6] * t[7]
IsRect(t) == t[1] # t[2]
SizeIdx(h, w) == LET S == {i \in 1..NSizes : T7[i][1] = h /\ T7[i][2] = w} IN IF S = {} THEN 0 ELSE CHOOSE i \in S : TRUE
\* structural laws (checked by MC_DM): data + ec = mapping modules / 8, symbol size = regions * (region + 2), blocks divide ec
TableLaw(t) == /\ t[3] + t[4] = (MapRows(t) * MapCols(t)) \div 8
               /\ t[1] = t[8] * (t[5] + 2) /\ t[2] = t[7] * (t[6] + 2)
               /\ t[4] % t[9] = 0 /\ (t[3] + t[4]) \div t[9] <= 255
\* data codewords of interleaved block b (1-based): codeword i belongs to block ((i-1) mod blocks)+1
BlockDataLen(t, b) == (NData(t) \div NBlk(t)) + (IF b <= NData(t) % NBlk(t) THEN 1 ELSE 0)
EccPerBlock(t) == NEcc(t) \div NBlk(t)

\* capacity order used for symbol selection: by data capacity, square before rectangle at equal capacity
OrderKey(i) == T7[i][3] * 2 + (IF IsRect(T7[i]) THEN 1 ELSE 0)
Order == <<1, 2, 25, 3, 26, 4, 27, 5, 6, 28, 7, 29, 8, 9, 30, 10, 11, 12, 13, 14, 15, 16, 17, 18, 19, 20, 21, 22, 23, 24>>
OrderLaw == /\ {Order[k] : k \in 1..NSizes} = 1..NSizes /\ Len(Order) = NSizes
            /\ \A k \in 1..NSizes-1 : OrderKey(Order[k]) < OrderKey(Order[k+1])
\* shape: 0 none, 1 force square, 2 force rectangle; min / max = <<w, h>> or <<>>
Admissible(i, shape, mn, mx) == LET t == T7[i] IN
   /\ ~(shape = 1 /\ IsRect(t)) /\ ~(shape = 2 /\ ~IsRect(t))
   /\ (mn # <<>> => ~(SCols(t) < mn[1] \/ SRows(t) < mn[2]))
   /\ (mx # <<>> => ~(SCols(t) > mx[1] \/ SRows(t) > mx[2]))
Lookup(n, shape, mn, mx) == LET ok == {k \in 1..NSizes : Admissible(Order[k], shape, mn, mx) /\ n <= NData(T7[Order[k]])} IN
                            IF ok = {} THEN 0 ELSE Order[CHOOSE k \in ok : \A j \in ok : k <= j]

(* ---- GF(256) modulo x^8+x^5+x^3+x^2+1 (0x12D); generator polynomial with roots alpha^1..alpha^n *)
XT(x) == LET s == x*2 IN IF s >= 256 THEN s ^^ 301 ELSE s
\* alpha^i (i = 0..254) and the discrete logarithm as literal tables (a literal is evaluated once and costs nothing to look up);
\* TableLaws - proved by TLC in the MC_* model - ties them to the definition: alpha = x, multiplication by x is a shift and a
\* conditional xor with the primitive polynomial, alpha is primitive, LogT inverts ExpT.
ExpT == <<
  1, 2, 4, 8, 16, 32, 64, 128, 45, 90, 180, 69, 138, 57, 114, 228, 229, 231, 227, 235, 251, 219, 155, 27, 54, 108, 216, 157, 23, 46, 92, 184,
  93, 186, 89, 178, 73, 146, 9, 18, 36, 72, 144, 13, 26, 52, 104, 208, 141, 55, 110, 220, 149, 7, 14, 28, 56, 112, 224, 237, 247, 195, 171, 123,
  246, 193, 175, 115, 230, 225, 239, 243, 203, 187, 91, 182, 65, 130, 41, 82, 164, 101, 202, 185, 95, 190, 81, 162, 105, 210, 137, 63, 126, 252, 213, 135,
  35, 70, 140, 53, 106, 212, 133, 39, 78, 156, 21, 42, 84, 168, 125, 250, 217, 159, 19, 38, 76, 152, 29, 58, 116, 232, 253, 215, 131, 43, 86, 172,
  117, 234, 249, 223, 147, 11, 22, 44, 88, 176, 77, 154, 25, 50, 100, 200, 189, 87, 174, 113, 226, 233, 255, 211, 139, 59, 118, 236, 245, 199, 163, 107,
  214, 129, 47, 94, 188, 85, 170, 121, 242, 201, 191, 83, 166, 97, 194, 169, 127, 254, 209, 143, 51, 102, 204, 181, 71, 142, 49, 98, 196, 165, 103, 206,
  177, 79, 158, 17, 34, 68, 136, 61, 122, 244, 197, 167, 99, 198, 161, 111, 222, 145, 15, 30, 60, 120, 240, 205, 183, 67, 134, 33, 66, 132, 37, 74,
  148, 5, 10, 20, 40, 80, 160, 109, 218, 153, 31, 62, 124, 248, 221, 151, 3, 6, 12, 24, 48, 96, 192, 173, 119, 238, 241, 207, 179, 75, 150 >>
LogT == <<
  0, 1, 240, 2, 225, 241, 53, 3, 38, 226, 133, 242, 43, 54, 210, 4, 195, 39, 114, 227, 106, 134, 28, 243, 140, 44, 23, 55, 118, 211, 234, 5,
  219, 196, 96, 40, 222, 115, 103, 228, 78, 107, 125, 135, 8, 29, 162, 244, 186, 141, 180, 45, 99, 24, 49, 56, 13, 119, 153, 212, 199, 235, 91, 6,
  76, 220, 217, 197, 11, 97, 184, 41, 36, 223, 253, 116, 138, 104, 193, 229, 86, 79, 171, 108, 165, 126, 145, 136, 34, 9, 74, 30, 32, 163, 84, 245,
  173, 187, 204, 142, 81, 181, 190, 46, 88, 100, 159, 25, 231, 50, 207, 57, 147, 14, 67, 120, 128, 154, 248, 213, 167, 200, 63, 236, 110, 92, 176, 7,
  161, 77, 124, 221, 102, 218, 95, 198, 90, 12, 152, 98, 48, 185, 179, 42, 209, 37, 132, 224, 52, 254, 239, 117, 233, 139, 22, 105, 27, 194, 113, 230,
  206, 87, 158, 80, 189, 172, 203, 109, 175, 166, 62, 127, 247, 146, 66, 137, 192, 35, 252, 10, 183, 75, 216, 31, 83, 33, 73, 164, 144, 85, 170, 246,
  65, 174, 61, 188, 202, 205, 157, 143, 169, 82, 72, 182, 215, 191, 251, 47, 178, 89, 151, 101, 94, 160, 123, 26, 112, 232, 21, 51, 238, 208, 131, 58,
  69, 148, 18, 15, 16, 68, 17, 121, 149, 129, 19, 155, 59, 249, 70, 214, 250, 168, 71, 201, 156, 64, 60, 237, 130, 111, 20, 93, 122, 177, 150 >>
TableLaws == /\ Len(ExpT) = 255 /\ Len(LogT) = 255 /\ ExpT[1] = 1 /\ XT(ExpT[255]) = 1
             /\ \A i \in 1..254 : ExpT[i+1] = XT(ExpT[i])
             /\ \A x \in 1..255 : LogT[x] \in 0..254 /\ ExpT[LogT[x] + 1] = x
             /\ \A i \in 0..254 : LogT[ExpT[i+1]] = i
Mul(a, b) == IF a = 0 \/ b = 0 THEN 0 ELSE ExpT[((LogT[a] + LogT[b]) % 255) + 1]
PolyMulX(g, r) == LET n == Len(g) IN
   TLCEval([i \in 1..n+1 |-> (IF i <= n THEN g[i] ELSE 0) ^^ (IF i >= 2 THEN Mul(g[i-1], r) ELSE 0)])
RECURSIVE Gen(_,_)
Gen(d, g) == IF d = 0 THEN g ELSE Gen(d-1, PolyMulX(g, ExpT[d+1]))
RECURSIVE Rem(_,_,_,_)
Rem(data, i, reg, g) == IF i > Len(data) THEN reg
   ELSE LET fb == data[i] ^^ reg[1]
            n == Len(reg)
        IN Rem(data, i+1, TLCEval([k \in 1..n |-> (IF k < n THEN reg[k+1] ELSE 0) ^^ Mul(fb, g[k+1])]), g)
Parity(data, r) == Rem(data, 1, [k \in 1..r |-> 0], Gen(r, <<1>>))
RECURSIVE Horner(_,_,_,_)
Horner(w, i, x, acc) == IF i > Len(w) THEN acc ELSE Horner(w, i+1, x, Mul(acc, x) ^^ w[i])
Syndrome(w, i) == Horner(w, 1, ExpT[i+1], 0)          \* evaluation at alpha^i

\* all codewords of the symbol: data, then the parity of the interleaved blocks, interleaved
BlockData(t, data, b) == LET nb == NBlk(t) IN [k \in 1..BlockDataLen(t, b) |-> data[(k-1)*nb + b]]
Codewords(t, data) ==
  LET nb == NBlk(t)
      par == TLCEval([b \in 1..nb |-> Parity(BlockData(t, data, b), EccPerBlock(t))])
  IN data \o [j \in 1..NEcc(t) |-> par[((j-1) % nb) + 1][((j-1) \div nb) + 1]]
\* index (1-based, in the full codeword sequence) of codeword i (data then parity) of block b
BlockCwIdx(t, b, i) == IF i <= BlockDataLen(t, b) THEN (i-1)*NBlk(t) + b ELSE NData(t) + (i - BlockDataLen(t, b) - 1)*NBlk(t) + b

\* 253-state randomisation of pad codewords and 255-state randomisation of Base-256 codewords (position is 1-based)
Pad253(pos) == LET r == ((149 * pos) % 253) + 1 t == 129 + r IN IF t <= 254 THEN t ELSE t - 254
Rand255(v, pos) == LET r == ((149 * pos) % 255) + 1 t == v + r IN IF t <= 255 THEN t ELSE t - 256
UnRand255(c, pos) == LET r == ((149 * pos) % 255) + 1 t == c - r IN IF t >= 0 THEN t ELSE t + 256
=============================================================================
