SPECIFICATION Spec
CONSTANTS
  Fid = 3
  Fields = {3}
  Rows <- AllRows
INVARIANT Sound
CHECK_DEADLOCK FALSE
