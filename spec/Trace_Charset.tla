--------------------------- MODULE Trace_Charset ---------------------------
(* Trace validation for C15: every event is one call of the real code, judged against Charset.tla.               *)
(*  byname / bycs : the registry resolves a name / alias (and the character set object of an entry) to the entry   *)
(*                  the specification lists, with its canonical name and first ECI number; unknown names to nothing *)
(*  lookup        : a block of ECI numbers: registered entries, "nothing" and format errors exactly as specified    *)
(*  guess         : the character set guessed for un-designated bytes is the one the specified fold yields          *)
(*                  (a named decode hint wins)                                                                      *)
(*  qr            : write with / without CHARACTER_SET hint, read back: representable text comes back unchanged, a   *)
(*                  hinted byte-mode symbol carries the registered designator and its byte segment is the text's    *)
(*                  bytes in that character set; unrepresentable text is refused                                     *)
(*  parse         : a byte-mode stream with an optional ECI designator and an optional decode hint: decoded with    *)
(*                  designator > hint > guess; unregistered / out-of-range designators are format errors            *)
(* Rejections: <<index, op, tag>>, tag "premise" (input data not as specified: plumbing) or "code".               *)
EXTENDS Charset, TraceLib
VARIABLES l, bad
vars == <<l, bad>>
Init == l = 1 /\ bad = <<>>

RECURSIVE SortedSeq(_,_)
SortedSeq(S, acc) == IF S = {} THEN acc ELSE LET m == CHOOSE x \in S : \A y \in S : x <= y IN SortedSeq(S \ {m}, Append(acc, m))
Entry(k) == <<Registry[k].name, Registry[k].vals[1]>>
NameOK(e, k) == IF k >= 1 THEN e.found = 1 /\ <<e.oname, e.oval>> = Entry(k) ELSE e.found = 0
LookupOK(e) ==
  LET vs == SortedSeq({v \in AllValues : v >= e.lo /\ v < e.lo + e.n /\ v < 900}, <<>>)
      nerr == Cardinality({v \in e.lo..(e.lo + e.n - 1) : v < 0 \/ v >= 900})
  IN /\ e.hits = [i \in 1..Len(vs) |-> <<vs[i]>> \o Entry(ByValue(vs[i]))]
     /\ e.nerr = nerr /\ e.nnone = e.n - nerr - Len(vs)
\* head of the raw codewords of a read symbol: <<mode nibble after an optional designator, designator value or -1>>
HeadInfo(head) == LET bits == BytesToBits(head) IN
  IF Len(bits) < 32 THEN <<-1, -1>>
  ELSE IF ValAt(bits, 1, 4, 0) = ModeECI
       THEN LET p == ParseECI(bits, 5) IN IF p[1] < 0 THEN <<-1, -1>> ELSE <<ValAt(bits, 5 + p[2], 4, 0), p[1]>>
       ELSE <<ValAt(bits, 1, 4, 0), -1>>
QrPremise(e, k) ==
  /\ IsCpSeq(e.text) /\ Len(e.text) >= 1 /\ IsByteSeq(e.enc) /\ e.rep \in {0, 1}
  /\ (e.hint = "" /\ e.cs = "UTF-8") \/ (k >= 1 /\ e.cs = Registry[k].name)
QrOK(e, k) ==
  IF e.rep = 0 THEN e.werr = 1                                        \* not representable: refused
  ELSE LET h == HeadInfo(e.head) IN
       /\ e.werr = 0 /\ e.rerr = 0 /\ e.otext = e.text                 \* comes back as exactly that text
       /\ h[1] = ModeByte /\ k >= 1 => h[2] = Registry[k].vals[1]      \* hinted byte mode carries the registered designator
       /\ h[2] >= 0 => (IF k >= 1 THEN h[2] \in ValuesOf(k) ELSE ByValue(h[2]) = ByName("UTF-8"))
       /\ h[1] = ModeByte /\ k >= 1 => e.segs = <<e.enc>>               \* ... and the text's bytes in that character set
ParsePremise(e) ==
  /\ IsByteSeq(e.bytes) /\ e.eci \in -1..MaxECI /\ e.stream = ByteStream(e.eci, e.bytes)
  /\ (e.hint = "" \/ ByName(e.hint) >= 1)
ParseOK(e) ==
  LET ek == IF e.eci >= 0 THEN ByValue(e.eci) ELSE 0
      hk == IF e.hint = "" THEN 0 ELSE ByName(e.hint)
  IN IF e.eci >= 0 /\ ek < 1 THEN e.err = 1                            \* unregistered or out of range: format error
     ELSE IF e.cs # SegmentCharset(ek, hk, e.bytes) THEN FALSE        \* (premise on cs, reported as premise below)
     ELSE IF e.decok = 0 THEN e.err \in {0, 1}                         \* bytes x/text cannot decode: nothing demanded
     ELSE e.err = 0 /\ e.otext = e.dec /\ e.segs = <<e.bytes>>
Judge(e) ==      \* "ok" | "premise" | "code"
  IF e.panic # 0 THEN "code"
  ELSE CASE e.op = "byname" -> IF NameOK(e, ByName(e.name)) THEN "ok" ELSE "code"
         [] e.op = "bycs" -> IF ByName(e.name) < 1 THEN "premise" ELSE IF NameOK(e, ByName(e.name)) THEN "ok" ELSE "code"
         [] e.op = "lookup" -> IF ~(e.n \in 1..1000 /\ e.lo \in -1000..MaxECI) THEN "premise" ELSE IF LookupOK(e) THEN "ok" ELSE "code"
         [] e.op = "guess" ->
              IF ~IsByteSeq(e.bytes) \/ (e.hint # "" /\ ByName(e.hint) < 1) THEN "premise"
              ELSE IF e.err = 0 /\ e.guess = SegmentCharset(0, IF e.hint = "" THEN 0 ELSE ByName(e.hint), e.bytes) THEN "ok" ELSE "code"
         [] e.op = "qr" ->
              LET k == IF e.hint = "" THEN 0 ELSE ByName(e.hint) IN
              \* hmut: the reader wrote into the hints map its caller keeps for all reads (a guess must not outlive its call)
              IF ~QrPremise(e, k) THEN "premise" ELSE IF QrOK(e, k) /\ e.hmut = 0 THEN "ok" ELSE "code"
         [] e.op = "parse" ->
              IF ~ParsePremise(e) THEN "premise"
              ELSE LET ek == IF e.eci >= 0 THEN ByValue(e.eci) ELSE 0  hk == IF e.hint = "" THEN 0 ELSE ByName(e.hint) IN
                   IF ~(e.eci >= 0 /\ ek < 1) /\ e.cs # SegmentCharset(ek, hk, e.bytes) THEN "premise"
                   ELSE IF ParseOK(e) /\ e.hmut = 0 THEN "ok" ELSE "code"
         [] OTHER -> "premise"
Next ==
  /\ l <= NEv
  /\ l' = l + 1
  /\ \E v \in {Judge(Tr[l])} : bad' = IF v = "ok" THEN bad ELSE Append(bad, <<l, Tr[l].op, v>>)
Spec == Init /\ [][Next]_vars
Done == l = NEv + 1 => WriteBad(l, bad)
=============================================================================
