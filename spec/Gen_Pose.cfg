SPECIFICATION GenSpec
CONSTANTS
  Pads = {0, 1, 3, 10}
  Scales = {1, 2, 3, 4, 5, 6}
CHECK_DEADLOCK FALSE
