INIT InitScore
NEXT NextScore
CONSTANTS
  MaxLen = 8
  MaxN = 4
  MaxK = 3
  Record = TRUE
  Extra <- QuickExtra
  Bound3 = 10
  Bound4 = 6
  Bound5 = 3
INVARIANTS ScoreLaws
CHECK_DEADLOCK FALSE
