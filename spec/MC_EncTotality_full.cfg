SPECIFICATION Spec
CONSTANTS
  Mode = "laws"
  Lite = FALSE
  Returns = TRUE
  Groups = {1, 2, 3}
INVARIANT Laws
INVARIANT VerdictLaw
CHECK_DEADLOCK FALSE
