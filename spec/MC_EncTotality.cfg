SPECIFICATION Spec
CONSTANTS
  Mode = "laws"
  Lite = TRUE
  Returns = FALSE
  Groups = {2}
INVARIANT Laws
INVARIANT VerdictLaw
CHECK_DEADLOCK FALSE
