SPECIFICATION Spec
CONSTANTS
  Mode = "laws"
  Returns = FALSE
  Groups = {2}
INVARIANT Laws
INVARIANT VerdictLaw
CHECK_DEADLOCK FALSE
