SPECIFICATION Spec
CONSTANTS
  Syms = {1, 2}
  MaxRows = 5
  MaxImages = 3
  MustReset = TRUE
INVARIANTS NoStale ThreeRows Answered
CHECK_DEADLOCK FALSE
