----------------------------- MODULE Trace_Pose -----------------------------
(* Trace validation for C09: every recorded write -> pose -> read of the real writers / readers (stateless events).  *)
(*  pose  : safety (the content or a reader error, never another text), the upside-down and sideways clauses for     *)
(*          1-D symbols through the retry automaton of Retry.tla fed with the reference readings of the written     *)
(*          module row, the mirrored flag for located QR symbols;                                                  *)
(*  qrmat : Decoder.Decode on the module matrix and on its transpose: the content, flagged exactly when transposed;  *)
(*  xform : the driver's posed image is the image Pose.tla defines, pixel by pixel.                                 *)
(* bad entries: <<index, reason, diagnostic>>.                                                                      *)
EXTENDS Pose, TraceLib
VARIABLES l, bad
vars == <<l, bad>>

IsSeqOf(s, S) == DOMAIN s = 1..Len(s) /\ \A i \in 1..Len(s) : s[i] \in S
PoseOf(e) == [pad |-> e.pad, scale |-> e.scale, rot |-> e.rot, mir |-> e.mir]
Kinds == {"notfound", "checksum", "format"}
Rej(why, diag) == << <<why, diag>> >>

ShapePose(e) ==
  /\ e.sym \in Syms /\ PoseOK(PoseOf(e)) /\ e.th \in {0, 1} /\ e.rd \in {"own", "multi", "ext"}
  /\ IsSeqOf(e.c, 0..255) /\ IsSeqOf(e.text, 0..255) /\ IsSeqOf(e.dtext, 0..255) /\ IsSeqOf(e.runs, 1..100000)
  /\ e.werr \in {0, 1} /\ e.err \in {0, 1} /\ e.derr \in {0, 1} /\ e.panic \in {0, 1}
  /\ e.w0 \in 0..100000 /\ e.h0 \in 0..100000 /\ e.w \in 0..1000000 /\ e.hh \in 0..1000000
  /\ e.lead \in 0..100000 /\ e.trail \in 0..100000 /\ e.same \in {0, 1}
  /\ e.orient \in {-2, -1, 0, 90, 180, 270} /\ e.mirf \in {-1, 0, 1}

\* the posed image has the dimensions Pose.tla gives it
DimsOK(e) == LET p == PoseOf(e)
                 bw == IF p.mir = 1 THEN e.h0 ELSE e.w0   bh == IF p.mir = 1 THEN e.w0 ELSE e.h0
                 W == bw * p.scale + 2 * p.pad   H == bh * p.scale + 2 * p.pad
             IN IF p.rot \in {0, 180} THEN e.w = W /\ e.hh = H ELSE e.w = H /\ e.hh = W

Judge1D(e) ==
  LET p == PoseOf(e)
      mr == ModuleRuns(e.runs)
      g == GCDSeq(e.runs)
      \* se = 1: the RETURN_CODABAR_START_END hint was passed (the answer keeps the guard characters)
      rdr == IF e.rd = "multi" THEN "MULTI" ELSE IF e.rd = "ext" THEN "C39X"
             ELSE IF e.sym = "CBAR" /\ Has(e, "se") /\ e.se = 1 THEN "CBARSE" ELSE e.sym
      F == ToR(ReadSym(rdr, mr))
      B == ToR(ReadSym(rdr, Rev(mr)))
      want == Expected1D(e.w0, e.h0, p, e.th = 1, F, B)
      ok == Allowed1D(e.w0, e.h0, p, F, B)
      orient == IF e.orient = -1 THEN 0 ELSE e.orient
      \* right quiet zone of the posed symbol in its own frame, in pixels; the module is g * scale pixels wide
      trailpx == e.trail * p.scale + p.pad
      diag == IF e.sym = "UPCE" /\ trailpx < 7 * g * p.scale THEN "UPC-E rendered with a right quiet zone below 7 modules" ELSE "other"
  IN IF e.runs = <<>> \/ e.same # 1 \/ e.lead + SumSeq(e.runs) + e.trail # e.w0 \/ p.mir # 0
     THEN Rej("ill-shaped observation", "written row")
     ELSE IF e.err = 1 THEN
       (IF e.kind \notin Kinds THEN Rej("reader failed with something that is not a NotFound / Checksum / Format error", e.kind)
        ELSE IF MustRead(e.sym, p, e.th) /\ want.out.k = "ok"
             THEN Rej(IF p.rot = 180 THEN "upside-down symbol is not read" ELSE "sideways symbol is not read with TRY_HARDER", diag)
        ELSE <<>>)
     ELSE IF <<e.text, orient>> \in ok THEN <<>>
     ELSE IF \E a \in ok : a[1] = e.text THEN Rej("symbol read with the wrong ORIENTATION", "other")
     ELSE Rej("symbol read as something else than its content",
              \* the row decoder met the reversed row first and the answer is a UPC-E number whose check digit verifies
              IF e.sym = "UPCE" /\ e.fmt = "UPC_E" /\ p.rot \in {180, 270} /\ orient = (IF p.rot = 180 THEN 0 ELSE 270)
                 /\ TextVerifies("UPCE", e.text)
              THEN "UPC-E: check-verifying reading of the reversed row by the width-normalising digit matcher" ELSE "other")

Judge2D(e) ==
  LET p == PoseOf(e) IN
  IF e.sym = "DM" /\ p.mir # 0 THEN Rej("ill-shaped observation", "mirror")
  ELSE IF e.err = 1 THEN
    (IF e.kind \in Kinds THEN <<>> ELSE Rej("reader failed with something that is not a NotFound / Checksum / Format error", e.kind))
  ELSE IF e.text # e.c THEN Rej("symbol read as something else than its content", "other")
  ELSE IF e.sym = "QR" THEN
    \* the detector -> decoder path exposes the decoder result of the same reading
    (IF e.derr = 1 \/ e.dtext # e.text THEN Rej("detector -> decoder path disagrees with the reader", "other")
     ELSE IF [out |-> ROk(e.dtext), mir |-> e.mirf] \in AllowedQR(e.c, p.mir) THEN <<>>
     ELSE Rej(IF p.mir = 1 THEN "mirrored symbol is not flagged as mirrored" ELSE "plain symbol is flagged as mirrored", "other"))
  ELSE <<>>

JudgePose(e) ==
  IF ~ShapePose(e) THEN Rej("ill-shaped observation", "")
  ELSE IF e.panic = 1 THEN Rej("panic", "")
  ELSE IF e.werr = 1 THEN <<>>                                  \* nothing was written: nothing to judge (C01 / C02 / C03 judge the writers)
  ELSE IF ~DimsOK(e) THEN Rej("ill-shaped observation", "dimensions of the posed image")
  ELSE IF Is1D(e.sym) THEN Judge1D(e) ELSE Judge2D(e)

ShapeMat(e) == /\ IsSeqOf(e.c, 0..255) /\ IsSeqOf(e.text, 0..255) /\ e.mir \in {0, 1} /\ e.werr \in {0, 1} /\ e.err \in {0, 1}
               /\ e.panic \in {0, 1} /\ e.mirf \in {-1, 0, 1} /\ e.bw \in 0..177 /\ e.bh \in 0..177 /\ e.w \in 0..177 /\ e.hh \in 0..177
JudgeMat(e) ==
  IF ~ShapeMat(e) THEN Rej("ill-shaped observation", "")
  ELSE IF e.panic = 1 THEN Rej("panic", "")
  ELSE IF e.werr = 1 THEN <<>>
  ELSE IF e.bw < 21 \/ e.bw # e.bh \/ ~ChShapeOK(e.b, e.bw, e.bh) \/ ~ChShapeOK(e.out, e.w, e.hh) THEN Rej("ill-shaped observation", "matrix")
  ELSE LET m == TLCEval(ChUnRows(e.b, e.bw, e.bh))
           t == TLCEval(ChUnRows(e.out, e.w, e.hh))
       IN IF t # (IF e.mir = 1 THEN Transpose(m) ELSE m) THEN Rej("ill-shaped observation", "decoded matrix is not the (transposed) written one")
          ELSE IF e.err = 1 THEN Rej(IF e.mir = 1 THEN "transposed symbol is not read" ELSE "written symbol is not read", e.kind)
          ELSE IF e.text # e.c THEN Rej("symbol read as something else than its content", "other")
          \* plain: first reading succeeds; transposed: first reading fails (format / checksum), the second reads the written symbol
          ELSE IF [out |-> ROk(e.text), mir |-> e.mirf] \in AllowedQR(e.c, e.mir) THEN <<>>
          ELSE Rej(IF e.mir = 1 THEN "mirrored symbol is not flagged as mirrored" ELSE "plain symbol is flagged as mirrored", "other")

ShapeX(e) == /\ PoseOK(PoseOf(e)) /\ e.bw \in 1..64 /\ e.bh \in 1..64 /\ ChShapeOK(e.b, e.bw, e.bh) /\ e.panic \in {0, 1}
             /\ e.w \in 0..2000 /\ e.hh \in 0..2000
JudgeX(e) ==
  IF ~ShapeX(e) THEN Rej("ill-shaped observation", "")
  ELSE IF e.panic = 1 THEN Rej("panic", "")
  ELSE LET m == TLCEval(ChUnRows(e.b, e.bw, e.bh)) p == PoseOf(e) IN
       IF e.w # PoseW(m, p) \/ e.hh # PoseH(m, p) \/ ~ChShapeOK(e.out, e.w, e.hh) THEN Rej("posed image has the wrong dimensions", "")
       ELSE IF TLCEval(ChUnRows(e.out, e.w, e.hh)) = PoseMap(m, p) THEN <<>> ELSE Rej("posed image is not the image of the pixel map", "")

Judge(e) == CASE e.op = "pose" -> JudgePose(e) [] e.op = "qrmat" -> JudgeMat(e) [] e.op = "xform" -> JudgeX(e)
              [] OTHER -> Rej("unknown op", "")
Init == l = 1 /\ bad = <<>>
Next == /\ l <= NEv
        /\ l' = l + 1
        /\ LET v == Judge(Tr[l]) IN bad' = bad \o [i \in 1..Len(v) |-> <<l>> \o v[i]]
Spec == Init /\ [][Next]_vars
Done == l = NEv + 1 => WriteBad(l, bad)
=============================================================================
