SPECIFICATION Spec
CONSTANTS
  N = 5
INVARIANT Laws
CHECK_DEADLOCK FALSE
