SPECIFICATION Spec
CONSTANTS
  Sizes <- MCSizes
  ASizes = {0, 1, 3, 9}
  MaxDepth = 3
  Record = FALSE
INVARIANT Laws
CHECK_DEADLOCK FALSE
