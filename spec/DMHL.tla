------------------------------- MODULE DMHL -------------------------------
(* C02: Data Matrix high-level encodation judged through the reference DECODER of ISO/IEC 16022 clause 5.2        *)
(* (ASCII, C40, Text, ANSI X12, EDIFACT, Base 256 with 255-state un-randomising, upper shift, macro 05/06,      *)
(* pad / 253-state randomised padding).  Whatever encodation the library chooses, its codewords must decode -    *)
(* by this automaton - to exactly the text; the symbol must be the smallest admissible one for the codewords     *)
(* used before padding; a refusal is legitimate only if the text is not Latin-1 or not even its plain ASCII      *)
(* encodation fits the largest admissible symbol.  Texts are sequences of code points.                           *)
EXTENDS DMPlacement
IsDigit(c) == c >= 48 /\ c <= 57

(* ---- reference decoder: state [i |-> next codeword index (1-based), out |-> code points, err, pad |-> index of the first pad or 0] *)
C40Basic(v, text) == IF v = 3 THEN 32 ELSE IF v <= 13 THEN v - 4 + 48 ELSE IF text THEN v - 14 + 97 ELSE v - 14 + 65
Shift2 == <<33,34,35,36,37,38,39,40,41,42,43,44,45,46,47,58,59,60,61,62,63,64,91,92,93,94,95>>
Shift3Text == <<96,65,66,67,68,69,70,71,72,73,74,75,76,77,78,79,80,81,82,83,84,85,86,87,88,89,90,123,124,125,126,127>>
RECURSIVE DecC40(_,_,_,_,_,_)
DecC40(c, i, out, text, shift, upper) ==
  IF i > Len(c) THEN [i |-> i, out |-> out, err |-> FALSE]
  ELSE IF i = Len(c) THEN [i |-> i, out |-> out, err |-> FALSE]          \* a single codeword left in the symbol is ASCII encoded
  ELSE IF c[i] = 254 THEN [i |-> i + 1, out |-> out, err |-> FALSE]      \* unlatch
  ELSE LET full == c[i]*256 + c[i+1] - 1
           vs == << full \div 1600, (full % 1600) \div 40, full % 40 >>
           RECURSIVE three(_,_,_,_)
           three(k, o, sh, up) ==
             IF k > 3 THEN [o |-> o, sh |-> sh, up |-> up, err |-> FALSE]
             ELSE LET v == vs[k] IN
               IF sh = 0 THEN
                  IF v < 3 THEN three(k+1, o, v+1, up)
                  ELSE IF v < 40 THEN three(k+1, Append(o, C40Basic(v, text) + (IF up THEN 128 ELSE 0)), 0, FALSE)
                  ELSE [o |-> o, sh |-> sh, up |-> up, err |-> TRUE]
               ELSE IF sh = 1 THEN three(k+1, Append(o, v + (IF up THEN 128 ELSE 0)), 0, FALSE)
               ELSE IF sh = 2 THEN
                  IF v < 27 THEN three(k+1, Append(o, Shift2[v+1] + (IF up THEN 128 ELSE 0)), 0, FALSE)
                  ELSE IF v = 27 THEN three(k+1, Append(o, 29), 0, up)                                  \* FNC1
                  ELSE IF v = 30 THEN three(k+1, o, 0, TRUE)                                             \* upper shift
                  ELSE [o |-> o, sh |-> sh, up |-> up, err |-> TRUE]
               ELSE IF text THEN
                  IF v < 32 THEN three(k+1, Append(o, Shift3Text[v+1] + (IF up THEN 128 ELSE 0)), 0, FALSE)
                  ELSE [o |-> o, sh |-> sh, up |-> up, err |-> TRUE]
               ELSE IF v < 32 THEN three(k+1, Append(o, v + (IF up THEN 224 ELSE 96)), 0, FALSE)
               ELSE [o |-> o, sh |-> sh, up |-> up, err |-> TRUE]
           r == three(1, out, shift, upper)
       IN IF r.err THEN [i |-> i, out |-> r.o, err |-> TRUE] ELSE DecC40(c, i+2, r.o, text, r.sh, r.up)
RECURSIVE DecX12(_,_,_)
DecX12(c, i, out) ==
  IF i >= Len(c) THEN [i |-> i, out |-> out, err |-> FALSE]
  ELSE IF c[i] = 254 THEN [i |-> i + 1, out |-> out, err |-> FALSE]
  ELSE LET full == c[i]*256 + c[i+1] - 1
           vs == << full \div 1600, (full % 1600) \div 40, full % 40 >>
           ch(v) == CASE v = 0 -> 13 [] v = 1 -> 42 [] v = 2 -> 62 [] v = 3 -> 32 [] v >= 4 /\ v < 14 -> v + 44 [] v >= 14 /\ v < 40 -> v + 51 [] OTHER -> -1
       IN IF \E k \in 1..3 : ch(vs[k]) < 0 THEN [i |-> i, out |-> out, err |-> TRUE]
          ELSE DecX12(c, i+2, out \o <<ch(vs[1]), ch(vs[2]), ch(vs[3])>>)
BitAt(c, b) == (c[(b \div 8) + 1] \div 2^(7 - (b % 8))) % 2              \* b = 0-based bit position in the codeword stream
Bits6(c, b) == BitAt(c,b)*32 + BitAt(c,b+1)*16 + BitAt(c,b+2)*8 + BitAt(c,b+3)*4 + BitAt(c,b+4)*2 + BitAt(c,b+5)
RECURSIVE DecEdf(_,_,_)
DecEdf(c, b, out) ==
  LET avail == 8*Len(c) - b IN
  IF avail <= 16 THEN [i |-> (b \div 8) + 1, out |-> out, err |-> FALSE]   \* one or two codewords left: back to ASCII without unlatch
  ELSE LET RECURSIVE four(_,_,_)
           four(k, bb, o) ==
             IF k > 4 THEN [b |-> bb, o |-> o, stop |-> FALSE]
             ELSE LET v == Bits6(c, bb) IN
                  IF v = 31 THEN [b |-> ((bb + 6 + 7) \div 8) * 8, o |-> o, stop |-> TRUE]             \* unlatch; rest of the codeword is ignored
                  ELSE four(k+1, bb + 6, Append(o, IF v < 32 THEN v + 64 ELSE v))
           r == four(1, b, out)
       IN IF r.stop THEN [i |-> (r.b \div 8) + 1, out |-> r.o, err |-> FALSE] ELSE DecEdf(c, r.b, r.o)
DecB256(c, i, out) ==
  IF i > Len(c) THEN [i |-> i, out |-> out, err |-> TRUE]
  ELSE LET d1 == UnRand255(c[i], i)
           two == d1 >= 250
       IN IF two /\ i + 1 > Len(c) THEN [i |-> i, out |-> out, err |-> TRUE]
          ELSE LET cnt == IF d1 = 0 THEN Len(c) - i                        \* length 0: runs to the end of the symbol
                          ELSE IF d1 < 250 THEN d1 ELSE 250*(d1 - 249) + UnRand255(c[i+1], i+1)
                   st == IF two THEN i + 2 ELSE i + 1
               IN IF st + cnt - 1 > Len(c) THEN [i |-> i, out |-> out, err |-> TRUE]
                  ELSE [i |-> st + cnt, out |-> out \o [k \in 1..cnt |-> UnRand255(c[st + k - 1], st + k - 1)], err |-> FALSE]
MacroHead(n) == <<91, 41, 62, 30, 48, 48 + n, 29>>       \* "[)>" RS "05"/"06" GS
MacroTrail == <<30, 4>>                                   \* RS EOT
RECURSIVE DecAscii(_,_,_,_,_)
DecAscii(c, i, out, upper, trail) ==      \* returns [text, err, pad]
  IF i > Len(c) THEN [text |-> out \o trail, err |-> FALSE, pad |-> 0]
  ELSE LET b == c[i] IN
    IF b = 0 THEN [text |-> out, err |-> TRUE, pad |-> 0]
    ELSE IF b <= 128 THEN DecAscii(c, i+1, Append(out, b - 1 + (IF upper THEN 128 ELSE 0)), FALSE, trail)
    ELSE IF b = 129 THEN [text |-> out \o trail, err |-> upper, pad |-> i]                    \* pad: end of data
    ELSE IF b <= 229 THEN DecAscii(c, i+1, out \o <<48 + ((b - 130) \div 10), 48 + ((b - 130) % 10)>>, upper, trail)
    ELSE IF b = 230 THEN LET r == DecC40(c, i+1, out, FALSE, 0, FALSE) IN IF r.err THEN [text |-> r.out, err |-> TRUE, pad |-> 0] ELSE DecAscii(c, r.i, r.out, FALSE, trail)
    ELSE IF b = 239 THEN LET r == DecC40(c, i+1, out, TRUE, 0, FALSE) IN IF r.err THEN [text |-> r.out, err |-> TRUE, pad |-> 0] ELSE DecAscii(c, r.i, r.out, FALSE, trail)
    ELSE IF b = 238 THEN LET r == DecX12(c, i+1, out) IN IF r.err THEN [text |-> r.out, err |-> TRUE, pad |-> 0] ELSE DecAscii(c, r.i, r.out, FALSE, trail)
    ELSE IF b = 240 THEN LET r == DecEdf(c, 8*i, out) IN DecAscii(c, r.i, r.out, FALSE, trail)
    ELSE IF b = 231 THEN LET r == DecB256(c, i+1, out) IN IF r.err THEN [text |-> r.out, err |-> TRUE, pad |-> 0] ELSE DecAscii(c, r.i, r.out, FALSE, trail)
    ELSE IF b = 235 THEN DecAscii(c, i+1, out, TRUE, trail)
    ELSE IF b = 236 THEN DecAscii(c, i+1, out \o MacroHead(5), upper, MacroTrail)
    ELSE IF b = 237 THEN DecAscii(c, i+1, out \o MacroHead(6), upper, MacroTrail)
    ELSE IF b = 254 /\ i = Len(c) THEN [text |-> out \o trail, err |-> FALSE, pad |-> 0]   \* an unlatch as the very last codeword (encoders that fill the last position this way) is tolerated
    ELSE [text |-> out, err |-> TRUE, pad |-> 0]            \* FNC1, structured append, reader programming, ECI, 242..255: never produced for plain text
Decode(c) == DecAscii(c, 1, <<>>, FALSE, <<>>)
\* after the first pad codeword only 253-state randomised pads may follow
PadsOK(c, p) == p = 0 \/ \A k \in p+1..Len(c) : c[k] = Pad253(k)

(* ---- a sufficient condition for "fits": the plain ASCII encodation (digit pairs, upper shift for 128..255) *)
RECURSIVE AsciiLen(_,_)
AsciiLen(t, i) == IF i > Len(t) THEN 0
                  ELSE IF i < Len(t) /\ IsDigit(t[i]) /\ IsDigit(t[i+1]) THEN 1 + AsciiLen(t, i + 2)
                  ELSE IF t[i] >= 128 THEN 2 + AsciiLen(t, i + 1) ELSE 1 + AsciiLen(t, i + 1)
MaxCap(shape, mn, mx) == LET ok == {i \in 1..NSizes : Admissible(i, shape, mn, mx)} IN
                         IF ok = {} THEN 0 ELSE NData(T7[CHOOSE i \in ok : \A j \in ok : NData(T7[i]) >= NData(T7[j])])
\* a second valid encodation of any text: ONE Base 256 run (5.2.9): latch, length field, the bytes.  The length field is one codeword
\* for runs up to 249 bytes - and for a run of any length that ends exactly at the end of the symbol (length codeword 0) -, else two
B256Len(t, shape, mn, mx) ==
  LET n == Len(t)
      exact == \E i \in 1..NSizes : Admissible(i, shape, mn, mx) /\ NData(T7[i]) = n + 2
  IN IF n <= 249 \/ exact THEN n + 2 ELSE n + 3
Extended(t) == Len(t) > 0 /\ \A i \in 1..Len(t) : t[i] \in 128..255
Min2(a, b) == IF a < b THEN a ELSE b
Latin1(t) == \A i \in 1..Len(t) : t[i] \in 0..255
B(x) == IF x THEN 1 ELSE 0

(* ---- judgement of one recorded EncodeHighLevel / decode / write / read event *)
HLCheck(e) ==
  LET t == e.text
      okRun == e.panic = 0 /\ e.hang = 0
      \* sufficient for "fits": the plain ASCII encodation fits, or (texts of extended characters only, where every encoder runs
      \* Base 256 from the first character) the single Base 256 run does
      mustFit == Len(t) > 0 /\ Latin1(t) /\ (\/ AsciiLen(t, 1) <= MaxCap(e.shape, e.mn, e.mx)
                                             \/ (Extended(t) /\ B256Len(t, e.shape, e.mn, e.mx) <= MaxCap(e.shape, e.mn, e.mx)))
      okRefusal == IF e.cwerr = 1 THEN ~mustFit ELSE Latin1(t) /\ Len(t) > 0
      d == IF e.cwerr = 0 /\ (\A k \in 1..Len(e.cw) : e.cw[k] \in 0..255) THEN Decode(e.cw) ELSE [text |-> <<>>, err |-> TRUE, pad |-> 0]
      used == IF d.pad = 0 THEN Len(e.cw) ELSE d.pad - 1
      i == IF e.cwerr = 0 THEN Lookup(used, e.shape, e.mn, e.mx) ELSE 0
      \* a text of extended characters only is one Base 256 run: its symbol is the smallest admissible one that holds that run
      \* (5.2.9 length field rule; a run that fills a symbol exactly uses the one-codeword "to the end" form)
      iB == IF Extended(t) THEN Lookup(Min2(B256Len(t, e.shape, e.mn, e.mx), 2 * Len(t)), e.shape, e.mn, e.mx) ELSE 0
      okCw == e.cwerr = 1 \/ (/\ ~d.err /\ d.text = t /\ PadsOK(e.cw, d.pad) /\ i # 0 /\ Len(e.cw) = NData(T7[i])
                              /\ (iB # 0 => NData(T7[i]) <= NData(T7[iB])))
      okDec == e.cwerr = 1 \/ (e.derr = "" /\ e.dtext = e.utf8)
      okImg == Len(e.img) # 2 \/ (IF e.cwerr = 1 THEN e.werr = 1
                                   ELSE /\ e.werr = 0 /\ e.rerr = "" /\ e.rtext = e.utf8 /\ e.rfmt = 1
                                        \* module-exact image: the decoder's two matrix entry points (BitMatrix, [][]bool)
                                        /\ (e.img = <<0, 0>> /\ "merr" \in DOMAIN e =>
                                              e.merr = "" /\ e.mtext = e.utf8 /\ e.berr = "" /\ e.btext = e.utf8))
  IN <<B(okRun), B(~okRun \/ okRefusal), B(~okRun \/ okCw), B(~okRun \/ okDec), B(~okRun \/ okImg)>>
LACheck(e) == <<1>>
=============================================================================
