SPECIFICATION Spec
CONSTANTS
  MaxRTVersion = 0
  FullTables = TRUE
INVARIANT Inv
CHECK_DEADLOCK FALSE
