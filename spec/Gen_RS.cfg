SPECIFICATION Spec
CONSTANTS
  Fields = {1, 2, 3, 4, 5, 6}
  Shapes <- GenShapesQuick
  Pats = {1, 2, 4}
  MaxErr = 2
  AllMags = FALSE
  Declarative = FALSE
  Record = TRUE
INVARIANT Laws
CHECK_DEADLOCK FALSE
