------------------------------- MODULE Retry -------------------------------
(* C09 - the readers' retry automata, with the inner decoding attempts abstract.                               *)
(*                                                                                                            *)
(* OneDReader.Decode / doDecode (oned/oned_reader.go): rows are visited from the middle outwards, alternately   *)
(* below and above, rowStep apart; a row the binariser refuses is skipped; every other row is handed to the     *)
(* row decoder as it is and then reversed; the first success ends the scan, a success on the reversed row is   *)
(* reported with ORIENTATION 180.  When nothing is found and TRY_HARDER is set the bitmap is turned a quarter   *)
(* counter-clockwise and scanned again; a success there is reported with orientation (270 + o) mod 360.        *)
(* Every failure is a NotFound.                                                                                *)
(*                                                                                                            *)
(* qrcode/decoder.Decoder.Decode: the matrix is read as it is; when that fails with a format or checksum error  *)
(* version and format information are re-read at the transposed positions and the transposed matrix is read;    *)
(* a success there is flagged as mirrored; when the second reading fails too the error of the FIRST reading    *)
(* is reported.                                                                                                *)
(*                                                                                                            *)
(* Both automata are given as step functions (model-checked as state machines in MC_Retry) and as their        *)
(* closures (used by Pose.tla / Trace_Pose.tla to say what a reader may answer for a posed image).              *)
EXTENDS Integers, Sequences, TLC

ROk(t) == [k |-> "ok", t |-> t]
RErr(k) == [k |-> k, t |-> <<>>]
RNotFound == RErr("notfound")
ErrKinds == {"notfound", "checksum", "format"}

(* ================================================================== OneDReader *)
\* An abstract bitmap as the row scan sees it: h rows; rows top..bot-1 cross the symbol and all look alike: f is what
\* the row decoder answers for such a row, b what it answers for the reversed row; every other row is blank (the
\* binariser finds no black point: the row is skipped).
Bitmap(h, top, bot, f, b) == [h |-> h, top |-> top, bot |-> bot, f |-> f, b |-> b]
RowStep(h, th) == LET s == h \div (IF th THEN 256 ELSE 32) IN IF s < 1 THEN 1 ELSE s
MaxLines(h, th) == IF th THEN h ELSE 15
\* the x-th row visited (x = 0, 1, 2, ...): middle, one step below, one step above, two steps below, ...
RowAt(h, th, x) == (h \div 2) + ((IF x % 2 = 0 THEN 1 ELSE -1) * RowStep(h, th) * ((x + 1) \div 2))

\* state of one scan: x = index of the visit, att = 0 forward / 1 reversed
ScanInit == [x |-> 0, att |-> 0, done |-> FALSE, out |-> RNotFound, orient |-> 0]
ScanStep(img, th, d) ==
  LET row == RowAt(img.h, th, d.x) IN
  IF d.x >= MaxLines(img.h, th) \/ row < 0 \/ row >= img.h THEN [d EXCEPT !.done = TRUE]      \* ran off the image: NotFound
  ELSE IF row < img.top \/ row >= img.bot THEN [d EXCEPT !.x = @ + 1, !.att = 0]              \* blank row: skipped
  ELSE LET o == IF d.att = 0 THEN img.f ELSE img.b IN
       IF o.k = "ok" THEN [d EXCEPT !.done = TRUE, !.out = o, !.orient = IF d.att = 1 THEN 180 ELSE 0]
       ELSE IF d.att = 0 THEN [d EXCEPT !.att = 1]
       ELSE [d EXCEPT !.x = @ + 1, !.att = 0]
RECURSIVE ScanRun(_, _, _)
ScanRun(img, th, d) == IF d.done THEN d ELSE ScanRun(img, th, ScanStep(img, th, d))
Scan(img, th) == ScanRun(img, th, ScanInit)

\* Decode: img as given, turned = the same bitmap a quarter turn counter-clockwise
OneDDecode(img, turned, th) ==
  LET d1 == Scan(img, th) IN
  IF d1.out.k = "ok" THEN [out |-> d1.out, orient |-> d1.orient]
  ELSE IF ~th THEN [out |-> RNotFound, orient |-> 0]
  ELSE LET d2 == Scan(turned, th) IN
       IF d2.out.k = "ok" THEN [out |-> d2.out, orient |-> (270 + d2.orient) % 360]
       ELSE [out |-> RNotFound, orient |-> 0]

(* ================================================================== QR decoder *)
\* p: outcome of reading the matrix as it is; mv, mf: outcome kinds of re-reading version / format information at the
\* transposed positions ("ok" or "format"); m: outcome of reading the transposed matrix
QRInit(p) == [phase |-> "plain", out |-> p, mir |-> 0]
QRStep(s, p, mv, mf, m) ==
  CASE s.phase = "plain"    -> IF p.k = "ok" THEN [s EXCEPT !.phase = "done"]
                               ELSE IF p.k \in {"format", "checksum"} THEN [s EXCEPT !.phase = "mversion"]
                               ELSE [s EXCEPT !.phase = "done"]
    [] s.phase = "mversion" -> IF mv = "ok" THEN [s EXCEPT !.phase = "mformat"] ELSE [s EXCEPT !.phase = "done"]
    [] s.phase = "mformat"  -> IF mf = "ok" THEN [s EXCEPT !.phase = "mdecode"] ELSE [s EXCEPT !.phase = "done"]
    [] s.phase = "mdecode"  -> IF m.k = "ok" THEN [phase |-> "done", out |-> m, mir |-> 1] ELSE [s EXCEPT !.phase = "done"]
    [] OTHER -> s
RECURSIVE QRRun(_, _, _, _, _)
QRRun(s, p, mv, mf, m) == IF s.phase = "done" THEN s ELSE QRRun(QRStep(s, p, mv, mf, m), p, mv, mf, m)
QRDecode(p, mv, mf, m) == LET s == QRRun(QRInit(p), p, mv, mf, m) IN [out |-> s.out, mir |-> s.mir]
=============================================================================
