------------------------------ MODULE MC_Retry ------------------------------
(* Design check of the retry automata of Retry.tla (C09).  The automata run as state machines - one action per      *)
(* visited row / direction, per phase of the QR decoder - over every abstract scenario of a small scope; the laws    *)
(* below are invariants of the final states, Bounded is the termination variant.                                      *)
EXTENDS Retry, FiniteSets
CONSTANTS Heights,      \* bitmap heights
          Texts         \* texts an inner attempt may deliver
VARIABLES kind, sc, ph, d, res, steps
vars == <<kind, sc, ph, d, res, steps>>

Outs == {ROk(t) : t \in Texts} \cup {RErr(k) : k \in ErrKinds}
FewOuts == {ROk(CHOOSE t \in Texts : TRUE), RNotFound, RErr("checksum")}
Bitmaps(O) == UNION {{Bitmap(h, top, bot, f, b) : top \in {0, 1, 2}, bot \in {0, 1, 2, 3, h - 1, h}, f \in O, b \in O} : h \in Heights}
WF(img) == img.top <= img.bot /\ img.bot <= img.h /\ (img.h > 5 => img.bot >= img.h - 1)
NoRes == [out |-> RNotFound, orient |-> -1, mir |-> -1]

Init == kind = "start" /\ sc = <<>> /\ ph = "choose" /\ d = ScanInit /\ res = NoRes /\ steps = 0
ChooseOneD == /\ ph = "choose" /\ kind = "start"
              /\ \E img \in Bitmaps(Outs), th \in BOOLEAN : WF(img) /\ sc' = [img |-> img, turned |-> img, th |-> th]
              /\ kind' = "oned" /\ ph' = "scan1" /\ d' = ScanInit /\ UNCHANGED <<res, steps>>
Scan1 == /\ ph = "scan1" /\ ~d.done
         /\ d' = ScanStep(sc.img, sc.th, d) /\ steps' = steps + 1 /\ UNCHANGED <<kind, sc, ph, res>>
\* the quarter-turned bitmap matters only when the first scan found nothing and the reader tries harder: chosen then
End1 == /\ ph = "scan1" /\ d.done
        /\ IF d.out.k = "ok" THEN ph' = "done" /\ res' = [out |-> d.out, orient |-> d.orient, mir |-> -1] /\ d' = d /\ sc' = sc
           ELSE IF ~sc.th THEN ph' = "done" /\ res' = [out |-> RNotFound, orient |-> 0, mir |-> -1] /\ d' = d /\ sc' = sc
           ELSE /\ \E t \in Bitmaps(FewOuts) : WF(t) /\ sc' = [sc EXCEPT !.turned = t]
                /\ ph' = "scan2" /\ d' = ScanInit /\ res' = res
        /\ UNCHANGED <<kind, steps>>
Scan2 == /\ ph = "scan2" /\ ~d.done
         /\ d' = ScanStep(sc.turned, sc.th, d) /\ steps' = steps + 1 /\ UNCHANGED <<kind, sc, ph, res>>
End2 == /\ ph = "scan2" /\ d.done
        /\ res' = IF d.out.k = "ok" THEN [out |-> d.out, orient |-> (270 + d.orient) % 360, mir |-> -1]
                  ELSE [out |-> RNotFound, orient |-> 0, mir |-> -1]
        /\ ph' = "done" /\ UNCHANGED <<kind, sc, d, steps>>

Inner == {ROk(t) : t \in Texts} \cup {RErr("format"), RErr("checksum")}
ChooseQR == /\ ph = "choose" /\ kind = "start"
            /\ \E p \in Inner, m \in Inner, mv \in {"ok", "format"}, mf \in {"ok", "format"} :
                 sc' = [p |-> p, m |-> m, mv |-> mv, mf |-> mf, q |-> QRInit(p)]
            /\ kind' = "qr" /\ ph' = "qr" /\ UNCHANGED <<d, res, steps>>
StepQR == /\ ph = "qr" /\ sc.q.phase # "done"
          /\ sc' = [sc EXCEPT !.q = QRStep(sc.q, sc.p, sc.mv, sc.mf, sc.m)] /\ steps' = steps + 1
          /\ UNCHANGED <<kind, ph, d, res>>
EndQR == /\ ph = "qr" /\ sc.q.phase = "done"
         /\ res' = [out |-> sc.q.out, orient |-> -1, mir |-> sc.q.mir] /\ ph' = "done"
         /\ UNCHANGED <<kind, sc, d, steps>>
Next == ChooseOneD \/ Scan1 \/ End1 \/ Scan2 \/ End2 \/ ChooseQR \/ StepQR \/ EndQR
Spec == Init /\ [][Next]_vars

(* ---------------------------------------------------------------- laws *)
Mid(img) == img.h \div 2
MidIsSymbol(img) == img.top <= Mid(img) /\ Mid(img) < img.bot
Unreadable(img) == img.f.k # "ok" /\ img.b.k # "ok"
OneDLaws ==
  (kind = "oned" /\ ph = "done") =>
    LET img == sc.img t == sc.turned th == sc.th x == OneDDecode(img, t, th) IN
    /\ res = [out |-> x.out, orient |-> x.orient, mir |-> -1]            \* machine = closure
    /\ res.out.k \in {"ok", "notfound"}                                  \* every failure is a NotFound
    /\ res.orient \in {0, 90, 180, 270}
    /\ res.out.k = "ok" =>
         CASE res.orient = 0   -> res.out = img.f
           [] res.orient = 180 -> res.out = img.b /\ img.f.k # "ok"     \* reversed attempt => 180, forward tried first
           [] res.orient = 270 -> th /\ res.out = t.f                    \* quarter-turn retry only when trying harder
           [] res.orient = 90  -> th /\ res.out = t.b /\ t.f.k # "ok"    \* (270 + 180) mod 360
    \* a symbol crossing the middle row is read, upright or upside down
    /\ (MidIsSymbol(img) /\ img.f.k = "ok") => (res.out = img.f /\ res.orient = 0)
    /\ (MidIsSymbol(img) /\ img.f.k # "ok" /\ img.b.k = "ok") => (res.out = img.b /\ res.orient = 180)
    \* a sideways symbol is read exactly when trying harder
    /\ (Unreadable(img) /\ ~th) => res.out = RNotFound
    /\ (Unreadable(img) /\ th /\ MidIsSymbol(t) /\ t.f.k = "ok") => (res.out = t.f /\ res.orient = 270)
    /\ (Unreadable(img) /\ th /\ MidIsSymbol(t) /\ t.f.k # "ok" /\ t.b.k = "ok") => (res.out = t.b /\ res.orient = 90)
    /\ (Unreadable(img) /\ Unreadable(t)) => res.out = RNotFound
QRLaws ==
  (kind = "qr" /\ ph = "done") =>
    LET x == QRDecode(sc.p, sc.mv, sc.mf, sc.m) IN
    /\ res.out = x.out /\ res.mir = x.mir                                \* machine = closure
    /\ sc.p.k = "ok" => (res.out = sc.p /\ res.mir = 0)                   \* a readable symbol is not flagged
    /\ res.mir = 1 <=> (sc.p.k # "ok" /\ sc.mv = "ok" /\ sc.mf = "ok" /\ sc.m.k = "ok")
    /\ res.mir = 1 => res.out = sc.m                                     \* mirrored success => flag set, and only then
    /\ res.out.k # "ok" => (res.out.k = sc.p.k /\ res.mir = 0)            \* the error of the first reading is reported
\* the scans visit each row at most once per direction: termination variant
Bounded == /\ (kind = "oned" => steps <= 2 * ((2 * MaxLines(70, TRUE)) + 2))
           /\ (kind = "qr" => steps <= 4)
           /\ d.x <= MaxLines(70, TRUE)
Laws == OneDLaws /\ QRLaws /\ Bounded
MCTexts == {<<1>>, <<2>>}
=============================================================================
