--------------------------- MODULE Trace_EncTotality -------------------------
(* Trace validation for C12: every recorded Writer.Encode call of the real writers (harness/c12) is judged against *)
(* the contract of EncTotality.tla: clause T (no panic, no hang, exactly one of matrix / error), R (certain refusals),  *)
(* A (certain acceptance) and D (the symbol is a symbol of the symbology that can hold the contents, the matrix is  *)
(* not smaller than it nor - QR and 1-D - than the request).  Calls are independent: the trace is stateless.        *)
(* bad entries: <<event index, failing clause 1..5 (9: ill-formed event), expected class 0 any / 1 err / 2 ok>>     *)
EXTENDS EncTotality, TraceLib
VARIABLES l, bad
vars == <<l, bad>>
Init == l = 1 /\ bad = <<>>
IsInt(x) == x \in Int
IsByteSeq(s) == DOMAIN s = 1..Len(s) /\ \A i \in 1..Len(s) : s[i] \in 0..255
HintShape(x) == /\ {"k", "t", "i", "s", "sn", "a", "b"} \subseteq DOMAIN x
                /\ x.k \in HintKeys /\ x.t \in (0..5) \cup {7} /\ IsInt(x.i) /\ IsInt(x.a) /\ IsInt(x.b) /\ IsByteSeq(x.s)
WellFormed(e) ==
  /\ {"wr", "fmt", "cp", "cn", "w", "h", "hints", "sok", "sw", "sh", "mat", "err", "panic", "hang", "ow", "oh"} \subseteq DOMAIN e
  /\ e.wr \in WriterSet /\ IsInt(e.fmt) /\ IsInt(e.w) /\ IsInt(e.h)
  /\ IsByteSeq(e.cp) /\ e.cn \in 0..100000 /\ (e.cn > 0 => Len(e.cp) > 0)
  /\ DOMAIN e.hints = 1..Len(e.hints) /\ \A j \in 1..Len(e.hints) : HintShape(e.hints[j])
  /\ \A j, k \in 1..Len(e.hints) : j # k => e.hints[j].k # e.hints[k].k
  /\ \A f \in {"sok", "sw", "sh", "mat", "err", "panic", "hang", "ow", "oh"} : IsInt(e[f])
ExpCode(c) == CASE Expect(c) = "err" -> 1 [] Expect(c) = "ok" -> 2 [] OTHER -> 0
Next ==
  /\ l <= NEv
  /\ l' = l + 1
  /\ LET e == Tr[l] IN
     IF ~WellFormed(e) THEN bad' = Append(bad, <<l, 9, 0>>)
     ELSE LET v == Verdict(e, e) IN
          bad' = IF v = 0 THEN bad ELSE Append(bad, <<l, v, ExpCode(e)>>)
Spec == Init /\ [][Next]_vars
Done == l = NEv + 1 => WriteBad(l, bad)
=============================================================================
