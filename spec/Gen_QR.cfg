SPECIFICATION Spec
