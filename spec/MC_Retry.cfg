SPECIFICATION Spec
CONSTANTS
  Heights = {1, 2, 3, 9}
  Texts <- MCTexts
INVARIANT Laws
CHECK_DEADLOCK FALSE
