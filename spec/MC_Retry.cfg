SPECIFICATION Spec
CONSTANTS
  Heights = {1, 2, 3, 5, 40}
  Texts <- MCTexts
INVARIANT Laws
CHECK_DEADLOCK FALSE
