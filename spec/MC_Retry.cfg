SPECIFICATION Spec
CONSTANTS
  Heights = {1, 3, 40}
  Texts <- MCTexts
INVARIANT Laws
CHECK_DEADLOCK FALSE
