SPECIFICATION Spec
CONSTANTS
  Mode = "laws"
  MaxLen = 6
INVARIANT Laws
CHECK_DEADLOCK FALSE
