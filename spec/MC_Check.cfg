SPECIFICATION Spec
CONSTANTS
  Mode = "laws"
  EDigits <- QuickDigits
  Stride = 1
INVARIANT Laws
CHECK_DEADLOCK FALSE
