SPECIFICATION Spec
CONSTANTS
  G = {1, 2, 3}
  Share = {}
  Degrees = {1, 2}
INVARIANTS NoRace NoRunPhaseWrite Deterministic
CHECK_DEADLOCK FALSE
