---------------------------- MODULE MC_BitSource ----------------------------
(* Design check of BitSource.tla: every sequence of reads (any n in 0..33) over a few byte strings.  The history of the    *)
(* successful reads, written back as bits, is always exactly the prefix of the byte string up to the cursor (nothing is   *)
(* skipped, repeated or reordered), a refused read changes nothing, and reading in two steps equals reading in one.       *)
EXTENDS BitSource, TLC
CONSTANT Strings
VARIABLES bytes, pos, hist    \* hist: sequence of bits delivered so far
vars == <<bytes, pos, hist>>
RECURSIVE BitsOf(_, _)
BitsOf(v, n) == IF n = 0 THEN <<>> ELSE Append(BitsOf(v \div 2, n - 1), v % 2)
Init == bytes \in Strings /\ pos = 0 /\ hist = <<>>
ReadN(n) == LET r == Read(bytes, pos, n) IN
            /\ pos' = r.pos /\ bytes' = bytes
            /\ hist' = IF r.err = 1 THEN hist
                       ELSE IF n > 16 THEN hist \o BitsOf(r.hi, n - 16) \o BitsOf(r.lo, 16) ELSE hist \o BitsOf(r.lo, n)
Next == \E n \in 0..33 : ReadN(n)
Spec == Init /\ [][Next]_vars
PrefixLaw == /\ pos \in 0..NBits(bytes) /\ Len(hist) = pos
             /\ \A i \in 1..pos : hist[i] = Bit(bytes, i - 1)
             /\ (8 * ByteOffset(pos)) + BitOffset(pos) = pos /\ BitOffset(pos) \in 0..7
\* a read of a + b bits is the read of a bits followed by the read of b bits (values composed), for every split
SplitLaw == \A a \in 1..12, b \in 1..12 :
              ReadOK(bytes, pos, a + b) =>
                LET r == Read(bytes, pos, a + b) r1 == Read(bytes, pos, a) r2 == Read(bytes, r1.pos, b) IN
                /\ r1.err = 0 /\ r2.err = 0 /\ r2.pos = r.pos
                /\ Val(bytes, pos, a + b) % Pow2(b) = r2.lo /\ Val(bytes, pos, a + b) \div Pow2(b) = r1.lo
RefusalLaw == \A n \in {-1, 0, 33, Available(bytes, pos) + 1} :
                 (n < 1 \/ n > 32 \/ n > Available(bytes, pos)) => Read(bytes, pos, n).err = 1 /\ Read(bytes, pos, n).pos = pos
AppendOnly == [][\A i \in 1..Len(hist) : hist'[i] = hist[i]]_vars
Laws == PrefixLaw /\ (pos % 5 = 0 => SplitLaw) /\ RefusalLaw
MCStrings == {<<>>, <<165>>, <<255, 0>>, <<18, 52, 86, 120, 154>>, <<128, 1, 127, 254, 85, 170>>}
=============================================================================
