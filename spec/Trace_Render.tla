---------------------------- MODULE Trace_Render ----------------------------
(* Trace validation for C14.  A "sym" event gives the encoder-level module matrix of a symbol; each following      *)
(* "render" event is one Writer.Encode call for the same contents: the recorded image (run-length encoded rows     *)
(* with multiplicities, read through the image.Image view) must be the image Render.tla defines.                   *)
EXTENDS Render, TraceLib
VARIABLES l, bad, sym
vars == <<l, bad, sym>>
NoSym == [fmt |-> "", txt |-> <<>>, nw |-> 0, nh |-> 0, mods |-> <<>>]
Init == l = 1 /\ bad = <<>> /\ sym = NoSym

SymOK(e) == /\ e.err = 0 /\ e.panic = 0 /\ e.nw >= 1 /\ e.nh >= 1 /\ Len(e.mods) = e.nh
            /\ \A y \in 1..e.nh : Len(e.mods[y]) = e.nw /\ \A x \in 1..e.nw : e.mods[y][x] \in {0, 1}
            /\ (ClassOf(e.fmt) = "1d" => e.nh = 1)

RECURSIVE RowsOK(_, _, _, _, _)
\* the row groups from index i on, the first of them starting at image row y, show what table[RowKey(y)] says
RowsOK(rows, i, y, g, table) ==
  IF i > Len(rows) THEN y = g.oh
  ELSE LET r == rows[i] IN
       /\ Len(r) >= 2 /\ r[1] >= 1 /\ y + r[1] <= g.oh
       /\ \A yy \in y..(y + r[1] - 1) : table[RowKey(g, sym.nh, yy)] = Tail(r)
       /\ RowsOK(rows, i + 1, y + r[1], g, table)

Why(e, g) ==
  IF e.panic = 1 THEN "panic" ELSE IF e.err # 0 THEN "error"
  ELSE IF e.gw # g.ow \/ e.gh # g.oh THEN "size"
  ELSE IF e.bounds # <<0, 0, g.ow, g.oh>> \/ e.gray # 1 \/ e.badcolor # 0 THEN "image_view"
  ELSE "pixels"

Judge(e) ==
  IF e.op = "sym" THEN [ok |-> SymOK(e), why |-> "module_matrix", g |-> <<>>]
  ELSE IF e.op = "render" THEN
    IF sym.nw = 0 \/ e.fmt # sym.fmt \/ e.txt # sym.txt \/ e.rw < 0 \/ e.rh < 0 \/ e.margin < -1
    THEN [ok |-> FALSE, why |-> "input", g |-> <<>>]
    ELSE LET m == IF e.margin = -1 THEN DefaultMargin(e.fmt) ELSE e.margin
             g == Geom(ClassOf(e.fmt), sym.nw, sym.nh, e.rw, e.rh, m)
             cols == TLCEval(ColumnMap(sym.nw, g))
             table == TLCEval([k \in 0..sym.nh |-> ImageRow(sym.mods, cols, k)])
             ok == /\ e.err = 0 /\ e.panic = 0
                   /\ e.gw = g.ow /\ e.gh = g.oh
                   /\ e.bounds = <<0, 0, g.ow, g.oh>> /\ e.gray = 1 /\ e.badcolor = 0
                   /\ RowsOK(e.rows, 1, 0, g, table)
         IN [ok |-> ok, why |-> Why(e, g), g |-> <<g.ow, g.oh, g.sx, g.px, g.py>>]
  ELSE [ok |-> FALSE, why |-> "unknown_op", g |-> <<>>]

Next ==
  /\ l <= NEv
  /\ l' = l + 1
  /\ LET e == Tr[l] j == Judge(e) IN
     /\ bad' = IF j.ok THEN bad ELSE Append(bad, <<l, e.op, j.why, j.g>>)
     /\ sym' = IF e.op = "sym" /\ j.ok THEN [fmt |-> e.fmt, txt |-> e.txt, nw |-> e.nw, nh |-> e.nh, mods |-> e.mods]
               ELSE IF e.op = "sym" THEN NoSym ELSE sym
Spec == Init /\ [][Next]_vars
Done == l = NEv + 1 => WriteBad(l, bad)
=============================================================================
