SPECIFICATION Spec
CONSTANTS
  Mode = "mc"
  Compact = 1
  Layers = 1
  EcPct = 25
  MaxSegs = 3
  EmitMax = 3
  StartSet = {0, 1, 12, 26, 29}
  Strides = {1}
  RunNs = {1, 2}
  ShiftKs = {1, 2, 27, 30}
  BinStarts = {0, 200}
  BinStrides = {57}
  BinNs = {1, 31, 32, 62}
  UseForced = FALSE
  NFaults = 0
INVARIANT Laws
CHECK_DEADLOCK FALSE
