----------------------------- MODULE QRTables -----------------------------
(* ISO/IEC 18004 numbers, written from the standard's formulae and Table 9 - NOT from gozxing's tables.      *)
(* Levels are numbered 1 = L, 2 = M, 3 = Q, 4 = H.  Modes: "num", "alnum", "byte", "kanji".                  *)
(* The block table was transcribed independently of the library (cross-checked against K. Arase's generator; *)
(* its row for 15-H lacks the second block group and is corrected here by the law                            *)
(* NBlocks * ECPer + data = total codewords, which MC_QR checks for all 160 pairs).                          *)
EXTENDS Integers, Sequences, FiniteSets, TLC, Bitwise

Dim(v) == 17 + 4*v
NumAlign(v) == IF v = 1 THEN 0 ELSE (v \div 7) + 2
\* Annex E: centres are evenly spaced from 6 to Dim-7; the spacing is the even number given by this formula (v = 32 is the standard's exception)
AStep(v) == IF v = 32 THEN 26 ELSE (((v*4 + NumAlign(v)*2 + 1) \div (NumAlign(v)*2 - 2)) * 2)
Centers(v) == IF v = 1 THEN <<>> ELSE [i \in 1..NumAlign(v) |-> IF i = 1 THEN 6 ELSE Dim(v) - 7 - (NumAlign(v) - i)*AStep(v)]

\* number of modules available for data + remainder bits (closed formula of the standard's Table 1)
RawModules(v) == LET base == (16*v + 128)*v + 64
                     al == IF v >= 2 THEN (25*NumAlign(v) - 10)*NumAlign(v) - 55 ELSE 0
                     vi == IF v >= 7 THEN 36 ELSE 0
                 IN base - al - vi
TotalCodewords(v) == RawModules(v) \div 8
RemainderBits(v) == RawModules(v) % 8

ECPerT == <<
 <<7,10,13,17>>, <<10,16,22,28>>, <<15,26,18,22>>, <<20,18,26,16>>, <<26,24,18,22>>, <<18,16,24,28>>, <<20,18,18,26>>,
 <<24,22,22,26>>, <<30,22,20,24>>, <<18,26,24,28>>, <<20,30,28,24>>, <<24,22,26,28>>, <<26,22,24,22>>, <<30,24,20,24>>,
 <<22,24,30,24>>, <<24,28,24,30>>, <<28,28,28,28>>, <<30,26,28,28>>, <<28,26,26,26>>, <<28,26,30,28>>, <<28,26,28,30>>,
 <<28,28,30,24>>, <<30,28,30,30>>, <<30,28,30,30>>, <<26,28,30,30>>, <<28,28,28,30>>, <<30,28,30,30>>, <<30,28,30,30>>,
 <<30,28,30,30>>, <<30,28,30,30>>, <<30,28,30,30>>, <<30,28,30,30>>, <<30,28,30,30>>, <<30,28,30,30>>, <<30,28,30,30>>,
 <<30,28,30,30>>, <<30,28,30,30>>, <<30,28,30,30>>, <<30,28,30,30>>, <<30,28,30,30>> >>
NBlocksT == <<
 <<1,1,1,1>>, <<1,1,1,1>>, <<1,1,2,2>>, <<1,2,2,4>>, <<1,2,4,4>>, <<2,4,4,4>>, <<2,4,6,5>>, <<2,4,6,6>>, <<2,5,8,8>>,
 <<4,5,8,8>>, <<4,5,8,11>>, <<4,8,10,11>>, <<4,9,12,16>>, <<4,9,16,16>>, <<6,10,12,18>>, <<6,10,17,16>>, <<6,11,16,19>>,
 <<6,13,18,21>>, <<7,14,21,25>>, <<8,16,20,25>>, <<8,17,23,25>>, <<9,17,23,34>>, <<9,18,25,30>>, <<10,20,27,32>>,
 <<12,21,29,35>>, <<12,23,34,37>>, <<12,25,34,40>>, <<13,26,35,42>>, <<14,28,38,45>>, <<15,29,40,48>>, <<16,31,43,51>>,
 <<17,33,45,54>>, <<18,35,48,57>>, <<19,37,51,60>>, <<19,38,53,63>>, <<20,40,56,66>>, <<21,43,59,70>>, <<22,45,62,74>>,
 <<24,47,65,77>>, <<25,49,68,81>> >>
ECPer(v, ec) == ECPerT[v][ec]
NBlocks(v, ec) == NBlocksT[v][ec]
DataCodewords(v, ec) == TotalCodewords(v) - ECPer(v, ec) * NBlocks(v, ec)
\* block structure: blocks differ by at most one data codeword, the longer ones come last
ShortLen(v, ec) == DataCodewords(v, ec) \div NBlocks(v, ec)
NumLong(v, ec) == DataCodewords(v, ec) % NBlocks(v, ec)

\* character count indicator widths (Table 3)
CountBits(mode, v) == LET c == IF v <= 9 THEN 1 ELSE IF v <= 26 THEN 2 ELSE 3 IN
  CASE mode = "num" -> <<10, 12, 14>>[c] [] mode = "alnum" -> <<9, 11, 13>>[c]
    [] mode = "byte" -> <<8, 16, 16>>[c] [] mode = "kanji" -> <<8, 10, 12>>[c]
ModeBits(mode) == CASE mode = "num" -> 1 [] mode = "alnum" -> 2 [] mode = "byte" -> 4 [] mode = "kanji" -> 8
\* payload bit length for n characters
PayloadBits(mode, n) == CASE mode = "num" -> 10*(n \div 3) + (IF n % 3 = 1 THEN 4 ELSE IF n % 3 = 2 THEN 7 ELSE 0)
                          [] mode = "alnum" -> 11*(n \div 2) + 6*(n % 2)
                          [] mode = "byte" -> 8*n
                          [] mode = "kanji" -> 13*n
\* does a segment of n characters with h extra header bits (ECI / FNC1) fit version v at level ec ?
Fits(mode, n, h, v, ec) == h + 4 + CountBits(mode, v) + PayloadBits(mode, n) <= 8 * DataCodewords(v, ec)
\* largest character count that fits (closed form; MC_QR checks Fits(cap) /\ ~Fits(cap+1) for all 640 combinations)
Capacity(mode, v, ec, h) == LET c == 8 * DataCodewords(v, ec) - 4 - CountBits(mode, v) - h IN
  IF c < 0 THEN -1 ELSE
  CASE mode = "num" -> 3*(c \div 10) + (IF c % 10 >= 7 THEN 2 ELSE IF c % 10 >= 4 THEN 1 ELSE 0)
    [] mode = "alnum" -> 2*(c \div 11) + (IF c % 11 >= 6 THEN 1 ELSE 0)
    [] mode = "byte" -> c \div 8
    [] mode = "kanji" -> c \div 13
MinVersion(mode, n, h, ec) == LET ok == {v \in 1..40 : Fits(mode, n, h, v, ec)} IN
                              IF ok = {} THEN 0 ELSE CHOOSE v \in ok : \A u \in ok : v <= u

(* ---- BCH(15,5) format information and BCH(18,6) version information, by polynomial division *)
RECURSIVE MSB(_)
MSB(x) == IF x = 0 THEN 0 ELSE 1 + MSB(x \div 2)
RECURSIVE BchRem(_,_)
BchRem(val, poly) == IF MSB(val) < MSB(poly) THEN val ELSE BchRem(val ^^ (poly * 2^(MSB(val) - MSB(poly))), poly)
EcBits(ec) == CASE ec = 1 -> 1 [] ec = 2 -> 0 [] ec = 3 -> 3 [] ec = 4 -> 2
FormatWord(ec, mask) == LET d == EcBits(ec) * 8 + mask IN ((d * 1024) + BchRem(d * 1024, 1335)) ^^ 21522   \* G = 10100110111, mask 101010000010010
VersionWord(v) == v * 4096 + BchRem(v * 4096, 7973)                                                       \* G = 1111100100101
Bit(w, i) == (w \div 2^i) % 2
RECURSIVE PopCount(_)
PopCount(x) == IF x = 0 THEN 0 ELSE (x % 2) + PopCount(x \div 2)

(* ---- data mask predicates (Table 10), i = row = y, j = column = x *)
MaskBit(m, x, y) == CASE m = 0 -> (y + x) % 2 = 0
                      [] m = 1 -> y % 2 = 0
                      [] m = 2 -> x % 3 = 0
                      [] m = 3 -> (y + x) % 3 = 0
                      [] m = 4 -> ((y \div 2) + (x \div 3)) % 2 = 0
                      [] m = 5 -> ((y*x) % 2) + ((y*x) % 3) = 0
                      [] m = 6 -> (((y*x) % 2) + ((y*x) % 3)) % 2 = 0
                      [] m = 7 -> (((y+x) % 2) + ((y*x) % 3)) % 2 = 0

(* ---- GF(256) modulo x^8+x^4+x^3+x^2+1 (0x11D) and Reed-Solomon parity with generator prod_{i=0}^{r-1} (x - alpha^i) *)
XT(x) == LET s == x*2 IN IF s >= 256 THEN s ^^ 285 ELSE s
\* alpha^i (i = 0..254) and the discrete logarithm as literal tables (a literal is evaluated once and costs nothing to look up);
\* TableLaws - proved by TLC in the MC_* model - ties them to the definition: alpha = x, multiplication by x is a shift and a
\* conditional xor with the primitive polynomial, alpha is primitive, LogT inverts ExpT.
ExpT == <<
  1, 2, 4, 8, 16, 32, 64, 128, 29, 58, 116, 232, 205, 135, 19, 38, 76, 152, 45, 90, 180, 117, 234, 201, 143, 3, 6, 12, 24, 48, 96, 192,
  157, 39, 78, 156, 37, 74, 148, 53, 106, 212, 181, 119, 238, 193, 159, 35, 70, 140, 5, 10, 20, 40, 80, 160, 93, 186, 105, 210, 185, 111, 222, 161,
  95, 190, 97, 194, 153, 47, 94, 188, 101, 202, 137, 15, 30, 60, 120, 240, 253, 231, 211, 187, 107, 214, 177, 127, 254, 225, 223, 163, 91, 182, 113, 226,
  217, 175, 67, 134, 17, 34, 68, 136, 13, 26, 52, 104, 208, 189, 103, 206, 129, 31, 62, 124, 248, 237, 199, 147, 59, 118, 236, 197, 151, 51, 102, 204,
  133, 23, 46, 92, 184, 109, 218, 169, 79, 158, 33, 66, 132, 21, 42, 84, 168, 77, 154, 41, 82, 164, 85, 170, 73, 146, 57, 114, 228, 213, 183, 115,
  230, 209, 191, 99, 198, 145, 63, 126, 252, 229, 215, 179, 123, 246, 241, 255, 227, 219, 171, 75, 150, 49, 98, 196, 149, 55, 110, 220, 165, 87, 174, 65,
  130, 25, 50, 100, 200, 141, 7, 14, 28, 56, 112, 224, 221, 167, 83, 166, 81, 162, 89, 178, 121, 242, 249, 239, 195, 155, 43, 86, 172, 69, 138, 9,
  18, 36, 72, 144, 61, 122, 244, 245, 247, 243, 251, 235, 203, 139, 11, 22, 44, 88, 176, 125, 250, 233, 207, 131, 27, 54, 108, 216, 173, 71, 142 >>
LogT == <<
  0, 1, 25, 2, 50, 26, 198, 3, 223, 51, 238, 27, 104, 199, 75, 4, 100, 224, 14, 52, 141, 239, 129, 28, 193, 105, 248, 200, 8, 76, 113, 5,
  138, 101, 47, 225, 36, 15, 33, 53, 147, 142, 218, 240, 18, 130, 69, 29, 181, 194, 125, 106, 39, 249, 185, 201, 154, 9, 120, 77, 228, 114, 166, 6,
  191, 139, 98, 102, 221, 48, 253, 226, 152, 37, 179, 16, 145, 34, 136, 54, 208, 148, 206, 143, 150, 219, 189, 241, 210, 19, 92, 131, 56, 70, 64, 30,
  66, 182, 163, 195, 72, 126, 110, 107, 58, 40, 84, 250, 133, 186, 61, 202, 94, 155, 159, 10, 21, 121, 43, 78, 212, 229, 172, 115, 243, 167, 87, 7,
  112, 192, 247, 140, 128, 99, 13, 103, 74, 222, 237, 49, 197, 254, 24, 227, 165, 153, 119, 38, 184, 180, 124, 17, 68, 146, 217, 35, 32, 137, 46, 55,
  63, 209, 91, 149, 188, 207, 205, 144, 135, 151, 178, 220, 252, 190, 97, 242, 86, 211, 171, 20, 42, 93, 158, 132, 60, 57, 83, 71, 109, 65, 162, 31,
  45, 67, 216, 183, 123, 164, 118, 196, 23, 73, 236, 127, 12, 111, 246, 108, 161, 59, 82, 41, 157, 85, 170, 251, 96, 134, 177, 187, 204, 62, 90, 203,
  89, 95, 176, 156, 169, 160, 81, 11, 245, 22, 235, 122, 117, 44, 215, 79, 174, 213, 233, 230, 231, 173, 232, 116, 214, 244, 234, 168, 80, 88, 175 >>
TableLaws == /\ Len(ExpT) = 255 /\ Len(LogT) = 255 /\ ExpT[1] = 1 /\ XT(ExpT[255]) = 1
             /\ \A i \in 1..254 : ExpT[i+1] = XT(ExpT[i])
             /\ \A x \in 1..255 : LogT[x] \in 0..254 /\ ExpT[LogT[x] + 1] = x
             /\ \A i \in 0..254 : LogT[ExpT[i+1]] = i
Mul(a, b) == IF a = 0 \/ b = 0 THEN 0 ELSE ExpT[((LogT[a] + LogT[b]) % 255) + 1]
PolyMulX(g, r) == LET n == Len(g) IN
   TLCEval([i \in 1..n+1 |-> (IF i <= n THEN g[i] ELSE 0) ^^ (IF i >= 2 THEN Mul(g[i-1], r) ELSE 0)])
RECURSIVE Gen(_,_)
Gen(d, g) == IF d = 0 THEN g ELSE Gen(d-1, PolyMulX(g, ExpT[d]))   \* roots alpha^0 .. alpha^(deg-1), leading coefficient first
RECURSIVE Rem(_,_,_,_)
Rem(data, i, reg, g) == IF i > Len(data) THEN reg
   ELSE LET fb == data[i] ^^ reg[1]
            n == Len(reg)
        IN Rem(data, i+1, TLCEval([k \in 1..n |-> (IF k < n THEN reg[k+1] ELSE 0) ^^ Mul(fb, g[k+1])]), g)
Parity(data, r) == Rem(data, 1, [k \in 1..r |-> 0], Gen(r, <<1>>))
\* evaluation of a word (highest power first) at alpha^i - used to state "zero syndromes"
RECURSIVE Horner(_,_,_,_)
Horner(w, i, x, acc) == IF i > Len(w) THEN acc ELSE Horner(w, i+1, x, Mul(acc, x) ^^ w[i])
Syndrome(w, i) == Horner(w, 1, ExpT[i+1], 0)
=============================================================================
