------------------------------- MODULE Points -------------------------------
(* X05: gozxing.ResultPoint_OrderBestPatterns - the step that names the three finder patterns of a QR Code (and the three   *)
(* corners in the multi-QR detector) bottom-left (A), top-left (B), top-right (C).  Points are pairs of integers.            *)
(* Declarative law (what the detectors rely on): the answer is a rearrangement of the input; B is the corner opposite a     *)
(* LONGEST side (|AC| >= |AB|, |BC|); and A -> B -> C turns the way image coordinates demand (cross product >= 0).           *)
(* When the longest side is unique and the points are not collinear this determines the answer completely.                 *)
EXTENDS Integers, Sequences
D2(p, q) == ((p[1] - q[1]) * (p[1] - q[1])) + ((p[2] - q[2]) * (p[2] - q[2]))
Cross(a, b, c) == ((c[1] - b[1]) * (a[2] - b[2])) - ((c[2] - b[2]) * (a[1] - b[1]))
Perms3 == {<<1, 2, 3>>, <<1, 3, 2>>, <<2, 1, 3>>, <<2, 3, 1>>, <<3, 1, 2>>, <<3, 2, 1>>}
IsRearrangement(in, out) == \E s \in Perms3 : out = <<in[s[1]], in[s[2]], in[s[3]]>>
OrderOK(in, out) ==
  /\ IsRearrangement(in, out)
  /\ D2(out[1], out[3]) >= D2(out[1], out[2]) /\ D2(out[1], out[3]) >= D2(out[2], out[3])
  /\ Cross(out[1], out[2], out[3]) >= 0
\* the answers the law allows
Allowed(in) == {o \in {<<in[s[1]], in[s[2]], in[s[3]]>> : s \in Perms3} : OrderOK(in, o)}
\* the procedure as the code runs it (tie-breaks included) - a refinement of the law, proved in MC_Points
Order(in) ==
  LET d01 == D2(in[1], in[2]) d12 == D2(in[2], in[3]) d02 == D2(in[1], in[3])
      t == IF d12 >= d01 /\ d12 >= d02 THEN <<in[2], in[1], in[3]>>
           ELSE IF d02 >= d12 /\ d02 >= d01 THEN <<in[1], in[2], in[3]>>
           ELSE <<in[1], in[3], in[2]>>
  IN IF Cross(t[1], t[2], t[3]) < 0 THEN <<t[3], t[2], t[1]>> ELSE t
Generic(in) == LET d == <<D2(in[1], in[2]), D2(in[2], in[3]), D2(in[1], in[3])>> IN
               /\ Cross(in[1], in[2], in[3]) # 0
               /\ \E i \in 1..3 : \A j \in 1..3 : j # i => d[i] > d[j]
=============================================================================
