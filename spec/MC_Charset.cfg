SPECIFICATION Spec
CONSTANTS
  Part = "guess"
  Alphabet = {65, 195, 227, 240, 128, 149, 169, 254}
  MaxLen = 4
INVARIANT GuessLaws
CHECK_DEADLOCK FALSE
