--------------------------- MODULE Trace_WhiteRect ---------------------------
(* X06: recorded runs of the real WhiteRectangleDetector judged by WhiteRect.tla.  One event = one image (w, h, black pixels *)
(* px), one start square (size, cx, cy), and what the code did: cerr (constructor refused), rect = <<left, right, up, down,  *)
(* exceeded>> as reported by the hook wrd.rect at the end of the expansion loop (<<>> when Detect was not reached), err      *)
(* (Detect answered not-found), pts (the four points, integers).                                                            *)
EXTENDS WhiteRect, TraceLib
VARIABLES l, bad
vars == <<l, bad>>
Init == l = 1 /\ bad = <<>>
Judge(e) ==
  LET img == {e.px[i] : i \in 1..Len(e.px)} IN
  IF e.panic = 1 THEN "panic"
  ELSE IF ~StartOK(e.w, e.h, e.size, e.cx, e.cy) THEN (IF e.cerr = 1 THEN "" ELSE "start_outside_accepted")
  ELSE IF e.cerr = 1 THEN "start_refused"
  ELSE LET f == Run(img, e.w, e.h, Start(e.size, e.cx, e.cy)) IN
       IF Len(e.rect) # 5 THEN "no_rect"
       ELSE IF e.rect[5] # (IF f.pc = "exceeded" THEN 1 ELSE 0) THEN "exceeded"
       ELSE IF f.pc = "exceeded" THEN (IF e.err = 1 THEN "" ELSE "exceeded_but_answered")
       ELSE IF <<e.rect[1], e.rect[2], e.rect[3], e.rect[4]>> # <<f.l, f.r, f.u, f.d>> THEN "rectangle"
       ELSE IF e.err = 1 THEN ""                       \* no black pixel met on one of the corner diagonals
       ELSE IF Len(e.pts) = 4 /\ e.exact = 1 /\ PointsOK(img, e.w, f, e.pts) THEN "" ELSE "points"
Next == /\ l <= NEv /\ l' = l + 1
        /\ LET e == Tr[l] j == IF e.op = "wrd" THEN Judge(e) ELSE "premise" IN
           bad' = IF j = "" THEN bad ELSE Append(bad, <<l, j>>)
Spec == Init /\ [][Next]_vars
Done == l = NEv + 1 => WriteBad(l, bad)
=============================================================================
