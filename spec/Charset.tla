------------------------------ MODULE Charset ------------------------------
(* C15: character sets and ECI.                                                                                 *)
(*  - the ECI registry of the library (AIM ECI assignment numbers of the character sets it supports), lookups    *)
(*    by value / name / alias and their consistency                                                              *)
(*  - the ECI designator of ISO/IEC 18004 (1-, 2-, 3-byte forms), encode and parse                               *)
(*  - the guess of a character set for an un-designated byte segment, as a fold over the bytes with the          *)
(*    documented counters (BOMs, UTF-8 well-formedness, Shift_JIS lead/trail/katakana runs, Latin-1 holes)       *)
(*  - the QR rules that tie them together: which mode a text gets, when a designator is written, which           *)
(*    character set decodes a byte segment (designator > decode hint > guess)                                    *)
(* Texts are sequences of code points, byte strings sequences of 0..255; character set names are strings.        *)
(* The byte <-> code point tables of the character sets themselves are NOT specified here (trusted: x/text);     *)
(* events carry the encoded bytes of their text as input data.                                                   *)
EXTENDS Integers, Sequences, FiniteSets, TLC

(* ------------------------------------------------------------------ registry *)
\* [vals: ECI assignment numbers (first = the one written), name, aliases, kind: "sb" single byte | "mb" multi byte]
Registry == <<
  [vals |-> <<0, 2>>,   name |-> "Cp437",        aliases |-> <<>>,                                   kind |-> "sb"],
  [vals |-> <<1, 3>>,   name |-> "ISO-8859-1",   aliases |-> <<"ISO8859_1">>,                        kind |-> "sb"],
  [vals |-> <<4>>,      name |-> "ISO-8859-2",   aliases |-> <<"ISO8859_2">>,                        kind |-> "sb"],
  [vals |-> <<5>>,      name |-> "ISO-8859-3",   aliases |-> <<"ISO8859_3">>,                        kind |-> "sb"],
  [vals |-> <<6>>,      name |-> "ISO-8859-4",   aliases |-> <<"ISO8859_4">>,                        kind |-> "sb"],
  [vals |-> <<7>>,      name |-> "ISO-8859-5",   aliases |-> <<"ISO8859_5">>,                        kind |-> "sb"],
  [vals |-> <<9>>,      name |-> "ISO-8859-7",   aliases |-> <<"ISO8859_7">>,                        kind |-> "sb"],
  [vals |-> <<11>>,     name |-> "ISO-8859-9",   aliases |-> <<"ISO8859_9">>,                        kind |-> "sb"],
  [vals |-> <<15>>,     name |-> "ISO-8859-13",  aliases |-> <<"ISO8859_13">>,                       kind |-> "sb"],
  [vals |-> <<17>>,     name |-> "ISO-8859-15",  aliases |-> <<"ISO8859_15">>,                       kind |-> "sb"],
  [vals |-> <<18>>,     name |-> "ISO-8859-16",  aliases |-> <<"ISO8859_16">>,                       kind |-> "sb"],
  [vals |-> <<20>>,     name |-> "Shift_JIS",    aliases |-> <<"SJIS">>,                             kind |-> "mb"],
  [vals |-> <<21>>,     name |-> "windows-1250", aliases |-> <<"Cp1250">>,                           kind |-> "sb"],
  [vals |-> <<22>>,     name |-> "windows-1251", aliases |-> <<"Cp1251">>,                           kind |-> "sb"],
  [vals |-> <<23>>,     name |-> "windows-1252", aliases |-> <<"Cp1252">>,                           kind |-> "sb"],
  [vals |-> <<24>>,     name |-> "windows-1256", aliases |-> <<"Cp1256">>,                           kind |-> "sb"],
  [vals |-> <<25>>,     name |-> "UTF-16BE",     aliases |-> <<"UnicodeBig", "UnicodeBigUnmarked">>, kind |-> "mb"],
  [vals |-> <<26>>,     name |-> "UTF-8",        aliases |-> <<"UTF8">>,                             kind |-> "mb"],
  [vals |-> <<27, 170>>, name |-> "ASCII",       aliases |-> <<"US-ASCII">>,                         kind |-> "sb"],
  [vals |-> <<28>>,     name |-> "Big5",         aliases |-> <<>>,                                   kind |-> "mb"],
  [vals |-> <<29>>,     name |-> "GB18030",      aliases |-> <<"GB2312", "EUC_CN", "GBK">>,          kind |-> "mb"],
  [vals |-> <<30>>,     name |-> "EUC-KR",       aliases |-> <<"EUC_KR">>,                           kind |-> "mb"] >>
NReg == Len(Registry)
SeqSet(s) == {s[i] : i \in 1..Len(s)}
NamesOf(k) == {Registry[k].name} \cup SeqSet(Registry[k].aliases)
ValuesOf(k) == SeqSet(Registry[k].vals)
AllNames == UNION {NamesOf(k) : k \in 1..NReg}
AllValues == UNION {ValuesOf(k) : k \in 1..NReg}
MaxECI == 999999
\* lookups: 0 = nothing registered, -1 = format error, k >= 1 = entry k
ByValue(v) == IF v < 0 \/ v >= 900 THEN -1
              ELSE IF v \in AllValues THEN CHOOSE k \in 1..NReg : v \in ValuesOf(k) ELSE 0
ByName(n) == IF n \in AllNames THEN CHOOSE k \in 1..NReg : n \in NamesOf(k) ELSE 0
\* the registry is a partial bijection: no value and no name belongs to two entries; every path leads back
RegistryConsistent ==
  /\ \A j, k \in 1..NReg : j # k => ValuesOf(j) \cap ValuesOf(k) = {} /\ NamesOf(j) \cap NamesOf(k) = {}
  /\ \A k \in 1..NReg :
       /\ \A v \in ValuesOf(k) : ByValue(v) = k /\ v < 900
       /\ \A n \in NamesOf(k) : ByName(n) = k
       /\ ByValue(Registry[ByName(Registry[k].name)].vals[1]) = k
       /\ Registry[k].vals[1] <= 127            \* the writer emits the one-byte designator form

(* ------------------------------------------------------------------ bits *)
BitsOf(v, n) == [i \in 1..n |-> (v \div (2^(n-i))) % 2]
RECURSIVE ValAt(_,_,_,_)
ValAt(bits, i, n, acc) == IF n = 0 THEN acc ELSE ValAt(bits, i+1, n-1, (acc*2) + bits[i])
RECURSIVE Flat(_,_,_)
Flat(seqs, i, acc) == IF i > Len(seqs) THEN acc ELSE Flat(seqs, i+1, acc \o seqs[i])
Cat(seqs) == Flat(seqs, 1, <<>>)
BytesToBits(bs) == Cat([i \in 1..Len(bs) |-> BitsOf(bs[i], 8)])
BitsToBytes(bits) == LET n == (Len(bits) + 7) \div 8
                         p == bits \o [i \in 1..(8*n) - Len(bits) |-> 0]
                     IN [i \in 1..n |-> ValAt(p, (8*(i-1)) + 1, 8, 0)]
IsByteSeq(s) == DOMAIN s = 1..Len(s) /\ \A i \in 1..Len(s) : s[i] \in 0..255
IsCpSeq(s) == DOMAIN s = 1..Len(s) /\ \A i \in 1..Len(s) : s[i] \in 0..1114111

(* ------------------------------------------------------------------ ECI designator (ISO/IEC 18004 7.4.2) *)
ECIDesignator(v) == IF v <= 127 THEN <<0>> \o BitsOf(v, 7)
                    ELSE IF v <= 16383 THEN <<1, 0>> \o BitsOf(v, 14)
                    ELSE <<1, 1, 0>> \o BitsOf(v, 21)
\* parse at bit position i (1-based): <<value, bits consumed>>, value -1 for the reserved forms / truncation
ParseECI(bits, i) ==
  IF i + 7 > Len(bits) THEN <<-1, 0>>
  ELSE IF bits[i] = 0 THEN <<ValAt(bits, i+1, 7, 0), 8>>
  ELSE IF bits[i+1] = 0 THEN (IF i + 15 > Len(bits) THEN <<-1, 0>> ELSE <<ValAt(bits, i+2, 14, 0), 16>>)
  ELSE IF bits[i+2] = 0 THEN (IF i + 23 > Len(bits) THEN <<-1, 0>> ELSE <<ValAt(bits, i+3, 21, 0), 24>>)
  ELSE <<-1, 0>>
ModeECI == 7   ModeByte == 4   ModeNumeric == 1   ModeAlnum == 2   ModeKanji == 8
\* a version-1..9 stream with an optional designator and one byte segment (count field of 8 bits), terminator, zero fill
ByteStream(eci, payload) ==
  BitsToBytes((IF eci >= 0 THEN BitsOf(ModeECI, 4) \o ECIDesignator(eci) ELSE <<>>)
              \o BitsOf(ModeByte, 4) \o BitsOf(Len(payload), 8) \o BytesToBits(payload) \o <<0, 0, 0, 0>>)

(* ------------------------------------------------------------------ the guess for un-designated byte segments *)
\* One pass over the bytes with three hypotheses (ISO-8859-1, Shift_JIS, UTF-8) and their counters.
G0 == [iso |-> TRUE, sjis |-> TRUE, utf |-> TRUE, uleft |-> 0, u2 |-> 0, u3 |-> 0, u4 |-> 0,
       sleft |-> 0, kata |-> 0, curk |-> 0, curd |-> 0, maxk |-> 0, maxd |-> 0, high |-> 0]
Bit(v, m) == (v \div m) % 2 = 1          \* m = 128, 64, 32, 16, 8
GUtf(g, v) ==
  IF ~g.utf THEN g
  ELSE IF g.uleft > 0 THEN (IF ~Bit(v, 128) THEN [g EXCEPT !.utf = FALSE] ELSE [g EXCEPT !.uleft = @ - 1])
  ELSE IF ~Bit(v, 128) THEN g
  ELSE IF ~Bit(v, 64) THEN [g EXCEPT !.utf = FALSE]
  ELSE IF ~Bit(v, 32) THEN [g EXCEPT !.uleft = 1, !.u2 = @ + 1]
  ELSE IF ~Bit(v, 16) THEN [g EXCEPT !.uleft = 2, !.u3 = @ + 1]
  ELSE IF ~Bit(v, 8) THEN [g EXCEPT !.uleft = 3, !.u4 = @ + 1]
  ELSE [g EXCEPT !.utf = FALSE, !.uleft = 3]
GIso(g, v) ==
  IF ~g.iso THEN g
  ELSE IF v > 127 /\ v < 160 THEN [g EXCEPT !.iso = FALSE]
  ELSE IF v > 159 /\ (v < 192 \/ v = 215 \/ v = 247) THEN [g EXCEPT !.high = @ + 1]
  ELSE g
Max2(a, b) == IF a > b THEN a ELSE b
GSjis(g, v) ==
  IF ~g.sjis THEN g
  ELSE IF g.sleft > 0 THEN (IF v < 64 \/ v = 127 \/ v > 252 THEN [g EXCEPT !.sjis = FALSE] ELSE [g EXCEPT !.sleft = @ - 1])
  ELSE IF v = 128 \/ v = 160 \/ v > 239 THEN [g EXCEPT !.sjis = FALSE]
  ELSE IF v > 160 /\ v < 224 THEN [g EXCEPT !.kata = @ + 1, !.curd = 0, !.curk = @ + 1, !.maxk = Max2(@, g.curk + 1)]
  ELSE IF v > 127 THEN [g EXCEPT !.sleft = @ + 1, !.curk = 0, !.curd = @ + 1, !.maxd = Max2(@, g.curd + 1)]
  ELSE [g EXCEPT !.curk = 0, !.curd = 0]
RECURSIVE GFold(_,_,_)
GFold(bs, i, g) == IF i > Len(bs) \/ ~(g.iso \/ g.sjis \/ g.utf) THEN g
                   ELSE GFold(bs, i+1, GSjis(GIso(GUtf(g, bs[i]), bs[i]), bs[i]))
\* labels: "UTF-16BE+BOM", "UTF-16LE+BOM", "UTF-8", "Shift_JIS", "ISO-8859-1"
Guess(bs) ==
  LET n == Len(bs) IN
  IF n > 2 /\ bs[1] = 254 /\ bs[2] = 255 THEN "UTF-16BE+BOM"
  ELSE IF n > 2 /\ bs[1] = 255 /\ bs[2] = 254 THEN "UTF-16LE+BOM"
  ELSE LET g == GFold(bs, 1, G0)
           utf == g.utf /\ g.uleft = 0
           sjis == g.sjis /\ g.sleft = 0
           bom == n > 3 /\ bs[1] = 239 /\ bs[2] = 187 /\ bs[3] = 191
       IN IF utf /\ (bom \/ g.u2 + g.u3 + g.u4 > 0) THEN "UTF-8"
          ELSE IF sjis /\ (g.maxk >= 3 \/ g.maxd >= 3) THEN "Shift_JIS"
          ELSE IF g.iso /\ sjis THEN (IF (g.maxk = 2 /\ g.kata = 2) \/ g.high * 10 >= n THEN "Shift_JIS" ELSE "ISO-8859-1")
          ELSE IF g.iso THEN "ISO-8859-1"
          ELSE IF sjis THEN "Shift_JIS"
          ELSE "UTF-8"
\* well-formed UTF-8 (RFC 3629: shortest form, no surrogates, at most U+10FFFF)
RECURSIVE WellFormedFrom(_,_)
WellFormedFrom(bs, i) ==
  LET n == Len(bs)  In(k, lo, hi) == i + k <= n /\ bs[i+k] >= lo /\ bs[i+k] <= hi IN
  IF i > n THEN TRUE
  ELSE LET b == bs[i] IN
    IF b <= 127 THEN WellFormedFrom(bs, i+1)
    ELSE IF b >= 194 /\ b <= 223 THEN In(1, 128, 191) /\ WellFormedFrom(bs, i+2)
    ELSE IF b = 224 THEN In(1, 160, 191) /\ In(2, 128, 191) /\ WellFormedFrom(bs, i+3)
    ELSE IF (b >= 225 /\ b <= 236) \/ b = 238 \/ b = 239 THEN In(1, 128, 191) /\ In(2, 128, 191) /\ WellFormedFrom(bs, i+3)
    ELSE IF b = 237 THEN In(1, 128, 159) /\ In(2, 128, 191) /\ WellFormedFrom(bs, i+3)
    ELSE IF b = 240 THEN In(1, 144, 191) /\ In(2, 128, 191) /\ In(3, 128, 191) /\ WellFormedFrom(bs, i+4)
    ELSE IF b >= 241 /\ b <= 243 THEN In(1, 128, 191) /\ In(2, 128, 191) /\ In(3, 128, 191) /\ WellFormedFrom(bs, i+4)
    ELSE IF b = 244 THEN In(1, 128, 143) /\ In(2, 128, 191) /\ In(3, 128, 191) /\ WellFormedFrom(bs, i+4)
    ELSE FALSE
WellFormedUTF8(bs) == WellFormedFrom(bs, 1)
AllAscii(bs) == \A i \in 1..Len(bs) : bs[i] <= 127
\* every one of these reads ASCII bytes as the same characters
AsciiTransparent == {"UTF-8", "Shift_JIS", "ISO-8859-1"}

(* ------------------------------------------------------------------ QR rules *)
\* character set that decodes a byte segment: designator, else decode hint, else the guess (label)
SegmentCharset(eciEntry, hintEntry, payload) ==
  IF eciEntry >= 1 THEN Registry[eciEntry].name
  ELSE IF hintEntry >= 1 THEN Registry[hintEntry].name
  ELSE Guess(payload)
AlnumCps == {48 + i : i \in 0..9} \cup {65 + i : i \in 0..25} \cup {32, 36, 37, 42, 43, 45, 46, 47, 58}
\* mode of a text written with character set entry k (0: none given); enc = the text's bytes in that character set
\* (UTF-8 when none given).  Kanji mode: Shift_JIS named and every character a double-byte one with lead 81-9F / E0-EB.
ChooseMode(k, text, enc) ==
  IF k >= 1 /\ Registry[k].name = "Shift_JIS" /\ Len(enc) % 2 = 0 /\ Len(enc) = 2 * Len(text) /\ Len(text) >= 1
     /\ \A i \in 1..Len(text) : LET b == enc[(2*i) - 1] IN (b >= 129 /\ b <= 159) \/ (b >= 224 /\ b <= 235)
  THEN ModeKanji
  ELSE IF text # <<>> /\ \A i \in 1..Len(text) : text[i] \in 48..57 THEN ModeNumeric
  ELSE IF text # <<>> /\ \A i \in 1..Len(text) : text[i] \in AlnumCps THEN ModeAlnum
  ELSE ModeByte
=============================================================================
