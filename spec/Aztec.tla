------------------------------- MODULE Aztec -------------------------------
(* C11: reference semantics of Aztec Code (ISO/IEC 24778) written from the standard's definitions:            *)
(*  - the five code tables with latch / shift / binary-shift semantics: a *script* (sequence of segments)      *)
(*    has a text (ScriptText) and a bit stream (ScriptBits); the high-level DECODE AUTOMATON (DecodeBits)      *)
(*    reads a stream back                                                                                      *)
(*  - bit stuffing into b-bit codewords, Reed-Solomon check words over GF(2^b) (roots alpha^1..alpha^r)        *)
(*  - the mode message (GF(16)), bull's eye, orientation marks, reference grid, and the layer spiral           *)
(*  - the full module matrix of a symbol (Sym) and the modules a damaged codeword occupies (FlipCells)         *)
(* The gozxing library has no Aztec writer: this module is the independent reference encoder.  Tables are      *)
(* numbered U=0, L=1, M=2, P=3, D=4; `c` is 1 for compact and 0 for full-range symbols.  Texts are sequences   *)
(* of byte values, bit streams sequences of 0/1, module coordinates <<x, y>> with x to the right, y downwards. *)
EXTENDS Integers, Sequences, FiniteSets, Bitwise, TLC

(* ------------------------------------------------------------------ helpers *)
BitsOf(v, n) == [i \in 1..n |-> (v \div (2^(n-i))) % 2]                 \* MSB first
RECURSIVE ValAt(_,_,_,_)
ValAt(bits, i, n, acc) == IF n = 0 THEN acc ELSE ValAt(bits, i+1, n-1, (acc*2) + bits[i])   \* value of bits[i..i+n-1]
RECURSIVE Flat(_,_,_)
Flat(seqs, i, acc) == IF i > Len(seqs) THEN acc ELSE Flat(seqs, i+1, acc \o seqs[i])
Cat(seqs) == Flat(seqs, 1, <<>>)
BitAt(v, i) == (v \div (2^i)) % 2
RECURSIVE PackLE(_,_,_)
PackLE(s, lo, hi) == IF lo > hi THEN 0 ELSE s[lo] + (2 * PackLE(s, lo+1, hi))
NChunks(n) == (n + 15) \div 16
Chunks(s) == [k \in 1..NChunks(Len(s)) |-> PackLE(s, (16*(k-1)) + 1, IF 16*k < Len(s) THEN 16*k ELSE Len(s))]
UnChunks(cs, n) == [i \in 1..n |-> BitAt(cs[((i-1) \div 16) + 1], (i-1) % 16)]
Abs(x) == IF x < 0 THEN 0 - x ELSE x
Max2(a, b) == IF a > b THEN a ELSE b
Min2(a, b) == IF a < b THEN a ELSE b

(* ------------------------------------------------------------------ GF(2^m), Reed-Solomon *)
\* primitive polynomials of ISO/IEC 24778: x^4+x+1, x^6+x+1, x^8+x^5+x^3+x^2+1, x^10+x^3+1, x^12+x^6+x^5+x^3+1
PrimPoly(m) == CASE m = 4 -> 16+2+1 [] m = 6 -> 64+2+1 [] m = 8 -> 256+32+8+4+1 [] m = 10 -> 1024+8+1
                 [] m = 12 -> 4096+64+32+8+1
TimesAlpha(x, m) == LET s == x*2 IN IF s >= 2^m THEN s ^^ PrimPoly(m) ELSE s
\* tables of powers / logarithms (built in blocks of 64: deep recursion is slow in TLC)
RECURSIVE ExpRun(_,_,_,_)
ExpRun(k, x, acc, m) == IF k = 0 THEN acc ELSE ExpRun(k-1, TimesAlpha(x, m), Append(acc, x), m)   \* x, x*alpha, ... (k elements)
RECURSIVE ExpBlocks(_,_,_,_)
ExpBlocks(left, x, acc, m) == IF left = 0 THEN acc
   ELSE LET k == IF left < 64 THEN left ELSE 64  blk == ExpRun(k, x, <<>>, m)
        IN ExpBlocks(left - k, TimesAlpha(blk[k], m), acc \o blk, m)
RECURSIVE InvRun(_,_,_,_)
InvRun(ex, i, hi, acc) == IF i > hi THEN acc ELSE InvRun(ex, i+1, hi, [acc EXCEPT ![ex[i]] = i-1])
RECURSIVE InvBlocks(_,_,_)
InvBlocks(ex, i, acc) == IF i > Len(ex) THEN acc
   ELSE LET hi == IF i + 63 > Len(ex) THEN Len(ex) ELSE i + 63 IN InvBlocks(ex, hi + 1, TLCEval(InvRun(ex, i, hi, acc)))
MkField(m) == LET ex == ExpBlocks((2^m) - 1, 1, <<>>, m)       \* ex[i+1] = alpha^i
              IN [m |-> m, n |-> (2^m) - 1, ex |-> ex, lg |-> InvBlocks(ex, 1, TLCEval([x \in 1..(2^m)-1 |-> 0]))]
F4 == MkField(4)  F6 == MkField(6)  F8 == MkField(8)  F10 == MkField(10)  F12 == MkField(12)
FieldFor(ws) == CASE ws = 4 -> F4 [] ws = 6 -> F6 [] ws = 8 -> F8 [] ws = 10 -> F10 [] ws = 12 -> F12
Mul(f, a, b) == IF a = 0 \/ b = 0 THEN 0 ELSE f.ex[((f.lg[a] + f.lg[b]) % f.n) + 1]
\* multiplication straight from the definition (shift-and-add modulo the primitive polynomial): checks the tables
RECURSIVE SlowMul(_,_,_,_)
SlowMul(a, b, m, acc) == IF b = 0 THEN acc
                         ELSE SlowMul(TimesAlpha(a, m), b \div 2, m, IF b % 2 = 1 THEN acc ^^ a ELSE acc)
\* g(x) = prod_{i=1..d} (x - alpha^i), coefficients highest degree first
TimesRoot(f, g, r) == LET n == Len(g) IN
   TLCEval([i \in 1..n+1 |-> (IF i <= n THEN g[i] ELSE 0) ^^ (IF i >= 2 THEN Mul(f, g[i-1], r) ELSE 0)])
RECURSIVE GenPoly(_,_,_,_)
GenPoly(f, i, d, g) == IF i > d THEN g ELSE GenPoly(f, i+1, d, TimesRoot(f, g, f.ex[(i % f.n) + 1]))
\* remainder of data(x) * x^r modulo g by long division.  One division step: the register (with a 0 appended) is shifted
\* and fb * g is subtracted; the products are taken through the log table (ex2 = powers of alpha, twice over, 1-based;
\* glog[k] = 1 + log g[k+1]; lfb = log fb) - kept to few operations because it runs (data words) x (check words) times.
DivStep(regx, lfb, glog, ex2, n) == TLCEval([k \in 1..n |-> regx[k+1] ^^ ex2[lfb + glog[k]]])
RECURSIVE PolyRem(_,_,_,_,_,_)
PolyRem(ex2, lg, data, i, reg, glog) == IF i > Len(data) THEN reg
   ELSE LET fb == data[i] ^^ reg[1] IN
        IF fb = 0 THEN PolyRem(ex2, lg, data, i+1, Tail(reg) \o <<0>>, glog)
        ELSE PolyRem(ex2, lg, data, i+1, DivStep(reg \o <<0>>, lg[fb], glog, ex2, Len(reg)), glog)
\* the r check words of the systematic codeword data \o parity
Parity(f, data, r) == IF r = 0 THEN <<>>
   ELSE LET g == GenPoly(f, 1, r, <<1>>) IN
        IF \E k \in 1..r+1 : g[k] = 0 THEN Assert(FALSE, "generator polynomial with a zero coefficient")
        ELSE PolyRem(f.ex \o f.ex, f.lg, data, 1, [k \in 1..r |-> 0], TLCEval([k \in 1..r |-> 1 + f.lg[g[k+1]]]))
RECURSIVE Horner(_,_,_,_,_)
Horner(f, cw, x, i, acc) == IF i > Len(cw) THEN acc ELSE Horner(f, cw, x, i+1, Mul(f, acc, x) ^^ cw[i])
\* cw is a codeword of the (n, n-r) code iff it vanishes at alpha^1..alpha^r
IsCodeword(f, cw, r) == \A j \in 1..r : Horner(f, cw, f.ex[(j % f.n) + 1], 1, 0) = 0

(* ------------------------------------------------------------------ code tables (ISO/IEC 24778 Table 2) *)
U == 0  L == 1  M == 2  P == 3  D == 4
Tables == 0..4
Width(t) == IF t = D THEN 4 ELSE 5
NChars(t) == CASE t = U -> 27 [] t = L -> 27 [] t = M -> 27 [] t = P -> 30 [] t = D -> 13   \* character codes are 1..NChars(t)
CharBytes(t, k) ==
  CASE t = U -> IF k = 1 THEN <<32>> ELSE <<63 + k>>                      \* SP, A..Z
    [] t = L -> IF k = 1 THEN <<32>> ELSE <<95 + k>>                      \* SP, a..z
    [] t = M -> IF k = 1 THEN <<32>> ELSE IF k <= 14 THEN <<k - 1>>       \* SP, ^A..^M
                ELSE IF k <= 19 THEN <<k + 12>>                           \* ESC FS GS RS US
                ELSE << <<64, 92, 94, 95, 96, 124, 126, 127>>[k - 19] >>  \* @ \ ^ _ ` | ~ DEL
    [] t = P -> IF k = 1 THEN <<13>> ELSE IF k = 2 THEN <<13, 10>> ELSE IF k = 3 THEN <<46, 32>>
                ELSE IF k = 4 THEN <<44, 32>> ELSE IF k = 5 THEN <<58, 32>>   \* CR, CR LF, ". ", ", ", ": "
                ELSE IF k <= 20 THEN <<27 + k>>                           \* ! " # $ % & ' ( ) * + , - . /
                ELSE IF k <= 26 THEN <<37 + k>>                           \* : ; < = > ?
                ELSE << <<91, 93, 123, 125>>[k - 26] >>                   \* [ ] { }
    [] t = D -> IF k = 1 THEN <<32>> ELSE IF k <= 11 THEN <<46 + k>>      \* SP, 0..9
                ELSE IF k = 12 THEN <<44>> ELSE <<46>>                    \* , .
\* control codes: <<table, target, code>>
LatchCodes == { <<U,L,28>>, <<U,M,29>>, <<U,D,30>>, <<L,M,29>>, <<L,D,30>>, <<M,L,28>>, <<M,U,29>>, <<M,P,30>>,
                <<P,U,31>>, <<D,U,14>> }
ShiftCodes == { <<U,P,0>>, <<L,P,0>>, <<M,P,0>>, <<D,P,0>>, <<L,U,28>>, <<D,U,15>> }
BinTables == {U, L, M}        \* B/S is code 31 of these tables
BinCode == 31
HasLatch(f, t) == \E x \in LatchCodes : x[1] = f /\ x[2] = t
LatchCode(f, t) == (CHOOSE x \in LatchCodes : x[1] = f /\ x[2] = t)[3]
HasShift(f, t) == \E x \in ShiftCodes : x[1] = f /\ x[2] = t
ShiftCode(f, t) == (CHOOSE x \in ShiftCodes : x[1] = f /\ x[2] = t)[3]

(* ------------------------------------------------------------------ scripts *)
\* A segment is <<kind, a, b, c, d>>:
\*   <<0, t, s, d, n>>  n characters of the current table t: codes 1 + ((s + i*d) mod NChars(t)), i = 0..n-1
\*   <<1, t, 0, 0, 0>>  latch to table t
\*   <<2, t, k, 0, 0>>  shift to table t for the one character with code k
\*   <<3, 0, s, d, n>>  binary shift of n bytes (s + i*d) mod 256 (n <= 31: 5-bit count; else 00000 + 11-bit n-31)
MaxBin == 31 + 2047
SegShape(s) == DOMAIN s = 1..5 /\ \A i \in 1..5 : s[i] \in 0..65535
SegOK(mode, s) ==
  /\ SegShape(s)
  /\ CASE s[1] = 0 -> s[2] = mode /\ s[3] < NChars(mode) /\ s[5] >= 1
       [] s[1] = 1 -> s[2] \in Tables /\ HasLatch(mode, s[2])
       [] s[1] = 2 -> s[2] \in Tables /\ HasShift(mode, s[2]) /\ s[3] >= 1 /\ s[3] <= NChars(s[2])
       [] s[1] = 3 -> mode \in BinTables /\ s[5] >= 1 /\ s[5] <= MaxBin
       [] OTHER -> FALSE
SegMode(mode, s) == IF s[1] = 1 THEN s[2] ELSE mode
RunCode(s, i) == 1 + ((s[3] + (i * s[4])) % NChars(s[2]))
BinByte(s, i) == (s[3] + (i * s[4])) % 256
SegBits(mode, s) ==
  CASE s[1] = 0 -> Cat([i \in 1..s[5] |-> BitsOf(RunCode(s, i-1), Width(mode))])
    [] s[1] = 1 -> BitsOf(LatchCode(mode, s[2]), Width(mode))
    [] s[1] = 2 -> BitsOf(ShiftCode(mode, s[2]), Width(mode)) \o BitsOf(s[3], Width(s[2]))
    [] s[1] = 3 -> BitsOf(BinCode, 5)
                   \o (IF s[5] <= 31 THEN BitsOf(s[5], 5) ELSE BitsOf(0, 5) \o BitsOf(s[5] - 31, 11))
                   \o Cat([i \in 1..s[5] |-> BitsOf(BinByte(s, i-1), 8)])
SegText(mode, s) ==
  CASE s[1] = 0 -> Cat([i \in 1..s[5] |-> CharBytes(mode, RunCode(s, i-1))])
    [] s[1] = 1 -> <<>>
    [] s[1] = 2 -> CharBytes(s[2], s[3])
    [] s[1] = 3 -> [i \in 1..s[5] |-> BinByte(s, i-1)]
SegLen(mode, s) ==        \* number of bits without building them
  CASE s[1] = 0 -> s[5] * Width(mode)
    [] s[1] = 1 -> Width(mode)
    [] s[1] = 2 -> Width(mode) + Width(s[2])
    [] s[1] = 3 -> 5 + (IF s[5] <= 31 THEN 5 ELSE 16) + (8 * s[5])
RECURSIVE ScriptRun(_,_,_,_,_)
ScriptRun(items, i, mode, bits, text) ==
  IF i > Len(items) THEN [ok |-> TRUE, mode |-> mode, bits |-> bits, text |-> text]
  ELSE IF ~SegOK(mode, items[i]) THEN [ok |-> FALSE, mode |-> mode, bits |-> bits, text |-> text]
  ELSE ScriptRun(items, i+1, SegMode(mode, items[i]), bits \o SegBits(mode, items[i]), text \o SegText(mode, items[i]))
Script(items) == IF DOMAIN items = 1..Len(items) THEN ScriptRun(items, 1, U, <<>>, <<>>)     \* a symbol starts in Upper
                 ELSE [ok |-> FALSE, mode |-> U, bits |-> <<>>, text |-> <<>>]

(* ------------------------------------------------------------------ the high-level decode automaton *)
\* state: i bits consumed, latched table, pending shift table (-1: none), output bytes.  A stream that ends inside a
\* code ends the message (codeword padding).  FLG(n) is outside this property: marked by a trailing -1.
RECURSIVE Dec(_,_,_,_,_)
Dec(bits, i, latch, shift, out) ==
  LET n == Len(bits)
      t == IF shift >= 0 THEN shift ELSE latch
      w == Width(t)
  IN IF i + w > n THEN out
     ELSE LET k == ValAt(bits, i+1, w, 0) IN
       IF k >= 1 /\ k <= NChars(t) THEN Dec(bits, i+w, latch, -1, out \o CharBytes(t, k))
       ELSE IF \E x \in LatchCodes : x[1] = t /\ x[3] = k
            THEN Dec(bits, i+w, (CHOOSE x \in LatchCodes : x[1] = t /\ x[3] = k)[2], -1, out)
       ELSE IF \E x \in ShiftCodes : x[1] = t /\ x[3] = k
            THEN Dec(bits, i+w, latch, (CHOOSE x \in ShiftCodes : x[1] = t /\ x[3] = k)[2], out)
       ELSE IF t \in BinTables /\ k = BinCode
            THEN IF i + w + 5 > n THEN out
                 ELSE LET l5 == ValAt(bits, i+w+1, 5, 0) IN
                      IF l5 = 0 /\ i + w + 16 > n THEN out
                      ELSE LET len == IF l5 = 0 THEN ValAt(bits, i+w+6, 11, 0) + 31 ELSE l5
                               st == i + w + (IF l5 = 0 THEN 16 ELSE 5)
                               take == Min2(len, (n - st) \div 8)
                               out2 == out \o [j \in 1..take |-> ValAt(bits, st + (8*(j-1)) + 1, 8, 0)]
                           IN IF take < len THEN out2 ELSE Dec(bits, st + (8*len), latch, -1, out2)
       ELSE out \o <<-1>>
DecodeBits(bits) == Dec(bits, 0, U, -1, <<>>)

(* ------------------------------------------------------------------ bit stuffing *)
\* The stream is cut into b-bit codewords; when the first b-1 bits of a codeword are all equal, a bit of the opposite
\* value is stuffed as its last bit; the last codeword is padded with 1s.
RECURSIVE StuffW(_,_,_,_)
StuffW(bits, i, ws, out) ==       \* i bits consumed; result: sequence of codewords
  LET n == Len(bits) IN
  IF i >= n THEN out
  ELSE LET head == IF i + ws - 1 <= n THEN ValAt(bits, i+1, ws-1, 0)
                   ELSE ValAt([j \in 1..ws-1 |-> IF i + j > n THEN 1 ELSE bits[i+j]], 1, ws-1, 0) IN
       IF head = 0 THEN StuffW(bits, i + ws - 1, ws, Append(out, 1))
       ELSE IF head = (2^(ws-1)) - 1 THEN StuffW(bits, i + ws - 1, ws, Append(out, (2^ws) - 2))
       ELSE StuffW(bits, i + ws, ws, Append(out, (head*2) + (IF i + ws > n THEN 1 ELSE bits[i+ws])))
Stuff(bits, ws) == StuffW(bits, 0, ws, <<>>)
Unstuff(words, ws) == Cat([k \in 1..Len(words) |->
   IF words[k] = 1 THEN [j \in 1..ws-1 |-> 0] ELSE IF words[k] = (2^ws) - 2 THEN [j \in 1..ws-1 |-> 1]
   ELSE BitsOf(words[k], ws)])

(* ------------------------------------------------------------------ symbol structure *)
WordSize(layers) == IF layers <= 2 THEN 6 ELSE IF layers <= 8 THEN 8 ELSE IF layers <= 22 THEN 10 ELSE 12
CoreR(c) == IF c = 1 THEN 5 ELSE 7                     \* the core (bull's eye + mode ring) is (2R+1) x (2R+1)
Base(c, layers) == (2 * CoreR(c)) + (IF c = 1 THEN 1 ELSE 0) + (4 * layers)   \* side counted without reference-grid lines
\* full-range symbols carry reference-grid lines at every multiple of 16 modules from the centre line
GridLinesPerSide(c, layers) == IF c = 1 THEN 0 ELSE ((Base(c, layers) \div 2) - 1) \div 15
Size(c, layers) == IF c = 1 THEN Base(c, layers) ELSE Base(c, layers) + 1 + (2 * GridLinesPerSide(c, layers))
Center(c, layers) == Size(c, layers) \div 2
\* logical index 0..Base-1 (grid lines not counted) -> physical coordinate
Phys(c, layers, i) ==
  IF c = 1 THEN i
  ELSE LET oc == Base(c, layers) \div 2  ctr == Center(c, layers) IN
       IF i >= oc THEN LET k == i - oc + 1 IN ctr + k + ((k-1) \div 15)
       ELSE LET k == oc - i IN ctr - k - ((k-1) \div 15)
\* layer i = 0 is the OUTERMOST one; each of its four sides holds RowSize dominoes (2 modules: outer, inner)
RowSize(c, layers, i) == Base(c, layers) - (4*i) - 2
RowOff(c, layers, i) == 8 * ((i * (Base(c, layers) - 2)) - (2 * i * (i-1)))    \* sum of 8*RowSize over the layers outside i
TotalBits(c, layers) == RowOff(c, layers, layers)
RotN(b, x, y, s) == CASE s = 0 -> <<x, y>> [] s = 1 -> <<y, b-1-x>> [] s = 2 -> <<b-1-x, b-1-y>> [] s = 3 -> <<b-1-y, x>>
\* the message runs down the left side of a layer, then along the bottom, up the right side and back along the top
LayerCells(c, layers, i) ==
  LET b == Base(c, layers)  rs == RowSize(c, layers, i)  low == 2*i IN
  TLCEval([q \in 1..8*rs |->
     LET side == (q-1) \div (2*rs)  r == (q-1) % (2*rs)  j == r \div 2  k == r % 2
         lg == RotN(b, low + k, low + j, side)
     IN <<Phys(c, layers, lg[1]), Phys(c, layers, lg[2])>>])
Spiral(c, layers) == Cat([i \in 1..layers |-> LayerCells(c, layers, i-1)])
IsFunction(c, layers, x, y) ==
  LET dx == x - Center(c, layers)  dy == y - Center(c, layers) IN
  \/ Max2(Abs(dx), Abs(dy)) <= CoreR(c)
  \/ c = 0 /\ (dx % 16 = 0 \/ dy % 16 = 0)
\* orientation marks on the corners of the mode ring: three modules at top-left, two at top-right, one at bottom-right
OrientCells(c, layers) == LET ctr == Center(c, layers)  r == CoreR(c) IN
  { <<ctr-r, ctr-r>>, <<ctr-r+1, ctr-r>>, <<ctr-r, ctr-r+1>>, <<ctr+r, ctr-r>>, <<ctr+r, ctr-r+1>>, <<ctr+r, ctr+r-1>> }
\* mode message: clockwise round the mode ring starting after the top-left corner
ModeLen(c) == IF c = 1 THEN 7 ELSE 10                  \* bits per side
ModeCell(c, layers, q) ==                               \* q = 0.. 4*ModeLen-1
  LET m == ModeLen(c)  s == q \div m  p == q % m  r == CoreR(c)  ctr == Center(c, layers)
      o == IF c = 1 THEN p - 3 ELSE p - 5 + (p \div 5)
      v == CASE s = 0 -> <<o, 0-r>> [] s = 1 -> <<r, o>> [] s = 2 -> <<0-o, r>> [] s = 3 -> <<0-r, 0-o>>
  IN <<ctr + v[1], ctr + v[2]>>
CheckWords(f, data, total) == data \o Parity(f, data, total - Len(data))
WordsOf(bits, ws) == [k \in 1..(Len(bits) \div ws) |-> ValAt(bits, ((k-1)*ws) + 1, ws, 0)]
ModeWords(c, layers, nd) ==
  IF c = 1 THEN CheckWords(F4, WordsOf(BitsOf(layers-1, 2) \o BitsOf(nd-1, 6), 4), 7)
  ELSE CheckWords(F4, WordsOf(BitsOf(layers-1, 5) \o BitsOf(nd-1, 11), 4), 10)
ModeBits(c, layers, nd) == LET w == ModeWords(c, layers, nd) IN Cat([k \in 1..Len(w) |-> BitsOf(w[k], 4)])
FunctionDark(c, layers, modeDark, x, y) ==
  LET dx == x - Center(c, layers)  dy == y - Center(c, layers)  d == Max2(Abs(dx), Abs(dy)) IN
  IF d < CoreR(c) THEN d % 2 = 0                                             \* bull's eye: concentric rings
  ELSE IF d = CoreR(c) THEN <<x, y>> \in OrientCells(c, layers) \/ <<x, y>> \in modeDark
  ELSE c = 0 /\ ((dx % 16 = 0 /\ dy % 2 = 0) \/ (dy % 16 = 0 /\ dx % 2 = 0))   \* reference grid alternates from the centre
RECURSIVE Paint(_,_,_,_,_)
Paint(mx, cells, bits, off, q) ==
  IF q > Len(cells) THEN mx
  ELSE Paint(IF bits[off + q] = 1 THEN [mx EXCEPT ![cells[q][2] + 1][cells[q][1] + 1] = 1] ELSE mx, cells, bits, off, q + 1)
RECURSIVE PaintLayers(_,_,_,_,_)
PaintLayers(mx, c, layers, bits, i) ==
  IF i >= layers THEN mx
  ELSE PaintLayers(Paint(mx, LayerCells(c, layers, i), bits, RowOff(c, layers, i), 1), c, layers, bits, i + 1)
NumCodewords(c, layers) == TotalBits(c, layers) \div WordSize(layers)
PadBits(c, layers) == TotalBits(c, layers) % WordSize(layers)       \* unused leading bits of the outermost layer
\* message bit sequence (length TotalBits) for given data codewords: pad zeros, data codewords, check codewords
MessageBits(c, layers, dw, withParity) ==
  LET ws == WordSize(layers)  n == NumCodewords(c, layers)
      all == IF withParity THEN CheckWords(FieldFor(ws), dw, n) ELSE dw \o [k \in 1..n - Len(dw) |-> 0]
  IN [k \in 1..PadBits(c, layers) |-> 0] \o Cat([k \in 1..Len(all) |-> BitsOf(all[k], ws)])
Matrix(c, layers, nd, mbits) ==
  LET sz == Size(c, layers)
      mb == ModeBits(c, layers, nd)
      modeDark == {ModeCell(c, layers, q) : q \in {qq \in 0..(4*ModeLen(c))-1 : mb[qq+1] = 1}}
      m0 == [y \in 1..sz |-> [x \in 1..sz |-> IF FunctionDark(c, layers, modeDark, x-1, y-1) THEN 1 ELSE 0]]
  IN PaintLayers(m0, c, layers, mbits, 0)
\* the reference symbol of a script: codeword parameters, text, and the module matrix as rows of 16-bit chunks
Sym(c, layers, items, withParity) ==
  LET sc == Script(items)
      ws == WordSize(layers)
      dw == Stuff(sc.bits, ws)
      nd == Len(dw)
      mx == Matrix(c, layers, nd, MessageBits(c, layers, dw, withParity))
  IN [ws |-> ws, ncw |-> NumCodewords(c, layers), nd |-> nd, size |-> Size(c, layers), text |-> sc.text,
      hl |-> sc.bits, dw |-> dw, rows |-> [y \in 1..Len(mx) |-> Chunks(mx[y])]]
\* damage: a fault <<w, mask>> xors mask into codeword w (0-based, data then check words); the modules it occupies
FaultShape(f, ncw, ws) == DOMAIN f = 1..2 /\ f[1] \in 0..ncw-1 /\ f[2] \in 1..(2^ws)-1
FlipCells(c, layers, spiral, faults) ==
  LET ws == WordSize(layers)  pad == PadBits(c, layers) IN
  Cat([k \in 1..Len(faults) |->
     LET w == faults[k][1]  mask == faults[k][2]
         on == {t \in 0..ws-1 : BitAt(mask, ws-1-t) = 1}
     IN Cat([t \in 1..ws |-> IF t-1 \in on THEN << spiral[pad + (w*ws) + t] >> ELSE <<>>])])
Capacity(ncw, nd) == (ncw - nd) \div 2
=============================================================================
