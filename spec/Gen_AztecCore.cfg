SPECIFICATION Spec
INVARIANT Emitted
CHECK_DEADLOCK FALSE
