SPECIFICATION Spec
CONSTANTS
  Mode = "laws"
INVARIANT Law
CHECK_DEADLOCK FALSE
