SPECIFICATION Spec
CONSTANTS
  Pads = {0, 1, 2}
  Scales = {1, 2, 3}
INVARIANT Laws
CHECK_DEADLOCK FALSE
