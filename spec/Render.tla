------------------------------- MODULE Render -------------------------------
(* C14: how a module matrix becomes an image.                                                                  *)
(*                                                                                                             *)
(*   n    module count of the symbol on an axis            q   quiet modules reserved on that axis             *)
(*   out  = max(requested, n + q)                          s   = the largest integer with (n + q) * s <= out   *)
(*   pad  = floor((out - n * s) / 2)                       (2-D symbols: one s, the smaller of the two axes)   *)
(*   pixel(x, y) = module(floor((x - padx) / s), floor((y - pady) / s)) inside the symbol area, white elsewhere *)
(*                                                                                                             *)
(* Three writer classes:                                                                                       *)
(*   "qr"  quiet zone = margin modules on every side (q = 2 * margin on both axes)                             *)
(*   "1d"  margin modules shared between the left and the right side (q = margin); one module row drawn as     *)
(*         full-height bars; the image is max(1, requested height) pixels high                                 *)
(*   "dm"  no quiet zone; the requested size when the symbol fits in both directions, otherwise the bare symbol *)
(* Pixels and modules are 0 (white) / 1 (black); coordinates 0-based as in the API, sequences 1-based.          *)
EXTENDS Integers, Sequences, TLC

Max2(a, b) == IF a > b THEN a ELSE b
Min2(a, b) == IF a < b THEN a ELSE b
Out(req, n, q) == Max2(req, n + q)
Scale(out, n, q) == out \div (n + q)
Pad(out, n, s) == (out - (n * s)) \div 2

\* geometry of the rendering of an nw x nh symbol: image size (ow, oh), module size (sx, sy), offsets (px, py)
Geom(cls, nw, nh, rw, rh, margin) ==
  CASE cls = "qr" ->
         LET q == 2 * margin  ow == Out(rw, nw, q)  oh == Out(rh, nh, q)
             s == Min2(Scale(ow, nw, q), Scale(oh, nh, q))
         IN [ow |-> ow, oh |-> oh, sx |-> s, sy |-> s, px |-> Pad(ow, nw, s), py |-> Pad(oh, nh, s)]
    [] cls = "1d" ->
         LET ow == Out(rw, nw, margin)  oh == Max2(rh, 1)  s == Scale(ow, nw, margin)
         IN [ow |-> ow, oh |-> oh, sx |-> s, sy |-> oh, px |-> Pad(ow, nw, s), py |-> 0]
    [] cls = "dm" ->
         IF rw >= nw /\ rh >= nh
         THEN LET s == Min2(Scale(rw, nw, 0), Scale(rh, nh, 0))
              IN [ow |-> rw, oh |-> rh, sx |-> s, sy |-> s, px |-> Pad(rw, nw, s), py |-> Pad(rh, nh, s)]
         ELSE [ow |-> nw, oh |-> nh, sx |-> 1, sy |-> 1, px |-> 0, py |-> 0]

\* module index under pixel coordinate c on one axis: 0-based, -1 outside the symbol area
ModuleAt(c, pad, s, n) == IF c >= pad /\ c < pad + (n * s) THEN (c - pad) \div s ELSE -1
Pixel(mods, nw, nh, g, x, y) ==
  LET mx == ModuleAt(x, g.px, g.sx, nw)  my == ModuleAt(y, g.py, g.sy, nh)
  IN IF mx < 0 \/ my < 0 THEN 0 ELSE mods[my + 1][mx + 1]

\* run lengths of a 0/1 row, beginning with the (possibly empty) white run
RECURSIVE RunsFrom(_, _, _, _, _)
RunsFrom(row, i, col, len, acc) ==
  IF i > Len(row) THEN Append(acc, len)
  ELSE IF row[i] = col THEN RunsFrom(row, i + 1, col, len + 1, acc)
  ELSE RunsFrom(row, i + 1, 1 - col, 1, Append(acc, len))
RLE(row) == RunsFrom(row, 1, 0, 0, <<>>)

\* the image row (as run lengths) that shows module row k (1-based); k = 0: a row outside the symbol area.
\* cols[x] = module column under pixel column x-1 (ColumnMap), the same for every row of one image
ColumnMap(nw, g) == [x \in 1..g.ow |-> ModuleAt(x - 1, g.px, g.sx, nw)]
ImageRow(mods, cols, k) == RLE([x \in 1..Len(cols) |-> IF k = 0 \/ cols[x] < 0 THEN 0 ELSE mods[k][cols[x] + 1]])
RowKey(g, nh, y) == ModuleAt(y, g.py, g.sy, nh) + 1

\* quiet zone documented for a writer when no margin is configured: ISO 18004 asks for 4 modules around a QR symbol;
\* ZXing's 1-D writers reserve 10 modules in total, the UPC/EAN family 9
DefaultMargin(fmt) == IF fmt = "QR_CODE" THEN 4 ELSE IF fmt \in {"EAN_8", "EAN_13", "UPC_A", "UPC_E"} THEN 9 ELSE 10
ClassOf(fmt) == IF fmt = "QR_CODE" THEN "qr" ELSE IF fmt \in {"DATA_MATRIX", "DATA_MATRIX_RECT"} THEN "dm" ELSE "1d"
=============================================================================
