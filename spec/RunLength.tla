----------------------------- MODULE RunLength -----------------------------
(* C20: the two primitives every 1-D reader decides on.                                                      *)
(*  - recording runs: a row is a sequence of pixels (0 white, 1 black, positions 0-based as in the API); the  *)
(*    runs from a position are the maximal same-colour intervals, the last one possibly cut by the row end.   *)
(*    Forward recording of n runs from `start` returns their lengths, or NotFound when the row holds fewer    *)
(*    than n runs from there (or start is at/after the end).  Reverse recording returns the n complete runs   *)
(*    that precede the run containing `start` (left to right); a run is complete when it is delimited by a    *)
(*    colour change on both sides, so n+1 colour changes must exist to the left of `start`, else NotFound.    *)
(*  - pattern match score of observed runs c against a module pattern p (T = sum c, P = sum p), as an exact   *)
(*    fraction:  +Inf when T < P (fewer pixels than modules), +Inf when some |c_i - p_i*T/P| > v*T/P,          *)
(*    else (SUM |c_i - p_i*T/P|) / T  =  (SUM |c_i*P - p_i*T|) / (P*T).                                       *)
(* Three formulations of run recording are given: the declarative definition (RunsDef, quantifiers over       *)
(* intervals), a linear recursive one used for long rows (RecordFwd, RecordRev), and the pixel-step automaton of           *)
(* MC_RunLength; TLC checks on all small rows that they coincide.                                             *)
EXTENDS Integers, Sequences, TLC

Abs(x) == IF x < 0 THEN -x ELSE x
RECURSIVE SumFrom(_,_)
SumFrom(s, i) == IF i > Len(s) THEN 0 ELSE s[i] + SumFrom(s, i + 1)
Sum(s) == SumFrom(s, 1)
Scale(k, c) == [i \in 1..Len(c) |-> k * c[i]]

(* ------------------------------------------------------------------ rows *)
Px(row, i) == row[i + 1]
BitOf(v, i) == (v \div (2^i)) % 2
UnChunks(cs, n) == [i \in 1..n |-> BitOf(cs[((i-1) \div 16) + 1], (i-1) % 16)]     \* 16-bit little-endian chunks
ChunksOK(cs, n) == /\ n >= 0 /\ Len(cs) = (n + 15) \div 16
                   /\ \A j \in 1..Len(cs) : cs[j] >= 0 /\ cs[j] < 65536

NotFound == [err |-> 1, c |-> <<>>]
Found(c) == [err |-> 0, c |-> c]

(* ---- declarative definition *)
SameColour(row, a, b) == \A i \in a..b-1 : Px(row, i) = Px(row, a)          \* pixels a..b-1 have one colour
\* the run that starts at s ends (exclusively) at the first colour change or at the end of the row
RunEndDef(row, s) == CHOOSE e \in (s+1)..Len(row) :
                        SameColour(row, s, e) /\ (e = Len(row) \/ Px(row, e) # Px(row, s))
\* the run that contains position s starts at the pixel after the last colour change, or at 0
RunStartDef(row, s) == CHOOSE b \in 0..s :
                        SameColour(row, b, s + 1) /\ (b = 0 \/ Px(row, b - 1) # Px(row, s))
RECURSIVE RunsDef(_,_)
RunsDef(row, s) == IF s >= Len(row) THEN <<>> ELSE LET e == RunEndDef(row, s) IN <<e - s>> \o RunsDef(row, e)
Changes(row, a, b) == {i \in (a+1)..b : Px(row, i) # Px(row, i - 1)}       \* colour changes between a and b
RecordDef(row, start, n) ==
  IF start >= Len(row) THEN NotFound
  ELSE LET rs == RunsDef(row, start) IN IF Len(rs) >= n THEN Found(SubSeq(rs, 1, n)) ELSE NotFound
RecordRevDef(row, start, n) ==
  LET b0 == RunStartDef(row, start)                      \* the run containing start begins here
      all == RunsDef(row, 0)                             \* all runs of the row
      k == CHOOSE j \in 0..Len(all) : Sum(SubSeq(all, 1, j)) = b0     \* number of runs before it
  IN IF k >= n + 1 THEN Found(SubSeq(all, k - n + 1, k)) ELSE NotFound

(* ---- linear recursive formulation (used on rows of up to 300 pixels) *)
RECURSIVE RunEndF(_,_,_)
RunEndF(row, s, e) == IF e < Len(row) /\ Px(row, e) = Px(row, s) THEN RunEndF(row, s, e + 1) ELSE e
RECURSIVE RunStartF(_,_,_)
RunStartF(row, s, b) == IF b > 0 /\ Px(row, b - 1) = Px(row, s) THEN RunStartF(row, s, b - 1) ELSE b
RECURSIVE RunsF(_,_,_)                                    \* at most n runs from s
RunsF(row, s, n) == IF n = 0 \/ s >= Len(row) THEN <<>>
                    ELSE LET e == RunEndF(row, s, s + 1) IN <<e - s>> \o RunsF(row, e, n - 1)
RECURSIVE RunsBackF(_,_,_)                                \* at most n runs ending just before e, left to right
RunsBackF(row, e, n) == IF n = 0 \/ e <= 0 THEN <<>>
                        ELSE LET b == RunStartF(row, e - 1, e - 1) IN RunsBackF(row, b, n - 1) \o <<e - b>>
RecordFwd(row, start, n) ==
  IF start >= Len(row) THEN NotFound
  ELSE LET rs == RunsF(row, start, n) IN IF Len(rs) = n THEN Found(rs) ELSE NotFound
RecordRev(row, start, n) ==
  LET rs == RunsBackF(row, RunStartF(row, start, start), n + 1)
  IN IF Len(rs) = n + 1 THEN Found(SubSeq(rs, 2, n + 1)) ELSE NotFound

(* ------------------------------------------------------------------ pattern match score *)
(* v = vn/vd is the allowed individual variance in modules.  `amb` marks the knife edge where some deviation  *)
(* equals the allowance exactly: the property says "more than", binary floating point cannot represent most   *)
(* allowances (0.7, 0.45), so on the edge either outcome is accepted - except when the whole computation is    *)
(* exact in binary (T a multiple of P and a dyadic allowance): then "more than" is decidable and is demanded.  *)
ExactArith(T, P, vd) == (T % P) = 0 /\ vd \in {1, 2, 4}
Dev(c, p) == LET T == Sum(c) P == Sum(p) IN [i \in 1..Len(c) |-> Abs(c[i] * P - p[i] * T)]
Score(c, p, vn, vd) ==
  LET T == Sum(c)  P == Sum(p)  d == Dev(c, p) IN
  IF T < P THEN [inf |-> 1, amb |-> 0, under |-> 1, num |-> 0, den |-> P * T]
  ELSE IF \E i \in 1..Len(c) : d[i] * vd > vn * T THEN [inf |-> 1, amb |-> 0, under |-> 0, num |-> 0, den |-> P * T]
  ELSE [inf |-> 0, amb |-> IF ~ExactArith(T, P, vd) /\ \E i \in 1..Len(c) : d[i] * vd = vn * T THEN 1 ELSE 0, under |-> 0,
        num |-> Sum(d), den |-> P * T]
SameScore(a, b) == a.inf = b.inf /\ (a.inf = 0 => a.num * b.den = b.num * a.den)
Multiple(c, p) == LET T == Sum(c) P == Sum(p) IN \A i \in 1..Len(c) : c[i] * P = p[i] * T

(* ------------------------------------------------------------------ pattern families (input domains only) *)
(* C20 quantifies over "patterns from every symbology table".  The families below are supersets built from   *)
(* the structural definition of each symbology, plus a few pinned guard / finder patterns; their correctness  *)
(* as tables is the business of C03, here they only span the input space.                                     *)
RECURSIVE Compositions(_,_,_)                             \* sequences of k parts in lo..hi summing to total
Compositions(k, total, R) ==
  IF k = 0 THEN (IF total = 0 THEN {<<>>} ELSE {})
  ELSE UNION {{<<x>> \o t : t \in Compositions(k - 1, total - x, R)} : x \in {y \in R : y <= total}}
Rev(s) == [i \in 1..Len(s) |-> s[Len(s) + 1 - i]]
EanL == {<<3,2,1,1>>, <<2,2,2,1>>, <<2,1,2,2>>, <<1,4,1,1>>, <<1,1,3,2>>,
         <<1,2,3,1>>, <<1,1,1,4>>, <<1,3,1,2>>, <<1,2,1,3>>, <<3,1,1,2>>}            \* ISO 15420 set A
EanLG == EanL \cup {Rev(p) : p \in EanL}                                              \* set B = reversed
Ean4 == Compositions(4, 7, 1..4)                                                      \* every (7,2) character shape
RssFinders == {<<3,8,2,1>>, <<3,5,5,1>>, <<3,3,7,1>>, <<3,1,9,1>>, <<2,7,4,1>>, <<2,5,6,1>>, <<2,3,8,1>>,
               <<1,5,7,1>>, <<1,3,9,1>>, <<1,8,4,1>>, <<3,6,4,1>>, <<3,4,6,1>>, <<3,2,8,1>>, <<2,6,5,1>>, <<2,2,9,1>>}
Guards == {<<1,1,1>>, <<1,1,1,1>>, <<1,1,1,1,1>>, <<1,1,1,1,1,1>>, <<1,1,2>>, <<1,1,3>>, <<2,3,3,1,1,1,2>>}
NarrowWide(k, nw, wide) == {p \in [1..k -> {1, wide}] : Sum(p) = k + nw * (wide - 1)}  \* k elements, nw of them wide
Itf5 == NarrowWide(5, 2, 2) \cup NarrowWide(5, 2, 3)
Code128Shapes == Compositions(6, 11, 1..4)                                            \* 6 widths 1..4, 11 modules
Code93Shapes == Compositions(6, 9, 1..4)
Code39Shapes == NarrowWide(9, 3, 2) \cup NarrowWide(9, 3, 3)
=============================================================================
