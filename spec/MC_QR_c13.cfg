SPECIFICATION Spec
CONSTANTS
  MaxRTVersion = 0
  FullTables = FALSE
INVARIANT Inv
CHECK_DEADLOCK FALSE
