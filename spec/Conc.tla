-------------------------------- MODULE Conc --------------------------------
(* C18: independent readers and writers run concurrently.  Design model of the library's shared state:         *)
(*  - package-level locations (GF tables, version / symbol tables, ECI maps, the grid sampler) are written only *)
(*    while the program initialises and only read afterwards;                                                    *)
(*  - caches and scratch buffers (the Reed-Solomon encoder's generator cache, the row decoders' buffers) belong  *)
(*    to an object that one call creates (encoder) or one goroutine owns (reader instance).                      *)
(* A goroutine executes operations; every operation is a sequence of atomic steps at the grain of the code's     *)
(* own reads and writes (buildGenerator: read the cache length, append generator by generator, read the entry).  *)
(* Share models the mutations the property warns about: an encoder or a reader hoisted into shared state, or     *)
(* package tables built lazily by the first caller.                                                              *)
EXTENDS Integers, Sequences, FiniteSets, TLC
CONSTANTS G,          \* goroutines
          Share,      \* subset of {"encoder", "reader", "lazyinit"}: deliberate design mutations (non-vacuity checks)
          Degrees     \* parity lengths used by the operations
VARIABLES phase, pc, todo, obj, cache, size, cur, last, res, acc, nextObj
vars == <<phase, pc, todo, obj, cache, size, cur, last, res, acc, nextObj>>
\* a generator polynomial is abstracted as its set of root exponents; the right one for degree d is 0..d-1
Gen(d) == 0..(d-1)
Ops == {[k |-> "encode", d |-> d] : d \in Degrees} \cup {[k |-> "read", d |-> 0]}
Progs == {<<a>> : a \in Ops} \cup {<<a, b>> : a \in Ops, b \in Ops}
SharedEnc == 1
SharedRd == 2
Init == /\ phase = "init" /\ pc = [g \in G |-> "idle"] /\ todo \in [G -> Progs]
        /\ obj = [g \in G |-> 0] /\ cache = (SharedEnc :> <<{}>>) /\ size = [g \in G |-> 0]
        /\ cur = [g \in G |-> 0] /\ last = [g \in G |-> {}] /\ res = [g \in G |-> <<>>] /\ acc = {} /\ nextObj = 10
StartRun == phase = "init" /\ phase' = "run" /\ UNCHANGED <<pc, todo, obj, cache, size, cur, last, res, acc, nextObj>>
Begin(g) == /\ phase = "run" /\ pc[g] = "idle" /\ todo[g] # <<>>
            /\ LET op == Head(todo[g]) IN
               IF op.k = "encode"
               THEN LET o == IF "encoder" \in Share THEN SharedEnc ELSE nextObj IN
                    /\ obj' = [obj EXCEPT ![g] = o] /\ nextObj' = nextObj + 1
                    /\ cache' = IF o \in DOMAIN cache THEN cache ELSE cache @@ (o :> <<{}>>)      \* a new encoder holds the degree-0 generator
                    /\ pc' = [pc EXCEPT ![g] = "len"] /\ cur' = [cur EXCEPT ![g] = op.d]
                    /\ acc' = acc \cup {<<g, "pkg.gf", 0, "lazyinit" \in Share>>}                  \* GF tables: read (or built on first use)
                    /\ UNCHANGED <<phase, todo, size, last, res>>
               ELSE /\ obj' = [obj EXCEPT ![g] = IF "reader" \in Share THEN SharedRd ELSE nextObj] /\ nextObj' = nextObj + 1
                    /\ pc' = [pc EXCEPT ![g] = "scratch"]
                    /\ acc' = acc \cup {<<g, "pkg.gridSampler", 0, FALSE>>}
                    /\ UNCHANGED <<phase, todo, cache, size, cur, last, res>>
\* buildGenerator: size := len(cache); last := cache[size-1]
ReadLen(g) == /\ pc[g] = "len" /\ size' = [size EXCEPT ![g] = Len(cache[obj[g]])]
              /\ last' = [last EXCEPT ![g] = cache[obj[g]][Len(cache[obj[g]])]]
              /\ pc' = [pc EXCEPT ![g] = "grow"] /\ acc' = acc \cup {<<g, "rsenc.cache", obj[g], FALSE>>}
              /\ UNCHANGED <<phase, todo, obj, cache, cur, res, nextObj>>
\* for d := size; d <= degree; d++ { last = last * (x - a^(d-1)); cache = append(cache, last) } ; return cache[degree]
Grow(g) == /\ pc[g] = "grow"
           /\ IF size[g] <= cur[g]
              THEN LET nxt == last[g] \cup {size[g] - 1} IN
                   /\ cache' = [cache EXCEPT ![obj[g]] = Append(@, nxt)] /\ last' = [last EXCEPT ![g] = nxt]
                   /\ size' = [size EXCEPT ![g] = @ + 1] /\ acc' = acc \cup {<<g, "rsenc.cache", obj[g], TRUE>>}
                   /\ UNCHANGED <<pc, res, todo>>
              ELSE /\ pc' = [pc EXCEPT ![g] = "idle"] /\ todo' = [todo EXCEPT ![g] = Tail(@)]
                   /\ res' = [res EXCEPT ![g] = Append(@, <<cur[g], cache[obj[g]][cur[g] + 1]>>)]
                   /\ acc' = acc \cup {<<g, "rsenc.cache", obj[g], FALSE>>} /\ UNCHANGED <<cache, last, size>>
           /\ UNCHANGED <<phase, obj, cur, nextObj>>
Scratch(g) == /\ pc[g] = "scratch" /\ acc' = acc \cup {<<g, "oned.scratch", obj[g], TRUE>>}
              /\ pc' = [pc EXCEPT ![g] = "idle"] /\ todo' = [todo EXCEPT ![g] = Tail(@)] /\ res' = [res EXCEPT ![g] = Append(@, <<0, {}>>)]
              /\ UNCHANGED <<phase, obj, cache, size, cur, last, nextObj>>
Next == StartRun \/ \E g \in G : Begin(g) \/ ReadLen(g) \/ Grow(g) \/ Scratch(g)
Spec == Init /\ [][Next]_vars

\* no two goroutines touch the same location of the same object with at least one write (nothing orders them in the run phase)
NoRace == \A a, b \in acc : (a[1] # b[1] /\ a[2] = b[2] /\ a[3] = b[3]) => (~a[4] /\ ~b[4])
\* package-level state is only read once goroutines run
NoRunPhaseWrite == \A a \in acc : (a[2] \in {"pkg.gf", "pkg.gridSampler"}) => ~a[4]
\* every call returns what it returns alone: encode(d) yields the generator with roots 0..d-1
Deterministic == \A g \in G : \A i \in 1..Len(res[g]) : res[g][i][2] = Gen(res[g][i][1])
=============================================================================
