----------------------------- MODULE Gen_DMPos -----------------------------
(* Fault-script support for C05 (Data Matrix): for the requested sizes TLC prints the Annex F placement map     *)
(* (mapping matrix, entries 10*codeword + bit), the Table 7 entry and, per interleaved block, the indices of    *)
(* its codewords (data then parity) in the symbol's codeword sequence, with the correction capacity.            *)
EXTENDS DMPlacement, Json
CONSTANT Is
VARIABLE x
BlockIdx(t) == [b \in 1..NBlk(t) |-> [i \in 1..(BlockDataLen(t, b) + EccPerBlock(t)) |-> BlockCwIdx(t, b, i)]]
Map(i) == LET t == T7[i] IN [i |-> i, t |-> t, map |-> Place(MapRows(t), MapCols(t)), blocks |-> BlockIdx(t), cap |-> EccPerBlock(t) \div 2]
Init == x \in Is
Next == x' = x /\ FALSE
Spec == Init /\ [][Next]_x
Emitted == PrintT(<<"GEN", ToJson(Map(x))>>)
=============================================================================
