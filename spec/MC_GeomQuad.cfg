INIT InitQuad
NEXT NextQuad
CONSTANTS
  W = 3
  H = 2
  MaxPts = 2
  MaxLine = 4
  Q = 3
  Record = FALSE
INVARIANT QuadLaw
CHECK_DEADLOCK FALSE
