SPECIFICATION Spec
CONSTANTS
  Inits <- GenInitsQ
  MaxDepth = 2
  Record = TRUE
CHECK_DEADLOCK FALSE
