-------------------------------- MODULE Pose --------------------------------
(* C09 - located symbols are never misread; orientation and mirroring are handled.                              *)
(*                                                                                                            *)
(* A pose is [pad, scale, rot, mir]: the written image is mirrored (transposed) when mir = 1, every pixel       *)
(* becomes a scale x scale block, pad white pixels are added on every side and the result is turned clockwise   *)
(* by rot degrees.  PoseImg is that transformation as a composition, PosePixel the same as a closed pixel map   *)
(* (MC_Pose proves them equal and proves the facts about rows used below).                                      *)
(*                                                                                                            *)
(* The property, per symbology class:                                                                          *)
(*   safety    every pose: the reader answers the content or a NotFound / Checksum / Format error - never        *)
(*             another text;                                                                                   *)
(*   upside    1-D, rot = 180: the content with ORIENTATION 180;                                               *)
(*   sideways  1-D, rot in {90, 270}, TRY_HARDER: the content (orientation by the retry arithmetic);            *)
(*   mirror    QR: the transposed matrix decodes to the content with the mirrored flag, the plain one without.  *)
(* For 1-D symbols "the content" is what the reference reader of OneD.tla reads from the written module row,    *)
(* applied the way the library applies a row decoder (Retry.tla: forward, then reversed, quarter-turn retry):   *)
(* a reading the reference reader produces too is never counted against the code.                              *)
EXTENDS OneDRT, Retry, Chunk

Poses(Pads, Scales, Rots, Mirs) == {[pad |-> p, scale |-> s, rot |-> r, mir |-> m] : p \in Pads, s \in Scales, r \in Rots, m \in Mirs}
PoseOK(p) == p.pad \in 0..1000 /\ p.scale \in 1..64 /\ p.rot \in {0, 90, 180, 270} /\ p.mir \in {0, 1}

(* ------------------------------------------------------------------ images: non-empty sequences of rows of 0/1, 1 = black *)
IW(m) == Len(m[1])
IH(m) == Len(m)
IsImage(m) == Len(m) >= 1 /\ Len(m[1]) >= 1 /\ \A y \in 1..Len(m) : Len(m[y]) = Len(m[1]) /\ \A x \in 1..Len(m[1]) : m[y][x] \in {0, 1}
Transpose(m) == [y \in 1..IW(m) |-> [x \in 1..IH(m) |-> m[x][y]]]
Upscale(m, s) == [y \in 1..IH(m) * s |-> [x \in 1..IW(m) * s |-> m[((y - 1) \div s) + 1][((x - 1) \div s) + 1]]]
PadImg(m, p) == [y \in 1..IH(m) + 2 * p |-> [x \in 1..IW(m) + 2 * p |->
                   IF y > p /\ y <= p + IH(m) /\ x > p /\ x <= p + IW(m) THEN m[y - p][x - p] ELSE 0]]
\* quarter turn clockwise: the top left corner becomes the top right one; the result has H columns and W rows
TurnCW(m) == LET W == IW(m) H == IH(m) IN [y \in 1..W |-> [x \in 1..H |-> m[H + 1 - x][y]]]
\* quarter turn counter-clockwise as LuminanceSource.RotateCounterClockwise documents it (Lum.tla RotCCW): new(x, y) = old(W-1-y, x)
TurnCCW(m) == LET W == IW(m) H == IH(m) IN [y \in 1..W |-> [x \in 1..H |-> m[x][W + 1 - y]]]
Turn(m, rot) == CASE rot = 0 -> m [] rot = 90 -> TurnCW(m) [] rot = 180 -> TurnCW(TurnCW(m)) [] OTHER -> TurnCW(TurnCW(TurnCW(m)))
PoseImg(m, p) == Turn(PadImg(Upscale(IF p.mir = 1 THEN Transpose(m) ELSE m, p.scale), p.pad), p.rot)

\* the same as an exact pixel map: pixel (x, y), 0-based, of the posed image
BaseW(m, p) == IF p.mir = 1 THEN IH(m) ELSE IW(m)
BaseH(m, p) == IF p.mir = 1 THEN IW(m) ELSE IH(m)
FlatW(m, p) == BaseW(m, p) * p.scale + 2 * p.pad          \* before turning
FlatH(m, p) == BaseH(m, p) * p.scale + 2 * p.pad
PoseW(m, p) == IF p.rot \in {0, 180} THEN FlatW(m, p) ELSE FlatH(m, p)
PoseH(m, p) == IF p.rot \in {0, 180} THEN FlatH(m, p) ELSE FlatW(m, p)
PosePixel(m, p, x, y) ==
  LET W == FlatW(m, p) H == FlatH(m, p)
      u == CASE p.rot = 0 -> <<x, y>> [] p.rot = 90 -> <<y, H - 1 - x>> [] p.rot = 180 -> <<W - 1 - x, H - 1 - y>> [] OTHER -> <<W - 1 - y, x>>
      xs == u[1] - p.pad   ys == u[2] - p.pad
  IN IF xs < 0 \/ ys < 0 \/ xs >= BaseW(m, p) * p.scale \/ ys >= BaseH(m, p) * p.scale THEN 0
     ELSE LET bx == xs \div p.scale  by == ys \div p.scale IN IF p.mir = 1 THEN m[bx + 1][by + 1] ELSE m[by + 1][bx + 1]
PoseMap(m, p) == [y \in 1..PoseH(m, p) |-> [x \in 1..PoseW(m, p) |-> PosePixel(m, p, x - 1, y - 1)]]

(* ------------------------------------------------------------------ what the row scan sees of a posed 1-D image *)
\* The written image is w0 x h0, every row the same module row; F = the reference reading of that row left to right,
\* B = of the reversed row.  Turned a half, rows read backwards; turned a quarter, every row runs along a bar and is
\* constant (nothing to find); the library's counter-clockwise quarter turn takes rot = 90 back to upright and rot = 270
\* to upside down (MC_Pose: RowFacts).
Seen(w0, h0, p, F, B, turned) ==
  LET sym(f, b) == Bitmap(h0 * p.scale + 2 * p.pad, p.pad, p.pad + h0 * p.scale, f, b)
      flat == Bitmap(w0 * p.scale + 2 * p.pad, 0, 0, RNotFound, RNotFound)
  IN CASE p.rot = 0   -> IF turned THEN flat ELSE sym(F, B)
       [] p.rot = 180 -> IF turned THEN flat ELSE sym(B, F)
       [] p.rot = 90  -> IF turned THEN sym(F, B) ELSE flat
       [] OTHER       -> IF turned THEN sym(B, F) ELSE flat
Expected1D(w0, h0, p, th, F, B) == OneDDecode(Seen(w0, h0, p, F, B, FALSE), Seen(w0, h0, p, F, B, TRUE), th)
\* answers <<text, orientation>> that some reference reading explains (whichever direction the real row decoder
\* happens to accept; trying harder or not)
Allowed1D(w0, h0, p, F, B) ==
  LET xs == {Expected1D(w0, h0, p, TRUE, fb[1], fb[2]) : fb \in {<<F, B>>, <<F, RNotFound>>, <<RNotFound, B>>}}
  IN {<<x.out.t, x.orient>> : x \in {x \in xs : x.out.k = "ok"}}
ToR(x) == IF x.ok THEN ROk(x.text) ELSE RNotFound

(* ------------------------------------------------------------------ clauses *)
Is1D(sym) == sym \in {"EAN13", "EAN8", "UPCA", "UPCE", "C128", "C93", "C39", "ITF", "CBAR"}
Syms == {"QR", "DM", "EAN13", "EAN8", "UPCA", "UPCE", "C128", "C93", "C39", "ITF", "CBAR"}
MustRead(sym, p, th) == Is1D(sym) /\ (p.rot = 180 \/ (p.rot \in {90, 270} /\ th = 1))
Clause(sym, p, th) == IF Is1D(sym) THEN (IF p.rot = 180 THEN "upside" ELSE IF p.rot \in {90, 270} /\ th = 1 THEN "sideways" ELSE "safety")
                      ELSE IF sym = "QR" /\ p.mir = 1 THEN "mirror" ELSE "safety"
\* what the QR decoder automaton can deliver for a located symbol whose content is c: the grid may be mis-sampled (any
\* error), but a text can only be the content, flagged exactly when the symbol is mirrored
AllowedQR(c, mir) ==
  LET plain == IF mir = 0 THEN {ROk(c), RErr("format"), RErr("checksum")} ELSE {RErr("format"), RErr("checksum")}
      trans == IF mir = 1 THEN {ROk(c), RErr("format"), RErr("checksum")} ELSE {RErr("format"), RErr("checksum")}
  IN {QRDecode(q, mv, mf, m) : q \in plain, m \in trans, mv \in {"ok", "format"}, mf \in {"ok", "format"}}
=============================================================================
