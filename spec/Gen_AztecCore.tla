--------------------------- MODULE Gen_AztecCore ---------------------------
(* C11: the mode message of every (size, number of data codewords).                                              *)
(* For each requested size TLC prints the function-pattern template of the symbol (bull's eye, orientation marks, *)
(* reference grid; the mode ring empty), the mask of function modules, and for each requested number of data      *)
(* codewords nd the cells of the mode ring that are dark: ModeBits(c, layers, nd) - the 2+6 / 5+11 bit header      *)
(* followed by its 5 / 6 Reed-Solomon check words over GF(16) - laid clockwise round the ring by ModeCell.        *)
(* The driver paints template + mode cells (+ arbitrary data modules), renders it and asks the real detector      *)
(* which (compact, layers, nd) it reads; Trace_Aztec ("tmpl" / "det" events) re-derives the premise and judges.    *)
EXTENDS Aztec, Json
Cores == ndJsonDeserialize("cores.ndjson")            \* records [c, layers, nds]
VARIABLE x
Template(c, layers) == LET sz == Size(c, layers) IN
  [y \in 1..sz |-> Chunks([xx \in 1..sz |-> IF FunctionDark(c, layers, {}, xx-1, y-1) THEN 1 ELSE 0])]
FuncMask(c, layers) == LET sz == Size(c, layers) IN
  [y \in 1..sz |-> Chunks([xx \in 1..sz |-> IF IsFunction(c, layers, xx-1, y-1) THEN 1 ELSE 0])]
DarkModeCells(c, layers, nd) == LET mb == ModeBits(c, layers, nd) IN
  Cat([q \in 1..4*ModeLen(c) |-> IF mb[q] = 1 THEN << ModeCell(c, layers, q-1) >> ELSE <<>>])
Core(k) == LET r == Cores[k] IN
  [c |-> r.c, layers |-> r.layers, size |-> Size(r.c, r.layers), ncw |-> NumCodewords(r.c, r.layers),
   rows |-> Template(r.c, r.layers), mask |-> FuncMask(r.c, r.layers),
   nds |-> r.nds, modes |-> [i \in 1..Len(r.nds) |-> DarkModeCells(r.c, r.layers, r.nds[i])]]
Init == x \in 1..Len(Cores)
Next == x' = x /\ FALSE
Spec == Init /\ [][Next]_x
Emitted == PrintT(<<"GEN", ToJson(Core(x))>>)
=============================================================================
