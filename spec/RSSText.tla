------------------------------ MODULE RSSText ------------------------------
(* The text the RSS-14 reader returns for an answering pair of (left, right) values: 4537077 * left + right as 13     *)
(* decimal digits followed by the GTIN check digit.  TLC's integers are 32 bit: the product is formed in base 10^4.    *)
EXTENDS Integers, Sequences
\* V = 4537077 * lv + rv in base 10^4 limbs (TLC's integers are 32 bit); lv, rv < 4537077
Limbs(lv, rv) ==
  LET a == lv \div 10000  b == lv % 10000  c == 453  d == 7077
      r1 == rv \div 10000  r0 == rv % 10000
      t0 == b * d + r0
      t1 == a * d + b * c + r1 + (t0 \div 10000)
      t2 == a * c + (t1 \div 10000)
  IN <<t2 \div 10000, t2 % 10000, t1 % 10000, t0 % 10000>>          \* most significant first
Dig4(x) == <<x \div 1000, (x \div 100) % 10, (x \div 10) % 10, x % 10>>
\* decimal digits, at least 13 of them (leading zeros kept up to 13 places, further leading zeros dropped)
RECURSIVE DropZeros(_, _)
DropZeros(s, keep) == IF Len(s) > keep /\ s[1] = 0 THEN DropZeros(Tail(s), keep) ELSE s
ValueDigits(lv, rv) == LET m == Limbs(lv, rv) IN DropZeros(Dig4(m[1]) \o Dig4(m[2]) \o Dig4(m[3]) \o Dig4(m[4]), 13)
RECURSIVE SumW(_, _)
SumW(ds, i) == IF i > 13 THEN 0 ELSE ds[i] * (IF i % 2 = 1 THEN 3 ELSE 1) + SumW(ds, i + 1)
\* the reader's text: the digits followed by the check digit over the first 13 of them
AnswerText(l, r) == LET ds == ValueDigits(l.v, r.v) IN Append(ds, (10 - (SumW(ds, 1) % 10)) % 10)
=====================================================================================================================================================
