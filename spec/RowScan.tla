------------------------------- MODULE RowScan -------------------------------
(* X07: the row schedule of every 1-D reader (oned.OneDReader.doDecode): which rows of an image are handed to DecodeRow, and  *)
(* in which order.  Start in the middle, then alternately above (larger row number) and below, rowStep apart; normally at most *)
(* 15 rows 1/32 of the height apart, with TRY_HARDER up to `height` rows 1/256 of the height apart; the schedule stops at the *)
(* first row number outside the image.  The answer of Decode comes from the FIRST scheduled row that decodes.               *)
EXTENDS Integers, Sequences
Max(a, b) == IF a > b THEN a ELSE b
RowStep(h, th) == Max(1, IF th THEN h \div 256 ELSE h \div 32)
MaxLines(h, th) == IF th THEN h ELSE 15
RowAt(h, th, x) == LET k == (x + 1) \div 2 IN IF x % 2 = 0 THEN (h \div 2) + (RowStep(h, th) * k) ELSE (h \div 2) - (RowStep(h, th) * k)
InImage(h, r) == r >= 0 /\ r < h
\* number of rows scheduled: up to the first x whose row lies outside
RECURSIVE Count(_, _, _)
Count(h, th, x) == IF x < MaxLines(h, th) /\ InImage(h, RowAt(h, th, x)) THEN Count(h, th, x + 1) ELSE x
Schedule(h, th) == [i \in 1..Count(h, th, 0) |-> RowAt(h, th, i - 1)]
\* the row that answers when exactly the rows in Y carry a readable symbol: the first scheduled row in Y, -1 when none
FirstIn(s, Y) == IF \E i \in 1..Len(s) : s[i] \in Y
                 THEN s[CHOOSE i \in 1..Len(s) : s[i] \in Y /\ \A j \in 1..(i - 1) : s[j] \notin Y] ELSE -1
=============================================================================
