SPECIFICATION Spec
CONSTANTS
  Alphabet = {49, 65, 97, 32, 42, 13, 94, 33, 1, 233, 126}
  MaxLen = 4
  Shape = 0
  Mn <- NoHint
  Mx <- NoHint
  EmitAll = FALSE
  FixedMode = FALSE
CHECK_DEADLOCK FALSE
