SPECIFICATION Spec
CONSTANTS
  Inits <- MCInits
  MaxDepth = 4
  Record = FALSE
INVARIANT Laws
CHECK_DEADLOCK FALSE
