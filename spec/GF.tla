--------------------------------- MODULE GF ---------------------------------
(* C04 - the six binary extension fields GF(2^m) used by QR Code (ISO/IEC 18004), Data Matrix (ISO/IEC 16022)  *)
(* and Aztec (ISO/IEC 24778).  An element is the integer whose bit i is the coefficient of x^i.                *)
(*                                                                                                            *)
(*  MulRef  - the DEFINITION: carry-less (polynomial over GF(2)) product, reduced modulo the primitive         *)
(*            polynomial.  Shift and xor only; no tables.                                                      *)
(*  FT      - eager tables of alpha^i (alpha = x = 2) and of the discrete logarithm, built once.  MC_GF makes  *)
(*            TLC prove that the table product equals MulRef for all pairs, that alpha is primitive and that   *)
(*            the logarithm inverts the exponential; only then are the tables used (RS.tla) as a fast Mul.     *)
EXTENDS Integers, Sequences, TLC, Bitwise

(* id, primitive polynomial, order q = 2^m, m, exponent of the first root of the RS generator polynomial      *)
(* 1 QR Code            x^8+x^4+x^3+x^2+1      roots alpha^0 .. alpha^(r-1)                                    *)
(* 2 Data Matrix/Aztec8 x^8+x^5+x^3+x^2+1      roots alpha^1 .. alpha^r                                        *)
(* 3 Aztec mode message x^4+x+1                 "                                                              *)
(* 4 Aztec 6-bit        x^6+x+1                 "                                                              *)
(* 5 Aztec 10-bit       x^10+x^3+1              "                                                              *)
(* 6 Aztec 12-bit       x^12+x^6+x^5+x^3+1      "                                                              *)
P2(k) == 2^k
Poly(es) == LET RECURSIVE S(_) S(i) == IF i > Len(es) THEN 0 ELSE P2(es[i]) + S(i + 1) IN S(1)
FieldDefs0 == <<
  [p |-> Poly(<<8, 4, 3, 2, 0>>),     m |-> 8,  q |-> 256,  base |-> 0],
  [p |-> Poly(<<8, 5, 3, 2, 0>>),     m |-> 8,  q |-> 256,  base |-> 1],
  [p |-> Poly(<<4, 1, 0>>),           m |-> 4,  q |-> 16,   base |-> 1],
  [p |-> Poly(<<6, 1, 0>>),           m |-> 6,  q |-> 64,   base |-> 1],
  [p |-> Poly(<<10, 3, 0>>),          m |-> 10, q |-> 1024, base |-> 1],
  [p |-> Poly(<<12, 6, 5, 3, 0>>),    m |-> 12, q |-> 4096, base |-> 1] >>
NFields == 6
(* ptop = p * x^(m-2) and ttop = x^(2m-2): the first step of the reduction of a product of degree <= 2m-2 *)
FieldDefs == TLCEval([f \in 1..NFields |-> LET F == FieldDefs0[f] IN
                [p |-> F.p, m |-> F.m, q |-> F.q, base |-> F.base, ptop |-> F.p * P2(F.m - 2), ttop |-> P2(2 * F.m - 2)]])
Q(f) == FieldDefs[f].q
Base(f) == FieldDefs[f].base

(* ---------------------------------------------------------------- definition: polynomial arithmetic mod p *)
RECURSIVE ClMul(_, _)      \* product of a and b as polynomials over GF(2) (no reduction; degree <= 2m-2 < 31)
ClMul(a, b) == IF b = 0 THEN 0 ELSE (IF (b % 2) = 1 THEN a ELSE 0) ^^ ClMul(2 * a, b \div 2)
RECURSIVE PolyMod(_, _, _, _)   \* cancel the bits above x^(m-1) from the top: while bit T is the highest possibly set
PolyMod(x, ps, T, q) ==         \* bit of x (x < 2T) and ps = p shifted so that its leading bit is T
  IF T < q THEN x ELSE PolyMod(IF x >= T THEN x ^^ ps ELSE x, ps \div 2, T \div 2, q)
MulRef(f, a, b) == LET F == FieldDefs[f] IN PolyMod(ClMul(a, b), F.ptop, F.ttop, F.q)

(* ---------------------------------------------------------------- tables                                   *)
TimesAlpha(F, x) == LET s == 2 * x IN IF s >= F.q THEN s ^^ F.p ELSE s
(* <<alpha^0, .., alpha^(q-1)>> by repeated doubling of the sequence: E_2n = E_n \o (alpha^n * E_n), m times.        *)
(* (q entries; the last one must come back to 1.)  No deep recursion: TLC slows down badly on deep stacks.          *)
RECURSIVE ExpDouble(_, _)
ExpDouble(f, E) == IF Len(E) = Q(f) THEN E
                   ELSE LET an == TimesAlpha(FieldDefs[f], E[Len(E)])                  \* alpha^n
                        IN ExpDouble(f, TLCEval(E \o [i \in 1..Len(E) |-> MulRef(f, E[i], an)]))
(* invert once: the function alpha^(i-1) |-> i-1, assembled by halving the index range *)
RECURSIVE LogRange(_, _, _)
LogRange(E, lo, hi) == IF lo = hi THEN E[lo] :> (lo - 1)
                       ELSE LET mid == (lo + hi) \div 2 IN LogRange(E, lo, mid) @@ LogRange(E, mid + 1, hi)
MkField(f) == LET E == ExpDouble(f, <<1>>)
                  L == LogRange(E, 1, Q(f) - 1)
              IN [exp |-> E, log |-> TLCEval([x \in 1..(Q(f) - 1) |-> L[x]])]
CONSTANT Fields                  \* the field ids whose tables this run needs (others are not built)
FT == TLCEval([f \in 1..NFields |-> IF f \in Fields THEN MkField(f) ELSE [exp |-> <<>>, log |-> <<>>]])

IsElem(f, a) == a \in 0..(Q(f) - 1)
Exp(f, i) == FT[f].exp[(i % (Q(f) - 1)) + 1]                     \* alpha^i, i >= 0
Log(f, a) == FT[f].log[a]                                        \* a # 0
Mul(f, a, b) == IF a = 0 \/ b = 0 THEN 0 ELSE FT[f].exp[((FT[f].log[a] + FT[f].log[b]) % (Q(f) - 1)) + 1]
Inv(f, a) == FT[f].exp[((Q(f) - 1 - FT[f].log[a]) % (Q(f) - 1)) + 1]     \* a # 0

(* what MC_GF proves about the tables of field f *)
TablesSound(f) ==
  LET q == Q(f) E == FT[f].exp L == FT[f].log IN
  /\ Len(E) = q /\ Len(L) = q - 1
  /\ E[1] = 1 /\ E[q] = 1                                        \* alpha^(q-1) = 1
  /\ \A i \in 1..(q - 1) : E[i] \in 1..(q - 1) /\ E[i + 1] = MulRef(f, E[i], 2)      \* E[i+1] = alpha^i by the definition
  /\ \A x \in 1..(q - 1) : L[x] \in 0..(q - 2) /\ E[L[x] + 1] = x                     \* onto: alpha is primitive
  /\ \A i \in 0..(q - 2) : L[E[i + 1]] = i                                           \* one-to-one
RowSound(f, a) ==            \* row a of the multiplication table, inverse, exp/log
  /\ \A b \in 0..(Q(f) - 1) : Mul(f, a, b) = MulRef(f, a, b)
  /\ a # 0 => /\ MulRef(f, a, Inv(f, a)) = 1 /\ Mul(f, a, Inv(f, a)) = 1
              /\ Exp(f, Log(f, a)) = a
=============================================================================
