--------------------------------- MODULE RS ---------------------------------
(* C04 - Reed-Solomon codes over the fields of GF.tla, written from the definition.                            *)
(* A word w of length n is the polynomial w[1] x^(n-1) + ... + w[n]  (first symbol = highest degree), as in    *)
(* ISO/IEC 18004 / 16022 / 24778.  The code with r check symbols over field f is the set of words whose        *)
(* polynomial vanishes at alpha^base, alpha^(base+1), .., alpha^(base+r-1)  ("zero syndromes").                *)
(* Encoding is systematic: data followed by the remainder of data(x) x^r divided by the generator              *)
(* g(x) = prod_{i<r} (x - alpha^(base+i)).  Decoding is specified declaratively: the unique codeword within    *)
(* Hamming distance floor(r/2) of the received word.                                                           *)
EXTENDS GF, FiniteSets

(* w(alpha^e) = XOR_i w[i] * alpha^(e * (n - i)) - the definition of evaluating the polynomial of w, summed by       *)
(* halving the index range (TLC slows down badly on deep recursion, so no Horner chain over long words).            *)
Term(f, w, e, i) == Mul(f, w[i], Exp(f, e * (Len(w) - i)))
RECURSIVE XorRange(_, _, _, _, _)
XorRange(f, w, e, lo, hi) == IF lo = hi THEN Term(f, w, e, lo)
                             ELSE LET mid == (lo + hi) \div 2 IN XorRange(f, w, e, lo, mid) ^^ XorRange(f, w, e, mid + 1, hi)
EvalAtPow(f, w, e) == XorRange(f, w, e, 1, Len(w))
Eval(f, w, x) == IF x = 0 THEN w[Len(w)] ELSE EvalAtPow(f, w, Log(f, x))          \* w(x)
Root(f, j) == Exp(f, Base(f) + j)                                   \* j-th root of the generator, j = 0..r-1
Syndromes(f, w, r) == [j \in 1..r |-> EvalAtPow(f, w, Base(f) + j - 1)]
IsCodeword(f, w, r) == \A j \in 0..(r - 1) : EvalAtPow(f, w, Base(f) + j) = 0
IsWord(f, w) == \A i \in 1..Len(w) : IsElem(f, w[i])

(* g * (x - c)  (characteristic 2: minus is plus) *)
TimesLinear(f, g, c) == LET n == Len(g) IN
  TLCEval([i \in 1..(n + 1) |-> (IF i <= n THEN g[i] ELSE 0) ^^ (IF i >= 2 THEN Mul(f, g[i - 1], c) ELSE 0)])
RECURSIVE GenFrom(_, _, _, _)
GenFrom(f, r, j, g) == IF j = r THEN g ELSE GenFrom(f, r, j + 1, TimesLinear(f, g, Root(f, j)))
Generator(f, r) == GenFrom(f, r, 0, <<1>>)                           \* monic, degree r, r+1 coefficients

(* remainder of data(x) x^r modulo the monic g: long division, one data symbol per step *)
RECURSIVE Rem(_, _, _, _, _)
Rem(f, data, i, reg, g) ==
  IF i > Len(data) THEN reg
  ELSE LET fb == data[i] ^^ reg[1]
           n == Len(reg)
       IN Rem(f, data, i + 1, TLCEval([k \in 1..n |-> (IF k < n THEN reg[k + 1] ELSE 0) ^^ Mul(f, fb, g[k + 1])]), g)
Parity(f, data, r) == Rem(f, data, 1, [k \in 1..r |-> 0], Generator(f, r))
Encode(f, data, r) == data \o Parity(f, data, r)

DiffPos(u, v) == {i \in 1..Len(u) : u[i] # v[i]}
Dist(u, v) == Cardinality(DiffPos(u, v))
Weight(u) == Cardinality({i \in 1..Len(u) : u[i] # 0})
T(r) == r \div 2                                                    \* guaranteed correction capacity

(* errs: sequence of <<position 0-based, magnitude>>; positions need not be distinct (magnitudes add up) *)
RECURSIVE Corrupt(_, _, _)
Corrupt(w, errs, i) == IF i > Len(errs) THEN w
                       ELSE Corrupt([w EXCEPT ![errs[i][1] + 1] = @ ^^ errs[i][2]], errs, i + 1)

(* declarative decoder, for tiny codes only: all words of F^k are enumerated *)
RECURSIVE Tuples(_, _)
Tuples(S, k) == IF k = 0 THEN {<<>>} ELSE {Append(t, s) : t \in Tuples(S, k - 1), s \in S}
Codewords(f, k, r) == {Encode(f, d, r) : d \in Tuples(0..(Q(f) - 1), k)}
Nearest(C, rcv, t) == {c \in C : Dist(c, rcv) <= t}
=============================================================================
