----------------------------- MODULE Trace_Conc -----------------------------
(* Trace validation for C18.  One event per concurrent run of the real library (built with the race detector and  *)
(* the verif hooks): `own` lists, per (goroutine, location, object), how often the hooks saw a read / write;       *)
(* `res` lists for every job the result digests obtained concurrently and alone; `races` is the number of race     *)
(* detector reports.  The run is a behaviour of Conc.tla only if every cache / scratch object was touched by a     *)
(* single goroutine (NoRace through ownership), package-level state saw no write (NoRunPhaseWrite), every result   *)
(* equals the sequential one (Deterministic) and the race detector reported nothing.                               *)
EXTENDS Integers, Sequences, FiniteSets, TLC, TraceLib
VARIABLES l, bad
vars == <<l, bad>>
B(x) == IF x THEN 1 ELSE 0
InstanceLocs == {"rsenc.cache", "oned.scratch"}
PkgLocs == {"pkg.gf", "pkg.gridSampler"}
\* hooks that only REPORT values of a call (a local rectangle, a row's pairs) to the trace checks X01 / X06: no shared state behind them
ObsLocs == {"wrd.rect", "rss14.row", "rss14.reset"}
RoundCheck(e) ==
  LET O == {e.own[i] : i \in 1..Len(e.own)}
      inst == {o \in O : o[2] \in InstanceLocs}
      ownOK == \A a \in inst, b \in inst : (a[2] = b[2] /\ a[3] = b[3]) => a[1] = b[1]
      pkgOK == \A o \in O : o[2] \in PkgLocs => o[5] = 0
      knownOK == \A o \in O : o[2] \in InstanceLocs \cup PkgLocs \cup ObsLocs
      detOK == /\ Len(e.res) = e.rounds * e.njobs + e.k * e.nfirst      \* in the first round every goroutine also runs the `first` jobs
               /\ \A i \in 1..Len(e.res) : LET r == e.res[i] IN Len(r) = 10 /\ <<r[3], r[4], r[5], r[6]>> = <<r[7], r[8], r[9], r[10]>>
      \* the hooks must have seen the work: every concurrent goroutine that ran a QR / Data Matrix job used an encoder of its own
      \* (a run of a single round is unhooked - even rounds leave the race detector alone - and has nothing to show here)
      seenOK == e.rounds < 2 \/ Cardinality({o[3] : o \in {x \in inst : x[2] = "rsenc.cache"}}) >= 1
  IN <<B(e.panic = 0 /\ e.hang = 0), B(ownOK), B(pkgOK /\ knownOK), B(detOK), B(e.races = 0), B(seenOK)>>
Init == l = 1 /\ bad = <<>>
Next == /\ l <= NEv /\ l' = l + 1
        /\ LET e == Tr[l] r == RoundCheck(e) IN
           bad' = IF \A k \in 1..Len(r) : r[k] = 1 THEN bad ELSE Append(bad, <<l, e.op, r>>)
Spec == Init /\ [][Next]_vars
Done == l = NEv + 1 => WriteBad(l, bad)
=============================================================================
