-------------------------------- MODULE OneD --------------------------------
(* Reference semantics of the 1-D symbologies (C03, C10), written from the symbology definitions:             *)
(*   - check characters: UPC/EAN mod 10 (weights 3/1 from the right), UPC-E on the UPC-A expansion,           *)
(*     Code 128 mod 103, Code 93 C (weights 1..20) and K (weights 1..15) mod 47, add-on parities;             *)
(*   - symbol construction  Runs_S(data)  (a symbol is the sequence of its run lengths in modules, first and   *)
(*     last run are bars);                                                                                   *)
(*   - the reference reader Read_S(runs) : [ok, text]  - exact module-level decoding incl. every check.       *)
(* Texts are sequences of byte values, numbers are sequences of digits 0..9.                                  *)
EXTENDS OneDTables

Rev(s) == [i \in 1..Len(s) |-> s[Len(s) + 1 - i]]
RECURSIVE CatFrom(_, _)
CatFrom(ss, i) == IF i > Len(ss) THEN <<>> ELSE ss[i] \o CatFrom(ss, i + 1)
Cat(ss) == CatFrom(ss, 1)
Fail == [ok |-> FALSE, text |-> <<>>]
Good(t) == [ok |-> TRUE, text |-> t]
IsDigits(d) == \A i \in 1..Len(d) : d[i] \in 0..9
Bytes(d) == [i \in 1..Len(d) |-> d[i] + 48]                  \* digits -> ASCII
UnBytes(t) == [i \in 1..Len(t) |-> t[i] - 48]
IndexIn(tbl, x) == LET S == {i \in 1..Len(tbl) : tbl[i] = x} IN IF S = {} THEN 0 ELSE CHOOSE i \in S : TRUE
\* width tuples (every width 1..4) as numbers, so that inverse tables are searched by integer comparison
Key4(w) == ((w[1] - 1) * 64) + ((w[2] - 1) * 16) + ((w[3] - 1) * 4) + w[4]
Key6(w) == ((w[1] - 1) * 1024) + ((w[2] - 1) * 256) + ((w[3] - 1) * 64) + ((w[4] - 1) * 16) + ((w[5] - 1) * 4) + w[6]
Narrow(w) == \A i \in 1..Len(w) : w[i] \in 1..4

(* ================================================================== UPC / EAN *)
\* weighted sum, weight 3 on the rightmost digit of the payload, alternating 3,1,3,... leftwards
RECURSIVE WSum(_, _, _)
WSum(d, i, w) == IF i = 0 THEN 0 ELSE d[i] * w + WSum(d, i - 1, 4 - w)
Check10(d) == (10 - (WSum(d, Len(d), 3) % 10)) % 10          \* check digit of a payload (without check digit)
Verifies10(d) == Len(d) >= 2 /\ Check10(SubSeq(d, 1, Len(d) - 1)) = d[Len(d)]

\* UPC-E (number system + 6 digits) -> the 11 digits of the UPC-A number it abbreviates
Expand(e) == LET n == e[1] a == e[2] b == e[3] c == e[4] d == e[5] f == e[6] l == e[7] IN
  IF l \in {0, 1, 2} THEN <<n, a, b, l, 0, 0, 0, 0, c, d, f>>
  ELSE IF l = 3 THEN <<n, a, b, c, 0, 0, 0, 0, 0, d, f>>
  ELSE IF l = 4 THEN <<n, a, b, c, d, 0, 0, 0, 0, 0, f>>
  ELSE <<n, a, b, c, d, f, 0, 0, 0, 0, l>>
\* zero suppression (GS1 General Specifications 5.2.2.4.2): u = number system, manufacturer u[2..6], item u[7..11]
\* rule 1: manufacturer ends in 000, 100 or 200 and item is 00000..00999
\* rule 2: manufacturer ends in 00 (third digit 3..9)  and item is 00000..00099
\* rule 3: manufacturer ends in 0 (fourth digit not 0)  and item is 00000..00009
\* rule 4: manufacturer does not end in 0              and item is 00005..00009
Rule(u) ==
  IF u[1] \notin {0, 1} THEN 0
  ELSE IF u[4] \in {0, 1, 2} /\ u[5] = 0 /\ u[6] = 0 /\ u[7] = 0 /\ u[8] = 0 THEN 1
  ELSE IF u[5] = 0 /\ u[6] = 0 /\ u[7] = 0 /\ u[8] = 0 /\ u[9] = 0 THEN 2
  ELSE IF u[6] = 0 /\ u[7] = 0 /\ u[8] = 0 /\ u[9] = 0 /\ u[10] = 0 THEN 3
  ELSE IF u[7] = 0 /\ u[8] = 0 /\ u[9] = 0 /\ u[10] = 0 /\ u[11] \in 5..9 THEN 4
  ELSE 0
Suppressible(u) == Rule(u) # 0
Suppress(u) == CASE Rule(u) = 1 -> <<u[1], u[2], u[3], u[9], u[10], u[11], u[4]>>
                 [] Rule(u) = 2 -> <<u[1], u[2], u[3], u[4], u[10], u[11], 3>>
                 [] Rule(u) = 3 -> <<u[1], u[2], u[3], u[4], u[5], u[11], 4>>
                 [] Rule(u) = 4 -> <<u[1], u[2], u[3], u[4], u[5], u[6], u[11]>>
CheckUPCE(e) == Check10(Expand(e))                            \* e: number system + 6 digits

\* ---- symbols as run sequences
EAN13Runs(d) ==   \* d: 13 digits
  NormalGuard \o Cat([i \in 1..6 |-> DigitW(d[i + 1], P13[d[1] + 1][i])]) \o CentreGuard
              \o Cat([i \in 1..6 |-> LW[d[i + 7] + 1]]) \o NormalGuard
EAN8Runs(d) ==    \* d: 8 digits
  NormalGuard \o Cat([i \in 1..4 |-> LW[d[i] + 1]]) \o CentreGuard \o Cat([i \in 1..4 |-> LW[d[i + 4] + 1]]) \o NormalGuard
UPCARuns(d) == EAN13Runs(<<0>> \o d)      \* d: 12 digits; UPC-A is the EAN-13 symbol with leading digit 0
UPCEPar(ns, ck) == [i \in 1..6 |-> IF ns = 0 THEN PE[ck + 1][i] ELSE 1 - PE[ck + 1][i]]
UPCERuns(d) ==    \* d: number system (0/1), six digits, check digit
  NormalGuard \o Cat([i \in 1..6 |-> DigitW(d[i + 1], UPCEPar(d[1], d[8])[i])]) \o UPCEEndGuard
\* add-ons: digits with explicit number sets (so that wrong parities can be constructed)
AddOnRuns(d, par) == AddOnGuard \o Cat([i \in 1..Len(d) |-> (IF i = 1 THEN <<>> ELSE AddOnDelim) \o DigitW(d[i], par[i])])
Check5(d) == (3 * (d[1] + d[3] + d[5]) + 9 * (d[2] + d[4])) % 10
AddOn5Par(d) == P5[Check5(d) + 1]
AddOn2Par(d) == P2[((10 * d[1] + d[2]) % 4) + 1]
WithAddOn(main, gap, addon) == main \o <<gap>> \o addon

\* ---- reference reader
\* a left-hand character (space bar space bar): <<digit, set>> or <<-1, -1>>
LeftCharDef(w) == IF \E d \in 0..9 : LW[d + 1] = w THEN <<CHOOSE d \in 0..9 : LW[d + 1] = w, 0>>
                  ELSE IF \E d \in 0..9 : Rev4(LW[d + 1]) = w THEN <<CHOOSE d \in 0..9 : Rev4(LW[d + 1]) = w, 1>>
                  ELSE <<-1, -1>>
LeftTab == TLCEval([k \in 1..256 |-> LeftCharDef(<<((k - 1) \div 64) + 1, (((k - 1) \div 16) % 4) + 1, (((k - 1) \div 4) % 4) + 1, ((k - 1) % 4) + 1>>)])
LeftChar(w) == IF Narrow(w) THEN LeftTab[Key4(w)] ELSE <<-1, -1>>
Quad(r, k) == <<r[k], r[k + 1], r[k + 2], r[k + 3]>>
ReadEAN13(r) ==
  IF Len(r) # 59 \/ SubSeq(r, 1, 3) # NormalGuard \/ SubSeq(r, 28, 32) # CentreGuard \/ SubSeq(r, 57, 59) # NormalGuard THEN Fail
  ELSE LET lc == TLCEval([i \in 1..6 |-> LeftChar(Quad(r, 4 * i))])
           rc == TLCEval([i \in 1..6 |-> LeftChar(Quad(r, 29 + 4 * i))])
           par == [i \in 1..6 |-> lc[i][2]]
           first == IndexIn(P13, par) - 1
       IN IF (\E i \in 1..6 : lc[i][1] < 0 \/ rc[i][2] # 0) \/ first < 0 THEN Fail
          ELSE LET d == <<first>> \o [i \in 1..6 |-> lc[i][1]] \o [i \in 1..6 |-> rc[i][1]]
               IN IF Verifies10(d) THEN Good(Bytes(d)) ELSE Fail
ReadUPCA(r) == LET x == ReadEAN13(r) IN IF x.ok /\ x.text[1] = 48 THEN Good(SubSeq(x.text, 2, 13)) ELSE Fail
ReadEAN8(r) ==
  IF Len(r) # 43 \/ SubSeq(r, 1, 3) # NormalGuard \/ SubSeq(r, 20, 24) # CentreGuard \/ SubSeq(r, 41, 43) # NormalGuard THEN Fail
  ELSE LET lc == TLCEval([i \in 1..4 |-> LeftChar(Quad(r, 4 * i))])
           rc == TLCEval([i \in 1..4 |-> LeftChar(Quad(r, 21 + 4 * i))])
       IN IF \E i \in 1..4 : lc[i][2] # 0 \/ rc[i][2] # 0 THEN Fail
          ELSE LET d == [i \in 1..4 |-> lc[i][1]] \o [i \in 1..4 |-> rc[i][1]]
               IN IF Verifies10(d) THEN Good(Bytes(d)) ELSE Fail
ReadUPCE(r) ==
  IF Len(r) # 33 \/ SubSeq(r, 1, 3) # NormalGuard \/ SubSeq(r, 28, 33) # UPCEEndGuard THEN Fail
  ELSE LET lc == TLCEval([i \in 1..6 |-> LeftChar(Quad(r, 4 * i))])
           par == [i \in 1..6 |-> lc[i][2]]
           k0 == IndexIn(PE, par) - 1
           k1 == IndexIn(PE, [i \in 1..6 |-> 1 - par[i]]) - 1
       IN IF (\E i \in 1..6 : lc[i][1] < 0) \/ (k0 < 0 /\ k1 < 0) THEN Fail
          ELSE LET ns == IF k0 >= 0 THEN 0 ELSE 1
                   ck == IF k0 >= 0 THEN k0 ELSE k1
                   e == <<ns>> \o [i \in 1..6 |-> lc[i][1]]
               IN IF CheckUPCE(e) = ck THEN Good(Bytes(Append(e, ck))) ELSE Fail
\* add-on starting at run k of r (r[k] is the first bar of the add-on guard): the digits if its parity check holds
ReadAddOn(r, k, n) ==     \* n = 2 or 5
  IF Len(r) < k + 2 + 4 * n + 2 * (n - 1) \/ SubSeq(r, k, k + 2) # AddOnGuard THEN Fail
  ELSE LET pos(i) == k + 3 + 6 * (i - 1)
           ch == TLCEval([i \in 1..n |-> LeftChar(Quad(r, pos(i)))])
           delimOK == \A i \in 2..n : r[pos(i) - 2] = 1 /\ r[pos(i) - 1] = 1
           d == [i \in 1..n |-> ch[i][1]]
           par == [i \in 1..n |-> ch[i][2]]
       IN IF (\E i \in 1..n : ch[i][1] < 0) \/ ~delimOK THEN Fail
          ELSE IF n = 5 THEN (IF par = AddOn5Par(d) THEN Good(Bytes(d)) ELSE Fail)
          ELSE (IF par = AddOn2Par(d) THEN Good(Bytes(d)) ELSE Fail)

(* ================================================================== Code 128 *)
\* cw: start code, data/control codes ... , check character (no stop)
Sum128(cw) == LET RECURSIVE f(_) f(i) == IF i >= Len(cw) THEN 0 ELSE (i - 1) * cw[i] + f(i + 1)
              IN cw[1] + f(2)                                 \* start weight 1, then 1, 2, 3, ...
Check128(body) == Sum128(Append(body, 0)) % 103               \* body = start + data (without check)
C128Runs(cw) == Cat([i \in 1..Len(cw) |-> C128[cw[i] + 1]]) \o C128[C128Stop + 1]
\* data decoding automaton: set in {"A","B","C"}; shift affects one character
RECURSIVE Dec128(_, _, _, _, _)
Dec128(cw, i, set, shifted, acc) ==
  IF i > Len(cw) THEN Good(acc)
  ELSE LET c == cw[i]
           eff == IF shifted THEN (IF set = "A" THEN "B" ELSE "A") ELSE set
       IN IF c > 102 THEN Fail
          ELSE IF eff = "C" THEN
                 (IF c < 100 THEN Dec128(cw, i + 1, set, FALSE, acc \o <<48 + (c \div 10), 48 + (c % 10)>>)
                  ELSE IF c = 100 THEN Dec128(cw, i + 1, "B", FALSE, acc)
                  ELSE IF c = 101 THEN Dec128(cw, i + 1, "A", FALSE, acc)
                  ELSE Dec128(cw, i + 1, set, FALSE, acc))                       \* FNC1: no data character
          ELSE IF c < 64 THEN Dec128(cw, i + 1, set, FALSE, Append(acc, 32 + c))
          ELSE IF c < 96 THEN Dec128(cw, i + 1, set, FALSE, Append(acc, IF eff = "A" THEN c - 64 ELSE 32 + c))
          ELSE IF c = C128Shift THEN (IF shifted THEN Fail ELSE Dec128(cw, i + 1, set, TRUE, acc))
          ELSE IF c = C128CodeC THEN Dec128(cw, i + 1, "C", FALSE, acc)
          ELSE IF c = 100 THEN (IF eff = "A" THEN Dec128(cw, i + 1, "B", FALSE, acc) ELSE Fail)   \* B: FNC4 - not modelled
          ELSE IF c = 101 THEN (IF eff = "B" THEN Dec128(cw, i + 1, "A", FALSE, acc) ELSE Fail)   \* A: FNC4 - not modelled
          ELSE Dec128(cw, i + 1, set, FALSE, acc)                                  \* FNC1..3: no data character
\* codes of a run sequence: 6 runs per character, then the 7-run stop; <<>> when malformed
C128Keys == TLCEval([v \in 1..106 |-> Key6(C128[v])])
Code128Of(w) == IF Narrow(w) THEN IndexIn(C128Keys, Key6(w)) - 1 ELSE -1
Codes128(r) ==
  IF Len(r) < 19 \/ (Len(r) - 7) % 6 # 0 \/ SubSeq(r, Len(r) - 6, Len(r)) # C128[C128Stop + 1]
     \/ Code128Of(SubSeq(r, 1, 6)) \notin {C128StartA, C128StartB, C128StartC} THEN <<>>
  ELSE LET n == (Len(r) - 7) \div 6
           cs == TLCEval([i \in 1..n |-> Code128Of(SubSeq(r, 6 * i - 5, 6 * i))])
       IN IF \E i \in 1..n : cs[i] < 0 THEN <<>> ELSE cs
Read128(r) ==
  LET cs == Codes128(r) n == Len(cs) IN
  IF n < 3 \/ cs[1] \notin {C128StartA, C128StartB, C128StartC} THEN Fail
  ELSE IF Check128(SubSeq(cs, 1, n - 1)) # cs[n] THEN Fail
  ELSE LET x == Dec128(SubSeq(cs, 2, n - 1), 1, IF cs[1] = C128StartA THEN "A" ELSE IF cs[1] = C128StartB THEN "B" ELSE "C", FALSE, <<>>)
       IN IF x.ok /\ x.text # <<>> THEN x ELSE Fail

(* ================================================================== Code 93 *)
\* v: sequence of character values 0..46.  weight 1 on the rightmost character, cycling 1..maxw leftwards
Sum93(v, maxw) == LET n == Len(v)
                      RECURSIVE f(_) f(i) == IF i > n THEN 0 ELSE (((n - i) % maxw) + 1) * v[i] + f(i + 1)
                  IN f(1)
CheckC93(v) == Sum93(v, 20) % 47
CheckK93(v) == Sum93(Append(v, CheckC93(v)), 15) % 47
C93Runs(v) ==   \* v: all characters between start and stop (data, C, K); termination bar merges nothing: the stop ends with a space
  Cat([i \in 1..Len(v) + 2 |-> IF i = 1 \/ i = Len(v) + 2 THEN C93[C93Star + 1] ELSE C93[v[i - 1] + 1]]) \o <<1>>
\* full ASCII: shift characters 43..46 = ($) (%) (/) (+) followed by a letter A..Z (values 10..35)
Shifted93(s, l) ==    \* s in 43..46, l = letter index 0..25 ; -1 when undefined
  CASE s = 43 -> l + 1                                               \* ($)A..Z -> SOH..SUB
    [] s = 44 -> (IF l <= 4 THEN 27 + l                               \* (%)A..E -> ESC..US
                  ELSE IF l <= 9 THEN 59 + (l - 5)                    \* (%)F..J -> ; < = > ?
                  ELSE IF l <= 14 THEN 91 + (l - 10)                  \* (%)K..O -> [ \ ] ^ _
                  ELSE IF l <= 19 THEN 123 + (l - 15)                 \* (%)P..T -> { | } ~ DEL
                  ELSE IF l = 20 THEN 0 ELSE IF l = 21 THEN 64 ELSE IF l = 22 THEN 96 ELSE 127)
    [] s = 45 -> (IF l <= 14 THEN 33 + l ELSE IF l = 25 THEN 58 ELSE -1)   \* (/)A..O -> ! .. / ; (/)Z -> :
    [] s = 46 -> 97 + l                                               \* (+)A..Z -> a..z
RECURSIVE DecExt(_, _, _, _)
DecExt(v, i, alpha, acc) ==     \* alpha: byte values of the plain characters by value (shift characters at 43..46 relative)
  IF i > Len(v) THEN Good(acc)
  ELSE IF v[i] >= 43 THEN
         (IF i = Len(v) \/ v[i + 1] \notin 10..35 \/ Shifted93(v[i], v[i + 1] - 10) < 0 THEN Fail
          ELSE DecExt(v, i + 2, alpha, Append(acc, Shifted93(v[i], v[i + 1] - 10))))
  ELSE DecExt(v, i + 1, alpha, Append(acc, alpha[v[i] + 1]))
C93Keys == TLCEval([v \in 1..48 |-> Key6(C93[v])])
Code93Of(w) == IF Narrow(w) THEN IndexIn(C93Keys, Key6(w)) - 1 ELSE -1
Codes93(r) ==
  IF Len(r) < 13 \/ (Len(r) - 1) % 6 # 0 \/ r[Len(r)] # 1 \/ Code93Of(SubSeq(r, 1, 6)) # C93Star THEN <<>>
  ELSE LET n == (Len(r) - 1) \div 6
           cs == TLCEval([i \in 1..n |-> Code93Of(SubSeq(r, 6 * i - 5, 6 * i))])
       IN IF (\E i \in 1..n : cs[i] < 0) \/ cs[1] # C93Star \/ cs[n] # C93Star
             \/ (\E i \in 2..n - 1 : cs[i] = C93Star) THEN <<>> ELSE SubSeq(cs, 2, n - 1)
Read93(r) ==
  LET v == Codes93(r) n == Len(v) IN
  IF n < 2 THEN Fail
  ELSE LET data == SubSeq(v, 1, n - 2) IN
       IF CheckC93(data) # v[n - 1] \/ CheckK93(data) # v[n] THEN Fail
       ELSE DecExt(data, 1, C93Alphabet, <<>>)
\* the encoder's side of full ASCII (one admissible spelling per character; used for MC and case generation only)
Ext93(c) ==   \* byte -> sequence of values
  LET p == IndexIn(C93Alphabet, c) IN
  IF p > 0 /\ p <= 43 THEN <<p - 1>>
  ELSE IF c = 0 THEN <<44, 30>> ELSE IF c <= 26 THEN <<43, 9 + c>> ELSE IF c <= 31 THEN <<44, 10 + (c - 27)>>
  ELSE IF c <= 47 THEN <<45, 10 + (c - 33)>> ELSE IF c = 58 THEN <<45, 35>> ELSE IF c <= 63 THEN <<44, 15 + (c - 59)>>
  ELSE IF c = 64 THEN <<44, 31>> ELSE IF c <= 95 THEN <<44, 20 + (c - 91)>> ELSE IF c = 96 THEN <<44, 32>>
  ELSE IF c <= 122 THEN <<46, 10 + (c - 97)>> ELSE <<44, 25 + (c - 123)>>
Enc93(text) == Cat([i \in 1..Len(text) |-> Ext93(text[i])])
Sym93(text) == LET v == Enc93(text) IN C93Runs(v \o <<CheckC93(v), CheckK93(v)>>)

(* ================================================================== Code 39 *)
\* v: values 0..42; wide = 2 modules, narrow inter-character gap
C39Runs(v) == Cat([i \in 1..Len(v) + 2 |-> (IF i = 1 THEN <<>> ELSE <<1>>) \o
                                          (IF i = 1 \/ i = Len(v) + 2 THEN C39[C39Star] ELSE C39[v[i - 1] + 1])])
Codes39(r) ==
  IF Len(r) < 19 \/ (Len(r) + 1) % 10 # 0 THEN <<>>
  ELSE LET n == (Len(r) + 1) \div 10
           cs == TLCEval([i \in 1..n |-> IndexIn(C39, SubSeq(r, 10 * i - 9, 10 * i - 1)) - 1])
       IN IF (\E i \in 1..n : cs[i] < 0) \/ (\E i \in 1..n - 1 : r[10 * i] # 1) \/ cs[1] # C39Star - 1 \/ cs[n] # C39Star - 1
             \/ (\E i \in 2..n - 1 : cs[i] = C39Star - 1) THEN <<>> ELSE SubSeq(cs, 2, n - 1)
\* the four shift characters of full ASCII Code 39 are $ % / + = values 39 42 40 41 ; map them to 43..46 like Code 93
Shift39(v) == [i \in 1..Len(v) |-> CASE v[i] = 39 -> 43 [] v[i] = 42 -> 44 [] v[i] = 40 -> 45 [] v[i] = 41 -> 46 [] OTHER -> v[i]]
Read39(r, extended) ==
  LET v == Codes39(r) IN
  IF Len(v) = 0 THEN Fail
  ELSE IF extended THEN DecExt(Shift39(v), 1, C39Alphabet, <<>>) ELSE Good([i \in 1..Len(v) |-> C39Alphabet[v[i] + 1]])
Check39(v) == SumSeq(v) % 43                                  \* optional modulo-43 check character (weight 1 everywhere)
Read39K(r) ==       \* reader that demands the check character: the text is the data without it
  LET v == Codes39(r) n == Len(v) IN
  IF n < 2 \/ Check39(SubSeq(v, 1, n - 1)) # v[n] THEN Fail ELSE Good([i \in 1..n - 1 |-> C39Alphabet[v[i] + 1]])
Plain39(text) == \A i \in 1..Len(text) : IndexIn(C39Alphabet, text[i]) > 0

(* ================================================================== ITF *)
ITFRuns(d, wide) ==   \* d: even number of digits; wide = module width of a wide element
  LET W(x) == IF x = 2 THEN wide ELSE 1 IN
  <<1, 1, 1, 1>> \o Cat([p \in 1..Len(d) \div 2 |-> [k \in 1..10 |->
        IF k % 2 = 1 THEN W(ITFW[d[2 * p - 1] + 1][(k + 1) \div 2]) ELSE W(ITFW[d[2 * p] + 1][k \div 2])]]) \o <<wide, 1, 1>>
ReadITF(r) ==      \* wide elements may be 2 or 3 modules, uniformly
  IF Len(r) < 17 \/ (Len(r) - 7) % 10 # 0 \/ SubSeq(r, 1, 4) # <<1, 1, 1, 1>> THEN Fail
  ELSE LET wide == r[Len(r) - 2]
           n == (Len(r) - 7) \div 10
           N(x) == IF x = 1 THEN 1 ELSE IF x = wide THEN 2 ELSE 0
           dig(p, odd) == IndexIn(ITFW, [k \in 1..5 |-> N(r[4 + 10 * (p - 1) + 2 * k - (IF odd THEN 1 ELSE 0)])]) - 1
           d == Cat([p \in 1..n |-> <<dig(p, TRUE), dig(p, FALSE)>>])
       IN IF wide \notin {2, 3} \/ r[Len(r) - 1] # 1 \/ r[Len(r)] # 1 \/ (\E i \in 1..2 * n : d[i] < 0) THEN Fail
          ELSE Good(Bytes(d))

(* ================================================================== Codabar *)
CBarRuns(v) == Cat([i \in 1..Len(v) |-> (IF i = 1 THEN <<>> ELSE <<1>>) \o CBar[v[i] + 1]])   \* v: values 0..19 incl. start/stop
ReadCBar(r) ==    \* text without the start/stop characters
  IF Len(r) < 31 \/ (Len(r) + 1) % 8 # 0 THEN Fail
  ELSE LET n == (Len(r) + 1) \div 8
           cs == TLCEval([i \in 1..n |-> IndexIn(CBar, SubSeq(r, 8 * i - 7, 8 * i - 1)) - 1])
       IN IF (\E i \in 1..n : cs[i] < 0) \/ (\E i \in 1..n - 1 : r[8 * i] # 1) \/ cs[1] < 16 \/ cs[n] < 16
             \/ (\E i \in 2..n - 1 : cs[i] >= 16) THEN Fail
          ELSE Good([i \in 1..n - 2 |-> CBarAlphabet[cs[i + 1] + 1]])
\* the same reading with the start / stop characters kept (RETURN_CODABAR_START_END)
ReadCBarSE(r) ==
  LET in == ReadCBar(r) IN
  IF ~in.ok THEN Fail
  ELSE LET n == (Len(r) + 1) \div 8
           gs == IndexIn(CBar, SubSeq(r, 1, 7)) - 1   ge == IndexIn(CBar, SubSeq(r, 8 * n - 7, 8 * n - 1)) - 1
       IN Good(<<CBarAlphabet[gs + 1]>> \o in.text \o <<CBarAlphabet[ge + 1]>>)

(* ================================================================== dispatch *)
\* sym: "EAN13" "EAN8" "UPCA" "UPCE" "C128" "C93" "C39" "C39X" "C39K" "ITF" "CBAR" "MULTI"
ReadSym(sym, r) ==
  CASE sym = "EAN13" -> ReadEAN13(r) [] sym = "EAN8" -> ReadEAN8(r) [] sym = "UPCA" -> ReadUPCA(r)
    [] sym = "UPCE" -> ReadUPCE(r) [] sym = "C128" -> Read128(r) [] sym = "C93" -> Read93(r)
    [] sym = "C39" -> Read39(r, FALSE) [] sym = "C39X" -> Read39(r, TRUE) [] sym = "C39K" -> Read39K(r)
    [] sym = "ITF" -> ReadITF(r) [] sym = "CBAR" -> ReadCBar(r) [] sym = "CBARSE" -> ReadCBarSE(r)
    [] sym = "MULTI" -> LET a == ReadEAN13(r) b == ReadEAN8(r) c == ReadUPCE(r) IN      \* multi-format UPC/EAN reader, no hints
                        IF a.ok THEN a ELSE IF b.ok THEN b ELSE c
    [] OTHER -> Fail
\* a run sequence is well-formed when every run is a positive module count and it starts and ends with a bar
RunsOK(r) == Len(r) % 2 = 1 /\ \A i \in 1..Len(r) : r[i] \in 1..200
=============================================================================
