SPECIFICATION Spec
CONSTANTS
  Part = "cases"
  Alphabet = {65}
  MaxLen = 0
CHECK_DEADLOCK FALSE
