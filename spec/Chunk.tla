------------------------------- MODULE Chunk -------------------------------
(* Bit rows travel between the harness and TLC as 16-bit little-endian chunks (TLC integers are 32-bit). *)
EXTENDS Integers, Sequences
ChBit(v, i) == (v \div (2^i)) % 2
ChUn(cs, n) == [i \in 1..n |-> ChBit(cs[((i-1) \div 16) + 1], (i-1) % 16)]
ChUnRows(cr, w, h) == [y \in 1..h |-> ChUn(cr[y], w)]
RECURSIVE ChPackLE(_,_,_)
ChPackLE(s, lo, hi) == IF lo > hi THEN 0 ELSE s[lo] + 2 * ChPackLE(s, lo + 1, hi)
ChOf(s) == [c \in 1..((Len(s) + 15) \div 16) |-> ChPackLE(s, 16*(c-1) + 1, IF 16*c < Len(s) THEN 16*c ELSE Len(s))]
ChRows(m) == [y \in 1..Len(m) |-> ChOf(m[y])]
ChShapeOK(cr, w, h) == Len(cr) = h /\ \A y \in 1..h : Len(cr[y]) = (w + 15) \div 16
=============================================================================
