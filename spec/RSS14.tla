------------------------------- MODULE RSS14 -------------------------------
(* GS1 DataBar Omnidirectional (RSS-14), ISO/IEC 24724, as a REFERENCE ENCODER: the library has a reader for this   *)
(* symbology and no writer, so - as for Aztec (C11) - conforming symbols come from the specification.                *)
(*                                                                                                                   *)
(* A symbol carries 13 digits (the GTIN without its check digit; no linkage flag).  Their value V is split            *)
(*     left = V div 4537077, right = V mod 4537077,                                                                   *)
(*     c1 = left div 1597, c2 = left mod 1597, c3 = right div 1597, c4 = right mod 1597                                *)
(* into two OUTSIDE characters c1, c3 (16 modules) and two INSIDE characters c2, c4 (15 modules), each of four odd     *)
(* and four even elements.  A character value selects a group (Gsum table) and, inside the group, one width tuple for  *)
(* the odd and one for the even elements: the tuples of a subset are ordered lexicographically and numbered from 0     *)
(* (this is the declarative content of the standard's getRSSwidths routine).  Subsets:                                 *)
(*     outside group g: odd elements sum 12-2g, widest OW[g]; even elements sum 4+2g, widest 9-OW[g], at least one 1   *)
(*     inside  group g: odd elements sum 5+2g, widest IW[g], at least one 1 (the first T_odd[g] = 4 20 48 81 tuples);  *)
(*                      even elements sum 10-2g, widest 9-IW[g]                                                       *)
(* The 32 element widths, weighted by 3^k mod 79 (k = 8 * (character - 1) + element), give the check value mod 79,     *)
(* which selects the two finder patterns (9 patterns; values 8 and 72 are skipped).  Layout, 46 elements / 96 modules, *)
(* starting with a space:  guard 1 1 | c1 | left finder | c2 reversed | c4 | right finder reversed | c3 reversed |     *)
(* guard 1 1.  MC_RSS14 proves the table laws (subset sizes, Gsum, 96 modules) and the round trip against the          *)
(* declarative reader below.                                                                                           *)
EXTENDS Integers, Sequences, FiniteSets, TLC

Sum4(t) == t[1] + t[2] + t[3] + t[4]
\* the width tuples of a subset
Subset(n, widest, narrow) ==
  {t \in {<<a, b, c, n - a - b - c>> : a \in 1..widest, b \in 1..widest, c \in 1..widest} :
     /\ t[4] \in 1..widest
     /\ (narrow => \E i \in 1..4 : t[i] = 1)}
LexLess(s, t) == \E i \in 1..4 : s[i] < t[i] /\ \A j \in 1..i-1 : s[j] = t[j]
\* number of tuples of the subset that start with the given prefix
CountPrefix(n, widest, narrow, p) ==
  Cardinality({t \in Subset(n, widest, narrow) : \A i \in 1..Len(p) : t[i] = p[i]})
\* the tuple of rank v (0-based, lexicographic): element by element
RECURSIVE Unrank(_, _, _, _, _, _)
Unrank(n, widest, narrow, v, p, a) ==
  IF Len(p) = 4 THEN p
  ELSE LET c == CountPrefix(n, widest, narrow, Append(p, a)) IN
       IF v < c THEN Unrank(n, widest, narrow, v, Append(p, a), 1)
       ELSE Unrank(n, widest, narrow, v - c, p, a + 1)
Widths(n, widest, narrow, v) == Unrank(n, widest, narrow, v, <<>>, 1)
Rank(n, widest, narrow, t) == Cardinality({s \in Subset(n, widest, narrow) : LexLess(s, t)})

(* ------------------------------------------------------------------ groups *)
OutGsum == <<0, 161, 961, 2015, 2715>>     OutWidest == <<8, 6, 4, 3, 1>>       \* outside: 5 groups, values 0..2840
InGsum == <<0, 336, 1036, 1516>>           InWidest == <<2, 4, 6, 8>>           \* inside: 4 groups, values 0..1596
OutOddN(g) == 12 - 2 * g      OutEvenN(g) == 4 + 2 * g
InOddN(g) == 5 + 2 * g        InEvenN(g) == 10 - 2 * g
OutTodd(g) == Cardinality(Subset(OutOddN(g), OutWidest[g + 1], FALSE))
OutTeven(g) == Cardinality(Subset(OutEvenN(g), 9 - OutWidest[g + 1], TRUE))
\* the standard's table; for groups 2 and 3 it is smaller than the subset (52 and 100 tuples): only the first 48 / 81 are used
InTodd(g) == <<4, 20, 48, 81>>[g + 1]
InOddSubsetSize(g) == Cardinality(Subset(InOddN(g), InWidest[g + 1], TRUE))
InTeven(g) == Cardinality(Subset(InEvenN(g), 9 - InWidest[g + 1], FALSE))
GroupOf(gsum, v) == CHOOSE g \in 0..Len(gsum) - 1 : gsum[g + 1] <= v /\ (g + 1 = Len(gsum) \/ v < gsum[g + 2])
\* the eight elements of a character, odd and even interleaved: o1 e1 o2 e2 o3 e3 o4 e4
Interleave(o, e) == <<o[1], e[1], o[2], e[2], o[3], e[3], o[4], e[4]>>
OutsideChar(v) ==
  LET g == GroupOf(OutGsum, v)  te == OutTeven(g)  r == v - OutGsum[g + 1] IN
  Interleave(Widths(OutOddN(g), OutWidest[g + 1], FALSE, r \div te), Widths(OutEvenN(g), 9 - OutWidest[g + 1], TRUE, r % te))
InsideChar(v) ==
  LET g == GroupOf(InGsum, v)  to == InTodd(g)  r == v - InGsum[g + 1] IN
  Interleave(Widths(InOddN(g), InWidest[g + 1], TRUE, r % to), Widths(InEvenN(g), 9 - InWidest[g + 1], FALSE, r \div to))

(* ------------------------------------------------------------------ value, check value, finder patterns *)
\* long division of a digit sequence (most significant first) by d < 2^27: <<quotient, remainder>>; the quotient must fit
RECURSIVE DivMod(_, _, _, _, _)
DivMod(ds, d, i, q, r) == IF i > Len(ds) THEN <<q, r>>
                          ELSE LET x == r * 10 + ds[i] IN DivMod(ds, d, i + 1, q * 10 + (x \div d), x % d)
Chars(ds) == LET lr == DivMod(ds, 4537077, 1, 0, 0) IN
             <<lr[1] \div 1597, lr[1] % 1597, lr[2] \div 1597, lr[2] % 1597>>
RECURSIVE Pow3Rec(_)
Pow3Rec(k) == IF k = 0 THEN 1 ELSE (3 * Pow3Rec(k - 1)) % 79
Weight(c, e) == Pow3Rec(8 * (c - 1) + (e - 1))                       \* character c = 1..4, element e = 1..8
RECURSIVE SumTo(_, _)
SumTo(f, n) == IF n = 0 THEN 0 ELSE f[n] + SumTo(f, n - 1)
CheckValue(els) ==                                                  \* els: the four characters' element tuples
  SumTo([k \in 1..32 |-> els[((k - 1) \div 8) + 1][((k - 1) % 8) + 1] * Weight(((k - 1) \div 8) + 1, ((k - 1) % 8) + 1)], 32) % 79
Finders == << <<3, 8, 2, 1, 1>>, <<3, 5, 5, 1, 1>>, <<3, 3, 7, 1, 1>>, <<3, 1, 9, 1, 1>>, <<2, 7, 4, 1, 1>>,
              <<2, 5, 6, 1, 1>>, <<2, 3, 8, 1, 1>>, <<1, 5, 7, 1, 1>>, <<1, 3, 9, 1, 1>> >>
\* the check value skips 8 and 72: <<left finder, right finder>>, 0-based
FinderPair(cv) == LET a == IF cv >= 8 THEN cv + 1 ELSE cv  b == IF a >= 72 THEN a + 1 ELSE a IN <<b \div 9, b % 9>>
Rev(s) == [i \in 1..Len(s) |-> s[Len(s) + 1 - i]]

(* ------------------------------------------------------------------ the symbol *)
\* 46 run lengths in modules, the first one a space
Symbol(ds) ==
  LET cs == Chars(ds)
      els == <<OutsideChar(cs[1]), InsideChar(cs[2]), OutsideChar(cs[3]), InsideChar(cs[4])>>
      fp == FinderPair(CheckValue(els))
  IN <<1, 1>> \o els[1] \o Finders[fp[1] + 1] \o Rev(els[2]) \o els[4] \o Rev(Finders[fp[2] + 1]) \o Rev(els[3]) \o <<1, 1>>
\* GTIN check digit over the 13 digits (weights 3 1 3 ... from the left)
CheckDigit(ds) == (10 - (SumTo([i \in 1..13 |-> ds[i] * (IF i % 2 = 1 THEN 3 ELSE 1)], 13) % 10)) % 10
Text(ds) == Append(ds, CheckDigit(ds))
ValidDigits(ds) == Len(ds) = 13 /\ \A i \in 1..13 : ds[i] \in 0..9

(* ------------------------------------------------------------------ declarative reader (for the round-trip law) *)
OddOf(el) == <<el[1], el[3], el[5], el[7]>>      EvenOf(el) == <<el[2], el[4], el[6], el[8]>>
OutsideValue(el) == LET o == OddOf(el)  e == EvenOf(el)  g == (12 - Sum4(o)) \div 2 IN
  OutGsum[g + 1] + Rank(OutOddN(g), OutWidest[g + 1], FALSE, o) * OutTeven(g) + Rank(OutEvenN(g), 9 - OutWidest[g + 1], TRUE, e)
InsideValue(el) == LET o == OddOf(el)  e == EvenOf(el)  g == (10 - Sum4(e)) \div 2 IN
  InGsum[g + 1] + Rank(InEvenN(g), 9 - InWidest[g + 1], FALSE, e) * InTodd(g) + Rank(InOddN(g), InWidest[g + 1], TRUE, o)
\* <<c1, c2, c3, c4, left finder, right finder>> read back from the 46 runs
ReadBack(r) ==
  LET c1 == SubSeq(r, 3, 10)  fl == SubSeq(r, 11, 15)  c2 == Rev(SubSeq(r, 16, 23))
      c4 == SubSeq(r, 24, 31)  fr == Rev(SubSeq(r, 32, 36))  c3 == Rev(SubSeq(r, 37, 44))
      idx(f) == CHOOSE k \in 0..8 : Finders[k + 1] = f
  IN <<OutsideValue(c1), InsideValue(c2), OutsideValue(c3), InsideValue(c4), idx(fl), idx(fr)>>
=============================================================================
