----------------------------- MODULE MC_RowScan -----------------------------
(* Laws of the schedule for every height 1..MaxH in both modes: rows are inside the image, pairwise distinct, the first is the *)
(* middle row; with TRY_HARDER and a height below 512 EVERY row is scheduled (nothing in the image can be missed for lack of *)
(* a visit); without it at most 15 rows are, and every band of rowStep consecutive rows inside the scheduled span holds one -  *)
(* so a symbol at least rowStep rows tall inside the span is met.                                                            *)
EXTENDS RowScan, FiniteSets, TLC
CONSTANT MaxH
VARIABLES h, th, phase
vars == <<h, th, phase>>
Init == h = 1 /\ th = FALSE /\ phase = "i"
Next == phase = "i" /\ phase' = "c" /\ h' \in 1..MaxH /\ th' \in BOOLEAN
Spec == Init /\ [][Next]_vars
Laws == phase = "c" =>
  LET s == Schedule(h, th) n == Len(s) st == RowStep(h, th) rows == {s[i] : i \in 1..n}
      lo == CHOOSE r \in rows : \A q \in rows : r <= q   hi == CHOOSE r \in rows : \A q \in rows : r >= q IN
  /\ n >= 1 /\ s[1] = h \div 2
  /\ \A i \in 1..n : InImage(h, s[i])
  /\ Cardinality(rows) = n
  /\ \A i \in 2..n : (i % 2 = 0) = (s[i] < s[1])                 \* alternately below (2nd, 4th ...) and above the middle
  /\ (th /\ h < 512) => rows = 0..(h - 1)
  /\ ~th => n <= 15
  /\ \A a \in lo..hi : a + st - 1 <= hi => \E r \in rows : r >= a /\ r <= a + st - 1
  /\ \A Y \in {{lo}, {hi}, {lo, hi}, {s[n]}, {-5}, {h}} : FirstIn(s, Y) \in Y \cup {-1} /\ (FirstIn(s, Y) = -1) = (Y \cap rows = {})
=============================================================================
