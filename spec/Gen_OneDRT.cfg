SPECIFICATION Spec
CONSTANTS
  Mode = "gen"
  MaxLen = 1
CHECK_DEADLOCK FALSE
