----------------------------- MODULE MC_OneDRT -----------------------------
(* Design-level model checking and symbol generation for C03.                                                   *)
(*  MC_OneDRT.cfg (Mode = "laws"): tree root -> group -> job; every job is a block of the law                    *)
(*        ReadSym(ReaderOf(S, c), SymbolOf(S, c)) = Good(Canonical(S, c))      for every c with Domain = "must"   *)
(*     i.e. the reference encoder and the reference reader of OneD / OneDRT agree with each other (the oracle     *)
(*     used for the real code is self-consistent), exhaustively over small scopes:                               *)
(*       Code 39 / Code 93   every string of length 1 and 2 over all 128 ASCII codes, length 3 over Classes       *)
(*       Code 128            every string up to MaxLen over Classes (digits, upper, lower, control, space, DEL),   *)
(*                           digit runs of length 1..9 before / between / after every class                       *)
(*                           - every code-set transition, SHIFT, odd/even digit runs                              *)
(*       ITF                 lengths 2..16 ; Codabar all 16 + 16 guard pairs ; UPC/EAN families, both content forms *)
(*     plus: Domain is "reject" for every single-character corruption / truncation of the family contents.        *)
(*  Gen_OneDRT.cfg (Mode = "gen"): contents.ndjson -> symbols built by the reference encoders (Code 128 with        *)
(*     SHIFT and code-set switches, full-ASCII Code 39 / 93, ITF with 2:1 and 3:1 ratio, every Codabar guard pair)  *)
(*     which the real readers are asked to read.                                                                 *)
EXTENDS OneDRT, Json
CONSTANTS Mode, MaxLen
VARIABLES lvl, grp, job
vars == <<lvl, grp, job>>

Seeds == IF Mode = "gen" THEN ndJsonDeserialize("contents.ndjson") ELSE <<>>
Classes == <<49, 57, 65, 97, 1, 32, 127, 96>>       \* '1' '9' 'A' 'a' SOH SPACE DEL '`'
NC == Len(Classes)
\* all strings of length n over Classes whose first character is Classes[a]
Strs(n, a) == {<<Classes[a]>> \o [i \in 1..n - 1 |-> Classes[f[i]]] : f \in [1..n - 1 -> 1..NC]}
RoundTrips(sym, c) == Domain(sym, c, "") = "must" /\ ReadSym(ReaderOf(sym, c), SymbolOf(sym, c)) = Good(Canonical(sym, c))

FamEAN(sym, x) == LET n == SymLen(sym) - 1 IN
  {[i \in 1..n |-> IF i = 1 /\ sym = "UPCE" THEN x % 2 ELSE IF i = n THEN l ELSE IF i % 2 = 0 THEN a ELSE (b + x + i) % 10] :
      a \in {0, 4, 9}, b \in {1, 6}, l \in {0, 2, 3, 4, 7}}
Jobs == {<<"tables", 0, 0>>}
        \cup {<<"b1", s, 0>> : s \in {39, 93}}                          \* all single bytes
        \cup {<<"b2", s, a>> : s \in {39, 93}, a \in 0..127}            \* all pairs with first byte a
        \cup {<<"c3", s, a>> : s \in {39, 93}, a \in 1..NC}             \* triples over Classes
        \cup {<<"c128", n, a>> : n \in 1..MaxLen, a \in 1..NC}
        \cup {<<"c128d", n, a>> : n \in 1..9, a \in 1..NC}           \* digit runs of every parity between other characters
        \cup {<<"itf", n, 0>> : n \in 1..8} \cup {<<"cbar", g, 0>> : g \in 0..15}
        \cup {<<"ean", s, x>> : s \in 1..4, x \in 0..9}
JobSeq == LET RECURSIVE f(_) f(S) == IF S = {} THEN <<>> ELSE LET x == CHOOSE x \in S : TRUE IN <<x>> \o f(S \ {x}) IN f(Jobs)
SymName(s) == CASE s = 39 -> "C39" [] s = 93 -> "C93" [] s = 1 -> "EAN13" [] s = 2 -> "EAN8" [] s = 3 -> "UPCA" [] OTHER -> "UPCE"
GuardBytes == <<65, 66, 67, 68>>
AltBytes == <<84, 78, 42, 69>>

JobOK(j) ==
  CASE j[1] = "tables" -> TablesOK
    [] j[1] = "b1" -> \A a \in 0..127 : RoundTrips(SymName(j[2]), <<a>>)
    [] j[1] = "b2" -> \A b \in 0..127 : RoundTrips(SymName(j[2]), <<j[3], b>>)
    [] j[1] = "c3" -> \A c \in Strs(3, j[3]) : RoundTrips(SymName(j[2]), c)
    [] j[1] = "c128" -> \A c \in Strs(j[2], j[3]) : RoundTrips("C128", c)
    [] j[1] = "c128d" -> LET run == [i \in 1..j[2] |-> 48 + ((i * 7) % 10)] IN
                         /\ RoundTrips("C128", run) /\ RoundTrips("C128", <<Classes[j[3]]>> \o run)
                         /\ \A b \in 1..NC : /\ RoundTrips("C128", <<Classes[j[3]]>> \o run \o <<Classes[b]>>)
                                             /\ RoundTrips("C128", run \o <<Classes[b]>> \o run)
    [] j[1] = "itf" -> \A x \in 0..9 : LET c == [i \in 1..2 * j[2] |-> 48 + ((x + i * i) % 10)] IN
                          /\ RoundTrips("ITF", c)
                          /\ ReadITF(ITFRuns(UnBytes(c), 2)) = Good(c)                  \* 2:1 ratio symbols carry the same digits
                          /\ Domain("ITF", SubSeq(c, 2, Len(c)), "") = "reject"          \* odd length
    [] j[1] = "cbar" -> LET g1 == (j[2] \div 4) + 1  g2 == (j[2] % 4) + 1 IN
                        \A d \in {<<49, 50>>, <<45, 36, 58, 47, 46, 43>>, <<48, 57, 51>>} :
                          /\ RoundTrips("CBAR", <<GuardBytes[g1]>> \o d \o <<GuardBytes[g2]>>)
                          /\ RoundTrips("CBAR", <<AltBytes[g1]>> \o d \o <<AltBytes[g2]>>)
                          /\ RoundTrips("CBAR", d)
                          /\ Domain("CBAR", <<GuardBytes[g1]>> \o <<49, 65, 50>> \o <<GuardBytes[g2]>>, "") = "reject"
    [] j[1] = "ean" -> LET sym == SymName(j[2]) IN
                       \A p \in FamEAN(sym, j[3]) :
                          LET full == Complete(sym, p) IN
                          /\ RoundTrips(sym, Bytes(p)) /\ RoundTrips(sym, Bytes(full))
                          /\ Canonical(sym, Bytes(p)) = Bytes(full)
                          /\ \A d \in 0..9 : d # full[Len(full)] => Domain(sym, Bytes(Append(p, d)), "") = "reject"
                          /\ Domain(sym, Bytes(SubSeq(p, 2, Len(p))), "") = "reject" /\ Domain(sym, Bytes(full \o <<0>>), "") = "reject"
                          /\ \A i \in 1..Len(p) : Domain(sym, [Bytes(p) EXCEPT ![i] = 65], "") = "reject"
    [] OTHER -> FALSE

(* ------------------------------------------------------------------ generation *)
GenCase(s) ==     \* s: [sym, c, wide]
  LET rsym == ReaderOf(s.sym, s.c) IN
  [op |-> "read", sym |-> rsym, c |-> Canonical(s.sym, s.c),
   runs |-> IF s.sym = "ITF" THEN ITFRuns(UnBytes(s.c), s.wide) ELSE SymbolOf(s.sym, s.c)]

NGroups == 32
Init == lvl = 0 /\ grp = 0 /\ job = 0
NJ == IF Mode = "gen" THEN Len(Seeds) ELSE Len(JobSeq)
Fan == /\ lvl = 0 /\ lvl' = 1 /\ grp' \in 1..NGroups /\ job' = 0
Work == /\ lvl = 1 /\ lvl' = 2 /\ grp' = grp
        /\ job' \in {k \in 1..NJ : (k % NGroups) + 1 = grp}
        /\ (Mode = "gen") => PrintT(<<"GEN", ToJson(GenCase(Seeds[job']))>>)
Next == Fan \/ Work
Spec == Init /\ [][Next]_vars
Laws == (Mode = "laws" /\ lvl = 2) => JobOK(JobSeq[job])
=============================================================================
