-------------------------------- MODULE MC_GF --------------------------------
(* Design check of GF.tla for one field Fid: TLC proves that the eager exp/log tables are sound (alpha = 2 is      *)
(* primitive, log inverts exp) and that the table product, inverse and exp(log) agree with carry-less              *)
(* multiplication modulo the primitive polynomial for every row a in Rows and EVERY b.  The state graph is a       *)
(* three-level tree (root -> 16 groups -> rows) only so that the rows are spread over the TLC workers.             *)
EXTENDS GF
CONSTANTS Fid, Rows
VARIABLES lvl, idx
vars == <<lvl, idx>>
AllRows == 0..(Q(Fid) - 1)
Init == lvl = 0 /\ idx = 0
Next == \/ lvl = 0 /\ lvl' = 1 /\ idx' \in 0..15
        \/ lvl = 1 /\ lvl' = 2 /\ idx' \in {a \in Rows : (a % 16) = idx}
Spec == Init /\ [][Next]_vars
Sound == /\ lvl = 0 => TablesSound(Fid)
         /\ lvl = 2 => RowSound(Fid, idx)
=============================================================================
