SPECIFICATION Spec
CONSTANTS
  Strings <- MCStrings
INVARIANT Laws
PROPERTY AppendOnly
CHECK_DEADLOCK FALSE
