SPECIFICATION Spec
CONSTANTS
  MaxDepth = 14
CHECK_DEADLOCK FALSE
