------------------------------ MODULE MC_RSS14 ------------------------------
(* Design check of RSS14.tla and generator of reference symbols.                                                    *)
(*  MC_RSS14.cfg  (Mode = "laws"): one state per job.                                                                *)
(*     "tables"  the subset sizes reproduce the standard's tables (outside even totals 1 10 34 70 126, inside odd      *)
(*               totals 4 20 48 81), the group sums are the running sums of |odd subset| * |even subset| and end at    *)
(*               2841 = 4537077 div 1597 + 1 and 1597; the weights are 3^k mod 79; 4537077 = 2841 * 1597              *)
(*     <<"out", v>> / <<"in", v>>  every character value: eight elements of 16 / 15 modules, each 1..8 wide, and the    *)
(*               declarative reader returns the value (Unrank and Rank are inverse on every subset)                    *)
(*     <<"sym", k>>  seeded digit strings: 46 elements, 96 modules, read back to the four characters and to finder      *)
(*               patterns that announce the check value                                                                *)
(*  Gen_RSS14.cfg (Mode = "gen"): prints the symbol (46 run lengths) and the expected text of every requested digit    *)
(*     string (seeds.ndjson) for replay on the real reader.                                                            *)
EXTENDS RSS14, Json
CONSTANTS Mode, OutStep, InStep
Seeds == IF Mode = "gen" THEN ndJsonDeserialize("seeds.ndjson") ELSE <<>>
VARIABLE job
SampleDigits(k) == [i \in 1..13 |-> ((k * 7919 + i * i * 31 + (k \div 3) * i) % 10)]
Jobs == IF Mode = "gen" THEN {<<"gen", k>> : k \in 1..Len(Seeds)}
        ELSE {<<"tables", 0>>} \cup {<<"out", v>> : v \in {x \in 0..2840 : x % OutStep = 0 \/ x \in {160, 161, 960, 961, 2014, 2015, 2714, 2715, 2840}}}
             \cup {<<"in", v>> : v \in {x \in 0..1596 : x % InStep = 0 \/ x \in {335, 336, 1035, 1036, 1515, 1516, 1596}}}
             \cup {<<"sym", k>> : k \in 1..40}
Init == job \in Jobs
Next == job' = job /\ FALSE
Spec == Init /\ [][Next]_job

Tables ==
  /\ [g \in 0..4 |-> OutTeven(g)] = [g \in 0..4 |-> <<1, 10, 34, 70, 126>>[g + 1]]
  /\ [g \in 0..3 |-> InOddSubsetSize(g)] = [g \in 0..3 |-> <<4, 20, 52, 100>>[g + 1]] /\ \A g \in 0..3 : InTodd(g) <= InOddSubsetSize(g)
  /\ [g \in 0..3 |-> InTeven(g)] = [g \in 0..3 |-> <<84, 35, 10, 1>>[g + 1]]
  /\ [g \in 0..4 |-> OutTodd(g)] = [g \in 0..4 |-> <<161, 80, 31, 10, 1>>[g + 1]]
  /\ \A g \in 0..3 : OutGsum[g + 2] = OutGsum[g + 1] + OutTodd(g) * OutTeven(g)
  /\ OutGsum[5] + OutTodd(4) * OutTeven(4) = 2841
  /\ \A g \in 0..2 : InGsum[g + 2] = InGsum[g + 1] + InTodd(g) * InTeven(g)
  /\ InGsum[4] + InTodd(3) * InTeven(3) = 1597
  /\ 2841 * 1597 = 4537077
  /\ [c \in 1..4 |-> [e \in 1..8 |-> Weight(c, e)]] =
       << <<1, 3, 9, 27, 2, 6, 18, 54>>, <<4, 12, 36, 29, 8, 24, 72, 58>>, <<16, 48, 65, 37, 32, 17, 51, 74>>, <<64, 34, 23, 69, 49, 68, 46, 59>> >>
  /\ \A cv \in 0..78 : LET fp == FinderPair(cv) IN fp[1] \in 0..8 /\ fp[2] \in 0..8
  /\ Cardinality({FinderPair(cv) : cv \in 0..78}) = 79
  /\ \A k \in 1..9 : SumTo(Finders[k], 5) = 15
CharLaw(el, n) == /\ Len(el) = 8 /\ SumTo(el, 8) = n /\ \A i \in 1..8 : el[i] \in 1..8
SymLaw(ds) ==
  LET r == Symbol(ds)  cs == Chars(ds)  back == ReadBack(r)
      els == <<SubSeq(r, 3, 10), Rev(SubSeq(r, 16, 23)), Rev(SubSeq(r, 37, 44)), SubSeq(r, 24, 31)>>
  IN /\ Len(r) = 46 /\ SumTo(r, 46) = 96
     /\ <<back[1], back[2], back[3], back[4]>> = cs
     /\ <<back[5], back[6]>> = FinderPair(CheckValue(els))
     /\ cs[1] \in 0..2840 /\ cs[3] \in 0..2840 /\ cs[2] \in 0..1596 /\ cs[4] \in 0..1596
Law ==
  CASE job[1] = "tables" -> Tables
    [] job[1] = "out" -> CharLaw(OutsideChar(job[2]), 16) /\ OutsideValue(OutsideChar(job[2])) = job[2]
    [] job[1] = "in" -> CharLaw(InsideChar(job[2]), 15) /\ InsideValue(InsideChar(job[2])) = job[2]
    [] job[1] = "sym" -> SymLaw(SampleDigits(job[2])) /\ SymLaw([i \in 1..13 |-> IF job[2] % 2 = 0 THEN 9 ELSE 0])
    [] job[1] = "gen" -> LET ds == Seeds[job[2]].ds IN
                         ValidDigits(ds) /\ PrintT(<<"GEN", ToJson([k |-> job[2], ds |-> ds, runs |-> Symbol(ds), text |-> Text(ds)])>>)
=============================================================================
