----------------------------- MODULE MC_Render -----------------------------
(* Design-level check of Render.tla and generation of boundary cases.                                            *)
(*  MC_Render.cfg  - for every module count n, quiet-module count q and requested size req of the scope the        *)
(*                   lemmas the property names hold on one axis: the image is max(req, n+q); the module size is    *)
(*                   the largest integer that fits; the symbol lies inside the image; the leftover is split evenly; *)
(*                   at least the configured quiet zone remains (shared: q in total; per side: q/2 on each side);  *)
(*                   the centre (and both ends) of every module block sample that module.  Lemmas2D: the same for  *)
(*                   the two-axis geometries (one module size, the smaller one) and the Data Matrix fit rule.       *)
(*  Gen_Render.cfg - for every symbol of syms.json (format, module counts measured on the real encoder) and every   *)
(*                   margin TLC prints the requested sizes that sit on, just below and just above the multiples of  *)
(*                   (n + q): the places where the three integer divisions change value.                           *)
EXTENDS Render, Json, FiniteSets
CONSTANTS NMax, QMax, ReqMax, K
VARIABLES n, q, req, mode
vars == <<n, q, req, mode>>

(* ---- lemma machine *)
InitL == n \in 1..NMax /\ q \in 0..QMax /\ req = 0 /\ mode = "lemma"
NextL == mode = "lemma" /\ req < ReqMax /\ req' = req + 1 /\ UNCHANGED <<n, q, mode>>
SpecL == InitL /\ [][NextL]_vars

Lemmas ==
  LET out == Out(req, n, q)  s == Scale(out, n, q)  pad == Pad(out, n, s)  rest == out - (n * s) - pad IN
  /\ out >= req /\ out >= n + q /\ (out = req \/ out = n + q)
  /\ s >= 1 /\ (n + q) * s <= out /\ (n + q) * (s + 1) > out
  /\ pad >= 0 /\ pad + (n * s) <= out
  /\ rest - pad \in {0, 1}
  /\ pad + rest >= q * s                                                   \* shared margin (1-D)
  /\ (q % 2 = 0) => (pad >= (q \div 2) * s /\ rest >= (q \div 2) * s)      \* margin on every side (2-D)
  /\ \A i \in 0..(n - 1) : /\ ModuleAt(pad + (i * s) + (s \div 2), pad, s, n) = i
                           /\ ModuleAt(pad + (i * s), pad, s, n) = i
                           /\ ModuleAt(pad + (i * s) + s - 1, pad, s, n) = i
  /\ ModuleAt(pad - 1, pad, s, n) = -1 /\ ModuleAt(pad + (n * s), pad, s, n) = -1

\* two axes (checked once, small scope): one module size for both axes, every side keeps the margin; Data Matrix rule
Lemmas2D ==
  \A nn \in {1, 2, 5, 8} : \A nh \in {nn, nn + 3} : \A m \in {0, 1, 3} : \A rw \in 0..45 : \A rh \in 0..45 :
    LET g == Geom("qr", nn, nh, rw, rh, m)  d == Geom("dm", nn, nh, rw, rh, 0)  o == Geom("1d", nn, 1, rw, rh, m) IN
    /\ g.ow = Max2(rw, nn + (2 * m)) /\ g.oh = Max2(rh, nh + (2 * m)) /\ g.sx = g.sy /\ g.sx >= 1
    /\ (nn + (2 * m)) * g.sx <= g.ow /\ (nh + (2 * m)) * g.sx <= g.oh
    /\ ((nn + (2 * m)) * (g.sx + 1) > g.ow \/ (nh + (2 * m)) * (g.sx + 1) > g.oh)
    /\ g.px >= m * g.sx /\ g.ow - g.px - (nn * g.sx) >= m * g.sx /\ g.py >= m * g.sx /\ g.oh - g.py - (nh * g.sx) >= m * g.sx
    /\ (g.ow - g.px - (nn * g.sx)) - g.px \in {0, 1} /\ (g.oh - g.py - (nh * g.sx)) - g.py \in {0, 1}
    /\ IF rw >= nn /\ rh >= nh THEN d.ow = rw /\ d.oh = rh /\ d.px + (nn * d.sx) <= rw /\ d.py + (nh * d.sx) <= rh /\ d.sx >= 1
                                    /\ (nn * (d.sx + 1) > rw \/ nh * (d.sx + 1) > rh)
       ELSE d.ow = nn /\ d.oh = nh /\ d.sx = 1 /\ d.px = 0 /\ d.py = 0
    /\ o.oh = Max2(rh, 1) /\ o.sy = o.oh /\ o.py = 0 /\ o.ow = Max2(rw, nn + m)
    /\ \A y \in 0..(o.oh - 1) : RowKey(o, 1, y) = 1
ASSUME Lemmas2D

(* ---- boundary-case generator *)
Syms == JsonDeserialize("syms.json")        \* sequence of [fmt, nw, nh]
Margins(sy) == IF ClassOf(sy.fmt) = "dm" THEN {-1} ELSE IF sy.nw * sy.nh > 900 THEN {-1, 0, 3} ELSE {-1, 0, 1, 2, 4, 7, 20}
Around(u) == {0} \cup {x \in {(k * u) + d : k \in 1..K, d \in {-1, 0, 1}} : x >= 0}
Cases(sy, m) ==
  LET cls == ClassOf(sy.fmt)
      mm  == IF m = -1 THEN DefaultMargin(sy.fmt) ELSE m
      qq  == IF cls = "qr" THEN 2 * mm ELSE IF cls = "1d" THEN mm ELSE 0
      ws  == Around(sy.nw + qq)
      hs  == IF cls = "1d" THEN {0, 1, 2, 5} ELSE Around(sy.nh + qq)
  IN {[fmt |-> sy.fmt, nw |-> sy.nw, nh |-> sy.nh, margin |-> m, rw |-> w, rh |-> h] : w \in ws, h \in hs}
InitG == n \in 1..Len(Syms) /\ q \in Margins(Syms[n]) /\ req = 0 /\ mode = "gen"
NextG == /\ mode = "gen" /\ req = 0
         /\ PrintT(<<"GEN", ToJson(Cases(Syms[n], q))>>)
         /\ req' = 1 /\ UNCHANGED <<n, q, mode>>
SpecG == InitG /\ [][NextG]_vars
=============================================================================
