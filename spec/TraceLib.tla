------------------------------ MODULE TraceLib ------------------------------
(* Shared skeleton of every Trace_*.tla: the recorded events of the real code are consumed one by one;   *)
(* an event the specification cannot explain is recorded in `bad` (with its index) and validation goes   *)
(* on from the logged state, so that one run judges every event.  At the end bad.json is written.        *)
EXTENDS Integers, Sequences, TLC, Json
Tr == ndJsonDeserialize("trace.ndjson")
NEv == Len(Tr)
WriteBad(l, bad) == JsonSerialize("bad.json", [n |-> l - 1, bad |-> bad])
Has(e, f) == f \in DOMAIN e
=============================================================================
