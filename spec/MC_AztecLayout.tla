-------------------------- MODULE MC_AztecLayout --------------------------
(* Design check of the structural part of spec/Aztec.tla (the oracle itself), one TLC state per job:            *)
(*  size   for each of the 36 symbol sizes: the side length is the one tabulated in ISO/IEC 24778, the layer     *)
(*         spiral is a bijection between message bit positions and the modules that are neither core nor         *)
(*         reference grid, the capacity is (88+16L)L / (112+16L)L bits, mode-message and orientation modules     *)
(*         are distinct modules of the mode ring off the reference grid                                          *)
(*  mode   for every (layers, data codewords) header of a symbol class: the mode message is a codeword of the    *)
(*         (7,2) / (10,4) Reed-Solomon code over GF(16) (vanishes at alpha^1..alpha^r) carrying the header       *)
(*  field  table-driven multiplication = shift-and-add multiplication modulo the primitive polynomial;           *)
(*         alpha generates the multiplicative group                                                              *)
(*  rs     data \o Parity(data) vanishes at alpha^1..alpha^r for sample word lists in every field                *)
(* Jobs hang in a binary tree below job 1 so that TLC's workers share them.                                      *)
EXTENDS Aztec
CONSTANTS Deep      \* TRUE: thorough (more multiplication pairs, all jobs); FALSE: quick
VARIABLE job
SizeJobs == [k \in 1..36 |-> IF k <= 4 THEN <<"size", 1, k>> ELSE <<"size", 0, k - 4>>]
ModeJobs == [k \in 1..36 |-> IF k <= 4 THEN <<"mode", 1, k>> ELSE <<"mode", 0, k - 4>>]
FieldJobs == << <<"field", 4, 0>>, <<"field", 6, 0>>, <<"field", 8, 0>>, <<"field", 10, 0>>, <<"field", 12, 0>> >>
RsJobs == << <<"rs", 4, 2, 5>>, <<"rs", 4, 4, 6>>, <<"rs", 6, 5, 12>>, <<"rs", 6, 30, 18>>, <<"rs", 8, 40, 36>>,
             <<"rs", 8, 3, 73>>, <<"rs", 10, 20, 11>>, <<"rs", 10, 60, 40>>, <<"rs", 12, 15, 9>>, <<"rs", 12, 50, 30>> >>
Jobs == SizeJobs \o ModeJobs \o FieldJobs \o RsJobs
NJobs == Len(Jobs)

FullSizes == <<19, 23, 27, 31, 37, 41, 45, 49, 53, 57, 61, 67, 71, 75, 79, 83, 87, 91, 95, 101, 105, 109, 113, 117, 121,
               125, 131, 135, 139, 143, 147, 151>>
CompactSizes == <<15, 19, 23, 27>>
SizeOK(c, layers) ==
  LET sz == Size(c, layers)
      sp == Spiral(c, layers)
      cells == {sp[q] : q \in 1..Len(sp)}
      free == {<<x, y>> \in (0..sz-1) \X (0..sz-1) : ~IsFunction(c, layers, x, y)}
      modeCells == {ModeCell(c, layers, q) : q \in 0..(4*ModeLen(c))-1}
      ctr == Center(c, layers)
  IN /\ sz = (IF c = 1 THEN CompactSizes[layers] ELSE FullSizes[layers])
     /\ Len(sp) = TotalBits(c, layers)
     /\ TotalBits(c, layers) = ((IF c = 1 THEN 88 ELSE 112) + (16 * layers)) * layers
     /\ Cardinality(cells) = Len(sp)                   \* no module is used twice
     /\ cells = free                                   \* exactly the modules outside core and reference grid
     /\ Cardinality(modeCells) = 4 * ModeLen(c)
     /\ modeCells \cap OrientCells(c, layers) = {}
     /\ \A m \in modeCells \cup OrientCells(c, layers) :
           /\ Max2(Abs(m[1] - ctr), Abs(m[2] - ctr)) = CoreR(c)
           /\ c = 0 => m[1] # ctr /\ m[2] # ctr
     \* the four sides of the spiral are quarter turns of each other: turning the module of bit q of a layer clockwise
     \* by 90 degrees about the centre gives the module of the same position on the following side ... of layer 0
     /\ LET rs == RowSize(c, layers, 0) IN
        \A q \in 1..(6*rs) : LET a == sp[q]  b == sp[q + (2*rs)] IN b = <<a[2], sz - 1 - a[1]>>
ModeOK(c, layers) ==
  \A nd \in 1..(IF c = 1 THEN 64 ELSE 2048) :
     LET w == ModeWords(c, layers, nd)
         hdr == Cat([k \in 1..(IF c = 1 THEN 2 ELSE 4) |-> BitsOf(w[k], 4)])
     IN /\ Len(w) = (IF c = 1 THEN 7 ELSE 10)
        /\ IsCodeword(F4, w, IF c = 1 THEN 5 ELSE 6)
        /\ IF c = 1 THEN ValAt(hdr, 1, 2, 0) = layers - 1 /\ ValAt(hdr, 3, 6, 0) = nd - 1
           ELSE ValAt(hdr, 1, 5, 0) = layers - 1 /\ ValAt(hdr, 6, 11, 0) = nd - 1
        /\ Len(ModeBits(c, layers, nd)) = 4 * ModeLen(c)
\* second factors paired with every first factor: all of them for the small fields (thorough: also GF(1024)), samples else
Seconds(m) == LET n == (2^m) - 1 IN
  IF m <= 8 \/ (Deep /\ m = 10) THEN 1..n
  ELSE {1, 2, 3, n, n-1, (n+1) \div 2} \cup {((k*k*7) % n) + 1 : k \in 1..(IF Deep THEN 60 ELSE 12)}
FieldOK(m) == LET f == FieldFor(m) IN
  /\ Cardinality({f.ex[i] : i \in 1..f.n}) = f.n /\ f.ex[1] = 1 /\ f.ex[2] = 2
  /\ \A a \in 1..f.n : \A b \in Seconds(m) : Mul(f, a, b) = SlowMul(a, b, m, 0)
RsOK(ws, k, r) == LET f == FieldFor(ws)
                      data == [i \in 1..k |-> ((i * i * 29) + (7 * i) + r) % (2^ws)]
                      cw == CheckWords(f, data, k + r)
                  IN Len(cw) = k + r /\ SubSeq(cw, 1, k) = data /\ IsCodeword(f, cw, r)
                     /\ ~IsCodeword(f, [cw EXCEPT ![1] = (@ + 1) % (2^ws)], r)
JobOK(j) == CASE j[1] = "size" -> SizeOK(j[2], j[3])
              [] j[1] = "mode" -> ModeOK(j[2], j[3])
              [] j[1] = "field" -> FieldOK(j[2])
              [] j[1] = "rs" -> RsOK(j[2], j[3], j[4])
Init == job = 1
Next == \E k \in {2*job, (2*job) + 1} : k <= NJobs /\ job' = k
Spec == Init /\ [][Next]_job
AllJobsOK == JobOK(Jobs[job])
=============================================================================
