---------------------------- MODULE Gen_BitSource ----------------------------
(* Behaviour generation for X04 (the other direction of the binding): TLC simulates the BitSource machine and prints each      *)
(* behaviour as a JSON history of calls WITH the answers and cursor the specification expects; the driver replays the calls   *)
(* on the real object and every field must agree.                                                                            *)
EXTENDS BitSource, TLC, Json
CONSTANT MaxDepth
VARIABLES bytes, pos, hist, depth
vars == <<bytes, pos, hist, depth>>
GenStrings == {<<>>, <<255>>, <<0, 255, 0>>, <<165, 90, 195, 60>>, <<18, 52, 86, 120, 154, 188, 222, 240, 1>>,
               <<128, 0, 0, 0, 1, 255, 255, 255, 254, 127, 64, 32, 16>>}
Ev(op, b, n, r, p) == [op |-> op, bytes |-> b, n |-> n, err |-> r.err, hi |-> r.hi, lo |-> r.lo,
                       bo |-> ByteOffset(p), bi |-> BitOffset(p), av |-> Available(bytes, p)]
Init == /\ bytes \in GenStrings /\ pos = 0 /\ depth = 0
        /\ hist = <<[op |-> "new", bytes |-> bytes, n |-> 0, err |-> 0, hi |-> 0, lo |-> 0, bo |-> 0, bi |-> 0, av |-> NBits(bytes)]>>
ReadN == /\ depth < MaxDepth
         /\ \E n \in {-1, 0, 33, 34} \cup (1..32) \cup (1..9) :          \* short reads twice as likely
              LET r == Read(bytes, pos, n) IN
              /\ pos' = r.pos /\ hist' = Append(hist, Ev("read", <<>>, n, r, r.pos))
         /\ depth' = depth + 1 /\ UNCHANGED bytes
Emit == /\ depth = MaxDepth /\ PrintT(<<"GEN", ToJson(hist)>>) /\ depth' = depth + 1 /\ UNCHANGED <<bytes, pos, hist>>
Next == ReadN \/ Emit
Spec == Init /\ [][Next]_vars
=============================================================================
