----------------------------- MODULE Trace_Points -----------------------------
(* X05: recorded calls of the real ResultPoint_OrderBestPatterns (integer-valued coordinates) judged by Points.tla.          *)
EXTENDS Points, TraceLib
VARIABLES l, bad
vars == <<l, bad>>
Init == l = 1 /\ bad = <<>>
Next == /\ l <= NEv /\ l' = l + 1
        /\ LET e == Tr[l] IN
           bad' = IF e.op # "order" \/ Len(e.p) # 3 THEN Append(bad, <<l, "premise">>)
                  ELSE IF e.panic = 1 THEN Append(bad, <<l, "panic">>)
                  ELSE IF Len(e.o) = 3 /\ e.exact = 1 /\ OrderOK(e.p, e.o) THEN bad
                  ELSE Append(bad, <<l, IF Len(e.o) = 3 /\ e.exact = 1 /\ IsRearrangement(e.p, e.o) THEN "order" ELSE "points">>)
Spec == Init /\ [][Next]_vars
Done == l = NEv + 1 => WriteBad(l, bad)
=============================================================================
