---------------------------- MODULE Trace_Check ----------------------------
(* Trace validation for C10: every recorded call of a real oned reader / writer is judged against Check.tla.    *)
(*  read  : the symbol (run lengths) that was painted must be the one the spec builds for the carried characters  *)
(*          (integrity of the generated case), and the reader's answer must be what the reference reader allows:   *)
(*          forward reading, else reading of the reversed row (orientation 180), else an error.                   *)
(*  write : the writer must refuse exactly the contents WriterSpec refuses and otherwise produce the symbol with  *)
(*          the standard's check digit; for Code 128 / Code 93 the produced symbol must verify and decode to the  *)
(*          content under the reference reader.                                                                  *)
(*  mask  : for cnt consecutive payloads exactly the standard's check digit is accepted, and the symbol written    *)
(*          for the bare payload is the symbol written for payload + check digit.                                 *)
(* bad entries: <<index, class, reason, ...>> ; class "tolerated" is counted, not rejected.                        *)
EXTENDS Check, TraceLib
VARIABLES l, bad
vars == <<l, bad>>

IsSeqOf(s, S) == DOMAIN s = 1..Len(s) /\ \A i \in 1..Len(s) : s[i] \in S
ShapeRead(e) == /\ IsSeqOf(e.runs, 1..400) /\ IsSeqOf(e.n, 0..200) /\ IsSeqOf(e.text, 0..255) /\ IsSeqOf(e.ext, 0..255)
                /\ e.err \in {0, 1} /\ e.orient \in {0, 180} /\ e.panic \in {0, 1}

JudgeRead(e) ==
  IF ~ShapeRead(e) THEN << <<"reject", "ill-shaped observation">> >>
  ELSE IF e.panic = 1 THEN << <<"reject", "reader panicked">> >>
  ELSE LET main == SymRuns(e.sym, e.n)
           want == IF e.ad = <<>> THEN main ELSE WithAddOn(main, e.gap, AddOnRuns(e.ad, e.ap))
       IN IF e.runs # want THEN << <<"reject", "generated symbol is not the spec's symbol for its characters">> >>
          ELSE IF e.ad = <<>> THEN
                 LET v == ReadVerdict(ReaderFor(e.sym, e.rd), e.runs, e.err, e.text, e.orient) IN
                 IF v = "ok" THEN (IF e.err = 0 /\ e.ext # <<>> THEN << <<"reject", "add-on reported where there is none">> >> ELSE <<>>)
                 ELSE IF v = "tolerated" THEN << <<"tolerated", "tolerant reading of the reversed row">> >>
                 ELSE << <<"reject", v>> >>
          ELSE \* valid main symbol followed by an add-on
               LET m == SubSeq(e.runs, 1, MainRuns(e.sym))
                   v == ReadVerdict(ReaderFor(e.sym, e.rd), m, e.err, e.text, e.orient)
                   a == AddOnVerdict(e.runs, MainRuns(e.sym) + 2, Len(e.ad), e.ext)
               IN (IF v = "ok" THEN <<>> ELSE << <<"reject", v>> >>) \o (IF a = "ok" \/ e.err = 1 THEN <<>> ELSE << <<"reject", a>> >>)

ShapeWrite(e) == IsSeqOf(e.c, 0..255) /\ IsSeqOf(e.runs, 1..400) /\ e.err \in {0, 1} /\ e.panic \in {0, 1}
JudgeWrite(e) ==
  IF ~ShapeWrite(e) THEN << <<"reject", "ill-shaped observation">> >>
  ELSE IF e.panic = 1 THEN << <<"reject", "writer panicked">> >>
  ELSE IF e.sym \in {"C128", "C93"} THEN
         (IF e.err = 1 THEN << <<"reject", "content refused">> >>
          ELSE LET x == ReadSym(e.sym, e.runs) IN
               IF e.lead = 0 /\ e.trail = 0 /\ x.ok /\ x.text = e.c THEN <<>>
               ELSE << <<"reject", "written symbol does not carry the content with verifying check characters">> >>)
  ELSE LET w == WriterSpec(e.sym, e.c) IN
       IF ~w.ok THEN (IF e.err = 1 THEN <<>> ELSE << <<"reject", "content with wrong length, foreign character or wrong check digit accepted">> >>)
       ELSE IF e.err = 1 THEN << <<"reject", "valid content refused">> >>
       ELSE IF e.lead = 0 /\ e.trail = 0 /\ e.runs = SymRuns(e.sym, w.n) THEN <<>>
       ELSE LET cc == CarriedCheck(e.sym, e.runs)
                p == SubSeq(UnBytes(e.c), 1, SymLen(e.sym) - 1) IN
            << <<"reject", "written symbol is not the standard's symbol with the standard's check digit", cc,
                 IF e.sym = "UPCE" /\ cc = Check10(p) /\ e.runs = SymRuns(e.sym, Append(p, cc))
                 THEN "check digit computed on the unexpanded UPC-E digits" ELSE "other">> >>

ShapeMask(e) == /\ IsSeqOf(e.base, 0..9) /\ Len(e.base) = SymLen(e.sym) - 1 /\ e.cnt \in 1..5000 /\ e.panic \in {0, 1}
                /\ IsSeqOf(e.m, 0..1023) /\ IsSeqOf(e.s, {0, 1}) /\ Len(e.m) = e.cnt /\ Len(e.s) = e.cnt
JudgeMask(e) ==
  IF ~ShapeMask(e) THEN << <<"reject", "ill-shaped observation">> >>
  ELSE IF e.panic = 1 THEN << <<"reject", "writer panicked">> >>
  ELSE LET ck(i) == LET p == BlockPayload(e.base, i) IN
                    IF e.sym = "UPCE" THEN (IF p[1] \in {0, 1} THEN CheckUPCE(p) ELSE -1) ELSE Check10(p)
           cks == TLCEval([i \in 1..e.cnt |-> ck(i)])
           badM == {i \in 1..e.cnt : e.m[i] # (IF cks[i] < 0 THEN 0 ELSE 2 ^ cks[i])}
           badS == {i \in 1..e.cnt : cks[i] >= 0 /\ e.s[i] # 1}
           first(S) == CHOOSE i \in S : \A k \in S : i <= k
       IN (IF badM = {} THEN <<>> ELSE << <<"reject", "accepted check digits are not exactly the standard's", first(badM), e.m[first(badM)], Cardinality(badM)>> >>)
          \o (IF badS = {} THEN <<>> ELSE << <<"reject", "symbol for the bare payload differs from the symbol with the accepted check digit", first(badS), 0, Cardinality(badS)>> >>)

Judge(e) == CASE e.op = "read" -> JudgeRead(e) [] e.op = "write" -> JudgeWrite(e) [] e.op = "mask" -> JudgeMask(e)
              [] OTHER -> << <<"reject", "unknown op">> >>
Init == l = 1 /\ bad = <<>>
Next == /\ l <= NEv
        /\ l' = l + 1
        /\ LET v == Judge(Tr[l]) IN bad' = bad \o [i \in 1..Len(v) |-> <<l>> \o v[i]]
Spec == Init /\ [][Next]_vars
Done == l = NEv + 1 => WriteBad(l, bad)
=============================================================================
