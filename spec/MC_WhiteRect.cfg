SPECIFICATION Spec
CONSTANTS
  W = 7
  H = 6
INVARIANT Laws
PROPERTY Grows
PROPERTY Ends
CHECK_DEADLOCK FALSE
