SPECIFICATION Spec
CONSTANTS
  Heights = {1, 2, 3, 4, 5, 40, 70}
  Texts <- MCTexts
INVARIANT Laws
CHECK_DEADLOCK FALSE
