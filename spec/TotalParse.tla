----------------------------- MODULE TotalParse -----------------------------
(* C06: the three bit-stream parsers as TOTAL automata: every codeword / bit sequence whatsoever is mapped to an    *)
(* outcome class                                                                                                     *)
(*     "ok"      the stream is a well-formed message (possibly cut short by the end of the symbol where the           *)
(*               standard lets a message end there): the parser must return a result                                 *)
(*     "format"  the stream cannot be a message: a reserved mode indicator, a count field or a segment running past  *)
(*               the end of the data, a digit group / character value outside its range, an ECI designator that      *)
(*               names no supported character set, a reserved codeword: the parser must return a FormatError         *)
(*     "any"     the standards used here do not determine the class (leniencies and gaps: structured append /        *)
(*               reader programming / ECI codewords in Data Matrix, a C40 pair of value 0, shift-within-shift in     *)
(*               Aztec, ...): any total outcome is accepted                                                          *)
(* together with a label `why` naming the branch that decided (used for coverage accounting only).  Every bounds     *)
(* check is an explicit branch.  Written from ISO/IEC 18004 (7.4 data encodation, modes, ECI 7.4.2), ISO/IEC 16022    *)
(* (5.2 encodation schemes, Annex B randomising) and ISO/IEC 24778 (7.3 code tables, FLG(n)); GB/T 18284 Hanzi mode.  *)
(* Only positions and values that decide the class are computed - the decoded text is the business of C01/C02/C11.   *)
EXTENDS Charset

(* ------------------------------------------------------------------ bytes as a bit stream (MSB first, 0-based bit index) *)
TPBit(c, b) == (c[(b \div 8) + 1] \div (2^(7 - (b % 8)))) % 2
RECURSIVE TPRead(_,_,_,_)
TPRead(c, b, n, acc) == IF n = 0 THEN acc ELSE TPRead(c, b + 1, n - 1, (acc * 2) + TPBit(c, b))
TPAvail(c, b) == (8 * Len(c)) - b
Out(cls, why) == [cls |-> cls, why |-> why]

\* AIM ECI assignment numbers of the character sets the library supports, as a literal (MC_Totality proves it equal
\* to the registry of Charset.tla)
RegisteredECI == {0, 1, 2, 3, 4, 5, 6, 7, 9, 11, 15, 17, 18, 20, 21, 22, 23, 24, 25, 26, 27, 28, 29, 30, 170}
ECISupported(v) == v \in RegisteredECI

(* ================================================================== QR Code (ISO/IEC 18004 7.4) *)
\* version classes 1: versions 1-9, 2: 10-26, 3: 27-40 (Table 3: bits of the character count indicator)
QRVClass(v) == IF v <= 9 THEN 1 ELSE IF v <= 26 THEN 2 ELSE 3
QRCount(mode, k) == CASE mode = 1 -> <<10, 12, 14>>[k] [] mode = 2 -> <<9, 11, 13>>[k] [] mode = 4 -> <<8, 16, 16>>[k]
                      [] mode = 8 -> <<8, 10, 12>>[k] [] mode = 13 -> <<8, 10, 12>>[k]
QRModes == {0, 1, 2, 3, 4, 5, 7, 8, 9, 13}     \* terminator, numeric, alphanumeric, structured append, byte, FNC1 (1st), ECI, Kanji, FNC1 (2nd), Hanzi
\* numeric payload: groups of 3 digits in 10 bits (< 1000), 2 in 7 (< 100), 1 in 4 (< 10); returns the new position or -1
RECURSIVE QRNum(_,_,_)
QRNum(c, b, n) ==
  IF n >= 3 THEN (IF TPAvail(c, b) < 10 \/ TPRead(c, b, 10, 0) >= 1000 THEN -1 ELSE QRNum(c, b + 10, n - 3))
  ELSE IF n = 2 THEN (IF TPAvail(c, b) < 7 \/ TPRead(c, b, 7, 0) >= 100 THEN -1 ELSE b + 7)
  ELSE IF n = 1 THEN (IF TPAvail(c, b) < 4 \/ TPRead(c, b, 4, 0) >= 10 THEN -1 ELSE b + 4)
  ELSE b
\* alphanumeric payload: pairs in 11 bits (first character < 45), a single one in 6 bits (< 45)
RECURSIVE QRAln(_,_,_)
QRAln(c, b, n) ==
  IF n >= 2 THEN (IF TPAvail(c, b) < 11 \/ (TPRead(c, b, 11, 0) \div 45) >= 45 THEN -1 ELSE QRAln(c, b + 11, n - 2))
  ELSE IF n = 1 THEN (IF TPAvail(c, b) < 6 \/ TPRead(c, b, 6, 0) >= 45 THEN -1 ELSE b + 6)
  ELSE b
\* guess = a byte segment was met while no ECI was in effect (its character set then comes from the hint / a guess)
RECURSIVE QRFrom(_,_,_,_,_)
QRFrom(c, b, k, eci, guess) ==
  IF TPAvail(c, b) < 4 THEN [cls |-> "ok", why |-> "qr.end-of-data", guess |-> guess]
  ELSE LET mode == TPRead(c, b, 4, 0)  b1 == b + 4
           bad(w) == [cls |-> "format", why |-> w, guess |-> guess] IN
    IF mode \notin QRModes THEN bad("qr.reserved-mode")
    ELSE IF mode = 0 THEN [cls |-> "ok", why |-> "qr.terminator", guess |-> guess]
    ELSE IF mode \in {5, 9} THEN QRFrom(c, b1, k, eci, guess)
    ELSE IF mode = 3 THEN (IF TPAvail(c, b1) < 16 THEN bad("qr.structured-append-truncated") ELSE QRFrom(c, b1 + 16, k, eci, guess))
    ELSE IF mode = 7 THEN
       IF TPAvail(c, b1) < 8 THEN bad("qr.eci-truncated")
       ELSE LET f == TPRead(c, b1, 8, 0) IN
         IF f < 128 THEN (IF ECISupported(f) THEN QRFrom(c, b1 + 8, k, TRUE, guess) ELSE bad("qr.eci-unsupported"))
         ELSE IF f < 192 THEN (IF TPAvail(c, b1 + 8) < 8 THEN bad("qr.eci-truncated")
                               ELSE IF ECISupported(((f % 64) * 256) + TPRead(c, b1 + 8, 8, 0)) THEN QRFrom(c, b1 + 16, k, TRUE, guess)
                               ELSE bad("qr.eci-unsupported"))
         ELSE IF f < 224 THEN (IF TPAvail(c, b1 + 8) < 16 THEN bad("qr.eci-truncated")
                               ELSE IF ECISupported(((f % 32) * 65536) + TPRead(c, b1 + 8, 16, 0)) THEN QRFrom(c, b1 + 24, k, TRUE, guess)
                               ELSE bad("qr.eci-unsupported"))
         ELSE bad("qr.eci-designator-form")
    ELSE IF mode = 13 THEN
       IF TPAvail(c, b1) < 4 + QRCount(13, k) THEN bad("qr.count-truncated")
       ELSE LET subset == TPRead(c, b1, 4, 0)  n == TPRead(c, b1 + 4, QRCount(13, k), 0)  b2 == b1 + 4 + QRCount(13, k) IN
            IF subset # 1 THEN QRFrom(c, b2, k, eci, guess)
            ELSE IF 13 * n > TPAvail(c, b2) THEN bad("qr.hanzi-truncated") ELSE QRFrom(c, b2 + (13 * n), k, eci, guess)
    ELSE IF TPAvail(c, b1) < QRCount(mode, k) THEN bad("qr.count-truncated")
    ELSE LET n == TPRead(c, b1, QRCount(mode, k), 0)  b2 == b1 + QRCount(mode, k) IN
       IF mode = 1 THEN LET r == QRNum(c, b2, n) IN IF r < 0 THEN bad("qr.numeric") ELSE QRFrom(c, r, k, eci, guess)
       ELSE IF mode = 2 THEN LET r == QRAln(c, b2, n) IN IF r < 0 THEN bad("qr.alphanumeric") ELSE QRFrom(c, r, k, eci, guess)
       ELSE IF mode = 4 THEN (IF 8 * n > TPAvail(c, b2) THEN bad("qr.byte-truncated") ELSE QRFrom(c, b2 + (8 * n), k, eci, guess \/ ~eci))
       ELSE IF 13 * n > TPAvail(c, b2) THEN bad("qr.kanji-truncated") ELSE QRFrom(c, b2 + (13 * n), k, eci, guess)
\* exotic = the decode hints name a character set that is not known to be supported: an undesignated byte segment
\* then has no determined outcome
QRParse(c, v, exotic) == LET r == QRFrom(c, 0, QRVClass(v), FALSE, FALSE) IN
                         IF exotic /\ r.guess THEN Out("any", "qr.exotic-charset-hint") ELSE Out(r.cls, r.why)

(* ================================================================== Data Matrix ECC 200 (ISO/IEC 16022 5.2) *)
DMUnRand(cw, pos) == LET t == cw - (((149 * pos) % 255) + 1) IN IF t >= 0 THEN t ELSE t + 256      \* Annex B.2, pos 1-based
DMRand(v, pos) == LET t == v + (((149 * pos) % 255) + 1) IN IF t <= 255 THEN t ELSE t - 256
\* the three values of a C40 / Text / X12 codeword pair: 1600*C1 + 40*C2 + C3 + 1
DMTriple(c1, c2) == LET full == ((c1 * 256) + c2) - 1 IN << full \div 1600, (full % 1600) \div 40, full % 40 >>
\* one value in a C40 (text = FALSE) / Text (text = TRUE) segment; sh = pending shift 0..3; result: new shift, or -1 format, -2 undetermined
DMC40Value(v, sh, text) ==
  CASE sh = 0 -> (IF v < 3 THEN v + 1 ELSE 0)
    [] sh = 1 -> (IF v < 32 THEN 0 ELSE -2)                         \* Shift 1 set: ASCII 0..31
    [] sh = 2 -> (IF v < 28 \/ v = 30 THEN 0 ELSE -1)               \* Shift 2 set: 27 characters, FNC1, Upper Shift
    [] sh = 3 -> (IF v < 32 THEN 0 ELSE IF text THEN -1 ELSE -2)
RECURSIVE DMAscii(_,_)
RECURSIVE DMC40(_,_,_,_)
RECURSIVE DMX12(_,_)
RECURSIVE DMEdifact(_,_)
DMBase256(c, i) ==
  IF i > Len(c) THEN Out("any", "dm.base256-latch-at-end")
  ELSE LET d1 == DMUnRand(c[i], i) IN
    IF d1 >= 250 /\ i + 1 > Len(c) THEN Out("format", "dm.base256-length-truncated")
    ELSE LET two == d1 >= 250
             st == IF two THEN i + 2 ELSE i + 1
             n == IF d1 = 0 THEN (Len(c) - st) + 1
                  ELSE IF two THEN (250 * (d1 - 249)) + DMUnRand(c[i + 1], i + 1) ELSE d1
         IN IF (st + n) - 1 > Len(c) THEN Out("format", "dm.base256-truncated") ELSE DMAscii(c, st + n)
DMAscii(c, i) ==
  IF i > Len(c) THEN Out("ok", "dm.end-of-data")
  ELSE LET b == c[i] IN
    IF b = 0 THEN Out("format", "dm.codeword-0")
    ELSE IF b <= 128 THEN DMAscii(c, i + 1)
    ELSE IF b = 129 THEN Out("ok", "dm.pad")
    ELSE IF b <= 229 THEN DMAscii(c, i + 1)
    ELSE IF b = 230 THEN DMC40(c, i + 1, 0, FALSE)
    ELSE IF b = 231 THEN DMBase256(c, i + 1)
    ELSE IF b = 232 THEN DMAscii(c, i + 1)                          \* FNC1
    ELSE IF b \in {233, 234, 241} THEN Out("any", "dm.structured-append/reader-programming/eci")
    ELSE IF b \in {235, 236, 237} THEN DMAscii(c, i + 1)            \* upper shift, macro 05, macro 06
    ELSE IF b = 238 THEN DMX12(c, i + 1)
    ELSE IF b = 239 THEN DMC40(c, i + 1, 0, TRUE)
    ELSE IF b = 240 THEN DMEdifact(c, 8 * i)
    ELSE IF b = 254 /\ i = Len(c) THEN Out("any", "dm.unlatch-as-last-codeword")
    ELSE Out("format", "dm.reserved-codeword")                       \* 242..255
DMC40(c, i, sh, text) ==
  IF i >= Len(c) THEN DMAscii(c, i)                                 \* nothing, or a single codeword (ASCII encoded), left
  ELSE IF c[i] = 254 THEN DMAscii(c, i + 1)
  ELSE IF c[i] = 0 /\ c[i + 1] = 0 THEN Out("any", "dm.c40-pair-0")
  ELSE LET t == DMTriple(c[i], c[i + 1]) IN
    IF t[1] >= 40 THEN (IF sh \in {0, 2} \/ (sh = 3 /\ text) THEN Out("format", "dm.c40-value")
                        ELSE Out("any", "dm.c40-value-after-shift"))        \* 1600*C1 with C1 = 40 cannot be written; read as a shifted value
    ELSE LET s1 == DMC40Value(t[1], sh, text)
             s2 == IF s1 < 0 THEN s1 ELSE DMC40Value(t[2], s1, text)
             s3 == IF s2 < 0 THEN s2 ELSE DMC40Value(t[3], s2, text)
         IN IF s3 = -1 THEN Out("format", "dm.c40-shift-value")
            ELSE IF s3 = -2 THEN Out("any", "dm.c40-shift-value-beyond-set")
            ELSE DMC40(c, i + 2, s3, text)
DMX12(c, i) ==
  IF i >= Len(c) THEN DMAscii(c, i)
  ELSE IF c[i] = 254 THEN DMAscii(c, i + 1)
  ELSE IF c[i] = 0 /\ c[i + 1] = 0 THEN Out("any", "dm.x12-pair-0")
  ELSE IF DMTriple(c[i], c[i + 1])[1] >= 40 THEN Out("format", "dm.x12-value") ELSE DMX12(c, i + 2)
\* EDIFACT: 6-bit values, four per three codewords; 011111 unlatches and the rest of that codeword is skipped; when only
\* one or two codewords are left they are ASCII encoded
DMEdifact(c, b) ==
  IF TPAvail(c, b) <= 16 THEN DMAscii(c, (b \div 8) + 1)
  ELSE LET u(k) == TPRead(c, b + (6 * k), 6, 0) = 31 IN
       IF u(0) THEN DMAscii(c, (b \div 8) + 2)
       ELSE IF u(1) THEN DMAscii(c, (b \div 8) + 3)
       ELSE IF u(2) \/ u(3) THEN DMAscii(c, (b \div 8) + 4)
       ELSE DMEdifact(c, b + 24)
DMParse(c) == DMAscii(c, 1)

(* ================================================================== Aztec (ISO/IEC 24778 7.3) *)
\* tables: 0 Upper, 1 Lower, 2 Mixed, 3 Punct, 4 Digit; bits is a sequence of 0/1
AZWidth(t) == IF t = 4 THEN 4 ELSE 5
\* meaning of code k in table t: <<"char">>, <<"latch", table>>, <<"shift", table>>, <<"binary">>, <<"flg">>
AZCode(t, k) ==
  CASE t = 0 -> (CASE k = 0 -> <<"shift", 3>> [] k = 28 -> <<"latch", 1>> [] k = 29 -> <<"latch", 2>> [] k = 30 -> <<"latch", 4>>
                   [] k = 31 -> <<"binary">> [] OTHER -> <<"char">>)
    [] t = 1 -> (CASE k = 0 -> <<"shift", 3>> [] k = 28 -> <<"shift", 0>> [] k = 29 -> <<"latch", 2>> [] k = 30 -> <<"latch", 4>>
                   [] k = 31 -> <<"binary">> [] OTHER -> <<"char">>)
    [] t = 2 -> (CASE k = 0 -> <<"shift", 3>> [] k = 28 -> <<"latch", 1>> [] k = 29 -> <<"latch", 0>> [] k = 30 -> <<"latch", 3>>
                   [] k = 31 -> <<"binary">> [] OTHER -> <<"char">>)
    [] t = 3 -> (CASE k = 0 -> <<"flg">> [] k = 31 -> <<"latch", 0>> [] OTHER -> <<"char">>)
    [] t = 4 -> (CASE k = 0 -> <<"shift", 3>> [] k = 14 -> <<"latch", 0>> [] k = 15 -> <<"shift", 0>> [] OTHER -> <<"char">>)
RECURSIVE AZVal(_,_,_,_)
AZVal(bits, i, n, acc) == IF n = 0 THEN acc ELSE AZVal(bits, i + 1, n - 1, (acc * 2) + bits[i + 1])     \* i = bits consumed
\* ECI digits: n codes of the Digit table, each a decimal digit (codes 2..11); -1 when one is not
RECURSIVE AZDigits(_,_,_,_)
AZDigits(bits, i, n, acc) == IF n = 0 THEN acc
                             ELSE LET d == AZVal(bits, i, 4, 0) IN IF d < 2 \/ d > 11 THEN -1 ELSE AZDigits(bits, i + 4, n - 1, (acc * 10) + (d - 2))
\* i bits consumed; latch = latched table; cur = table of the next code (# latch while a shift is pending)
RECURSIVE AZFrom(_,_,_,_)
AZFrom(bits, i, latch, cur) ==
  LET n == Len(bits)  w == AZWidth(cur) IN
  IF n - i < w THEN Out("ok", "az.end-of-data")                      \* the rest is codeword padding
  ELSE LET m == AZCode(cur, AZVal(bits, i, w, 0))  j == i + w IN
    IF m[1] = "char" THEN AZFrom(bits, j, latch, latch)
    ELSE IF m[1] \in {"latch", "shift", "binary"} /\ cur # latch THEN Out("any", "az.control-code-inside-shift")
    ELSE IF m[1] = "latch" THEN AZFrom(bits, j, m[2], m[2])
    ELSE IF m[1] = "shift" THEN AZFrom(bits, j, latch, m[2])
    ELSE IF m[1] = "binary" THEN
       IF n - j < 5 THEN Out("ok", "az.end-of-data")
       ELSE LET l5 == AZVal(bits, j, 5, 0) IN
         IF l5 = 0 /\ n - (j + 5) < 11 THEN Out("ok", "az.end-of-data")
         ELSE LET len == IF l5 = 0 THEN AZVal(bits, j + 5, 11, 0) + 31 ELSE l5
                  st == IF l5 = 0 THEN j + 16 ELSE j + 5
              IN IF n - st < 8 * len THEN Out("ok", "az.binary-cut-by-end-of-data") ELSE AZFrom(bits, st + (8 * len), latch, latch)
    ELSE \* FLG(n)
       IF n - j < 3 THEN Out("ok", "az.end-of-data")
       ELSE LET f == AZVal(bits, j, 3, 0)  j2 == j + 3 IN
         IF f = 0 THEN AZFrom(bits, j2, latch, latch)                 \* FNC1
         ELSE IF f = 7 THEN Out("format", "az.flg7")
         ELSE IF n - j2 < 4 * f THEN Out("any", "az.eci-cut-by-end-of-data")
         ELSE LET v == AZDigits(bits, j2, f, 0) IN
              IF v < 0 THEN Out("format", "az.eci-digit")
              ELSE IF ~ECISupported(v) THEN Out("format", "az.eci-unsupported")
              ELSE AZFrom(bits, j2 + (4 * f), latch, latch)
AZParse(bits) == AZFrom(bits, 0, 0, 0)

(* ================================================================== ECI block events *)
\* expected outcome code of ECI value v through designator form f (codes of the driver: 0 result, 1 FormatError,
\* 8 "nothing registered" for the registry lookup itself)
ECIExpected(f, v) == IF f = 6 THEN (IF v < 0 \/ v >= 900 THEN 1 ELSE IF ECISupported(v) THEN 0 ELSE 8)
                     ELSE IF ECISupported(v) THEN 0 ELSE 1
ECIFormRange(f) == CASE f = 1 -> 127 [] f = 2 -> 16383 [] f = 3 -> 2097151 [] OTHER -> 999999     \* largest value the form can carry
=============================================================================
