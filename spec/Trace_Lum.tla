------------------------------ MODULE Trace_Lum ------------------------------
(* Trace validation for C17.  Every recorded call on a real luminance source / BinaryBitmap is judged against  *)
(* the view model of Lum.tla.  `s` is the model of the driver's current source.  A rejected event is appended   *)
(* to `bad` as <<index, op, reason>>; validation always continues with the state the model expects.            *)
EXTENDS Lum, TraceLib
VARIABLES l, bad, s
vars == <<l, bad, s>>
Init == l = 1 /\ bad = <<>> /\ s = FromArray(<< <<0>> >>)

J(ok, why, next) == [ok |-> ok, why |-> why, next |-> next]
\* diagnostics for a rectangle that had to be refused: does its far edge stay inside the underlying image when the
\* window's own offset is added ("abs"), when it is forgotten ("rel"), both ways, or neither way
FarEdge(t, a) ==
  LET ab == t.left + a[1] + a[3] <= t.bw /\ t.top + a[2] + a[4] <= t.bh
      re == a[1] + a[3] <= t.bw /\ a[2] + a[4] <= t.bh
  IN IF ab /\ re THEN "both" ELSE IF ab THEN "abs" ELSE IF re THEN "rel" ELSE "none"

\* the recorded pixels of e (dimensions, every row's checksum, the rows recorded in full) are those of view t
PixelsOK(e, t) ==
  /\ e.w = t.w /\ e.h = t.h
  /\ Len(e.ck) = t.h /\ Len(e.yl) = Len(e.px)
  /\ LET v == TLCEval(View(t)) IN
       /\ \A y \in 1..t.h : e.ck[y] = RowSum(v[y])
       /\ \A i \in 1..Len(e.yl) : e.yl[i] >= 0 /\ e.yl[i] < t.h /\ Len(e.px[i]) = t.w /\ e.px[i] = v[e.yl[i] + 1]

\* the recorded black matrix of e is what the property allows for view t binarised by method e.bin
BlackOK(e, t) ==
  LET v == TLCEval(View(t))
      dims == e.mw = t.w /\ e.mh = t.h /\ Len(e.st) = t.h
      bilevel == IsBilevel(v)
  IN /\ e.w = t.w /\ e.h = t.h
     /\ e.err2 \in {0, 1}
     /\ e.err2 = 0 => dims
     /\ bilevel => (e.err2 = 1 \/ e.st = ChunkRows(BlackPixels(v)))          \* the bilevel law, both methods
     /\ (e.bin = 0 \/ ~UsesLocal(t.w, t.h)) =>                                 \* the global method, exactly
          LET r == BlackMatrixGlobal(v, t.w, t.h) IN
          IF r.nf = 1 THEN e.err2 = 1 ELSE e.err2 = 0 /\ e.st = ChunkRows(r.bits)

\* brot / bcrop with pre = 1: the parent bitmap had its matrix cached before the child was made; afterwards it must still be the
\* bitmap of the current view (a child must not share or turn the parent's cached matrix)
ParentOK(e, t) == Has(e, "pre") /\ e.pre = 1 =>
  BlackOK([e EXCEPT !.w = e.pw, !.h = e.ph, !.mw = e.pmw, !.mh = e.pmh, !.st = e.pst, !.err2 = e.perr], t)

BaseOK(e) == e.bw >= 1 /\ e.bh >= 1 /\ Len(e.base) = e.bh /\ \A y \in 1..e.bh : Len(e.base[y]) = e.bw

Judge(e) ==
  LET a == e.a IN
  CASE e.op = "new" ->
         IF ~BaseOK(e) \/ Len(a) < 5 THEN J(FALSE, "input", s)
         ELSE IF e.kind = "yuv" /\ (a[1] + a[3] > e.bw \/ a[2] + a[4] > e.bh)
         THEN J(e.err # 0 /\ e.panic = 0, "window_outside_data_accepted", s)
         ELSE (LET b0 == IF e.kind = "yuv" /\ a[5] = 1 THEN MirrorWindow(e.base, a[1], a[2], a[3], a[4]) ELSE e.base
                   t0 == IF e.kind = "yuv" THEN Window(b0, a[1], a[2], a[3], a[4]) ELSE FromArray(b0)
               IN J(e.err = 0 /\ e.panic = 0 /\ PixelsOK(e, t0), IF e.panic = 1 THEN "panic" ELSE "initial_pixels", t0))
    [] e.op = "matrix" -> J(e.panic = 0 /\ PixelsOK(e, s), IF e.panic = 1 THEN "panic" ELSE "matrix_pixels", s)
    [] e.op = "getrow" ->
         IF a[1] < 0 \/ a[1] >= s.h
         THEN J(e.err # 0 /\ e.panic = 0, IF e.panic = 1 THEN "panic" ELSE "row_outside_no_error", s)
         ELSE J(e.err = 0 /\ e.panic = 0 /\ e.w = s.w /\ Len(e.px) = 1 /\ Len(e.px[1]) = s.w /\ e.px[1] = ViewRow(s, a[1]),
                IF e.panic = 1 THEN "panic" ELSE "row_pixels", s)
    [] e.op \in {"crop", "bcrop"} ->
         LET cls == CropClass(s, a[1], a[2], a[3], a[4])
             tc  == CropOf(s, a[1], a[2], a[3], a[4])
             \* optional 5th argument: a row fetched singly from the crop result
             rowok == Len(a) < 5 \/ (IF a[5] < 0 \/ a[5] >= tc.h THEN e.rerr # 0
                                     ELSE e.rerr = 0 /\ Len(e.rrow) = tc.w /\ e.rrow = ViewRow(tc, a[5]))
             same == IF e.op = "crop" THEN PixelsOK(e, tc) /\ rowok ELSE BlackOK(e, tc) /\ ParentOK(e, s)
             nxt == IF e.op = "crop" /\ e.err = 0 /\ e.adopt = 1 THEN tc ELSE s
         IN (CASE cls = "deg" -> J(TRUE, "", s)
              [] cls \in {"neg", "out"} ->
                   J(e.err # 0 /\ e.panic = 0,
                     IF e.err # 0 THEN "panic" ELSE IF cls = "neg" THEN "negative_origin_accepted" ELSE "outside_underlying_accepted", s)
              [] cls = "in" -> J(e.err = 0 /\ e.panic = 0 /\ same,
                                 IF e.panic = 1 THEN "panic" ELSE IF e.err # 0 THEN "inside_view_rejected" ELSE "crop_pixels", nxt)
              [] cls = "nd" -> J(e.panic = 0 /\ (e.err # 0 \/ same), IF e.panic = 1 THEN "panic" ELSE "crop_pixels", nxt))
    [] e.op = "invert" -> J(e.panic = 0 /\ PixelsOK(e, InvertOf(s)), IF e.panic = 1 THEN "panic" ELSE "invert_pixels", InvertOf(s))
    [] e.op \in {"rotate", "brot"} ->
         IF e.err # 0 THEN J(e.panic = 0 /\ e.rotsup = 0, IF e.panic = 1 THEN "panic" ELSE "rotation_refused", s)
         ELSE (LET tr == RotateOf(s) IN
               J(e.panic = 0 /\ (IF e.op = "rotate" THEN PixelsOK(e, tr) ELSE BlackOK(e, tr) /\ ParentOK(e, s)),
                 IF e.panic = 1 THEN "panic" ELSE "rotate_pixels", IF e.op = "rotate" THEN tr ELSE s))
    [] e.op = "brow" ->
         IF a[1] < 0 \/ a[1] >= s.h
         THEN J(e.err # 0 /\ e.panic = 0, IF e.panic = 1 THEN "panic" ELSE "row_outside_no_error", s)
         ELSE (LET br == BlackRowOf(ViewRow(s, a[1])) IN
               J(/\ e.panic = 0 /\ e.w = s.w
                 /\ IF br.nf = 1 THEN e.err = 1
                    ELSE e.err = 0 /\ e.n >= s.w /\ Len(e.st) = 1 /\ e.st[1] = Chunks(br.bits),
                 IF e.panic = 1 THEN "panic" ELSE "black_row", s))
    [] e.op = "bmatrix" ->
         J(/\ e.panic = 0 /\ e.err = 0 /\ BlackOK(e, s)
           /\ e.err2 = 0 => e.st2 = e.st,                                      \* cached answer
           IF e.panic = 1 THEN "panic" ELSE "black_matrix", s)
    [] OTHER -> J(FALSE, "unknown_op", s)

Next ==
  /\ l <= NEv
  /\ l' = l + 1
  /\ LET e == Tr[l] j == Judge(e) IN
     /\ bad' = IF j.ok THEN bad
               ELSE Append(bad, <<l, e.op, j.why, IF e.op \in {"crop", "bcrop"} /\ Len(e.a) >= 4 THEN FarEdge(s, e.a) ELSE "">>)
     /\ s' = j.next
Spec == Init /\ [][Next]_vars
Done == l = NEv + 1 => WriteBad(l, bad)
=============================================================================
