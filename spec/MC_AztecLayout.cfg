SPECIFICATION Spec
CONSTANTS
  Deep = FALSE
INVARIANT AllJobsOK
CHECK_DEADLOCK FALSE
