SPECIFICATION Spec
CONSTANTS
  Mode = "gen"
  OutStep = 1
  InStep = 1
INVARIANT Law
CHECK_DEADLOCK FALSE
