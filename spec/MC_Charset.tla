---------------------------- MODULE MC_Charset ----------------------------
(* Design-level checks of C15's model (Charset.tla) and generation of cases for the real code.                    *)
(*  Part = "guess": the state is a byte string over Alphabet (representatives of the classes the guess looks at:   *)
(*      ASCII, 2-/3-/4-byte UTF-8 leads, continuation bytes that are / are not Latin-1 holes, Shift_JIS leads,     *)
(*      katakana, BOM bytes), grown byte by byte up to MaxLen.  Invariant GuessLaws: well-formed UTF-8 that is not  *)
(*      pure ASCII is always guessed UTF-8; pure ASCII is guessed as something that reads ASCII as ASCII; hence     *)
(*      un-designated UTF-8 text decodes as itself.  Every string is emitted (GEN) for replay on the real guess.    *)
(*  Part = "eci": the state is a block of 1000 ECI numbers (0..999999 in all).  Invariant ECILaws: the designator  *)
(*      parses back to the number with the form length the standard prescribes, and the lookup partitions the      *)
(*      numbers into registered / nothing / format error consistently with the registry.                           *)
(*  Part = "cases": for every input case (cases.ndjson: eci, payload, hint) emit the version-1 byte-mode stream    *)
(*      and the character set that must decode it (designator > hint > guess).                                     *)
EXTENDS Charset, Json
CONSTANTS Part, Alphabet, MaxLen
VARIABLES s, blk, done
vars == <<s, blk, done>>
Cases == IF Part = "cases" THEN ndJsonDeserialize("cases.ndjson") ELSE <<>>
NBlocks == 1000
Init == s = <<>> /\ blk = 1 /\ done = FALSE
GrowS == /\ Part = "guess" /\ ~done /\ Len(s) < MaxLen
         /\ \E b \in Alphabet : s' = Append(s, b)
         /\ UNCHANGED <<blk, done>>
EmitS == /\ Part = "guess" /\ ~done
         /\ PrintT(<<"GEN", ToJson([bytes |-> s, guess |-> Guess(s)])>>)
         /\ done' = TRUE /\ UNCHANGED <<s, blk>>
NextBlk == /\ Part = "eci"
           /\ \E k \in {2*blk, (2*blk) + 1} : k <= NBlocks /\ blk' = k
           /\ blk = 1 => PrintT(<<"GEN", ToJson(Registry)>>)       \* the registry table, for the case generator
           /\ UNCHANGED <<s, done>>
CaseOut(c) ==
  LET ek == IF c.eci >= 0 THEN ByValue(c.eci) ELSE 0
      hk == IF c.hint = "" THEN 0 ELSE ByName(c.hint)
  IN [eci |-> c.eci, bytes |-> c.bytes, hint |-> c.hint, stream |-> ByteStream(c.eci, c.bytes),
      cs |-> IF c.eci >= 0 /\ ek < 1 THEN "" ELSE SegmentCharset(ek, hk, c.bytes)]
EmitCases == /\ Part = "cases" /\ ~done
             /\ \A i \in 1..Len(Cases) : PrintT(<<"GEN", ToJson(CaseOut(Cases[i]))>>)
             /\ done' = TRUE /\ UNCHANGED <<s, blk>>
Next == GrowS \/ EmitS \/ NextBlk \/ EmitCases
Spec == Init /\ [][Next]_vars

GuessLaws == Part = "guess" =>
  LET g == Guess(s) IN
  /\ g \in {"UTF-16BE+BOM", "UTF-16LE+BOM", "UTF-8", "Shift_JIS", "ISO-8859-1"}
  /\ WellFormedUTF8(s) /\ ~AllAscii(s) => g = "UTF-8"
  /\ AllAscii(s) => g \in AsciiTransparent
  \* a segment with a designator or a decode hint is never re-guessed
  /\ \A k \in {2, 7, 12} : SegmentCharset(k, 0, s) = Registry[k].name /\ SegmentCharset(0, k, s) = Registry[k].name
                           /\ SegmentCharset(k, 18, s) = Registry[k].name
  /\ SegmentCharset(0, 0, s) = g
ECILaws == Part = "eci" =>
  \A v \in ((blk - 1) * 1000)..((blk * 1000) - 1) :
    LET d == ECIDesignator(v)  p == ParseECI(d \o <<0, 1, 0, 0>>, 1)  k == ByValue(v) IN
    /\ Len(d) = (IF v <= 127 THEN 8 ELSE IF v <= 16383 THEN 16 ELSE 24)
    /\ p = <<v, Len(d)>>
    /\ k \in -1..NReg
    /\ (k = -1) = (v >= 900)
    /\ k >= 1 => v \in ValuesOf(k) /\ ByName(Registry[k].name) = k
    /\ k = 0 => v \notin AllValues
ASSUME RegistryConsistent
ASSUME ParseECI(<<1, 1, 1, 0, 0, 0, 0, 0>>, 1)[1] = -1 /\ ParseECI(<<1, 0, 0, 0>>, 1)[1] = -1
ASSUME NReg = 22 /\ Cardinality(AllValues) = 25
=============================================================================
