---------------------------- MODULE Apa_RSSTally ----------------------------
(* Unbounded safety of the RSS-14 reader's tally machine (RSSTally.tla) by an inductive invariant, discharged by      *)
(* Apalache: Init => IndInv, and IndInv /\ Next => IndInv' for ANY number of images and rows when the caller resets    *)
(* the reader before every image.  (MC_RSSTally explores the same machine exhaustively for <= 3 images x 5 rows.)       *)
EXTENDS Integers, Sequences, FiniteSets, Apalache
Syms == {1, 2, 3}
VARIABLES
  \* @type: Seq({v: Int, cs: Int, f: Int, n: Int});
  lefts,
  \* @type: Seq({v: Int, cs: Int, f: Int, n: Int});
  rights,
  \* @type: Int;
  img,
  \* @type: <<Int, Int>>;
  out
T == INSTANCE RSSTally
\* @type: Int => {v: Int, cs: Int, f: Int};
L(s) == [v |-> 100 + s, cs |-> 79 - 16 * s, f |-> 0]
\* @type: Int => {v: Int, cs: Int, f: Int};
R(s) == [v |-> 200 + s, cs |-> s, f |-> 0]
Init == lefts = <<>> /\ rights = <<>> /\ img = 0 /\ out = <<0, 0>>
Begin(s) == img = 0 /\ lefts = <<>> /\ rights = <<>> /\ img' = s /\ out' = <<0, 0>> /\ UNCHANGED <<lefts, rights>>
Row(hasL, hasR) ==
  /\ img # 0 /\ out = <<0, 0>>
  /\ LET st == T!Step(lefts, rights, IF hasL THEN L(img) ELSE T!None, IF hasR THEN R(img) ELSE T!None) IN
     /\ lefts' = st.lefts /\ rights' = st.rights
     /\ out' = IF st.ans = <<0, 0>> THEN <<0, 0>> ELSE <<st.lefts[st.ans[1]].v - 100, st.rights[st.ans[2]].v - 200>>
  /\ UNCHANGED img
End == img # 0 /\ img' = 0 /\ UNCHANGED <<lefts, rights, out>>
Reset == img = 0 /\ lefts' = <<>> /\ rights' = <<>> /\ UNCHANGED <<img, out>>
Next == (\E s \in Syms : Begin(s)) \/ (\E a, b \in BOOLEAN : Row(a, b)) \/ End \/ Reset
NoStale == out # <<0, 0>> /\ img # 0 => out = <<img, img>>
\* the lists hold at most the current image's own pair
OwnOnly == img # 0 => /\ Len(lefts) <= 1 /\ Len(rights) <= 1
                      /\ \A i \in 1..1 : i <= Len(lefts) => lefts[i].v = 100 + img /\ lefts[i].n >= 0
                      /\ \A i \in 1..1 : i <= Len(rights) => rights[i].v = 200 + img /\ rights[i].n >= 0
IndInv == /\ img \in Syms \cup {0} /\ NoStale /\ OwnOnly
          /\ Len(lefts) <= 1 /\ Len(rights) <= 1
IndInit == /\ lefts = Gen(1) /\ rights = Gen(1) /\ img = Gen(1) /\ out = Gen(1) /\ IndInv
=============================================================================
