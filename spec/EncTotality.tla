----------------------------- MODULE EncTotality -----------------------------
(* C12: encoding is total.  (The reader-side counterpart, C06, is Totality.tla.)                                   *)
(*                                                                                                               *)
(* A writer call is a two-step automaton  idle --Call(c)--> called --Return(o)--> idle.  The observation o of a    *)
(* call says what came back: a matrix (with its size), an error, a panic, or nothing within the time bound.       *)
(* The contract of gozxing.Writer.Encode, as the property states it:                                              *)
(*   T  (totality)   no panic, no hang, and exactly one of {matrix, error};                                       *)
(*   R  (refusals)   empty contents, a format the writer does not produce, a negative width or height, a hint     *)
(*                   value of the accepted type that is out of range where the API fixes the reaction (an unknown *)
(*                   error-correction letter, a margin / version string that is no number, an unknown character   *)
(*                   set, a version outside 1..40, a code set other than A/B/C), and contents the symbology       *)
(*                   cannot represent or hold  ==>  error;                                                        *)
(*   A  (acceptance) representable contents, own format, non-negative size, hint values in range ==> a matrix;    *)
(*   D  (dimensions) a returned matrix is at least as large as the symbol it depicts - which in turn is a symbol  *)
(*                   of the symbology (QR: 17+4v modules square, the forced version if one is asked for; Data     *)
(*                   Matrix: a size of ISO 16022 Table 7 admitted by the shape / size hints; 1-D: one row of the  *)
(*                   symbology's module count) large enough to hold the contents - and, for QR and 1-D writers,   *)
(*                   at least max(requested, 1) in both directions.                                               *)
(* Everything else (which error, which mask, the exact version, pixels) is left open: other properties cover it.  *)
(* Where the contract does not fix the outcome class (e.g. a negative margin, an error-correction enum value that *)
(* is no level, size hints that may or may not leave room) both a matrix and an error conform - T and D still     *)
(* apply.                                                                                                         *)
(*                                                                                                               *)
(* A call c is a record [wr, fmt, cp, cn, w, h, hints]: writer name, BarcodeFormat value (0..16), contents = the  *)
(* byte pattern cp repeated cyclically up to length cn, requested size, and hints = a sequence of records         *)
(* [k: key name, t: 0 int | 1 string | 2 bool | 3 ErrorCorrectionLevel | 4 SymbolShapeHint | 5 *Dimension,        *)
(*  i: int / bool / enum value, s: string bytes, sn: the same string, a, b: Dimension width and height].          *)
EXTENDS Integers, Sequences, FiniteSets, TLC
QR == INSTANCE QRTables
DM == INSTANCE DMTables
OD == INSTANCE OneD
CS == INSTANCE Charset

Max2(a, b) == IF a > b THEN a ELSE b
Min2(a, b) == IF a < b THEN a ELSE b
CeilDiv(a, b) == (a + b - 1) \div b

(* ------------------------------------------------------------------ writers and formats *)
Writers == <<"QR", "DM", "EAN13", "EAN8", "UPCA", "UPCE", "C39", "C93", "C128", "ITF", "CBAR">>
WriterSet == {Writers[i] : i \in 1..Len(Writers)}
\* gozxing.BarcodeFormat in declaration order: value = index - 1
Formats == <<"AZTEC", "CODABAR", "CODE_39", "CODE_93", "CODE_128", "DATA_MATRIX", "EAN_8", "EAN_13", "ITF", "MAXICODE",
             "PDF_417", "QR_CODE", "RSS_14", "RSS_EXPANDED", "UPC_A", "UPC_E", "UPC_EAN_EXTENSION">>
FmtName(f) == IF f \in 0..(Len(Formats) - 1) THEN Formats[f + 1] ELSE "?"
OwnFormat(wr) == CASE wr = "QR" -> "QR_CODE" [] wr = "DM" -> "DATA_MATRIX" [] wr = "EAN13" -> "EAN_13" [] wr = "EAN8" -> "EAN_8"
                   [] wr = "UPCA" -> "UPC_A" [] wr = "UPCE" -> "UPC_E" [] wr = "C39" -> "CODE_39" [] wr = "C93" -> "CODE_93"
                   [] wr = "C128" -> "CODE_128" [] wr = "ITF" -> "ITF" [] wr = "CBAR" -> "CODABAR" [] OTHER -> "?"
OwnFmtValue(wr) == (CHOOSE i \in 1..Len(Formats) : Formats[i] = OwnFormat(wr)) - 1
ClassOf(wr) == IF wr = "QR" THEN "qr" ELSE IF wr = "DM" THEN "dm" ELSE "1d"
HintKeys == {"ERROR_CORRECTION", "CHARACTER_SET", "MARGIN", "QR_VERSION", "QR_MASK_PATTERN", "GS1_FORMAT",
             "DATA_MATRIX_SHAPE", "MIN_SIZE", "MAX_SIZE", "FORCE_CODE_SET"}

(* ------------------------------------------------------------------ contents *)
PatLen(c) == Min2(c.cn, Len(c.cp))
Vals(c) == {c.cp[k] : k \in 1..PatLen(c)}                       \* the byte values that occur
Byte(c, i) == c.cp[((i - 1) % Len(c.cp)) + 1]                    \* i in 1..cn
Digits == 48..57
Upper == 65..90
AsciiOnly(c) == \A b \in Vals(c) : b < 128
AllDigits(c) == Vals(c) \subseteq Digits
DigitsOf(c) == [i \in 1..c.cn |-> Byte(c, i) - 48]

(* ------------------------------------------------------------------ hints *)
HasHint(hs, key) == \E j \in 1..Len(hs) : hs[j].k = key
HintOf(hs, key) == hs[CHOOSE j \in 1..Len(hs) : hs[j].k = key]
RECURSIVE DecVal(_, _, _)
DecVal(s, i, acc) == IF i > Len(s) THEN acc ELSE DecVal(s, i + 1, (acc * 10) + (s[i] - 48))
\* decimal integer with optional sign (strconv.Atoi); kind: "int" | "bad" | "unknown" (too long for this model)
ParseInt(s) ==
  LET signed == Len(s) >= 1 /\ s[1] \in {43, 45}
      d == IF signed THEN SubSeq(s, 2, Len(s)) ELSE s
  IN IF Len(d) = 0 \/ \E i \in 1..Len(d) : d[i] \notin Digits THEN [kind |-> "bad", v |-> 0]
     ELSE IF Len(d) > 8 THEN [kind |-> "unknown", v |-> 0]
     ELSE [kind |-> "int", v |-> IF signed /\ s[1] = 45 THEN 0 - DecVal(d, 1, 0) ELSE DecVal(d, 1, 0)]
\* an Integer-or-String hint: "none" | "int" | "bad" | "unknown" (a value of another type: outside the property; or an
\* integer 2^a + i beyond this model's integers, hint type 7: the reaction is not fixed, but T and D still bind)
IntHint(hs, key) ==
  IF ~HasHint(hs, key) THEN [kind |-> "none", v |-> 0]
  ELSE LET x == HintOf(hs, key) IN
       IF x.t = 0 THEN [kind |-> "int", v |-> x.i]
       ELSE IF x.t = 1 THEN ParseInt(x.s)
       ELSE [kind |-> "unknown", v |-> 0]
\* error correction level: 1..4 = L M Q H (QRTables numbering); 0 = bad letter (refused); -1 = enum value that is no level
\* or a value of another type (reaction not fixed)
ECLetters == <<"L", "M", "Q", "H">>
ECHint(hs) ==
  IF ~HasHint(hs, "ERROR_CORRECTION") THEN 1
  ELSE LET x == HintOf(hs, "ERROR_CORRECTION") IN
       IF x.t = 3 THEN (IF x.i \in 0..3 THEN x.i + 1 ELSE -1)
       ELSE IF x.t = 1 THEN (IF \E l \in 1..4 : ECLetters[l] = x.sn THEN CHOOSE l \in 1..4 : ECLetters[l] = x.sn ELSE 0)
       ELSE -1
\* Boolean-or-String hint (strconv.ParseBool spellings of true); anything else counts as false
TrueWords == {"1", "t", "T", "TRUE", "true", "True"}
BoolHint(hs, key) == HasHint(hs, key) /\ LET x == HintOf(hs, key) IN (x.t = 2 /\ x.i # 0) \/ (x.t = 1 /\ x.sn \in TrueWords)
CharsetHint(hs) == IF ~HasHint(hs, "CHARACTER_SET") THEN [kind |-> "none", name |-> ""]
                   ELSE LET x == HintOf(hs, "CHARACTER_SET") IN
                        IF x.t # 1 THEN [kind |-> "unknown", name |-> ""]
                        ELSE IF x.sn \in CS!AllNames THEN [kind |-> "known", name |-> x.sn] ELSE [kind |-> "bad", name |-> x.sn]
\* Data Matrix: shape 0 none / 1 square / 2 rectangle (any other enum value selects nothing); sizes <<w, h>> or <<>>
ShapeHint(hs) == IF ~HasHint(hs, "DATA_MATRIX_SHAPE") THEN 0
                 ELSE LET x == HintOf(hs, "DATA_MATRIX_SHAPE") IN IF x.t = 4 /\ x.i \in {1, 2} THEN x.i ELSE 0
DimHint(hs, key) == IF ~HasHint(hs, key) THEN <<>>
                    ELSE LET x == HintOf(hs, key) IN IF x.t = 5 THEN <<x.a, x.b>> ELSE <<>>
CodeSetHint(hs) == IF ~HasHint(hs, "FORCE_CODE_SET") THEN "none"
                   ELSE LET x == HintOf(hs, "FORCE_CODE_SET") IN
                        IF x.t # 1 THEN "unknown" ELSE IF x.sn \in {"A", "B", "C"} THEN x.sn ELSE "bad"

(* ------------------------------------------------------------------ QR: what the contents need *)
AlnumExtra == {32, 36, 37, 42, 43, 45, 46, 47, 58}               \* space $ % * + - . / :
QRMode(c) == IF AllDigits(c) THEN "num" ELSE IF Vals(c) \subseteq (Digits \cup Upper \cup AlnumExtra) THEN "alnum" ELSE "byte"
\* header bits besides mode and count: an ECI designator (mode 0111 + one byte) for a byte segment with a character
\* set named, the FNC1 mode indicator for GS1
QRHeader(c) == (IF QRMode(c) = "byte" /\ CharsetHint(c.hints).kind = "known" THEN 12 ELSE 0)
               + (IF BoolHint(c.hints, "GS1_FORMAT") THEN 4 ELSE 0)
\* ASCII contents are the same bytes in every character set named below, so the segment is known exactly; for other
\* contents only a lower bound of the payload is used: no mode packs denser than numeric
AsciiTransparent == {"UTF-8", "UTF8", "ISO-8859-1", "ISO8859_1", "Shift_JIS", "SJIS", "ASCII", "US-ASCII"}
QRExact(c) == AsciiOnly(c) /\ (CharsetHint(c.hints).kind = "none" \/
                               (CharsetHint(c.hints).kind = "known" /\ CharsetHint(c.hints).name \in AsciiTransparent))
QRFitsExact(c, v, ec) == QR!Fits(QRMode(c), c.cn, QRHeader(c), v, ec)
QRFitsLB(c, v, ec) == 4 + 8 + QR!PayloadBits("num", c.cn) <= 8 * QR!DataCodewords(v, ec)
QRFits(c, v, ec) == IF QRExact(c) THEN QRFitsExact(c, v, ec) ELSE QRFitsLB(c, v, ec)
QRVersionHint(c) == LET x == IntHint(c.hints, "QR_VERSION") IN
  IF x.kind = "none" THEN [kind |-> "none", v |-> 0]
  ELSE IF x.kind = "unknown" THEN x
  ELSE IF x.kind = "bad" \/ x.v \notin 1..40 THEN [kind |-> "bad", v |-> 0]      \* a string that is no number counts as 0
  ELSE x
\* the smallest version that can hold the contents (0: none); with an unknown level the weakest one (L) bounds from below
QRLevelLB(c) == IF ECHint(c.hints) \in 1..4 THEN ECHint(c.hints) ELSE 1
QRMinVersion(c) == LET ok == {v \in 1..40 : QRFits(c, v, QRLevelLB(c))} IN
                   IF ok = {} THEN 0 ELSE CHOOSE v \in ok : \A u \in ok : v <= u

(* ------------------------------------------------------------------ Data Matrix: what the contents need *)
\* the encoder works on ISO-8859-1 characters: UTF-8 bytes C0, C1 and C4..FF never occur in a Latin-1 text
DMBadBytes == {192, 193} \cup (196..255)
DMChars(c) == IF AsciiOnly(c) THEN c.cn ELSE (c.cn + 1) \div 2      \* lower bound on the number of characters
\* no encodation packs more than two characters into a codeword (digit pairs); the 05 / 06 macro swallows 9 characters
DMCodewordsLB(c) == Max2(1, CeilDiv(DMChars(c) - 8, 2))
DMAdmissibleSet(c) == {i \in 1..DM!NSizes : DM!Admissible(i, ShapeHint(c.hints), DimHint(c.hints, "MIN_SIZE"), DimHint(c.hints, "MAX_SIZE"))}
DMMaxCap(c) == LET S == DMAdmissibleSet(c) IN
               IF S = {} THEN 0 ELSE DM!NData(DM!T7[CHOOSE i \in S : \A j \in S : DM!NData(DM!T7[i]) >= DM!NData(DM!T7[j])])

(* ------------------------------------------------------------------ 1-D: which contents are symbols, and how wide *)
\* UPC/EAN: payload with or without check digit
EANOk(c, len) == /\ c.cn \in {len - 1, len} /\ AllDigits(c)
                 /\ (c.cn = len => OD!Verifies10(DigitsOf(c)))
UPCEOk(c) == /\ c.cn \in {7, 8} /\ AllDigits(c) /\ Byte(c, 1) \in {48, 49}
             /\ (c.cn = 8 => OD!CheckUPCE(SubSeq(DigitsOf(c), 1, 7)) = DigitsOf(c)[8])
\* Code 39: 43 characters directly; any other 7-bit character through full ASCII pairs, which then also spell
\* $ % + / and every other punctuation with two characters
C39Plain == {OD!C39Alphabet[i] : i \in 1..Len(OD!C39Alphabet)}
C39Single == Digits \cup Upper \cup {32, 45, 46}
RECURSIVE SumLen(_, _, _)
SumLen(c, i, single) == IF i > c.cn THEN 0 ELSE (IF Byte(c, i) \in single THEN 1 ELSE 2) + SumLen(c, i + 1, single)
C39Len(c) == IF Vals(c) \subseteq C39Plain THEN c.cn ELSE IF c.cn > 80 THEN c.cn ELSE SumLen(c, 1, C39Single)
\* Code 93: 43 characters directly; full ASCII pairs for the rest
C93Single == {OD!C93Alphabet[i] : i \in 1..43}
C93Len(c) == IF Vals(c) \subseteq C93Single THEN c.cn ELSE IF c.cn > 80 THEN c.cn ELSE SumLen(c, 1, C93Single)
\* Codabar: data characters, and the guards a user may supply (A-D, or T N * E, either case)
CBarData9 == Digits \cup {45, 36}                                  \* 0-9 - $   : 9 modules
CBarData10 == {58, 47, 46, 43}                                     \* : / . +   : 10 modules
CBarGuards == {65, 66, 67, 68, 84, 78, 42, 69, 97, 98, 99, 100, 116, 110, 101}
\* Code 128: 7-bit characters and the four function characters, which the writer takes as U+00F1..U+00F4 (UTF-8 C3 B1..B4)
C128Bytes == (0..127) \cup {195, 177, 178, 179, 180}
C128CharsLB(c) == IF AsciiOnly(c) THEN c.cn ELSE CeilDiv(c.cn, 2)

\* contents the symbology cannot represent: refusal is certain
ContentErr(c) ==
  LET wr == c.wr IN
  CASE wr = "QR" -> (LET vh == QRVersionHint(c) IN
                     IF vh.kind = "int" THEN ~QRFits(c, vh.v, QRLevelLB(c)) ELSE QRMinVersion(c) = 0)
    [] wr = "DM" -> Vals(c) \cap DMBadBytes # {} \/ DMCodewordsLB(c) > DMMaxCap(c)
    [] wr = "EAN13" -> ~EANOk(c, 13)
    [] wr = "EAN8" -> ~EANOk(c, 8)
    [] wr = "UPCA" -> ~EANOk(c, 12)
    [] wr = "UPCE" -> ~UPCEOk(c)
    [] wr = "ITF" -> ~(AllDigits(c) /\ c.cn % 2 = 0 /\ c.cn <= 80)
    [] wr = "C39" -> ~AsciiOnly(c) \/ C39Len(c) > 80
    [] wr = "C93" -> ~AsciiOnly(c) \/ C93Len(c) > 80
    [] wr = "C128" -> \/ ~(Vals(c) \subseteq C128Bytes) \/ C128CharsLB(c) > 80
                      \/ (CodeSetHint(c.hints) = "A" /\ Vals(c) \cap (96..127) # {})
                      \/ (CodeSetHint(c.hints) = "B" /\ Vals(c) \cap (0..31) # {})
                      \/ (CodeSetHint(c.hints) = "C" /\ Vals(c) \cap ((0..127) \ Digits) # {})
                      \/ (CodeSetHint(c.hints) = "C" /\ AllDigits(c) /\ c.cn % 2 = 1)
    [] wr = "CBAR" -> ~(Vals(c) \subseteq (CBarData9 \cup CBarData10 \cup CBarGuards))
    [] OTHER -> FALSE
\* contents the symbology certainly represents (given the hints that shape the symbol)
ContentOk(c) ==
  LET wr == c.wr IN
  CASE wr = "QR" -> QRExact(c) /\ ECHint(c.hints) \in 1..4 /\
                    (LET vh == QRVersionHint(c) IN
                     IF vh.kind = "int" THEN QRFitsExact(c, vh.v, ECHint(c.hints))
                     ELSE vh.kind = "none" /\ \E v \in 1..40 : QRFitsExact(c, v, ECHint(c.hints)))
    [] wr = "DM" -> /\ AsciiOnly(c) /\ ~HasHint(c.hints, "MIN_SIZE") /\ ~HasHint(c.hints, "MAX_SIZE")
                    /\ IF ShapeHint(c.hints) = 2 THEN (c.cn <= 12 \/ (AllDigits(c) /\ c.cn <= 98))
                       ELSE (c.cn <= 12 \/ (AllDigits(c) /\ c.cn <= 3116))
    [] wr = "EAN13" -> EANOk(c, 13)
    [] wr = "EAN8" -> EANOk(c, 8)
    [] wr = "UPCA" -> EANOk(c, 12)
    [] wr = "UPCE" -> UPCEOk(c)
    [] wr = "ITF" -> AllDigits(c) /\ c.cn % 2 = 0 /\ c.cn <= 80
    [] wr = "C39" -> AsciiOnly(c) /\ C39Len(c) <= 80
    [] wr = "C93" -> AsciiOnly(c) /\ C93Len(c) <= 80
    [] wr = "C128" -> /\ AsciiOnly(c) /\ c.cn <= 80
                      /\ CASE CodeSetHint(c.hints) = "none" -> TRUE
                           [] CodeSetHint(c.hints) = "A" -> Vals(c) \subseteq (0..95)
                           [] CodeSetHint(c.hints) = "B" -> Vals(c) \subseteq (33..127)
                           [] CodeSetHint(c.hints) = "C" -> AllDigits(c) /\ c.cn % 2 = 0
                           [] OTHER -> FALSE
    [] wr = "CBAR" -> Vals(c) \subseteq CBarData9 \/ (Vals(c) \subseteq (CBarData9 \cup CBarData10) /\ c.cn <= 200)
    [] OTHER -> FALSE

(* ------------------------------------------------------------------ R and A: the outcome class *)
Relevant(wr, key) ==
  CASE ClassOf(wr) = "qr" -> key \in {"ERROR_CORRECTION", "CHARACTER_SET", "MARGIN", "QR_VERSION", "QR_MASK_PATTERN", "GS1_FORMAT"}
    [] ClassOf(wr) = "dm" -> key \in {"DATA_MATRIX_SHAPE", "MIN_SIZE", "MAX_SIZE"}
    [] OTHER -> key = "MARGIN" \/ (wr = "C128" /\ key = "FORCE_CODE_SET")
\* a hint value of the accepted type whose refusal the API fixes
HintErr(wr, hs) ==
  CASE ClassOf(wr) = "qr" -> \/ ECHint(hs) = 0
                             \/ IntHint(hs, "MARGIN").kind = "bad"
                             \/ CharsetHint(hs).kind = "bad"
                             \/ (HasHint(hs, "QR_VERSION") /\ LET x == IntHint(hs, "QR_VERSION") IN
                                                              x.kind = "bad" \/ (x.kind = "int" /\ x.v \notin 1..40))
    [] ClassOf(wr) = "dm" -> FALSE
    [] OTHER -> IntHint(hs, "MARGIN").kind = "bad" \/ (wr = "C128" /\ CodeSetHint(hs) = "bad")
\* hint values in range: the call must not fail because of them (hints a writer does not read are always harmless)
HintsInRange(wr, hs) ==
  /\ ~HintErr(wr, hs)
  /\ (Relevant(wr, "MARGIN") => LET m == IntHint(hs, "MARGIN") IN m.kind = "none" \/ (m.kind = "int" /\ m.v \in 0..2000))
  /\ (ClassOf(wr) = "qr" => /\ ECHint(hs) \in 1..4 /\ CharsetHint(hs).kind \in {"none", "known"}
                            /\ IntHint(hs, "QR_VERSION").kind \in {"none", "int"}
                            /\ IntHint(hs, "QR_MASK_PATTERN").kind \in {"none", "int", "bad"}
                            /\ (HasHint(hs, "GS1_FORMAT") => HintOf(hs, "GS1_FORMAT").t \in {1, 2}))
  /\ (ClassOf(wr) = "dm" => /\ (HasHint(hs, "DATA_MATRIX_SHAPE") => HintOf(hs, "DATA_MATRIX_SHAPE").t = 4)
                            /\ (HasHint(hs, "MIN_SIZE") => HintOf(hs, "MIN_SIZE").t = 5)
                            /\ (HasHint(hs, "MAX_SIZE") => HintOf(hs, "MAX_SIZE").t = 5))
  /\ (wr = "C128" => CodeSetHint(hs) \in {"none", "A", "B", "C"})
\* the part of the outcome class that does not depend on the contents: "err" | "open"
ConfigClass(wr, fmt, w, h, hs) == IF FmtName(fmt) # OwnFormat(wr) \/ w < 0 \/ h < 0 \/ HintErr(wr, hs) THEN "err" ELSE "open"
MustErr(c) == c.cn = 0 \/ ConfigClass(c.wr, c.fmt, c.w, c.h, c.hints) = "err" \/ ContentErr(c)
\* a requested size of 2^30 or more (reported clamped to 2^30: the driver also asks for sizes at the top of the int range) cannot be
\* allocated: the reaction is not fixed, but T and D still bind
HugeSize(c) == c.w >= 1073741824 \/ c.h >= 1073741824
MustOk(c) == ~MustErr(c) /\ ~HugeSize(c) /\ HintsInRange(c.wr, c.hints) /\ ContentOk(c)
Expect(c) == IF MustErr(c) THEN "err" ELSE IF MustOk(c) THEN "ok" ELSE "any"

(* ------------------------------------------------------------------ D: the symbol and the matrix *)
\* module counts of the 1-D symbols (NaturalLaws in MC_EncTotality derives them from the symbol definitions of OneD.tla)
EAN13Modules == 95   EAN8Modules == 67   UPCEModules == 51
C39Modules(n) == (13 * (n + 2)) - 1          \* n characters between the start/stop characters, narrow gaps
C93Modules(n) == (9 * (n + 4)) + 1           \* n characters, two check characters, start, stop, termination bar
ITFModules(n) == (9 * n) + 9                 \* n digits, wide = 3 modules
C128Modules(k) == (11 * k) + 13              \* k characters incl. start and check, 13-module stop
CBarModules(n9, n10) == (10 * n9) + (11 * n10) - 1     \* characters of 9 / 10 modules, narrow gaps between them
\* is sw x sh a symbol of the writer's symbology that can carry the contents under the hints?
SymbolOk(c, sw, sh) ==
  LET wr == c.wr IN
  CASE wr = "QR" -> /\ sw = sh /\ \E v \in 1..40 : sw = QR!Dim(v)
                    /\ LET v == (sw - 17) \div 4  vh == QRVersionHint(c) IN
                       /\ (vh.kind = "int" => v = vh.v)
                       /\ QRFits(c, v, QRLevelLB(c))
    [] wr = "DM" -> LET i == DM!SizeIdx(sh, sw) IN
                    i # 0 /\ i \in DMAdmissibleSet(c) /\ DM!NData(DM!T7[i]) >= DMCodewordsLB(c)
    [] wr \in {"EAN13", "UPCA"} -> sh = 1 /\ sw = EAN13Modules
    [] wr = "EAN8" -> sh = 1 /\ sw = EAN8Modules
    [] wr = "UPCE" -> sh = 1 /\ sw = UPCEModules
    [] wr = "ITF" -> sh = 1 /\ sw = ITFModules(c.cn)
    [] wr = "C39" -> sh = 1 /\ (IF c.cn <= 80 THEN sw = C39Modules(C39Len(c)) ELSE sw >= C39Modules(c.cn))
    [] wr = "C93" -> sh = 1 /\ (IF c.cn <= 80 THEN sw = C93Modules(C93Len(c)) ELSE sw >= C93Modules(c.cn))
    [] wr = "C128" -> sh = 1 /\ (sw - 13) % 11 = 0 /\ sw >= C128Modules(2 + CeilDiv(C128CharsLB(c), 2))
    [] wr = "CBAR" -> sh = 1 /\ sw >= CBarModules(c.cn, 0) /\ (Vals(c) \subseteq CBarData9 => sw = CBarModules(c.cn, 2))
    [] OTHER -> FALSE
\* the returned matrix against the symbol and the request
DimsOk(c, sw, sh, ow, oh) ==
  /\ ow >= sw /\ oh >= sh
  /\ (ClassOf(c.wr) \in {"qr", "1d"} => ow >= Max2(c.w, 1) /\ oh >= Max2(c.h, 1))

(* ------------------------------------------------------------------ T, R, A, D on one observation *)
\* o = [mat, err, panic, hang: 0/1, ow, oh: size of the matrix, sok: 0/1 the symbol itself could be obtained, sw, sh]
Total(o) == o.panic = 0 /\ o.hang = 0 /\ (o.mat = 1) # (o.err = 1)
Refused(o) == o.err = 1 /\ o.mat = 0
Conforms(c, o) ==
  /\ Total(o)
  /\ (Expect(c) = "err" => Refused(o))
  /\ (Expect(c) = "ok" => o.mat = 1)
  /\ (o.mat = 1 => /\ o.sok = 1 /\ SymbolOk(c, o.sw, o.sh)
                   /\ DimsOk(c, o.sw, o.sh, o.ow, o.oh))
\* which clause fails (for diagnostics): 0 none, 1 T, 2 R, 3 A, 4 D-symbol, 5 D-matrix
Verdict(c, o) ==
  IF ~Total(o) THEN 1
  ELSE IF Expect(c) = "err" /\ ~Refused(o) THEN 2
  ELSE IF Expect(c) = "ok" /\ o.mat # 1 THEN 3
  ELSE IF o.mat = 1 /\ ~(o.sok = 1 /\ SymbolOk(c, o.sw, o.sh)) THEN 4
  ELSE IF o.mat = 1 /\ ~DimsOk(c, o.sw, o.sh, o.ow, o.oh) THEN 5
  ELSE 0
=============================================================================
