------------------------------ MODULE MC_Points ------------------------------
(* Every triple of points of an N x N grid: the procedure refines the law, the law is satisfiable for every input, it       *)
(* determines the answer for generic triples (so it does not matter in which order a detector found the patterns), and a    *)
(* right-angled "L" in image coordinates comes out as bottom-left, top-left (the corner), top-right.                        *)
EXTENDS Points, FiniteSets, TLC
CONSTANT N
VARIABLES in, phase
vars == <<in, phase>>
Pt == (0..(N - 1)) \X (0..(N - 1))
Init == in = <<<<0, 0>>, <<0, 0>>, <<0, 0>>>> /\ phase = "i"
Next == phase = "i" /\ phase' = "c" /\ in' \in Pt \X Pt \X Pt
Spec == Init /\ [][Next]_vars
Laws == phase = "c" =>
  /\ OrderOK(in, Order(in))
  /\ Allowed(in) # {}
  /\ Generic(in) => /\ Cardinality(Allowed(in)) = 1
                    /\ \A s \in Perms3 : Order(<<in[s[1]], in[s[2]], in[s[3]]>>) = Order(in)
  \* an upright L: corner at in[1], arm to the right in[2], arm downwards in[3] (y grows downwards)
  /\ (in[2][2] = in[1][2] /\ in[2][1] > in[1][1] /\ in[3][1] = in[1][1] /\ in[3][2] > in[1][2])
        => Order(in) = <<in[3], in[1], in[2]>>
=============================================================================
