--------------------------- MODULE Trace_BitSource ---------------------------
(* X04: recorded calls on the real common.BitSource against BitSource.tla.  "new" makes a source over e.bytes; "read"     *)
(* calls ReadBits(e.n) and logs the answer (err, hi = value >> 16, lo = value & 0xFFFF) and the state afterwards           *)
(* (bo = GetByteOffset, bi = GetBitOffset, av = Available).  On a mismatch validation goes on from the logged state.       *)
EXTENDS BitSource, TraceLib
VARIABLES l, bad, bytes, pos
vars == <<l, bad, bytes, pos>>
Init == l = 1 /\ bad = <<>> /\ bytes = <<>> /\ pos = 0
StateOK(e, p) == e.bo = ByteOffset(p) /\ e.bi = BitOffset(p) /\ e.av = Available(bytes, p)
Logged(e) == IF e.bi \in 0..7 /\ e.bo >= 0 /\ (8 * e.bo) + e.bi <= NBits(bytes) THEN (8 * e.bo) + e.bi ELSE -1
Next == /\ l <= NEv /\ l' = l + 1
        /\ LET e == Tr[l] IN
           CASE e.op = "new" ->
                  /\ bytes' = e.bytes /\ pos' = 0
                  /\ bad' = IF e.panic = 0 /\ e.bo = 0 /\ e.bi = 0 /\ e.av = 8 * Len(e.bytes) THEN bad ELSE Append(bad, <<l, "new">>)
             [] e.op = "read" ->
                  LET r == Read(bytes, pos, e.n)
                      ansok == e.panic = 0 /\ e.err = r.err /\ (r.err = 0 => e.hi = r.hi /\ e.lo = r.lo)
                      stok == e.panic = 0 /\ StateOK(e, r.pos)
                      lg == Logged(e) IN
                  /\ bytes' = bytes
                  /\ pos' = IF stok \/ lg < 0 THEN r.pos ELSE lg
                  /\ bad' = IF ansok /\ stok THEN bad
                            ELSE Append(bad, <<l, IF e.panic = 1 THEN "panic" ELSE IF ~ansok THEN "answer" ELSE "state">>)
             [] OTHER -> bytes' = bytes /\ pos' = pos /\ bad' = Append(bad, <<l, "premise">>)
Spec == Init /\ [][Next]_vars
Done == l = NEv + 1 => WriteBad(l, bad)
=============================================================================
