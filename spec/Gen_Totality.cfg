SPECIFICATION Spec
CONSTANTS
  Mode = "gen"
  Full = TRUE
CHECK_DEADLOCK FALSE
