------------------------------- MODULE MC_DM -------------------------------
(* Design-level checks of the Data Matrix reference (DMTables, DMPlacement): Table 7 structural laws for the  *)
(* 30 sizes, Annex F placement covers every mapping cell exactly once with codewords 1..n and 8 bits each,    *)
(* uses every corner case where the standard says, parity has zero syndromes, randomisation is bijective,     *)
(* and symbol selection is monotone in the capacity order.                                                    *)
EXTENDS DMPlacement
VARIABLES phase, i
vars == <<phase, i>>
SizeLaws(k) ==
  LET t == T7[k] nr == MapRows(t) nc == MapCols(t) map == Place(nr, nc)
      cells == {map[r][c] : r \in 1..nr, c \in 1..nc}
      ncw == NData(t) + NEcc(t)
      fixedCorner == (nr * nc) % 8 = 4
      data == [j \in 1..NData(t) |-> (j * 37 + k) % 256]
      all == Codewords(t, data)
  IN /\ TableLaw(t)
     /\ (0 \in cells) = fixedCorner /\ (1 \in cells) = fixedCorner      \* the 2x2 fixed pattern: two dark, two light modules
     /\ \A chr \in 1..ncw, bit \in 1..8 : 10*chr + bit \in cells
     /\ Cardinality(cells) = 8 * ncw + (IF fixedCorner THEN 2 ELSE 0)
     /\ (fixedCorner => map[nr][nc] = 1 /\ map[nr-1][nc-1] = 1 /\ map[nr][nc-1] = 0 /\ map[nr-1][nc] = 0)
     /\ Len(all) = ncw
     /\ \A b \in 1..NBlk(t) : LET w == [j \in 1..BlockDataLen(t, b) + EccPerBlock(t) |-> all[BlockCwIdx(t, b, j)]] IN
                               \A s \in 1..EccPerBlock(t) : Syndrome(w, s) = 0
     /\ Lookup(NData(t), IF IsRect(t) THEN 2 ELSE 1, <<>>, <<>>) = k
     /\ SizeIdx(SRows(t), SCols(t)) = k
GlobalLaws ==
  /\ TableLaws
  /\ OrderLaw
  /\ \A p \in 1..1558 : Pad253(p) \in 1..254 /\ \A v \in {0, 1, 128, 255} : UnRand255(Rand255(v, p), p) = v /\ Rand255(v, p) \in 0..255
  /\ \A n \in 1..1558 : Lookup(n, 0, <<>>, <<>>) # 0 /\ NData(T7[Lookup(n, 0, <<>>, <<>>)]) >= n
                         /\ (n > 1 => NData(T7[Lookup(n, 0, <<>>, <<>>)]) >= NData(T7[Lookup(n - 1, 0, <<>>, <<>>)]))
  /\ Lookup(1559, 0, <<>>, <<>>) = 0 /\ Lookup(50, 2, <<>>, <<>>) = 0 /\ Lookup(1558, 1, <<>>, <<>>) = 24
  /\ Cardinality({ExpT[k] : k \in 1..255}) = 255
Init == phase = "g" /\ i \in 0..NSizes          \* invariants of initial states are evaluated by one thread: keep them trivial
Next == phase = "g" /\ phase' = "s" /\ i' = i
Spec == Init /\ [][Next]_vars
Inv == phase = "s" => (IF i = 0 THEN GlobalLaws ELSE SizeLaws(i))
=============================================================================
