------------------------------ MODULE MC_Bits ------------------------------
(* Design-level model of C16.  The state machine applies every public operation of the abstract containers  *)
(* (Bits.tla) to a BitMatrix `m` and a BitArray `s`.  Two uses:                                              *)
(*  MC_Bits.cfg  - exhaustive exploration on tiny grids; the invariant Laws states the algebra a plain bit    *)
(*                 container obeys (involutions, rotation group, tight enclosing rectangle, string round     *)
(*                 trip, next-set minimality, MSB-first byte export) - a check of the oracle itself.          *)
(*  Gen_Bits.cfg - simulation on word-boundary sizes with Record = TRUE: every behaviour is printed by the    *)
(*                 Emit action as a JSON operation history that the harness replays on the real containers.  *)
EXTENDS Bits, Json
CONSTANTS Sizes,      \* set of <<w, h>> the matrix may be created with
          ASizes,     \* set of initial BitArray sizes
          MaxDepth, Record
VARIABLES m, s, hist, depth, kind
vars == <<m, s, hist, depth, kind>>

Xs(n) == {x \in {0, 1, 15, 16, 30, 31, 32, 33, 63, 64, n - 2, n - 1} : x >= 0 /\ x < n}
Pat(p, n) == [i \in 1..n |-> CASE p = 1 -> 1 [] p = 2 -> i % 2 [] p = 3 -> (IF i = 1 \/ i = n THEN 1 ELSE 0) [] OTHER -> (IF i % 3 = 0 THEN 1 ELSE 0)]
PatRows(p, w, h) == [y \in 1..h |-> Pat(((p + y) % 4) + 1, w)]
Ev(k, op, a, b) == [k |-> k, op |-> op, a |-> a, b |-> b]

MEvents(mm) == LET w == W(mm) h == H(mm) IN
     {Ev("m", op, <<x, y>>, <<>>) : op \in {"set", "unset", "flip", "get", "at"}, x \in Xs(w), y \in Xs(h)}
  \cup {Ev("m", op, <<>>, <<>>) : op \in {"flipall", "clear", "rot180", "rot90", "enclosing", "topleft", "bottomright", "dims", "bounds"}}
  \cup {Ev("m", "region", <<l, t, rw, rh>>, <<>>) : l \in Xs(w), t \in Xs(h), rw \in {1, w, w + 1}, rh \in {1, h}}
  \cup {Ev("m", "xor", <<w, h>>, ChunkRows(PatRows(p, w, h))) : p \in 1..3}
  \cup {Ev("m", "xor", <<w + 1, h>>, ChunkRows(PatRows(1, w + 1, h)))}
  \cup {Ev("m", "setrow", <<y>>, <<Chunks(Pat(p, w))>>) : y \in Xs(h), p \in 1..3}
  \cup {Ev("m", "getrow", <<y, x>>, <<>>) : y \in Xs(h), x \in {-1, 0, 1, 32}}
  \cup {Ev("m", op, <<v>>, <<>>) : op \in {"tostring", "reparse"}, v \in 0..3}
  \cup {Ev("m", "get", <<w, 0>>, <<>>), Ev("m", "get", <<-1, 0>>, <<>>), Ev("m", "at", <<0, h>>, <<>>)}

AEvents(ss) == LET n == Len(ss) IN
     {Ev("a", op, <<i>>, <<>>) : op \in {"aset", "aflip", "aget"}, i \in Xs(n)}
  \cup {Ev("a", op, <<>>, <<>>) : op \in {"aclear", "reverse", "sizes", "astring"}}
  \cup {Ev("a", "setrange", <<i, j>>, <<>>) : i \in Xs(n), j \in Xs(n + 2)}
  \cup {Ev("a", "isrange", <<i, j, v>>, <<>>) : i \in Xs(n), j \in Xs(n + 2), v \in {0, 1}}
  \cup {Ev("a", "appendbit", <<v>>, <<>>) : v \in {0, 1}}
  \cup {Ev("a", "appendbits", <<hi, lo, k>>, <<>>) : hi \in {0, 43690, 65535}, lo \in {1, 21845}, k \in {0, 1, 8, 17, 32, 33}}
  \cup {Ev("a", "appendarr", <<k>>, <<Chunks(Pat(p, k))>>) : k \in {0, 1, 31, 33}, p \in 1..2}
  \cup {Ev("a", "axor", <<k>>, <<Chunks(Pat(p, k))>>) : k \in {n, n + 1}, p \in 2..3}
  \cup {Ev("a", op, <<i>>, <<>>) : op \in {"nextset", "nextunset"}, i \in Xs(n + 2)}
  \cup {Ev("a", "tobytes", <<o, nb>>, <<>>) : o \in {0, 1, 8}, nb \in {k \in {0, 1, 2} : 8*k + 8 <= n}}

Init == /\ \E sz \in Sizes : m = Zero(sz[1], sz[2]) /\ hist = IF Record THEN <<Ev("m", "new", sz, <<>>)>> ELSE <<>>
        /\ s = <<>> /\ depth = 0 /\ kind = "m"
Log(e) == hist' = IF Record THEN Append(hist, e) ELSE hist
StepM == /\ kind = "m" /\ depth < MaxDepth
         /\ \E e \in MEvents(m) : m' = MStep(m, e).m /\ Log(e)
         /\ depth' = depth + 1 /\ UNCHANGED <<s, kind>>
SwitchA == /\ kind = "m" /\ depth < MaxDepth
           /\ \E n \in ASizes : s' = AZero(n) /\ Log(Ev("a", "anew", <<n>>, <<>>))
           /\ kind' = "a" /\ depth' = depth + 1 /\ UNCHANGED m
StepA == /\ kind = "a" /\ depth < MaxDepth /\ Len(s) < 100
         /\ \E e \in AEvents(s) : s' = AStep(s, e).s /\ Log(e)
         /\ depth' = depth + 1 /\ UNCHANGED <<m, kind>>
Emit == /\ Record /\ depth = MaxDepth
        /\ PrintT(<<"GEN", ToJson(hist)>>)
        /\ depth' = MaxDepth + 1 /\ UNCHANGED <<m, s, hist, kind>>
Next == StepM \/ SwitchA \/ StepA \/ Emit
Spec == Init /\ [][Next]_vars

(* ---- laws of a plain bit container (checked in every reachable state) *)
MLaws(mm) ==
  /\ MRot180(MRot180(mm)) = mm
  /\ MRot90(MRot90(mm)) = MRot180(mm)
  /\ MRot90(MRot90(MRot90(MRot90(mm)))) = mm
  /\ MFlipAll(MFlipAll(mm)) = mm
  /\ MXor(mm, mm) = Zero(W(mm), H(mm))
  /\ LET r == Enclosing(mm) IN
       IF r = <<>> THEN mm = Zero(W(mm), H(mm))
       ELSE /\ \A x \in 0..W(mm)-1, y \in 0..H(mm)-1 :
                 mm[y+1][x+1] = 1 => x >= r[1] /\ x < r[1] + r[3] /\ y >= r[2] /\ y < r[2] + r[4]
            /\ \E y \in 0..H(mm)-1 : mm[y+1][r[1]+1] = 1
            /\ \E y \in 0..H(mm)-1 : mm[y+1][r[1]+r[3]] = 1
            /\ TopLeft(mm)[2] = r[2] /\ BottomRight(mm)[2] = r[2] + r[4] - 1
            /\ mm[TopLeft(mm)[2]+1][TopLeft(mm)[1]+1] = 1
  /\ UnChunkRows(ChunkRows(mm), W(mm), H(mm)) = mm
  /\ Len(MString(mm, 0)) = H(mm) * (W(mm) + 1)
ALaws(ss) ==
  /\ AReverse(AReverse(ss)) = ss
  /\ UnChunks(Chunks(ss), Len(ss)) = ss
  /\ \A f \in 0..Len(ss)+1 :
       LET k == ANextSet(ss, f) IN /\ k <= Len(ss) /\ (k < Len(ss) => ss[k+1] = 1 /\ k >= f)
                                   /\ \A i \in f..k-1 : i < Len(ss) => ss[i+1] = 0
  /\ \A f \in 0..Len(ss) : ANextUnset(ss, f) = ANextSet([i \in 1..Len(ss) |-> 1 - ss[i]], f)
  /\ Len(ss) >= 8 => ValueBits(0, ABytes(ss, 0, 1)[1], 8) = SubSeq(ss, 1, 8)
  /\ AIsRange(ASetRange(ss, 0, Len(ss)), 0, Len(ss), 1) = 1
Laws == MLaws(m) /\ ALaws(s)
MCSizes == {<<1,1>>, <<2,1>>, <<3,2>>, <<2,3>>}
GenSizes == {<<1,1>>, <<31,2>>, <<32,3>>, <<33,1>>, <<63,2>>, <<64,3>>, <<65,2>>, <<96,1>>, <<130,2>>}
=============================================================================
