---------------------------- MODULE MC_RunLength ----------------------------
(* Design-level models of C20 (two independent state machines in one module, selected by INIT/NEXT in the cfg). *)
(*  MC_RunLengthRec.cfg   - run recording as a pixel-step automaton (one pixel per step, a counter index, the   *)
(*      counters; the reverse variant first walks left over n+1 colour changes).  Every row up to MaxLen is     *)
(*      built pixel by pixel, every start and every counter count 1..MaxN is begun.  Invariant RecAgree: the    *)
(*      automaton's outcome, the declarative definition and the linear formulation used by trace validation     *)
(*      coincide.  With Record = TRUE every finished run is printed as a case (inputs + expected outcome) that  *)
(*      the harness replays on the real RecordPattern / RecordPatternInReverse.                                 *)
(*  MC_RunLengthScore.cfg - one state per (pattern, allowance); invariant ScoreLaws quantifies over ALL counter *)
(*      vectors with entries 0..Bound(len): under-resolved => +Inf, exact multiple => 0, score(k*c) = score(c), *)
(*      0 <= score < 2, score = 0 iff proportional, a larger allowance never lowers a finite score.  With       *)
(*      Record = TRUE the expected outcome of every vector is printed as one block per (pattern, allowance).    *)
EXTENDS RunLength, Json
CONSTANTS MaxLen, MaxN, MaxK, Record, Extra,
          Bound3, Bound4, Bound5          \* largest counter entry enumerated for 3-, 4-, 5-element patterns
VARIABLES row, st, sc
vars == <<row, st, sc>>

Idle == [ph |-> "build"]
NoCase == [ph |-> "none"]

(* ------------------------------------------------------------------ run recording automaton *)
Done(dir, start, n, out) == [ph |-> "done", dir |-> dir, start |-> start, n |-> n, out |-> out]
Fwd(dir, start, n, from) ==      \* begin recording n runs at pixel `from` (< Len(row)); the first pixel opens run 1
  [ph |-> "fwd", dir |-> dir, start |-> start, n |-> n, pos |-> from + 1, idx |-> 1, col |-> Px(row, from),
   cnt |-> [i \in 1..n |-> IF i = 1 THEN 1 ELSE 0]]

InitRec == row = <<>> /\ st = Idle /\ sc = NoCase
Grow == /\ st.ph = "build" /\ Len(row) < MaxLen
        /\ \E b \in {0, 1} : row' = Append(row, b)
        /\ UNCHANGED <<st, sc>>
BeginFwd == /\ st.ph = "build"
            /\ \E start \in 0..Len(row)+1, n \in 1..MaxN :
                 st' = IF start >= Len(row) THEN Done("fwd", start, n, NotFound) ELSE Fwd("fwd", start, n, start)
            /\ UNCHANGED <<row, sc>>
StepFwd == /\ st.ph = "fwd"
           /\ st' = IF st.pos = Len(row)                              \* the row ended
                    THEN Done(st.dir, st.start, st.n, IF st.idx = st.n THEN Found(st.cnt) ELSE NotFound)
                    ELSE IF Px(row, st.pos) = st.col                  \* same colour: the run grows
                    THEN [st EXCEPT !.pos = @ + 1, !.cnt[st.idx] = @ + 1]
                    ELSE IF st.idx = st.n                             \* colour change closes the last wanted run
                    THEN Done(st.dir, st.start, st.n, Found(st.cnt))
                    ELSE [st EXCEPT !.pos = @ + 1, !.idx = @ + 1, !.cnt[st.idx + 1] = 1, !.col = 1 - @]
           /\ UNCHANGED <<row, sc>>
BeginRev == /\ st.ph = "build"
            /\ \E start \in 0..Len(row)-1, n \in 1..MaxN :
                 st' = [ph |-> "back", dir |-> "rev", start |-> start, n |-> n, pos |-> start, left |-> n + 1,
                        col |-> Px(row, start)]
            /\ UNCHANGED <<row, sc>>
StepBack == /\ st.ph = "back"
            /\ st' = IF st.pos = 0 THEN Done("rev", st.start, st.n, NotFound)      \* ran off the left edge
                     ELSE IF Px(row, st.pos - 1) = st.col THEN [st EXCEPT !.pos = @ - 1]
                     ELSE IF st.left = 1 THEN Fwd("rev", st.start, st.n, st.pos)   \* n+1-th change: runs begin at pos
                     ELSE [st EXCEPT !.pos = @ - 1, !.left = @ - 1, !.col = 1 - @]
            /\ UNCHANGED <<row, sc>>
EmitRec == /\ st.ph = "done" /\ Record
           /\ PrintT(<<"GEN", ToJson([op |-> st.dir, bits |-> row, start |-> st.start, n |-> st.n,
                                      xerr |-> st.out.err, xc |-> st.out.c])>>)
           /\ st' = [ph |-> "end"] /\ UNCHANGED <<row, sc>>
NextRec == Grow \/ BeginFwd \/ StepFwd \/ BeginRev \/ StepBack \/ EmitRec
SpecRec == InitRec /\ [][NextRec]_vars

RecAgree ==
  /\ st.ph = "done" =>
       /\ st.out = (IF st.dir = "fwd" THEN RecordDef(row, st.start, st.n) ELSE RecordRevDef(row, st.start, st.n))
       /\ st.out = (IF st.dir = "fwd" THEN RecordFwd(row, st.start, st.n) ELSE RecordRev(row, st.start, st.n))
  /\ st.ph = "fwd" => /\ st.idx \in 1..st.n /\ st.pos \in 1..Len(row)                 \* never reads outside the row
                      /\ (st.dir = "fwd" => Sum(st.cnt) = st.pos - st.start)
  /\ st.ph = "back" => st.pos \in 0..Len(row)-1
\* what a successful recording means, stated directly on the pixels (checked on the definition)
RecMeaning ==
  st.ph = "done" /\ st.out.err = 0 =>
    LET c == st.out.c
        from == IF st.dir = "fwd" THEN st.start ELSE RunStartDef(row, st.start) - Sum(c)
        B(i) == from + Sum(SubSeq(c, 1, i - 1))                     \* first pixel of run i
    IN /\ Len(c) = st.n /\ from >= 0 /\ from + Sum(c) <= Len(row)
       /\ \A i \in 1..st.n : c[i] >= 1 /\ SameColour(row, B(i), B(i) + c[i])
       /\ \A i \in 2..st.n : Px(row, B(i)) # Px(row, B(i) - 1)
       /\ (from + Sum(c) < Len(row) => Px(row, from + Sum(c)) # Px(row, from + Sum(c) - 1))
       /\ (st.dir = "rev" => from >= 1 /\ Px(row, from - 1) # Px(row, from) /\ from + Sum(c) = RunStartDef(row, st.start))

(* ------------------------------------------------------------------ score laws *)
Allowances == {<<7, 10>>, <<45, 100>>, <<1, 2>>, <<1, 4>>, <<0, 1>>, <<3, 2>>}
QuickExtra == {<<1, 4>>}                                   \* quick tier: the symbology's own allowance + one more
ScorePats == EanLG \cup RssFinders \cup {p \in Guards : Len(p) <= 5} \cup Itf5
OwnAllowance(p) == IF p \in EanLG \/ p \in {<<1,1,1>>, <<1,1,1,1,1>>} THEN <<7, 10>>
                   ELSE IF p \in RssFinders THEN <<45, 100>> ELSE <<1, 2>>
Bound(n) == CASE n = 3 -> Bound3 [] n = 4 -> Bound4 [] OTHER -> Bound5
Pow(b, e) == b ^ e
\* j-th counter vector (0-based, lexicographic, first element most significant) of n entries 0..m
Vec(j, n, m) == [i \in 1..n |-> (j \div Pow(m + 1, n - i)) % (m + 1)]
NVec(n, m) == Pow(m + 1, n)

InitScore == row = <<>> /\ st = Idle /\ sc = NoCase
\* the pattern families, printed once so that the seeded input generator draws its patterns from the specification
EmitFamilies == /\ sc.ph = "none" /\ Record
                /\ PrintT(<<"FAM", ToJson([ean |-> EanLG, ean4 |-> Ean4, rss |-> RssFinders, guards |-> Guards, itf |-> Itf5,
                                           c128 |-> Code128Shapes, c93 |-> Code93Shapes, c39 |-> Code39Shapes])>>)
                /\ sc' = [ph |-> "end"] /\ UNCHANGED <<row, st>>
PickScore == /\ sc.ph = "none"
             /\ \E p \in ScorePats, own \in {0, 1}, a \in Allowances :
                  /\ own = 1 => a = OwnAllowance(p)
                  /\ own = 0 => a # OwnAllowance(p) /\ a \in Extra
                  /\ sc' = [ph |-> "case", p |-> p, vn |-> a[1], vd |-> a[2]]
             /\ UNCHANGED <<row, st>>
EmitScore == /\ sc.ph = "case" /\ Record
             /\ LET n == Len(sc.p) m == Bound(n) IN
                PrintT(<<"GEN", ToJson([op |-> "pmv", p |-> sc.p, vn |-> sc.vn, vd |-> sc.vd, m |-> m,
                    exp |-> [j \in 1..NVec(n, m) |-> LET s == Score(Vec(j - 1, n, m), sc.p, sc.vn, sc.vd)
                                                     IN <<s.inf, s.amb, s.num>>]])>>)
             /\ sc' = [ph |-> "end"] /\ UNCHANGED <<row, st>>
NextScore == PickScore \/ EmitScore \/ EmitFamilies
SpecScore == InitScore /\ [][NextScore]_vars

Laws(c, p, vn, vd) ==
  LET s == Score(c, p, vn, vd)  T == Sum(c)  P == Sum(p) IN
  /\ T < P => s.inf = 1                                                      \* fewer pixels than modules
  /\ T >= P => \A k \in 2..MaxK : LET s2 == Score(Scale(k, c), p, vn, vd)    \* scale invariance
                                  IN SameScore(s, s2) /\ s2.amb <= s.amb
  /\ s.inf = 0 => /\ s.num >= 0 /\ s.num < 2 * s.den /\ s.den = P * T
                  /\ (s.num = 0 <=> Multiple(c, p))
                  /\ LET s3 == Score(c, p, vn + vd, vd) IN s3.inf = 0 /\ s3.num = s.num   \* larger allowance
  /\ (T >= P /\ Multiple(c, p)) => s.inf = 0 /\ s.num = 0
  /\ (s.inf = 1 /\ T >= P) => \E i \in 1..Len(c) : Abs(c[i] * P - p[i] * T) * vd > vn * T
ScoreLaws ==
  sc.ph = "case" =>
    LET n == Len(sc.p) m == Bound(n) IN
    /\ \A j \in 0..NVec(n, m)-1 : Laws(Vec(j, n, m), sc.p, sc.vn, sc.vd)
    /\ \A k \in 1..MaxK : LET s == Score(Scale(k, sc.p), sc.p, sc.vn, sc.vd) IN s.inf = 0 /\ s.num = 0 /\ s.amb <= (IF sc.vn = 0 THEN 1 ELSE 0)
\* structural sanity of the pattern families (input domains)
ASSUME Families ==
  /\ \A p \in EanLG : Sum(p) = 7 /\ Len(p) = 4
  /\ EanLG \subseteq Ean4 /\ \A p \in EanL : ((p[2] + p[4]) % 2) = 1        \* set A: space,bar,space,bar with odd bar parity
  /\ \A p \in RssFinders : Len(p) = 4 /\ Sum(p) = 14
  /\ \A p \in Itf5 : Len(p) = 5 /\ Sum(p) \in {7, 9}
=============================================================================
