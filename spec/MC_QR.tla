------------------------------- MODULE MC_QR -------------------------------
(* Design-level model checking of the QR specification library (QRTables, QRSymbol, QRStream):               *)
(*  - structural laws of the standard's tables for all 40 versions x 4 levels (a typo in the transcription   *)
(*    cannot satisfy them), BCH minimum distances, published capacities;                                     *)
(*  - the reference symbol construction round-trips through the reference read-out and parser (so the        *)
(*    oracle used by trace validation is itself consistent), every block has zero syndromes;                 *)
(*  - C13: the two-pass version recommendation (provisional version with version-1 count width, then final)  *)
(*    equals the definitional minimum for EVERY character count - settles the "not sure this works in 100%   *)
(*    of cases" comment of the encoder at the design level.                                                  *)
EXTENDS QRStream
CONSTANTS MaxRTVersion, FullTables
VARIABLES phase, v, g, c
vars == <<phase, v, g, c>>
Modes == {"num", "alnum", "byte", "kanji"}

\* ---- per-version laws
VersionLaws(ver) ==
  LET fm == FMap(ver) d == Dim(ver)
      zeros == Cardinality({<<x, y>> \in (1..d) \X (1..d) : fm[y][x] = 0})
      pos == Positions(ver, fm)
  IN /\ zeros = RawModules(ver)
     /\ Len(pos) = RawModules(ver)
     /\ (FullTables => Cardinality({pos[k] : k \in 1..Len(pos)}) = Len(pos))
     /\ \A k \in 1..Len(pos) : fm[pos[k][2]+1][pos[k][1]+1] = 0
     /\ \A ec \in 1..4 : /\ DataCodewords(ver, ec) > 0
                         /\ NBlocks(ver, ec) * ECPer(ver, ec) + DataCodewords(ver, ec) = TotalCodewords(ver)
                         /\ ShortLen(ver, ec) + ECPer(ver, ec) + (IF NumLong(ver, ec) > 0 THEN 1 ELSE 0) <= 255
                         /\ DataCodewords(ver, ec) > (IF ec < 4 THEN DataCodewords(ver, ec + 1) ELSE 0)
     /\ (ver > 1 => \A i \in 1..NumAlign(ver) : Centers(ver)[i] >= 6 /\ Centers(ver)[i] <= d - 7
                                                 /\ (i > 1 => Centers(ver)[i] - Centers(ver)[i-1] >= 12 /\ Centers(ver)[i] - Centers(ver)[i-1] <= 28 /\ Centers(ver)[i] % 2 = 0))
     /\ RemainderBits(ver) \in {0, 3, 4, 7}
     /\ \A ec \in 1..4, mode \in Modes, h \in {0, 4, 12, 16} : LET cp == Capacity(mode, ver, ec, h) IN
           (cp >= 0 => Fits(mode, cp, h, ver, ec)) /\ ~Fits(mode, cp + 1, h, ver, ec)
     /\ (ver >= 7 => PopCount(VersionWord(ver)) >= 0 /\ \A u \in 7..40 : u # ver => PopCount(VersionWord(ver) ^^ VersionWord(u)) >= 8)
     /\ \A fx \in 0..d-1 : FuncVal(ver, 1, 0, fx, 6) \in {0, 1}      \* every function module has a defined value
     /\ \A x \in 0..d-1, y \in 0..d-1 : fm[y+1][x+1] = 1 => FuncVal(ver, 2, 3, x, y) \in {0, 1}
GlobalLaws ==
  /\ TableLaws
  /\ \A a \in 0..31, b \in 0..31 : a # b =>
        PopCount(FormatWord((a \div 8) + 1, a % 8) ^^ FormatWord((b \div 8) + 1, b % 8)) >= 7
  /\ \A ec \in 1..4, m \in 0..7 : BchRem(FormatWord(ec, m) ^^ 21522, 1335) = 0
  /\ \A ver \in 7..40 : BchRem(VersionWord(ver), 7973) = 0
  /\ Fits("num", 7089, 0, 40, 1) /\ ~Fits("num", 7090, 0, 40, 1)
  /\ Fits("alnum", 4296, 0, 40, 1) /\ ~Fits("alnum", 4297, 0, 40, 1)
  /\ Fits("byte", 2953, 0, 40, 1) /\ ~Fits("byte", 2954, 0, 40, 1)
  /\ Fits("kanji", 1817, 0, 40, 1) /\ ~Fits("kanji", 1818, 0, 40, 1)
  /\ Fits("num", 41, 0, 1, 1) /\ ~Fits("num", 42, 0, 1, 1) /\ Fits("byte", 7, 0, 1, 4) /\ ~Fits("byte", 8, 0, 1, 4)
  /\ \A x \in 1..255 : Mul(x, ExpT[((255 - LogT[x]) % 255) + 1]) = 1
  /\ Cardinality({ExpT[i] : i \in 1..255}) = 255

\* ---- C13: two-pass recommendation = definitional minimum
Choose(bits, ec) == LET ok == {u \in 1..40 : (bits + 7) \div 8 <= DataCodewords(u, ec)} IN
                    IF ok = {} THEN 0 ELSE CHOOSE u \in ok : \A w \in ok : u <= w
Recommend(mode, n, h, ec) == LET need(u) == h + 4 + CountBits(mode, u) + PayloadBits(mode, n)
                                 pv == Choose(need(1), ec)
                             IN IF pv = 0 THEN 0 ELSE Choose(need(pv), ec)
MaxChars(mode) == CASE mode = "num" -> 7092 [] mode = "alnum" -> 4299 [] mode = "byte" -> 2956 [] mode = "kanji" -> 1820
RecommendOK(mode, ec, h) == \A n \in 0..MaxChars(mode) : Recommend(mode, n, h, ec) = MinVersion(mode, n, h, ec)

\* ---- round trip of the reference construction
Payload(mode, n, seed) == [i \in 1..n |-> CASE mode = "num" -> (seed + 7*i) % 10 [] mode = "alnum" -> (seed + 11*i) % 45
                                            [] mode = "byte" -> (seed * 31 + 97*i) % 256 [] mode = "kanji" -> (seed * 977 + 1231*i) % 7973]
MaxN(mode, ver, ec, h) == CHOOSE n \in 0..400 : Fits(mode, n, h, ver, ec) /\ ~Fits(mode, n + 1, h, ver, ec)
RoundTrip(cs) ==
  LET ver == cs.v ec == cs.ec mode == cs.mode
      h == Len(Header(cs.eci, cs.gs1, mode)) - 4
      n == IF cs.fill = 0 THEN MaxN(mode, ver, ec, h) ELSE IF cs.fill = 1 THEN MaxN(mode, ver, ec, h) - 1 ELSE cs.fill - 2
      p == Payload(mode, n, cs.mask + ver)
      data == DataCW(mode, p, Header(cs.eci, cs.gs1, mode), ver, ec)
      cw == Stream(ver, ec, data)
      fm == FMap(ver) pos == Positions(ver, fm)
      mat == RefMatrix(ver, ec, cs.mask, cw, fm, pos)
      back == ReadCodewords(mat, ver, cs.mask, pos)
      r == Parse(Deinterleave(ver, ec, back), ver)
      B == Blocks(ver, ec, data)
  IN /\ n >= 0 => /\ back = cw
                  /\ RefCheck(mat, ver, ec, cs.mask, cw, fm, pos) = <<TRUE, TRUE, TRUE>>
                  /\ r.ok /\ r.mode = mode /\ r.units = p /\ r.eci = cs.eci /\ r.gs1 = cs.gs1
                  /\ Len(data) = DataCodewords(ver, ec)
                  /\ \A b \in 1..NBlocks(ver, ec), i \in 0..ECPer(ver, ec)-1 : Syndrome(B[b].d \o B[b].e, i) = 0
                  /\ \A b \in 1..NBlocks(ver, ec) : /\ \A i \in 1..Len(B[b].d) : cw[DataIdx(ver, ec, b, i)] = B[b].d[i]
                                                    /\ \A i \in 1..ECPer(ver, ec) : cw[EccIdx(ver, ec, b, i)] = B[b].e[i]
RTCases(ver, grp) == IF ver > MaxRTVersion THEN {}
                ELSE {[v |-> ver, ec |-> grp, mode |-> mode, mask |-> (ver + grp + f) % 8, fill |-> f, eci |-> e, gs1 |-> gg] :
                        mode \in Modes, f \in {0, 1, 2, 3, 5}, e \in {-1}, gg \in {FALSE}}
                     \cup {[v |-> ver, ec |-> grp, mode |-> "byte", mask |-> m, fill |-> 0, eci |-> e, gs1 |-> (m % 2 = 0)] :
                        m \in {grp - 1, grp + 3}, e \in {-1, 26, 200, 20000}}
C13Cases(ver, grp) == IF ver > 4 THEN {} ELSE {[k |-> "c13", mode |-> mode, ec |-> ver, h |-> h] :
                         mode \in (IF FullTables THEN Modes ELSE {<<"num", "alnum", "byte", "kanji">>[grp]}), h \in (IF FullTables THEN {0, 4, 12, 16} ELSE {(ver - 1) * 4})}

Init == phase = "v" /\ v \in 1..40 /\ g \in 1..4 /\ c = [k |-> "none"]
Next == /\ phase = "v" /\ phase' = "c" /\ v' = v /\ g' = g
        /\ c' \in {[k |-> "rt", cs |-> x] : x \in RTCases(v, g)} \cup C13Cases(v, g) \cup (IF g = 1 THEN {[k |-> "laws"]} ELSE {})
Spec == Init /\ [][Next]_vars
Inv == /\ phase = "v" => (v = 1 /\ g = 1 => GlobalLaws)
       /\ phase = "c" => CASE c.k = "rt" -> RoundTrip(c.cs)
                           [] c.k = "c13" -> RecommendOK(c.mode, c.ec, c.h)
                           [] c.k = "laws" -> VersionLaws(v)
                           [] OTHER -> TRUE
=============================================================================
