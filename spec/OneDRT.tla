------------------------------- MODULE OneDRT -------------------------------
(* C03 - 1-D symbologies: a written barcode reads back as the same content and format.                          *)
(* On top of OneD (symbols, reference reader) and Check (writer contract for UPC/EAN):                          *)
(*   Domain(sym, c, force)  which contents a writer must accept ("must"), must refuse ("reject"), or that the     *)
(*                          property leaves open ("any");                                                      *)
(*   Canonical(sym, c)      the text a reader must return for the symbol written from c;                        *)
(*   Readable(sym, t)       contents inside the matching reader's accepted domain;                              *)
(*   Carries(sym, runs, c)  the written symbol, read by the reference reader, carries c (any admissible encoding  *)
(*                          is accepted: nothing is demanded about Code 128 code-set choices or escape spellings); *)
(*   a small reference *encoder* for Code 128 / Code 39 used by MC_OneDRT for the design check                   *)
(*   Read_S(Symbol_S(c)) = Canonical_S(c) and for symbols the real readers are asked to read.                   *)
EXTENDS Check

EANs == {"EAN13", "EAN8", "UPCA", "UPCE"}
AllBytes(c, S) == \A i \in 1..Len(c) : c[i] \in S
\* number of Code 39 / Code 93 characters needed for a byte in full-ASCII mode
ExtLen39(b) == IF b \in 48..57 \/ b \in 65..90 \/ b \in {32, 45, 46} THEN 1 ELSE 2
ExtLen93(b) == IF b \in 48..57 \/ b \in 65..90 \/ b \in {32, 36, 37, 43, 45, 46, 47} THEN 1 ELSE 2
SumOver(c, F(_)) == LET RECURSIVE f(_) f(i) == IF i > Len(c) THEN 0 ELSE F(c[i]) + f(i + 1) IN f(1)
\* Codabar: data characters and guards
CBData == {48, 49, 50, 51, 52, 53, 54, 55, 56, 57, 45, 36, 58, 47, 46, 43}
CBGuard == {65, 66, 67, 68}                \* A B C D
CBAlt == {84, 78, 42, 69}                  \* T N * E  (alternative spelling of A B C D)
CBGuardValue(b) == CASE b = 65 \/ b = 84 -> 16 [] b = 66 \/ b = 78 -> 17 [] b = 67 \/ b = 42 -> 18 [] OTHER -> 19
CBInner(c) == IF Len(c) >= 2 /\ ((c[1] \in CBGuard /\ c[Len(c)] \in CBGuard) \/ (c[1] \in CBAlt /\ c[Len(c)] \in CBAlt))
              THEN SubSeq(c, 2, Len(c) - 1) ELSE c

Domain(sym, c, force) ==
  IF Len(c) = 0 THEN "reject"
  ELSE CASE sym \in EANs -> IF WriterSpec(sym, c).ok THEN "must" ELSE "reject"
    [] sym = "ITF" -> IF Len(c) % 2 = 0 /\ Len(c) <= 80 /\ AllBytes(c, 48..57) THEN "must" ELSE "reject"
    [] sym = "C39" -> IF Plain39(c) THEN (IF Len(c) <= 80 THEN "must" ELSE "reject")
                      ELSE IF ~AllBytes(c, 0..127) THEN "reject"
                      ELSE IF SumOver(c, ExtLen39) <= 80 THEN "must" ELSE "any"
    [] sym = "C93" -> IF ~AllBytes(c, 0..127) THEN "reject" ELSE IF SumOver(c, ExtLen93) <= 80 THEN "must" ELSE "any"
    [] sym = "C128" -> IF Len(c) > 80 \/ ~AllBytes(c, 0..127) THEN "reject"
                       ELSE CASE force = "" -> "must"
                              [] force = "A" -> IF AllBytes(c, 0..95) THEN "must" ELSE "reject"
                              [] force = "B" -> IF AllBytes(c, 33..127) THEN "must" ELSE IF AllBytes(c, 32..127) THEN "any" ELSE "reject"
                              [] force = "C" -> IF AllBytes(c, 48..57) /\ Len(c) % 2 = 0 THEN "must" ELSE "reject"
                              [] OTHER -> "reject"
    [] sym = "CBAR" -> LET in == CBInner(c) IN
                       IF Len(in) >= 1 /\ AllBytes(in, CBData) THEN "must"
                       ELSE IF \E i \in 2..Len(c) - 1 : c[i] \notin CBData THEN "reject"     \* a foreign character inside
                       ELSE "any"
    [] OTHER -> "any"

Canonical(sym, c) ==
  CASE sym \in EANs -> Bytes(WriterSpec(sym, c).n)
    [] sym = "CBAR" -> CBInner(c)
    [] OTHER -> c
\* the reader that matches the symbol
ReaderOf(sym, c) == IF sym = "C39" THEN (IF Plain39(c) THEN "C39" ELSE "C39X") ELSE sym
\* contents the matching reader accepts at all (the property quantifies over these)
Readable(sym, t) ==
  CASE sym = "ITF" -> Len(t) \in {6, 8, 10, 12, 14} \/ Len(t) > 14
    [] sym = "CBAR" -> Len(t) >= 2
    [] OTHER -> TRUE
Carries(sym, r, c) == LET x == ReadSym(ReaderOf(sym, c), r) IN x.ok /\ x.text = Canonical(sym, c)
FormatName(sym) == CASE sym = "EAN13" -> "EAN_13" [] sym = "EAN8" -> "EAN_8" [] sym = "UPCA" -> "UPC_A" [] sym = "UPCE" -> "UPC_E"
                     [] sym = "C128" -> "CODE_128" [] sym = "C93" -> "CODE_93" [] sym \in {"C39", "C39X"} -> "CODE_39"
                     [] sym = "ITF" -> "ITF" [] sym = "CBAR" -> "CODABAR" [] OTHER -> "?"
\* what a reader configuration must answer for the symbol of `sym` whose canonical text is t: <<format, text>>
\*   "own"    the matching single-format reader
\*   "multi"  the multi-format UPC/EAN reader without hints (EAN-13, EAN-8, UPC-E readers): a UPC-A symbol is the EAN-13
\*            symbol with a leading 0 and is reported as such
\*   "multiA" the same with POSSIBLE_FORMATS = all four: an EAN-13 text starting with 0 is reported as UPC-A
Answer(sym, t, rd) ==
  CASE rd = "multi" /\ sym = "UPCA" -> <<"EAN_13", <<48>> \o t>>
    [] rd = "multiA" /\ sym = "EAN13" /\ t[1] = 48 -> <<"UPC_A", SubSeq(t, 2, 13)>>
    [] OTHER -> <<FormatName(sym), t>>

\* ---------------------------------------------------------------- pixel rows
RECURSIVE GCD(_, _)
GCD(a, b) == IF b = 0 THEN a ELSE GCD(b, a % b)
GCDSeq(s) == LET RECURSIVE f(_, _) f(i, g) == IF i > Len(s) \/ g = 1 THEN g ELSE f(i + 1, GCD(s[i], g)) IN f(1, 0)
\* module runs of a pixel row (all runs are multiples of the module width, which is the gcd: every symbology has a
\* one-module element)
ModuleRuns(px) == LET g == GCDSeq(px) IN [i \in 1..Len(px) |-> px[i] \div g]

\* ---------------------------------------------------------------- reference encoders (design check, generated symbols)
\* Code 39
Enc39Plain(c) == [i \in 1..Len(c) |-> IndexIn(C39Alphabet, c[i]) - 1]
Ext39(b) == IF ExtLen39(b) = 1 THEN <<IndexIn(C39Alphabet, b) - 1>>
            ELSE LET v == Ext93(b) IN      \* same full-ASCII pairs; shift characters ($) (%) (/) (+) are $ % / + here
                 IF Len(v) = 1 THEN       \* $ % / + themselves: (/)D (/)E (/)O (/)K
                    (CASE b = 36 -> <<40, 13>> [] b = 37 -> <<40, 14>> [] b = 47 -> <<40, 24>> [] OTHER -> <<40, 20>>)
                 ELSE <<CASE v[1] = 43 -> 39 [] v[1] = 44 -> 42 [] v[1] = 45 -> 40 [] OTHER -> 41, v[2]>>
Enc39(c) == IF Plain39(c) THEN Enc39Plain(c) ELSE Cat([i \in 1..Len(c) |-> Ext39(c[i])])
Sym39(c) == C39Runs(Enc39(c))
\* Code 128: a straightforward encoder - set C for a leading / embedded even run of >= 4 digits, otherwise set A when a
\* control character comes before any lower-case character, else set B; SHIFT for a single character of the other set
Is128A(b) == b \in 0..95
Is128B(b) == b \in 32..127
Val128(b, set) == IF set = "A" THEN (IF b < 32 THEN b + 64 ELSE b - 32) ELSE b - 32
DigitRun(c, i) == LET RECURSIVE f(_) f(k) == IF k <= Len(c) /\ c[k] \in 48..57 THEN 1 + f(k + 1) ELSE 0 IN f(i)
PreferAB(c, i) ==   \* set for the non-digit stretch starting at i
  LET RECURSIVE f(_) f(k) == IF k > Len(c) THEN "B" ELSE IF c[k] < 32 THEN "A" ELSE IF c[k] > 95 THEN "B" ELSE f(k + 1) IN f(i)
RECURSIVE Enc128From(_, _, _)
Enc128From(c, i, set) ==       \* set = "" before the start character
  IF i > Len(c) THEN <<>>
  ELSE LET run == DigitRun(c, i)
           evn == run - (run % 2)
           useC == evn >= 4 \/ (evn >= 2 /\ evn = Len(c))
       IN IF set = "C" THEN
             (IF run >= 2 THEN <<(c[i] - 48) * 10 + (c[i + 1] - 48)>> \o Enc128From(c, i + 2, "C")
              ELSE LET nx == PreferAB(c, i) IN <<IF nx = "A" THEN 101 ELSE 100>> \o Enc128From(c, i, nx))
          ELSE IF useC /\ run % 2 = 0 THEN <<IF set = "" THEN 105 ELSE 99>> \o Enc128From(c, i, "C")
          ELSE IF set = "" THEN LET nx == PreferAB(c, i) IN <<IF nx = "A" THEN 103 ELSE 104>> \o Enc128From(c, i, nx)
          ELSE IF (set = "A" /\ Is128A(c[i])) \/ (set = "B" /\ Is128B(c[i])) THEN <<Val128(c[i], set)>> \o Enc128From(c, i + 1, set)
          ELSE LET other == IF set = "A" THEN "B" ELSE "A" IN
               IF i < Len(c) /\ ((set = "A" /\ Is128A(c[i + 1])) \/ (set = "B" /\ Is128B(c[i + 1])))
               THEN <<98, Val128(c[i], other)>> \o Enc128From(c, i + 1, set)                   \* SHIFT
               ELSE <<IF other = "A" THEN 101 ELSE 100>> \o Enc128From(c, i, other)
Enc128(c) == Enc128From(c, 1, "")
Sym128(c) == C128Runs(Complete("C128", Enc128(c)))
\* the symbol of a content under the reference encoders
SymbolOf(sym, c) ==
  CASE sym \in EANs -> SymRuns(sym, WriterSpec(sym, c).n)
    [] sym = "ITF" -> ITFRuns(UnBytes(c), 3)
    [] sym = "C39" -> Sym39(c)
    [] sym = "C93" -> Sym93(c)
    [] sym = "C128" -> Sym128(c)
    [] sym = "CBAR" -> LET in == CBInner(c)
                           g1 == IF in = c THEN 16 ELSE CBGuardValue(c[1])
                           g2 == IF in = c THEN 16 ELSE CBGuardValue(c[Len(c)])
                       IN CBarRuns(<<g1>> \o [i \in 1..Len(in) |-> IndexIn(CBarAlphabet, in[i]) - 1] \o <<g2>>)
=============================================================================
