SPECIFICATION Spec
CONSTANTS
  Mode = "laws"
  EDigits <- AllDigits
  Stride = 1
INVARIANT Laws
CHECK_DEADLOCK FALSE
