---------------------------- MODULE MC_Totality ----------------------------
(* Design-level checks of Totality.tla / TotalParse.tla and generation of parser inputs for C06.                     *)
(*                                                                                                                   *)
(*  MC_Totality.cfg  (Mode = "laws")  one state; invariant Laws:                                                     *)
(*     - the literal ECI set of TotalParse equals the registry of Charset.tla;                                        *)
(*     - every composition of total inner calls with errors of the kinds the inner contracts allow is total again     *)
(*       and of a documented kind (all inner outcome vectors are enumerated);                                        *)
(*     - the type discipline is load-bearing: ONE untyped inner error makes the mirrored QR retry return             *)
(*       (nil, nil) - the model knows the failure the binding looks for;                                             *)
(*     - the ECI designator forms carry what 18004 says they carry.                                                  *)
(*  Gen_Totality.cfg (Mode = "gen")   the state space is the tree of all symbol sequences of a family up to its       *)
(*     depth; every node is a parser input.  Invariant ParserTotal: the reference automaton assigns every node a     *)
(*     class (it is itself total and deterministic).  Action Emit prints the node as an input event of the driver    *)
(*     (GEN line) with the class and the deciding branch; the check replays all of them on the real parsers.          *)
(*     Families (alphabets chosen to reach every branch of the automata):                                            *)
(*        qr      bytes over 18 values: every mode nibble, ECI first bytes of the three forms, counts 0 / small /    *)
(*                too large, x three version classes                                                                 *)
(*        dm      codewords over every ASCII-level codeword class                                                    *)
(*        dm.c40 / dm.text / dm.x12 / dm.edifact / dm.b256   a latch followed by codewords that reach the shift       *)
(*                sets, the pair value 0 / 64000, the unlatch in every position, lengths 0 / 1 / 249 / 250 / 255      *)
(*                (un-randomised for their position)                                                                 *)
(*        az.bits all bit strings; az.codes 5-bit codes incl. all latches / shifts / B/S; az.flg<n> FLG(n) + digits  *)
(*        od.*    1-D symbols with CORRECT check characters (OneD.tla) whose data characters are arbitrary symbol     *)
(*                characters - shift characters at the very end, code-set switches, start/stop characters inside -   *)
(*                i.e. what a writer never produces but a scanner may see; emitted as run lengths (op "runs")        *)
EXTENDS Totality, TotalParse, Json
OD == INSTANCE OneD          \* reference 1-D symbols (check characters, module patterns) of C03 / C10
CONSTANTS Mode, Depth          \* Depth: 0 quick, 1 thorough
VARIABLES fam, ver, s, emitted
vars == <<fam, ver, s, emitted>>

(* ------------------------------------------------------------------ families *)
\* in a Data Matrix family a symbol 1000..1255 stands for "the codeword that un-randomises to (symbol - 1000) here",
\* a symbol >= 100000 for the codeword pair (symbol - 100000) \div 256, (symbol - 100000) % 256
Fam(name, kind, prefix, alphabet, width, maxlen) ==
  [name |-> name, kind |-> kind, prefix |-> prefix, alphabet |-> alphabet, width |-> width, maxlen |-> maxlen]
QRAlphabet == {0, 16, 17, 32, 33, 64, 65, 72, 112, 113, 127, 128, 192, 209, 255, 53, 80, 144}
DMAlphabet == {0, 1, 66, 128, 129, 130, 229, 230, 231, 232, 233, 235, 236, 238, 239, 240, 241, 242, 254, 255}
\* C40 / Text / X12 codeword pairs (symbol 100000 + 256*c1 + c2): value 0; 1; (1,5,0) shift 2 + character; (1,28,0) shift 2 +
\* reserved value; (0,35,4) shift 1 + value beyond the set; (2,35,4) shift 3 + value beyond the set; (4,4,0) ends with a
\* pending shift 1; 64000 (C1 = 40); 65535; and single codewords: unlatch, an ASCII character, pad
DMC40Alphabet == {100000, 100001, 101801, 102721, 101405, 104605, 106561, 164001, 165535, 254, 66, 129}
DMEdfAlphabet == {0, 1, 7, 31, 124, 192, 240, 129, 254, 66}
DMB256Alphabet == {1000, 1001, 1002, 1249, 1250, 1255, 0, 44, 129, 254}
AZCodeAlphabet == {0, 1, 2, 14, 15, 27, 28, 29, 30, 31}
AZDigitAlphabet == {1, 2, 4, 5, 8, 11, 12}
D(q, t) == IF Depth = 0 THEN q ELSE t
Families ==
  {Fam("qr", "qr", <<>>, QRAlphabet, 8, D(3, 4)),
   Fam("dm", "dm", <<>>, DMAlphabet, 8, D(3, 4)),
   Fam("dm.c40", "dm", <<230>>, DMC40Alphabet, 8, D(3, 4)),
   Fam("dm.text", "dm", <<239>>, DMC40Alphabet, 8, D(3, 4)),
   Fam("dm.x12", "dm", <<238>>, DMC40Alphabet, 8, D(3, 4)),
   Fam("dm.edifact", "dm", <<240>>, DMEdfAlphabet, 8, D(4, 5)),
   Fam("dm.b256", "dm", <<231>>, DMB256Alphabet, 8, D(3, 4)),
   Fam("dm.b256+1", "dm", <<66, 231>>, DMB256Alphabet, 8, D(3, 4)),
   Fam("az.bits", "az", <<>>, {0, 1}, 1, D(12, 15)),
   Fam("az.codes", "az", <<>>, AZCodeAlphabet, 5, D(4, 5)),
   Fam("az.mixed", "az", <<1,1,1,0,1>>, AZCodeAlphabet, 5, D(3, 4))}            \* M/L first: Mixed table
  \cup {Fam("az.flg", "az", <<0,0,0,0,0, 0,0,0,0,0>> \o BitsOf(k, 3), AZDigitAlphabet, 4, D(3, 4)) : k \in 0..7}
  \cup {Fam("az.punct.flg", "az", <<1,1,1,0,1, 1,1,1,1,0, 0,0,0,0,0>> \o BitsOf(k, 3), AZDigitAlphabet, 4, D(2, 3)) : k \in {0, 1, 2, 6, 7}}
  \cup {Fam("od.code93", "od", <<>>, {1, 10, 35, 38, 43, 44, 45, 46}, 0, D(3, 4)),
        Fam("od.code39", "od", <<>>, {1, 10, 35, 38, 39, 40, 41, 42}, 0, D(3, 4)),
        Fam("od.code39k", "od", <<>>, {1, 10, 35, 38, 39, 40, 41, 42}, 0, D(3, 4)),
        Fam("od.code128", "od", <<103>>, {0, 17, 33, 64, 95, 96, 97, 98, 99, 100, 101, 102}, 0, D(2, 3)),
        Fam("od.code128", "od", <<104>>, {0, 17, 33, 64, 95, 96, 97, 98, 99, 100, 101, 102}, 0, D(2, 3)),
        Fam("od.code128", "od", <<105>>, {0, 17, 33, 64, 95, 96, 97, 98, 99, 100, 101, 102}, 0, D(2, 3)),
        Fam("od.codabar", "od", <<>>, {0, 1, 10, 15, 16, 17, 19}, 0, D(4, 5))}
Versions(f) == IF f.kind = "qr" THEN {1, 10, 27} ELSE {0}
\* run lengths (modules; first run is a bar) of the 1-D symbol with data characters q and correct check characters
ODRuns(f, q) ==
  CASE f.name = "od.code93" -> OD!C93Runs(q \o <<OD!CheckC93(q), OD!CheckK93(q)>>)
    [] f.name = "od.code39" -> OD!C39Runs(q)
    [] f.name = "od.code39k" -> OD!C39Runs(Append(q, OD!Check39(q)))
    [] f.name = "od.code128" -> OD!C128Runs(Append(f.prefix \o q, OD!Check128(f.prefix \o q)))
    [] f.name = "od.codabar" -> OD!CBarRuns(q)

(* ------------------------------------------------------------------ concrete inputs *)
RECURSIVE DMConcrete(_,_,_)
DMConcrete(syms, i, acc) == IF i > Len(syms) THEN acc
                            ELSE DMConcrete(syms, i + 1,
                                   IF syms[i] >= 100000 THEN acc \o <<(syms[i] - 100000) \div 256, (syms[i] - 100000) % 256>>
                                   ELSE Append(acc, IF syms[i] >= 1000 THEN DMRand(syms[i] - 1000, Len(acc) + 1) ELSE syms[i]))
Bytes(f, q) == IF f.kind = "dm" THEN DMConcrete(q, 1, f.prefix) ELSE f.prefix \o q
RECURSIVE BitCat(_,_,_,_)
BitCat(q, i, w, acc) == IF i > Len(q) THEN acc ELSE BitCat(q, i + 1, w, acc \o BitsOf(q[i], w))
AzBits(f, q) == BitCat(q, 1, f.width, f.prefix)
RECURSIVE PackLE16(_,_,_)
PackLE16(bits, lo, hi) == IF lo > hi THEN 0 ELSE bits[lo] + (2 * PackLE16(bits, lo + 1, hi))
Chunks16(bits) == [k \in 1..((Len(bits) + 15) \div 16) |-> PackLE16(bits, (16 * (k - 1)) + 1, IF 16 * k < Len(bits) THEN 16 * k ELSE Len(bits))]
Class(f, v, q) == CASE f.kind = "qr" -> QRParse(Bytes(f, q), v, FALSE)
                    [] f.kind = "dm" -> DMParse(Bytes(f, q))
                    [] f.kind = "az" -> AZParse(AzBits(f, q))
                    [] f.kind = "od" -> Out("any", f.name)
Case(f, v, q) ==
  LET r == Class(f, v, q) IN
  CASE f.kind = "qr" -> [op |-> "qrp", api |-> "qr.parser", a |-> <<v, 0>>, b |-> Bytes(f, q), h |-> <<>>, fam |-> f.name, cls |-> r.cls, why |-> r.why]
    [] f.kind = "dm" -> [op |-> "dmp", api |-> "dm.parser", a |-> <<>>, b |-> Bytes(f, q), h |-> <<>>, fam |-> f.name, cls |-> r.cls, why |-> r.why]
    [] f.kind = "az" -> LET bits == AzBits(f, q) IN
                        [op |-> "azp", api |-> "az.hld", a |-> <<Len(bits)>>, b |-> Chunks16(bits), h |-> <<>>, fam |-> f.name, cls |-> r.cls, why |-> r.why]
    [] f.kind = "od" -> [op |-> "runs", api |-> f.name, a |-> <<10, 2, 12, 0>>, b |-> ODRuns(f, q), h |-> <<>>, fam |-> f.name, cls |-> r.cls, why |-> r.why]

(* ------------------------------------------------------------------ the generation tree *)
Init == IF Mode = "laws" THEN fam = Fam("none", "none", <<>>, {}, 8, 0) /\ ver = 0 /\ s = <<>> /\ emitted = TRUE
        ELSE /\ fam \in Families /\ ver \in Versions(fam) /\ s = <<>> /\ emitted = FALSE
Extend == /\ ~emitted /\ Len(s) < fam.maxlen
          /\ \E x \in fam.alphabet : s' = Append(s, x)
          /\ UNCHANGED <<fam, ver, emitted>>
Emit == /\ ~emitted
        /\ PrintT(<<"GEN", ToJson(Case(fam, ver, s))>>)
        /\ emitted' = TRUE /\ UNCHANGED <<fam, ver, s>>
Next == Extend \/ Emit
Spec == Init /\ [][Next]_vars

ParserTotal == (Mode = "gen" /\ ~emitted) => LET r == Class(fam, ver, s) IN r.cls \in {"ok", "format", "any"} /\ r.why # ""

(* ------------------------------------------------------------------ laws *)
Kinds4 == DocumentedKinds \cup {"Reader"}
DocOutcomes == InnerOutcomes(DocumentedKinds)
DecOutcomes == InnerOutcomes({"Format", "Checksum"})            \* what the QR decode attempt may return
TotalDoc(r) == IsTotal(r) /\ (r.err = "" \/ r.err \in DocumentedKinds)
Seqs(S, n) == UNION {[1..k -> S] : k \in 0..n}
RegistryLaw == RegisteredECI = AllValues /\ \A v \in RegisteredECI : ByValue(v) >= 1
CompositionLaws ==
  /\ \A a, p, b \in DecOutcomes : TotalDoc(QRMirrorRetry(a, p, b))
  /\ \A a, p, b \in DecOutcomes : ~Ok(a) /\ ~Ok(QRMirrorRetry(a, p, b)) => QRMirrorRetry(a, p, b).err = a.err      \* the original error is reported
  /\ \E p, b \in DecOutcomes : QRMirrorRetry(Fail("Other"), p, b) = Neither                                         \* why the kinds matter
  /\ \A q \in Seqs(InnerOutcomes(Kinds4), 3) : TotalDoc(FirstSuccess(q, 1, Kinds4))
  /\ \A q \in Seqs(DocOutcomes, 3) : TotalDoc(FirstSuccess(q, 1, DocumentedKinds))
  /\ \A u, r \in DocOutcomes, th \in BOOLEAN : TotalDoc(OneDDecode(u, th, r))
  /\ \A d1, c1, d2, c2 \in DocOutcomes : TotalDoc(AztecTwoTries(d1, c1, d2, c2))
  /\ \A m \in DocOutcomes, x \in InnerOutcomes(Kinds4) : TotalDoc(WithExtension(m, x))
DesignatorLaws ==
  /\ ECIFormRange(1) = (2^7) - 1 /\ ECIFormRange(2) = (2^14) - 1 /\ ECIFormRange(3) = (2^21) - 1
  /\ \A v \in {0, 3, 26, 127, 128, 170, 899, 900, 16383, 16384, 999999} :
        LET form == IF v <= 127 THEN 1 ELSE IF v <= 16383 THEN 2 ELSE 3
            des == CASE form = 1 -> <<v>> [] form = 2 -> <<128 + (v \div 256), v % 256>>
                     [] form = 3 -> <<192 + (v \div 65536), (v \div 256) % 256, v % 256>>
            \* ECI mode, designator, terminator: 0111 dddddddd.. 0000
            bits == <<0,1,1,1>> \o Cat([i \in 1..Len(des) |-> BitsOf(des[i], 8)]) \o <<0,0,0,0>>
            bytes == BitsToBytes(bits)
        IN QRParse(bytes, 1, FALSE).cls = (IF ECISupported(v) THEN "ok" ELSE "format")
  /\ \A v \in {0, 3, 26, 127, 170, 899, 900, 999999} : ECIExpected(1, v) = (IF v \in AllValues THEN 0 ELSE 1)
  /\ ECIExpected(6, 899) = 8 /\ ECIExpected(6, 900) = 1 /\ ECIExpected(6, 26) = 0
Laws == Mode = "laws" => RegistryLaw /\ CompositionLaws /\ DesignatorLaws
=============================================================================
