SPECIFICATION Spec
CONSTANTS
  Mode = "gen"
INVARIANT Law
CHECK_DEADLOCK FALSE
