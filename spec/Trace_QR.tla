------------------------------ MODULE Trace_QR ------------------------------
(* Trace validation for the QR family (C01, C05, C07, C13).  Every recorded call of the real encoder /       *)
(* decoder / writer / reader is compared with what the ISO/IEC 18004 reference (QRTables, QRSymbol,          *)
(* QRStream) prescribes.  Events: enc (encode [+ decode the matrix] [+ render and read in pure-barcode       *)
(* mode]), tables (decoder's per-version tables), fmt / ver (BCH decoding of format / version words),        *)
(* build (placement of an arbitrary codeword stream).  Per-version placement data is cached in `cache`.      *)
EXTENDS QRStream, Chunk, TraceLib
VARIABLES l, bad, cache
vars == <<l, bad, cache>>

NewCache(ver) == LET fm == FMap(ver) IN [v |-> ver, fm |-> fm, pos |-> Positions(ver, fm)]
CacheFor(ver) == IF cache.v = ver THEN cache ELSE NewCache(ver)
B(x) == IF x THEN 1 ELSE 0

\* allowed ECI designators of the character sets used by the drivers (AIM ECI assignments; C15 owns the full registry)
IsSJIS(cs) == cs \in {"Shift_JIS", "SJIS"}

EncCheck(e, ch) ==
  LET sjis == IsSJIS(e.cs)
      mode == ChooseMode(e.text, sjis /\ e.sjok = 1, e.sj)
      units == Units(mode, e.text, e.enc, e.sj)
      unitsOK == (e.cs = "" \/ e.encok = 1) /\ (mode = "kanji" => \A i \in 1..Len(units) : units[i] >= 0)
      eci == IF mode = "byte" /\ e.cs # "" THEN e.eci ELSE -1
      hdr == Header(eci, e.gs1 = 1, mode)
      h == Len(hdr) - 4
      n == Len(units)
      want == IF ~unitsOK THEN 0
              ELSE IF e.vh > 0 THEN (IF e.vh <= 40 /\ Fits(mode, n, h, e.vh, e.ec) THEN e.vh ELSE 0)
              ELSE MinVersion(mode, n, h, e.ec)
      okOutcome == e.panic = 0 /\ (IF want = 0 THEN e.err = 1 ELSE e.err = 0 /\ e.v = want /\ e.mode = mode /\ e.lvl = e.ec)
      okMask == e.err = 1 \/ (e.mask \in 0..7 /\ (e.mh \in 0..7 => e.mask = e.mh))
      okMatrix == IF e.err = 1 \/ e.chk = 0 \/ ~okOutcome \/ ~okMask THEN TRUE
                  ELSE /\ e.d = Dim(e.v) /\ ChShapeOK(e.rows, e.d, e.d)
                       /\ RefCheck(ChUnRows(e.rows, e.d, e.d), e.v, e.ec, e.mask,
                                   Stream(e.v, e.ec, DataCW(mode, units, hdr, e.v, e.ec)), ch.fm, ch.pos) = <<TRUE, TRUE, TRUE>>
      \* decoding the module matrix (possibly damaged within capacity: e.within = 1 computed by FaultsWithin below)
      okDec == e.err = 1 \/ e.dec = 0 \/ (e.derr = "" /\ e.dtext = e.text /\ e.dec_ec = e.ec /\ e.dmirror = 0)
      okImg == e.err = 1 \/ Len(e.img) # 3 \/ (e.ierr = "" /\ e.itext = e.text /\ e.iec = e.ec /\ e.ifmt = 1)
  IN <<B(okOutcome), B(okMask), B(okMatrix), B(okDec), B(okImg)>>

\* length-only events (C13): the text is the character e.text repeated e.n times
EncNCheck(e) ==
  LET c == e.text
      mode == IF Len(c) = 1 /\ IsDigit(c[1]) THEN "num" ELSE IF Len(c) = 1 /\ AlnumCode(c[1]) >= 0 THEN "alnum"
              ELSE IF IsSJIS(e.cs) /\ Len(e.sjc) = 2 /\ KanjiLead(e.sjc[1]) THEN "kanji" ELSE "byte"
      n == IF mode = "byte" THEN e.n * Len(c) ELSE e.n
      h == IF mode = "byte" /\ e.cs # "" THEN 12 ELSE 0
      want == IF e.vh > 0 THEN (IF e.vh <= 40 /\ Fits(mode, n, h, e.vh, e.ec) THEN e.vh ELSE 0) ELSE MinVersion(mode, n, h, e.ec)
  IN <<B(e.panic = 0 /\ (IF want = 0 THEN e.err = 1 ELSE e.err = 0 /\ e.v = want /\ e.mode = mode /\ e.d = Dim(want)))>>

TablesCheck(e, ch) ==
  LET ver == e.v IN
  <<B(e.panic = 0 /\ e.err = 0 /\ e.total = TotalCodewords(ver) /\ e.dim = Dim(ver) /\ e.pv = ver),
    B(e.align = Centers(ver)),
    B(\A ec \in 1..4 : e.nb[ec] = NBlocks(ver, ec) /\ e.ecper[ec] = ECPer(ver, ec) /\ e.totalec[ec] = NBlocks(ver, ec) * ECPer(ver, ec)),
    B(\A ec \in 1..4 : LET g == e.groups[ec] nl == NumLong(ver, ec) ns == NBlocks(ver, ec) - nl IN
                        IF nl = 0 THEN g = <<ns, ShortLen(ver, ec)>> ELSE g = <<ns, ShortLen(ver, ec), nl, ShortLen(ver, ec) + 1>>),
    B(e.cc = <<CountBits("num", ver), CountBits("alnum", ver), CountBits("byte", ver), CountBits("kanji", ver)>>)>>

\* BCH decoding: a word pair within distance 3 (each copy) of one format word must decode to it (min distance 7 makes it unique)
FmtCheck(e) ==
  LET near == {<<ec, m>> \in (1..4) \X (0..7) : PopCount(e.w1 ^^ FormatWord(ec, m)) <= 3 /\ PopCount(e.w2 ^^ FormatWord(ec, m)) <= 3}
  IN <<B(e.panic = 0 /\ (near = {} \/ (e.ok = 1 /\ <<e.rec, e.rmask>> \in near)))>>
VerCheck(e) ==
  LET near == {ver \in 7..40 : PopCount(e.w1 ^^ VersionWord(ver)) <= 3}
  IN <<B(e.panic = 0 /\ (near = {} \/ (e.ok = 1 /\ e.rv \in near)))>>
BuildCheck(e, ch) ==
  <<B(e.panic = 0 /\ e.err = 0 /\ e.d = Dim(e.v) /\ ChShapeOK(e.rows, e.d, e.d)
      /\ RefCheck(ChUnRows(e.rows, e.d, e.d), e.v, e.ec, e.mask, e.cw, ch.fm, ch.pos) = <<TRUE, TRUE, TRUE>>)>>

NeedVersion(e) == CASE e.op = "enc" -> (IF e.err = 0 /\ e.chk = 1 /\ e.v \in 1..40 THEN e.v ELSE 0)
                    [] e.op = "build" -> e.v
                    [] OTHER -> 0
Init == l = 1 /\ bad = <<>> /\ cache = [v |-> 0, fm |-> <<>>, pos |-> <<>>]
Next ==
  /\ l <= NEv
  /\ l' = l + 1
  /\ LET e == Tr[l]
         nv == NeedVersion(e)
         ch == IF nv = 0 THEN cache ELSE CacheFor(nv)
         r == CASE e.op = "enc" -> EncCheck(e, ch)
                [] e.op = "encn" -> EncNCheck(e)
                [] e.op = "tables" -> TablesCheck(e, ch)
                [] e.op = "fmt" -> FmtCheck(e)
                [] e.op = "ver" -> VerCheck(e)
                [] e.op = "build" -> BuildCheck(e, ch)
     IN /\ bad' = IF \A i \in 1..Len(r) : r[i] = 1 THEN bad ELSE Append(bad, <<l, e.op, r>>)
        /\ cache' = ch
Spec == Init /\ [][Next]_vars
Done == l = NEv + 1 => WriteBad(l, bad)
=============================================================================
