------------------------------ MODULE Trace_QR ------------------------------
(* Trace validation for the QR family (C01, C05, C07, C13).  Every recorded call of the real encoder /       *)
(* decoder / writer / reader is compared with what the ISO/IEC 18004 reference (QRTables, QRSymbol,          *)
(* QRStream) prescribes.  Events: enc (encode [+ decode the matrix] [+ render and read in pure-barcode       *)
(* mode]), tables (decoder's per-version tables), fmt / ver (BCH decoding of format / version words),        *)
(* build (placement of an arbitrary codeword stream).  Per-version placement data is cached in `cache`.      *)
EXTENDS QRStream, Chunk, TraceLib
VARIABLES l, bad, cache
vars == <<l, bad, cache>>

NewCache(ver) == LET fm == FMap(ver) IN [v |-> ver, fm |-> fm, pos |-> Positions(ver, fm)]
CacheFor(ver) == IF cache.v = ver THEN cache ELSE NewCache(ver)
B(x) == IF x THEN 1 ELSE 0

\* allowed ECI designators of the character sets used by the drivers (AIM ECI assignments; C15 owns the full registry)
IsSJIS(cs) == cs \in {"Shift_JIS", "SJIS"}

EncCheck(e, ch) ==
  LET sjis == IsSJIS(e.cs)
      mode == ChooseMode(e.text, sjis /\ e.sjok = 1, e.sj)
      units == Units(mode, e.text, e.enc, e.sj)
      unitsOK == (e.cs = "" \/ e.encok = 1) /\ (mode = "kanji" => \A i \in 1..Len(units) : units[i] >= 0)
      eci == IF mode = "byte" /\ e.cs # "" THEN e.eci ELSE -1
      hdr == Header(eci, e.gs1 = 1, mode)
      h == Len(hdr) - 4
      n == Len(units)
      want == IF ~unitsOK THEN 0
              ELSE IF e.vh > 0 THEN (IF e.vh <= 40 /\ Fits(mode, n, h, e.vh, e.ec) THEN e.vh ELSE 0)
              ELSE MinVersion(mode, n, h, e.ec)
      okOutcome == e.panic = 0 /\ (IF want = 0 THEN e.err = 1 ELSE e.err = 0 /\ e.v = want /\ e.mode = mode /\ e.lvl = e.ec)
      okMask == /\ e.err = 1 \/ (e.mask \in 0..7 /\ (e.mh \in 0..7 => e.mask = e.mh))
                /\ e.prev_then = e.prev_now           \* the matrix returned by the previous call still reads as it did (no aliasing between results)
      okMatrix == IF e.err = 1 \/ e.chk = 0 \/ ~okOutcome \/ ~okMask THEN TRUE
                  ELSE /\ e.d = Dim(e.v) /\ ChShapeOK(e.rows, e.d, e.d)
                       /\ RefCheck(ChUnRows(e.rows, e.d, e.d), e.v, e.ec, e.mask,
                                   Stream(e.v, e.ec, DataCW(mode, units, hdr, e.v, e.ec)), ch.fm, ch.pos) = <<TRUE, TRUE, TRUE>>
      \* decoding the module matrix (possibly damaged within capacity: e.within = 1 computed by FaultsWithin below)
      okDec == e.err = 1 \/ e.dec = 0 \/ (/\ e.derr = "" /\ e.dtext = e.text /\ e.dec_ec = e.ec /\ e.dmirror = 0
                                         /\ ("berr" \in DOMAIN e => e.berr = "" /\ e.btext = e.text))     \* the [][]bool entry point
      okImg == e.err = 1 \/ Len(e.img) # 3 \/ (e.ierr = "" /\ e.itext = e.text /\ e.iec = e.ec /\ e.ifmt = 1)
  IN <<B(okOutcome), B(okMask), B(okMatrix), B(okDec), B(okImg)>>

\* length-only events (C13): the text is the character e.text repeated e.n times
EncNCheck(e) ==
  LET c == e.text
      mode == IF Len(c) = 1 /\ IsDigit(c[1]) THEN "num" ELSE IF Len(c) = 1 /\ AlnumCode(c[1]) >= 0 THEN "alnum"
              ELSE IF IsSJIS(e.cs) /\ Len(e.sjc) = 2 /\ KanjiLead(e.sjc[1]) THEN "kanji" ELSE "byte"
      n == IF mode = "byte" THEN e.n * Len(c) ELSE e.n
      h == IF mode = "byte" /\ e.cs # "" THEN 12 ELSE 0
      want == IF e.vh > 0 THEN (IF e.vh <= 40 /\ Fits(mode, n, h, e.vh, e.ec) THEN e.vh ELSE 0) ELSE MinVersion(mode, n, h, e.ec)
  IN <<B(e.panic = 0 /\ (IF want = 0 THEN e.err = 1 ELSE e.err = 0 /\ e.v = want /\ e.mode = mode /\ e.d = Dim(want)))>>

TablesCheck(e, ch) ==
  LET ver == e.v IN
  <<B(e.panic = 0 /\ e.err = 0 /\ e.total = TotalCodewords(ver) /\ e.dim = Dim(ver) /\ e.pv = ver),
    B(e.align = Centers(ver)),
    B(\A ec \in 1..4 : e.nb[ec] = NBlocks(ver, ec) /\ e.ecper[ec] = ECPer(ver, ec) /\ e.totalec[ec] = NBlocks(ver, ec) * ECPer(ver, ec)),
    B(\A ec \in 1..4 : LET g == e.groups[ec] nl == NumLong(ver, ec) ns == NBlocks(ver, ec) - nl IN
                        IF nl = 0 THEN g = <<ns, ShortLen(ver, ec)>> ELSE g = <<ns, ShortLen(ver, ec), nl, ShortLen(ver, ec) + 1>>),
    B(e.cc = <<CountBits("num", ver), CountBits("alnum", ver), CountBits("byte", ver), CountBits("kanji", ver)>>)>>

\* BCH decoding: a word pair within distance 3 (each copy) of one format word must decode to it (min distance 7 makes it unique)
FmtCheck(e) ==
  LET near == {<<ec, m>> \in (1..4) \X (0..7) : PopCount(e.w1 ^^ FormatWord(ec, m)) <= 3 /\ PopCount(e.w2 ^^ FormatWord(ec, m)) <= 3}
  IN <<B(e.panic = 0 /\ (near = {} \/ (e.ok = 1 /\ <<e.rec, e.rmask>> \in near)))>>
VerCheck(e) ==
  LET near == {ver \in 7..40 : PopCount(e.w1 ^^ VersionWord(ver)) <= 3}
  IN <<B(e.panic = 0 /\ (near = {} \/ (e.ok = 1 /\ e.rv \in near)))>>
BuildCheck(e, ch) ==
  <<B(e.panic = 0 /\ e.err = 0 /\ e.d = Dim(e.v) /\ ChShapeOK(e.rows, e.d, e.d)
      /\ RefCheck(ChUnRows(e.rows, e.d, e.d), e.v, e.ec, e.mask, e.cw, ch.fm, ch.pos) = <<TRUE, TRUE, TRUE>>)>>

\* ---- C05: damaged symbols.  A fault is <<kind, a, b, c>>: kind 0 = codeword c-xor of codeword b (1-based, data then parity)
\* of block a; kind 1/2 = bit a of format copy 1/2; kind 3/4 = bit a of version copy 1/2.
FaultFlips(f, ver, ec, pos) ==
  LET d == Dim(ver) IN
  CASE f[1] = 0 -> LET s == IF f[3] <= BlockLen(ver, ec, f[2]) THEN DataIdx(ver, ec, f[2], f[3])
                             ELSE EccIdx(ver, ec, f[2], f[3] - BlockLen(ver, ec, f[2]))
                   IN {pos[8*(s-1) + j] : j \in {j \in 1..8 : Bit(f[4], 8 - j) = 1}}
    [] f[1] = 1 -> {Format1(d)[f[2]]}
    [] f[1] = 2 -> {Format2(d)[f[2]]}
    [] f[1] = 3 -> {Version1(d)[f[2]]}
    [] f[1] = 4 -> {Version2(d)[f[2]]}
FaultShapeOK(f, ver, ec) ==
  /\ Len(f) = 4 /\ f[1] \in 0..4
  /\ (f[1] = 0 => f[2] \in 1..NBlocks(ver, ec) /\ f[3] >= 1 /\ f[3] <= BlockLen(ver, ec, f[2]) + ECPer(ver, ec) /\ f[4] \in 1..255)
  /\ (f[1] \in {1, 2} => f[2] \in 0..14)
  /\ (f[1] \in {3, 4} => ver >= 7 /\ f[2] \in 0..17)
\* within the promised capacity: at most floor(ec/2) distinct codewords per block, at most 3 bits per format / version copy
Within(fs, ver, ec) ==
  LET F == {fs[i] : i \in 1..Len(fs)} IN
  /\ \A b \in 1..NBlocks(ver, ec) : Cardinality({f[3] : f \in {g \in F : g[1] = 0 /\ g[2] = b}}) <= ECPer(ver, ec) \div 2
  /\ \A k \in 1..4 : Cardinality({f[2] : f \in {g \in F : g[1] = k}}) <= 3
  /\ Cardinality({<<f[1], f[2], f[3]>> : f \in F}) = Len(fs)
DmgCheck(e, ch) ==
  LET ver == e.v ec == e.ec
      okSym == e.panic = 0 /\ e.err = 0 /\ ver = e.vh /\ ver \in 1..40 /\ Len(e.res) = Len(e.sets)
      setOK(k) == LET st == e.sets[k] fs == st.faults IN
                  IF ~(\A i \in 1..Len(fs) : FaultShapeOK(fs[i], ver, ec)) THEN FALSE
                  ELSE LET want == UNION {FaultFlips(fs[i], ver, ec, ch.pos) : i \in 1..Len(fs)}
                           scriptOK == {st.flip[i] : i \in 1..Len(st.flip)} = want /\ Len(st.flip) = Cardinality(want)
                       IN /\ scriptOK
                          /\ IF Within(fs, ver, ec) THEN e.res[k] = <<0, e.th[1], e.th[2]>>
                             ELSE e.res[k][1] \in 1..3 \/ e.res[k] = <<0, e.th[1], e.th[2]>>      \* beyond capacity: an error or the right text, never other text
  IN <<B(okSym), B(okSym => \A k \in 1..Len(e.sets) : setOK(k))>>

NeedVersion(e) == CASE e.op = "enc" -> (IF e.err = 0 /\ e.chk = 1 /\ e.v \in 1..40 THEN e.v ELSE 0)
                    [] e.op = "build" -> e.v
                    [] e.op = "dmg" -> (IF e.err = 0 /\ e.v \in 1..40 THEN e.v ELSE 0)
                    [] OTHER -> 0
Init == l = 1 /\ bad = <<>> /\ cache = [v |-> 0, fm |-> <<>>, pos |-> <<>>]
Next ==
  /\ l <= NEv
  /\ l' = l + 1
  /\ LET e == Tr[l]
         nv == NeedVersion(e)
         ch == IF nv = 0 THEN cache ELSE CacheFor(nv)
         r == CASE e.op = "enc" -> EncCheck(e, ch)
                [] e.op = "encn" -> EncNCheck(e)
                [] e.op = "tables" -> TablesCheck(e, ch)
                [] e.op = "fmt" -> FmtCheck(e)
                [] e.op = "ver" -> VerCheck(e)
                [] e.op = "build" -> BuildCheck(e, ch)
                [] e.op = "dmg" -> DmgCheck(e, ch)
     IN /\ bad' = IF \A i \in 1..Len(r) : r[i] = 1 THEN bad ELSE Append(bad, <<l, e.op, r>>)
        /\ cache' = ch
Spec == Init /\ [][Next]_vars
Done == l = NEv + 1 => WriteBad(l, bad)
=============================================================================
