---------------------------- MODULE Trace_RowScan ----------------------------
(* X07: recorded Decode calls of a real 1-D reader on images of which exactly the rows e.rows carry a symbol (all other rows   *)
(* white): found or not, and the row the answer came from (the y of its result points), against RowScan.tla.                *)
EXTENDS RowScan, TraceLib
VARIABLES l, bad
vars == <<l, bad>>
Init == l = 1 /\ bad = <<>>
Judge(e) ==
  LET Y == {e.rows[i] : i \in 1..Len(e.rows)}
      want == FirstIn(Schedule(e.h, e.th = 1), Y) IN
  IF e.panic = 1 THEN "panic"
  ELSE IF want = -1 THEN (IF e.err = 1 THEN "" ELSE "answer_from_unscheduled_row")
  ELSE IF e.err = 1 THEN "scheduled_row_not_read"
  ELSE IF e.y # want THEN "wrong_row" ELSE IF e.txtok = 1 THEN "" ELSE "text"
Next == /\ l <= NEv /\ l' = l + 1
        /\ LET e == Tr[l] j == IF e.op = "scan" THEN Judge(e) ELSE "premise" IN
           bad' = IF j = "" THEN bad ELSE Append(bad, <<l, j>>)
Spec == Init /\ [][Next]_vars
Done == l = NEv + 1 => WriteBad(l, bad)
=============================================================================
