----------------------------- MODULE Gen_QRPos -----------------------------
(* Fault-script support for C05: for the requested versions TLC prints, from the standard's placement rules, *)
(* the module coordinates of every codeword bit (placement order), the two copies of the format and version   *)
(* information, and for each level the stream indices of every Reed-Solomon block (data then parity).         *)
(* The orchestrator only looks coordinates up in these maps when it turns codeword faults into module flips.  *)
EXTENDS QRSymbol, Json
CONSTANT Vs
VARIABLE x
BlockIdx(v, ec) == [b \in 1..NBlocks(v, ec) |->
                      [i \in 1..BlockLen(v, ec, b) |-> DataIdx(v, ec, b, i)] \o [i \in 1..ECPer(v, ec) |-> EccIdx(v, ec, b, i)]]
Map(v) == LET d == Dim(v) IN
          [v |-> v, pos |-> Positions(v, FMap(v)),
           f1 |-> [i \in 1..15 |-> Format1(d)[i-1]], f2 |-> [i \in 1..15 |-> Format2(d)[i-1]],
           v1 |-> IF v >= 7 THEN [i \in 1..18 |-> Version1(d)[i-1]] ELSE <<>>,
           v2 |-> IF v >= 7 THEN [i \in 1..18 |-> Version2(d)[i-1]] ELSE <<>>,
           blocks |-> [ec \in 1..4 |-> BlockIdx(v, ec)], t |-> [ec \in 1..4 |-> ECPer(v, ec) \div 2]]
Init == x \in Vs
Next == x' = x /\ FALSE
Spec == Init /\ [][Next]_x
Emitted == PrintT(<<"GEN", ToJson(Map(x))>>)
=============================================================================
