---------------------------- MODULE Trace_Aztec ----------------------------
(* Trace validation for C11.  Every recorded event is one decode of the real code:                               *)
(*   reset : a reference symbol (compact flag, layers, script, module matrix as logged by the driver) decoded     *)
(*           directly by decoder.Decode(AztecDetectorResult).  PREMISE re-checked here: the logged matrix is the  *)
(*           symbol Aztec.tla builds for the logged script (function patterns, mode message, every data codeword  *)
(*           on its spiral position; the check words too when the codeword size is <= ParityMaxWs).               *)
(*   mat   : the current symbol with damaged codewords, decoded directly.  PREMISE: at most floor(check/2)        *)
(*           distinct codewords are damaged and the flipped modules are exactly those of the damage.              *)
(*   img   : the same, rendered (rotation 0..3 quarter turns, 2..5 pixels per module) and read by AztecReader.    *)
(*   hl    : a script's bit stream given to decoder.HighLevelDecode.  PREMISE: bits = ScriptBits(items).          *)
(*   tmpl  : the function patterns of a (compact, layers) symbol with an empty mode ring.  PREMISE: the logged      *)
(*           matrix carries exactly FunctionDark on the function modules.                                           *)
(*   det   : the template with a mode message and arbitrary data modules, rendered and given to detector.Detect.    *)
(*           PREMISE: the dark mode-ring cells are those of ModeBits(c, layers, nd) and nd leaves >= 3 check words. *)
(*           VERDICT: the detector announces exactly (compact, layers, nd).                                         *)
(* VERDICT for all: no panic, no error, and the text equals the script's text (for hl also: equals what the       *)
(* spec's decode automaton reads from the logged bits).  Rejected events go to `bad` as <<index, op, tag>> with   *)
(* tag "premise" (the input was not what the spec prescribes: plumbing problem) or "decode" (the real code).     *)
EXTENDS Aztec, TraceLib
CONSTANTS ParityMaxWs
VARIABLES l, bad, cur
vars == <<l, bad, cur>>
NoSym == [ok |-> FALSE, det |-> FALSE, c |-> 0, layers |-> 0, ws |-> 0, ncw |-> 0, nd |-> 0, text |-> <<>>, spiral |-> <<>>]
Init == l = 1 /\ bad = <<>> /\ cur = NoSym

IsNatSeq(s, hi) == DOMAIN s = 1..Len(s) /\ \A i \in 1..Len(s) : s[i] \in 0..hi
ItemsShape(items) == DOMAIN items = 1..Len(items) /\ \A i \in 1..Len(items) : SegShape(items[i])
SymShape(e) ==
  /\ e.c \in {0, 1} /\ e.layers \in 1..(IF e.c = 1 THEN 4 ELSE 32)
  /\ ItemsShape(e.items) /\ Len(e.items) >= 1
  /\ LET sz == Size(e.c, e.layers) IN
     /\ DOMAIN e.rows = 1..sz
     /\ \A y \in 1..sz : IsNatSeq(e.rows[y], 65535) /\ Len(e.rows[y]) = NChunks(sz)
\* the logged matrix against the reference construction
SymMatches(e, sc, dw, sp) ==
  LET c == e.c  layers == e.layers  sz == Size(c, layers)  ws == WordSize(layers)
      withPar == ws <= ParityMaxWs
      upto == IF withPar THEN TotalBits(c, layers) ELSE PadBits(c, layers) + (Len(dw) * ws)
  IN /\ e.nd = Len(dw)
     /\ Len(dw) + 1 <= NumCodewords(c, layers) /\ Len(dw) <= (IF c = 1 THEN 64 ELSE 2048)
     /\ \E lg \in {[y \in 1..sz |-> UnChunks(e.rows[y], sz)]},          \* (bound once)
           mb \in {MessageBits(c, layers, dw, withPar)},
           mbm \in {ModeBits(c, layers, Len(dw))} :
        \E modeDark \in {{ModeCell(c, layers, q) : q \in {qq \in 0..(4*ModeLen(c))-1 : mbm[qq+1] = 1}}} :
          /\ \A q \in 1..upto : lg[sp[q][2] + 1][sp[q][1] + 1] = mb[q]
          /\ \A x \in 0..sz-1, y \in 0..sz-1 :
                IsFunction(c, layers, x, y) => lg[y+1][x+1] = (IF FunctionDark(c, layers, modeDark, x, y) THEN 1 ELSE 0)
FaultsOK(e) ==
  /\ DOMAIN e.faults = 1..Len(e.faults) /\ \A k \in 1..Len(e.faults) : FaultShape(e.faults[k], cur.ncw, cur.ws)
  /\ Len(e.faults) <= Capacity(cur.ncw, cur.nd)
  /\ Cardinality({e.faults[k][1] : k \in 1..Len(e.faults)}) = Len(e.faults)
  /\ e.flips = FlipCells(cur.c, cur.layers, cur.spiral, e.faults)
Decoded(e, text) == e.panic = 0 /\ e.err = 0 /\ e.txt = text
Reject(e, tag) == Append(bad, <<l, e.op, tag>>)
Next ==
  /\ l <= NEv
  /\ l' = l + 1
  /\ LET e == Tr[l] IN
     CASE e.op = "reset" ->
            IF ~SymShape(e) THEN bad' = Reject(e, "premise") /\ cur' = NoSym
            ELSE \E sc \in {Script(e.items)} :
                 IF ~sc.ok THEN bad' = Reject(e, "premise") /\ cur' = NoSym
                 ELSE \E dw \in {Stuff(sc.bits, WordSize(e.layers))}, sp \in {Spiral(e.c, e.layers)} :
                      IF ~SymMatches(e, sc, dw, sp) THEN bad' = Reject(e, "premise") /\ cur' = NoSym
                      ELSE /\ cur' = [ok |-> TRUE, det |-> FALSE, c |-> e.c, layers |-> e.layers, ws |-> WordSize(e.layers),
                                      ncw |-> NumCodewords(e.c, e.layers), nd |-> Len(dw), text |-> sc.text, spiral |-> sp]
                           /\ bad' = IF Decoded(e, sc.text) THEN bad ELSE Reject(e, "decode")
       [] e.op \in {"mat", "img"} ->
            /\ cur' = cur
            /\ IF ~cur.ok \/ ~FaultsOK(e) \/ (e.op = "img" /\ ~(e.rot \in 0..3 /\ e.scale \in 2..5 /\ e.quiet >= 1))
               THEN bad' = Reject(e, "premise")
               ELSE bad' = IF Decoded(e, cur.text) THEN bad ELSE Reject(e, "decode")
       [] e.op = "hl" ->
            /\ cur' = cur
            /\ IF ~ItemsShape(e.items) THEN bad' = Reject(e, "premise")
               ELSE \E sc \in {Script(e.items)} :
                    IF ~(sc.ok /\ e.nbits = Len(sc.bits) /\ e.bits = Chunks(sc.bits)) THEN bad' = Reject(e, "premise")
                    ELSE bad' = IF Decoded(e, sc.text) /\ e.txt = DecodeBits(UnChunks(e.bits, e.nbits)) THEN bad
                                ELSE Reject(e, "decode")
       [] e.op = "tmpl" ->
            IF ~(e.c \in {0, 1} /\ e.layers \in 1..(IF e.c = 1 THEN 4 ELSE 32) /\ DOMAIN e.rows = 1..Size(e.c, e.layers)
                 /\ \A y \in 1..Size(e.c, e.layers) : IsNatSeq(e.rows[y], 65535) /\ Len(e.rows[y]) = NChunks(Size(e.c, e.layers)))
            THEN bad' = Reject(e, "premise") /\ cur' = NoSym
            ELSE LET sz == Size(e.c, e.layers) IN
                 \E lg \in {[y \in 1..sz |-> UnChunks(e.rows[y], sz)]} :
                   IF \A x \in 0..sz-1, y \in 0..sz-1 :
                        lg[y+1][x+1] = (IF IsFunction(e.c, e.layers, x, y) /\ FunctionDark(e.c, e.layers, {}, x, y) THEN 1 ELSE 0)
                   THEN bad' = bad /\ cur' = [NoSym EXCEPT !.det = TRUE, !.c = e.c, !.layers = e.layers,
                                                          !.ncw = NumCodewords(e.c, e.layers)]
                   ELSE bad' = Reject(e, "premise") /\ cur' = NoSym
       [] e.op = "det" ->
            /\ cur' = cur
            /\ IF ~(cur.det /\ e.nd \in 1..Min2(cur.ncw - 3, IF cur.c = 1 THEN 64 ELSE 2048)
                    /\ e.rot \in 0..3 /\ e.scale \in 2..5 /\ e.quiet >= 1)
               THEN bad' = Reject(e, "premise")
               ELSE \E mb \in {ModeBits(cur.c, cur.layers, e.nd)} :
                    IF e.flips # Cat([q \in 1..4*ModeLen(cur.c) |-> IF mb[q] = 1 THEN << ModeCell(cur.c, cur.layers, q-1) >> ELSE <<>>])
                    THEN bad' = Reject(e, "premise")
                    ELSE bad' = IF e.panic = 0 /\ e.err = 0 /\ e.txt = <<cur.c, cur.layers, e.nd>> THEN bad ELSE Reject(e, "decode")
       [] OTHER -> bad' = Reject(e, "premise") /\ cur' = cur
Spec == Init /\ [][Next]_vars
Done == l = NEv + 1 => WriteBad(l, bad)
=============================================================================
