---------------------------- MODULE DMPlacement ----------------------------
(* ISO/IEC 16022 Annex F: module placement in the mapping matrix (utah shape, four corner cases, fixed       *)
(* corner pattern) and the L finder / clock tracks around every data region.                                 *)
(* A placement map is a sequence of rows; entry 0 = unset, 1 = fixed dark, else 10*codeword + bit (bit 1 = MSB) *)
EXTENDS DMTables

SetM(arr, nr, nc, row0, col0, chr, bit) ==
  LET r1 == IF row0 < 0 THEN row0 + nr ELSE row0
      c1 == IF row0 < 0 THEN col0 + 4 - ((nr + 4) % 8) ELSE col0
      r2 == IF c1 < 0 THEN r1 + 4 - ((nc + 4) % 8) ELSE r1
      c2 == IF c1 < 0 THEN c1 + nc ELSE c1
  IN [arr EXCEPT ![r2+1][c2+1] = 10*chr + bit]
RECURSIVE SetAll(_,_,_,_,_)
SetAll(arr, nr, nc, chr, cells) ==   \* cells: sequence of <<row, col, bit>>
  IF cells = <<>> THEN arr ELSE SetAll(SetM(arr, nr, nc, Head(cells)[1], Head(cells)[2], chr, Head(cells)[3]), nr, nc, chr, Tail(cells))
Utah(arr, nr, nc, r, c, chr) == SetAll(arr, nr, nc, chr,
   << <<r-2,c-2,1>>, <<r-2,c-1,2>>, <<r-1,c-2,3>>, <<r-1,c-1,4>>, <<r-1,c,5>>, <<r,c-2,6>>, <<r,c-1,7>>, <<r,c,8>> >>)
Corner1(arr, nr, nc, chr) == SetAll(arr, nr, nc, chr,
   << <<nr-1,0,1>>, <<nr-1,1,2>>, <<nr-1,2,3>>, <<0,nc-2,4>>, <<0,nc-1,5>>, <<1,nc-1,6>>, <<2,nc-1,7>>, <<3,nc-1,8>> >>)
Corner2(arr, nr, nc, chr) == SetAll(arr, nr, nc, chr,
   << <<nr-3,0,1>>, <<nr-2,0,2>>, <<nr-1,0,3>>, <<0,nc-4,4>>, <<0,nc-3,5>>, <<0,nc-2,6>>, <<0,nc-1,7>>, <<1,nc-1,8>> >>)
Corner3(arr, nr, nc, chr) == SetAll(arr, nr, nc, chr,
   << <<nr-3,0,1>>, <<nr-2,0,2>>, <<nr-1,0,3>>, <<0,nc-2,4>>, <<0,nc-1,5>>, <<1,nc-1,6>>, <<2,nc-1,7>>, <<3,nc-1,8>> >>)
Corner4(arr, nr, nc, chr) == SetAll(arr, nr, nc, chr,
   << <<nr-1,0,1>>, <<nr-1,nc-1,2>>, <<0,nc-3,3>>, <<0,nc-2,4>>, <<0,nc-1,5>>, <<1,nc-3,6>>, <<1,nc-2,7>>, <<1,nc-1,8>> >>)
\* sweep state s = [arr, chr, r, c]
Corners(s, nr, nc) ==
  LET s1 == IF s.r = nr /\ s.c = 0 THEN [s EXCEPT !.arr = Corner1(s.arr, nr, nc, s.chr), !.chr = s.chr + 1] ELSE s
      s2 == IF s1.r = nr-2 /\ s1.c = 0 /\ nc % 4 # 0 THEN [s1 EXCEPT !.arr = Corner2(s1.arr, nr, nc, s1.chr), !.chr = s1.chr + 1] ELSE s1
      s3 == IF s2.r = nr-2 /\ s2.c = 0 /\ nc % 8 = 4 THEN [s2 EXCEPT !.arr = Corner3(s2.arr, nr, nc, s2.chr), !.chr = s2.chr + 1] ELSE s2
      s4 == IF s3.r = nr+4 /\ s3.c = 2 /\ nc % 8 = 0 THEN [s3 EXCEPT !.arr = Corner4(s3.arr, nr, nc, s3.chr), !.chr = s3.chr + 1] ELSE s3
  IN s4
RECURSIVE Up(_,_,_)
Up(s, nr, nc) ==
  LET s1 == IF s.r < nr /\ s.c >= 0 /\ s.arr[s.r+1][s.c+1] = 0
            THEN [s EXCEPT !.arr = Utah(s.arr, nr, nc, s.r, s.c, s.chr), !.chr = s.chr + 1] ELSE s
      s2 == [s1 EXCEPT !.r = s1.r - 2, !.c = s1.c + 2]
  IN IF s2.r >= 0 /\ s2.c < nc THEN Up(s2, nr, nc) ELSE s2
RECURSIVE Down(_,_,_)
Down(s, nr, nc) ==
  LET s1 == IF s.r >= 0 /\ s.c < nc /\ s.arr[s.r+1][s.c+1] = 0
            THEN [s EXCEPT !.arr = Utah(s.arr, nr, nc, s.r, s.c, s.chr), !.chr = s.chr + 1] ELSE s
      s2 == [s1 EXCEPT !.r = s1.r + 2, !.c = s1.c - 2]
  IN IF s2.r < nr /\ s2.c >= 0 THEN Down(s2, nr, nc) ELSE s2
RECURSIVE Sweep(_,_,_)
Sweep(s, nr, nc) ==
  LET a == Corners(s, nr, nc)
      b == Up(a, nr, nc)
      b2 == [b EXCEPT !.r = b.r + 1, !.c = b.c + 3]
      c == Down(b2, nr, nc)
      c2 == [c EXCEPT !.r = c.r + 3, !.c = c.c + 1]
  IN IF c2.r < nr \/ c2.c < nc THEN Sweep(c2, nr, nc) ELSE c2
Place(nr, nc) ==
  LET s0 == [arr |-> [i \in 1..nr |-> [j \in 1..nc |-> 0]], chr |-> 1, r |-> 4, c |-> 0]
      s == Sweep(s0, nr, nc)
  IN IF s.arr[nr][nc] = 0 THEN [s.arr EXCEPT ![nr][nc] = 1, ![nr-1][nc-1] = 1] ELSE s.arr   \* fixed pattern in the lower right corner
\* value of mapping-matrix cell (row my, col mx, 0-based) for codewords cw
MapVal(map, cw, mx, my) == LET v == map[my+1][mx+1] IN
   IF v <= 1 THEN v ELSE LET chr == v \div 10 bit == v % 10 IN (cw[chr] \div 2^(8-bit)) % 2
\* value of symbol module (x, y), 0-based from the top-left, for size entry t
Expected(t, map, cw, x, y) ==
  LET rh == RRows(t) rw == RCols(t)
      ry == y % (rh + 2)  rx == x % (rw + 2)      \* position inside a region including its border
      my == (y \div (rh + 2)) * rh + ry - 1
      mx == (x \div (rw + 2)) * rw + rx - 1
  IN IF rx = 0 THEN 1                                \* solid left leg of the L
     ELSE IF ry = rh + 1 THEN 1                      \* solid bottom leg
     ELSE IF ry = 0 THEN (IF rx % 2 = 0 THEN 1 ELSE 0)           \* top clock track: dark at even x
     ELSE IF rx = rw + 1 THEN (IF ry % 2 = 1 THEN 1 ELSE 0)      \* right clock track
     ELSE MapVal(map, cw, mx, my)
\* symbol coordinates <<x, y>> of mapping cell (mx, my)
SymXY(t, mx, my) == << (mx \div RCols(t)) * (RCols(t) + 2) + (mx % RCols(t)) + 1, (my \div RRows(t)) * (RRows(t) + 2) + (my % RRows(t)) + 1 >>
=============================================================================
