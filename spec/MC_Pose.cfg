SPECIFICATION Spec
CONSTANTS
  Pads = {0, 2}
  Scales = {1, 2}
INVARIANT Laws
CHECK_DEADLOCK FALSE
