------------------------------- MODULE Trace_RS -------------------------------
(* Trace validation for C04.  Every event is one observation of the real reedsolomon package (harness/c04):        *)
(*  tables  y = <<Exp(0..q-1)>>, w = <<Log(1..q-1)>>, z = <<Inverse(1..q-1)>>                                      *)
(*  mulrow  a = <<a0>>, y = <<Multiply(a0, b) : b = 0..q-1>>                                                       *)
(*  enc     a = <<r>>, x = data, y = the word after ReedSolomonEncoder.Encode                                      *)
(*  dec     a = <<r>>, x = data, e = <<<<pos, mag>>, ..>>, y = word after Encode, w = y with the errors added (what *)
(*          was handed to ReedSolomonDecoder.Decode), z = the word after Decode, c = codeword expected by the       *)
(*          TLC-generated case (<<>> for seeded cases)                                                              *)
(* GF observations are judged against the DEFINITION (MulRef: carry-less product mod the primitive polynomial),    *)
(* codec observations against the definition of the code (zero syndromes, data prefix) and of bounded-distance     *)
(* decoding (at most floor(r/2) corrupted positions => the sent word comes back).  Beyond the capacity the          *)
(* property promises nothing; such events only produce an informational entry ("beyond") when the decoder         *)
(* returns, without an error, a word that is not a codeword.                                                        *)
EXTENDS RS, TraceLib
VARIABLES l, bad
vars == <<l, bad>>
Init == l = 1 /\ bad = <<>>
B(b) == IF b THEN 1 ELSE 0
IsSeq(s) == DOMAIN s = 1..Len(s)

TablesJudge(ev) == LET f == ev.f q == Q(f) IN
  LET expOK == /\ Len(ev.y) = q /\ ev.y[1] = 1
               /\ \A i \in 1..(q - 1) : IsElem(f, ev.y[i]) /\ ev.y[i + 1] = MulRef(f, ev.y[i], 2)
      logOK == /\ Len(ev.w) = q - 1
               /\ \A x \in 1..(q - 1) : ev.w[x] \in 0..(q - 1) /\ Exp(f, ev.w[x]) = x     \* alpha^Log(x) = x
      invOK == /\ Len(ev.z) = q - 1
               /\ \A x \in 1..(q - 1) : ev.z[x] \in 1..(q - 1) /\ MulRef(f, x, ev.z[x]) = 1
  IN IF expOK /\ logOK /\ invOK /\ ev.err = 0 /\ ev.panic = 0 THEN <<>>
     ELSE <<"tables", B(expOK), B(logOK), B(invOK)>>

MulRowJudge(ev) == LET f == ev.f q == Q(f) IN
  IF /\ Len(ev.a) = 1 /\ IsElem(f, ev.a[1]) /\ Len(ev.y) = q /\ ev.panic = 0
     /\ \A b \in 0..(q - 1) : ev.y[b + 1] = MulRef(f, ev.a[1], b)
  THEN <<>> ELSE <<"mulrow", IF Len(ev.a) = 1 THEN ev.a[1] ELSE -1>>

ShapeOK(ev) == /\ Len(ev.a) >= 1 /\ ev.a[1] >= 1 /\ Len(ev.x) >= 1 /\ Len(ev.x) + ev.a[1] <= Q(ev.f) - 1
               /\ IsWord(ev.f, ev.x)
EncOK(ev) == LET f == ev.f r == ev.a[1] k == Len(ev.x) IN
  /\ Len(ev.y) = k + r /\ IsWord(f, ev.y) /\ SubSeq(ev.y, 1, k) = ev.x
  /\ IsCodeword(f, ev.y, r)
  /\ (ev.c # <<>> => ev.y = ev.c)
EncJudge(ev) == IF ~ShapeOK(ev) THEN <<"input">>
                ELSE IF ev.err = 0 /\ ev.panic = 0 /\ EncOK(ev) THEN <<>> ELSE <<"enc", ev.err, ev.panic>>

ErrsOK(ev, n) == /\ \A i \in 1..Len(ev.e) : /\ Len(ev.e[i]) = 2 /\ ev.e[i][1] \in 0..(n - 1) /\ IsElem(ev.f, ev.e[i][2])
                 /\ Cardinality({ev.e[i][1] : i \in 1..Len(ev.e)}) = Len(ev.e)                \* distinct positions
(* w is y with magnitude m added at every listed position and nothing else changed *)
Corrupted(ev) == /\ Len(ev.w) = Len(ev.y)
                 /\ \A i \in 1..Len(ev.e) : ev.w[ev.e[i][1] + 1] = ev.y[ev.e[i][1] + 1] ^^ ev.e[i][2]
                 /\ DiffPos(ev.w, ev.y) \subseteq {ev.e[i][1] + 1 : i \in 1..Len(ev.e)}
DecJudge(ev) == LET f == ev.f r == ev.a[1] n == Len(ev.x) + r IN
  IF ~ShapeOK(ev) \/ ~ErrsOK(ev, n) THEN <<"input">>
  ELSE IF ~(ev.err = 0 /\ ev.panic = 0 /\ EncOK(ev)) THEN <<"enc", ev.err, ev.panic>>     \* err of a dec event = Decode's
  ELSE IF ~Corrupted(ev) THEN <<"harness">>
  ELSE LET nerr == Cardinality(DiffPos(ev.w, ev.y)) IN
       IF nerr <= T(r)
       THEN IF ev.derr = 0 /\ ev.dpanic = 0 /\ ev.z = ev.y THEN <<>> ELSE <<"dec", nerr, ev.derr, ev.dpanic>>
       ELSE IF ev.dpanic = 0 /\ ev.derr = 0 /\ ~(Len(ev.z) = n /\ IsWord(f, ev.z) /\ IsCodeword(f, ev.z, r))
            THEN <<"beyond", nerr>> ELSE <<>>

Judge(ev) == IF ~(ev.f \in 1..NFields) THEN <<"input">>
             ELSE CASE ev.op = "tables" -> TablesJudge(ev)
                    [] ev.op = "mulrow" -> MulRowJudge(ev)
                    [] ev.op = "enc" -> EncJudge(ev)
                    [] ev.op = "dec" -> DecJudge(ev)
                    [] OTHER -> <<"input">>
Next == /\ l <= NEv
        /\ l' = l + 1
        /\ LET j == Judge(Tr[l]) IN bad' = IF j = <<>> THEN bad ELSE Append(bad, <<l>> \o j)
Spec == Init /\ [][Next]_vars
Done == l = NEv + 1 => WriteBad(l, bad)
=============================================================================
