SPECIFICATION Spec
CONSTANTS
  Vs = {1}
INVARIANT Emitted
CHECK_DEADLOCK FALSE
