------------------------------- MODULE Gen_QR -------------------------------
(* Workload generation for C01 / C07 / C13: TLC prints the character capacities of all 160 (version, level)  *)
(* pairs x 4 modes computed from the standard's formulae; the orchestrator builds the boundary texts         *)
(* (capacity - 1, capacity, capacity + 1) from them.                                                         *)
EXTENDS QRTables, Json
VARIABLE x
Caps == [v \in 1..40 |-> [ec \in 1..4 |-> <<Capacity("num", v, ec, 0), Capacity("alnum", v, ec, 0), Capacity("byte", v, ec, 0), Capacity("kanji", v, ec, 0)>>]]
ASSUME PrintT(<<"GEN", ToJson([caps |-> Caps, data |-> [v \in 1..40 |-> [ec \in 1..4 |-> DataCodewords(v, ec)]], total |-> [v \in 1..40 |-> TotalCodewords(v)],
    fmt |-> [i \in 1..32 |-> FormatWord(((i-1) \div 8) + 1, (i-1) % 8)], ver |-> [v \in 1..34 |-> VersionWord(v + 6)]])>>)
Init == x = 0
Next == x' = x
Spec == Init /\ [][Next]_x
=============================================================================
