SPECIFICATION Spec
CONSTANTS
  Alphabet = {49, 65, 97, 32, 233}
  MaxLen = 6
  Shape = 0
  Mn <- NoHint
  Mx <- Max14
  EmitAll = FALSE
  FixedMode = FALSE
CHECK_DEADLOCK FALSE
