------------------------------ MODULE MC_Pose ------------------------------
(* Design check and case generation for C09 (Pose.tla).                                                          *)
(*  MC_Pose.cfg  - every tiny image x every small pose: the composed transformation equals the closed pixel map,  *)
(*                 dimensions, turn / transpose group laws, black-pixel count, where the corners go; and for     *)
(*                 every tiny 1-D image the facts about rows that Seen() relies on (upside down = reversed rows,  *)
(*                 sideways = constant rows, the library's counter-clockwise quarter turn undoes rot = 90 and     *)
(*                 turns rot = 270 upside down), plus the three positive clauses on the abstract reader.          *)
(*  Gen_Pose.cfg - enumerates the pose grid (symbology, pad, scale, rot, mirror, try-harder) with the clause each  *)
(*                 case falls under; the cases are printed as JSON and driven through the real readers.           *)
EXTENDS Pose, Json
CONSTANTS Pads, Scales
VARIABLES st, cs
vars == <<st, cs>>

Rows(w) == [1..w -> {0, 1}]
ImagesOf(w, h) == [1..h -> Rows(w)]
Tiny == ImagesOf(1, 1) \cup ImagesOf(2, 2) \cup ImagesOf(3, 2) \cup ImagesOf(2, 3) \cup ImagesOf(4, 1)
OneDImgs == {[y \in 1..h |-> r] : h \in {1, 2}, r \in UNION {Rows(w) : w \in 2..5}}
AllPoses == Poses(Pads, Scales, {0, 90, 180, 270}, {0, 1})

Init == st = "img" /\ cs \in {[m |-> m, d |-> 2] : m \in Tiny} \cup {[m |-> m, d |-> 1] : m \in OneDImgs}
Pick == /\ st = "img"
        /\ \E p \in AllPoses : (cs.d = 2 \/ p.mir = 0) /\ cs' = [m |-> cs.m, d |-> cs.d, p |-> p]
        /\ st' = "case"
Next == Pick
Spec == Init /\ [][Next]_vars

Blacks(m) == LET RECURSIVE f(_, _) f(y, x) == IF y > IH(m) THEN 0 ELSE IF x > IW(m) THEN f(y + 1, 1) ELSE m[y][x] + f(y, x + 1) IN f(1, 1)
ImageLaws(m, p) ==
  LET I == TLCEval(PoseImg(m, p)) IN
  /\ IsImage(I) /\ IW(I) = PoseW(m, p) /\ IH(I) = PoseH(m, p)
  /\ I = PoseMap(m, p)                                                   \* composition = closed pixel map
  /\ Blacks(I) = p.scale * p.scale * Blacks(m)
  /\ TurnCCW(TurnCW(I)) = I /\ TurnCW(TurnCCW(I)) = I
  /\ TurnCW(TurnCW(TurnCW(TurnCW(I)))) = I
  /\ Transpose(Transpose(m)) = m
  /\ PoseImg(m, [p EXCEPT !.rot = (p.rot + 90) % 360]) = TurnCW(I)
  /\ PoseImg(PoseImg(m, [pad |-> 0, scale |-> 1, rot |-> 0, mir |-> 1]), p) = PoseImg(m, [p EXCEPT !.mir = 1 - p.mir])
  \* where the first pixel of the written image goes: top left, top right, bottom right, bottom left
  /\ LET b == IF p.mir = 1 THEN Transpose(m) ELSE m
         q == p.pad
     IN CASE p.rot = 0   -> I[q + 1][q + 1] = b[1][1]
          [] p.rot = 90  -> I[q + 1][IW(I) - q] = b[1][1]
          [] p.rot = 180 -> I[IH(I) - q][IW(I) - q] = b[1][1]
          [] OTHER       -> I[IH(I) - q][q + 1] = b[1][1]
\* the row a scan line of an upright posed 1-D image shows
PosedRow(r, p) == [x \in 1..Len(r) * p.scale + 2 * p.pad |->
                     IF x > p.pad /\ x <= p.pad + Len(r) * p.scale THEN r[((x - 1 - p.pad) \div p.scale) + 1] ELSE 0]
\* a row that runs along a bar: white padding around at most one black run - no row decoder finds a start pattern there
AlongBar(row) == Cardinality({x \in 1..Len(row) : row[x] = 1 /\ (x = 1 \/ row[x - 1] = 0)}) <= 1
FMark == ROk(<<1>>)
BMark == ROk(<<2>>)
RowFacts(m, p) ==
  LET r == m[1] w0 == Len(r) h0 == Len(m)
      I == TLCEval(PoseImg(m, p))
      J == TLCEval(TurnCCW(I))
      agrees(img, bm) ==
        /\ IH(img) = bm.h
        /\ \A y \in 1..IH(img) :
             IF y - 1 >= bm.top /\ y - 1 < bm.bot
             THEN img[y] = (IF bm.f = FMark THEN PosedRow(r, p) ELSE PosedRow(Rev(r), p)) /\ bm.b = (IF bm.f = FMark THEN BMark ELSE FMark)
             ELSE AlongBar(img[y])
  IN /\ agrees(I, Seen(w0, h0, p, FMark, BMark, FALSE))
     /\ agrees(J, Seen(w0, h0, p, FMark, BMark, TRUE))
\* the positive clauses on the abstract reader: a symbol the row decoder reads left to right (F) but not reversed
Clauses(m, p) ==
  LET w0 == IW(m) h0 == IH(m)
      x(th) == Expected1D(w0, h0, p, th, FMark, RNotFound)
  IN /\ p.rot = 0 => \A th \in BOOLEAN : x(th) = [out |-> FMark, orient |-> 0]
     /\ p.rot = 180 => \A th \in BOOLEAN : x(th) = [out |-> FMark, orient |-> 180]          \* upside down: content, 180
     /\ p.rot \in {90, 270} => x(FALSE).out = RNotFound                                     \* sideways: only when trying harder
     /\ p.rot = 90 => x(TRUE) = [out |-> FMark, orient |-> 270]
     /\ p.rot = 270 => x(TRUE) = [out |-> FMark, orient |-> 90]
     /\ Allowed1D(w0, h0, p, FMark, RNotFound) = {<<FMark.t, x(TRUE).orient>>}
Laws == st = "case" => /\ ImageLaws(cs.m, cs.p)
                       /\ cs.d = 1 => (RowFacts(cs.m, cs.p) /\ Clauses(cs.m, cs.p))
\* the mirrored clause on the abstract decoder: the transposed symbol is read in the second pass, flagged; the plain one is not
QRClauses ==
  /\ \A q \in {RErr("format"), RErr("checksum")} : QRDecode(q, "ok", "ok", ROk(<<7>>)) = [out |-> ROk(<<7>>), mir |-> 1]
  /\ \A m \in {ROk(<<8>>), RErr("format"), RErr("checksum")} : QRDecode(ROk(<<7>>), "ok", "ok", m) = [out |-> ROk(<<7>>), mir |-> 0]
  /\ \A mir \in {0, 1} : \A x \in AllowedQR(<<7>>, mir) : x.out.k # "ok" \/ (x.out.t = <<7>> /\ x.mir = mir)
ASSUME QRClauses

(* ---------------------------------------------------------------- case generation *)
GInit == st = "gen" /\ cs = <<>>
Case(sym, p, th) == [sym |-> sym, pad |-> p.pad, scale |-> p.scale, rot |-> p.rot, mir |-> p.mir, th |-> th, clause |-> Clause(sym, p, th)]
GNext == /\ st = "gen"
         /\ \E sym \in Syms, p \in AllPoses, th \in {0, 1} :
              /\ (p.mir = 1 => sym = "QR") /\ (th = 1 => Is1D(sym))
              /\ PrintT(<<"GEN", ToJson(Case(sym, p, th))>>)
              /\ cs' = Case(sym, p, th)
         /\ st' = "emitted"
GenSpec == GInit /\ [][GNext]_vars
=============================================================================
