INIT InitScore
NEXT NextScore
CONSTANTS
  MaxLen = 8
  MaxN = 4
  MaxK = 5
  Record = TRUE
  Extra <- Allowances
  Bound3 = 14
  Bound4 = 7
  Bound5 = 4
INVARIANTS ScoreLaws
CHECK_DEADLOCK FALSE
