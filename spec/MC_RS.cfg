SPECIFICATION Spec
CONSTANTS
  Fields = {3}
  Shapes <- MCShapes
  Pats = {0, 1, 2, 3}
  MaxErr = 3
  AllMags = TRUE
  Declarative = TRUE
  Record = FALSE
INVARIANT Laws
CHECK_DEADLOCK FALSE
