SPECIFICATION Spec
CONSTANTS
  MaxRTVersion = 6
  FullTables = TRUE
INVARIANT Inv
CHECK_DEADLOCK FALSE
