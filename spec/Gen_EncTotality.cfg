SPECIFICATION Spec
CONSTANTS
  Mode = "gen"
  Lite = TRUE
  Returns = FALSE
  Groups = {1, 2, 3}
CHECK_DEADLOCK FALSE
