SPECIFICATION Spec
CONSTANTS
  Mode = "gen"
  Returns = FALSE
  Groups = {1, 2, 3}
CHECK_DEADLOCK FALSE
