SPECIFICATION Spec
CONSTANTS
  MaxH = 700
INVARIANT Laws
CHECK_DEADLOCK FALSE
