INIT InitXform
NEXT NextXform
CONSTANTS
  W = 3
  H = 2
  MaxPts = 2
  MaxLine = 4
  Q = 3
  Record = TRUE
CHECK_DEADLOCK FALSE
