------------------------------ MODULE MC_Check ------------------------------
(* Design-level model checking and case generation for C10.                                                   *)
(*  MC_Check.cfg  (Mode = "laws"): TLC explores a three-level tree root -> group -> job; every job state is    *)
(*     one block of an exhaustive arithmetic law, checked by the invariant Laws:                               *)
(*       tables    structural laws of all width/parity tables (OneDTables!TablesOK)                            *)
(*       mod10     a single-digit substitution changes the weighted sum for both weights; concretely: no       *)
(*                 substitution of any number of a family of EAN-8 / EAN-13 / UPC-A numbers verifies, and the   *)
(*                 reference reader refuses every such symbol while reading every unsubstituted symbol          *)
(*       mod103    weights 1..102 x values 0..102 (and the three start codes among themselves)                 *)
(*       mod47     weights 1..20 x values 0..46                                                                *)
(*       upce      Expand(e) is zero-suppressible and Suppress is its right inverse, for all UPC-E numbers of  *)
(*                 the digit alphabet EDigits (all 2 000 000 when EDigits = 0..9); Expand(Suppress(u)) = u for  *)
(*                 every zero-suppressible UPC-A number over EDigits (enumerated by the four suppression shapes)*)
(*       addon     EAN-2: all 100 values x 4 parities, EAN-5: a family x 32 parities: accepted iff parity =     *)
(*                 the one encoding the check value                                                           *)
(*       c128/c93/c39  Read(Runs(x)) = x and every single-character substitution is refused, on a family (Code 39 *)
(*                 with the optional modulo-43 check character)                                               *)
(*  Gen_Check.cfg (Mode = "gen"): seeds.ndjson holds payloads chosen by the orchestrator; one state per seed;  *)
(*     Emit prints the unsubstituted symbol and all its single-character substitutions (as run sequences built  *)
(*     from the spec's tables) for the harness to render and the real readers to read.                         *)
EXTENDS Check, Json
CONSTANTS Mode, EDigits, Stride
VARIABLES lvl, grp, job
vars == <<lvl, grp, job>>

Seeds == IF Mode = "gen" THEN ndJsonDeserialize("seeds.ndjson") ELSE <<>>

(* ------------------------------------------------------------------ laws *)
ESeq == LET RECURSIVE f(_) f(S) == IF S = {} THEN <<>> ELSE LET x == CHOOSE x \in S : \A y \in S : x <= y IN <<x>> \o f(S \ {x})
        IN f(EDigits)
NE == Len(ESeq)
\* jobs: <<kind, a, b>>
UPCEJobs == {<<"upce", ns, a>> : ns \in {0, 1}, a \in EDigits}
ShapeJobs == {<<"shape", 2 * k + ns, x1>> : k \in 1..4, ns \in {0, 1}, x1 \in EDigits}
FamJobs == {<<"fam", s, x>> : s \in 1..4, x \in 0..9}             \* 1 EAN-8, 2 EAN-13, 3 UPC-A, 4 UPC-E
Jobs == {<<"tables", 0, 0>>, <<"mod10", 0, 0>>, <<"mod47", 0, 0>>, <<"addon2", 0, 0>>}
        \cup {<<"mod103", w, 0>> : w \in 1..102} \cup UPCEJobs \cup ShapeJobs \cup FamJobs
        \cup {<<"addon5", x, 0>> : x \in 0..9} \cup {<<"c128", x, 0>> : x \in 1..6} \cup {<<"c93", x, 0>> : x \in 1..6}
        \cup {<<"c39", x, 0>> : x \in 1..3}
NGroups == 32
JobSeq == LET RECURSIVE f(_) f(S) == IF S = {} THEN <<>> ELSE LET x == CHOOSE x \in S : TRUE IN <<x>> \o f(S \ {x}) IN f(Jobs)

NoSubstVerifies(sym, n) ==      \* n complete and valid
  /\ LET f == Forward(sym, SymRuns(sym, n)) IN f.ok /\ (sym \notin {"C128", "C93", "C39K"} => f.text = Bytes(n))
  /\ \A s \in Substitutions(sym, n) : ~Forward(sym, SymRuns(sym, Subst(n, s))).ok
\* families of payloads
Fam8(x) == {<<x, a, b, (a + x) % 10, 7, b, (a * b) % 10>> : a \in {0, 3, 8}, b \in {1, 9}}
Fam13(x) == {<<x, a, b, 4, (a + x) % 10, 0, 6, b, 3, 8, (a + b) % 10, 1>> : a \in {0, 5}, b \in {2, 9}}
FamA(x) == {<<x, a, b, 4, (a + x) % 10, 0, 6, b, 3, 8, (a + b) % 10>> : a \in {0, 5}, b \in {2, 9}}
FamE(x) == {<<ns, a, b, (a + x) % 10, 7, b, x>> : ns \in {0, 1}, a \in {0, 3, 8}, b \in {1, 9}}
Fam128(x) == CASE x = 1 -> {<<104, 33, 34, 35>>, <<104, 40, 0, 95, 64>>}
               [] x = 2 -> {<<105, 12, 34, 56>>, <<105, 0, 99>>}
               [] x = 3 -> {<<103, 33, 64, 95, 1>>, <<103, 0>>}
               [] x = 4 -> {<<104, 33, 99, 12, 34, 100, 35>>, <<105, 12, 101, 65, 100, 70>>}
               [] x = 5 -> {<<104, 33, 98, 65, 34>>, <<103, 33, 98, 66, 34>>}
               [] OTHER -> {<<104, 102, 33>>, <<103, 40, 99, 0, 1>>}
Fam93(x) == CASE x = 1 -> {<<1, 2, 3>>, <<10, 36, 42>>}
              [] x = 2 -> {<<46, 10>>, <<43, 35, 5>>}
              [] x = 3 -> {<<44, 30>>, <<45, 35, 45, 10>>}
              [] x = 4 -> {<<0>>, <<38>>}
              [] x = 5 -> {[i \in 1..22 |-> (i * 7) % 43]}
              [] OTHER -> {[i \in 1..16 |-> (i * 11) % 43]}
AllPar(n) == [1..n -> {0, 1}]
ParSeq(f, n) == [i \in 1..n |-> f[i]]
MainFor == EAN13Runs(<<4, 0, 0, 6, 3, 8, 1, 3, 3, 3, 9, 3, 1>>)

JobOK(j) ==
  CASE j[1] = "tables" -> TablesOK
    [] j[1] = "mod10" -> \A w \in {1, 3} : \A a, b \in 0..9 : a # b => (w * a) % 10 # (w * b) % 10
    [] j[1] = "mod103" -> LET w == j[2] IN
                          /\ \A a, b \in 0..102 : a # b => (w * a) % 103 # (w * b) % 103
                          /\ \A a, b \in 103..105 : a # b => a % 103 # b % 103
    [] j[1] = "mod47" -> \A w \in 1..20 : \A a, b \in 0..46 : a # b => (w * a) % 47 # (w * b) % 47
    [] j[1] = "upce" -> \A b, c, d, f, l \in EDigits :
                          LET e == <<j[2], j[3], b, c, d, f, l>> u == Expand(e) IN
                          /\ Len(u) = 11 /\ Suppressible(u) /\ Expand(Suppress(u)) = u
                          /\ CheckUPCE(e) = Check10(u) /\ CheckUPCE(e) \in 0..9
    [] j[1] = "shape" -> \A x2, x3, x4, x5, x6 \in EDigits :
                          LET k == j[2] \div 2  ns == j[2] % 2  x1 == j[3]
                              u == CASE k = 1 -> <<ns, x1, x2, x3, 0, 0, 0, 0, x4, x5, x6>>
                                     [] k = 2 -> <<ns, x1, x2, x3, 0, 0, 0, 0, 0, x4, x5>>
                                     [] k = 3 -> <<ns, x1, x2, x3, x4, 0, 0, 0, 0, 0, x5>>
                                     [] k = 4 -> <<ns, x1, x2, x3, x4, x5, 0, 0, 0, 0, x6>>
                          IN Suppressible(u) => (Len(Suppress(u)) = 7 /\ Expand(Suppress(u)) = u)
    [] j[1] = "fam" -> LET x == j[3] IN
                       CASE j[2] = 1 -> \A p \in Fam8(x) : NoSubstVerifies("EAN8", Complete("EAN8", p))
                         [] j[2] = 2 -> \A p \in Fam13(x) : NoSubstVerifies("EAN13", Complete("EAN13", p))
                         [] j[2] = 3 -> \A p \in FamA(x) : NoSubstVerifies("UPCA", Complete("UPCA", p))
                         [] OTHER -> \A p \in FamE(x) : LET n == Complete("UPCE", p) IN
                                        /\ Forward("UPCE", SymRuns("UPCE", n)) = Good(Bytes(n))
                                        \* a substituted UPC-E symbol is read forward iff its own check digit verifies
                                        /\ \A s \in Substitutions("UPCE", n) : LET m == Subst(n, s) IN
                                              Forward("UPCE", SymRuns("UPCE", m)).ok = (CheckUPCE(SubSeq(m, 1, 7)) = m[8])
    [] j[1] = "addon2" -> \A v \in 0..99 : \A f \in AllPar(2) :
                            LET d == <<v \div 10, v % 10>> par == ParSeq(f, 2)
                                r == WithAddOn(MainFor, 9, AddOnRuns(d, par))
                            IN ReadAddOn(r, 61, 2) = (IF par = P2[(v % 4) + 1] THEN Good(Bytes(d)) ELSE Fail)
    [] j[1] = "addon5" -> \A a \in {0, 5, 9}, b \in {1, 7} : \A f \in AllPar(5) :
                            LET d == <<j[2], a, b, (a + b) % 10, (a * b + j[2]) % 10>> par == ParSeq(f, 5)
                                r == WithAddOn(MainFor, 9, AddOnRuns(d, par))
                            IN ReadAddOn(r, 61, 5) = (IF par = P5[Check5(d) + 1] THEN Good(Bytes(d)) ELSE Fail)
    [] j[1] = "c128" -> \A p \in Fam128(j[2]) : NoSubstVerifies("C128", Complete("C128", p))
    [] j[1] = "c93" -> \A p \in Fam93(j[2]) : NoSubstVerifies("C93", Complete("C93", p))
    [] j[1] = "c39" -> /\ \A a, b \in 0..42 : a # b => a % 43 # b % 43
                       /\ \A p \in {<<j[2], 10, 42>>, <<38, j[2]>>, [i \in 1..12 |-> (i * 5 + j[2]) % 43]} :
                             NoSubstVerifies("C39K", Complete("C39K", p))
    [] OTHER -> FALSE

(* ------------------------------------------------------------------ generation *)
Case(sym, n, pos, d, ad, ap) ==
  [op |-> "read", sym |-> sym, rd |-> "own", n |-> n, pos |-> pos, d |-> d, ad |-> ad, ap |-> ap, gap |-> IF ad = <<>> THEN 0 ELSE 9,
   runs |-> IF ad = <<>> THEN SymRuns(sym, n) ELSE WithAddOn(SymRuns(sym, n), 9, AddOnRuns(ad, ap))]
\* a seed keeps the substitutions <<position, value>> on its own residue class modulo Stride (Stride = 1: all of them)
Pick(S, k) == {x \in S : (x[1] * 37 + x[2] + k) % Stride = 0}
CasesOf(s, k) ==      \* s: [sym, p, ad, ap] a seed record
  IF s.ad # <<>> THEN <<Case(s.sym, Complete(s.sym, s.p), 0, 0, s.ad, s.ap)>>
  ELSE LET n == Complete(s.sym, s.p)
           subs == Pick(Substitutions(s.sym, n), k)
           sq == LET RECURSIVE f(_) f(T) == IF T = {} THEN <<>> ELSE LET x == CHOOSE x \in T : TRUE IN <<x>> \o f(T \ {x}) IN f(subs)
           \* Code 93 has TWO check characters: a wrong C followed by the K that is consistent with it (K verifies, C does not)
           ck == IF s.sym # "C93" THEN <<>>
                 ELSE LET cs == {c \in 0..46 : c # CheckC93(s.p) /\ (c + k) % (IF Stride > 4 THEN 6 ELSE 1) = 0}
                          cq == LET RECURSIVE g(_) g(T) == IF T = {} THEN <<>> ELSE LET x == CHOOSE x \in T : TRUE IN <<x>> \o g(T \ {x}) IN g(cs)
                      IN [i \in 1..Len(cq) |-> Case("C93", s.p \o <<cq[i], Sum93(Append(s.p, cq[i]), 15) % 47>>, Len(s.p) + 1, cq[i], <<>>, <<>>)]
       IN <<Case(s.sym, n, 0, 0, <<>>, <<>>)>> \o [i \in 1..Len(sq) |-> Case(s.sym, Subst(n, sq[i]), sq[i][1], sq[i][2], <<>>, <<>>)] \o ck

(* ------------------------------------------------------------------ state machine *)
Init == lvl = 0 /\ grp = 0 /\ job = 0
NJ == IF Mode = "gen" THEN Len(Seeds) ELSE Len(JobSeq)
Fan == /\ lvl = 0 /\ lvl' = 1 /\ grp' \in 1..NGroups /\ job' = 0
Work == /\ lvl = 1 /\ lvl' = 2 /\ grp' = grp
        /\ job' \in {k \in 1..NJ : (k % NGroups) + 1 = grp}
        /\ (Mode = "gen") => PrintT(<<"GEN", ToJson(CasesOf(Seeds[job'], job'))>>)
Next == Fan \/ Work
Spec == Init /\ [][Next]_vars
Laws == (Mode = "laws" /\ lvl = 2) => JobOK(JobSeq[job])
AllDigits == 0..9
QuickDigits == {0, 2, 3, 4, 5, 9}
=============================================================================
