SPECIFICATION Spec
CONSTANTS
  Is = {1}
INVARIANT Emitted
CHECK_DEADLOCK FALSE
