-------------------------------- MODULE DMEnc --------------------------------
(* C02 / C12: the Data Matrix high-level ENCODER as a state machine, shaped like the implementation              *)
(* (datamatrix/encoder): the dispatch loop of EncodeHighLevel, one action per loop iteration of each mode          *)
(* encoder (ASCII step, C40/Text with the end-of-data backtracking, X12, EDIFACT, Base 256), the end-of-data       *)
(* handlers, symbol-size feedback (UpdateSymbolInfoByLength) and the final unlatch / padding.  Errors returned by  *)
(* a mode encoder end the encoding (pc = "error"); a slice with a negative bound is an explicit "panic" outcome.   *)
(* The look-ahead (ISO 16022 Annex P) is computed in exact twelfths; because the code accumulates 2/3, 4/3, ... in  *)
(* float64 and takes Ceil, a count whose exact value is an integer may come out one higher: LookAhead returns the  *)
(* SET of results obtainable under those roundings (an over-approximation of the code, sound for "never" claims;   *)
(* candidates are replayed on the real encoder before they count).                                                  *)
(* MC_DMEnc explores ALL messages up to a length over a class alphabet and checks: every behaviour terminates      *)
(* (step and codeword bounds - an ASCII <-> X12 oscillation would violate them), no panic, and whenever the        *)
(* encoder finishes, the ISO 16022 reference decoder (DMHL.Decode) returns the message.                            *)
EXTENDS DMHL, Json
CONSTANTS Alphabet, MaxLen, Shape, Mn, Mx, EmitAll,
          FixedMode     \* TRUE: the messages come from fixed.ndjson (records [msg]) instead of being built over Alphabet
FixedMsgs == IF FixedMode THEN ndJsonDeserialize("fixed.ndjson") ELSE <<>>
ASCII == 0  C40 == 1  TEXT == 2  X12 == 3  EDF == 4  B256 == 5
Modes == 0..5
IsExt(c) == c >= 128
NatC40(c) == c = 32 \/ IsDigit(c) \/ (c >= 65 /\ c <= 90)
NatText(c) == c = 32 \/ IsDigit(c) \/ (c >= 97 /\ c <= 122)
TermSep(c) == c = 13 \/ c = 42 \/ c = 62
NatX12(c) == TermSep(c) \/ c = 32 \/ IsDigit(c) \/ (c >= 65 /\ c <= 90)
NatEdf(c) == c >= 32 /\ c <= 94
\* symbol choice: capacity of the smallest admissible symbol holding n codewords, 0 = none (UpdateSymbolInfoByLength)
Cap(n) == LET i == Lookup(n, Shape, Mn, Mx) IN IF i = 0 THEN 0 ELSE NData(T7[i])
Upd(si, n) == IF si = 0 \/ n > si THEN Cap(n) ELSE si

(* ---------------- look-ahead in twelfths with the float rounding slack *)
Ceil12(x) == ((x + 11) \div 12) * 12
InitCounts(mode) == IF mode = ASCII THEN [m \in Modes |-> CASE m = 0 -> 0 [] m = 5 -> 15 [] OTHER -> 12]
                    ELSE [m \in Modes |-> IF m = mode THEN 0 ELSE CASE m = 0 -> 12 [] m = 5 -> 27 [] OTHER -> 24]
StepCounts(cc, c) ==
  [m \in Modes |->
     CASE m = 0 -> IF IsDigit(c) THEN cc[0] + 6 ELSE Ceil12(cc[0]) + (IF IsExt(c) THEN 24 ELSE 12)
       [] m = 1 -> cc[1] + (IF NatC40(c) THEN 8 ELSE IF IsExt(c) THEN 32 ELSE 16)
       [] m = 2 -> cc[2] + (IF NatText(c) THEN 8 ELSE IF IsExt(c) THEN 32 ELSE 16)
       [] m = 3 -> cc[3] + (IF NatX12(c) THEN 8 ELSE IF IsExt(c) THEN 52 ELSE 40)
       [] m = 4 -> cc[4] + (IF NatEdf(c) THEN 9 ELSE IF IsExt(c) THEN 51 ELSE 39)
       [] m = 5 -> cc[5] + 12]
IC(cc, init) ==
  LET base == [m \in Modes |-> Ceil12(cc[m]) \div 12]
      slack == {m \in {1,2,3} : cc[m] % 12 = 0 /\ cc[m] # init[m]}
  IN { [m \in Modes |-> IF m \in S THEN base[m] + 1 ELSE base[m]] : S \in SUBSET slack }
Min6(ic) == CHOOSE v \in {ic[m] : m \in Modes} : \A m \in Modes : v <= ic[m]
Mins(ic) == [m \in Modes |-> IF ic[m] = Min6(ic) THEN 1 ELSE 0]
MinCount(ic) == Cardinality({m \in Modes : ic[m] = Min6(ic)})
DecideK(ic) == LET mn == Mins(ic) mc == MinCount(ic) IN
   IF ic[0] = Min6(ic) THEN 0
   ELSE IF mc = 1 /\ mn[5] = 1 THEN 5
   ELSE IF mc = 1 /\ mn[4] = 1 THEN 4
   ELSE IF mc = 1 /\ mn[2] = 1 THEN 2
   ELSE IF mc = 1 /\ mn[3] = 1 THEN 3
   ELSE 1
RECURSIVE X12Ahead(_,_)
X12Ahead(m, p) == IF p >= Len(m) THEN FALSE ELSE IF TermSep(m[p+1]) THEN TRUE ELSE IF ~NatX12(m[p+1]) THEN FALSE ELSE X12Ahead(m, p+1)
DecideR(ic, m, startpos, processed) == LET mn == Mins(ic) mc == MinCount(ic) IN
   IF ic[0] < ic[5] /\ ic[0] < ic[1] /\ ic[0] < ic[2] /\ ic[0] < ic[3] /\ ic[0] < ic[4] THEN 0
   ELSE IF ic[5] < ic[0] \/ mn[1] + mn[2] + mn[3] + mn[4] = 0 THEN 5
   ELSE IF mc = 1 /\ mn[4] = 1 THEN 4
   ELSE IF mc = 1 /\ mn[2] = 1 THEN 2
   ELSE IF mc = 1 /\ mn[3] = 1 THEN 3
   ELSE IF ic[1] + 1 < ic[0] /\ ic[1] + 1 < ic[5] /\ ic[1] + 1 < ic[4] /\ ic[1] + 1 < ic[2]
        THEN IF ic[1] < ic[3] THEN 1
             ELSE IF ic[1] = ic[3] THEN (IF X12Ahead(m, startpos + processed + 1) THEN 3 ELSE 1)
             ELSE -1
        ELSE -1
RECURSIVE LAGo(_,_,_,_,_)
LAGo(m, startpos, processed, cc, init) ==
  IF startpos + processed = Len(m) THEN { DecideK(ic) : ic \in IC(cc, init) }
  ELSE LET c == m[startpos + processed + 1]
           cc2 == StepCounts(cc, c)
           p2 == processed + 1
       IN IF p2 >= 4
          THEN LET rs == { DecideR(ic, m, startpos, p2) : ic \in IC(cc2, init) }
               IN (rs \ {-1}) \cup (IF -1 \in rs THEN LAGo(m, startpos, p2, cc2, init) ELSE {})
          ELSE LAGo(m, startpos, p2, cc2, init)
LookAhead(m, startpos, mode) ==
  IF startpos >= Len(m) THEN {mode} ELSE LAGo(m, startpos, 0, InitCounts(mode), InitCounts(mode))

(* ---------------- character encoders *)
RECURSIVE C40Char(_,_)
C40Char(c, text) ==
  IF c = 32 THEN <<3>>
  ELSE IF IsDigit(c) THEN <<c - 48 + 4>>
  ELSE IF ~text /\ c >= 65 /\ c <= 90 THEN <<c - 65 + 14>>
  ELSE IF text /\ c >= 97 /\ c <= 122 THEN <<c - 97 + 14>>
  ELSE IF c < 32 THEN <<0, c>>
  ELSE IF c <= 47 THEN <<1, c - 33>>
  ELSE IF c <= 64 THEN <<1, c - 58 + 15>>
  ELSE IF ~text /\ c <= 95 THEN <<1, c - 91 + 22>>
  ELSE IF ~text /\ c <= 127 THEN <<2, c - 96>>
  ELSE IF text /\ c >= 91 /\ c <= 95 THEN <<1, c - 91 + 22>>
  ELSE IF text /\ c = 96 THEN <<2, 0>>
  ELSE IF text /\ c <= 90 THEN <<2, c - 65 + 1>>
  ELSE IF text /\ c <= 127 THEN <<2, c - 123 + 27>>
  ELSE <<1, 30>> \o C40Char(c - 128, text)
Triplet(b) == LET v == 1600*b[1] + 40*b[2] + b[3] + 1 IN <<v \div 256, v % 256>>
RECURSIVE Triplets(_)
Triplets(b) == IF Len(b) < 3 THEN <<>> ELSE Triplet(b) \o Triplets(SubSeq(b, 4, Len(b)))
X12Val(c) == CASE c = 13 -> 0 [] c = 42 -> 1 [] c = 62 -> 2 [] c = 32 -> 3
               [] IsDigit(c) -> c - 48 + 4 [] (c >= 65 /\ c <= 90) -> c - 65 + 14 [] OTHER -> -1
EdfVal(c) == IF c >= 32 /\ c <= 63 THEN c ELSE IF c >= 64 /\ c <= 94 THEN c - 64 ELSE -1
EdfWords(b) == LET n == Len(b)
                   g(i) == IF i <= n THEN b[i] ELSE 0
                   v == g(1)*262144 + g(2)*4096 + g(3)*64 + g(4)
                   w == <<(v \div 65536) % 256, (v \div 256) % 256, v % 256>>
               IN SubSeq(w, 1, IF n >= 3 THEN 3 ELSE n)
RECURSIVE DigitRun(_,_)
DigitRun(m, p) == IF p < Len(m) /\ IsDigit(m[p+1]) THEN 1 + DigitRun(m, p+1) ELSE 0
RECURSIVE AsciiCost(_,_,_)      \* codewords the characters p+1..q take in ASCII, counting an extended character twice (EDIFACT shortcut)
AsciiCost(m, p, q) == IF p >= q THEN 0 ELSE (IF IsExt(m[p+1]) THEN 2 ELSE 1) + AsciiCost(m, p+1, q)

VARIABLES msg, pos, cw, si, mode, pc, buf, steps
vars == <<msg, pos, cw, si, mode, pc, buf, steps>>
HasMore(p) == p < Len(msg)
Init == /\ msg = <<>> /\ pos = 0 /\ cw = <<>> /\ si = 0 /\ mode = ASCII /\ pc = "build" /\ buf = <<>> /\ steps = 0
Build == /\ pc = "build"
         /\ IF FixedMode THEN msg = <<>> /\ \E k \in 1..Len(FixedMsgs) : msg' = FixedMsgs[k].msg
            ELSE Len(msg) < MaxLen /\ \E c \in Alphabet : msg' = Append(msg, c)
         /\ UNCHANGED <<pos, cw, si, mode, pc, buf, steps>>
Begin == /\ pc = "build" /\ Len(msg) >= 1 /\ pc' = "dispatch" /\ UNCHANGED <<msg, pos, cw, si, mode, buf, steps>>
\* a mode encoder returned normally: ne = signalled new encoding (-1 none)
Ret(p, c, ne, s) == /\ pos' = p /\ cw' = c /\ si' = s /\ buf' = <<>> /\ mode' = (IF ne >= 0 THEN ne ELSE mode)
                    /\ pc' = "dispatch" /\ steps' = steps + 1 /\ UNCHANGED msg
Fail == pc' = "error" /\ steps' = steps + 1 /\ UNCHANGED <<msg, pos, cw, si, mode, buf>>
Panic == pc' = "panic" /\ steps' = steps + 1 /\ UNCHANGED <<msg, pos, cw, si, mode, buf>>
Stay(p, c, b, s) == /\ pos' = p /\ cw' = c /\ buf' = b /\ si' = s /\ steps' = steps + 1 /\ UNCHANGED <<msg, mode, pc>>

Finish ==
  /\ pc = "dispatch" /\ ~HasMore(pos)
  /\ LET s == Upd(si, Len(cw)) IN
     IF s = 0 THEN Fail
     ELSE LET c1 == IF Len(cw) < s /\ mode \notin {ASCII, B256, EDF} THEN Append(cw, 254) ELSE cw
              c2 == IF Len(c1) < s THEN Append(c1, 129) ELSE c1
              pad == [k \in 1..(s - Len(c2)) |-> Pad253(Len(c2) + k)]
          IN /\ cw' = (IF Len(c2) <= s THEN c2 \o pad ELSE c2) /\ si' = s /\ pc' = "done" /\ steps' = steps + 1
             /\ UNCHANGED <<msg, pos, mode, buf>>

AsciiStep ==
  /\ pc = "dispatch" /\ HasMore(pos) /\ mode = ASCII
  /\ IF DigitRun(msg, pos) >= 2
     THEN Ret(pos + 2, Append(cw, (msg[pos+1]-48)*10 + (msg[pos+2]-48) + 130), -1, si)
     ELSE \E nm \in LookAhead(msg, pos, ASCII) :
            IF nm # ASCII
            THEN Ret(pos, Append(cw, CASE nm = B256 -> 231 [] nm = C40 -> 230 [] nm = X12 -> 238 [] nm = TEXT -> 239 [] nm = EDF -> 240), nm, si)
            ELSE LET c == msg[pos+1] IN
                 IF IsExt(c) THEN Ret(pos + 1, cw \o <<235, c - 128 + 1>>, -1, si)
                 ELSE Ret(pos + 1, Append(cw, c + 1), -1, si)
StartLoop == /\ pc = "dispatch" /\ HasMore(pos) /\ mode # ASCII /\ pc' = "loop" /\ buf' = <<>> /\ steps' = steps + 1
             /\ UNCHANGED <<msg, pos, cw, si, mode>>

\* ---- C40 / Text (values are buffered until the end-of-data handler writes all triplets)
C40EOD(p, b, s0) ==
  LET unwritten == (Len(b) \div 3) * 2
      rest == Len(b) % 3
      cur == Len(cw) + unwritten
      s == Upd(s0, cur)
  IN IF s = 0 THEN Fail
     ELSE LET avail == s - cur IN
          IF rest = 2 THEN Ret(p, cw \o Triplets(Append(b, 0)) \o (IF HasMore(p) THEN <<254>> ELSE <<>>), ASCII, s)
          ELSE IF avail = 1 /\ rest = 1      \* the last character goes to ASCII; without unlatch only if it takes the one codeword left
               THEN Ret(p - 1, cw \o Triplets(b) \o (IF HasMore(p) \/ IsExt(msg[p]) THEN <<254>> ELSE <<>>), ASCII, s)
          ELSE IF rest = 0 THEN Ret(p, cw \o Triplets(b) \o (IF avail > 0 \/ HasMore(p) THEN <<254>> ELSE <<>>), ASCII, s)
          ELSE Fail                                             \* "Unexpected case"
RECURSIVE Back1(_,_,_,_,_)
Back1(p, b, ls, avail, first) ==  \* the backtracking at the end of data as the code does it: <<p, b, panic>>
  IF (first /\ Len(b) % 3 = 2 /\ avail # 2) \/ (Len(b) % 3 = 1 /\ (ls > 3 \/ avail # 1))
  THEN IF Len(b) - ls < 0 \/ p - 1 < 0 THEN <<p, b, TRUE>>
       ELSE LET b2 == SubSeq(b, 1, Len(b) - ls) IN      \* the next step removes the character that is now last in the buffer
            Back1(p - 1, b2, IF Len(b2) > 0 /\ p - 1 >= 1 THEN Len(C40Char(msg[p-1], mode = TEXT)) ELSE 0, avail, FALSE)
  ELSE <<p, b, FALSE>>
C40Iter ==
  /\ pc = "loop" /\ mode \in {C40, TEXT}
  /\ IF ~HasMore(pos) THEN C40EOD(pos, buf, si)
     ELSE LET c == msg[pos+1]
              p1 == pos + 1
              vals == C40Char(c, mode = TEXT)
              b1 == buf \o vals
              cur == Len(cw) + (Len(b1) \div 3) * 2
              s == Upd(si, cur)
          IN IF s = 0 THEN Fail
             ELSE IF ~HasMore(p1)
                  THEN LET r == Back1(p1, b1, Len(vals), s - cur, TRUE) IN
                       IF r[3] THEN Panic ELSE C40EOD(r[1], r[2], IF r[1] # p1 THEN 0 ELSE s)
                  ELSE IF Len(b1) % 3 = 0
                       THEN \E nm \in LookAhead(msg, p1, mode) : IF nm # mode THEN C40EOD(p1, b1, s) ELSE Stay(p1, cw, b1, s)
                       ELSE Stay(p1, cw, b1, s)
\* ---- X12
X12EOD(p, c, b) ==
  LET s == Upd(si, Len(c)) IN
  IF s = 0 THEN Fail
  ELSE LET avail == s - Len(c)
           p2 == p - Len(b)
           remaining == Len(msg) - p2
       IN Ret(p2, IF remaining > 1 \/ avail > 1 \/ remaining # avail THEN Append(c, 254) ELSE c, ASCII, s)
X12Iter ==
  /\ pc = "loop" /\ mode = X12
  /\ IF ~HasMore(pos) THEN X12EOD(pos, cw, buf)
     ELSE LET c == msg[pos+1] p1 == pos + 1 v == X12Val(c) IN
          IF v < 0 THEN Fail                                    \* "Illegal character"
          ELSE LET b1 == Append(buf, v) IN
               IF Len(b1) % 3 = 0
               THEN LET c2 == cw \o Triplet(b1) IN
                    \E nm \in LookAhead(msg, p1, X12) : IF nm # X12 THEN X12EOD(p1, c2, <<>>) ELSE Stay(p1, c2, <<>>, si)
               ELSE Stay(p1, cw, b1, si)
\* ---- EDIFACT
EdfEOD(p, c, b0) ==
  LET b == Append(b0, 31)
      count == Len(b)
      s1 == IF count = 1 THEN Upd(si, Len(c)) ELSE si
  IN IF count = 1 /\ s1 = 0 THEN Fail
     ELSE LET remaining == AsciiCost(msg, p, Len(msg))                    \* codewords of the rest in ASCII (extended counted twice)
              s2 == IF count = 1 /\ remaining > s1 - Len(c) THEN Upd(s1, Len(c) + 1) ELSE s1
          IN IF count = 1 /\ s2 = 0 THEN Fail
             ELSE IF count = 1 /\ remaining <= s2 - Len(c) /\ s2 - Len(c) <= 2 THEN Ret(p, c, ASCII, s2)      \* no unlatch
             ELSE IF count > 4 THEN Fail
             ELSE LET restChars == count - 1
                      encoded == EdfWords(b)
                      s3 == IF restChars <= 2 THEN Upd(s2, Len(c) + restChars) ELSE s2
                  IN IF s3 = 0 THEN Fail
                     ELSE LET av3 == s3 - Len(c)
                              s4 == IF restChars <= 2 /\ av3 >= 3 THEN Upd(s3, Len(c) + Len(encoded)) ELSE s3
                              ria == ~HasMore(p) /\ restChars <= 2 /\ ~(av3 >= 3)
                          IN IF s4 = 0 THEN Fail
                             ELSE IF ria THEN Ret(p - restChars, c, ASCII, 0) ELSE Ret(p, c \o encoded, ASCII, s4)
EdfIter ==
  /\ pc = "loop" /\ mode = EDF
  /\ IF ~HasMore(pos) THEN EdfEOD(pos, cw, buf)
     ELSE LET c == msg[pos+1] v == EdfVal(c) IN
          IF v < 0 THEN Fail
          ELSE LET b1 == Append(buf, v) p1 == pos + 1 IN
               IF Len(b1) >= 4
               THEN LET c2 == cw \o EdfWords(b1) IN
                    \E nm \in LookAhead(msg, p1, EDF) : IF nm # EDF THEN EdfEOD(p1, c2, <<>>) ELSE Stay(p1, c2, <<>>, si)
               ELSE Stay(p1, cw, b1, si)
\* ---- Base 256 (buf holds the data bytes only)
B256End(p, b) ==
  LET n == Len(b)
      cur == Len(cw) + n + 1
      s == Upd(si, cur)
  IN IF s = 0 THEN Fail
     ELSE IF (HasMore(p) \/ s - cur > 0) /\ n > 1555 THEN Fail
     ELSE LET field == IF HasMore(p) \/ s - cur > 0
                       THEN (IF n <= 249 THEN <<n>> ELSE <<(n \div 250) + 249, n % 250>>)
                       ELSE <<0>>                                               \* the run ends the symbol
              b2 == field \o b
          IN Ret(p, cw \o [k \in 1..Len(b2) |-> Rand255(b2[k], Len(cw) + k)], ASCII, s)
B256Iter ==
  /\ pc = "loop" /\ mode = B256
  /\ IF ~HasMore(pos) THEN B256End(pos, buf)
     ELSE LET b1 == Append(buf, msg[pos+1]) p1 == pos + 1 IN
          \E nm \in LookAhead(msg, p1, B256) : IF nm # B256 THEN B256End(p1, b1) ELSE Stay(p1, cw, b1, si)

RoundTripOK == LET d == Decode(cw) IN ~d.err /\ d.text = msg
\* terminal states whose outcome deserves a look on the real encoder are printed as candidate cases
Report == /\ pc \in {"done", "error", "panic", "runaway"}
          /\ (EmitAll \/ pc \in {"panic", "runaway"} \/ (pc = "done" /\ ~RoundTripOK) \/ (pc = "error" /\ AsciiLen(msg, 1) <= MaxCap(Shape, Mn, Mx)))
          /\ PrintT(<<"GEN", ToJson([msg |-> msg, pc |-> pc, cw |-> cw, mode |-> mode])>>)
          /\ pc' = "reported" /\ UNCHANGED <<msg, pos, cw, si, mode, buf, steps>>
Runaway == /\ pc \in {"dispatch", "loop"} /\ steps > 6 * Len(msg) + 12 /\ pc' = "runaway"
           /\ UNCHANGED <<msg, pos, cw, si, mode, buf, steps>>
Next == Build \/ Begin \/ Finish \/ AsciiStep \/ StartLoop \/ C40Iter \/ X12Iter \/ EdfIter \/ B256Iter \/ Report \/ Runaway
Spec == Init /\ [][Next]_vars
\* the design-level claims (checked as invariants; the cfg used by the check reports instead of stopping)
Terminates == pc # "runaway"
NoPanic == pc # "panic"
RoundTrip == pc = "done" => RoundTripOK
Bounded == Len(cw) <= 3 * Len(msg) + 8 \/ pc = "done"
NoHint == <<>>
Max14 == <<14, 14>>
Max16x48 == <<48, 16>>
Max18 == <<18, 18>>
Min32 == <<32, 32>>
=============================================================================
