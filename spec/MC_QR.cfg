SPECIFICATION Spec
CONSTANTS
  MaxRTVersion = 2
  FullTables = FALSE
INVARIANT Inv
CHECK_DEADLOCK FALSE
