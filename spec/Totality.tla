------------------------------ MODULE Totality ------------------------------
(* C06 - decoding is total.  The contract of every reader / decoder / parser call as a call-return automaton:        *)
(*                                                                                                                   *)
(*      Idle --Call(api, input)--> Running --Return(outcome)--> Idle                                                 *)
(*                                                                                                                   *)
(* where the only outcomes a conforming implementation may produce are  Result  and  Err(kind).  The outcomes        *)
(* Panic, Hang, Neither (nil, nil) and Both (result and error) exist in the model only to be excluded.  For the      *)
(* image-level readers the kind is one of the three documented ones.  The second half composes total inner calls     *)
(* the way the readers retry (mirrored QR reading, rows x directions x 90 degree turn, the Aztec reader's two        *)
(* detections, first-success over several row decoders, skipping of candidates in the multi reader) and states       *)
(* when the composition is total again - checked exhaustively by MC_Totality.                                        *)
EXTENDS Integers, Sequences, FiniteSets, TLC

(* ------------------------------------------------------------------ observations *)
DocumentedKinds == {"NotFound", "Checksum", "Format"}
\* dynamic kinds the driver can report: the three documented ones, a ReaderException of no documented kind, a
\* WriterException, any other error value
ErrorKinds == DocumentedKinds \cup {"Reader", "Writer", "Other"}

\* API classes.  image: gozxing.Reader.Decode of the readers (locating + decoding);  multi: DecodeMultiple (a list, possibly
\* empty, or an error);  row: oned.RowDecoder.DecodeRow;  matrix: the module-matrix decoders;  parser: the bit-stream parsers
ImageApis == {"qr", "dm", "az", "multiqr", "upcean", "ean13", "ean8", "upca", "upce", "code39", "code39c", "code39x",
              "code93", "code128", "itf", "codabar", "rss14"}
RowApis == ImageApis \ {"qr", "dm", "az", "multiqr"}
ApiClass(op, api) ==
  CASE op \in {"img", "sym", "png"} /\ api \in ImageApis -> "image"
    [] op \in {"img", "sym", "png"} /\ api = "multiqr.multi" -> "multi"
    [] op \in {"cwq", "qrv"} /\ api \in {"qr", "multiqr"} -> "image"
    [] op \in {"cwq"} /\ api = "multiqr.multi" -> "multi"
    [] op \in {"cwq", "qrv"} /\ api = "qr.decoder" -> "matrix"
    [] op \in {"cwd"} /\ api = "dm" -> "image"
    [] op \in {"cwd"} /\ api = "dm.decoder" -> "matrix"
    [] op = "mat" /\ api \in {"qr.decoder", "dm.decoder", "az.decoder"} -> "matrix"
    [] op = "row" /\ api \in RowApis -> "row"
    [] op = "runs" /\ api \in RowApis -> "row"
    [] op = "qrp" /\ api = "qr.parser" -> "parser"
    [] op = "dmp" /\ api = "dm.parser" -> "parser"
    [] op = "azp" /\ api = "az.hld" -> "parser"
    [] OTHER -> "unknown"
\* error kinds a call of the class may return.  The property fixes them for the image-level readers (the row decoders
\* document the same three); for decoders and parsers any non-nil error is a typed refusal.
AllowedKinds(cls) == IF cls \in {"image", "multi", "row"} THEN DocumentedKinds ELSE ErrorKinds

\* the outcome of one observed call: e.res, e.err, e.panic, e.hang
Outcome(e) == IF e.panic # 0 THEN "Panic" ELSE IF e.hang # 0 THEN "Hang"
              ELSE IF e.res = 1 /\ e.err = "" THEN "Result"
              ELSE IF e.res = 0 /\ e.err # "" THEN "Err"
              ELSE IF e.res = 0 THEN "Neither" ELSE "Both"
Total(e) == Outcome(e) \in {"Result", "Err"}
\* a list result (DecodeMultiple) may be empty: "no error" is the result; a list together with an error is still Both
KindOK(e, cls) == e.err = "" \/ e.err \in AllowedKinds(cls)
\* outcome class demanded by a parser automaton: "ok" -> Result, "format" -> a FormatError, "any" -> either
ClassOK(e, want) == CASE want = "ok" -> e.res = 1 /\ e.err = ""
                      [] want = "format" -> e.res = 0 /\ e.err = "Format"
                      [] OTHER -> TRUE

(* ------------------------------------------------------------------ the call / return automaton *)
\* (used by MC_Totality as the environment of the composition models: every inner call is a Call followed by a Return
\*  whose outcome is total and of an allowed kind)
InnerOutcomes(kinds) == {[res |-> 1, err |-> ""]} \cup {[res |-> 0, err |-> k] : k \in kinds}
Ok(r) == r.res = 1
Fail(k) == [res |-> 0, err |-> k]
Success == [res |-> 1, err |-> ""]
Neither == [res |-> 0, err |-> ""]
IsTotal(r) == (r.res = 1 /\ r.err = "") \/ (r.res = 0 /\ r.err # "")

(* ------------------------------------------------------------------ compositions (how the readers retry) *)
\* qrcode/decoder.Decoder.Decode: plain reading; when it fails with a Format / Checksum error that error is remembered,
\* the mirrored reading is tried (version + format re-read: pre; decode: second); when the mirrored reading fails with
\* Format / Checksum the remembered error is reported, any other error is passed on.
QRMirrorRetry(first, pre, second) ==
  IF Ok(first) THEN first
  ELSE LET remembered == IF first.err \in {"Format", "Checksum"} THEN Fail(first.err) ELSE Neither
           m == IF ~Ok(pre) THEN pre ELSE second
       IN IF Ok(m) THEN m ELSE IF m.err \in {"Format", "Checksum"} THEN remembered ELSE m
\* first success over a sequence of attempts; an attempt failing with one of `skip` kinds is skipped, any other error
\* is returned at once; when nothing succeeded: NotFound  (OneDReader.doDecode over rows x 2 directions,
\* MultiFormatUPCEANReader over its readers)
RECURSIVE FirstSuccess(_,_,_)
FirstSuccess(attempts, i, skip) ==
  IF i > Len(attempts) THEN Fail("NotFound")
  ELSE IF Ok(attempts[i]) THEN attempts[i]
  ELSE IF attempts[i].err \in skip THEN FirstSuccess(attempts, i + 1, skip)
  ELSE attempts[i]
ReaderKinds == DocumentedKinds \cup {"Reader"}        \* everything that is a ReaderException
\* OneDReader.Decode: upright; only on NotFound and with TRY_HARDER the image turned by 90 degrees
OneDDecode(upright, tryHarder, rotated) ==
  IF Ok(upright) \/ upright.err # "NotFound" \/ ~tryHarder THEN upright ELSE rotated
\* AztecReader.Decode: detection + decode, then the same on the mirrored detection; reports the first attempt's error
AztecTwoTries(det1, dec1, det2, dec2) ==
  LET a1 == IF ~Ok(det1) THEN Fail("NotFound") ELSE IF Ok(dec1) THEN dec1 ELSE Fail("Format")
      a2 == IF ~Ok(det2) THEN Fail("NotFound") ELSE IF Ok(dec2) THEN dec2 ELSE Fail("Format")
  IN IF Ok(a1) THEN a1 ELSE IF Ok(a2) THEN a2 ELSE a1
\* UPC/EAN add-on: a failed extension read is ignored when it is a ReaderException
WithExtension(main, ext) == IF ~Ok(main) THEN main ELSE IF Ok(ext) \/ ext.err \in ReaderKinds THEN main ELSE Fail("Reader")
=============================================================================
