SPECIFICATION Spec
CONSTANTS
  Mode = "laws"
  OutStep = 7
  InStep = 5
INVARIANT Law
CHECK_DEADLOCK FALSE
