SPECIFICATION Spec
CONSTANTS
  Inits <- SimInits
  MaxDepth = 6
  Record = TRUE
CHECK_DEADLOCK FALSE
