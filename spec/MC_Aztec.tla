----------------------------- MODULE MC_Aztec -----------------------------
(* Design-level model of C11's message layer and generator of reference symbols.                               *)
(* The state machine writes a *script*: segment by segment it appends character runs of the current code table, *)
(* latches, shifted characters and binary-shift runs (Aztec.tla gives every script its text and bit stream).    *)
(*  MC_Aztec.cfg   exhaustive exploration of all scripts up to MaxSegs segments over representative parameters; *)
(*                 invariant Laws: the high-level decode automaton reads every script's stream back to its text, *)
(*                 also after bit stuffing / un-stuffing with the 1-padding of the last codeword, for all four   *)
(*                 codeword sizes; stuffed codewords are never all-0 / all-1.  Every explored script is also     *)
(*                 emitted (GEN) and replayed on the real Decoder.HighLevelDecode.                               *)
(*  Gen_Aztec.cfg  simulation (Mode = "gen"): one random script filling a symbol of the given size up to the     *)
(*                 requested share of check words, then fault sets up to the correction capacity chosen on the   *)
(*                 spec's codeword layout; Emit prints the complete reference symbol (module matrix, codeword    *)
(*                 parameters, expected text, faults and the modules they flip) for replay on the real reader.   *)
EXTENDS Aztec, Json
CONSTANTS Mode,          \* "mc" | "gen"
          Compact, Layers, EcPct,      \* symbol (gen): 1/0, number of layers, requested percentage of check words
          MaxSegs, EmitMax,
          StartSet, Strides, RunNs, ShiftKs, BinStarts, BinStrides, BinNs,
          NFaults,
          UseForced      \* gen: the script is given (forced.ndjson: one record [items]) instead of being drawn at random
Forced == IF UseForced THEN ndJsonDeserialize("forced.ndjson")[1].items ELSE <<>>
VARIABLES mode, items, raw, pend, faults, phase, nd
vars == <<mode, items, raw, pend, faults, phase, nd>>

Ws == WordSize(Layers)
Ncw == NumCodewords(Compact, Layers)
MinCheck == Max2(3, ((Ncw * EcPct) + 99) \div 100)
NdMax == Min2(Ncw - MinCheck, IF Compact = 1 THEN 64 ELSE 2048)       \* the mode message has 6 / 11 bits for the count
\* a codeword takes Ws message bits, Ws-1 when a bit is stuffed: leave room for one stuffed bit in every fourth codeword
MaxRaw == IF Mode = "mc" THEN 1000000 ELSE (NdMax * Ws) - Max2(NdMax \div 4, Ws)
MinRaw == IF Mode = "mc" THEN 1000000 ELSE MaxRaw - Min2(MaxRaw \div 3, 60)

Fits(s) == raw + SegLen(mode, s) <= MaxRaw
Options(kind) ==
  CASE kind = "run" -> {s \in {<<0, mode, st, d, n>> : st \in {x \in StartSet : x < NChars(mode)}, d \in Strides, n \in RunNs} : Fits(s)}
    [] kind = "latch" -> {s \in {<<1, t, 0, 0, 0>> : t \in {tt \in Tables : HasLatch(mode, tt)}} : Fits(s)}
    [] kind = "shift" -> {s \in UNION {{<<2, t, k, 0, 0>> : k \in {kk \in ShiftKs : kk <= NChars(t)}} : t \in {tt \in Tables : HasShift(mode, tt)}} : Fits(s)}
    [] kind = "bin" -> IF mode \in BinTables
                       THEN {s \in {<<3, 0, st, d, n>> : st \in BinStarts, d \in BinStrides, n \in BinNs} : Fits(s)} ELSE {}
Kinds == {"run", "latch", "shift", "bin"}
CanGrow == Len(items) < MaxSegs /\ raw < MinRaw /\ \E k \in Kinds : Options(k) # {}

Init == mode = U /\ items = <<>> /\ raw = 0 /\ pend = "" /\ faults = <<>> /\ phase = "build" /\ nd = 0
Force == /\ Mode = "gen" /\ UseForced /\ phase = "build" /\ items = <<>> /\ pend = ""
         /\ \E sc \in {Script(Forced)} : sc.ok /\ items' = Forced /\ raw' = Len(sc.bits) /\ mode' = sc.mode
         /\ phase' = "forced" /\ UNCHANGED <<pend, faults, nd>>
Choose == /\ phase = "build" /\ pend = "" /\ CanGrow /\ ~UseForced
          /\ pend' \in {k \in Kinds : Options(k) # {}}
          /\ UNCHANGED <<mode, items, raw, faults, phase, nd>>
Grow == /\ phase = "build" /\ pend # ""
        /\ \E s \in Options(pend) :
             /\ items' = Append(items, s) /\ raw' = raw + SegLen(mode, s) /\ mode' = SegMode(mode, s)
        /\ pend' = "" /\ UNCHANGED <<faults, phase, nd>>
\* gen: the script is complete; fix the number of data codewords
Finish == /\ Mode = "gen" /\ pend = "" /\ items # <<>> /\ ((phase = "build" /\ ~CanGrow /\ ~UseForced) \/ phase = "forced")
          /\ nd' = Len(Stuff(Script(items).bits, Ws))
          /\ phase' = "fault" /\ UNCHANGED <<mode, items, raw, pend, faults>>
Cap == Capacity(Ncw, nd)
\* damage masks: one bit, all bits, pseudo-random; kinds 4 / 5 turn a DATA codeword into all-0 / all-1 (what a blot of white or
\* black makes of it - values no undamaged codeword ever has, which a decoder may be tempted to treat specially)
MaskOf(kind, i, w, dws) ==
  CASE kind = 0 -> 1 [] kind = 1 -> (2^Ws) - 1
    [] kind = 4 /\ w < Len(dws) -> dws[w + 1]
    [] kind = 5 /\ w < Len(dws) -> ((2^Ws) - 1) - dws[w + 1]
    [] OTHER -> (((i * 37) + (11 * kind)) % ((2^Ws) - 1)) + 1
FaultSets(kinds) ==
  LET dws == Stuff(Script(items).bits, Ws) IN
  {fs \in {[i \in 1..cnt |-> LET w == (st + ((i-1) * sd)) % Ncw IN <<w, MaskOf(mk, i, w, dws)>>] :
              cnt \in {x \in {1, Cap \div 2, Cap} : x >= 1},
              st \in {0, nd - 1, Ncw - 1} \cup {(k * 37) % Ncw : k \in 1..12},
              sd \in {1, 2, 5}, mk \in kinds} :
     /\ Cardinality({fs[i][1] : i \in 1..Len(fs)}) = Len(fs)
     /\ (kinds \subseteq {4, 5} => \E i \in 1..Len(fs) : fs[i][1] < nd)}
Fault == /\ phase = "fault" /\ Len(faults) < NFaults /\ Cap >= 1
         /\ \E fs \in FaultSets(IF Len(faults) + 1 = NFaults /\ NFaults > 2 THEN {4, 5} ELSE 0..3) : faults' = Append(faults, fs)   \* the last set blots
         /\ UNCHANGED <<mode, items, raw, pend, phase, nd>>
EmitSym == /\ phase = "fault" /\ (Len(faults) >= NFaults \/ Cap < 1) /\ nd + 3 <= Ncw
           /\ \E s \in {Sym(Compact, Layers, items, TRUE)}, sp \in {Spiral(Compact, Layers)} :   \* (bound once: LET is re-evaluated per use in actions)
                 PrintT(<<"GEN", ToJson([c |-> Compact, layers |-> Layers, ws |-> s.ws, ncw |-> s.ncw, nd |-> s.nd,
                     items |-> items, text |-> s.text, hl |-> Chunks(s.hl), nhl |-> Len(s.hl), rows |-> s.rows,
                     faults |-> faults,
                     flips |-> [k \in 1..Len(faults) |-> FlipCells(Compact, Layers, sp, faults[k])]])>>)
           /\ phase' = "done" /\ UNCHANGED <<mode, items, raw, pend, faults, nd>>
\* mc: every script reached is a complete conforming message: emit it for replay on the real high-level decoder
EmitScript == /\ Mode = "mc" /\ phase = "build" /\ pend = "" /\ items # <<>> /\ Len(items) <= EmitMax
              /\ \E sc \in {Script(items)} :
                 PrintT(<<"GEN", ToJson([items |-> items, text |-> sc.text, hl |-> Chunks(sc.bits), nhl |-> Len(sc.bits)])>>)
              /\ phase' = "done" /\ UNCHANGED <<mode, items, raw, pend, faults, nd>>
Next == Force \/ Choose \/ Grow \/ Finish \/ Fault \/ EmitSym \/ EmitScript
Spec == Init /\ [][Next]_vars

(* ---- laws of the message layer, checked in every reachable state whose script is closed *)
AllOnes(s) == \A i \in 1..Len(s) : s[i] = 1
StuffLaw(bits, text, ws) ==
  LET dw == Stuff(bits, ws)  un == Unstuff(dw, ws) IN
  /\ \A k \in 1..Len(dw) : dw[k] # 0 /\ dw[k] # (2^ws) - 1            \* no codeword is all-0 or all-1 (erasure values)
  /\ Len(un) >= Len(bits) /\ Len(un) - Len(bits) < ws
  /\ SubSeq(un, 1, Len(bits)) = bits /\ AllOnes(SubSeq(un, Len(bits) + 1, Len(un)))
  /\ DecodeBits(un) = text                                            \* the 1-padding never decodes to a character
Laws == pend = "" /\ phase = "build" =>
  LET sc == Script(items) IN
  /\ sc.ok /\ sc.mode = mode /\ Len(sc.bits) = raw
  /\ DecodeBits(sc.bits) = sc.text
  /\ \A ws \in {6, 8, 10, 12} : StuffLaw(sc.bits, sc.text, ws)
\* the code tables are unambiguous: within one table the character codes, latch, shift and binary codes are distinct
TablesOK == \A t \in Tables :
  LET ctl == {x[3] : x \in {y \in LatchCodes \cup ShiftCodes : y[1] = t}} \cup (IF t \in BinTables THEN {BinCode} ELSE {})
      nctl == Cardinality({y \in LatchCodes \cup ShiftCodes : y[1] = t}) + (IF t \in BinTables THEN 1 ELSE 0)
  IN /\ Cardinality(ctl) = nctl /\ \A k \in ctl : k = 0 \/ k > NChars(t)
     /\ NChars(t) + nctl + (IF t = P THEN 1 ELSE 0) = 2^Width(t)          \* P keeps code 0 for FLG(n)
ASSUME TablesOK
=============================================================================
