------------------------------ MODULE Trace_RSS ------------------------------
(* Trace validation of the RSS-14 reader.  One event = one Reader.Decode call on a painted reference symbol:          *)
(*   ds, runs         the 13 digits and the 46 run lengths; PREMISE re-derived here: runs = RSS14!Symbol(ds)            *)
(*   fresh / reset    which reader object served the call (a new one; the run's shared one after Reset(); the shared    *)
(*                    one as the previous call left it)                                                                *)
(*   rows             what the hooks saw: the left / right pair of every DecodeRow call, in order                        *)
(*   text / err       what Decode returned                                                                             *)
(* The shared reader's two lists are state of this specification (variables lefts, rights): every event's rows are      *)
(* replayed through RSSTally!Step.  VERDICTS                                                                            *)
(*   "tally"   the call's outcome is not the one the tally machine gives for the logged pairs: an answer on an earlier   *)
(*             row, no answer although the lists hold a verifying pair, a text that is not the answering pairs' text     *)
(*   "pairs"   the answering pairs of a fresh / reset read are not the symbol's pairs (value = 1597 * outside + inside,  *)
(*             check portion mod 79, finder pattern index)                                                              *)
(*   "text"    a fresh / reset read of an image with at least three rows is not answered with Text(ds) as RSS_14         *)
(*             (unless data runs pass the reader's finder-ratio test before the finder pattern does: see Readable)       *)
(* A read WITHOUT Reset is judged by "tally" alone: the stale answer RSSTally predicts is what the real reader must      *)
(* return (MC_RSSTally shows why callers must reset).                                                                   *)
EXTENDS TraceLib, FiniteSets
R14 == INSTANCE RSS14
T == INSTANCE RSSTally
TX == INSTANCE RSSText
VARIABLES l, bad, lefts, rights
vars == <<l, bad, lefts, rights>>
Init == l = 1 /\ bad = <<>> /\ lefts = <<>> /\ rights = <<>>

IsNats(s, hi) == DOMAIN s = 1..Len(s) /\ \A i \in 1..Len(s) : s[i] \in 0..hi
RowShape(r) == DOMAIN r = 1..6 /\ \A i \in 1..6 : r[i] \in -1..100000000
Shape(e) == /\ e.op = "img" /\ IsNats(e.ds, 9) /\ IsNats(e.runs, 20) /\ e.scale \in 1..20 /\ e.quiet \in 0..100 /\ e.height \in 1..2000
            /\ e.rot \in {0, 180} /\ e.fresh \in {0, 1} /\ e.reset \in {0, 1} /\ e.err \in {0, 1} /\ e.panic \in {0, 1}
            /\ DOMAIN e.rows = 1..Len(e.rows) /\ \A i \in 1..Len(e.rows) : RowShape(e.rows[i])
            /\ IsNats(e.text, 9)
PairOf(r, k) == IF r[k] < 0 THEN T!None ELSE [v |-> r[k], cs |-> r[k + 1], f |-> r[k + 2]]
\* replay of the logged rows: state after each row
RECURSIVE Replay(_, _, _, _, _)
Replay(ls, rs, rows, i, acc) ==
  IF i > Len(rows) THEN acc
  ELSE LET st == T!Step(ls, rs, PairOf(rows[i], 1), PairOf(rows[i], 4)) IN Replay(st.lefts, st.rights, rows, i + 1, Append(acc, st))
\* the symbol's pairs by the reference encoder
WeightedSum(el) == R14!SumTo([j \in 1..8 |-> el[j] * R14!Weight(1, j)], 8)       \* weights 3^(j-1) mod 79
SpecPairs(ds) ==
  LET cs == R14!Chars(ds)
      els == <<R14!OutsideChar(cs[1]), R14!InsideChar(cs[2]), R14!OutsideChar(cs[3]), R14!InsideChar(cs[4])>>
      fp == R14!FinderPair(R14!CheckValue(els))
  IN << [v |-> 1597 * cs[1] + cs[2], cs |-> (WeightedSum(els[1]) + 4 * WeightedSum(els[2])) % 79, f |-> fp[1]],
        [v |-> 1597 * cs[3] + cs[4], cs |-> (WeightedSum(els[3]) + 4 * WeightedSum(els[4])) % 79, f |-> fp[2]] >>
\* The reader looks for a finder pattern by the ratio test of rss.isFinderPattern on windows of four runs, from the left, and
\* parses only the FIRST window that passes (findFinderPattern has no second try).  A symbol whose data runs pass the test
\* before the finder pattern does cannot be read by this reader: Readable says the first passing window is the finder's.
Pass(c) == LET f == c[1] + c[2]  t == f + c[3] + c[4]
               mn == CHOOSE x \in {c[1], c[2], c[3], c[4]} : \A y \in {c[1], c[2], c[3], c[4]} : x <= y
               mx == CHOOSE x \in {c[1], c[2], c[3], c[4]} : \A y \in {c[1], c[2], c[3], c[4]} : x >= y
           IN 24 * f >= 19 * t /\ 28 * f <= 25 * t /\ mx < 10 * mn            \* 9.5/12 <= f/t <= 12.5/14
FirstWin(q, start) == LET ok == {i \in start..Len(q) - 3 : (i - start) % 2 = 0 /\ Pass(SubSeq(q, i, i + 3))}
                      IN IF ok = {} THEN 0 ELSE CHOOSE i \in ok : \A j \in ok : i <= j
Readable(runs, quiet) == FirstWin(runs, 2) = 12 /\ FirstWin(<<quiet>> \o R14!Rev(runs), 1) = 13
SamePair(a, p) == a.v = p.v /\ a.cs % 79 = p.cs /\ a.f = p.f
Judge(e, sts) ==
  LET n == Len(sts)
      answered == n >= 1 /\ sts[n].ans # <<0, 0>>
      early == \E i \in 1..n - 1 : sts[i].ans # <<0, 0>>
      own == e.fresh = 1 \/ e.reset = 1
  IN IF e.panic = 1 THEN "panic"
     ELSE IF early THEN "tally"
     ELSE IF e.err = 0 /\ ~answered THEN "tally"
     ELSE IF e.err = 1 /\ (answered \/ e.kind # "notfound") THEN "tally"
     ELSE IF e.err = 0 /\ (e.text # TX!AnswerText(sts[n].lefts[sts[n].ans[1]], sts[n].rights[sts[n].ans[2]]) \/ e.fmt # "RSS_14") THEN "tally"
     ELSE IF ~own THEN "ok"
     ELSE IF e.err = 0 /\ ~(LET sp == SpecPairs(e.ds) IN SamePair(sts[n].lefts[sts[n].ans[1]], sp[1]) /\ SamePair(sts[n].rights[sts[n].ans[2]], sp[2])) THEN "pairs"
     ELSE IF e.height >= 3 /\ Readable(e.runs, e.quiet) /\ (e.err = 1 \/ e.text # R14!Text(e.ds)) THEN "text"
     ELSE IF e.err = 0 /\ e.text # R14!Text(e.ds) THEN "text"
     ELSE "ok"
Next ==
  /\ l <= NEv
  /\ l' = l + 1
  /\ LET e == Tr[l] IN
     IF ~Shape(e) THEN bad' = Append(bad, <<l, "premise", "shape">>) /\ UNCHANGED <<lefts, rights>>
     ELSE IF ~(R14!ValidDigits(e.ds) /\ e.runs = R14!Symbol(e.ds) /\ (e.reset = 1 /\ e.fresh = 0 => e.nreset >= 1))
          THEN bad' = Append(bad, <<l, "premise", "symbol">>) /\ UNCHANGED <<lefts, rights>>
     ELSE LET own == e.fresh = 1 \/ e.reset = 1
              l0 == IF own THEN <<>> ELSE lefts
              r0 == IF own THEN <<>> ELSE rights
              sts == Replay(l0, r0, e.rows, 1, <<>>)
              v == Judge(e, sts)
          IN /\ bad' = IF v = "ok" THEN bad ELSE Append(bad, <<l, v, "">>)
             /\ IF e.fresh = 1 THEN UNCHANGED <<lefts, rights>>
                ELSE IF Len(sts) = 0 THEN lefts' = l0 /\ rights' = r0
                ELSE lefts' = sts[Len(sts)].lefts /\ rights' = sts[Len(sts)].rights
Spec == Init /\ [][Next]_vars
Done == l = NEv + 1 => WriteBad(l, bad)
=============================================================================
