------------------------------- MODULE Geom -------------------------------
(* C19: perspective mapping and grid sampling, in exact integer arithmetic (TLC has no reals).                *)
(*                                                                                                            *)
(* Coordinates.  A coordinate is an integer in units of 1/S pixel (S is passed explicitly; S = 16 for the     *)
(* direct calls of the nudge function, S = 2 for "floor + is-it-an-integer" abstractions of exact rationals). *)
(*                                                                                                            *)
(* Check-and-nudge (ZXing's documented contract): the points of one grid row, assumed collinear, are examined  *)
(* from the start until one lies inside the image, then from the end likewise.  A point whose truncated        *)
(* coordinate is exactly one pixel outside an edge (trunc = -1, or = size) is pulled onto the edge (0, resp.   *)
(* size-1); farther out (trunc < -1 or > size) the whole call is NotFound.  One definition (NudgeCoord) serves *)
(* all four edges.  Reading of "up to one pixel outside": truncation is toward zero, so c in (-1,0) truncates  *)
(* to column 0 as it stands, c = -1 is nudged, and the band -2 < c < -1 is nudged by ZXing although it is more *)
(* than a pixel out: there the specification accepts both NotFound (strict) and the nudge (lenient).           *)
(*                                                                                                            *)
(* Projective maps are 3x3 integer matrices up to scale acting on homogeneous integer points; SquareToQuad is  *)
(* Heckbert's closed form, and TLC checks (MC_Geom) that it has the defining property: the unit square's       *)
(* corners go to the quadrilateral's corners.  The unique projective map through four point pairs is then      *)
(* SquareToQuad(dst) o SquareToQuad(src)^-1, evaluated at p = SquareToQuad(src)(u) as SquareToQuad(dst)(u).    *)
EXTENDS Integers, Sequences, TLC

Abs(x) == IF x < 0 THEN -x ELSE x
Sgn(x) == IF x < 0 THEN -1 ELSE IF x > 0 THEN 1 ELSE 0
Trunc(c, S) == IF c >= 0 THEN c \div S ELSE -((-c) \div S)                   \* toward zero, like int(float64)
BitOf(v, i) == (v \div (2^i)) % 2

(* ------------------------------------------------------------------ check and nudge *)
\* classification of one coordinate against 0..size-1
Class(c, size, S) == LET t == Trunc(c, S) IN
  IF t < -1 \/ t > size THEN "far"
  ELSE IF t = size THEN "hi"
  ELSE IF t = -1 THEN (IF c = -S THEN "lo" ELSE "amb")
  ELSE "ok"
\* outcome for one coordinate: [far, nudged, v]; lenient decides the band (-2,-1)
NudgeCoord(c, size, S, lenient) == LET k == Class(c, size, S) IN
  CASE k = "far" -> [far |-> TRUE, nudged |-> FALSE, v |-> c]
    [] k = "amb" -> IF lenient THEN [far |-> FALSE, nudged |-> TRUE, v |-> 0] ELSE [far |-> TRUE, nudged |-> FALSE, v |-> c]
    [] k = "lo"  -> [far |-> FALSE, nudged |-> TRUE, v |-> 0]
    [] k = "hi"  -> [far |-> FALSE, nudged |-> TRUE, v |-> (size - 1) * S]
    [] OTHER     -> [far |-> FALSE, nudged |-> FALSE, v |-> c]
\* a point is <<x, y>>.  quirk = TRUE describes the defect of the unchanged code (finding 3, used only to recognise it):
\* a y coordinate one pixel below the bottom edge is "nudged" to h instead of h-1.
NudgePoint(p, w, h, S, lenient, quirk) ==
  LET a == NudgeCoord(p[1], w, S, lenient)  b == NudgeCoord(p[2], h, S, lenient)
      by == IF quirk /\ Class(p[2], h, S) = "hi" THEN h * S ELSE b.v
  IN [far |-> a.far \/ b.far, nudged |-> a.nudged \/ b.nudged, p |-> <<a.v, by>>]
NF == [nf |-> 1, pts |-> <<>>]
OK(pts) == [nf |-> 0, pts |-> pts]
RECURSIVE Pass(_,_,_,_,_,_,_,_)
\* examine points i, i+dir, ... while they needed nudging
Pass(pts, i, dir, w, h, S, lenient, quirk) ==
  IF i < 1 \/ i > Len(pts) THEN OK(pts)
  ELSE LET r == NudgePoint(pts[i], w, h, S, lenient, quirk) IN
       IF r.far THEN NF
       ELSE IF r.nudged THEN Pass([pts EXCEPT ![i] = r.p], i + dir, dir, w, h, S, lenient, quirk)
       ELSE OK(pts)
NudgeQ(pts, w, h, S, lenient, quirk) ==
  LET a == Pass(pts, 1, 1, w, h, S, lenient, quirk) IN
  IF a.nf = 1 THEN NF ELSE Pass(a.pts, Len(pts), -1, w, h, S, lenient, FALSE)
Nudge(pts, w, h, S, lenient) == NudgeQ(pts, w, h, S, lenient, FALSE)

\* pointwise definition, valid for collinear equally spaced points: any point too far out => NotFound,
\* otherwise every point is nudged on its own
PointwiseNudge(pts, w, h, S, lenient) ==
  LET r == [i \in 1..Len(pts) |-> NudgePoint(pts[i], w, h, S, lenient, FALSE)] IN
  IF \E i \in 1..Len(pts) : r[i].far THEN NF ELSE OK([i \in 1..Len(pts) |-> r[i].p])
IsLine(pts) == \A i \in 2..Len(pts) : /\ pts[i][1] - pts[i-1][1] = pts[2][1] - pts[1][1]
                                      /\ pts[i][2] - pts[i-1][2] = pts[2][2] - pts[1][2]
Inside(p, w, h, S) == LET x == Trunc(p[1], S) y == Trunc(p[2], S) IN x >= 0 /\ x < w /\ y >= 0 /\ y < h
HasAmb(pts, w, h, S) == \E i \in 1..Len(pts) : Class(pts[i][1], w, S) = "amb" \/ Class(pts[i][2], h, S) = "amb"

(* ------------------------------------------------------------------ projective maps *)
\* quadrilateral q = <<x0,y0, x1,y1, x2,y2, x3,y3>> (integers).  Matrix rows: X = m[1]x + m[2]y + m[3]w, Y = m[4..6], W = m[7..9]
Cross(ax, ay, bx, by) == ax * by - ay * bx
Turn(q, i, j, k) == Cross(q[2*j-1] - q[2*i-1], q[2*j] - q[2*i], q[2*k-1] - q[2*j-1], q[2*k] - q[2*j])
Convex(q) == LET t == <<Turn(q, 1, 2, 3), Turn(q, 2, 3, 4), Turn(q, 3, 4, 1), Turn(q, 4, 1, 2)>>
             IN (\A i \in 1..4 : t[i] > 0) \/ (\A i \in 1..4 : t[i] < 0)
SquareToQuad(q) ==
  LET x0 == q[1] y0 == q[2] x1 == q[3] y1 == q[4] x2 == q[5] y2 == q[6] x3 == q[7] y3 == q[8]
      dx3 == x0 - x1 + x2 - x3   dy3 == y0 - y1 + y2 - y3
  IN IF dx3 = 0 /\ dy3 = 0
     THEN <<x1 - x0, x3 - x0, x0,   y1 - y0, y3 - y0, y0,   0, 0, 1>>                     \* parallelogram: affine
     ELSE LET dx1 == x1 - x2  dx2 == x3 - x2  dy1 == y1 - y2  dy2 == y3 - y2
              d == Cross(dx1, dy1, dx2, dy2)
              g == Cross(dx3, dy3, dx2, dy2)
              k == Cross(dx1, dy1, dx3, dy3)
          IN <<d * (x1 - x0) + g * x1, d * (x3 - x0) + k * x3, d * x0,
               d * (y1 - y0) + g * y1, d * (y3 - y0) + k * y3, d * y0,
               g, k, d>>
\* image of the homogeneous point (X, Y, W), normalised to a positive third component when possible
Apply(m, X, Y, W) ==
  LET a == m[1] * X + m[2] * Y + m[3] * W  b == m[4] * X + m[5] * Y + m[6] * W  c == m[7] * X + m[8] * Y + m[9] * W
  IN IF c < 0 THEN <<-a, -b, -c>> ELSE <<a, b, c>>
\* defining property of SquareToQuad: (0,0) (1,0) (1,1) (0,1) go to the four corners
MapsCorner(m, X, Y, cx, cy) == LET p == Apply(m, X, Y, 1) IN p[3] > 0 /\ p[1] = cx * p[3] /\ p[2] = cy * p[3]
SquareToQuadOK(q) == LET m == SquareToQuad(q) IN
  /\ MapsCorner(m, 0, 0, q[1], q[2]) /\ MapsCorner(m, 1, 0, q[3], q[4])
  /\ MapsCorner(m, 1, 1, q[5], q[6]) /\ MapsCorner(m, 0, 1, q[7], q[8])

\* exact rational num/den (den > 0) as floor + 9 decimal digits of the fraction
RECURSIVE Digits(_,_,_,_)
Digits(r, den, n, acc) == IF n = 0 THEN acc ELSE Digits((r * 10) % den, den, n - 1, acc * 10 + ((r * 10) \div den))
Dec9(num, den) == <<num \div den, Digits(num % den, den, 9, 0)>>             \* \div and % are floor / non-negative
\* |a - b| <= tol for values <<integer part, 10^-9 units>>, tol in 10^-9 units
Close(a, b, tol) == /\ Abs(a[1] - b[1]) <= 1
                    /\ Abs((a[1] - b[1]) * 1000000000 + (a[2] - b[2])) <= tol
\* abstraction of num/den (den > 0) to units of 1/2: floor, and whether there is a fractional part
Coarse(num, den) == 2 * (num \div den) + (IF (num % den) = 0 THEN 0 ELSE 1)
\* num/den is within 10^-6 of the integer NearInt (a float evaluation may land on the other side of it); 0 = not near
\* (reported as the integer + 1000000 so that 0 can mean "none")
NearTag(num, den) == LET r == num % den  e == (den - 1) \div 1000000 IN
  IF r <= e THEN (num \div den) + 1000000 ELSE IF den - r <= e THEN (num \div den) + 1000001 ELSE 0
\* near an integer at which the outcome of check-and-nudge changes (far / nudged / inside; the bottom edge for finding 3)
NearCritical(num, den, size) == LET t == NearTag(num, den) IN t # 0 /\ (t - 1000000) \in {-2, -1, size, size + 1}

(* ------------------------------------------------------------------ grid sampling *)
\* image: rows of 16-bit chunks; pixel (x, y), 0-based
Pixel(img, x, y) == BitOf(img[y + 1][(x \div 16) + 1], x % 16)
\* The grid's source square has origin (a2/2, a2/2) and side c; cell (x, y) is sampled at its centre (x+1/2, y+1/2),
\* i.e. at u = (centre - origin)/c of the unit square, homogeneous (2x+1-a2, 2y+1-a2, 2c).  m = SquareToQuad(dst) with
\* dst in units of 1/F pixel.  A row is a sequence of <<x, y, flag>>: coordinates abstracted to units of 1/2 (floor and
\* integrality are all that nudging and truncation depend on); flag 1 = within 10^-6 of a pixel boundary (in inexact
\* arithmetic the pixel under it is undetermined), 3 = within 10^-6 of a value where the nudge outcome changes,
\* 2 = the point is not in front of the projection (non-positive denominator).
RowPoints(m, y, dimX, a2, c, F, w, h) ==
  [x \in 1..dimX |-> LET p == Apply(m, 2 * (x - 1) + 1 - a2, 2 * y + 1 - a2, 2 * c)  d == p[3] * F
                     IN IF p[3] <= 0 THEN <<0, 0, 2>>
                        ELSE <<Coarse(p[1], d), Coarse(p[2], d),
                               IF NearCritical(p[1], d, w) \/ NearCritical(p[2], d, h) THEN 3
                               ELSE IF NearTag(p[1], d) # 0 \/ NearTag(p[2], d) # 0 THEN 1 ELSE 0>>]
\* sampled bits of one row: NotFound when nudging fails or a point still lies outside (nothing outside the image is read)
SampleRow(img, w, h, row, lenient, quirk) ==
  LET n == NudgeQ([i \in 1..Len(row) |-> <<row[i][1], row[i][2]>>], w, h, 2, lenient, quirk) IN
  IF n.nf = 1 THEN NF
  ELSE IF \E i \in 1..Len(row) : ~Inside(n.pts[i], w, h, 2) THEN NF
  ELSE OK([i \in 1..Len(row) |-> Pixel(img, Trunc(n.pts[i][1], 2), Trunc(n.pts[i][2], 2))])
=============================================================================
