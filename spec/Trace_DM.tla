------------------------------ MODULE Trace_DM ------------------------------
(* Trace validation for the Data Matrix family (C02, C05, C08, C13): recorded calls of the real encoder /    *)
(* decoder / writer / reader are compared with the ISO/IEC 16022 reference (DMTables, DMPlacement,           *)
(* DMHighLevel).  The placement map of the current symbol size is cached in `cache`.                         *)
EXTENDS DMHL, Chunk, TraceLib
VARIABLES l, bad, cache
vars == <<l, bad, cache>>
CacheFor(i) == IF cache.i = i THEN cache ELSE [i |-> i, map |-> Place(MapRows(T7[i]), MapCols(T7[i]))]

\* ---- C08: whole symbol written by DataMatrixWriter at size 0x0 for the data codewords EncodeHighLevel returned
SymCheck(e, ch) ==
  LET i == SizeIdx(e.h, e.w) IN
  IF e.panic = 0 /\ e.hang = 0 /\ e.tag = "choice" /\ e.err = 1 /\ e.cwerr = 1
  THEN <<B(Lookup(AsciiLen(e.text, 1), e.shape, e.mn, e.mx) = 0), 1, 1>>      \* a digit string is refused only if no admissible symbol holds it
  ELSE IF e.panic = 1 \/ e.hang = 1 \/ e.err = 1 \/ e.cwerr = 1 \/ i = 0 THEN <<0, 0, 0>>
  ELSE LET t == T7[i]
           okLen == Len(e.cw) = NData(t) /\ ChShapeOK(e.rows, e.w, e.h) /\ \A k \in 1..Len(e.cw) : e.cw[k] \in 0..255
           \* C13: the written symbol is the first admissible one (capacity order) for the codewords under the hints of the call
           okChoice == i = Lookup(Len(e.cw), e.shape, e.mn, e.mx)
       IN IF ~okLen \/ ~okChoice THEN <<1, 0, 0>>
          ELSE LET cw == Codewords(t, e.cw)
                   rows == ChUnRows(e.rows, e.w, e.h)
                   \* tag "pad": a one-character text in a forced size: codeword, first pad 129, then 253-state randomised pads
                   padOK == e.tag # "pad" \/ e.cw = <<e.text[1] + 1, 129>> \o [k \in 1..(NData(t) - 2) |-> Pad253(k + 2)]
               IN <<1, B(padOK), B(\A y \in 0..e.h-1, x \in 0..e.w-1 : rows[y+1][x+1] = Expected(t, ch.map, cw, x, y))>>
EccCheck(e) ==
  LET S == {i \in 1..NSizes : NData(T7[i]) = Len(e.data) /\ IsRect(T7[i]) = (e.shape = 2)} IN
  IF S = {} \/ e.panic = 1 \/ e.err = 1 THEN <<0>>
  ELSE LET t == T7[CHOOSE i \in S : TRUE] IN <<B(e.all = Codewords(t, e.data))>>
PlaceCheck(e, ch) ==
  IF e.panic = 1 \/ ~ChShapeOK(e.rows, e.nc, e.nr) THEN <<0>>
  ELSE LET rows == ChUnRows(e.rows, e.nc, e.nr) IN
       <<B(/\ \A y \in 0..e.nr-1, x \in 0..e.nc-1 : rows[y+1][x+1] = MapVal(ch.map, e.cw, x, y)
           \* the placement made by the previous event (kept alive by the driver) still holds what it held
           /\ (Has(e, "prev_then") => e.prev_then = e.prev_now))>>
LookupCheck(e) ==
  LET i == Lookup(e.n, e.shape, e.mn, e.mx) IN
  IF e.panic = 1 THEN <<0>>
  ELSE IF i = 0 THEN <<B(e.err = 1)>>
  ELSE LET t == T7[i] IN
       <<B(/\ e.err = 0 /\ e.w = SCols(t) /\ e.h = SRows(t) /\ e.cap = NData(t) /\ e.ecw = NEcc(t)
           /\ e.dw = MapCols(t) /\ e.dh = MapRows(t) /\ e.rw = RCols(t) /\ e.rh = RRows(t)
           /\ e.nblk = NBlk(t) /\ e.total = NData(t) + NEcc(t)
           /\ e.blkd = [b \in 1..NBlk(t) |-> BlockDataLen(t, b)] /\ e.blke = [b \in 1..NBlk(t) |-> EccPerBlock(t)])>>
\* the decoder's table: its first 30 entries are the ECC 200 sizes of Table 7; further entries (the library also reads ISO 21471
\* DMRE rectangles) must not shadow a standard size and must obey the structural law total = mapping modules / 8 = sum of blocks
DecVerCheck(e) ==
  LET V == e.versions
      std(k) == LET t == T7[k] nl == NData(t) % NBlk(t) IN
           V[k] = <<k, SRows(t), SCols(t), RRows(t), RCols(t), NData(t) + NEcc(t), EccPerBlock(t)>> \o
               (IF nl = 0 THEN <<NBlk(t), NData(t) \div NBlk(t)>> ELSE <<nl, (NData(t) \div NBlk(t)) + 1, NBlk(t) - nl, NData(t) \div NBlk(t)>>)
      extra(k) == LET v == V[k] IN
           /\ Len(v) = 9 /\ v[1] = k /\ SizeIdx(v[2], v[3]) = 0 /\ \A j \in 1..k-1 : <<V[j][2], V[j][3]>> # <<v[2], v[3]>>
           /\ v[2] % (v[4] + 2) = 0 /\ v[3] % (v[5] + 2) = 0
           /\ v[6] = ((v[2] \div (v[4] + 2)) * v[4] * (v[3] \div (v[5] + 2)) * v[5]) \div 8
           /\ v[6] = v[8] * (v[9] + v[7])
  IN <<B(e.panic = 0 /\ Len(V) >= NSizes /\ (\A k \in 1..NSizes : std(k))), B(e.panic = 0 /\ Len(V) >= NSizes /\ \A k \in NSizes+1..Len(V) : extra(k))>>

\* ---- C05: fault scripts.  A fault is <<b, i, x>>: codeword i (data then parity) of interleaved block b is xor-ed with x.
DmFaultShapeOK(f, t) == Len(f) = 3 /\ f[1] \in 1..NBlk(t) /\ f[2] >= 1 /\ f[2] <= BlockDataLen(t, f[1]) + EccPerBlock(t) /\ f[3] \in 1..255
DmWithin(fs, t) == LET F == {fs[i] : i \in 1..Len(fs)} IN
  /\ \A b \in 1..NBlk(t) : Cardinality({f[2] : f \in {g \in F : g[1] = b}}) <= EccPerBlock(t) \div 2
  /\ Cardinality({<<f[1], f[2]>> : f \in F}) = Len(fs)
DmgCheck(e, ch) ==
  LET i == SizeIdx(e.h, e.w)
      okSym == e.panic = 0 /\ e.hang = 0 /\ e.err = 0 /\ i # 0 /\ i = e.size /\ Len(e.res) = Len(e.sets)
      t == T7[i]
      cellOf(p) == LET x == p[1] y == p[2] rx == x % (RCols(t) + 2) ry == y % (RRows(t) + 2) IN
                   IF rx = 0 \/ rx = RCols(t) + 1 \/ ry = 0 \/ ry = RRows(t) + 1 THEN <<0, 0>>
                   ELSE LET v == ch.map[(y \div (RRows(t) + 2)) * RRows(t) + ry][(x \div (RCols(t) + 2)) * RCols(t) + rx] IN <<v \div 10, v % 10>>
      setOK(k) == LET st == e.sets[k] fs == st.faults IN
                  IF ~(\A j \in 1..Len(fs) : DmFaultShapeOK(fs[j], t)) THEN FALSE
                  ELSE LET want == UNION {{<<BlockCwIdx(t, fs[j][1], fs[j][2]), bit>> : bit \in {bb \in 1..8 : (fs[j][3] \div 2^(8-bb)) % 2 = 1}} : j \in 1..Len(fs)}
                           got == {cellOf(st.flip[j]) : j \in 1..Len(st.flip)}
                       IN /\ got = want /\ Len(st.flip) = Cardinality(want)
                          /\ IF DmWithin(fs, t) THEN e.res[k] = <<0, e.th[1], e.th[2]>>
                             ELSE e.res[k][1] \in 1..3 \/ e.res[k] = <<0, e.th[1], e.th[2]>>
  IN <<B(okSym), B(okSym => \A k \in 1..Len(e.sets) : setOK(k))>>

NeedSize(e) == CASE e.op = "sym" -> SizeIdx(e.h, e.w)
                 [] e.op = "dmg" -> SizeIdx(e.h, e.w)
                 [] e.op = "place" -> LET S == {i \in 1..NSizes : MapRows(T7[i]) = e.nr /\ MapCols(T7[i]) = e.nc} IN IF S = {} THEN 0 ELSE CHOOSE i \in S : TRUE
                 [] OTHER -> 0
Init == l = 1 /\ bad = <<>> /\ cache = [i |-> 0, map |-> <<>>]
Next ==
  /\ l <= NEv
  /\ l' = l + 1
  /\ LET e == Tr[l]
         ns == NeedSize(e)
         ch == IF ns = 0 THEN cache ELSE CacheFor(ns)
         r == CASE e.op = "sym" -> SymCheck(e, ch)
                [] e.op = "ecc" -> EccCheck(e)
                [] e.op = "place" -> (IF ns = 0 THEN <<0>> ELSE PlaceCheck(e, ch))
                [] e.op = "lookup" -> LookupCheck(e)
                [] e.op = "decver" -> DecVerCheck(e)
                [] e.op = "dmg" -> DmgCheck(e, ch)
                [] e.op = "hl" -> HLCheck(e)
                [] e.op = "la" -> LACheck(e)
     IN /\ bad' = IF \A k \in 1..Len(r) : r[k] = 1 THEN bad ELSE Append(bad, <<l, e.op, r>>)
        /\ cache' = ch
Spec == Init /\ [][Next]_vars
Done == l = NEv + 1 => WriteBad(l, bad)
=============================================================================
