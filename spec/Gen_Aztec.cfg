SPECIFICATION Spec
CONSTANTS
  Mode = "gen"
  Compact = 1
  Layers = 1
  EcPct = 25
  MaxSegs = 100000
  EmitMax = 0
  StartSet = {0, 1, 2, 3, 4, 5, 7, 9, 11, 12, 14, 15, 18, 19, 20, 22, 25, 26, 27, 28, 29}
  Strides = {1, 2, 7}
  RunNs = {1, 2, 3, 5, 8, 21, 60, 150}
  ShiftKs = {1, 2, 3, 4, 5, 6, 13, 17, 19, 21, 27, 30}
  BinStarts = {0, 65, 128, 200, 255}
  BinStrides = {1, 57}
  BinNs = {1, 2, 5, 31, 32, 33, 62, 120}
  UseForced = FALSE
  NFaults = 3
CHECK_DEADLOCK FALSE
