-------------------------------- MODULE Lum --------------------------------
(* C17: luminance sources as views of a plain 2-D array of grey values, and the two binarisers.               *)
(*                                                                                                            *)
(* A source is a window (left, top, w, h) on an underlying image `base` (bh rows of bw values 0..255), read    *)
(* through an optional inversion.  Crop moves/shrinks the window, Invert toggles the inversion, a quarter     *)
(* turn counter-clockwise makes the turned window the new underlying image.  Pixels are addressed 0-based      *)
(* (x, y) as in the API; sequences are 1-based.                                                               *)
(*                                                                                                            *)
(* Binarisation: the global-histogram method is integer arithmetic and is specified exactly (histogram of     *)
(* 32 buckets, tallest peak, distance-weighted second peak, valley nearest the white peak; rows additionally   *)
(* sharpened with the -1 4 -1 filter).  Of the local (hybrid) method only the bilevel law is specified.        *)
EXTENDS Integers, Sequences, FiniteSets, TLC

MaxOfSet(S) == CHOOSE v \in S : \A u \in S : u <= v
MinOfSet(S) == CHOOSE v \in S : \A u \in S : v <= u

(* ------------------------------------------------------------------ views *)
Src(base, bw, bh, left, top, w, h, inv) ==
  [base |-> base, bw |-> bw, bh |-> bh, left |-> left, top |-> top, w |-> w, h |-> h, inv |-> inv]
FromArray(px) == Src(px, Len(px[1]), Len(px), 0, 0, Len(px[1]), Len(px), 0)
Window(base, left, top, w, h) == Src(base, Len(base[1]), Len(base), left, top, w, h, 0)

Val(s, x, y) == LET v == s.base[s.top + y + 1][s.left + x + 1] IN IF s.inv = 1 THEN 255 - v ELSE v
ViewRow(s, y) == [x \in 1..s.w |-> Val(s, x - 1, y)]
View(s) == [y \in 1..s.h |-> ViewRow(s, y - 1)]
InBase(s) == s.left >= 0 /\ s.top >= 0 /\ s.w >= 1 /\ s.h >= 1 /\ s.left + s.w <= s.bw /\ s.top + s.h <= s.bh

(* What the property says about Crop(l, t, cw, ch) of a view:                                                 *)
(*   "neg"  negative origin                       -> must be an error                                          *)
(*   "out"  reaches outside the underlying image  -> must be an error                                          *)
(*   "in"   inside the current view               -> must succeed: pixel (x, y) is the old pixel (l+x, t+y)    *)
(*   "nd"   leaves the view, stays in the underlying image -> the property demands neither; an error, or the   *)
(*          window at the composed offset, are both accepted                                                   *)
(*   "deg"  empty / negative extent               -> not covered by the property                               *)
CropClass(s, l, t, cw, ch) ==
  IF cw < 1 \/ ch < 1 THEN "deg"
  ELSE IF l < 0 \/ t < 0 THEN "neg"
  ELSE IF s.left + l + cw > s.bw \/ s.top + t + ch > s.bh THEN "out"
  ELSE IF l + cw <= s.w /\ t + ch <= s.h THEN "in" ELSE "nd"
CropOf(s, l, t, cw, ch) == [s EXCEPT !.left = @ + l, !.top = @ + t, !.w = cw, !.h = ch]
InvertOf(s) == [s EXCEPT !.inv = 1 - @]
\* quarter turn counter-clockwise of an array with W columns: the top right corner becomes the top left one,
\* new(x, y) = old(W-1-y, x); the result has H columns and W rows
RotCCW(m) == LET W == Len(m[1]) H == Len(m) IN TLCEval([y \in 1..W |-> [x \in 1..H |-> m[x][W + 1 - y]]])
RotateOf(s) == FromArray(RotCCW(View(s)))
\* mirror the columns of the window in place (PlanarYUV "reverseHorizontal" constructor flag)
MirrorWindow(base, l, t, w, h) ==
  TLCEval([y \in 1..Len(base) |-> [x \in 1..Len(base[1]) |->
     IF y - 1 >= t /\ y - 1 < t + h /\ x - 1 >= l /\ x - 1 < l + w THEN base[y][2 * l + w - x + 1] ELSE base[y][x]]])

\* position-weighted checksum of a row (the harness logs one per row for images too big to log in full)
RECURSIVE WSum(_, _)
WSum(row, i) == IF i = 0 THEN 0 ELSE row[i] * i + WSum(row, i - 1)
RowSum(row) == WSum(row, Len(row))

(* ------------------------------------------------------------------ bit rows as 16-bit chunks (little endian) *)
RECURSIVE PackLE(_, _, _)
PackLE(b, lo, hi) == IF lo > hi THEN 0 ELSE b[lo] + 2 * PackLE(b, lo + 1, hi)
Chunks(b) == [c \in 1..((Len(b) + 15) \div 16) |-> PackLE(b, 16 * (c - 1) + 1, IF 16 * c < Len(b) THEN 16 * c ELSE Len(b))]
ChunkRows(m) == [y \in 1..Len(m) |-> Chunks(m[y])]

(* ------------------------------------------------------------------ global histogram binariser *)
Buckets == 0..31
HistOf(vals) == TLCEval([b \in Buckets |-> Cardinality({i \in 1..Len(vals) : vals[i] \div 8 = b})])
\* black point of a histogram, -1 when there is too little contrast
BlackPoint(hist) ==
  LET mx     == MaxOfSet({hist[b] : b \in Buckets})
      first  == MinOfSet({b \in Buckets : hist[b] = mx})                      \* tallest peak (lowest on ties)
      sc(b)  == hist[b] * (b - first) * (b - first)                           \* second peak: count x squared distance
      ms     == MaxOfSet({sc(b) : b \in Buckets})
      second == IF ms = 0 THEN 0 ELSE MinOfSet({b \in Buckets : sc(b) = ms})
      lo     == IF first < second THEN first ELSE second
      hi     == IF first < second THEN second ELSE first
      vs(x)  == (x - lo) * (x - lo) * (hi - x) * (mx - hist[x])               \* valley: low, and nearer the white peak
      mv     == MaxOfSet({vs(x) : x \in (lo + 1)..(hi - 1)})
  IN IF hi - lo <= 2 THEN -1 ELSE 8 * MaxOfSet({x \in (lo + 1)..(hi - 1) : vs(x) = mv})

NotFound == [nf |-> 1, bits |-> <<>>]
Found(b) == [nf |-> 0, bits |-> b]
\* one row: threshold from the row's own histogram; width >= 3: -1 4 -1 sharpening, end pixels stay white
BlackRowOf(row) ==
  LET n == Len(row) bp == BlackPoint(HistOf(row)) IN
  IF bp < 0 THEN NotFound
  ELSE IF n < 3 THEN Found([x \in 1..n |-> IF row[x] < bp THEN 1 ELSE 0])
  ELSE Found([x \in 1..n |-> IF x = 1 \/ x = n THEN 0
                             ELSE IF ((4 * row[x]) - row[x - 1] - row[x + 1]) \div 2 < bp THEN 1 ELSE 0])
\* whole image: histogram sampled from four rows (at 1/5..4/5 of the height) between 1/5 and 4/5 of the width
SampleOf(v, w, h) ==
  LET lft == w \div 5  n == ((4 * w) \div 5) - lft IN
  IF n <= 0 THEN <<>> ELSE [i \in 1..(4 * n) |-> v[((h * (((i - 1) \div n) + 1)) \div 5) + 1][lft + ((i - 1) % n) + 1]]
BlackMatrixGlobal(v, w, h) ==
  LET bp == BlackPoint(HistOf(SampleOf(v, w, h))) IN
  IF bp < 0 THEN NotFound ELSE Found([y \in 1..h |-> [x \in 1..w |-> IF v[y][x] < bp THEN 1 ELSE 0]])

IsBilevel(v) == \A y \in 1..Len(v) : \A x \in 1..Len(v[y]) : v[y][x] \in {0, 255}
BlackPixels(v) == [y \in 1..Len(v) |-> [x \in 1..Len(v[y]) |-> IF v[y][x] = 0 THEN 1 ELSE 0]]
\* the local method is used from 40 x 40 pixels on
UsesLocal(w, h) == w >= 40 /\ h >= 40
=============================================================================
