----------------------------- MODULE MC_MultiQR -----------------------------
(* Design laws of MultiQR.tla and generator of reference symbols.                                                   *)
(*  MC_MultiQR.cfg (Mode = "laws"): for small symbol lists, every subset of decoded symbols: the merge is a function   *)
(*     of the decoded set up to the order of equal sequence numbers; with a complete, duplicate-free message           *)
(*     (sequence 0..n-1, one parity) the merged text is the message, whatever else is in the image; the header's        *)
(*     reference parser reads back seq / total / parity; parity of a split message is the XOR of the parts' parities.   *)
(*  Gen_MultiQR.cfg (Mode = "gen"): prints the module matrices (rows of 16-bit chunks) of the requested symbols.        *)
EXTENDS MultiQR, Json
CONSTANTS Mode
Reqs == IF Mode = "gen" THEN ndJsonDeserialize("syms.ndjson") ELSE <<>>
VARIABLE job
PackLE(s, lo, hi) == LET f[i \in lo-1..hi] == IF i = lo - 1 THEN 0 ELSE f[i-1] + s[i] * 2^(i - lo) IN f[hi]
ChunksOf(s) == [c \in 1..((Len(s) + 15) \div 16) |-> PackLE(s, 16*(c-1) + 1, IF 16*c < Len(s) THEN 16*c ELSE Len(s))]
T(str) == str             \* texts are byte sequences
Sym(text, sa, seq, total, par) == [text |-> text, sa |-> sa, seq |-> seq, total |-> total, par |-> par, v |-> 1, ec |-> 1, mask |-> 0]
Lists == { << Sym(<<97>>, 0, 0, 1, 0), Sym(<<98, 99>>, 1, 1, 2, 7), Sym(<<100>>, 1, 0, 2, 7) >>,
           << Sym(<<97>>, 1, 0, 3, 1), Sym(<<98>>, 1, 2, 3, 1), Sym(<<99>>, 1, 1, 3, 1), Sym(<<120>>, 0, 0, 1, 0) >>,
           << Sym(<<97>>, 1, 0, 2, 1), Sym(<<98>>, 1, 0, 2, 9), Sym(<<99>>, 1, 1, 2, 1) >>,
           << Sym(<<97>>, 0, 0, 1, 0), Sym(<<98>>, 0, 0, 1, 0) >> }
Jobs == IF Mode = "gen" THEN {<<"gen", k>> : k \in 1..Len(Reqs)} ELSE {<<"list", l>> : l \in Lists} \cup {<<"hdr", s>> : s \in 0..15}
Init == job \in Jobs
Next == job' = job /\ FALSE
Spec == Init /\ [][Next]_job
IsPerm(o, S) == Len(o) = Cardinality(S) /\ {o[i] : i \in 1..Len(o)} = S
ListLaw(l) ==
  \A D \in SUBSET (1..Len(l)) :
    LET M == MergedTexts(l, D)  S == SAs(l, D) IN
    /\ (S = {} <=> M = {})
    /\ \A t \in M : Len(t) = Len(Concat(l, CHOOSE f \in [1..Cardinality(S) -> S] : IsPerm(f, S), 1))
    \* distinct sequence numbers: exactly one admissible text
    /\ (\A a, b \in S : a # b => l[a].seq # l[b].seq) => Cardinality(M) <= 1
    \* the observed list the model itself would produce is explained, and dropping a decoded plain symbol is not
    /\ \A t \in M : Explains(l, D, [i \in 1..Cardinality(Plain(l, D)) + 1 |->
                                      IF i <= Cardinality(Plain(l, D))
                                      THEN l[(CHOOSE f \in [1..Cardinality(Plain(l, D)) -> Plain(l, D)] : IsPerm(f, Plain(l, D)))[i]].text ELSE t])
HdrLaw(seq) ==
  LET s == Sym(<<104, 105>>, 1, seq, 16, 255 - seq)  cw == DataCW("byte", s.text, HdrOf(s), 1, 1) IN
  /\ ReadN(cw, 1, 4) = 3 /\ ReadN(cw, 5, 4) = seq /\ ReadN(cw, 9, 4) = 15 /\ ReadN(cw, 13, 8) = 255 - seq
  /\ LET p == ParseFrom(cw, 1, 21, -1, FALSE) IN p.ok /\ p.mode = "byte" /\ p.units = s.text
  /\ XorBytes(<<1, 2, 3>> \o <<4, 255>>, 1) = Xor8(XorBytes(<<1, 2, 3>>, 1), XorBytes(<<4, 255>>, 1))
Law ==
  CASE job[1] = "list" -> ListLaw(job[2])
    [] job[1] = "hdr" -> HdrLaw(job[2])
    [] job[1] = "gen" -> LET s == Reqs[job[2]] IN
         SymShape(s) /\ PrintT(<<"GEN", ToJson([k |-> job[2], dim |-> Dim(s.v), rows |-> [y \in 1..Dim(s.v) |-> ChunksOf(Matrix(s)[y])]])>>)
=============================================================================
