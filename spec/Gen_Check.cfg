SPECIFICATION Spec
CONSTANTS
  Mode = "gen"
  EDigits <- QuickDigits
  Stride = 1
CHECK_DEADLOCK FALSE
