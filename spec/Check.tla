------------------------------- MODULE Check -------------------------------
(* C10 - check digits and checksums are computed, demanded and enforced.                                      *)
(* Design spec on top of OneD (symbol construction, reference reader, check formulae):                         *)
(*   - the fault model: every single-character substitution of a symbol that keeps the original check         *)
(*     characters, as a *symbol* (run sequence) built from the spec's own tables;                              *)
(*   - what a reader may answer for a given symbol: the reference reader applied as the library applies a      *)
(*     row decoder - forward, then to the reversed row (orientation 180) - else an error;                      *)
(*   - what a writer must do with a content: refuse it, or produce the symbol with the standard's check        *)
(*     characters.                                                                                            *)
EXTENDS OneD

\* ---------------------------------------------------------------- symbols
SymRuns(sym, n) ==      \* n: the characters the symbol carries, check characters included
  CASE sym = "EAN13" -> EAN13Runs(n) [] sym = "EAN8" -> EAN8Runs(n) [] sym = "UPCA" -> UPCARuns(n)
    [] sym = "UPCE" -> UPCERuns(n) [] sym = "C128" -> C128Runs(n) [] sym = "C93" -> C93Runs(n) [] sym = "C39K" -> C39Runs(n)
SymLen(sym) == CASE sym = "EAN13" -> 13 [] sym = "EAN8" -> 8 [] sym = "UPCA" -> 12 [] sym = "UPCE" -> 8 [] OTHER -> 0
MainRuns(sym) == CASE sym = "EAN13" -> 59 [] sym = "EAN8" -> 43 [] sym = "UPCA" -> 59 [] sym = "UPCE" -> 33 [] OTHER -> 0
\* the complete number for a payload (check character(s) appended by the standard's formula)
Complete(sym, p) ==
  CASE sym \in {"EAN13", "EAN8", "UPCA"} -> Append(p, Check10(p))
    [] sym = "UPCE" -> Append(p, CheckUPCE(p))
    [] sym = "C128" -> Append(p, Check128(p))
    [] sym = "C93" -> p \o <<CheckC93(p), CheckK93(p)>>
    [] sym = "C39K" -> Append(p, Check39(p))
\* replacement characters at position i of a complete symbol
Alphabet(sym, n, i) ==
  CASE sym \in {"EAN13", "EAN8", "UPCA"} -> 0..9
    [] sym = "UPCE" -> IF i = 1 THEN {0, 1} ELSE 0..9
    [] sym = "C128" -> 0..105
    [] sym = "C93" -> 0..46
    [] sym = "C39K" -> 0..42
Substitutions(sym, n) == {<<i, d>> \in (1..Len(n)) \X (0..105) : d \in Alphabet(sym, n, i) /\ d # n[i]}
Subst(n, s) == [n EXCEPT ![s[1]] = s[2]]

\* ---------------------------------------------------------------- readers
\* what the library's reader for `sym` may answer on a clean image of the symbol r
\* rd = "own": the matching reader; rd = "multi": the multi-format UPC/EAN reader (EAN-13, EAN-8, UPC-E readers in turn)
ReaderFor(sym, rd) == IF rd = "multi" THEN "MULTI" ELSE sym
Forward(sym, r) == ReadSym(sym, r)
Backward(sym, r) == ReadSym(sym, Rev(r))
\* the text returned for a UPC/EAN symbol carries a verifying check digit
TextVerifies(sym, t) ==
  /\ \A i \in 1..Len(t) : t[i] \in 48..57
  /\ CASE sym = "EAN13" -> Len(t) = 13 /\ Verifies10(UnBytes(t))
       [] sym = "EAN8" -> Len(t) = 8 /\ Verifies10(UnBytes(t))
       [] sym = "UPCA" -> Len(t) = 12 /\ Verifies10(UnBytes(t))
       [] sym = "UPCE" -> Len(t) = 8 /\ t[1] \in {48, 49} /\ CheckUPCE(SubSeq(UnBytes(t), 1, 7)) = t[8] - 48
       [] sym = "MULTI" -> \/ (Len(t) \in {8, 13} /\ Verifies10(UnBytes(t)))
                           \/ (Len(t) = 8 /\ t[1] \in {48, 49} /\ CheckUPCE(SubSeq(UnBytes(t), 1, 7)) = t[8] - 48)
       [] OTHER -> TRUE
\* verdict on an observed answer: "ok", "tolerated" (a reading that the exact reference reader does not produce but whose
\* check digit verifies: of the reversed row through the library's tolerant pattern matcher, or - multi-format reader only -
\* of a longer symbol as an EAN-8 number because the EAN-8 row decoder searches for its guards and skips the surplus
\* digits; both are misreadings of a damaged symbol, not returned numbers with a failing check digit) or a reason
ReadVerdict(sym, r, err, text, orient) ==
  LET f == Forward(sym, r) b == Backward(sym, r) IN
  IF f.ok THEN (IF err = 0 /\ text = f.text /\ orient = 0 THEN "ok" ELSE "valid symbol not read as its content")
  ELSE IF b.ok THEN (IF err = 0 /\ text = b.text /\ orient = 180 THEN "ok" ELSE "reversed valid symbol not read as its content")
  ELSE IF err = 1 THEN "ok"
  ELSE IF (orient = 180 \/ sym = "MULTI") /\ TextVerifies(sym, text) THEN "tolerated"
  ELSE "symbol whose check characters do not verify was read"
\* add-on: r = main symbol, gap, add-on.  k = index of the first add-on run.  `len` = number of digits the add-on really has
AddOnVerdict(r, k, len, ext) ==
  LET e5 == ReadAddOn(r, k, 5) e2 == ReadAddOn(r, k, 2) IN
  IF e5.ok THEN (IF ext = e5.text THEN "ok" ELSE "five-digit add-on with matching parity not accepted")
  ELSE IF e2.ok /\ len = 2 THEN (IF ext = e2.text THEN "ok" ELSE "two-digit add-on with matching parity not accepted")
  ELSE IF ext = <<>> THEN "ok"
  ELSE IF e2.ok /\ ext = e2.text THEN "ok"     \* leading two digits of a refused five-digit add-on that form a valid two-digit add-on
  ELSE "add-on accepted although its parity does not encode its check value"

\* ---------------------------------------------------------------- writers
\* c: content bytes.  [ok |-> writer must accept, n |-> complete number it must encode]
WriterSpec(sym, c) ==
  LET len == SymLen(sym) d == UnBytes(c) IN
  IF ~(\A i \in 1..Len(c) : c[i] \in 48..57) \/ Len(c) \notin {len - 1, len} THEN [ok |-> FALSE, n |-> <<>>]
  ELSE IF sym = "UPCE" /\ d[1] \notin {0, 1} THEN [ok |-> FALSE, n |-> <<>>]
  ELSE LET p == SubSeq(d, 1, len - 1) full == Complete(sym, p) IN
       IF Len(c) = len /\ d # full THEN [ok |-> FALSE, n |-> <<>>] ELSE [ok |-> TRUE, n |-> full]

\* what the written UPC/EAN symbol carries as check digit (diagnostic for a rejected event): the check digit read from
\* the symbol's structure regardless of verification; -1 when the symbol is not even well-formed
CarriedCheck(sym, r) ==
  IF sym = "UPCE" /\ Len(r) = 33 THEN
     LET par == [i \in 1..6 |-> LeftChar(Quad(r, 4 * i))[2]]
         k0 == IndexIn(PE, par) - 1  k1 == IndexIn(PE, [i \in 1..6 |-> 1 - par[i]]) - 1
     IN IF k0 >= 0 THEN k0 ELSE k1
  ELSE IF sym = "EAN8" /\ Len(r) = 43 THEN LeftChar(Quad(r, 37))[1]
  ELSE IF sym \in {"EAN13", "UPCA"} /\ Len(r) = 59 THEN LeftChar(Quad(r, 53))[1]
  ELSE -1

\* ---------------------------------------------------------------- numbers
RECURSIVE ToNum(_, _)
ToNum(d, i) == IF i = 0 THEN 0 ELSE d[i] + 10 * ToNum(d, i - 1)        \* value of d[1..i]
Digits(x, n) == [i \in 1..n |-> (x \div (10 ^ (n - i))) % 10]
\* i-th payload of a block that starts at payload `base` (only the last six digits count up)
BlockPayload(base, i) == LET n == Len(base) IN
  SubSeq(base, 1, n - 6) \o Digits(ToNum(SubSeq(base, n - 5, n), 6) + i - 1, 6)
=============================================================================
