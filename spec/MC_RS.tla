-------------------------------- MODULE MC_RS --------------------------------
(* Design model of C04's codec.  A state is one transmission: a code shape <<field, k, r>>, a data word, and a set  *)
(* of symbol errors (increasing positions, non-zero magnitudes) added one at a time.                               *)
(*  MC_RS.cfg  - exhaustive check on tiny codes over GF(16) with Declarative = TRUE: for EVERY data word the       *)
(*               systematic encoder keeps the data and yields zero syndromes, the code is linear and has minimum    *)
(*               distance r+1; for every reachable error pattern of weight <= floor(r/2) the sent word is the       *)
(*               UNIQUE codeword within distance floor(r/2) of the received word (so "decode" is well defined and   *)
(*               must return it), whereas beyond the capacity nothing can be promised.                              *)
(*  Gen_RS.cfg - behaviour generation (Record = TRUE) on short codes of all six fields: every reachable state is    *)
(*               printed once by Emit as a JSON case (data, expected codeword, error list, received word) that is   *)
(*               replayed on the real encoder / decoder.                                                            *)
EXTENDS RS, Json
CONSTANTS Shapes,        \* sequence of <<field, k, r>>
          Pats,          \* data patterns used for the error walks
          MaxErr,        \* error patterns of weight 0..MaxErr are explored
          AllMags,       \* TRUE: every non-zero magnitude; FALSE: {1, alpha, q-1}
          Declarative, Record
VARIABLES sh, pat, errs, done
vars == <<sh, pat, errs, done>>

F(s) == Shapes[s][1]
K(s) == Shapes[s][2]
R(s) == Shapes[s][3]
N(s) == K(s) + R(s)
Mags(f) == IF AllMags THEN 1..(Q(f) - 1) ELSE {1, 2, Q(f) - 1}
DataPat(f, k, p) == [i \in 1..k |->
   CASE p = 0 -> 0
     [] p = 1 -> i % Q(f)
     [] p = 2 -> Exp(f, 3 * i + 1)
     [] p = 3 -> Q(f) - 1
     [] p = 4 -> IF i = 1 THEN 0 ELSE Exp(f, 7 * i)            \* leading zero symbol
     [] OTHER -> IF i = k THEN 1 ELSE 0]
Data == DataPat(F(sh), K(sh), pat)
Sent == Encode(F(sh), Data, R(sh))
Rcv == Corrupt(Sent, errs, 1)
Within == Len(errs) <= T(R(sh))

Init == sh \in 1..Len(Shapes) /\ pat \in Pats /\ errs = <<>> /\ done = FALSE
AddErr == /\ Len(errs) < MaxErr /\ Len(errs) <= T(R(sh)) /\ ~done          \* weights 0 .. min(MaxErr, capacity + 1)
          /\ \E pos \in (IF errs = <<>> THEN 0 ELSE errs[Len(errs)][1] + 1)..(N(sh) - 1), mag \in Mags(F(sh)) :
                errs' = Append(errs, <<pos, mag>>)
          /\ UNCHANGED <<sh, pat, done>>
Emit == /\ Record /\ ~done
        /\ PrintT(<<"GEN", ToJson([f |-> F(sh), k |-> K(sh), r |-> R(sh), x |-> Data, c |-> Sent, e |-> errs,
                                   w |-> Rcv, within |-> IF Within THEN 1 ELSE 0])>>)
        /\ done' = TRUE /\ UNCHANGED <<sh, pat, errs>>
Next == AddErr \/ Emit
Spec == Init /\ [][Next]_vars

(* ---- laws of the code, all data words of the tiny shapes (evaluated in the initial states) *)
CW == TLCEval([s \in 1..Len(Shapes) |-> IF Declarative THEN Codewords(F(s), K(s), R(s)) ELSE {}])
Zero(n) == [i \in 1..n |-> 0]
XorW(u, v) == [i \in 1..Len(u) |-> u[i] ^^ v[i]]
CodeLaws(s) == LET f == F(s) k == K(s) r == R(s) IN
  /\ Len(Generator(f, r)) = r + 1 /\ Generator(f, r)[1] = 1
  /\ \A j \in 0..(r - 1) : Eval(f, Generator(f, r), Root(f, j)) = 0
  /\ Cardinality(CW[s]) = Q(f) ^ k
  /\ \A d \in Tuples(0..(Q(f) - 1), k) :
       LET c == Encode(f, d, r) IN
       /\ Len(c) = k + r /\ IsWord(f, c) /\ SubSeq(c, 1, k) = d /\ IsCodeword(f, c, r)
       /\ c # Zero(k + r) => Weight(c) >= r + 1                                        \* minimum distance (linear code)
       /\ XorW(c, Encode(f, DataPat(f, k, 2), r)) = Encode(f, XorW(d, DataPat(f, k, 2)), r)   \* linearity
  /\ \A w \in {XorW(c, [i \in 1..(k + r) |-> IF i = k + r THEN 1 ELSE 0]) : c \in CW[s]} : ~IsCodeword(f, w, r)
Laws ==
  /\ (Declarative /\ errs = <<>> /\ pat = 0) => CodeLaws(sh)
  /\ Declarative => LET near == Nearest(CW[sh], Rcv, T(R(sh))) IN
        /\ Within => near = {Sent}                       \* unique nearest codeword = what was sent
        /\ ~Within => Sent \notin near                   \* beyond capacity: sent word is not within reach
  /\ Rcv = Sent <=> errs = <<>>
  /\ Dist(Rcv, Sent) = Len(errs)

MCShapesQuick == << <<3, 2, 4>>, <<3, 2, 3>>, <<3, 2, 2>>, <<3, 1, 4>>, <<3, 1, 1>> >>
GenShapesAllMag == << <<3, 2, 5>>, <<3, 4, 6>>, <<3, 11, 4>>, <<3, 13, 2>>, <<3, 1, 1>>, <<4, 1, 3>> >>
MCShapes == << <<3, 2, 4>>, <<3, 3, 2>>, <<3, 2, 3>>, <<3, 1, 1>> >>
GenShapesQuick == << <<1, 5, 4>>, <<1, 3, 5>>, <<2, 6, 4>>, <<2, 2, 2>>, <<3, 2, 5>>, <<3, 4, 6>>, <<3, 11, 4>>, <<3, 1, 1>>,
                     <<4, 4, 4>>, <<4, 1, 3>>, <<5, 3, 4>>, <<6, 2, 5>> >>
GenShapesFull  == << <<1, 5, 4>>, <<1, 3, 5>>, <<1, 9, 7>>, <<2, 6, 4>>, <<2, 3, 5>>, <<2, 2, 2>>, <<3, 2, 5>>, <<3, 4, 6>>,
                     <<3, 11, 4>>, <<3, 13, 2>>, <<3, 1, 1>>, <<3, 1, 14>>, <<4, 4, 4>>, <<4, 10, 6>>, <<4, 1, 3>>,
                     <<5, 3, 4>>, <<5, 8, 5>>, <<6, 2, 5>>, <<6, 9, 4>> >>
=============================================================================
