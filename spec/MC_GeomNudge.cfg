INIT InitNudge
NEXT NextNudge
CONSTANTS
  W = 3
  H = 2
  MaxPts = 2
  MaxLine = 4
  Q = 3
  Record = FALSE
INVARIANT NudgeLaws
CHECK_DEADLOCK FALSE
