SPECIFICATION Spec
CONSTANTS
  Sizes <- GenSizes
  ASizes = {0, 1, 31, 32, 33, 64, 70}
  MaxDepth = 24
  Record = TRUE
CHECK_DEADLOCK FALSE
