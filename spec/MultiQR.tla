------------------------------ MODULE MultiQR ------------------------------
(* Several QR Codes in one image, and structured append (ISO/IEC 18004 clause 8), beyond the listed properties (X02). *)
(*                                                                                                                   *)
(* Reference symbols: a byte-mode symbol optionally preceded by the structured-append header                          *)
(*     0011 | sequence (4 bits, 0-based) | total - 1 (4 bits) | parity (8 bits)                                       *)
(* built with the reference encoder of QRStream / QRSymbol (DataCW -> Stream -> RefMatrix).                           *)
(*                                                                                                                   *)
(* Model of multi/qrcode.QRCodeMultiReader.DecodeMultiple, shaped like the code: every detected symbol is decoded     *)
(* (symbols that fail to decode are skipped); if at least one decoded symbol carries a structured-append header,       *)
(* ALL such symbols of the image are taken out of the list, sorted by sequence number and replaced by ONE result whose  *)
(* text is the concatenation, appended after the plain results.  The code checks neither the parity nor the total:      *)
(* symbols of two different messages in one image are merged too (deviation from clause 8.3, named here, not hidden).   *)
(* Detection order is not specified: the plain results are compared as a bag, and symbols with EQUAL sequence numbers     *)
(* may be concatenated in either order (sort.Slice is not stable).                                                      *)
EXTENDS QRStream, FiniteSets

SABits(seq, total, par) == BitsOf(3, 4) \o BitsOf(seq, 4) \o BitsOf(total - 1, 4) \o BitsOf(par, 8)
\* s = [text (bytes), sa (0/1), seq, total, par, v, ec, mask]
HdrOf(s) == (IF s.sa = 1 THEN SABits(s.seq, s.total, s.par) ELSE <<>>) \o Header(-1, FALSE, "byte")
SymShape(s) == /\ s.sa \in {0, 1} /\ s.v \in 1..40 /\ s.ec \in 1..4 /\ s.mask \in 0..7
               /\ DOMAIN s.text = 1..Len(s.text) /\ \A i \in 1..Len(s.text) : s.text[i] \in 0..255
               /\ (s.sa = 1 => s.seq \in 0..15 /\ s.total \in 1..16 /\ s.par \in 0..255)
               /\ Fits("byte", Len(s.text), Len(HdrOf(s)) - 4, s.v, s.ec)
Matrix(s) == LET fm == FMap(s.v)  pos == Positions(s.v, fm)
                 cw == Stream(s.v, s.ec, DataCW("byte", s.text, HdrOf(s), s.v, s.ec))
             IN RefMatrix(s.v, s.ec, s.mask, cw, fm, pos)
\* parity of a message (clause 8.3): XOR of all its data bytes
RECURSIVE XorBytes(_, _)
Xor8(a, b) == LET x(k) == (((a \div 2^k) % 2) + ((b \div 2^k) % 2)) % 2 IN
              x(0) + (2 * x(1)) + (4 * x(2)) + (8 * x(3)) + (16 * x(4)) + (32 * x(5)) + (64 * x(6)) + (128 * x(7))
XorBytes(t, i) == IF i > Len(t) THEN 0 ELSE Xor8(t[i], XorBytes(t, i + 1))

(* ------------------------------------------------------------------ the merge *)
\* decoded: a SET of indices into syms (the symbols that were detected and decoded).  Expected answers:
\*   plain  the bag of texts of the decoded symbols without header (as a sequence sorted by index - compare as bags)
\*   merged the set of admissible concatenations of the decoded symbols with header (empty set: no merged result)
Plain(syms, decoded) == {i \in decoded : syms[i].sa = 0}
SAs(syms, decoded) == {i \in decoded : syms[i].sa = 1}
\* all orders of the structured-append symbols that are sorted by sequence number
Orders(syms, S) == {o \in [1..Cardinality(S) -> S] :
                      /\ \A a, b \in 1..Cardinality(S) : a # b => o[a] # o[b]
                      /\ \A a \in 1..Cardinality(S) - 1 : syms[o[a]].seq <= syms[o[a + 1]].seq}
RECURSIVE Concat(_, _, _)
Concat(syms, o, k) == IF k > Len(o) THEN <<>> ELSE syms[o[k]].text \o Concat(syms, o, k + 1)
MergedTexts(syms, decoded) == LET S == SAs(syms, decoded) IN
                              IF S = {} THEN {} ELSE {Concat(syms, o, 1) : o \in Orders(syms, S)}
\* is the observed result list (sequence of texts) explained by some set of decoded symbols D with Must \subseteq D?
Explains(syms, D, texts) ==
  LET P == Plain(syms, D)  M == MergedTexts(syms, D)
      np == Cardinality(P)
  IN IF M = {} THEN /\ Len(texts) = np
                    /\ \E f \in [1..np -> P] : (\A a, b \in 1..np : a # b => f[a] # f[b]) /\ \A a \in 1..np : texts[a] = syms[f[a]].text
     ELSE /\ Len(texts) = np + 1 /\ texts[np + 1] \in M                       \* the merged result comes last
          /\ \E f \in [1..np -> P] : (\A a, b \in 1..np : a # b => f[a] # f[b]) /\ \A a \in 1..np : texts[a] = syms[f[a]].text
=============================================================================
