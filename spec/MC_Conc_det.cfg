SPECIFICATION Spec
CONSTANTS
  G = {1, 2}
  Share = {"encoder"}
  Degrees = {1, 2, 3}
INVARIANTS Deterministic
CHECK_DEADLOCK FALSE
