------------------------------ MODULE RSSTally ------------------------------
(* The RSS-14 reader as a state machine (oned/rss/rss14_reader.go), shaped like the code:                            *)
(*                                                                                                                   *)
(*   DecodeRow(row)  decodes the left pair of the row and the right pair of the reversed row (either may be absent),  *)
(*                   TALLIES them in two lists kept in the reader object (a pair with the value of a listed pair      *)
(*                   increments that pair's count, otherwise it is appended with count 0), and then answers with the  *)
(*                   first (left, right) in list order whose counts both exceed 1 - i.e. that were each seen in THREE  *)
(*                   rows - and whose check value is the one their finder patterns announce;                          *)
(*   Reset()         empties both lists.                                                                              *)
(*                                                                                                                   *)
(* OneDReader.Decode hands the rows of an image to DecodeRow (each row forwards and, when that gives no answer,         *)
(* reversed) until one call answers.  The lists OUTLIVE the call: the reader is only memoryless for a caller who       *)
(* resets it between images, as the Reader interface asks ("Reset any internal state the implementation has after a    *)
(* decode, to prepare it for reuse").  MC_RSSTally explores images of two symbols in every order, with and without     *)
(* Reset: with it every answer is the symbol of the image being read (NoStale) and needs three rows of it (ThreeRows);     *)
(* without it the first row of the second image is answered with the FIRST symbol - TLC exhibits the behaviour, and    *)
(* Trace_RSS accepts exactly that from the real reader when the driver leaves Reset out (the deviation is named, not    *)
(* hidden).                                                                                                            *)
EXTENDS Integers, Sequences, FiniteSets, TLC

None == [v |-> -1, cs |-> 0, f |-> 0]                   \* no pair found in the row
IsPair(p) == p.v >= 0
\* a list entry: the pair as first seen (later sightings only count) and the number of LATER sightings
Entry(p) == [v |-> p.v, cs |-> p.cs, f |-> p.f, n |-> 0]
Tally(list, p) ==
  IF ~IsPair(p) THEN list
  ELSE IF \E i \in 1..Len(list) : list[i].v = p.v
       THEN LET i == CHOOSE k \in 1..Len(list) : list[k].v = p.v /\ \A j \in 1..k-1 : list[j].v # p.v
            IN [list EXCEPT ![i].n = @ + 1]
       ELSE Append(list, Entry(p))
\* the check value two finder patterns announce (reader's arithmetic: values 8 and 72 are skipped by the encoder)
Target(fl, fr) == LET t == 9 * fl + fr  a == IF t > 72 THEN t - 1 ELSE t IN IF a > 8 THEN a - 1 ELSE a
Verifies(l, r) == (l.cs + 16 * r.cs) % 79 = Target(l.f, r.f)
\* the answer of DecodeRow on the tallied lists: <<i, j>> (indices) or <<0, 0>>
Answer(lefts, rights) ==
  LET ok == {ij \in (1..Len(lefts)) \X (1..Len(rights)) :
               lefts[ij[1]].n > 1 /\ rights[ij[2]].n > 1 /\ Verifies(lefts[ij[1]], rights[ij[2]])}
  IN IF ok = {} THEN <<0, 0>>
     ELSE CHOOSE ij \in ok : \A kl \in ok : ij[1] < kl[1] \/ (ij[1] = kl[1] /\ ij[2] <= kl[2])
\* one DecodeRow call: new lists and the answer
Step(lefts, rights, l, r) ==
  LET nl == Tally(lefts, l)  nr == Tally(rights, r)  a == Answer(nl, nr) IN [lefts |-> nl, rights |-> nr, ans |-> a]

(* ------------------------------------------------------------------ the 13-digit text of an answer *)
\* V = 4537077 * lv + rv in base 10^4 limbs (TLC's integers are 32 bit); lv, rv < 4537077
Limbs(lv, rv) ==
  LET a == lv \div 10000  b == lv % 10000  c == 453  d == 7077
      r1 == rv \div 10000  r0 == rv % 10000
      t0 == b * d + r0
      t1 == a * d + b * c + r1 + (t0 \div 10000)
      t2 == a * c + (t1 \div 10000)
  IN <<t2 \div 10000, t2 % 10000, t1 % 10000, t0 % 10000>>          \* most significant first
Dig4(x) == <<x \div 1000, (x \div 100) % 10, (x \div 10) % 10, x % 10>>
\* decimal digits, at least 13 of them (leading zeros kept up to 13 places, further leading zeros dropped)
RECURSIVE DropZeros(_, _)
DropZeros(s, keep) == IF Len(s) > keep /\ s[1] = 0 THEN DropZeros(Tail(s), keep) ELSE s
ValueDigits(lv, rv) == LET m == Limbs(lv, rv) IN DropZeros(Dig4(m[1]) \o Dig4(m[2]) \o Dig4(m[3]) \o Dig4(m[4]), 13)
RECURSIVE SumW(_, _)
SumW(ds, i) == IF i > 13 THEN 0 ELSE ds[i] * (IF i % 2 = 1 THEN 3 ELSE 1) + SumW(ds, i + 1)
\* the reader's text: the digits followed by the check digit over the first 13 of them
AnswerText(l, r) == LET ds == ValueDigits(l.v, r.v) IN Append(ds, (10 - (SumW(ds, 1) % 10)) % 10)
=============================================================================
