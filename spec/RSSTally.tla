------------------------------ MODULE RSSTally ------------------------------
(* The RSS-14 reader as a state machine (oned/rss/rss14_reader.go), shaped like the code:                            *)
(*                                                                                                                   *)
(*   DecodeRow(row)  decodes the left pair of the row and the right pair of the reversed row (either may be absent),  *)
(*                   TALLIES them in two lists kept in the reader object (a pair with the value of a listed pair      *)
(*                   increments that pair's count, otherwise it is appended with count 0), and then answers with the  *)
(*                   first (left, right) in list order whose counts both exceed 1 - i.e. that were each seen in THREE  *)
(*                   rows - and whose check value is the one their finder patterns announce;                          *)
(*   Reset()         empties both lists.                                                                              *)
(*                                                                                                                   *)
(* OneDReader.Decode hands the rows of an image to DecodeRow (each row forwards and, when that gives no answer,         *)
(* reversed) until one call answers.  The lists OUTLIVE the call: the reader is only memoryless for a caller who       *)
(* resets it between images, as the Reader interface asks ("Reset any internal state the implementation has after a    *)
(* decode, to prepare it for reuse").  MC_RSSTally explores images of two symbols in every order, with and without     *)
(* Reset: with it every answer is the symbol of the image being read (NoStale) and needs three rows of it (ThreeRows);     *)
(* without it the first row of the second image is answered with the FIRST symbol - TLC exhibits the behaviour, and    *)
(* Trace_RSS accepts exactly that from the real reader when the driver leaves Reset out (the deviation is named, not    *)
(* hidden).                                                                                                            *)
EXTENDS Integers, Sequences, FiniteSets, TLC

\* (the type comments below are for Apalache, which proves NoStale for unbounded behaviours: spec/Apa_RSSTally.tla; TLC ignores them)
\* @typeAlias: pair = {v: Int, cs: Int, f: Int};
\* @typeAlias: entry = {v: Int, cs: Int, f: Int, n: Int};
\* @type: $pair;
None == [v |-> -1, cs |-> 0, f |-> 0]                   \* no pair found in the row
\* @type: $pair => Bool;
IsPair(p) == p.v >= 0
\* a list entry: the pair as first seen (later sightings only count) and the number of LATER sightings
\* @type: $pair => $entry;
Entry(p) == [v |-> p.v, cs |-> p.cs, f |-> p.f, n |-> 0]
\* @type: (Seq($entry), $pair) => Seq($entry);
Tally(list, p) ==
  IF ~IsPair(p) THEN list
  ELSE IF \E i \in DOMAIN list : list[i].v = p.v
       THEN LET i == CHOOSE k \in DOMAIN list : list[k].v = p.v /\ \A j \in DOMAIN list : j < k => list[j].v # p.v
            IN [list EXCEPT ![i].n = @ + 1]
       ELSE Append(list, Entry(p))
\* the check value two finder patterns announce (reader's arithmetic: values 8 and 72 are skipped by the encoder)
Target(fl, fr) == LET t == 9 * fl + fr  a == IF t > 72 THEN t - 1 ELSE t IN IF a > 8 THEN a - 1 ELSE a
\* @type: ($entry, $entry) => Bool;
Verifies(l, r) == (l.cs + 16 * r.cs) % 79 = Target(l.f, r.f)
\* the answer of DecodeRow on the tallied lists: <<i, j>> (indices) or <<0, 0>>
\* @type: (Seq($entry), Seq($entry)) => <<Int, Int>>;
Answer(lefts, rights) ==
  LET ok == {ij \in (DOMAIN lefts) \X (DOMAIN rights) :
               lefts[ij[1]].n > 1 /\ rights[ij[2]].n > 1 /\ Verifies(lefts[ij[1]], rights[ij[2]])}
  IN IF ok = {} THEN <<0, 0>>
     ELSE CHOOSE ij \in ok : \A kl \in ok : ij[1] < kl[1] \/ (ij[1] = kl[1] /\ ij[2] <= kl[2])
\* one DecodeRow call: new lists and the answer
\* @type: (Seq($entry), Seq($entry), $pair, $pair) => {lefts: Seq($entry), rights: Seq($entry), ans: <<Int, Int>>};
Step(lefts, rights, l, r) ==
  LET nl == Tally(lefts, l)  nr == Tally(rights, r)  a == Answer(nl, nr) IN [lefts |-> nl, rights |-> nr, ans |-> a]
=============================================================================
