---------------------------- MODULE MC_WhiteRect ----------------------------
(* The search as a state machine on small images (every solid rectangle, every pair and every L-shaped triple of black       *)
(* pixels in a W x H image, start square of side 2 in the middle): no read ever leaves the image, the rectangle only grows  *)
(* and always contains the start square, the search ends, at "done" all four border lines are white and each side has met   *)
(* black, and round a solid black rectangle that contains the start square the answer is that rectangle's white frame.      *)
EXTENDS WhiteRect, FiniteSets, TLC
CONSTANTS W, H
VARIABLES img, s, kind
vars == <<img, s, kind>>
Px == (0..(W - 1)) \X (0..(H - 1))
Solid(x0, x1, y0, y1) == {p \in Px : p[1] >= x0 /\ p[1] <= x1 /\ p[2] >= y0 /\ p[2] <= y1}
CX == W \div 2
CY == H \div 2
Init == /\ s = Start(2, CX, CY)
        /\ \/ kind = "solid" /\ \E x0, x1 \in 0..(W - 1), y0, y1 \in 0..(H - 1) : x0 <= x1 /\ y0 <= y1 /\ img = Solid(x0, x1, y0, y1)
           \/ kind = "pair" /\ \E p, q \in Px : img = {p, q}
           \/ kind = "tri" /\ \E p \in Px, a, b \in 1..3 : img = {p, <<(p[1] + a) % W, p[2]>>, <<p[1], (p[2] + b) % H>>}
Next == ~Final(s) /\ s' = Step(img, W, H, s) /\ UNCHANGED <<img, kind>>
Spec == Init /\ [][Next]_vars /\ WF_vars(Next)
ReadsInside == LET q == Reads(W, H, s) IN q # <<>> => q[1] >= 0 /\ q[2] < W /\ q[3] >= 0 /\ q[4] < H /\ q[1] <= q[2] /\ q[3] <= q[4]
Contains == s.l <= CX - 1 /\ s.r >= CX + 1 /\ s.u <= CY - 1 /\ s.d >= CY + 1 /\ s.l >= -1 /\ s.u >= -1 /\ s.r <= W /\ s.d <= H
DoneLaw == s.pc = "done" =>
  /\ s.l >= 0 /\ s.u >= 0 /\ s.r < W /\ s.d < H
  /\ ~BlackV(img, s.u, s.d, s.r) /\ ~BlackV(img, s.u, s.d, s.l) /\ ~BlackH(img, s.l, s.r, s.u) /\ ~BlackH(img, s.l, s.r, s.d)
  /\ s.fR /\ s.fB /\ s.fL /\ s.fT
SolidLaw == (Final(s) /\ kind = "solid") =>
  LET xs == {p[1] : p \in img} ys == {p[2] : p \in img}
      x0 == CHOOSE x \in xs : \A z \in xs : x <= z   x1 == CHOOSE x \in xs : \A z \in xs : x >= z
      y0 == CHOOSE y \in ys : \A z \in ys : y <= z   y1 == CHOOSE y \in ys : \A z \in ys : y >= z
  IN (x0 <= CX - 1 /\ x1 >= CX + 1 /\ y0 <= CY - 1 /\ y1 >= CY + 1) =>          \* the start square lies on the black rectangle
       IF x0 >= 1 /\ y0 >= 1 /\ x1 <= W - 2 /\ y1 <= H - 2
       THEN s.pc = "done" /\ s.l = x0 - 1 /\ s.r = x1 + 1 /\ s.u = y0 - 1 /\ s.d = y1 + 1
       ELSE s.pc = "exceeded"
RunLaw == Final(s) => Run(img, W, H, Start(2, CX, CY)) = s
Laws == ReadsInside /\ Contains /\ DoneLaw /\ SolidLaw /\ RunLaw
Grows == [][s'.l <= s.l /\ s'.r >= s.r /\ s'.u <= s.u /\ s'.d >= s.d]_vars
Ends == <>Final(s)
=============================================================================
