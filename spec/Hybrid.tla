------------------------------- MODULE Hybrid -------------------------------
(* The local ("hybrid") binarisation of images of at least 40 x 40 pixels, stated declaratively (beyond the listed     *)
(* properties: C17 only fixes bilevel images).  v = rows of luminances 0..255, w x h.                                  *)
(*   The image is covered by 8 x 8 blocks on a grid of sw x sh = ceil(w/8) x ceil(h/8) cells; the block of a cell in    *)
(*   the last column / row is pulled back inside the image (offset w-8 / h-8), so it may overlap its neighbour.          *)
(*   Black point of a cell (row-major, each uses the three neighbours computed before it):                              *)
(*       range > 24           : the mean of the block (sum div 64)                                                      *)
(*       else, first row/col  : min div 2                                                                               *)
(*       else                 : nb = (up + 2 * left + upleft) div 4;  nb if min < nb, else min div 2                     *)
(*   Threshold of a cell: the mean (div 25) of the 5 x 5 black points centred on the cell, the centre clamped to          *)
(*   2..sw-3 / 2..sh-3.  A pixel is black iff it is <= the threshold of SOME block that covers it (blocks only set).      *)
EXTENDS Integers, Sequences, FiniteSets, TLC
Min2(a, b) == IF a < b THEN a ELSE b
Max2(a, b) == IF a > b THEN a ELSE b
CeilDiv8(n) == (n + 7) \div 8
Off(c, n) == Min2(8 * c, n - 8)                          \* pixel offset of cell c (0-based) along an axis of n pixels
RECURSIVE SumRange(_, _, _)
SumRange(f, lo, hi) == IF lo > hi THEN 0 ELSE f[lo] + SumRange(f, lo + 1, hi)
\* the 64 pixels of the block of cell (cx, cy), as a sequence
Block(v, w, h, cx, cy) == LET ox == Off(cx, w)  oy == Off(cy, h) IN [k \in 1..64 |-> v[oy + ((k - 1) \div 8) + 1][ox + ((k - 1) % 8) + 1]]
MinOf(b) == CHOOSE x \in {b[k] : k \in 1..64} : \A k \in 1..64 : x <= b[k]
MaxOf(b) == CHOOSE x \in {b[k] : k \in 1..64} : \A k \in 1..64 : x >= b[k]
\* black points, row-major sequence of sw * sh values; acc holds the cells before k
RECURSIVE BlackPoints(_, _, _, _, _, _, _)
BlackPoints(v, w, h, sw, sh, k, acc) ==
  IF k > sw * sh THEN acc
  ELSE LET cx == (k - 1) % sw  cy == (k - 1) \div sw
           b == Block(v, w, h, cx, cy)  mn == MinOf(b)  mx == MaxOf(b)
           nb == IF cx > 0 /\ cy > 0 THEN (acc[k - sw] + 2 * acc[k - 1] + acc[k - sw - 1]) \div 4 ELSE -1
           bp == IF mx - mn > 24 THEN SumRange(b, 1, 64) \div 64
                 ELSE IF nb >= 0 /\ mn < nb THEN nb ELSE mn \div 2
       IN BlackPoints(v, w, h, sw, sh, k + 1, Append(acc, bp))
Clamp(x, lo, hi) == IF x < lo THEN lo ELSE IF x > hi THEN hi ELSE x
Threshold(bp, sw, sh, cx, cy) ==
  LET l == Clamp(cx, 2, sw - 3)  t == Clamp(cy, 2, sh - 3) IN
  SumRange([i \in 1..25 |-> bp[(t - 2 + ((i - 1) \div 5)) * sw + (l - 2 + ((i - 1) % 5)) + 1]], 1, 25) \div 25
\* cells whose block covers pixel coordinate p (0-based) along an axis of n pixels with c cells
Covering(p, n, c) == {k \in 0..c - 1 : Off(k, n) <= p /\ p < Off(k, n) + 8}
BlackMatrixLocal(v, w, h) ==
  LET sw == CeilDiv8(w)  sh == CeilDiv8(h)
      bp == BlackPoints(v, w, h, sw, sh, 1, <<>>)
      th == [k \in 1..sw * sh |-> Threshold(bp, sw, sh, (k - 1) % sw, (k - 1) \div sw)]
  IN [y \in 1..h |-> [x \in 1..w |->
        IF \E cx \in Covering(x - 1, w, sw), cy \in Covering(y - 1, h, sh) : v[y][x] <= th[cy * sw + cx + 1] THEN 1 ELSE 0]]
=============================================================================
