---------------------------- MODULE MC_EncTotality ---------------------------
(* Design-level check of EncTotality.tla and generation of the configuration space of C12.                            *)
(*                                                                                                                 *)
(*  MC_EncTotality.cfg (Mode = "laws")  the call/return automaton: every configuration of the space below, combined    *)
(*     with the reference contents of its writer, is called; Return offers every kind of observation (error, panic,  *)
(*     hang, neither, both, and matrices: the reference rendering of Render.tla of a reference symbol, the same one   *)
(*     pixel / one module too small).  Invariant Laws: the contract is never contradictory (contents are not both     *)
(*     certainly refused and certainly accepted), always satisfiable (some offered observation conforms), excludes    *)
(*     panic / hang / neither / both, is met by the reference outcome (refusal where R applies, otherwise the         *)
(*     reference rendering with an in-range margin) and rejects every matrix that is too small.                       *)
(*     NaturalLaws (ASSUME) derives the module counts used in clause D from the symbol definitions of OneD.tla.      *)
(*  Gen_EncTotality.cfg (Mode = "gen")   prints every configuration (writer x BarcodeFormat x size classes x hint values *)
(*     in and out of range) as a GEN line with the outcome class the configuration alone fixes; the check combines    *)
(*     them with content classes and replays them on the real writers.                                               *)
EXTENDS EncTotality, Json
CONSTANTS Mode, Groups, Returns, Lite
RD == INSTANCE Render
VARIABLES pc, cs, ob
vars == <<pc, cs, ob>>

(* ------------------------------------------------------------------ hint values, in and out of range *)
HV(k, t, i, sn, s, a, b) == [k |-> k, t |-> t, i |-> i, sn |-> sn, s |-> s, a |-> a, b |-> b]
HInt(k, i) == HV(k, 0, i, "", <<>>, 0, 0)
HStr(k, sn, s) == HV(k, 1, 0, sn, s, 0, 0)       \* s is given where the spec parses it (numbers); the check fills the others from sn
HBool(k, i) == HV(k, 2, i, "", <<>>, 0, 0)
HDim(k, a, b) == HV(k, 5, 0, "", <<>>, a, b)
HRel(k, i, a) == HV(k, 6, i, "", <<>>, a, 0)      \* int i + a * (module width of the symbol), resolved by the driver
HBig(k, i, a) == HV(k, 7, i, "", <<>>, a, 0)      \* int 2^a + i, a >= 40 (beyond TLC's integers; the image cannot exist): resolved by the driver
HintValues(k) ==
  CASE k = "ERROR_CORRECTION" -> {HV(k, 3, i, "", <<>>, 0, 0) : i \in {0, 1, 2, 3, 7, -1}}
                                   \cup {HStr(k, "L", <<76>>), HStr(k, "H", <<72>>), HStr(k, "X", <<88>>), HStr(k, "", <<>>)}
    [] k = "CHARACTER_SET" -> {HStr(k, n, <<>>) : n \in {"UTF-8", "ISO-8859-1", "Shift_JIS", "nope", "",
                                                          "UTF-7", "UTF-32", "ISO-2022-KR", "TIS-620"}}   \* IANA names outside the ECI registry
    [] k = "MARGIN" -> {HInt(k, i) : i \in {-200, -95, -67, -51, -21, -5, -1, 0, 1, 4, 100}}
                         \cup {HStr(k, "3", <<51>>), HStr(k, "-3", <<45, 51>>), HStr(k, "x", <<120>>), HStr(k, "", <<>>)}
                         \cup {HRel(k, i, -1) : i \in {-1, 0, 1}}
                         \cup {HBig(k, 0, 40), HBig(k, 0, 62), HBig(k, 5, 62), HBig(k, -1, 63)}     \* .., 2^63 - 1: the symbol width wraps round
    [] k = "QR_VERSION" -> {HInt(k, i) : i \in {-1, 0, 1, 2, 40, 41}} \cup {HStr(k, "7", <<55>>), HStr(k, "x", <<120>>)}
    [] k = "QR_MASK_PATTERN" -> {HInt(k, i) : i \in {-1, 0, 7, 8}} \cup {HStr(k, "3", <<51>>), HStr(k, "x", <<120>>)}
    [] k = "GS1_FORMAT" -> {HBool(k, 0), HBool(k, 1), HStr(k, "true", <<>>), HStr(k, "x", <<>>)}
    [] k = "DATA_MATRIX_SHAPE" -> {HV(k, 4, i, "", <<>>, 0, 0) : i \in {-1, 0, 1, 2, 3}}
    [] k = "MIN_SIZE" -> {HDim(k, 0, 0), HDim(k, 10, 10), HDim(k, 26, 12), HDim(k, 144, 144), HDim(k, 200, 200)}
    [] k = "MAX_SIZE" -> {HDim(k, 0, 0), HDim(k, 10, 10), HDim(k, 18, 8), HDim(k, 26, 26), HDim(k, 144, 144)}
    [] k = "FORCE_CODE_SET" -> {HStr(k, n, <<>>) : n \in {"A", "B", "C", "D", ""}}
AllHintValues == UNION {HintValues(k) : k \in HintKeys}
\* combinations of the hints one writer reads
Pairs(k1, k2) == {<<x, y>> : x \in HintValues(k1), y \in HintValues(k2)}
Triples(k1, k2, k3) == {<<x, y, z>> : x \in HintValues(k1), y \in HintValues(k2), z \in HintValues(k3)}
Combos(wr) ==
  CASE wr = "QR" -> Pairs("ERROR_CORRECTION", "QR_VERSION") \cup Pairs("MARGIN", "QR_VERSION") \cup Pairs("CHARACTER_SET", "GS1_FORMAT")
                    \cup Pairs("QR_MASK_PATTERN", "ERROR_CORRECTION")
    [] wr = "DM" -> Triples("DATA_MATRIX_SHAPE", "MIN_SIZE", "MAX_SIZE") \cup Pairs("MIN_SIZE", "MAX_SIZE")
                    \cup Pairs("DATA_MATRIX_SHAPE", "MAX_SIZE") \cup Pairs("DATA_MATRIX_SHAPE", "MIN_SIZE")
    [] wr = "C128" -> Pairs("MARGIN", "FORCE_CODE_SET")
    [] OTHER -> Pairs("MARGIN", "ERROR_CORRECTION")

(* ------------------------------------------------------------------ size classes *)
\* kind 0: literal, 1: symbol size + v, 2: symbol size * v
SZ(k, v) == [k |-> k, v |-> v]
SizeClasses == {SZ(0, -5), SZ(0, -1), SZ(0, 0), SZ(0, 1), SZ(1, -1), SZ(1, 0), SZ(2, 10)}
SizePairs == {<<SZ(3, 0), SZ(0, 10)>>, <<SZ(0, 10), SZ(3, 7)>>, <<SZ(3, 30), SZ(3, 30)>>, <<SZ(0, 0), SZ(0, 0)>>, <<SZ(0, 1), SZ(0, 1)>>, <<SZ(1, -1), SZ(1, 0)>>, <<SZ(2, 10), SZ(2, 10)>>, <<SZ(0, -1), SZ(0, 0)>>}
SizePairs2 == {<<SZ(0, 0), SZ(0, 0)>>, <<SZ(2, 10), SZ(2, 10)>>}
Resolve(sz, sym) == IF sz.k = 0 THEN sz.v ELSE IF sz.k = 1 THEN sym + sz.v ELSE IF sz.k = 2 THEN sym * sz.v ELSE 1073741824   \* k = 3: MaxInt64 - v, reported as 2^30

(* ------------------------------------------------------------------ configurations *)
Cfg(wr, f, a, b, hs) == [wr |-> wr, fmt |-> f, wk |-> a.k, w0 |-> a.v, hk |-> b.k, h0 |-> b.v, hints |-> hs]
Group(wr, g) ==
  CASE g = 1 -> {Cfg(wr, f, a, b, <<>>) : f \in 0..16, a \in SizeClasses, b \in SizeClasses}
    [] g = 2 -> {Cfg(wr, OwnFmtValue(wr), p[1], p[2], <<x>>) : x \in AllHintValues, p \in SizePairs}
    [] g = 3 -> {Cfg(wr, OwnFmtValue(wr), p[1], p[2], x) : x \in Combos(wr), p \in SizePairs2}
\* what the configuration alone fixes (relative sizes are non-negative whenever a symbol exists)
Lit(k, v) == IF k = 0 THEN v ELSE 0
CfgClass(x) == ConfigClass(x.wr, x.fmt, Lit(x.wk, x.w0), Lit(x.hk, x.h0), x.hints)
GenRecord(x) == [wr |-> x.wr, fmt |-> x.fmt, wk |-> x.wk, w0 |-> x.w0, hk |-> x.hk, h0 |-> x.h0, hints |-> x.hints,
                 cfg |-> CfgClass(x)]

(* ------------------------------------------------------------------ reference contents and reference symbols *)
CT(cp, cn) == [cp |-> cp, cn |-> cn]
Common == {CT(<<>>, 0), CT(<<49>>, 1), CT(<<65>>, 4000), CT(<<49>>, 4000), CT(<<255, 254, 128>>, 3), CT(<<227, 129, 130>>, 3)}
Own(wr) ==
  CASE wr = "QR" -> {CT(<<72, 69, 76, 76, 79>>, 5), CT(<<104, 105>>, 2), CT(<<49, 50>>, 2900)}
    [] wr = "DM" -> {CT(<<72, 69, 76, 76, 79>>, 5), CT(<<49, 50>>, 6), CT(<<49, 50>>, 3000)}
    [] wr = "EAN13" -> {CT(<<53, 57, 48, 49, 50, 51, 52, 49, 50, 51, 52, 53>>, 12), CT(<<53, 57, 48, 49, 50, 51, 52, 49, 50, 51, 52, 53, 55>>, 13),
                        CT(<<53, 57, 48, 49, 50, 51, 52, 49, 50, 51, 52, 53, 56>>, 13)}
    [] wr = "EAN8" -> {CT(<<49, 50, 51, 52, 53, 54, 55>>, 7), CT(<<49, 50, 51, 52, 53, 54, 55, 48>>, 8), CT(<<49, 50, 51, 52, 53, 54, 55, 49>>, 8)}
    [] wr = "UPCA" -> {CT(<<48, 49, 50, 51, 52, 53, 54, 55, 56, 57, 48>>, 11), CT(<<48, 49, 50, 51, 52, 53, 54, 55, 56, 57, 48, 53>>, 12)}
    [] wr = "UPCE" -> {CT(<<48, 49, 50, 51, 52, 53, 54>>, 7), CT(<<50, 49, 50, 51, 52, 53, 54>>, 7), CT(<<48, 49, 50, 51, 52, 53, 54, 53>>, 8)}
    [] wr = "C39" -> {CT(<<65, 66, 45, 49>>, 4), CT(<<97, 98>>, 2), CT(<<65>>, 80), CT(<<65>>, 81), CT(<<97>>, 41)}
    [] wr = "C93" -> {CT(<<65, 66, 45, 49>>, 4), CT(<<97, 98>>, 2), CT(<<65>>, 80), CT(<<65>>, 81), CT(<<97>>, 41)}
    [] wr = "C128" -> {CT(<<65, 66, 49, 50>>, 4), CT(<<49, 50>>, 6), CT(<<49, 50>>, 5), CT(<<97, 1>>, 2), CT(<<65>>, 80), CT(<<65>>, 81)}
    [] wr = "ITF" -> {CT(<<49, 50>>, 4), CT(<<49, 50>>, 3), CT(<<49, 50>>, 80), CT(<<49, 50>>, 82)}
    [] wr = "CBAR" -> {CT(<<49, 50, 51>>, 3), CT(<<65, 49, 50, 66>>, 4), CT(<<49, 58, 50>>, 3), CT(<<90>>, 1)}
Contents(wr) == (IF Lite THEN {CT(<<>>, 0), CT(<<65>>, 4000), CT(<<227, 129, 130>>, 3)} ELSE Common) \cup Own(wr)
\* a symbol the contract admits for the call (0x0: none); Data Matrix: the smallest admitted size that holds the lower bound
RefSymbol(c) ==
  LET wr == c.wr IN
  CASE wr = "QR" -> (LET vh == QRVersionHint(c)  v == IF vh.kind = "int" THEN vh.v ELSE QRMinVersion(c) IN
                     IF v = 0 THEN <<0, 0>> ELSE <<QR!Dim(v), QR!Dim(v)>>)
    [] wr = "DM" -> (LET i == DM!Lookup(DMCodewordsLB(c), ShapeHint(c.hints), DimHint(c.hints, "MIN_SIZE"), DimHint(c.hints, "MAX_SIZE")) IN
                     IF i = 0 THEN <<0, 0>> ELSE <<DM!SCols(DM!T7[i]), DM!SRows(DM!T7[i])>>)
    [] wr \in {"EAN13", "UPCA"} -> <<EAN13Modules, 1>>
    [] wr = "EAN8" -> <<EAN8Modules, 1>>
    [] wr = "UPCE" -> <<UPCEModules, 1>>
    [] wr = "ITF" -> <<ITFModules(c.cn), 1>>
    [] wr = "C39" -> <<C39Modules(C39Len(c)), 1>>
    [] wr = "C93" -> <<C93Modules(C93Len(c)), 1>>
    [] wr = "C128" -> <<C128Modules(2 + c.cn), 1>>
    [] wr = "CBAR" -> <<CBarModules(c.cn, 2), 1>>
\* the call of a configuration with contents: sizes relative to the reference symbol, relative margins resolved
CallOf(x, ct) ==
  LET c0 == [wr |-> x.wr, fmt |-> x.fmt, cp |-> ct.cp, cn |-> ct.cn, w |-> 0, h |-> 0, hints |-> x.hints]
      sym == IF ct.cn = 0 \/ ContentErr(c0) THEN <<0, 0>> ELSE RefSymbol(c0)
      hs == [j \in 1..Len(x.hints) |-> IF x.hints[j].t = 6 THEN HInt(x.hints[j].k, x.hints[j].i + (x.hints[j].a * sym[1])) ELSE x.hints[j]]
  IN [wr |-> x.wr, fmt |-> x.fmt, cp |-> ct.cp, cn |-> ct.cn, w |-> Resolve(SZ(x.wk, x.w0), sym[1]), h |-> Resolve(SZ(x.hk, x.h0), sym[2]),
      hints |-> hs, sw |-> sym[1], sh |-> sym[2]]

(* ------------------------------------------------------------------ observations offered by Return *)
Obs(mat, err, panic, hang, sok, sw, sh, ow, oh) ==
  [mat |-> mat, err |-> err, panic |-> panic, hang |-> hang, sok |-> sok, sw |-> sw, sh |-> sh, ow |-> ow, oh |-> oh]
MarginOf(c) == LET m == IntHint(c.hints, "MARGIN") IN
               IF ClassOf(c.wr) = "dm" THEN 0 ELSE IF m.kind = "int" THEN m.v ELSE IF c.wr = "QR" THEN 4 ELSE IF c.wr \in {"EAN13", "EAN8", "UPCA", "UPCE"} THEN 9 ELSE 10
\* the reference rendering exists where the geometry of Render.tla is defined: non-negative request and margin
Renderable(c) == c.sw > 0 /\ c.w >= 0 /\ c.h >= 0 /\ MarginOf(c) >= 0
RefMatrix(c) == LET g == RD!Geom(ClassOf(c.wr), c.sw, c.sh, c.w, c.h, IF ClassOf(c.wr) = "dm" THEN 0 ELSE MarginOf(c))
                IN Obs(1, 0, 0, 0, 1, c.sw, c.sh, g.ow, g.oh)
ErrObs == Obs(0, 1, 0, 0, 0, 0, 0, 0, 0)
BadKinds == {Obs(0, 0, 1, 0, 0, 0, 0, 0, 0), Obs(0, 0, 0, 1, 0, 0, 0, 0, 0), Obs(0, 0, 0, 0, 0, 0, 0, 0, 0), Obs(1, 1, 0, 0, 1, 21, 21, 29, 29)}
TooSmall(c) == IF c.sw = 0 THEN {} ELSE
  {Obs(1, 0, 0, 0, 1, c.sw, c.sh, c.sw - 1, Max2(c.sh, c.h)), Obs(1, 0, 0, 0, 1, c.sw, c.sh, Max2(c.sw, c.w), c.sh - 1),
   Obs(1, 0, 0, 0, 0, 0, 0, Max2(c.sw, c.w), Max2(c.sh, c.h))}
   \cup (IF ClassOf(c.wr) # "dm" /\ c.w >= 2 THEN {Obs(1, 0, 0, 0, 1, c.sw, c.sh, Max2(c.sw, c.w) - 1, Max2(Max2(c.sh, c.h), 1))} ELSE {})
Offered(c) == {ErrObs} \cup BadKinds \cup TooSmall(c) \cup (IF Renderable(c) THEN {RefMatrix(c)} ELSE {})

(* ------------------------------------------------------------------ the automaton *)
\* many initial states (writer, group, contents) so that all workers share the calls
Init == pc = "idle" /\ cs \in UNION {{<<wr, g, ct>> : g \in Groups, ct \in Contents(wr)} : wr \in WriterSet} /\ ob = ErrObs
Call == /\ pc = "idle" /\ Mode = "laws"
        /\ \E x \in Group(cs[1], cs[2]) : cs' = CallOf(x, cs[3])
        /\ pc' = "called" /\ ob' = ob
Return == /\ pc = "called" /\ Returns
          /\ \E o \in Offered(cs) : ob' = o
          /\ pc' = "returned" /\ cs' = cs
Emit == /\ pc = "idle" /\ Mode = "gen" /\ cs[3] = CT(<<>>, 0)
        /\ \A x \in Group(cs[1], cs[2]) : PrintT(<<"GEN", ToJson(GenRecord(x))>>)
        /\ pc' = "emitted" /\ UNCHANGED <<cs, ob>>
Next == Call \/ Return \/ Emit
Spec == Init /\ [][Next]_vars

(* ------------------------------------------------------------------ laws *)
\* checked in the state after Call (all workers share the work: the initial states are few)
Laws ==
  pc = "called" =>
    LET c == cs IN
    /\ ~(c.cn > 0 /\ ContentErr(c) /\ ContentOk(c))                            \* never both certain
    /\ \E o \in Offered(c) : Conforms(c, o)                                    \* satisfiable
    /\ \A o \in BadKinds : ~Conforms(c, o)                                     \* T excludes panic, hang, neither, both
    /\ \A o \in TooSmall(c) : ~Conforms(c, o)                                  \* D rejects matrices that are too small
    /\ (Expect(c) = "err" => Conforms(c, ErrObs))                              \* the reference outcome conforms ...
    /\ (Expect(c) = "ok" => c.sw > 0 /\ Renderable(c) /\ Conforms(c, RefMatrix(c)))
    /\ (Expect(c) = "any" /\ HintsInRange(c.wr, c.hints) /\ Renderable(c) /\ ~ContentErr(c) /\ ConfigClass(c.wr, c.fmt, c.w, c.h, c.hints) = "open"
          => Conforms(c, RefMatrix(c)) /\ Conforms(c, ErrObs))                  \* ... and where the class is open, both do
\* after Return: an observation conforms iff no clause fails
VerdictLaw == pc = "returned" => ((Verdict(cs, ob) = 0) <=> Conforms(cs, ob))

(* ------------------------------------------------------------------ module counts from the symbol definitions *)
SumSeq(s) == OD!SumSeq(s)
NaturalLaws ==
  /\ SumSeq(OD!EAN13Runs(<<5, 9, 0, 1, 2, 3, 4, 1, 2, 3, 4, 5, 7>>)) = EAN13Modules
  /\ SumSeq(OD!UPCARuns(<<0, 1, 2, 3, 4, 5, 6, 7, 8, 9, 0, 5>>)) = EAN13Modules
  /\ SumSeq(OD!EAN8Runs(<<1, 2, 3, 4, 5, 6, 7, 0>>)) = EAN8Modules
  /\ SumSeq(OD!UPCERuns(<<0, 1, 2, 3, 4, 5, 6, 5>>)) = UPCEModules
  /\ \A n \in 0..6 : /\ SumSeq(OD!C39Runs([i \in 1..n |-> (7 * i) % 43])) = C39Modules(n)
                     /\ SumSeq(OD!C93Runs([i \in 1..n + 2 |-> (5 * i) % 47])) = C93Modules(n)
                     /\ SumSeq(OD!ITFRuns([i \in 1..2 * n |-> (3 * i) % 10], 3)) = ITFModules(2 * n)
                     /\ SumSeq(OD!C128Runs([i \in 1..n + 2 |-> (11 * i) % 103])) = C128Modules(n + 2)
  /\ \A v \in 0..19 : SumSeq(OD!CBar[v + 1]) = IF OD!CBarAlphabet[v + 1] \in CBarData9 THEN 9 ELSE 10
  /\ \A n9 \in 0..3 : \A n10 \in 1..3 : SumSeq(OD!CBarRuns([i \in 1..n9 + n10 |-> IF i <= n9 THEN i ELSE 11 + i])) = CBarModules(n9, n10)
  /\ \A i \in 1..DM!NSizes : DM!SizeIdx(DM!SRows(DM!T7[i]), DM!SCols(DM!T7[i])) = i
  /\ \A v \in 1..40 : QR!Dim(v) = 17 + (4 * v) /\ QR!DataCodewords(v, 1) > QR!DataCodewords(v, 4)
  /\ OwnFmtValue("QR") = 11 /\ OwnFmtValue("DM") = 5 /\ OwnFmtValue("CBAR") = 1 /\ OwnFmtValue("UPCE") = 15
ASSUME NaturalLaws
=============================================================================
