SPECIFICATION Spec
CONSTANTS
  Part = "eci"
  Alphabet = {65}
  MaxLen = 0
INVARIANT ECILaws
CHECK_DEADLOCK FALSE
