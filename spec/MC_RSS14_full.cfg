SPECIFICATION Spec
CONSTANTS
  Mode = "laws"
  OutStep = 1
  InStep = 1
INVARIANT Law
CHECK_DEADLOCK FALSE
