SPECIFICATION Spec
CONSTANTS
  Fields = {1, 2, 3, 4, 5, 6}
INVARIANT Done
CHECK_DEADLOCK FALSE
