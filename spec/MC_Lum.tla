------------------------------ MODULE MC_Lum ------------------------------
(* Design-level model of C17: a luminance source under arbitrary sequences of Crop / Invert / Rotate.          *)
(*  MC_Lum.cfg  - exhaustive exploration from small windows on small images with distinct pixels; the          *)
(*                invariant Laws states the algebra the property names (four quarter turns, double inversion,  *)
(*                crop = offset, crop of a crop = crop at the composed offset, turn/crop commutation, a view    *)
(*                never leaves its underlying image).  The ASSUMEs check the binariser model itself: on every   *)
(*                bilevel row / image of a small scope the global method yields exactly the black pixels or     *)
(*                "no contrast".                                                                                *)
(*  Gen_Lum.cfg - Record = TRUE: every history of MaxDepth view operations (in-range, out-of-range and          *)
(*                negative-origin rectangles) is printed by Emit as JSON and replayed on the real sources.      *)
(*                Used exhaustively (depth 2, tiny windows) and with -simulate (depth 6, bigger windows).       *)
EXTENDS Lum, Json
CONSTANTS Inits,      \* set of initial windows [base, l, t, w, h]
          MaxDepth, Record
VARIABLES s, hist, depth, pick
vars == <<s, hist, depth, pick>>

Ev(op, a, adopt, base) == [op |-> op, a |-> a, adopt |-> adopt, base |-> base]
Log(e) == hist' = IF Record THEN Append(hist, e) ELSE hist

Init == /\ \E i \in Inits : /\ s = Window(i.base, i.l, i.t, i.w, i.h)
                            /\ hist = IF Record THEN <<Ev("new", <<i.l, i.t, i.w, i.h, 0>>, 1, i.base)>> ELSE <<>>
        /\ depth = 0 /\ pick = ""

\* candidate rectangles of the current view and what the property says about each (Lum!CropClass)
Cands == (-1..(s.w - 1)) \X (-1..(s.h - 1)) \X (1..(s.w + 1)) \X (1..(s.h + 1))
ClassOf(r) == CropClass(s, r[1], r[2], r[3], r[4])
Group(p) == CASE p = "in" -> {"in"} [] p = "nd" -> {"nd"} [] p = "bad" -> {"neg", "out"} [] OTHER -> {}
\* the kind of operation is chosen first (so that simulation visits all kinds evenly), then the operation itself
Choose == /\ pick = "" /\ depth < MaxDepth
          /\ pick' \in {"in", "nd", "bad", "invert", "rotate"}
          /\ UNCHANGED <<s, hist, depth>>
CropStep == \E r \in Cands :
              /\ ClassOf(r) \in Group(pick)
              /\ \/ ClassOf(r) \in {"neg", "out"} /\ s' = s /\ Log(Ev("crop", r, 0, <<>>))            \* must be refused
                 \/ ClassOf(r) = "in" /\ s' = CropOf(s, r[1], r[2], r[3], r[4]) /\ Log(Ev("crop", r, 1, <<>>))
                 \/ ClassOf(r) = "nd" /\ s' = s /\ Log(Ev("crop", r, 0, <<>>))     \* either outcome allowed: probed, not adopted
InvertStep == pick = "invert" /\ s' = InvertOf(s) /\ Log(Ev("invert", <<>>, 1, <<>>))
RotateStep == pick = "rotate" /\ s' = RotateOf(s) /\ Log(Ev("rotate", <<>>, 1, <<>>))
Do == /\ pick # ""
      /\ CropStep \/ InvertStep \/ RotateStep
      /\ depth' = depth + 1 /\ pick' = ""
Skip == /\ pick \in {"in", "nd", "bad"} /\ ~\E r \in Cands : ClassOf(r) \in Group(pick)
        /\ pick' = "" /\ UNCHANGED <<s, hist, depth>>
Emit == /\ Record /\ depth = MaxDepth
        /\ PrintT(<<"GEN", ToJson(hist)>>)
        /\ depth' = MaxDepth + 1 /\ UNCHANGED <<s, hist, pick>>
Next == Choose \/ Do \/ Skip \/ Emit
Spec == Init /\ [][Next]_vars

(* ---- laws of views (checked in every reachable state) *)
InView(t, l, tp, cw, ch) == CropClass(t, l, tp, cw, ch) = "in"
Rects(t) == {r \in (0..(t.w - 1)) \X (0..(t.h - 1)) \X (1..t.w) \X (1..t.h) : InView(t, r[1], r[2], r[3], r[4])}
Laws ==
  LET v == View(s) IN
  /\ InBase(s) /\ \A y \in 1..s.h : \A x \in 1..s.w : v[y][x] \in 0..255
  /\ Len(v) = s.h /\ \A y \in 0..(s.h - 1) : ViewRow(s, y) = v[y + 1]              \* single row = row of the matrix
  /\ View(RotateOf(RotateOf(RotateOf(RotateOf(s))))) = v                            \* four quarter turns
  /\ LET r == RotateOf(s) IN r.w = s.h /\ r.h = s.w
  /\ LET r2 == View(RotateOf(RotateOf(s))) IN                                       \* two quarter turns = half turn
       \A y \in 1..s.h : \A x \in 1..s.w : r2[y][x] = v[s.h + 1 - y][s.w + 1 - x]
  /\ View(InvertOf(InvertOf(s))) = v                                                \* double inversion
  /\ LET iv == View(InvertOf(s)) IN \A y \in 1..s.h : \A x \in 1..s.w : iv[y][x] = 255 - v[y][x]
  /\ View(InvertOf(RotateOf(s))) = View(RotateOf(InvertOf(s)))
  /\ \A r \in Rects(s) :
       LET c == CropOf(s, r[1], r[2], r[3], r[4]) cv == View(c) IN
       /\ InBase(c)
       /\ \A y \in 1..r[4] : \A x \in 1..r[3] : cv[y][x] = v[r[2] + y][r[1] + x]    \* cropped pixel = pixel at the offset
       /\ View(RotateOf(c)) = View(CropOf(RotateOf(s), r[2], s.w - r[1] - r[3], r[4], r[3]))   \* turn of a crop = crop of the turn
       /\ \A q \in Rects(c) :                                                       \* offsets compose
            View(CropOf(c, q[1], q[2], q[3], q[4])) = View(CropOf(s, r[1] + q[1], r[2] + q[2], q[3], q[4]))

(* ---- laws of the binariser model on bilevel input (a check of the oracle, evaluated once) *)
BW == {0, 255}
BilevelRowLaw(n) == \A row \in [1..n -> BW] :
  LET r == BlackRowOf(row) IN
  r.nf = 1 \/ \A x \in 1..n : r.bits[x] = (IF row[x] = 0 /\ (n < 3 \/ (x > 1 /\ x < n)) THEN 1 ELSE 0)
BilevelMatrixLaw(w, h) == \A img \in [1..h -> [1..w -> BW]] :
  LET r == BlackMatrixGlobal(img, w, h) IN r.nf = 1 \/ r.bits = BlackPixels(img)
ASSUME \A n \in 1..10 : BilevelRowLaw(n)
ASSUME \A d \in {<<1,1>>, <<2,1>>, <<1,2>>, <<2,2>>, <<3,2>>, <<2,3>>, <<3,3>>, <<5,2>>, <<2,5>>, <<10,1>>, <<1,10>>, <<4,3>>} :
          BilevelMatrixLaw(d[1], d[2])
\* a black point, when there is one, lies strictly between pure black and pure white
ASSUME \A k \in 0..20 : LET bp == BlackPoint([b \in Buckets |-> IF b = 0 THEN k ELSE IF b = 31 THEN 20 - k ELSE 0]) IN
          bp = -1 \/ (bp >= 8 /\ bp <= 240)

B22 == << <<10, 20>>, <<30, 40>> >>
B32 == << <<10, 20, 30>>, <<40, 50, 60>> >>
B33 == << <<10, 20, 30>>, <<40, 50, 60>>, <<70, 80, 90>> >>
B54 == << <<1, 2, 3, 4, 5>>, <<11, 12, 13, 14, 15>>, <<21, 22, 23, 24, 25>>, <<231, 232, 233, 234, 235>> >>
B45 == << <<0, 255, 7, 8>>, <<64, 65, 127, 128>>, <<129, 191, 192, 193>>, <<254, 1, 100, 200>>, <<31, 32, 33, 34>> >>
Win(b, l, t, w, h) == [base |-> b, l |-> l, t |-> t, w |-> w, h |-> h]
MCInits  == {Win(B32, 0, 0, 3, 2), Win(B33, 1, 1, 2, 2), Win(B33, 0, 1, 3, 1), Win(B54, 1, 0, 3, 4)}
GenInitsQ == {Win(B33, 1, 1, 2, 1)}
GenInits == {Win(B22, 0, 0, 2, 2), Win(B33, 1, 1, 2, 2), Win(B32, 1, 0, 2, 2), Win(B32, 0, 0, 3, 2)}
SimInits == {Win(B54, 0, 0, 5, 4), Win(B54, 1, 1, 3, 2), Win(B45, 0, 0, 4, 5), Win(B45, 1, 2, 3, 3), Win(B33, 0, 0, 3, 3)}
=============================================================================
