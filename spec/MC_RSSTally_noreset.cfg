SPECIFICATION Spec
CONSTANTS
  Syms = {1, 2}
  MaxRows = 5
  MaxImages = 3
  MustReset = FALSE
INVARIANTS NoStale
CHECK_DEADLOCK FALSE
