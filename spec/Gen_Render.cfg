SPECIFICATION SpecG
CONSTANTS
  NMax = 1
  QMax = 1
  ReqMax = 1
  K = 3
CHECK_DEADLOCK FALSE
