---------------------------- MODULE MC_RSSTally ----------------------------
(* Design check of RSSTally.tla: images of the symbols Syms are read one after the other by ONE reader object.       *)
(* Every row of an image yields the image's left pair or nothing, and its right pair or nothing (damaged rows).        *)
(*   MustReset = TRUE   the caller resets the reader before every image (the Reader contract):                         *)
(*                      NoStale (an answer is made of the two pairs of the image being read) and ThreeRows (an answer   *)
(*                      needs three rows that showed each of its pairs) hold in every reachable state.                    *)
(*   MustReset = FALSE  the caller may leave Reset out: TLC must REJECT NoStale (the second image is answered with the  *)
(*                      first symbol on its first row) - the check fails if it does not (the model would be vacuous).   *)
EXTENDS RSSTally
CONSTANTS Syms, MaxRows, MaxImages, MustReset
VARIABLES lefts, rights, img, n, seenL, seenR, out, images
vars == <<lefts, rights, img, n, seenL, seenR, out, images>>
\* concrete pairs whose check values verify within a symbol and not across symbols (finder patterns 0, 0: target 0)
L(s) == [v |-> 100 + s, cs |-> 79 - 16 * s, f |-> 0]
R(s) == [v |-> 200 + s, cs |-> s, f |-> 0]
ASSUME \A s, t \in Syms : Verifies(L(s), R(t)) <=> s = t
Init == lefts = <<>> /\ rights = <<>> /\ img = 0 /\ n = 0 /\ seenL = 0 /\ seenR = 0 /\ out = <<0, 0>> /\ images = 0
Begin(s) == /\ img = 0 /\ images < MaxImages /\ (MustReset => lefts = <<>> /\ rights = <<>>)
            /\ img' = s /\ n' = 0 /\ seenL' = 0 /\ seenR' = 0 /\ out' = <<0, 0>> /\ images' = images + 1
            /\ UNCHANGED <<lefts, rights>>
Row(hasL, hasR) ==
  /\ img # 0 /\ out = <<0, 0>> /\ n < MaxRows
  /\ LET st == Step(lefts, rights, IF hasL THEN L(img) ELSE None, IF hasR THEN R(img) ELSE None) IN
     /\ lefts' = st.lefts /\ rights' = st.rights
     /\ out' = IF st.ans = <<0, 0>> THEN <<0, 0>> ELSE <<st.lefts[st.ans[1]].v - 100, st.rights[st.ans[2]].v - 200>>
  /\ n' = n + 1 /\ seenL' = seenL + (IF hasL THEN 1 ELSE 0) /\ seenR' = seenR + (IF hasR THEN 1 ELSE 0)
  /\ UNCHANGED <<img, images>>
End == img # 0 /\ (out # <<0, 0>> \/ n = MaxRows) /\ img' = 0 /\ UNCHANGED <<lefts, rights, n, seenL, seenR, out, images>>
Reset == img = 0 /\ lefts' = <<>> /\ rights' = <<>> /\ UNCHANGED <<img, n, seenL, seenR, out, images>>
Next == (\E s \in Syms : Begin(s)) \/ (\E a, b \in BOOLEAN : Row(a, b)) \/ End \/ Reset
Spec == Init /\ [][Next]_vars
NoStale == out # <<0, 0>> => out = <<img, img>> \/ img = 0
ThreeRows == out # <<0, 0>> /\ img # 0 => seenL >= 3 /\ seenR >= 3
\* an undamaged image is always answered by its third row
Answered == img # 0 /\ seenL = n /\ seenR = n /\ n >= 3 /\ MustReset => out = <<img, img>>
=============================================================================
