SPECIFICATION Spec
CONSTANTS
  ParityMaxWs = 8
INVARIANT Done
CHECK_DEADLOCK FALSE
