------------------------------- MODULE Bits -------------------------------
(* C16: gozxing.BitMatrix and gozxing.BitArray specified as the naive containers they stand for.          *)
(* A matrix is a sequence of rows (row y+1, column x+1), every cell 0 or 1; an array is a sequence of 0/1. *)
(* Every exported method is one operator: mutators return the new state, queries return a sequence of     *)
(* integers, and error outcomes (documented IllegalArgument cases) are explicit.  The same operators are  *)
(* used by MC_Bits (design checking + behaviour generation) and Trace_Bits (validation of the real code). *)
EXTENDS Integers, Sequences, FiniteSets, TLC

BitOf(v, i) == (v \div (2^i)) % 2
RECURSIVE PackLE(_,_,_)
PackLE(s, lo, hi) == IF lo > hi THEN 0 ELSE s[lo] + 2 * PackLE(s, lo + 1, hi)    \* little endian value of s[lo..hi]
NChunks(n) == (n + 15) \div 16
Chunks(s) == [c \in 1..NChunks(Len(s)) |-> PackLE(s, 16*(c-1) + 1, IF 16*c < Len(s) THEN 16*c ELSE Len(s))]
UnChunks(cs, n) == [i \in 1..n |-> BitOf(cs[((i-1) \div 16) + 1], (i-1) % 16)]
ChunkRows(m) == [y \in 1..Len(m) |-> Chunks(m[y])]
UnChunkRows(cr, w, h) == [y \in 1..h |-> UnChunks(cr[y], w)]
MinOf(S) == CHOOSE v \in S : \A u \in S : v <= u
MaxOf(S) == CHOOSE v \in S : \A u \in S : v >= u
RECURSIVE Flatten(_,_,_)
Flatten(ss, i, acc) == IF i > Len(ss) THEN acc ELSE Flatten(ss, i + 1, acc \o ss[i])

(* ------------------------------------------------------------------ BitMatrix *)
W(m) == Len(m[1])
H(m) == Len(m)
Zero(w, h) == [y \in 1..h |-> [x \in 1..w |-> 0]]
MGet(m, x, y) == IF x < 0 \/ x >= W(m) \/ y < 0 \/ y >= H(m) THEN 0 ELSE m[y+1][x+1]
MPut(m, x, y, v) == [m EXCEPT ![y+1][x+1] = v]
MFlip(m, x, y) == [m EXCEPT ![y+1][x+1] = 1 - @]
MFlipAll(m) == [y \in 1..H(m) |-> [x \in 1..W(m) |-> 1 - m[y][x]]]
MXor(m, k) == [y \in 1..H(m) |-> [x \in 1..W(m) |-> (m[y][x] + k[y][x]) % 2]]
RegionOK(m, l, t, w, h) == l >= 0 /\ t >= 0 /\ w >= 1 /\ h >= 1 /\ l + w <= W(m) /\ t + h <= H(m)
MRegion(m, l, t, w, h) == [y \in 1..H(m) |-> [x \in 1..W(m) |->
                              IF y-1 >= t /\ y-1 < t+h /\ x-1 >= l /\ x-1 < l+w THEN 1 ELSE m[y][x]]]
MSetRow(m, y, row) == [m EXCEPT ![y+1] = row]
MRot180(m) == [y \in 1..H(m) |-> [x \in 1..W(m) |-> m[H(m)+1-y][W(m)+1-x]]]
MRot90(m) == [y \in 1..W(m) |-> [x \in 1..H(m) |-> m[x][W(m)+1-y]]]     \* counter-clockwise: new(x,y) = old(W-1-y, x)
OnRows(m) == {y \in 0..H(m)-1 : \E x \in 1..W(m) : m[y+1][x] = 1}
OnCols(m) == {x \in 0..W(m)-1 : \E y \in 1..H(m) : m[y][x+1] = 1}
OnInRow(m, y) == {x \in 0..W(m)-1 : m[y+1][x+1] = 1}
Enclosing(m) == IF OnRows(m) = {} THEN <<>>
                ELSE LET l == MinOf(OnCols(m)) r == MaxOf(OnCols(m)) t == MinOf(OnRows(m)) b == MaxOf(OnRows(m))
                     IN <<l, t, r - l + 1, b - t + 1>>
TopLeft(m) == IF OnRows(m) = {} THEN <<>> ELSE LET t == MinOf(OnRows(m)) IN <<MinOf(OnInRow(m, t)), t>>
BottomRight(m) == IF OnRows(m) = {} THEN <<>> ELSE LET b == MaxOf(OnRows(m)) IN <<MaxOf(OnInRow(m, b)), b>>
\* string forms: variant -> <<set token, unset token, line separator>> as byte sequences
Tokens(v) == CASE v = 0 -> << <<88>>, <<46>>, <<10>> >>            \* "X" "." "\n"
               [] v = 1 -> << <<88, 32>>, <<32, 32>>, <<10>> >>    \* "X " "  " "\n"   (String())
               [] v = 3 -> << <<97, 98>>, <<97>>, <<10>> >>        \* "ab" "a" "\n": the unset token is a proper prefix of the set token
               [] OTHER -> << <<49>>, <<48>>, <<13, 10>> >>        \* "1" "0" "\r\n"
RowString(row, tk) == Flatten([x \in 1..Len(row) |-> IF row[x] = 1 THEN tk[1] ELSE tk[2]], 1, <<>>) \o tk[3]
MString(m, v) == Flatten([y \in 1..H(m) |-> RowString(m[y], Tokens(v))], 1, <<>>)

(* one step of the abstract BitMatrix: e has op, a (integer arguments), b (bit content as rows of 16-bit chunks). *)
(* result: [m |-> state after, r |-> query answer, err |-> 1 iff the documented error is returned]              *)
MRes(m, r, err) == [m |-> m, r |-> r, err |-> err]
MStep(m, e) ==
  LET a == e.a IN
  CASE e.op \in {"new", "newsq"} ->
         LET w == a[1] h == IF e.op = "new" THEN a[2] ELSE a[1] IN
         IF w < 1 \/ h < 1 THEN MRes(m, <<>>, 1) ELSE MRes(Zero(w, h), <<>>, 0)
    [] e.op \in {"parsebool", "parsestr"} -> MRes(UnChunkRows(e.b, a[1], a[2]), <<>>, 0)
    [] e.op = "set"     -> MRes(MPut(m, a[1], a[2], 1), <<>>, 0)
    [] e.op = "unset"   -> MRes(MPut(m, a[1], a[2], 0), <<>>, 0)
    [] e.op = "flip"    -> MRes(MFlip(m, a[1], a[2]), <<>>, 0)
    [] e.op = "flipall" -> MRes(MFlipAll(m), <<>>, 0)
    [] e.op = "clear"   -> MRes(Zero(W(m), H(m)), <<>>, 0)
    [] e.op = "rot180"  -> MRes(MRot180(m), <<>>, 0)
    [] e.op = "rot90"   -> MRes(MRot90(m), <<>>, 0)
    [] e.op = "region"  -> IF RegionOK(m, a[1], a[2], a[3], a[4]) THEN MRes(MRegion(m, a[1], a[2], a[3], a[4]), <<>>, 0)
                           ELSE MRes(m, <<>>, 1)
    [] e.op = "xor"     -> IF a[1] = W(m) /\ a[2] = H(m) THEN MRes(MXor(m, UnChunkRows(e.b, a[1], a[2])), <<>>, 0)
                           ELSE MRes(m, <<>>, 1)
    [] e.op = "setrow"  -> MRes(MSetRow(m, a[1], UnChunks(e.b[1], W(m))), <<>>, 0)
    [] e.op = "get"     -> MRes(m, <<MGet(m, a[1], a[2])>>, 0)
    [] e.op = "getrow"  -> LET n == IF a[2] < 0 THEN W(m) ELSE W(m) + a[2]         \* a[2] >= 0: caller supplies a row of W+a[2] ones
                               row == [i \in 1..n |-> IF i <= W(m) THEN m[a[1]+1][i] ELSE 0]
                           IN MRes(m, <<n>> \o Chunks(row), 0)
    [] e.op = "enclosing"   -> MRes(m, Enclosing(m), 0)
    [] e.op = "topleft"     -> MRes(m, TopLeft(m), 0)
    [] e.op = "bottomright" -> MRes(m, BottomRight(m), 0)
    [] e.op = "dims"    -> MRes(m, <<W(m), H(m), (W(m) + 31) \div 32>>, 0)
    [] e.op = "tostring" -> MRes(m, MString(m, a[1]), 0)
    [] e.op = "reparse" -> MRes(m, <<>>, 0)                                         \* Parse(ToString(m)) = m
    [] e.op = "at"      -> MRes(m, <<IF MGet(m, a[1], a[2]) = 1 THEN 0 ELSE 255>>, 0) \* set bit = black (Gray 0)
    [] e.op = "bounds"  -> MRes(m, <<0, 0, W(m), H(m), 1>>, 0)                       \* last: ColorModel is Gray

MOps == {"new", "newsq", "parsebool", "parsestr", "set", "unset", "flip", "flipall", "clear", "rot180", "rot90",
         "region", "xor", "setrow", "get", "getrow", "enclosing", "topleft", "bottomright", "dims", "tostring",
         "reparse", "at", "bounds"}

(* ------------------------------------------------------------------ BitArray *)
AZero(n) == [i \in 1..n |-> 0]
ARangeOK(s, st, en) == ~(en < st \/ st < 0 \/ en > Len(s))
ASetRange(s, st, en) == [i \in 1..Len(s) |-> IF i-1 >= st /\ i-1 < en THEN 1 ELSE s[i]]
AIsRange(s, st, en, v) == IF \A i \in st+1..en : s[i] = v THEN 1 ELSE 0
ANextSet(s, from) == IF from >= Len(s) THEN Len(s)
                     ELSE LET c == {i \in from..Len(s)-1 : s[i+1] = 1} IN IF c = {} THEN Len(s) ELSE MinOf(c)
ANextUnset(s, from) == IF from >= Len(s) THEN Len(s)
                       ELSE LET c == {i \in from..Len(s)-1 : s[i+1] = 0} IN IF c = {} THEN Len(s) ELSE MinOf(c)
\* the n low bits of hi*65536+lo, most significant first
ValueBits(hi, lo, n) == [k \in 1..n |-> LET i == n - k IN IF i >= 16 THEN BitOf(hi, i - 16) ELSE BitOf(lo, i)]
AReverse(s) == [i \in 1..Len(s) |-> s[Len(s) + 1 - i]]
AXor(s, t) == [i \in 1..Len(s) |-> (s[i] + t[i]) % 2]
ABytes(s, off, nb) == [k \in 1..nb |-> LET o == off + 8*(k-1) IN
                         128*s[o+1] + 64*s[o+2] + 32*s[o+3] + 16*s[o+4] + 8*s[o+5] + 4*s[o+6] + 2*s[o+7] + s[o+8]]
ASetBulk(s, i, lo, hi) == [k \in 1..Len(s) |-> IF k-1 >= i /\ k-1 < i+32
                                               THEN (IF k-1-i < 16 THEN BitOf(lo, k-1-i) ELSE BitOf(hi, k-1-i-16)) ELSE s[k]]
AString(s) == Flatten([i \in 1..Len(s) |-> (IF (i-1) % 8 = 0 THEN <<32>> ELSE <<>>) \o <<IF s[i] = 1 THEN 88 ELSE 46>>], 1, <<>>)

ARes(s, r, err) == [s |-> s, r |-> r, err |-> err]
AStep(s, e) ==
  LET a == e.a IN
  CASE e.op = "anew"    -> ARes(AZero(a[1]), <<>>, 0)
    [] e.op = "aempty"  -> ARes(<<>>, <<>>, 0)
    [] e.op = "aset"    -> ARes([s EXCEPT ![a[1]+1] = 1], <<>>, 0)
    [] e.op = "aflip"   -> ARes([s EXCEPT ![a[1]+1] = 1 - @], <<>>, 0)
    [] e.op = "aclear"  -> ARes(AZero(Len(s)), <<>>, 0)
    [] e.op = "setrange" -> IF ARangeOK(s, a[1], a[2]) THEN ARes(ASetRange(s, a[1], a[2]), <<>>, 0) ELSE ARes(s, <<>>, 1)
    [] e.op = "appendbit" -> ARes(Append(s, a[1]), <<>>, 0)
    [] e.op = "appendbits" -> IF a[3] < 0 \/ a[3] > 32 THEN ARes(s, <<>>, 1) ELSE ARes(s \o ValueBits(a[1], a[2], a[3]), <<>>, 0)
    [] e.op = "appendarr" -> ARes(s \o UnChunks(e.b[1], a[1]), <<>>, 0)
    [] e.op = "appendself" -> ARes(s \o s, <<>>, 0)                                   \* a.AppendBitArray(a)
    [] e.op = "axor"    -> IF a[1] # Len(s) THEN ARes(s, <<>>, 1) ELSE ARes(AXor(s, UnChunks(e.b[1], a[1])), <<>>, 0)
    [] e.op = "reverse" -> ARes(AReverse(s), <<>>, 0)
    [] e.op = "setbulk" -> ARes(ASetBulk(s, a[1], a[2], a[3]), <<>>, 0)
    [] e.op = "aget"    -> ARes(s, <<s[a[1]+1]>>, 0)
    [] e.op = "nextset" -> ARes(s, <<ANextSet(s, a[1])>>, 0)
    [] e.op = "nextunset" -> ARes(s, <<ANextUnset(s, a[1])>>, 0)
    [] e.op = "isrange" -> IF ARangeOK(s, a[1], a[2]) THEN ARes(s, <<AIsRange(s, a[1], a[2], a[3])>>, 0) ELSE ARes(s, <<0>>, 1)
    [] e.op = "tobytes" -> ARes(s, ABytes(s, a[1], a[2]), 0)
    [] e.op = "sizes"   -> ARes(s, <<Len(s), (Len(s) + 7) \div 8>>, 0)
    [] e.op = "astring" -> ARes(s, AString(s), 0)

AOps == {"anew", "aempty", "aset", "aflip", "aclear", "setrange", "appendbit", "appendbits", "appendarr", "appendself", "axor",
         "reverse", "setbulk", "aget", "nextset", "nextunset", "isrange", "tobytes", "sizes", "astring"}
=============================================================================
