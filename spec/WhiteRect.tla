------------------------------ MODULE WhiteRect ------------------------------
(* X06: common/detector.WhiteRectangleDetector - the search that Data Matrix and Aztec detection start from: a rectangle     *)
(* round a start square grows side by side (right, bottom, left, top, again ...) while its border touches black, until all   *)
(* four border lines are white or the image edge is reached.  The state machine below has one step per iteration of the     *)
(* code's inner loops (one border line examined), so every read of the image is a step and can be checked to be inside.     *)
(* An image is its width, height and the SET of black pixels <<x, y>> (0-based).                                            *)
EXTENDS Integers, Sequences
BlackV(img, a, b, x) == \E y \in a..b : <<x, y>> \in img       \* a black pixel in column x, rows a..b
BlackH(img, a, b, y) == \E x \in a..b : <<x, y>> \in img       \* a black pixel in row y, columns a..b
\* the constructor: start square of side 2 * (size \div 2) round (cx, cy); refused when it does not lie inside the image
StartOK(w, h, size, cx, cy) == LET k == size \div 2 IN cy - k >= 0 /\ cx - k >= 0 /\ cy + k < h /\ cx + k < w
Start(size, cx, cy) == LET k == size \div 2 IN
  [pc |-> "R", l |-> cx - k, r |-> cx + k, u |-> cy - k, d |-> cy + k, nw |-> TRUE, found |-> FALSE,
   fR |-> FALSE, fB |-> FALSE, fL |-> FALSE, fT |-> FALSE]
Final(s) == s.pc \in {"done", "exceeded"}
\* the border line the next step reads: [x0, x1, y0, y1], or <<>> when the step reads nothing
Reads(w, h, s) ==
  CASE s.pc = "R" /\ (s.nw \/ ~s.fR) /\ s.r < w  -> <<s.r, s.r, s.u, s.d>>
    [] s.pc = "B" /\ (s.nw \/ ~s.fB) /\ s.d < h  -> <<s.l, s.r, s.d, s.d>>
    [] s.pc = "L" /\ (s.nw \/ ~s.fL) /\ s.l >= 0 -> <<s.l, s.l, s.u, s.d>>
    [] s.pc = "T" /\ (s.nw \/ ~s.fT) /\ s.u >= 0 -> <<s.l, s.r, s.u, s.u>>
    [] OTHER -> <<>>
Step(img, w, h, s) ==
  CASE s.pc = "R" ->
         IF (s.nw \/ ~s.fR) /\ s.r < w
         THEN (IF BlackV(img, s.u, s.d, s.r) THEN [s EXCEPT !.nw = TRUE, !.r = s.r + 1, !.found = TRUE, !.fR = TRUE]
               ELSE IF ~s.fR THEN [s EXCEPT !.nw = FALSE, !.r = s.r + 1] ELSE [s EXCEPT !.nw = FALSE])
         ELSE IF s.r >= w THEN [s EXCEPT !.pc = "exceeded"] ELSE [s EXCEPT !.pc = "B", !.nw = TRUE]
    [] s.pc = "B" ->
         IF (s.nw \/ ~s.fB) /\ s.d < h
         THEN (IF BlackH(img, s.l, s.r, s.d) THEN [s EXCEPT !.nw = TRUE, !.d = s.d + 1, !.found = TRUE, !.fB = TRUE]
               ELSE IF ~s.fB THEN [s EXCEPT !.nw = FALSE, !.d = s.d + 1] ELSE [s EXCEPT !.nw = FALSE])
         ELSE IF s.d >= h THEN [s EXCEPT !.pc = "exceeded"] ELSE [s EXCEPT !.pc = "L", !.nw = TRUE]
    [] s.pc = "L" ->
         IF (s.nw \/ ~s.fL) /\ s.l >= 0
         THEN (IF BlackV(img, s.u, s.d, s.l) THEN [s EXCEPT !.nw = TRUE, !.l = s.l - 1, !.found = TRUE, !.fL = TRUE]
               ELSE IF ~s.fL THEN [s EXCEPT !.nw = FALSE, !.l = s.l - 1] ELSE [s EXCEPT !.nw = FALSE])
         ELSE IF s.l < 0 THEN [s EXCEPT !.pc = "exceeded"] ELSE [s EXCEPT !.pc = "T", !.nw = TRUE]
    [] s.pc = "T" ->
         IF (s.nw \/ ~s.fT) /\ s.u >= 0
         THEN (IF BlackH(img, s.l, s.r, s.u) THEN [s EXCEPT !.nw = TRUE, !.u = s.u - 1, !.found = TRUE, !.fT = TRUE]
               ELSE IF ~s.fT THEN [s EXCEPT !.nw = FALSE, !.u = s.u - 1] ELSE [s EXCEPT !.nw = FALSE])
         ELSE IF s.u < 0 THEN [s EXCEPT !.pc = "exceeded"]
         ELSE IF s.found THEN [s EXCEPT !.pc = "R", !.nw = TRUE, !.found = FALSE] ELSE [s EXCEPT !.pc = "done"]
    [] OTHER -> s
RECURSIVE Run(_, _, _, _)
Run(img, w, h, s) == IF Final(s) THEN s ELSE Run(img, w, h, Step(img, w, h, s))
\* the four corner points handed back are black pixels moved outwards by one; undoing the move in either of the code's two
\* variants (chosen by which half of the image the bottom-right hit lies in) must give black pixels inside the rectangle
Inside(s, p) == p[1] >= s.l /\ p[1] <= s.r /\ p[2] >= s.u /\ p[2] <= s.d
PointsOK(img, w, s, p) ==
  LET v1 == <<<<p[1][1] + 1, p[1][2] - 1>>, <<p[2][1] - 1, p[2][2] - 1>>, <<p[3][1] + 1, p[3][2] + 1>>, <<p[4][1] - 1, p[4][2] + 1>>>>
      v2 == <<<<p[1][1] - 1, p[1][2] - 1>>, <<p[2][1] - 1, p[2][2] + 1>>, <<p[3][1] + 1, p[3][2] - 1>>, <<p[4][1] + 1, p[4][2] + 1>>>>
      ok(v) == \A i \in 1..4 : v[i] \in img /\ Inside(s, v[i])
  IN (2 * v1[4][1] < w /\ ok(v1)) \/ (2 * v2[4][1] >= w /\ ok(v2))
=============================================================================
