SPECIFICATION Spec
CONSTANTS
  Mode = "laws"
  MaxLen = 4
INVARIANT Laws
CHECK_DEADLOCK FALSE
