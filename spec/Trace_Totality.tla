--------------------------- MODULE Trace_Totality ---------------------------
(* Trace validation for C06: every recorded call of a real reader / decoder / parser (harness/c06) is judged against  *)
(* the call-return contract of Totality.tla:                                                                          *)
(*    clause 1  the call returned (no panic, no hang) with exactly one of result / error                             *)
(*    clause 2  the error, if any, is of a kind the API class may return (image readers: NotFound / Checksum / Format) *)
(*    clause 3  parser calls: the outcome class is the one the reference automaton of TotalParse.tla computes for     *)
(*              these very codewords / bits (Result where the stream is a message, FormatError where it cannot be,    *)
(*              either where the standards do not say)                                                               *)
(*    clause 4  ECI block events: every value of the block has the outcome the registry determines                    *)
(* Calls are independent: the trace is stateless.  An event recorded as skipped (the driver could not build the      *)
(* input: the writer refused the content) is consumed without judgement.                                             *)
(* bad entries: <<event index, failing clause (9: ill-formed event), expected class / first offending block index,   *)
(*               (ECI blocks) the set of distinct <<expected, observed>> outcome codes>>                               *)
EXTENDS Totality, TotalParse, TraceLib
VARIABLES l, bad
vars == <<l, bad>>
Init == l = 1 /\ bad = <<>>
IsNat(x) == x \in Nat
IsNatSeq(q, hi) == DOMAIN q = 1..Len(q) /\ \A i \in 1..Len(q) : q[i] \in 0..hi
WellFormed(e) ==
  /\ {"op", "api", "a", "b", "h", "res", "err", "panic", "hang", "r", "skip"} \subseteq DOMAIN e
  /\ e.res \in {0, 1} /\ e.panic \in {0, 1} /\ e.hang \in {0, 1} /\ e.skip \in {0, 1}
  /\ e.err \in ErrorKinds \cup {""}
  /\ IsNatSeq(e.a, 1073741824) /\ IsNatSeq(e.h, 1000) /\ IsNatSeq(e.r, 9)
  /\ IsNatSeq(e.b, IF e.op = "azp" THEN 65535 ELSE 255)
  /\ (e.op = "runs" => Len(e.a) \in {4, 5})
  /\ (e.op = "qrp" => Len(e.a) = 2 /\ e.a[1] \in 1..40)
  /\ (e.op = "azp" => Len(e.a) = 1 /\ e.a[1] <= 16 * Len(e.b))
  /\ (e.op = "eci" => Len(e.a) = 3 /\ e.a[1] \in 1..6 /\ e.a[3] >= 1 /\ e.a[2] + e.a[3] - 1 <= ECIFormRange(e.a[1]))
\* hint codes 10.. name the character set of the CHARACTER_SET hint; from 20 on: names that are not known to be supported
ExoticHint(e) == \E i \in 1..Len(e.h) : e.h[i] >= 20 /\ e.h[i] < 30
AzBitsOf(e) == [i \in 1..e.a[1] |-> (e.b[((i - 1) \div 16) + 1] \div (2^((i - 1) % 16))) % 2]
Want(e) == CASE e.op = "qrp" -> QRParse(e.b, e.a[1], ExoticHint(e)).cls
             [] e.op = "dmp" -> DMParse(e.b).cls
             [] e.op = "azp" -> AZParse(AzBitsOf(e)).cls
             [] OTHER -> "any"
ClassCode(w) == CASE w = "ok" -> 2 [] w = "format" -> 1 [] OTHER -> 0
\* first index of an ECI block whose outcome differs from the expected one (0: none)
RECURSIVE ECIBad(_,_)
ECIBad(e, i) == IF i > Len(e.r) THEN 0
                ELSE IF e.r[i] # ECIExpected(e.a[1], e.a[2] + i - 1) THEN i ELSE ECIBad(e, i + 1)
\* the distinct <<expected, observed>> pairs of the offending values of a block
ECIMism(e) == {<<ECIExpected(e.a[1], e.a[2] + i - 1), e.r[i]>> : i \in {j \in 1..Len(e.r) : e.r[j] # ECIExpected(e.a[1], e.a[2] + j - 1)}}
Judge(e) ==
  IF ~WellFormed(e) THEN <<9, 0>>
  ELSE IF e.skip = 1 THEN <<0, 0>>
  ELSE IF e.op = "eci" THEN
     (IF e.hang # 0 \/ e.panic # 0 \/ Len(e.r) # e.a[3] THEN <<1, 0>>
      ELSE LET k == ECIBad(e, 1) IN IF k = 0 THEN <<0, 0>> ELSE <<4, k, ECIMism(e)>>)
  ELSE LET cls == ApiClass(e.op, e.api) IN
     IF cls = "unknown" THEN <<9, 1>>
     ELSE IF cls = "multi" /\ Outcome(e) = "Neither" THEN <<1, 0>>      \* (the driver reports res = 1 for any list returned with a nil error)
     ELSE IF ~Total(e) THEN <<1, 0>>
     ELSE IF ~KindOK(e, cls) THEN <<2, 0>>
     ELSE IF cls = "parser" THEN LET w == Want(e) IN IF ClassOK(e, w) THEN <<0, 0>> ELSE <<3, ClassCode(w)>>
     ELSE <<0, 0>>
Next ==
  /\ l <= NEv
  /\ l' = l + 1
  /\ LET j == Judge(Tr[l]) IN bad' = IF j[1] = 0 THEN bad ELSE Append(bad, <<l>> \o j)
Spec == Init /\ [][Next]_vars
Done == l = NEv + 1 => WriteBad(l, bad)
=============================================================================
