---------------------------- MODULE Trace_MultiQR ----------------------------
(* Trace validation for X02: one event = one QRCodeMultiReader.DecodeMultiple call on an image of several reference   *)
(* symbols.  spec[i] describes symbol i (text, structured-append header, version, level, mask); syms[i].rows is the     *)
(* matrix the driver painted - PREMISE re-derived here: it is MultiQR!Matrix(spec[i]).  VERDICTS                        *)
(*   "sound"     the result list is not explained by ANY set of decoded symbols: a text that is no symbol's text, a      *)
(*               structured-append symbol returned on its own next to others, a merge in the wrong order, ...            *)
(*   "complete"  (only where the event says must = 1: symbols far apart) some symbol is missing from the answer           *)
(*   "error"     an error other than NotFound, or a panic                                                                *)
EXTENDS MultiQR, TraceLib
VARIABLES l, bad
vars == <<l, bad>>
Init == l = 1 /\ bad = <<>>
PackLE(s, lo, hi) == LET f[i \in lo-1..hi] == IF i = lo - 1 THEN 0 ELSE f[i-1] + s[i] * 2^(i - lo) IN f[hi]
ChunksOf(s) == [c \in 1..((Len(s) + 15) \div 16) |-> PackLE(s, 16*(c-1) + 1, IF 16*c < Len(s) THEN 16*c ELSE Len(s))]
Shape(e) == /\ e.op = "multi" /\ Len(e.syms) = Len(e.spec) /\ Len(e.syms) \in 1..9 /\ Len(e.rots) = Len(e.syms)
            /\ \A i \in 1..Len(e.spec) : SymShape(e.spec[i])
            /\ e.err \in {0, 1} /\ e.panic \in {0, 1} /\ e.scale \in 1..10 /\ e.quiet \in 0..20 /\ e.gap \in 0..200
Premise(e) == \A i \in 1..Len(e.spec) :
  LET m == Matrix(e.spec[i]) IN e.syms[i].dim = Len(m) /\ e.syms[i].rows = [y \in 1..Len(m) |-> ChunksOf(m[y])]
Verdict(e) ==
  LET n == Len(e.spec)  all == 1..n IN
  IF e.panic = 1 \/ (e.err = 1 /\ e.kind # "notfound") THEN "error"
  ELSE IF e.err = 1 THEN (IF e.texts = <<>> /\ e.must = 0 THEN "ok" ELSE IF e.texts # <<>> THEN "sound" ELSE "complete")
  ELSE IF ~\E D \in SUBSET all : Explains(e.spec, D, e.texts) THEN "sound"
  ELSE IF e.must = 1 /\ ~Explains(e.spec, all, e.texts) THEN "complete"
  ELSE "ok"
Next == /\ l <= NEv /\ l' = l + 1
        /\ LET e == Tr[l] IN
           bad' = IF ~Shape(e) THEN Append(bad, <<l, "premise", "shape">>)
                  ELSE IF ~Premise(e) THEN Append(bad, <<l, "premise", "matrix">>)
                  ELSE LET v == Verdict(e) IN IF v = "ok" THEN bad ELSE Append(bad, <<l, v, "">>)
Spec == Init /\ [][Next]_vars
Done == l = NEv + 1 => WriteBad(l, bad)
=============================================================================
