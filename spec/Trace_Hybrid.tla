---------------------------- MODULE Trace_Hybrid ----------------------------
(* X03: every recorded HybridBinarizer.GetBlackMatrix of an image of at least 40 x 40 pixels against Hybrid.tla.       *)
(* Events (driver of C17): "new" sets the current picture (base = rows of luminances), "bmatrix" with bin = 1 logs the   *)
(* black matrix (rows of 16-bit chunks).                                                                                *)
EXTENDS Hybrid, TraceLib
L == INSTANCE Lum
VARIABLES l, bad, pic
vars == <<l, bad, pic>>
Init == l = 1 /\ bad = <<>> /\ pic = <<>>
Next == /\ l <= NEv /\ l' = l + 1
        /\ LET e == Tr[l] IN
           CASE e.op = "new" -> pic' = e.base /\ bad' = IF e.err = 0 /\ e.panic = 0 THEN bad ELSE Append(bad, <<l, "premise", "">>)
             [] e.op = "bmatrix" ->
                  /\ pic' = pic
                  /\ LET h == Len(pic)  w == IF h = 0 THEN 0 ELSE Len(pic[1]) IN
                     bad' = IF ~(h >= 40 /\ w >= 40 /\ e.bin = 1) THEN Append(bad, <<l, "premise", "">>)
                            ELSE IF e.panic = 0 /\ e.err = 0 /\ e.err2 = 0 /\ e.mw = w /\ e.mh = h
                                    /\ e.st = L!ChunkRows(BlackMatrixLocal(pic, w, h)) /\ e.st2 = e.st THEN bad
                            ELSE Append(bad, <<l, "matrix", "">>)
             [] OTHER -> pic' = pic /\ bad' = Append(bad, <<l, "premise", "">>)
Spec == Init /\ [][Next]_vars
Done == l = NEv + 1 => WriteBad(l, bad)
=============================================================================
