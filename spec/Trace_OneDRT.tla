--------------------------- MODULE Trace_OneDRT ---------------------------
(* Trace validation for C03: every recorded write -> read round trip of the real 1-D writers / readers.          *)
(*  rt    : (1) the writer accepts what Domain says it must and refuses what it must refuse;                     *)
(*          (2) the written row - reduced to module runs - carries the content under the *reference reader*      *)
(*              (any admissible encoding is fine);                                                              *)
(*          (3) the real reader returns exactly Canonical(content) and the right format for every content in the  *)
(*              reader's domain, at the requested width / height / margin.                                      *)
(*  read  : a symbol built by the reference encoders is read by the real reader as the reference reader reads it. *)
(*  block : for cnt consecutive payloads: exactly the standard's check digit is accepted, and the symbol written  *)
(*          with it reads back as payload + that digit in the right format.                                      *)
EXTENDS OneDRT, TraceLib
VARIABLES l, bad
vars == <<l, bad>>

IsSeqOf(s, S) == DOMAIN s = 1..Len(s) /\ \A i \in 1..Len(s) : s[i] \in S
ShapeRT(e) == /\ IsSeqOf(e.c, 0..255) /\ IsSeqOf(e.runs, 1..100000) /\ IsSeqOf(e.text, 0..255)
              /\ e.werr \in {0, 1} /\ e.err \in {0, 1} /\ e.panic \in {0, 1} /\ e.lead \in 0..100000 /\ e.trail \in 0..100000

JudgeRT(e) ==
  IF ~ShapeRT(e) THEN << <<"reject", "ill-shaped observation", "">> >>
  ELSE IF e.panic = 1 THEN << <<"reject", "panic", "">> >>
  ELSE LET dom == Domain(e.sym, e.c, e.force) IN
  IF dom = "reject" THEN (IF e.werr = 1 THEN <<>> ELSE << <<"reject", "content outside the symbology's domain was accepted", "">> >>)
  ELSE IF e.werr = 1 THEN (IF dom = "must" THEN << <<"reject", "valid content refused", "">> >> ELSE <<>>)
  ELSE IF dom = "any" THEN <<>>
  ELSE LET g == GCDSeq(e.runs)
           mr == ModuleRuns(e.runs)
           t == Canonical(e.sym, e.c)
       IN IF e.runs = <<>> \/ e.same # 1 \/ ~Carries(e.sym, mr, e.c) THEN
             << <<"reject", "written symbol does not carry the content",
                  IF e.sym = "UPCE" /\ Len(e.c) = 7 /\ Len(mr) = 33 /\ CarriedCheck("UPCE", mr) = Check10(UnBytes(e.c))
                     /\ mr = SymRuns("UPCE", Append(UnBytes(e.c), Check10(UnBytes(e.c))))
                  THEN "check digit computed on the unexpanded UPC-E digits" ELSE "other">> >>
          ELSE IF ~Readable(e.sym, t) \/ (e.sym = "C39" /\ Plain39(e.c) # (e.rd = "own")) THEN <<>>   \* outside the matching reader's domain
          ELSE LET a == Answer(e.sym, t, e.rd) IN
               IF e.err = 0 /\ e.text = a[2] /\ e.fmt = a[1] THEN <<>>
               ELSE << <<"reject", IF e.err = 1 THEN "written symbol is not read back" ELSE "written symbol is read back as something else",
                         IF e.sym = "UPCE" /\ e.trail < 7 * g THEN "UPC-E rendered with a right quiet zone below 7 modules" ELSE "other">> >>

ShapeRead(e) == /\ IsSeqOf(e.runs, 1..400) /\ IsSeqOf(e.c, 0..255) /\ IsSeqOf(e.text, 0..255)
                /\ e.err \in {0, 1} /\ e.orient \in {0, 180} /\ e.panic \in {0, 1}
JudgeRead(e) ==
  IF ~ShapeRead(e) THEN << <<"reject", "ill-shaped observation", "">> >>
  ELSE IF e.panic = 1 THEN << <<"reject", "reader panicked", "">> >>
  ELSE LET f == ReadSym(e.sym, e.runs) IN
       IF ~f.ok \/ f.text # e.c THEN << <<"reject", "generated symbol does not carry its content under the reference reader", "">> >>
       ELSE IF e.err = 0 /\ e.text = f.text /\ e.orient = 0 THEN <<>>
       ELSE << <<"reject", "reference-encoded symbol not read as its content", "">> >>

ShapeBlock(e) == /\ IsSeqOf(e.base, 0..9) /\ Len(e.base) = SymLen(e.sym) - 1 /\ e.cnt \in 1..5000 /\ e.panic \in {0, 1}
                 /\ IsSeqOf(e.m, 0..1023) /\ IsSeqOf(e.k, 0..10) /\ IsSeqOf(e.s, {0, 1})
                 /\ Len(e.m) = e.cnt /\ Len(e.k) = e.cnt /\ Len(e.s) = e.cnt
JudgeBlock(e) ==
  IF ~ShapeBlock(e) THEN << <<"reject", "ill-shaped observation", "">> >>
  ELSE IF e.panic = 1 THEN << <<"reject", "panic", "">> >>
  ELSE LET ck(i) == LET p == BlockPayload(e.base, i) IN
                    IF e.sym = "UPCE" THEN (IF p[1] \in {0, 1} THEN CheckUPCE(p) ELSE -1) ELSE Check10(p)
           cks == TLCEval([i \in 1..e.cnt |-> ck(i)])
           badM == {i \in 1..e.cnt : e.m[i] # (IF cks[i] < 0 THEN 0 ELSE 2 ^ cks[i])}
           badR == {i \in 1..e.cnt : cks[i] >= 0 /\ (e.k[i] # cks[i] \/ e.s[i] # 1)}
           first(S) == CHOOSE i \in S : \A j \in S : i <= j
       IN (IF badM = {} THEN <<>> ELSE << <<"reject", "accepted check digits are not exactly the standard's", "", first(badM), Cardinality(badM)>> >>)
          \o (IF badR = {} THEN <<>> ELSE << <<"reject", "written symbol not read back as payload + check digit", "", first(badR), Cardinality(badR)>> >>)

Judge(e) == CASE e.op = "rt" -> JudgeRT(e) [] e.op = "read" -> JudgeRead(e) [] e.op = "block" -> JudgeBlock(e)
              [] OTHER -> << <<"reject", "unknown op", "">> >>
Init == l = 1 /\ bad = <<>>
Next == /\ l <= NEv
        /\ l' = l + 1
        /\ LET v == Judge(Tr[l]) IN bad' = bad \o [i \in 1..Len(v) |-> <<l>> \o v[i]]
Spec == Init /\ [][Next]_vars
Done == l = NEv + 1 => WriteBad(l, bad)
=============================================================================
