----------------------------- MODULE QRStream -----------------------------
(* ISO/IEC 18004 clause 7.4: the data bit stream of a single-segment symbol (optional ECI header, optional  *)
(* FNC1-in-first-position, mode indicator, character count, payload, terminator, padding) and its reference  *)
(* parser.  Texts are sequences of byte values; the bytes of a text in a non-default character set are an    *)
(* input (golang.org/x/text is a trusted base).                                                              *)
EXTENDS QRSymbol

BitsOf(val, n) == [k \in 1..n |-> (val \div 2^(n-k)) % 2]          \* most significant bit first
IsDigit(b) == b >= 48 /\ b <= 57
AlnumCode(b) == IF IsDigit(b) THEN b - 48 ELSE IF b >= 65 /\ b <= 90 THEN b - 55
                ELSE CASE b = 32 -> 36 [] b = 36 -> 37 [] b = 37 -> 38 [] b = 42 -> 39 [] b = 43 -> 40
                       [] b = 45 -> 41 [] b = 46 -> 42 [] b = 47 -> 43 [] b = 58 -> 44 [] OTHER -> -1
AlnumByte(c) == IF c < 10 THEN c + 48 ELSE IF c < 36 THEN c + 55 ELSE <<32, 36, 37, 42, 43, 45, 46, 47, 58>>[c - 35]
KanjiLead(b) == (b >= 129 /\ b <= 159) \/ (b >= 224 /\ b <= 235)
\* 13-bit value of a Shift_JIS double byte character (-1 when outside the two ranges of 7.4.6)
KanjiVal(b1, b2) == LET c == b1*256 + b2
                        sub == IF c >= 33088 /\ c <= 40956 THEN c - 33088 ELSE IF c >= 57408 /\ c <= 60351 THEN c - 49472 ELSE -1
                    IN IF sub < 0 THEN -1 ELSE (sub \div 256) * 192 + (sub % 256)
KanjiBytes(val) == LET a == (val \div 192) * 256 + (val % 192)
                       c == IF a < 7936 THEN a + 33088 ELSE a + 49472          \* 0x1F00
                   IN <<c \div 256, c % 256>>

\* mode selection rule of a single-segment encoder: Kanji only on request (Shift_JIS hint) and only for pure double-byte text
ChooseMode(text, sjisHint, sj) ==
  IF sjisHint /\ Len(sj) > 0 /\ Len(sj) % 2 = 0 /\ (\A i \in 1..(Len(sj) \div 2) : KanjiLead(sj[2*i-1])) THEN "kanji"
  ELSE IF \E i \in 1..Len(text) : AlnumCode(text[i]) < 0 THEN "byte"
  ELSE IF \E i \in 1..Len(text) : ~IsDigit(text[i]) THEN "alnum"
  ELSE IF Len(text) > 0 THEN "num" ELSE "byte"

\* ECI designator (7.4.2.1): 0bbbbbbb | 10bbbbbb bbbbbbbb | 110bbbbb bbbbbbbb bbbbbbbb
EciBits(eci) == IF eci < 0 THEN <<>> ELSE BitsOf(7, 4) \o
                (IF eci <= 127 THEN BitsOf(eci, 8) ELSE IF eci <= 16383 THEN BitsOf(32768 + eci, 16) ELSE BitsOf(6, 3) \o BitsOf(eci, 21))
Header(eci, gs1, mode) == EciBits(eci) \o (IF gs1 THEN BitsOf(5, 4) ELSE <<>>) \o BitsOf(ModeBits(mode), 4)

\* p = payload units: digits 0..9 | alphanumeric codes 0..44 | bytes | 13-bit kanji values; j = 1-based bit index inside the payload
PayloadBit(mode, p, j) ==
  LET n == Len(p) IN
  CASE mode = "byte" -> (p[((j-1) \div 8) + 1] \div 2^(7 - ((j-1) % 8))) % 2
    [] mode = "kanji" -> (p[((j-1) \div 13) + 1] \div 2^(12 - ((j-1) % 13))) % 2
    [] mode = "num" -> LET g == (j-1) \div 10 IN
          IF g < n \div 3 THEN ((100*p[3*g+1] + 10*p[3*g+2] + p[3*g+3]) \div 2^(9 - ((j-1) % 10))) % 2
          ELSE LET i == j - 1 - 10*(n \div 3) IN
               IF n % 3 = 1 THEN (p[n] \div 2^(3 - i)) % 2 ELSE ((10*p[n-1] + p[n]) \div 2^(6 - i)) % 2
    [] mode = "alnum" -> LET g == (j-1) \div 11 IN
          IF g < n \div 2 THEN ((45*p[2*g+1] + p[2*g+2]) \div 2^(10 - ((j-1) % 11))) % 2
          ELSE (p[n] \div 2^(5 - (j - 1 - 11*(n \div 2)))) % 2

\* the data codewords of the symbol: header, count, payload, terminator (up to four 0), zero bits to the byte boundary, pad bytes 236 / 17
DataCW(mode, p, hdr, v, ec) ==
  LET nd == DataCodewords(v, ec) cap == 8 * nd
      cc == CountBits(mode, v)
      pre == hdr \o BitsOf(Len(p), cc)
      used == Len(pre) + PayloadBits(mode, Len(p))
      term == IF cap - used < 4 THEN cap - used ELSE 4
      nbytes == (used + term + 7) \div 8
      bit(k) == IF k <= Len(pre) THEN pre[k] ELSE IF k <= used THEN PayloadBit(mode, p, k - Len(pre)) ELSE 0
  IN TLCEval([i \in 1..nd |-> IF i <= nbytes
                              THEN 128*bit(8*i-7) + 64*bit(8*i-6) + 32*bit(8*i-5) + 16*bit(8*i-4) + 8*bit(8*i-3) + 4*bit(8*i-2) + 2*bit(8*i-1) + bit(8*i)
                              ELSE IF (i - nbytes) % 2 = 1 THEN 236 ELSE 17])

\* payload units of a text in a mode (sj = its Shift_JIS bytes, enc = its bytes in the byte-mode character set)
Units(mode, text, enc, sj) ==
  CASE mode = "num" -> [i \in 1..Len(text) |-> text[i] - 48]
    [] mode = "alnum" -> [i \in 1..Len(text) |-> AlnumCode(text[i])]
    [] mode = "byte" -> enc
    [] mode = "kanji" -> [i \in 1..(Len(sj) \div 2) |-> KanjiVal(sj[2*i-1], sj[2*i])]

(* ---- reference parser of a data codeword sequence (single pass, modes the encoder can emit) *)
StreamBit(cw, k) == (cw[((k-1) \div 8) + 1] \div 2^(7 - ((k-1) % 8))) % 2
RECURSIVE ReadN(_,_,_)
ReadN(cw, pos, n) == IF n = 0 THEN 0 ELSE 2 * ReadN(cw, pos, n - 1) + StreamBit(cw, pos + n - 1)       \* value of bits pos..pos+n-1 (1-based)
\* returns [ok, eci, gs1, mode, units]
RECURSIVE ParseFrom(_,_,_,_,_)
ParseFrom(cw, v, pos, eci, gs1) ==
  LET avail == 8 * Len(cw) - pos + 1 IN
  IF avail < 4 THEN [ok |-> FALSE, eci |-> eci, gs1 |-> gs1, mode |-> "none", units |-> <<>>]
  ELSE LET m == ReadN(cw, pos, 4) IN
       IF m = 7 THEN (IF StreamBit(cw, pos + 4) = 0 THEN ParseFrom(cw, v, pos + 12, ReadN(cw, pos + 5, 7), gs1)
                      ELSE IF StreamBit(cw, pos + 5) = 0 THEN ParseFrom(cw, v, pos + 20, ReadN(cw, pos + 6, 14), gs1)
                      ELSE ParseFrom(cw, v, pos + 28, ReadN(cw, pos + 7, 21), gs1))
       ELSE IF m = 5 THEN ParseFrom(cw, v, pos + 4, eci, TRUE)
       ELSE IF m \notin {1, 2, 4, 8} THEN [ok |-> FALSE, eci |-> eci, gs1 |-> gs1, mode |-> "none", units |-> <<>>]
       ELSE LET mode == CASE m = 1 -> "num" [] m = 2 -> "alnum" [] m = 4 -> "byte" [] m = 8 -> "kanji"
                cc == CountBits(mode, v)
                n == ReadN(cw, pos + 4, cc)
                base == pos + 4 + cc
                units == CASE mode = "byte" -> [i \in 1..n |-> ReadN(cw, base + 8*(i-1), 8)]
                           [] mode = "kanji" -> [i \in 1..n |-> ReadN(cw, base + 13*(i-1), 13)]
                           [] mode = "num" -> [i \in 1..n |-> LET g == (i-1) \div 3 IN
                                  IF g < n \div 3 THEN (ReadN(cw, base + 10*g, 10) \div (IF (i-1) % 3 = 0 THEN 100 ELSE IF (i-1) % 3 = 1 THEN 10 ELSE 1)) % 10
                                  ELSE IF n % 3 = 1 THEN ReadN(cw, base + 10*g, 4)
                                  ELSE (ReadN(cw, base + 10*g, 7) \div (IF (i-1) % 3 = 0 THEN 10 ELSE 1)) % 10]
                           [] mode = "alnum" -> [i \in 1..n |-> LET g == (i-1) \div 2 IN
                                  IF g < n \div 2 THEN (IF (i-1) % 2 = 0 THEN ReadN(cw, base + 11*g, 11) \div 45 ELSE ReadN(cw, base + 11*g, 11) % 45)
                                  ELSE ReadN(cw, base + 11*g, 6)]
            IN [ok |-> base + PayloadBits(mode, n) - 1 <= 8 * Len(cw), eci |-> eci, gs1 |-> gs1, mode |-> mode, units |-> units]
Parse(cw, v) == ParseFrom(cw, v, 1, -1, FALSE)
=============================================================================
