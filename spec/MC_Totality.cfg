SPECIFICATION Spec
CONSTANTS
  Mode = "laws"
  Full = FALSE
INVARIANT Laws
INVARIANT VerdictLaw
CHECK_DEADLOCK FALSE
