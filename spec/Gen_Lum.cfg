SPECIFICATION Spec
CONSTANTS
  Inits <- GenInits
  MaxDepth = 2
  Record = TRUE
CHECK_DEADLOCK FALSE
