SPECIFICATION Spec
INVARIANT Done
CHECK_DEADLOCK FALSE
