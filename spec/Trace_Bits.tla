----------------------------- MODULE Trace_Bits -----------------------------
(* Trace validation for C16: every recorded call on a real BitMatrix / BitArray must be the step the      *)
(* naive model takes: same state afterwards, same answer, same error outcome, no panic.                   *)
EXTENDS Bits, TraceLib
VARIABLES l, bad, m, s
vars == <<l, bad, m, s>>
Init == l = 1 /\ bad = <<>> /\ m = Zero(1, 1) /\ s = <<>>
MLogged(e) == UnChunkRows(e.st, e.w, e.h)
ALogged(e) == UnChunks(e.st[1], e.n)
Next ==
  /\ l <= NEv
  /\ l' = l + 1
  /\ LET e == Tr[l] IN
     IF e.k = "m"
     THEN LET x == MStep(m, e)
              okS == MLogged(e) = x.m
              okR == e.r = x.r /\ e.err = x.err /\ e.panic = 0
          IN /\ bad' = IF okS /\ okR THEN bad ELSE Append(bad, <<l, e.op, IF okS THEN 1 ELSE 0, IF okR THEN 1 ELSE 0>>)
             /\ m' = IF okS THEN x.m ELSE MLogged(e)          \* re-synchronise from the log
             /\ s' = s
     ELSE LET x == AStep(s, e)
              okS == ALogged(e) = x.s
              okR == e.r = x.r /\ e.err = x.err /\ e.panic = 0
          IN /\ bad' = IF okS /\ okR THEN bad ELSE Append(bad, <<l, e.op, IF okS THEN 1 ELSE 0, IF okR THEN 1 ELSE 0>>)
             /\ s' = IF okS THEN x.s ELSE ALogged(e)
             /\ m' = m
Spec == Init /\ [][Next]_vars
Done == l = NEv + 1 => WriteBad(l, bad)
=============================================================================
