// vdrive c10
package main

// C10 driver.  Three kinds of inputs, all executed on the real oned readers / writers:
//   read  : a symbol given as run lengths (constructed by TLC from the spec's tables, e.g. carrying a substituted digit
//           with the original check digit) is painted and decoded by the matching reader (rd = "own") or by the
//           multi-format UPC/EAN reader (rd = "multi"); the answer is recorded.
//   write : a content is given to the matching writer (width 0, height 1, margin 0); error outcome and the run lengths
//           of the produced row are recorded.
//   mask  : for cnt consecutive payloads the writer is offered payload+d for d = 0..9; recorded: the bit mask of
//           accepted digits, and whether the symbol written for the bare payload equals the one for the accepted digit.
// The driver decides nothing; TLC judges the recorded events (spec/Trace_Check.tla).

import (
	"encoding/json"

	"github.com/makiuchi-d/gozxing"
	"verifharness/c10/odr"
	"verifharness/hlib"
)

type ev struct {
	Op     string `json:"op"`
	Sym    string `json:"sym"`
	Rd     string `json:"rd"`
	N      []int  `json:"n"`
	Pos    int    `json:"pos"`
	D      int    `json:"d"`
	Ad     []int  `json:"ad"`
	Ap     []int  `json:"ap"`
	Gap    int    `json:"gap"`
	Runs   []int  `json:"runs"`
	Q      int    `json:"q"`
	Scale  int    `json:"scale"`
	H      int    `json:"h"`
	C      []int  `json:"c"`
	Base   []int  `json:"base"`
	Cnt    int    `json:"cnt"`
	M      []int  `json:"m"`
	S      []int  `json:"s"`
	Lead   int    `json:"lead"`
	Trail  int    `json:"trail"`
	Same   int    `json:"same"`
	Text   []int  `json:"text"`
	Err    int    `json:"err"`
	Orient int    `json:"orient"`
	Ext    []int  `json:"ext"`
	Fmt    string `json:"fmt"`
	Panic  int    `json:"panic"`
	Msg    string `json:"msg,omitempty"`
}

func nz(e *ev) {
	e.N, e.Ad, e.Ap, e.Runs, e.C, e.Base = hlib.NZ(e.N), hlib.NZ(e.Ad), hlib.NZ(e.Ap), hlib.NZ(e.Runs), hlib.NZ(e.C), hlib.NZ(e.Base)
	e.M, e.S, e.Text, e.Ext = hlib.NZ(e.M), hlib.NZ(e.S), hlib.NZ(e.Text), hlib.NZ(e.Ext)
}

var margin0 = map[gozxing.EncodeHintType]interface{}{gozxing.EncodeHintType_MARGIN: 0}

func encode(sym string, content []byte) (*gozxing.BitMatrix, error) {
	return odr.Writer(sym).Encode(string(content), odr.Format(sym), 0, 1, margin0)
}

func sameMatrix(a, b *gozxing.BitMatrix) bool {
	if a.GetWidth() != b.GetWidth() || a.GetHeight() != b.GetHeight() {
		return false
	}
	for y := 0; y < a.GetHeight(); y++ {
		for x := 0; x < a.GetWidth(); x++ {
			if a.Get(x, y) != b.Get(x, y) {
				return false
			}
		}
	}
	return true
}

var readers = map[string]gozxing.Reader{}

func main() {
	hlib.Main(func(raw []byte) (interface{}, error) {
		var e ev
		if err := json.Unmarshal(raw, &e); err != nil {
			return nil, err
		}
		nz(&e)
		switch e.Op {
		case "read":
			if e.Scale < 1 {
				e.Scale = 2
			}
			if e.H < 1 {
				e.H = 12
			}
			rsym := e.Sym
			if e.Rd == "multi" {
				rsym = "MULTI"
			}
			// one reader object per symbology for the whole run: state a reader keeps between calls must not influence the next reading
			rdr, ok := readers[rsym]
			if !ok {
				rdr = odr.Reader(rsym)
				readers[rsym] = rdr
			}
			o := odr.Decode(rdr, odr.Render(e.Runs, e.Q, e.Scale, e.H), nil)
			e.Text, e.Err, e.Orient, e.Ext, e.Fmt, e.Panic, e.Msg = o.Text, o.Err, o.Orient, o.Ext, o.Fmt, o.Panic, o.Msg
		case "write":
			p := hlib.Guard(func() {
				m, err := encode(e.Sym, hlib.IntsToBytes(e.C))
				if err != nil {
					e.Err = 1
					return
				}
				e.Lead, e.Runs, e.Trail, e.Same = odr.MatrixRuns(m)
			})
			if p != "" {
				e.Panic, e.Msg = 1, p
			}
		case "mask":
			p := hlib.Guard(func() {
				pay := append([]int{}, e.Base...)
				n := len(pay)
				for i := 0; i < e.Cnt; i++ {
					content := make([]byte, n+1)
					for k, d := range pay {
						content[k] = byte('0' + d)
					}
					mask := 0
					var acc *gozxing.BitMatrix
					for d := 0; d < 10; d++ {
						content[n] = byte('0' + d)
						if m, err := encode(e.Sym, content); err == nil {
							mask |= 1 << uint(d)
							acc = m
						}
					}
					same := 0
					if short, err := encode(e.Sym, content[:n]); err == nil && acc != nil && sameMatrix(short, acc) {
						same = 1
					}
					e.M = append(e.M, mask)
					e.S = append(e.S, same)
					for k := n - 1; k >= 0; k-- { // next payload
						pay[k]++
						if pay[k] < 10 {
							break
						}
						pay[k] = 0
					}
				}
			})
			if p != "" {
				e.Panic, e.Msg = 1, p
			}
		}
		return e, nil
	})
}
