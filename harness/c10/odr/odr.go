// Package odr: projections shared by the 1-D drivers (C10, C03).  Nothing here decides anything: a run-length
// sequence produced by TLC is painted to pixels, a BitMatrix row is run-length encoded, symbology names are mapped
// to the library's constructors.
package odr

import (
	"image"
	"image/color"

	"github.com/makiuchi-d/gozxing"
	"github.com/makiuchi-d/gozxing/oned"
	"verifharness/hlib"
)

// Render paints runs (module widths, first run is a bar, colours alternate) with q white modules on either side,
// `scale` pixels per module and height h.
func Render(runs []int, q, scale, h int) *image.Gray {
	n := 0
	for _, r := range runs {
		n += r
	}
	w := (n + 2*q) * scale
	img := image.NewGray(image.Rect(0, 0, w, h))
	for i := range img.Pix {
		img.Pix[i] = 255
	}
	x := q * scale
	black := true
	for _, r := range runs {
		if black {
			for y := 0; y < h; y++ {
				for k := 0; k < r*scale; k++ {
					img.SetGray(x+k, y, color.Gray{Y: 0})
				}
			}
		}
		x += r * scale
		black = !black
	}
	return img
}

// MatrixRuns run-length encodes row 0 of m: lead white pixels, then runs starting with a bar, then trailing white
// pixels; same = 1 iff all rows equal row 0.
func MatrixRuns(m *gozxing.BitMatrix) (lead int, runs []int, trail int, same int) {
	w, h := m.GetWidth(), m.GetHeight()
	runs = []int{}
	x := 0
	for x < w && !m.Get(x, 0) {
		x++
	}
	lead = x
	for x < w {
		c := m.Get(x, 0)
		k := 0
		for x < w && m.Get(x, 0) == c {
			x++
			k++
		}
		if !c && x == w {
			trail = k
		} else {
			runs = append(runs, k)
		}
	}
	same = 1
	for y := 1; y < h && same == 1; y++ {
		for xx := 0; xx < w; xx++ {
			if m.Get(xx, y) != m.Get(xx, 0) {
				same = 0
				break
			}
		}
	}
	return
}

// Format maps the spec's symbology names to the library's formats.
func Format(sym string) gozxing.BarcodeFormat {
	switch sym {
	case "EAN13":
		return gozxing.BarcodeFormat_EAN_13
	case "EAN8":
		return gozxing.BarcodeFormat_EAN_8
	case "UPCA":
		return gozxing.BarcodeFormat_UPC_A
	case "UPCE":
		return gozxing.BarcodeFormat_UPC_E
	case "C128":
		return gozxing.BarcodeFormat_CODE_128
	case "C93":
		return gozxing.BarcodeFormat_CODE_93
	case "C39", "C39X":
		return gozxing.BarcodeFormat_CODE_39
	case "ITF":
		return gozxing.BarcodeFormat_ITF
	case "CBAR":
		return gozxing.BarcodeFormat_CODABAR
	}
	return gozxing.BarcodeFormat_QR_CODE
}

// Reader returns a fresh matching reader.
func Reader(sym string) gozxing.Reader {
	switch sym {
	case "EAN13":
		return oned.NewEAN13Reader()
	case "EAN8":
		return oned.NewEAN8Reader()
	case "UPCA":
		return oned.NewUPCAReader()
	case "UPCE":
		return oned.NewUPCEReader()
	case "C128":
		return oned.NewCode128Reader()
	case "C93":
		return oned.NewCode93Reader()
	case "C39":
		return oned.NewCode39Reader()
	case "C39X":
		return oned.NewCode39ReaderWithFlags(false, true)
	case "C39K":
		return oned.NewCode39ReaderWithCheckDigitFlag(true)
	case "MULTI":
		return oned.NewMultiFormatUPCEANReader(nil)
	case "ITF":
		return oned.NewITFReader()
	case "CBAR":
		return oned.NewCodaBarReader()
	}
	return nil
}

// Writer returns a fresh matching writer.
func Writer(sym string) gozxing.Writer {
	switch sym {
	case "EAN13":
		return oned.NewEAN13Writer()
	case "EAN8":
		return oned.NewEAN8Writer()
	case "UPCA":
		return oned.NewUPCAWriter()
	case "UPCE":
		return oned.NewUPCEWriter()
	case "C128":
		return oned.NewCode128Writer()
	case "C93":
		return oned.NewCode93Writer()
	case "C39", "C39X":
		return oned.NewCode39Writer()
	case "ITF":
		return oned.NewITFWriter()
	case "CBAR":
		return oned.NewCodaBarWriter()
	}
	return nil
}

// Obs is what a Decode call returned.
type Obs struct {
	Text   []int  `json:"text"`
	Err    int    `json:"err"`
	Orient int    `json:"orient"`
	Ext    []int  `json:"ext"`
	Fmt    string `json:"fmt"`
	Panic  int    `json:"panic"`
	Msg    string `json:"msg,omitempty"`
}

// Decode runs r on img and projects the result.
func Decode(r gozxing.Reader, img image.Image, hints map[gozxing.DecodeHintType]interface{}) Obs {
	o := Obs{Text: []int{}, Ext: []int{}}
	p := hlib.Guard(func() {
		bmp, err := gozxing.NewBinaryBitmapFromImage(img)
		if err != nil {
			o.Err = 1
			o.Msg = err.Error()
			return
		}
		res, err := r.Decode(bmp, hints)
		if err != nil {
			o.Err = 1
			o.Msg = err.Error()
			if len(o.Msg) > 80 {
				o.Msg = o.Msg[:80]
			}
			return
		}
		o.Text = hlib.BytesToInts(res.GetText())
		o.Fmt = res.GetBarcodeFormat().String()
		md := res.GetResultMetadata()
		if v, ok := md[gozxing.ResultMetadataType_ORIENTATION]; ok {
			if iv, ok := v.(int); ok {
				o.Orient = iv
			}
		}
		if v, ok := md[gozxing.ResultMetadataType_UPC_EAN_EXTENSION]; ok {
			if sv, ok := v.(string); ok {
				o.Ext = hlib.BytesToInts(sv)
			}
		}
	})
	if p != "" {
		o.Panic = 1
		o.Msg = p
	}
	return o
}
