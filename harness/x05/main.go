// vdrive x05
package main

// X05 driver: calls the real gozxing.ResultPoint_OrderBestPatterns on three integer-valued points and records the three
// points that came back.  Nothing is decided here; TLC judges the events (Trace_Points).

import (
	"encoding/json"
	"math"

	"github.com/makiuchi-d/gozxing"
	"verifharness/hlib"
)

type ev struct {
	Op    string  `json:"op"`
	P     [][]int `json:"p"`
	O     [][]int `json:"o"`
	Exact int     `json:"exact"`
	Panic int     `json:"panic"`
	Msg   string  `json:"msg,omitempty"`
}

func main() {
	hlib.Main(func(raw []byte) (interface{}, error) {
		var e ev
		if err := json.Unmarshal(raw, &e); err != nil {
			return nil, err
		}
		e.O = [][]int{}
		e.Exact = 1
		msg := hlib.Guard(func() {
			pt := func(i int) gozxing.ResultPoint { return gozxing.NewResultPoint(float64(e.P[i][0]), float64(e.P[i][1])) }
			a, b, c := gozxing.ResultPoint_OrderBestPatterns(pt(0), pt(1), pt(2))
			for _, r := range []gozxing.ResultPoint{a, b, c} {
				x, y := r.GetX(), r.GetY()
				if x != math.Trunc(x) || y != math.Trunc(y) || math.Abs(x) > 1e6 || math.Abs(y) > 1e6 {
					e.Exact = 0
					x, y = 0, 0
				}
				e.O = append(e.O, []int{int(x), int(y)})
			}
		})
		if msg != "" {
			e.Panic, e.Msg = 1, msg
		}
		return e, nil
	})
}
