// vdrive drives the real gozxing code (built from /repo's working tree with -tags verif) for the checks in
// /verif/checks.  It never decides a property: it executes inputs and records observations; TLC judges them.
package main

import (
	"bufio"
	"encoding/json"
	"fmt"
	"os"
	"sort"
)

// driver: args after the property command, e.g. `vdrive c16 exec in.ndjson out.ndjson`
var drivers = map[string]func(args []string) error{}

func register(name string, f func(args []string) error) { drivers[name] = f }

func main() {
	if len(os.Args) < 2 {
		names := []string{}
		for k := range drivers {
			names = append(names, k)
		}
		sort.Strings(names)
		fmt.Fprintln(os.Stderr, "usage: vdrive <driver> ...; drivers:", names)
		os.Exit(2)
	}
	d, ok := drivers[os.Args[1]]
	if !ok {
		fmt.Fprintln(os.Stderr, "unknown driver", os.Args[1])
		os.Exit(2)
	}
	if err := d(os.Args[2:]); err != nil {
		fmt.Fprintln(os.Stderr, "vdrive:", err)
		os.Exit(3)
	}
}

// execLoop reads ndjson inputs from args[1], calls f on each raw line, writes one ndjson observation each.
func execLoop(args []string, f func(raw []byte) (interface{}, error)) error {
	if len(args) < 3 || args[0] != "exec" {
		return fmt.Errorf("usage: exec <in.ndjson> <out.ndjson>")
	}
	in, err := os.Open(args[1])
	if err != nil {
		return err
	}
	defer in.Close()
	out, err := os.Create(args[2])
	if err != nil {
		return err
	}
	defer out.Close()
	w := bufio.NewWriterSize(out, 1<<20)
	defer w.Flush()
	enc := json.NewEncoder(w)
	sc := bufio.NewScanner(in)
	sc.Buffer(make([]byte, 1<<20), 1<<28)
	n := 0
	for sc.Scan() {
		n++
		line := sc.Bytes()
		if len(line) == 0 {
			continue
		}
		ev, err := f(line)
		if err != nil {
			return fmt.Errorf("input %d: %v", n, err)
		}
		if err := enc.Encode(ev); err != nil {
			return err
		}
	}
	return sc.Err()
}

// guard runs f and reports a panic as a string (empty when none).
func guard(f func()) (p string) {
	defer func() {
		if r := recover(); r != nil {
			p = fmt.Sprint(r)
			if len(p) > 200 {
				p = p[:200]
			}
		}
	}()
	f()
	return ""
}
