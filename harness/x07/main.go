// vdrive x07
package main

// X07 driver: paints an image of height h in which exactly the given rows carry a Code 128 symbol (all other rows white),
// reads it with the real Code128Reader (optionally TRY_HARDER) and records whether it answered and from which row (the y of
// the result points).  Nothing is decided here; TLC judges the events (Trace_RowScan).

import (
	"encoding/json"
	"image"
	"image/color"

	"github.com/makiuchi-d/gozxing"
	"github.com/makiuchi-d/gozxing/oned"
	"verifharness/hlib"
)

type ev struct {
	Op    string `json:"op"`
	H     int    `json:"h"`
	Th    int    `json:"th"`
	Rows  []int  `json:"rows"`
	Err   int    `json:"err"`
	Y     int    `json:"y"`
	Txtok int    `json:"txtok"`
	Panic int    `json:"panic"`
	Msg   string `json:"msg,omitempty"`
}

const text = "RowScan-07"

func main() {
	bars, err := oned.NewCode128Writer().Encode(text, gozxing.BarcodeFormat_CODE_128, 0, 1, nil)
	if err != nil {
		panic(err)
	}
	w := bars.GetWidth()
	hlib.Main(func(raw []byte) (interface{}, error) {
		var e ev
		if err := json.Unmarshal(raw, &e); err != nil {
			return nil, err
		}
		if e.Rows == nil {
			e.Rows = []int{}
		}
		e.Y = -1
		msg := hlib.Guard(func() {
			img := image.NewGray(image.Rect(0, 0, w, e.H))
			for i := range img.Pix {
				img.Pix[i] = 255
			}
			for _, y := range e.Rows {
				if y < 0 || y >= e.H {
					continue
				}
				for x := 0; x < w; x++ {
					if bars.Get(x, 0) {
						img.SetGray(x, y, color.Gray{Y: 0})
					}
				}
			}
			bmp, err := gozxing.NewBinaryBitmapFromImage(img)
			if err != nil {
				panic(err)
			}
			hints := map[gozxing.DecodeHintType]interface{}{}
			if e.Th == 1 {
				hints[gozxing.DecodeHintType_TRY_HARDER] = true
			}
			res, err := oned.NewCode128Reader().Decode(bmp, hints)
			if err != nil {
				e.Err = 1
				return
			}
			e.Txtok = hlib.B2I(res.GetText() == text)
			if pts := res.GetResultPoints(); len(pts) > 0 {
				e.Y = int(pts[0].GetY())
			}
		})
		if msg != "" {
			e.Panic, e.Msg = 1, msg
		}
		return e, nil
	})
}
