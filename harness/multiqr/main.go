// vdrive multiqr
package main

// X02 driver: paints several reference QR symbols (module matrices produced by TLC from spec/MultiQR.tla) into one image
// and reads it with multi/qrcode.QRCodeMultiReader.DecodeMultiple.  It decides nothing.
//
//	multi : syms[i].rows = module matrix (16-bit chunks) of symbol i; the symbols are laid out left to right, top to bottom,
//	        `cols` per line, on cells of the largest symbol + 2 * quiet modules, `gap` extra modules between cells, `scale`
//	        pixels per module; symbol i is turned by rots[i] quarter turns.

import (
	"encoding/json"
	"image"
	"image/color"

	"github.com/makiuchi-d/gozxing"
	mqr "github.com/makiuchi-d/gozxing/multi/qrcode"
	"verifharness/hlib"
)

type sym struct {
	Dim  int     `json:"dim"`
	Rows [][]int `json:"rows"`
}

type ev struct {
	Op    string  `json:"op"`
	Syms  []sym   `json:"syms"`
	Cols  int     `json:"cols"`
	Quiet int     `json:"quiet"`
	Gap   int     `json:"gap"`
	Scale int     `json:"scale"`
	Rots  []int   `json:"rots"`
	Th    int     `json:"th"`
	Texts [][]int `json:"texts"`
	Seqs  []int   `json:"seqs"` // STRUCTURED_APPEND_SEQUENCE metadata of each result, -1 when absent
	Err   int     `json:"err"`
	Kind  string  `json:"kind"`
	Panic int     `json:"panic"`
	Msg   string  `json:"msg"`
	W     int     `json:"w"`
	H     int     `json:"h"`
}

func main() {
	hlib.Main(func(raw []byte) (interface{}, error) {
		var e ev
		if err := json.Unmarshal(raw, &e); err != nil {
			return nil, err
		}
		e.Texts, e.Seqs = [][]int{}, []int{}
		p := hlib.Guard(func() {
			maxd := 0
			for _, s := range e.Syms {
				if s.Dim > maxd {
					maxd = s.Dim
				}
			}
			cell := maxd + 2*e.Quiet
			cols := e.Cols
			if cols < 1 {
				cols = 1
			}
			lines := (len(e.Syms) + cols - 1) / cols
			e.W = (cols*cell + (cols-1)*e.Gap) * e.Scale
			e.H = (lines*cell + (lines-1)*e.Gap) * e.Scale
			img := image.NewGray(image.Rect(0, 0, e.W, e.H))
			for i := range img.Pix {
				img.Pix[i] = 255
			}
			for i, s := range e.Syms {
				ox := ((i%cols)*(cell+e.Gap) + e.Quiet) * e.Scale
				oy := ((i/cols)*(cell+e.Gap) + e.Quiet) * e.Scale
				for y := 0; y < s.Dim; y++ {
					for x, b := range hlib.Unchunk(s.Rows[y], s.Dim) {
						if !b {
							continue
						}
						xx, yy := x, y
						for k := 0; k < e.Rots[i]%4; k++ {
							xx, yy = s.Dim-1-yy, xx
						}
						for dy := 0; dy < e.Scale; dy++ {
							for dx := 0; dx < e.Scale; dx++ {
								img.SetGray(ox+xx*e.Scale+dx, oy+yy*e.Scale+dy, color.Gray{Y: 0})
							}
						}
					}
				}
			}
			bmp, err := gozxing.NewBinaryBitmapFromImage(img)
			if err != nil {
				e.Err, e.Kind = 1, "bitmap"
				return
			}
			var h map[gozxing.DecodeHintType]interface{}
			if e.Th == 1 {
				h = map[gozxing.DecodeHintType]interface{}{gozxing.DecodeHintType_TRY_HARDER: true}
			}
			res, err := mqr.NewQRCodeMultiReader().DecodeMultiple(bmp, h)
			if err != nil {
				e.Err, e.Msg = 1, err.Error()
				switch err.(type) {
				case gozxing.NotFoundException:
					e.Kind = "notfound"
				case gozxing.ChecksumException:
					e.Kind = "checksum"
				case gozxing.FormatException:
					e.Kind = "format"
				default:
					e.Kind = "other"
				}
				if len(e.Msg) > 100 {
					e.Msg = e.Msg[:100]
				}
			}
			for _, r := range res {
				e.Texts = append(e.Texts, hlib.BytesToInts(r.GetText()))
				seq := -1
				if v, ok := r.GetResultMetadata()[gozxing.ResultMetadataType_STRUCTURED_APPEND_SEQUENCE].(int); ok {
					seq = v
				}
				e.Seqs = append(e.Seqs, seq)
			}
		})
		if p != "" {
			e.Panic, e.Msg = 1, p
		}
		return e, nil
	})
}
