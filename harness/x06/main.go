// vdrive x06
package main

// X06 driver: runs the real common/detector.WhiteRectangleDetector on a small bilevel image given as its black pixels and
// records the constructor's verdict, the rectangle the hook wrd.rect reports at the end of the expansion loop, and Detect's
// answer.  Nothing is decided here; TLC judges the events (Trace_WhiteRect).

import (
	"encoding/json"
	"math"

	"github.com/makiuchi-d/gozxing"
	"github.com/makiuchi-d/gozxing/common/detector"
	"github.com/makiuchi-d/gozxing/verifhook"
	"verifharness/hlib"
)

type ev struct {
	Op    string  `json:"op"`
	W     int     `json:"w"`
	H     int     `json:"h"`
	Px    [][]int `json:"px"`
	Size  int     `json:"size"`
	Cx    int     `json:"cx"`
	Cy    int     `json:"cy"`
	Cerr  int     `json:"cerr"`
	Rect  []int   `json:"rect"`
	Err   int     `json:"err"`
	Pts   [][]int `json:"pts"`
	Exact int     `json:"exact"`
	Panic int     `json:"panic"`
	Msg   string  `json:"msg,omitempty"`
}

func main() {
	var rect []int
	verifhook.Access = func(loc string, obj interface{}, write bool) {
		if loc != "wrd.rect" {
			return
		}
		a := obj.([5]interface{})
		rect = []int{a[0].(int), a[1].(int), a[2].(int), a[3].(int), hlib.B2I(a[4].(bool))}
	}
	hlib.Main(func(raw []byte) (interface{}, error) {
		var e ev
		if err := json.Unmarshal(raw, &e); err != nil {
			return nil, err
		}
		if e.Px == nil {
			e.Px = [][]int{}
		}
		e.Rect, e.Pts, e.Exact = []int{}, [][]int{}, 1
		rect = nil
		msg := hlib.Guard(func() {
			img, err := gozxing.NewBitMatrix(e.W, e.H)
			if err != nil {
				panic(err)
			}
			for _, p := range e.Px {
				img.Set(p[0], p[1])
			}
			d, err := detector.NewWhiteRectangleDetector(img, e.Size, e.Cx, e.Cy)
			if err != nil {
				e.Cerr = 1
				return
			}
			pts, err := d.Detect()
			if rect != nil {
				e.Rect = rect
			}
			if err != nil {
				e.Err = 1
				return
			}
			for _, p := range pts {
				x, y := p.GetX(), p.GetY()
				if x != math.Trunc(x) || y != math.Trunc(y) || math.Abs(x) > 1e6 || math.Abs(y) > 1e6 {
					e.Exact, x, y = 0, 0, 0
				}
				e.Pts = append(e.Pts, []int{int(x), int(y)})
			}
		})
		if msg != "" {
			e.Panic, e.Msg = 1, msg
		}
		return e, nil
	})
}
