// vdrive c17
package main

// C17 driver: executes histories of luminance-view operations (new / crop / invert / rotate / getrow / matrix) and
// binarisation calls (BinaryBitmap GetBlackRow / GetBlackMatrix / Crop / RotateCounterClockwise) on the real gozxing
// code and records what came back: dimensions, pixel rows (selected rows in full + a position-weighted checksum of
// every row), bit rows as 16-bit chunks, error class, panic.  It decides nothing - TLC (Trace_Lum) judges the events.

import (
	"encoding/json"
	"fmt"
	"image"
	"image/color"
	"strings"

	"github.com/makiuchi-d/gozxing"
	"github.com/makiuchi-d/gozxing/datamatrix"
	"github.com/makiuchi-d/gozxing/oned"
	"github.com/makiuchi-d/gozxing/qrcode"
	"verifharness/hlib"
)

type lumEv struct {
	Op    string  `json:"op"`
	Kind  string  `json:"kind"` // new: rgb | yuv | sym | <go image type>
	Bin   int     `json:"bin"`  // 0 GlobalHistogramBinarizer, 1 HybridBinarizer
	Pre   int     `json:"pre"`  // brot / bcrop: request the parent bitmap's matrix before making the child, and log it again afterwards
	Pw    int     `json:"pw"`   // parent bitmap afterwards: dimensions, matrix dimensions, matrix, error class
	Ph    int     `json:"ph"`
	Pmw   int     `json:"pmw"`
	Pmh   int     `json:"pmh"`
	Pst   [][]int `json:"pst"`
	Perr  int     `json:"perr"`
	Adopt int     `json:"adopt"` // crop: make the result the current view (when the call succeeded)
	A     []int   `json:"a"`
	Ys    []int   `json:"ys"`   // rows to record in full (-1 anywhere: all rows)
	Base  [][]int `json:"base"` // new: grey values of the underlying image (sym: filled in by the driver)
	Fmt   string  `json:"fmt"`  // sym: barcode format
	Txt   []int   `json:"txt"`  // sym: contents (bytes)
	Bw    int     `json:"bw"`
	Bh    int     `json:"bh"`
	// observations
	W       int     `json:"w"`
	H       int     `json:"h"`
	Yl      []int   `json:"yl"` // rows recorded in px
	Px      [][]int `json:"px"`
	Ck      []int   `json:"ck"`   // per row: sum of value*(x+1)
	RRow    []int   `json:"rrow"` // crop with a 5th argument y: row y of the result, fetched with GetRow
	RErr    int     `json:"rerr"`
	N       int     `json:"n"`  // brow: size of the returned BitArray
	Mw      int     `json:"mw"` // black matrix dimensions
	Mh      int     `json:"mh"`
	St      [][]int `json:"st"`  // black rows, 16-bit chunks
	St2     [][]int `json:"st2"` // bmatrix: second call (cache)
	Err     int     `json:"err"` // 0 ok, 1 NotFoundException, 2 other error
	Err2    int     `json:"err2"`
	Panic   int     `json:"panic"`
	RotSup  int     `json:"rotsup"`
	CropSup int     `json:"cropsup"`
	Msg     string  `json:"msg"`
}

func errClass(err error) int {
	if err == nil {
		return 0
	}
	if _, ok := err.(gozxing.NotFoundException); ok {
		return 1
	}
	return 2
}

// an image type that offers nothing but image.Image (generic conversion path)
type plainImage struct{ g *image.Gray }

func (p plainImage) ColorModel() color.Model { return color.RGBAModel }
func (p plainImage) Bounds() image.Rectangle { return p.g.Bounds() }
func (p plainImage) At(x, y int) color.Color {
	v := p.g.GrayAt(x, y).Y
	return color.NRGBA{v, v, v, 255}
}

// grayImage builds the picture as the named image type.  Kind "<type>+sub": the picture is a SubImage of a larger parent (origin
// not at the parent's, stride wider than the picture), as a caller gets who crops with the image package before handing it over.
func grayImage(kind string, base [][]int, ox, oy int) (image.Image, error) {
	bh := len(base)
	bw := len(base[0])
	view := image.Rect(ox, oy, ox+bw, oy+bh)
	r := view
	sub := strings.HasSuffix(kind, "+sub")
	if sub {
		kind = strings.TrimSuffix(kind, "+sub")
		r = image.Rect(ox-3, oy-2, ox+bw+5, oy+bh+4)
	}
	im, err := grayImageIn(kind, base, ox, oy, r)
	if err != nil || !sub {
		return im, err
	}
	if s, ok := im.(interface {
		SubImage(image.Rectangle) image.Image
	}); ok {
		return s.SubImage(view), nil
	}
	return nil, fmt.Errorf("image kind %q has no SubImage", kind)
}

func grayImageIn(kind string, base [][]int, ox, oy int, r image.Rectangle) (image.Image, error) {
	bh := len(base)
	bw := len(base[0])
	at := func(x, y int) uint8 { return uint8(base[y][x]) }
	switch kind {
	case "gray", "plain":
		im := image.NewGray(r)
		for y := 0; y < bh; y++ {
			for x := 0; x < bw; x++ {
				im.SetGray(ox+x, oy+y, color.Gray{at(x, y)})
			}
		}
		if kind == "plain" {
			return plainImage{im}, nil
		}
		return im, nil
	case "gray16":
		im := image.NewGray16(r)
		for y := 0; y < bh; y++ {
			for x := 0; x < bw; x++ {
				im.SetGray16(ox+x, oy+y, color.Gray16{uint16(at(x, y)) * 257})
			}
		}
		return im, nil
	case "rgba":
		im := image.NewRGBA(r)
		for y := 0; y < bh; y++ {
			for x := 0; x < bw; x++ {
				v := at(x, y)
				im.SetRGBA(ox+x, oy+y, color.RGBA{v, v, v, 255})
			}
		}
		return im, nil
	case "nrgba":
		im := image.NewNRGBA(r)
		for y := 0; y < bh; y++ {
			for x := 0; x < bw; x++ {
				v := at(x, y)
				im.SetNRGBA(ox+x, oy+y, color.NRGBA{v, v, v, 255})
			}
		}
		return im, nil
	case "rgba64":
		im := image.NewRGBA64(r)
		for y := 0; y < bh; y++ {
			for x := 0; x < bw; x++ {
				v := uint16(at(x, y)) * 257
				im.SetRGBA64(ox+x, oy+y, color.RGBA64{v, v, v, 0xffff})
			}
		}
		return im, nil
	case "nrgba64":
		im := image.NewNRGBA64(r)
		for y := 0; y < bh; y++ {
			for x := 0; x < bw; x++ {
				v := uint16(at(x, y)) * 257
				im.SetNRGBA64(ox+x, oy+y, color.NRGBA64{v, v, v, 0xffff})
			}
		}
		return im, nil
	case "cmyk":
		im := image.NewCMYK(r)
		for y := 0; y < bh; y++ {
			for x := 0; x < bw; x++ {
				im.SetCMYK(ox+x, oy+y, color.CMYK{0, 0, 0, 255 - at(x, y)})
			}
		}
		return im, nil
	case "pal":
		pal := make(color.Palette, 256)
		for i := range pal {
			pal[i] = color.Gray{uint8(i)}
		}
		im := image.NewPaletted(r, pal)
		for y := 0; y < bh; y++ {
			for x := 0; x < bw; x++ {
				im.SetColorIndex(ox+x, oy+y, at(x, y))
			}
		}
		return im, nil
	case "ycbcr":
		im := image.NewYCbCr(r, image.YCbCrSubsampleRatio444)
		for i := range im.Cb {
			im.Cb[i], im.Cr[i] = 128, 128
		}
		for y := 0; y < bh; y++ {
			for x := 0; x < bw; x++ {
				im.Y[im.YOffset(ox+x, oy+y)] = at(x, y)
			}
		}
		return im, nil
	}
	return nil, fmt.Errorf("unknown image kind %q", kind)
}

var formats = map[string]gozxing.BarcodeFormat{
	"QR_CODE": gozxing.BarcodeFormat_QR_CODE, "DATA_MATRIX": gozxing.BarcodeFormat_DATA_MATRIX,
	"EAN_8": gozxing.BarcodeFormat_EAN_8, "EAN_13": gozxing.BarcodeFormat_EAN_13, "UPC_A": gozxing.BarcodeFormat_UPC_A,
	"UPC_E": gozxing.BarcodeFormat_UPC_E, "CODE_39": gozxing.BarcodeFormat_CODE_39, "CODE_93": gozxing.BarcodeFormat_CODE_93,
	"CODE_128": gozxing.BarcodeFormat_CODE_128, "ITF": gozxing.BarcodeFormat_ITF, "CODABAR": gozxing.BarcodeFormat_CODABAR,
}

func writerFor(f string) gozxing.Writer {
	switch f {
	case "QR_CODE":
		return qrcode.NewQRCodeWriter()
	case "DATA_MATRIX":
		return datamatrix.NewDataMatrixWriter()
	case "EAN_8":
		return oned.NewEAN8Writer()
	case "EAN_13":
		return oned.NewEAN13Writer()
	case "UPC_A":
		return oned.NewUPCAWriter()
	case "UPC_E":
		return oned.NewUPCEWriter()
	case "CODE_39":
		return oned.NewCode39Writer()
	case "CODE_93":
		return oned.NewCode93Writer()
	case "CODE_128":
		return oned.NewCode128Writer()
	case "ITF":
		return oned.NewITFWriter()
	case "CODABAR":
		return oned.NewCodaBarWriter()
	}
	return nil
}

// logMatrix records GetMatrix of src: dimensions, the rows listed in ys in full, a checksum per row.
func logMatrix(e *lumEv, src gozxing.LuminanceSource) {
	w, h := src.GetWidth(), src.GetHeight()
	e.W, e.H = w, h
	m := src.GetMatrix()
	all := false
	for _, y := range e.Ys {
		if y == -1 {
			all = true
		}
	}
	rowOf := func(y int) []int {
		r := make([]int, 0, w)
		for x := 0; x < w && y*w+x < len(m); x++ {
			r = append(r, int(m[y*w+x]))
		}
		return r
	}
	e.Yl, e.Px, e.Ck = []int{}, [][]int{}, []int{}
	for y := 0; y < h; y++ {
		s := 0
		for x := 0; x < w && y*w+x < len(m); x++ {
			s += int(m[y*w+x]) * (x + 1)
		}
		e.Ck = append(e.Ck, s)
	}
	if all {
		for y := 0; y < h; y++ {
			e.Yl = append(e.Yl, y)
			e.Px = append(e.Px, rowOf(y))
		}
	} else {
		for _, y := range e.Ys {
			if y >= 0 && y < h {
				e.Yl = append(e.Yl, y)
				e.Px = append(e.Px, rowOf(y))
			}
		}
	}
}

func logBits(m *gozxing.BitMatrix) (int, int, [][]int) {
	w, h := m.GetWidth(), m.GetHeight()
	st := make([][]int, h)
	for y := 0; y < h; y++ {
		yy := y
		st[y] = hlib.ChunkBits(w, func(i int) bool { return m.Get(i, yy) })
	}
	return w, h, st
}

func binarizer(bin int, src gozxing.LuminanceSource) gozxing.Binarizer {
	if bin == 1 {
		return gozxing.NewHybridBinarizer(src)
	}
	return gozxing.NewGlobalHistgramBinarizer(src)
}

func main() {
	var cur gozxing.LuminanceSource = gozxing.NewRGBLuminanceSource(1, 1, []int{0})
	hlib.Main(func(raw []byte) (interface{}, error) {
		var e lumEv
		if err := json.Unmarshal(raw, &e); err != nil {
			return nil, err
		}
		e.Yl, e.Px, e.Ck, e.St, e.St2, e.RRow = []int{}, [][]int{}, []int{}, [][]int{}, [][]int{}, []int{}
		e.Pst = [][]int{}
		if e.A == nil {
			e.A = []int{}
		}
		if e.Ys == nil {
			e.Ys = []int{}
		}
		if e.Base == nil {
			e.Base = [][]int{}
		}
		if e.Txt == nil {
			e.Txt = []int{}
		}
		a := e.A
		var bad error
		// capabilities of the view the operation is applied to
		if p0 := hlib.Guard(func() {
			e.RotSup, e.CropSup = hlib.B2I(cur.IsRotateSupported()), hlib.B2I(cur.IsCropSupported())
		}); p0 != "" {
			e.Panic, e.Msg = 1, p0
		}
		p := hlib.Guard(func() {
			switch e.Op {
			case "new":
				// a = [left, top, width, height, reverseHorizontal, ox, oy]
				var src gozxing.LuminanceSource
				switch e.Kind {
				case "rgb":
					pix := make([]int, 0, e.Bw*e.Bh)
					for y := 0; y < e.Bh; y++ {
						for x := 0; x < e.Bw; x++ {
							v := e.Base[y][x]
							pix = append(pix, 0xff<<24|v<<16|v<<8|v)
						}
					}
					src = gozxing.NewRGBLuminanceSource(e.Bw, e.Bh, pix)
				case "yuv":
					data := make([]byte, 0, e.Bw*e.Bh*3/2+2)
					for y := 0; y < e.Bh; y++ {
						for x := 0; x < e.Bw; x++ {
							data = append(data, byte(e.Base[y][x]))
						}
					}
					for i := e.Bw * e.Bh / 2; i > 0; i-- { // chroma planes: never luminance
						data = append(data, 77)
					}
					s, err := gozxing.NewPlanarYUVLuminanceSource(data, e.Bw, e.Bh, a[0], a[1], a[2], a[3], a[4] == 1)
					e.Err = errClass(err)
					src = s
				case "sym":
					wr := writerFor(e.Fmt)
					if wr == nil {
						bad = fmt.Errorf("unknown format %q", e.Fmt)
						return
					}
					m, err := wr.EncodeWithoutHint(string(hlib.IntsToBytes(e.Txt)), formats[e.Fmt], a[2], a[3])
					if err != nil {
						bad = fmt.Errorf("cannot render %s: %v", e.Fmt, err)
						return
					}
					e.Bw, e.Bh = m.GetWidth(), m.GetHeight()
					e.A = []int{0, 0, e.Bw, e.Bh, 0, 0, 0}
					e.Base = make([][]int, e.Bh)
					for y := range e.Base {
						e.Base[y] = make([]int, e.Bw)
						for x := range e.Base[y] {
							if !m.Get(x, y) {
								e.Base[y][x] = 255
							}
						}
					}
					src = gozxing.NewLuminanceSourceFromImage(m)
				default:
					img, err := grayImage(e.Kind, e.Base, a[5], a[6])
					if err != nil {
						bad = err
						return
					}
					src = gozxing.NewLuminanceSourceFromImage(img)
				}
				if e.Err == 0 {
					cur = src
					logMatrix(&e, cur)
				}
			case "matrix":
				logMatrix(&e, cur)
			case "getrow":
				// a = [y, length of the preallocated buffer or -1]
				var buf []byte
				if a[1] >= 0 {
					buf = make([]byte, a[1])
					for i := range buf {
						buf[i] = 0xAA
					}
				}
				e.W, e.H = cur.GetWidth(), cur.GetHeight()
				row, err := cur.GetRow(a[0], buf)
				e.Err = errClass(err)
				if err == nil {
					r := make([]int, 0, e.W)
					for x := 0; x < e.W && x < len(row); x++ {
						r = append(r, int(row[x]))
					}
					e.Yl, e.Px = []int{a[0]}, [][]int{r}
				}
			case "crop":
				c, err := cur.Crop(a[0], a[1], a[2], a[3])
				e.Err = errClass(err)
				if err == nil {
					if e.Adopt == 1 {
						cur = c
					}
					logMatrix(&e, c)
					if len(a) > 4 {
						row, err := c.GetRow(a[4], nil)
						e.RErr = errClass(err)
						for x := 0; err == nil && x < c.GetWidth() && x < len(row); x++ {
							e.RRow = append(e.RRow, int(row[x]))
						}
					}
				}
			case "invert":
				cur = cur.Invert()
				logMatrix(&e, cur)
			case "rotate":
				c, err := cur.RotateCounterClockwise()
				e.Err = errClass(err)
				if err == nil {
					cur = c
					logMatrix(&e, cur)
				}
			case "brow":
				// a = [y, size of a preallocated all-ones BitArray or -1]
				bb, _ := gozxing.NewBinaryBitmap(binarizer(e.Bin, cur))
				var pre *gozxing.BitArray
				if a[1] >= 0 {
					pre = gozxing.NewBitArray(a[1])
					pre.SetRange(0, a[1])
				}
				e.W, e.H = bb.GetWidth(), bb.GetHeight()
				row, err := bb.GetBlackRow(a[0], pre)
				e.Err = errClass(err)
				if err == nil {
					e.N = row.GetSize()
					n := e.N
					if n > e.W {
						n = e.W
					}
					e.St = [][]int{hlib.ChunkBits(n, row.Get)}
				}
			case "bmatrix", "bcrop", "brot":
				bb, _ := gozxing.NewBinaryBitmap(binarizer(e.Bin, cur))
				var err error
				if e.Pre == 1 && e.Op != "bmatrix" {
					parent := bb
					parent.GetBlackMatrix()
					defer func() { // the parent must be what it was, whatever was done with the child
						e.Pw, e.Ph = parent.GetWidth(), parent.GetHeight()
						pm, perr := parent.GetBlackMatrix()
						e.Perr = errClass(perr)
						if perr == nil {
							e.Pmw, e.Pmh, e.Pst = logBits(pm)
						}
					}()
				}
				if e.Op == "bcrop" {
					bb, err = bb.Crop(a[0], a[1], a[2], a[3])
				} else if e.Op == "brot" {
					bb, err = bb.RotateCounterClockwise()
				}
				e.Err = errClass(err)
				if err != nil {
					return
				}
				e.W, e.H = bb.GetWidth(), bb.GetHeight()
				m, err := bb.GetBlackMatrix()
				e.Err2 = errClass(err)
				if err == nil {
					e.Mw, e.Mh, e.St = logBits(m)
				}
				if e.Op == "bmatrix" { // the matrix is cached: a second request must give the same answer
					m2, err2 := bb.GetBlackMatrix()
					if errClass(err2) != e.Err2 {
						e.Err2 = 10 + errClass(err2)
					}
					if err2 == nil {
						_, _, e.St2 = logBits(m2)
					}
				}
			default:
				bad = fmt.Errorf("unknown op %q", e.Op)
			}
		})
		if bad != nil {
			return nil, bad
		}
		if p != "" {
			e.Panic, e.Msg = 1, p
		}
		return e, nil
	})
}
