// vdrive c09
package main

// C09 driver: write -> pose -> read through the normal locating path.
//   pose  : content c is written by the real writer of `sym` (QR, DM or one of the nine 1-D symbologies) at its natural size
//           (1-D: requested height h); the written image is posed - mirrored (transposed), upscaled by `scale`, padded by
//           (QR: optional MARGIN hint mg) `pad` white pixels per side, turned clockwise by `rot` degrees (the exact pixel map of spec/Pose.tla) - and read by
//           gozxing.NewBinaryBitmapFromImage(img) -> Reader.Decode(nil or TRY_HARDER), no PURE_BARCODE.  Recorded: the
//           written row as pixel runs (1-D), the dimensions, text, error kind, ORIENTATION metadata; for QR additionally
//           the mirrored flag of DecoderResult.GetOther() on the detector -> decoder path.
//   qrmat : the QR module matrix of c (Encoder_encode), transposed when mir = 1, is decoded by Decoder.Decode:
//           text, error kind, mirrored flag; both matrices are recorded (16-bit chunks).
//   xform : a given small matrix is posed; the resulting image is recorded (binds the driver's pixel transform to Pose.tla).
// The driver decides nothing; TLC judges the recorded events (spec/Trace_Pose.tla).

import (
	"encoding/json"
	"image"

	"github.com/makiuchi-d/gozxing"
	"github.com/makiuchi-d/gozxing/datamatrix"
	"github.com/makiuchi-d/gozxing/oned"
	"github.com/makiuchi-d/gozxing/qrcode"
	qrdec "github.com/makiuchi-d/gozxing/qrcode/decoder"
	qrdet "github.com/makiuchi-d/gozxing/qrcode/detector"
	qrenc "github.com/makiuchi-d/gozxing/qrcode/encoder"
	"verifharness/c10/odr"
	"verifharness/hlib"
)

type ev struct {
	Op    string  `json:"op"`
	Sym   string  `json:"sym"`
	C     []int   `json:"c"`
	Ec    int     `json:"ec"` // QR level 1=L 2=M 3=Q 4=H
	Rd    string  `json:"rd"` // own | multi
	Th    int     `json:"th"` // TRY_HARDER
	Se    int     `json:"se"` // Codabar: pass RETURN_CODABAR_START_END (the answer keeps the guard characters)
	Cb    int     `json:"cb"` // pass NEED_RESULT_POINT_CALLBACK (no effect on the answer; the 1-D retry logic copies the hints when it is set)
	Al    int     `json:"al"` // ITF: pass ALLOWED_LENGTHS = [length of the content] (a hint the row decoder itself consumes)
	H     int     `json:"h"`  // requested height of a 1-D rendering
	Mh    int     `json:"mh"` // qrmat: forced mask pattern + 1 (0: the encoder chooses)
	Mg    int     `json:"mg"` // QR: MARGIN hint (quiet zone in modules), -1 = the writer's default
	Pad   int     `json:"pad"`
	Scale int     `json:"scale"`
	Rot   int     `json:"rot"`
	Mir   int     `json:"mir"`
	B     [][]int `json:"b"` // xform: input rows (chunks); qrmat: the module matrix
	Bw    int     `json:"bw"`
	Bh    int     `json:"bh"`
	// observations
	Werr   int     `json:"werr"`
	W0     int     `json:"w0"`
	H0     int     `json:"h0"`
	Lead   int     `json:"lead"`
	Runs   []int   `json:"runs"`
	Trail  int     `json:"trail"`
	Same   int     `json:"same"`
	W      int     `json:"w"`
	Hh     int     `json:"hh"`
	Out    [][]int `json:"out"` // xform: posed image; qrmat: the matrix handed to the decoder
	Text   []int   `json:"text"`
	Err    int     `json:"err"`
	Kind   string  `json:"kind"`
	Orient int     `json:"orient"` // -1: no ORIENTATION metadata
	Fmt    string  `json:"fmt"`
	Mirf   int     `json:"mirf"`  // mirrored flag, -1: not available
	Dtext  []int   `json:"dtext"` // detector -> decoder path
	Dkind  string  `json:"dkind"`
	Derr   int     `json:"derr"`
	Panic  int     `json:"panic"`
	Msg    string  `json:"msg,omitempty"`
}

var levels = []qrdec.ErrorCorrectionLevel{qrdec.ErrorCorrectionLevel_L, qrdec.ErrorCorrectionLevel_L, qrdec.ErrorCorrectionLevel_M, qrdec.ErrorCorrectionLevel_Q, qrdec.ErrorCorrectionLevel_H}

func kind(err error) string {
	if err == nil {
		return ""
	}
	switch err.(type) {
	case gozxing.NotFoundException:
		return "notfound"
	case gozxing.ChecksumException:
		return "checksum"
	case gozxing.FormatException:
		return "format"
	}
	return "other"
}

// grid is a plain 0/1 picture (1 = black); get is total: outside = white.
type grid struct {
	w, h int
	px   []uint8
}

func newGrid(w, h int) *grid { return &grid{w, h, make([]uint8, w*h)} }
func (g *grid) at(x, y int) uint8 {
	if x < 0 || y < 0 || x >= g.w || y >= g.h {
		return 0
	}
	return g.px[y*g.w+x]
}

func fromMatrix(m *gozxing.BitMatrix) *grid {
	g := newGrid(m.GetWidth(), m.GetHeight())
	for y := 0; y < g.h; y++ {
		for x := 0; x < g.w; x++ {
			if m.Get(x, y) {
				g.px[y*g.w+x] = 1
			}
		}
	}
	return g
}

func fromChunks(rows [][]int, w, h int) *grid {
	g := newGrid(w, h)
	for y := 0; y < h && y < len(rows); y++ {
		for x, b := range hlib.Unchunk(rows[y], w) {
			if b {
				g.px[y*w+x] = 1
			}
		}
	}
	return g
}

func (g *grid) chunks() [][]int {
	rows := make([][]int, g.h)
	for y := range rows {
		yy := y
		rows[y] = hlib.ChunkBits(g.w, func(i int) bool { return g.px[yy*g.w+i] == 1 })
	}
	return rows
}

func (g *grid) transpose() *grid {
	o := newGrid(g.h, g.w)
	for y := 0; y < o.h; y++ {
		for x := 0; x < o.w; x++ {
			o.px[y*o.w+x] = g.px[x*g.w+y]
		}
	}
	return o
}

// pose: transpose (mir), upscale, pad, turn clockwise by rot.
func (g *grid) pose(pad, scale, rot, mir int) *grid {
	b := g
	if mir == 1 {
		b = g.transpose()
	}
	W, H := b.w*scale+2*pad, b.h*scale+2*pad
	p := newGrid(W, H)
	for y := 0; y < H; y++ {
		for x := 0; x < W; x++ {
			xs, ys := x-pad, y-pad
			if xs >= 0 && ys >= 0 && xs < b.w*scale && ys < b.h*scale {
				p.px[y*W+x] = b.px[(ys/scale)*b.w+xs/scale]
			}
		}
	}
	switch rot {
	case 90:
		o := newGrid(H, W)
		for y := 0; y < o.h; y++ {
			for x := 0; x < o.w; x++ {
				o.px[y*o.w+x] = p.px[(H-1-x)*W+y]
			}
		}
		return o
	case 180:
		o := newGrid(W, H)
		for y := 0; y < H; y++ {
			for x := 0; x < W; x++ {
				o.px[y*W+x] = p.px[(H-1-y)*W+(W-1-x)]
			}
		}
		return o
	case 270:
		o := newGrid(H, W)
		for y := 0; y < o.h; y++ {
			for x := 0; x < o.w; x++ {
				o.px[y*o.w+x] = p.px[x*W+(W-1-y)]
			}
		}
		return o
	}
	return p
}

func (g *grid) image() *image.Gray {
	img := image.NewGray(image.Rect(0, 0, g.w, g.h))
	for i, v := range g.px {
		if v == 0 {
			img.Pix[i] = 255
		}
	}
	return img
}

func (g *grid) matrix() *gozxing.BitMatrix {
	m, _ := gozxing.NewBitMatrix(g.w, g.h)
	for y := 0; y < g.h; y++ {
		for x := 0; x < g.w; x++ {
			if g.px[y*g.w+x] == 1 {
				m.Set(x, y)
			}
		}
	}
	return m
}

func write(e *ev) (*gozxing.BitMatrix, error) {
	content := string(hlib.IntsToBytes(e.C))
	switch e.Sym {
	case "QR":
		hs := map[gozxing.EncodeHintType]interface{}{}
		if e.Ec >= 1 && e.Ec <= 4 {
			hs[gozxing.EncodeHintType_ERROR_CORRECTION] = levels[e.Ec]
		}
		if e.Mg >= 0 {
			hs[gozxing.EncodeHintType_MARGIN] = e.Mg
		}
		return qrcode.NewQRCodeWriter().Encode(content, gozxing.BarcodeFormat_QR_CODE, 0, 0, hs)
	case "DM":
		return datamatrix.NewDataMatrixWriter().Encode(content, gozxing.BarcodeFormat_DATA_MATRIX, 0, 0, nil)
	}
	h := e.H
	if h < 0 { // bars (-h / 2) times as tall as the symbol is wide: a sideways image much wider than high
		m, err := odr.Writer(e.Sym).Encode(content, odr.Format(e.Sym), 0, 1, nil)
		if err != nil {
			return nil, err
		}
		h = -h * m.GetWidth() / 2
	}
	return odr.Writer(e.Sym).Encode(content, odr.Format(e.Sym), 0, h, nil)
}

func reader(e *ev) gozxing.Reader {
	switch e.Sym {
	case "QR":
		return qrcode.NewQRCodeReader()
	case "DM":
		return datamatrix.NewDataMatrixReader()
	}
	if e.Rd == "multi" {
		return oned.NewMultiFormatUPCEANReader(nil)
	}
	if e.Rd == "ext" {
		return oned.NewCode39ReaderWithFlags(false, true)
	}
	return odr.Reader(e.Sym)
}

func hints(e *ev) map[gozxing.DecodeHintType]interface{} {
	var h map[gozxing.DecodeHintType]interface{}
	if e.Th == 1 {
		h = map[gozxing.DecodeHintType]interface{}{gozxing.DecodeHintType_TRY_HARDER: true}
	}
	if e.Al == 1 && e.Sym == "ITF" {
		if h == nil {
			h = map[gozxing.DecodeHintType]interface{}{}
		}
		h[gozxing.DecodeHintType_ALLOWED_LENGTHS] = []int{len(e.C)}
	}
	if e.Se == 1 {
		if h == nil {
			h = map[gozxing.DecodeHintType]interface{}{}
		}
		h[gozxing.DecodeHintType_RETURN_CODABAR_START_END] = true
	}
	if e.Cb == 1 {
		if h == nil {
			h = map[gozxing.DecodeHintType]interface{}{}
		}
		h[gozxing.DecodeHintType_NEED_RESULT_POINT_CALLBACK] = gozxing.ResultPointCallback(func(gozxing.ResultPoint) {})
	}
	return h
}

func mirrored(res interface{ GetOther() interface{} }) int {
	if md, ok := res.GetOther().(*qrdec.QRCodeDecoderMetaData); ok && md != nil {
		return hlib.B2I(md.IsMirrored())
	}
	return 0
}

func main() {
	hlib.Main(func(raw []byte) (interface{}, error) {
		var e ev
		if err := json.Unmarshal(raw, &e); err != nil {
			return nil, err
		}
		e.C, e.Runs, e.Text, e.Dtext = hlib.NZ(e.C), []int{}, []int{}, []int{}
		if e.B == nil {
			e.B = [][]int{}
		}
		e.Out = [][]int{}
		e.Orient, e.Mirf = -1, -1
		if e.Scale < 1 {
			e.Scale = 1
		}
		p := hlib.Guard(func() {
			switch e.Op {
			case "xform":
				o := fromChunks(e.B, e.Bw, e.Bh).pose(e.Pad, e.Scale, e.Rot, e.Mir)
				e.W, e.Hh, e.Out = o.w, o.h, o.chunks()
			case "qrmat":
				var eh map[gozxing.EncodeHintType]interface{}
				if e.Mh > 0 { // mh = forced mask pattern + 1 (0: the encoder chooses)
					eh = map[gozxing.EncodeHintType]interface{}{gozxing.EncodeHintType_QR_MASK_PATTERN: e.Mh - 1}
				}
				code, err := qrenc.Encoder_encode(string(hlib.IntsToBytes(e.C)), levels[e.Ec], eh)
				if err != nil {
					e.Werr = 1
					return
				}
				bm := code.GetMatrix()
				g := newGrid(bm.GetWidth(), bm.GetHeight())
				for y := 0; y < g.h; y++ {
					for x := 0; x < g.w; x++ {
						if bm.Get(x, y) == 1 {
							g.px[y*g.w+x] = 1
						}
					}
				}
				e.W0, e.H0, e.B, e.Bw, e.Bh = g.w, g.h, g.chunks(), g.w, g.h
				t := g
				if e.Mir == 1 {
					t = g.transpose()
				}
				e.W, e.Hh, e.Out = t.w, t.h, t.chunks()
				res, derr := qrdec.NewDecoder().Decode(t.matrix(), hints(&e))
				if derr != nil {
					e.Err, e.Kind = 1, kind(derr)
					return
				}
				e.Text, e.Mirf = hlib.BytesToInts(res.GetText()), mirrored(res)
			case "pose":
				m, err := write(&e)
				if err != nil {
					e.Werr = 1
					return
				}
				e.W0, e.H0 = m.GetWidth(), m.GetHeight()
				if e.Sym != "QR" && e.Sym != "DM" {
					e.Lead, e.Runs, e.Trail, e.Same = odr.MatrixRuns(m)
				}
				g := fromMatrix(m).pose(e.Pad, e.Scale, e.Rot, e.Mir)
				e.W, e.Hh = g.w, g.h
				img := g.image()
				decode(&e, img)
				if e.Panic == 1 {
					return
				}
				if e.Sym == "QR" && e.Panic == 0 {
					// the same path with the decoder result exposed: detector -> decoder
					bmp, _ := gozxing.NewBinaryBitmapFromImage(img)
					bm, err := bmp.GetBlackMatrix()
					if err != nil {
						e.Derr, e.Dkind = 1, kind(err)
						return
					}
					dr, err := qrdet.NewDetector(bm).Detect(hints(&e))
					if err != nil {
						e.Derr, e.Dkind = 1, kind(err)
						return
					}
					res, err := qrdec.NewDecoder().Decode(dr.GetBits(), hints(&e))
					if err != nil {
						e.Derr, e.Dkind = 1, kind(err)
						return
					}
					e.Dtext, e.Mirf = hlib.BytesToInts(res.GetText()), mirrored(res)
				}
			}
		})
		if p != "" {
			e.Panic, e.Msg = 1, p
		}
		return e, nil
	})
}

// decode reads img through the normal path and projects the result.
func decode(e *ev, img image.Image) {
	p := hlib.Guard(func() {
		bmp, err := gozxing.NewBinaryBitmapFromImage(img)
		if err != nil {
			e.Err, e.Kind = 1, "other"
			return
		}
		res, err := reader(e).Decode(bmp, hints(e))
		if err != nil {
			e.Err, e.Kind, e.Msg = 1, kind(err), err.Error()
			if len(e.Msg) > 80 {
				e.Msg = e.Msg[:80]
			}
			return
		}
		e.Text = hlib.BytesToInts(res.GetText())
		e.Fmt = res.GetBarcodeFormat().String()
		if v, ok := res.GetResultMetadata()[gozxing.ResultMetadataType_ORIENTATION]; ok {
			if iv, ok := v.(int); ok {
				e.Orient = iv
			} else {
				e.Orient = -2
			}
		}
	})
	if p != "" {
		e.Panic, e.Msg = 1, p
	}
}
