// Package hlib: shared plumbing of the vdrive programs (one program per property under /verif/harness/<id>/).
// The drivers execute inputs on the real gozxing code (built from /repo's working tree with -tags verif) and record
// observations as ndjson; they never decide a property - TLC judges the recorded events.
package hlib

import (
	"bufio"
	"encoding/json"
	"fmt"
	"os"
)

// Main dispatches `prog exec in.ndjson out.ndjson [extra...]` to f (one call per input line) and exits.
func Main(f func(raw []byte) (interface{}, error)) {
	if err := ExecLoop(os.Args[1:], f); err != nil {
		fmt.Fprintln(os.Stderr, "vdrive:", err)
		os.Exit(3)
	}
}

// ExecLoop reads ndjson inputs from args[1], calls f on each raw line, writes one ndjson observation each to args[2].
func ExecLoop(args []string, f func(raw []byte) (interface{}, error)) error {
	if len(args) < 3 || args[0] != "exec" {
		return fmt.Errorf("usage: exec <in.ndjson> <out.ndjson>")
	}
	in, err := os.Open(args[1])
	if err != nil {
		return err
	}
	defer in.Close()
	out, err := os.Create(args[2])
	if err != nil {
		return err
	}
	defer out.Close()
	w := bufio.NewWriterSize(out, 1<<20)
	defer w.Flush()
	enc := json.NewEncoder(w)
	sc := bufio.NewScanner(in)
	sc.Buffer(make([]byte, 1<<20), 1<<28)
	n := 0
	for sc.Scan() {
		n++
		line := sc.Bytes()
		if len(line) == 0 {
			continue
		}
		ev, err := f(line)
		if err != nil {
			return fmt.Errorf("input %d: %v", n, err)
		}
		if err := enc.Encode(ev); err != nil {
			return err
		}
	}
	return sc.Err()
}

// Guard runs f and reports a panic as a string (empty when none).
func Guard(f func()) (p string) {
	defer func() {
		if r := recover(); r != nil {
			p = fmt.Sprint(r)
			if len(p) > 200 {
				p = p[:200]
			}
		}
	}()
	f()
	return ""
}

// B2I converts a bool to 0/1 (TLC compares integers).
func B2I(b bool) int {
	if b {
		return 1
	}
	return 0
}

// NZ replaces a nil int slice by an empty one so that JSON has [] and not null.
func NZ(a []int) []int {
	if a == nil {
		return []int{}
	}
	return a
}

// ChunkBits packs n bits (get(i)) into 16-bit little-endian chunks: chunk c holds bits 16c..16c+15, bit i%16.
func ChunkBits(n int, get func(i int) bool) []int {
	out := make([]int, (n+15)/16)
	for i := 0; i < n; i++ {
		if get(i) {
			out[i/16] |= 1 << uint(i%16)
		}
	}
	return out
}

// Unchunk is the inverse of ChunkBits.
func Unchunk(cs []int, n int) []bool {
	out := make([]bool, n)
	for i := 0; i < n; i++ {
		out[i] = i/16 < len(cs) && (cs[i/16]>>uint(i%16))&1 == 1
	}
	return out
}

// BytesToInts turns a byte string into a JSON-friendly []int (TLA+ strings are atomic, so text travels as numbers).
func BytesToInts(s string) []int {
	out := make([]int, len(s))
	for i := 0; i < len(s); i++ {
		out[i] = int(s[i])
	}
	return out
}

// IntsToBytes is the inverse of BytesToInts.
func IntsToBytes(a []int) []byte {
	out := make([]byte, len(a))
	for i, v := range a {
		out[i] = byte(v)
	}
	return out
}
