// vdrive c06
package main

// C06 driver ("decoding is total"): every input event is ONE call (or one block of calls) of a real gozxing reader,
// decoder or bit-stream parser under recover() and a watchdog.  The driver records what came back:
//
//	res   1 iff the call returned a usable result value (non-nil pointer; for DecodeMultiple: nil error and no nil
//	      element; for HighLevelDecode / functions returning a plain value: nil error)
//	err   "" | "NotFound" | "Checksum" | "Format" | "Reader" (other ReaderException) | "Writer" | "Other" - the dynamic
//	      kind of the returned error
//	panic 1 iff the call panicked (msg = panic text), hang 1 iff it did not return within the watchdog time
//	r     per-call outcome codes of block events (see outcome())
//
// It decides nothing: spec/Trace_Totality.tla judges every recorded event.  Go-side work is input construction only:
// seeded pseudo-random images / matrices / rows, symbols written by the library's own writers with seeded pixel
// mutations, symbols carrying given data codewords (Reed-Solomon and module placement by the library's encoder
// parts), well-typed hint maps.
//
// ops (api names the function under observation; a, b, h are the numeric arguments):
//
//	qrp  b = codewords, a = [version, ecLevel 0..3]              -> qrcode/decoder.DecodedBitStreamParser_Decode
//	dmp  b = codewords                                            -> datamatrix/decoder.DecodedBitStreamParser_decode
//	azp  b = 16-bit chunks, a = [nbits]                           -> aztec/decoder.Decoder.HighLevelDecode
//	eci  a = [form, lo, n]: n consecutive ECI values through one of the designator forms (block event)
//	img  a = [kind, w, h, seed, p, binarizer]                     -> Reader.Decode on a synthetic image
//	sym  a = [fmt, cseed, scale, height, mutkind, nmut, mseed, rot, binarizer] -> Reader.Decode on a written symbol
//	cwq  b = data codewords, a = [version, ecLevel, mask, how]    -> QR symbol carrying these codewords
//	cwd  b = data codewords, a = [rect, how]                      -> Data Matrix symbol carrying these codewords
//	mat  a = [kind, w, h, seed, p, compact, layers, nd]           -> matrix decoders on an arbitrary BitMatrix
//	row  a = [kind, n, seed, rowNumber, p], b = chunks (kind 0)   -> RowDecoder.DecodeRow
//	png  a = [index, mutkind, nmut, mseed, rot, binarizer]        -> Reader.Decode on a sample image of the repository
//	runs b = run lengths in modules (first run a bar), a = [quiet, scale, height, mode] -> mode 0: Reader.Decode on the
//	     painted symbol, 1: DecodeRow on its pixel row, 2: DecodeRow on the reversed row

import (
	"bufio"
	"encoding/json"
	"fmt"
	"image"
	"image/color"
	_ "image/png"
	"math/rand"
	"os"
	"path/filepath"
	"runtime"
	"sort"
	"strconv"
	"strings"
	"sync"
	"time"

	"github.com/makiuchi-d/gozxing"
	"github.com/makiuchi-d/gozxing/aztec"
	azdec "github.com/makiuchi-d/gozxing/aztec/decoder"
	azdet "github.com/makiuchi-d/gozxing/aztec/detector"
	"github.com/makiuchi-d/gozxing/common"
	"github.com/makiuchi-d/gozxing/common/reedsolomon"
	"github.com/makiuchi-d/gozxing/datamatrix"
	dmdec "github.com/makiuchi-d/gozxing/datamatrix/decoder"
	dmenc "github.com/makiuchi-d/gozxing/datamatrix/encoder"
	multiqr "github.com/makiuchi-d/gozxing/multi/qrcode"
	"github.com/makiuchi-d/gozxing/oned"
	"github.com/makiuchi-d/gozxing/oned/rss"
	"github.com/makiuchi-d/gozxing/qrcode"
	qrdec "github.com/makiuchi-d/gozxing/qrcode/decoder"
	qrenc "github.com/makiuchi-d/gozxing/qrcode/encoder"
	"verifharness/hlib"
)

type ev struct {
	Op    string `json:"op"`
	Api   string `json:"api"`
	A     []int  `json:"a"`
	B     []int  `json:"b"`
	H     []int  `json:"h"`
	Id    int    `json:"id"`
	Res   int    `json:"res"`
	Err   string `json:"err"`
	Panic int    `json:"panic"`
	Hang  int    `json:"hang"`
	R     []int  `json:"r"`
	Errc  string `json:"errc"` // first documented kind found along the Unwrap chain of the error ("" if none)
	Site  string `json:"site"` // innermost library function on the stack of a panic
	Via   string `json:"via"`  // its caller inside the library
	Msg   string `json:"msg"`
	Ms    int    `json:"ms"`
	Skip  int    `json:"skip"`
}

func kind(err error) string {
	if err == nil {
		return ""
	}
	switch err.(type) {
	case gozxing.NotFoundException:
		return "NotFound"
	case gozxing.ChecksumException:
		return "Checksum"
	case gozxing.FormatException:
		return "Format"
	case gozxing.ReaderException:
		return "Reader"
	case gozxing.WriterException:
		return "Writer"
	}
	return "Other"
}

// chainKind walks the Unwrap chain for the first error of a documented kind.
func chainKind(err error) string {
	for i := 0; err != nil && i < 20; i++ {
		switch kind(err) {
		case "NotFound", "Checksum", "Format":
			return kind(err)
		}
		u, ok := err.(interface{ Unwrap() error })
		if !ok {
			break
		}
		err = u.Unwrap()
	}
	return ""
}

// outcome codes of block events: 0 result, 1 Format error, 2 other reader error kind, 3 untyped error, 4 panic,
// 5 neither result nor error, 6 both, 7 hang, 8 (registry lookup only) nothing registered: (nil, nil)
func outcome(res bool, err error, p string) int {
	switch {
	case p != "":
		return 4
	case res && err != nil:
		return 6
	case !res && err == nil:
		return 5
	case res:
		return 0
	}
	switch kind(err) {
	case "Format":
		return 1
	case "NotFound", "Checksum", "Reader":
		return 2
	}
	return 3
}

// ---------------------------------------------------------------- hints
// hint codes 10..19: character sets known to be supported; 20..: IANA names without an implementation, and a name that
// is no character set at all (all well-typed values of the CHARACTER_SET hint: strings)
var charsets = []string{"UTF-8", "SJIS", "ISO8859_1", "UTF-16BE", "EUC-JP", "windows-1252", "US-ASCII", "GB2312", "Big5", "EUC-KR",
	"UTF-7", "UTF-32", "ISO-2022-KR", "no-such-charset"}
var formatSets = [][]gozxing.BarcodeFormat{
	{gozxing.BarcodeFormat_EAN_13},
	{gozxing.BarcodeFormat_UPC_A, gozxing.BarcodeFormat_UPC_E},
	{gozxing.BarcodeFormat_EAN_8, gozxing.BarcodeFormat_EAN_13, gozxing.BarcodeFormat_UPC_A, gozxing.BarcodeFormat_UPC_E},
	{gozxing.BarcodeFormat_QR_CODE},
	{},
}
var lengthSets = [][]int{{}, {6}, {2, 4}, {14, 44}, {0}}

func hintMap(h []int) map[gozxing.DecodeHintType]interface{} {
	if len(h) == 0 {
		return nil
	}
	m := map[gozxing.DecodeHintType]interface{}{}
	for _, c := range h {
		switch {
		case c == 1:
			m[gozxing.DecodeHintType_PURE_BARCODE] = true
		case c == 2:
			m[gozxing.DecodeHintType_TRY_HARDER] = true
		case c == 3:
			m[gozxing.DecodeHintType_ASSUME_GS1] = true
		case c == 4:
			m[gozxing.DecodeHintType_RETURN_CODABAR_START_END] = true
		case c == 5:
			m[gozxing.DecodeHintType_NEED_RESULT_POINT_CALLBACK] = gozxing.ResultPointCallback(func(gozxing.ResultPoint) {})
		case c == 6:
			m[gozxing.DecodeHintType_ALSO_INVERTED] = true
		case c == 7:
			m[gozxing.DecodeHintType_ASSUME_CODE_39_CHECK_DIGIT] = true
		case c == 8:
			m[gozxing.DecodeHintType_OTHER] = "x"
		case c >= 10 && c < 10+len(charsets):
			m[gozxing.DecodeHintType_CHARACTER_SET] = charsets[c-10]
		case c >= 30 && c < 30+len(lengthSets):
			m[gozxing.DecodeHintType_ALLOWED_LENGTHS] = lengthSets[c-30]
		case c >= 40 && c < 40+len(lengthSets):
			m[gozxing.DecodeHintType_ALLOWED_EAN_EXTENSIONS] = lengthSets[c-40]
		case c >= 50 && c < 50+len(formatSets):
			m[gozxing.DecodeHintType_POSSIBLE_FORMATS] = formatSets[c-50]
		}
	}
	return m
}

// ---------------------------------------------------------------- readers
func reader(api string, hints map[gozxing.DecodeHintType]interface{}) gozxing.Reader {
	switch api {
	case "qr":
		return qrcode.NewQRCodeReader()
	case "dm":
		return datamatrix.NewDataMatrixReader()
	case "az":
		return aztec.NewAztecReader()
	case "multiqr":
		return multiqr.NewQRCodeMultiReader().(gozxing.Reader)
	case "upcean":
		return oned.NewMultiFormatUPCEANReader(hints)
	case "ean13":
		return oned.NewEAN13Reader()
	case "ean8":
		return oned.NewEAN8Reader()
	case "upca":
		return oned.NewUPCAReader()
	case "upce":
		return oned.NewUPCEReader()
	case "code39":
		return oned.NewCode39Reader()
	case "code39c":
		return oned.NewCode39ReaderWithCheckDigitFlag(true)
	case "code39x":
		return oned.NewCode39ReaderWithFlags(false, true)
	case "code93":
		return oned.NewCode93Reader()
	case "code128":
		return oned.NewCode128Reader()
	case "itf":
		return oned.NewITFReader()
	case "codabar":
		return oned.NewCodaBarReader()
	case "rss14":
		return rss.NewRSS14Reader()
	}
	return nil
}

func bitmap(img image.Image, binarizer int) (*gozxing.BinaryBitmap, error) {
	src := gozxing.NewLuminanceSourceFromImage(img)
	if binarizer == 1 {
		return gozxing.NewBinaryBitmap(gozxing.NewGlobalHistgramBinarizer(src))
	}
	return gozxing.NewBinaryBitmap(gozxing.NewHybridBinarizer(src))
}

// ---------------------------------------------------------------- synthetic inputs
func grayFill(w, h int, v uint8) *image.Gray {
	img := image.NewGray(image.Rect(0, 0, w, h))
	for i := range img.Pix {
		img.Pix[i] = v
	}
	return img
}

func finderAt(img *image.Gray, cx, cy, m int, dark, light uint8) {
	b := img.Bounds()
	for dy := -3 * m; dy < 4*m; dy++ {
		for dx := -3 * m; dx < 4*m; dx++ {
			x, y := cx+dx, cy+dy
			if x < b.Min.X || y < b.Min.Y || x >= b.Max.X || y >= b.Max.Y {
				continue
			}
			rx, ry := dx, dy
			if rx < 0 {
				rx = -rx - 1 + m
			}
			if ry < 0 {
				ry = -ry - 1 + m
			}
			ring := rx / m
			if ry/m > ring {
				ring = ry / m
			}
			v := dark
			if ring == 2 {
				v = light
			}
			img.SetGray(x, y, color.Gray{Y: v})
		}
	}
}

func synthImage(kindNo, w, h int, seed int64, p int) *image.Gray {
	rng := rand.New(rand.NewSource(seed))
	if w < 1 {
		w = 1
	}
	if h < 1 {
		h = 1
	}
	if p < 1 {
		p = 1
	}
	img := grayFill(w, h, 255)
	switch kindNo {
	case 0: // noise, p percent dark
		for i := range img.Pix {
			if rng.Intn(100) < p {
				img.Pix[i] = 0
			}
		}
	case 1: // vertical stripes of period 2p
		for y := 0; y < h; y++ {
			for x := 0; x < w; x++ {
				if (x/p)%2 == 0 {
					img.Pix[y*img.Stride+x] = 0
				}
			}
		}
	case 2: // horizontal stripes
		for y := 0; y < h; y++ {
			if (y/p)%2 == 0 {
				for x := 0; x < w; x++ {
					img.Pix[y*img.Stride+x] = 0
				}
			}
		}
	case 3: // checkerboard with cell p
		for y := 0; y < h; y++ {
			for x := 0; x < w; x++ {
				if ((x/p)+(y/p))%2 == 0 {
					img.Pix[y*img.Stride+x] = 0
				}
			}
		}
	case 4: // all black
		for i := range img.Pix {
			img.Pix[i] = 0
		}
	case 5: // all white
	case 6: // random rectangles
		for k := 0; k < 3+p; k++ {
			x0, y0 := rng.Intn(w), rng.Intn(h)
			ww, hh := 1+rng.Intn(w/2+1), 1+rng.Intn(h/2+1)
			v := uint8(0)
			if rng.Intn(3) == 0 {
				v = 255
			}
			for y := y0; y < y0+hh && y < h; y++ {
				for x := x0; x < x0+ww && x < w; x++ {
					img.Pix[y*img.Stride+x] = v
				}
			}
		}
	case 7: // gray noise over a gradient
		for y := 0; y < h; y++ {
			for x := 0; x < w; x++ {
				img.Pix[y*img.Stride+x] = uint8((x*255/w + rng.Intn(64*p)) % 256)
			}
		}
	case 8: // finder-like concentric squares (1:1:3:1:1) and bull's eyes scattered over noise
		for i := range img.Pix {
			if rng.Intn(100) < 3 {
				img.Pix[i] = 0
			}
		}
		for k := 0; k < 2+rng.Intn(4+p); k++ {
			m := 1 + rng.Intn(3)
			finderAt(img, rng.Intn(w), rng.Intn(h), m, 0, 255)
		}
		if rng.Intn(2) == 0 { // three finders in the corners of a square
			m := 1 + rng.Intn(3)
			d := 14*m + rng.Intn(20*m+1)
			x0, y0 := rng.Intn(w/2+1)+3*m, rng.Intn(h/2+1)+3*m
			finderAt(img, x0, y0, m, 0, 255)
			finderAt(img, x0+d, y0, m, 0, 255)
			finderAt(img, x0, y0+d, m, 0, 255)
		}
	case 9: // random bars: the same run lengths on every row
		x := rng.Intn(12)
		black := true
		for x < w {
			r := (1 + rng.Intn(4)) * (1 + p%3)
			if black {
				for y := 0; y < h; y++ {
					for k := x; k < x+r && k < w; k++ {
						img.Pix[y*img.Stride+k] = 0
					}
				}
			}
			x += r
			black = !black
		}
	case 10: // bull's eye (Aztec-like rings) plus noise ring around it
		cx, cy, m := w/2+rng.Intn(5)-2, h/2+rng.Intn(5)-2, 1+rng.Intn(3)
		for y := 0; y < h; y++ {
			for x := 0; x < w; x++ {
				dx, dy := x-cx, y-cy
				if dx < 0 {
					dx = -dx
				}
				if dy < 0 {
					dy = -dy
				}
				d := dx
				if dy > d {
					d = dy
				}
				ring := d / m
				if ring <= 6+p%3 {
					if ring%2 == 0 {
						img.Pix[y*img.Stride+x] = 0
					}
				} else if rng.Intn(2) == 0 {
					img.Pix[y*img.Stride+x] = 0
				}
			}
		}
	case 11: // L-shaped solid border with alternating opposite sides (Data-Matrix-like) around noise
		m := 1 + rng.Intn(3)
		n := 8 + 2*rng.Intn(12)
		x0, y0 := rng.Intn(w/3+1), rng.Intn(h/3+1)
		for j := 0; j < n; j++ {
			for i := 0; i < n; i++ {
				dark := rng.Intn(2) == 0
				if i == 0 || j == n-1 {
					dark = true
				} else if j == 0 {
					dark = i%2 == 0
				} else if i == n-1 {
					dark = j%2 == 1
				}
				if dark {
					for dy := 0; dy < m; dy++ {
						for dx := 0; dx < m; dx++ {
							x, y := x0+i*m+dx, y0+j*m+dy
							if x < w && y < h {
								img.Pix[y*img.Stride+x] = 0
							}
						}
					}
				}
			}
		}
	}
	return img
}

func synthMatrix(kindNo, w, h int, seed int64, p int) *gozxing.BitMatrix {
	img := synthImage(kindNo, w, h, seed, p)
	m, _ := gozxing.NewBitMatrix(img.Bounds().Dx(), img.Bounds().Dy())
	for y := 0; y < m.GetHeight(); y++ {
		for x := 0; x < m.GetWidth(); x++ {
			if img.Pix[y*img.Stride+x] < 128 {
				m.Set(x, y)
			}
		}
	}
	return m
}

func matrixImage(m *gozxing.BitMatrix, quiet int) *image.Gray {
	w, h := m.GetWidth(), m.GetHeight()
	img := grayFill(w+2*quiet, h+2*quiet, 255)
	for y := 0; y < h; y++ {
		for x := 0; x < w; x++ {
			if m.Get(x, y) {
				img.Pix[(y+quiet)*img.Stride+x+quiet] = 0
			}
		}
	}
	return img
}

func scaleMatrix(m *gozxing.BitMatrix, s int) *gozxing.BitMatrix {
	if s <= 1 {
		return m
	}
	out, _ := gozxing.NewBitMatrix(m.GetWidth()*s, m.GetHeight()*s)
	for y := 0; y < m.GetHeight(); y++ {
		for x := 0; x < m.GetWidth(); x++ {
			if m.Get(x, y) {
				out.SetRegion(x*s, y*s, s, s)
			}
		}
	}
	return out
}

func rotate(img *image.Gray, rot int) *image.Gray {
	for k := 0; k < rot%4; k++ {
		b := img.Bounds()
		w, h := b.Dx(), b.Dy()
		out := image.NewGray(image.Rect(0, 0, h, w))
		for y := 0; y < h; y++ {
			for x := 0; x < w; x++ {
				out.Pix[x*out.Stride+(h-1-y)] = img.Pix[y*img.Stride+x]
			}
		}
		img = out
	}
	return img
}

// mutate applies a seeded damage to the pixels of a symbol image
func mutate(img *image.Gray, mutkind, nmut int, seed int64) *image.Gray {
	rng := rand.New(rand.NewSource(seed))
	b := img.Bounds()
	w, h := b.Dx(), b.Dy()
	if w == 0 || h == 0 {
		return img
	}
	flip := func(x, y int) {
		if x >= 0 && y >= 0 && x < w && y < h {
			img.Pix[y*img.Stride+x] = 255 - img.Pix[y*img.Stride+x]
		}
	}
	switch mutkind {
	case 1: // single pixels
		for k := 0; k < nmut; k++ {
			flip(rng.Intn(w), rng.Intn(h))
		}
	case 2: // small blocks
		for k := 0; k < nmut; k++ {
			x0, y0, s := rng.Intn(w), rng.Intn(h), 1+rng.Intn(6)
			for y := y0; y < y0+s; y++ {
				for x := x0; x < x0+s; x++ {
					flip(x, y)
				}
			}
		}
	case 3: // whole columns (1-D: bars inserted / removed)
		for k := 0; k < nmut; k++ {
			x := rng.Intn(w)
			v := uint8(255 * rng.Intn(2))
			for y := 0; y < h; y++ {
				img.Pix[y*img.Stride+x] = v
			}
		}
	case 4: // crop: keep a window (symbols cut at the image border)
		x0, y0 := rng.Intn(w/2+1), rng.Intn(h/2+1)
		x1, y1 := w-rng.Intn(w/2+1), h-rng.Intn(h/2+1)
		if x1 <= x0 {
			x1 = x0 + 1
		}
		if y1 <= y0 {
			y1 = y0 + 1
		}
		out := image.NewGray(image.Rect(0, 0, x1-x0, y1-y0))
		for y := y0; y < y1; y++ {
			copy(out.Pix[(y-y0)*out.Stride:(y-y0)*out.Stride+x1-x0], img.Pix[y*img.Stride+x0:y*img.Stride+x1])
		}
		return out
	case 5: // inverted
		for i := range img.Pix {
			img.Pix[i] = 255 - img.Pix[i]
		}
	case 6: // whole rows
		for k := 0; k < nmut; k++ {
			y := rng.Intn(h)
			v := uint8(255 * rng.Intn(2))
			for x := 0; x < w; x++ {
				img.Pix[y*img.Stride+x] = v
			}
		}
	case 7: // gray noise
		for i := range img.Pix {
			d := rng.Intn(1 + 16*nmut)
			if img.Pix[i] < 128 {
				img.Pix[i] = uint8(imin(255, int(img.Pix[i])+d))
			} else {
				img.Pix[i] = uint8(imax(0, int(img.Pix[i])-d))
			}
		}
	case 8: // horizontal shear by shifting rows (1-D rows no longer aligned; 2-D modules displaced)
		for y := 0; y < h; y++ {
			s := (y * nmut) / (h + 1)
			if s > 0 && s < w {
				row := img.Pix[y*img.Stride : y*img.Stride+w]
				copy(row[s:], row[:w-s])
				for x := 0; x < s; x++ {
					row[x] = 255
				}
			}
		}
	}
	return img
}

var writerFormats = []gozxing.BarcodeFormat{
	gozxing.BarcodeFormat_QR_CODE, gozxing.BarcodeFormat_DATA_MATRIX, gozxing.BarcodeFormat_EAN_13, gozxing.BarcodeFormat_EAN_8,
	gozxing.BarcodeFormat_UPC_A, gozxing.BarcodeFormat_UPC_E, gozxing.BarcodeFormat_CODE_39, gozxing.BarcodeFormat_CODE_93,
	gozxing.BarcodeFormat_CODE_128, gozxing.BarcodeFormat_ITF, gozxing.BarcodeFormat_CODABAR,
}

func writerFor(f int) gozxing.Writer {
	switch f {
	case 0:
		return qrcode.NewQRCodeWriter()
	case 1:
		return datamatrix.NewDataMatrixWriter()
	case 2:
		return oned.NewEAN13Writer()
	case 3:
		return oned.NewEAN8Writer()
	case 4:
		return oned.NewUPCAWriter()
	case 5:
		return oned.NewUPCEWriter()
	case 6:
		return oned.NewCode39Writer()
	case 7:
		return oned.NewCode93Writer()
	case 8:
		return oned.NewCode128Writer()
	case 9:
		return oned.NewITFWriter()
	case 10:
		return oned.NewCodaBarWriter()
	}
	return nil
}

func pick(rng *rand.Rand, alphabet string, n int) string {
	rs := []rune(alphabet)
	b := make([]rune, n)
	for i := range b {
		b[i] = rs[rng.Intn(len(rs))]
	}
	return string(b)
}

const digits = "0123456789"
const c39 = "0123456789ABCDEFGHIJKLMNOPQRSTUVWXYZ-. $/+%"

// content of a symbol of writer f (seeded); chosen so that the writer accepts it
func content(f int, rng *rand.Rand) (string, map[gozxing.EncodeHintType]interface{}) {
	switch f {
	case 0:
		hints := map[gozxing.EncodeHintType]interface{}{}
		hints[gozxing.EncodeHintType_ERROR_CORRECTION] = []qrdec.ErrorCorrectionLevel{qrdec.ErrorCorrectionLevel_L,
			qrdec.ErrorCorrectionLevel_M, qrdec.ErrorCorrectionLevel_Q, qrdec.ErrorCorrectionLevel_H}[rng.Intn(4)]
		n := 1 + rng.Intn(60)
		switch rng.Intn(5) {
		case 0:
			return pick(rng, digits, n), hints
		case 1:
			return pick(rng, "ABCDEFGHIJ0123 $%*+-./:", n), hints
		case 2:
			hints[gozxing.EncodeHintType_CHARACTER_SET] = []string{"UTF-8", "Shift_JIS", "ISO-8859-1", "ISO-8859-7"}[rng.Intn(4)]
			return pick(rng, "abcdefgh XYZ,;!?", n), hints
		case 3:
			hints[gozxing.EncodeHintType_GS1_FORMAT] = true
			return pick(rng, "0123456789%ABC", n), hints
		}
		return pick(rng, "The quick brown fox 12345 éü", n), hints
	case 1:
		n := 1 + rng.Intn(40)
		switch rng.Intn(4) {
		case 0:
			return pick(rng, digits, n), nil
		case 1:
			return pick(rng, "ABCDEFGHIJKLMNOP 0123456789", n), nil
		case 2:
			return pick(rng, "abcdefg*>\r XYZ09", n), nil
		}
		return pick(rng, "Hello, World! é 0123 @^_", n), nil
	case 2:
		return pick(rng, digits, 12), nil
	case 3:
		return pick(rng, digits, 7), nil
	case 4:
		return pick(rng, digits, 11), nil
	case 5:
		return pick(rng, "01", 1) + pick(rng, digits, 6), nil
	case 6:
		s := pick(rng, c39, 1+rng.Intn(12))
		if rng.Intn(3) == 0 { // the four characters that start an escape pair in extended mode, also at the very end
			s += pick(rng, "$/+%", 1)
		}
		return s, nil
	case 7:
		return pick(rng, c39, 1+rng.Intn(12)), nil
	case 8:
		switch rng.Intn(3) {
		case 0:
			return pick(rng, digits, 2+2*rng.Intn(8)), nil
		case 1:
			return pick(rng, "ABCDEF abcdef 0123 !#$", 1+rng.Intn(16)), nil
		}
		return pick(rng, "\x01\x02\x1fab{}~AB12", 1+rng.Intn(10)), nil
	case 9:
		return pick(rng, digits, 2+2*rng.Intn(10)), nil
	case 10:
		return pick(rng, "ABCD", 1) + pick(rng, "0123456789-$:/.+", 1+rng.Intn(12)) + pick(rng, "ABCD", 1), nil
	}
	return "", nil
}

// ---------------------------------------------------------------- symbols carrying given codewords
var ecLevels = []qrdec.ErrorCorrectionLevel{qrdec.ErrorCorrectionLevel_L, qrdec.ErrorCorrectionLevel_M,
	qrdec.ErrorCorrectionLevel_Q, qrdec.ErrorCorrectionLevel_H}

// qrSymbol builds the module matrix of a QR symbol whose data codewords are `data` (cut / padded with 236, 17 to the
// capacity of (version, level)); error correction by the library's Reed-Solomon encoder, block interleave as in
// ISO/IEC 18004 7.6, function patterns and placement by the library's MatrixUtil_buildMatrix.
func qrSymbol(data []int, v, lv, mask int) (*gozxing.BitMatrix, error) {
	ver, err := qrdec.Version_GetVersionForNumber(v)
	if err != nil {
		return nil, err
	}
	lvl := ecLevels[lv&3]
	ecb := ver.GetECBlocksForLevel(lvl)
	nd := ver.GetTotalCodewords() - ecb.GetTotalECCodewords()
	d := make([]int, nd)
	for i := range d {
		if i < len(data) {
			d[i] = data[i] & 255
		} else if (i-len(data))%2 == 0 {
			d[i] = 236
		} else {
			d[i] = 17
		}
	}
	enc := reedsolomon.NewReedSolomonEncoder(reedsolomon.GenericGF_QR_CODE_FIELD_256)
	nec := ecb.GetECCodewordsPerBlock()
	var blocks [][]int
	off, maxd := 0, 0
	for _, g := range ecb.GetECBlocks() {
		for k := 0; k < g.GetCount(); k++ {
			n := g.GetDataCodewords()
			blk := make([]int, n+nec)
			copy(blk, d[off:off+n])
			off += n
			if err := enc.Encode(blk, nec); err != nil {
				return nil, err
			}
			blocks = append(blocks, blk)
			if n > maxd {
				maxd = n
			}
		}
	}
	bits := gozxing.NewEmptyBitArray()
	for i := 0; i < maxd; i++ {
		for _, blk := range blocks {
			if n := len(blk) - nec; i < n {
				bits.AppendBits(blk[i], 8)
			}
		}
	}
	for i := 0; i < nec; i++ {
		for _, blk := range blocks {
			bits.AppendBits(blk[len(blk)-nec+i], 8)
		}
	}
	dim := ver.GetDimensionForVersion()
	bm := qrenc.NewByteMatrix(dim, dim)
	if err := qrenc.MatrixUtil_buildMatrix(bits, lvl, ver, mask&7, bm); err != nil {
		return nil, err
	}
	m, _ := gozxing.NewSquareBitMatrix(dim)
	for y := 0; y < dim; y++ {
		for x := 0; x < dim; x++ {
			if bm.Get(x, y) == 1 {
				m.Set(x, y)
			}
		}
	}
	return m, nil
}

// dmSymbol builds a Data Matrix symbol whose data codewords are `data` padded with 129 to the next symbol capacity.
func dmSymbol(data []int, rect bool) (*gozxing.BitMatrix, error) {
	sh := dmenc.SymbolShapeHint_FORCE_SQUARE
	if rect {
		sh = dmenc.SymbolShapeHint_FORCE_RECTANGLE
	}
	if len(data) > 1558 { // capacity of the largest symbol
		data = data[:1558]
	}
	si, err := dmenc.SymbolInfo_Lookup(len(data), sh, nil, nil, false)
	if err != nil || si == nil { // more than the largest rectangular symbol holds: a square one
		si, err = dmenc.SymbolInfo_Lookup(len(data), dmenc.SymbolShapeHint_FORCE_SQUARE, nil, nil, false)
	}
	if err != nil || si == nil {
		return nil, fmt.Errorf("no symbol for %d codewords", len(data))
	}
	d := make([]byte, si.GetDataCapacity())
	for i := range d {
		if i < len(data) {
			d[i] = byte(data[i])
		} else {
			d[i] = 129
		}
	}
	all, err := dmenc.ErrorCorrection_EncodeECC200(d, si)
	if err != nil {
		return nil, err
	}
	pl := dmenc.NewDefaultPlacement(all, si.GetSymbolDataWidth(), si.GetSymbolDataHeight())
	pl.Place()
	m, _ := gozxing.NewBitMatrix(si.GetSymbolWidth(), si.GetSymbolHeight())
	mw, mh := si.GetMatrixWidth(), si.GetMatrixHeight()
	set := func(x, y int, b bool) {
		if b {
			m.Set(x, y)
		}
	}
	my := 0
	for y := 0; y < si.GetSymbolDataHeight(); y++ {
		if y%mh == 0 {
			for x := 0; x < si.GetSymbolWidth(); x++ {
				set(x, my, x%2 == 0)
			}
			my++
		}
		mx := 0
		for x := 0; x < si.GetSymbolDataWidth(); x++ {
			if x%mw == 0 {
				set(mx, my, true)
				mx++
			}
			set(mx, my, pl.GetBit(x, y))
			mx++
			if x%mw == mw-1 {
				set(mx, my, y%2 == 0)
				mx++
			}
		}
		my++
		if y%mh == mh-1 {
			for x := 0; x < si.GetSymbolWidth(); x++ {
				set(x, my, true)
			}
			my++
		}
	}
	return m, nil
}

// ---------------------------------------------------------------- sample images of the repository
var pngOnce sync.Once
var pngFiles []string

func repoDir() string {
	if d := os.Getenv("VERIF_REPO"); d != "" {
		return d
	}
	return "/repo"
}

func samplePNGs() []string {
	pngOnce.Do(func() {
		for _, d := range []string{"aztec/testdata/aztec-1", "aztec/testdata/aztec-2", "oned/rss/testdata/rss14-1", "oned/rss/testdata/rss14-2"} {
			fs, _ := filepath.Glob(filepath.Join(repoDir(), d, "*.png"))
			sort.Strings(fs)
			pngFiles = append(pngFiles, fs...)
		}
	})
	return pngFiles
}

func loadGray(path string, maxSide int) (*image.Gray, error) {
	f, err := os.Open(path)
	if err != nil {
		return nil, err
	}
	defer f.Close()
	src, _, err := image.Decode(f)
	if err != nil {
		return nil, err
	}
	b := src.Bounds()
	step := 1
	for b.Dx()/step > maxSide || b.Dy()/step > maxSide {
		step++
	}
	w, h := b.Dx()/step, b.Dy()/step
	out := image.NewGray(image.Rect(0, 0, w, h))
	for y := 0; y < h; y++ {
		for x := 0; x < w; x++ {
			out.SetGray(x, y, color.GrayModel.Convert(src.At(b.Min.X+x*step, b.Min.Y+y*step)).(color.Gray))
		}
	}
	return out, nil
}

// ---------------------------------------------------------------- calls
func imin(a, b int) int {
	if a < b {
		return a
	}
	return b
}

func imax(a, b int) int {
	if a > b {
		return a
	}
	return b
}

func arg(a []int, i, def int) int {
	if i < len(a) {
		return a[i]
	}
	return def
}

func decodeWith(api string, img image.Image, binarizer int, h []int) (bool, error) {
	hints := hintMap(h)
	bmp, err := bitmap(img, binarizer)
	if err != nil {
		return false, fmt.Errorf("harness: bitmap: %v", err)
	}
	if api == "multiqr.multi" {
		rs, err := multiqr.NewQRCodeMultiReader().DecodeMultiple(bmp, hints)
		ok := err == nil
		for _, r := range rs {
			if r == nil {
				ok = false
			}
		}
		return ok, err
	}
	rd := reader(api, hints)
	if rd == nil {
		panic("harness: unknown reader " + api)
	}
	r, err := rd.Decode(bmp, hints)
	return r != nil, err
}

func qrBytes(bits *gozxing.BitArray) []byte {
	for bits.GetSize()%8 != 0 {
		bits.AppendBit(false)
	}
	out := make([]byte, bits.GetSize()/8)
	bits.ToBytes(0, out, 0, len(out))
	return out
}

// eciCall runs one ECI value through one designator form
func eciCall(form, v int) (bool, error) {
	ver1, _ := qrdec.Version_GetVersionForNumber(1)
	switch form {
	case 1, 2, 3: // QR: ECI mode 0111 + designator + byte mode, count 2, "AB", terminator
		bits := gozxing.NewEmptyBitArray()
		bits.AppendBits(7, 4)
		switch form {
		case 1:
			bits.AppendBits(v&0x7F, 8)
		case 2:
			bits.AppendBits(0x8000|(v&0x3FFF), 16)
		case 3:
			bits.AppendBits(0xC00000|(v&0x1FFFFF), 24)
		}
		bits.AppendBits(4, 4)
		bits.AppendBits(2, 8)
		bits.AppendBits(0x41, 8)
		bits.AppendBits(0x42, 8)
		bits.AppendBits(0, 4)
		r, err := qrdec.DecodedBitStreamParser_Decode(qrBytes(bits), ver1, qrdec.ErrorCorrectionLevel_L, nil)
		return r != nil, err
	case 4, 5: // Aztec: 'A', P/S, FLG(n), n digits (form 5: always six digits), 'B'
		s := strconv.Itoa(v)
		if form == 5 {
			s = fmt.Sprintf("%06d", v)
		}
		var b []bool
		put := func(val, n int) {
			for i := n - 1; i >= 0; i-- {
				b = append(b, (val>>uint(i))&1 == 1)
			}
		}
		put(2, 5)
		put(0, 5)
		put(0, 5)
		put(len(s), 3)
		for _, c := range s {
			put(int(c-'0')+2, 4)
		}
		put(3, 5)
		_, err := azdec.NewDecoder().HighLevelDecode(b)
		return err == nil, err
	}
	panic("harness: unknown ECI form")
}

var watchdog = 20 * time.Second
var hangs = 0 // calls that did not return so far (their goroutines cannot be stopped)

const libPrefix = "github.com/makiuchi-d/gozxing/"

// guardSite runs f; a panic is reported as its text and the innermost function of the library on the stack.
func guardSite(f func()) (p, site string) {
	p, site, _ = guardSite2(f)
	return
}

func guardSite2(f func()) (p, site, via string) {
	defer func() {
		if r := recover(); r != nil {
			p = fmt.Sprint(r)
			if len(p) > 200 {
				p = p[:200]
			}
			pcs := make([]uintptr, 64)
			n := runtime.Callers(2, pcs)
			frames := runtime.CallersFrames(pcs[:n])
			for {
				fr, more := frames.Next()
				if strings.HasPrefix(fr.Function, libPrefix) || strings.HasPrefix(fr.Function, "github.com/makiuchi-d/gozxing.") {
					name := strings.TrimPrefix(strings.TrimPrefix(fr.Function, libPrefix), "github.com/makiuchi-d/")
					if site == "" {
						site = name
					} else {
						via = name
						break
					}
				}
				if !more {
					break
				}
			}
		}
	}()
	f()
	return "", "", ""
}

// guarded runs f under recover() in its own goroutine with a watchdog.
func guarded(f func() (bool, error)) (res bool, err error, p string, hang bool) {
	res, err, p, _, hang = guardedSite(f)
	return
}

func guardedSite(f func() (bool, error)) (res bool, err error, p, site string, hang bool) {
	res, err, p, site, _, hang = guardedSite2(f)
	return
}

func guardedSite2(f func() (bool, error)) (res bool, err error, p, site, via string, hang bool) {
	type out struct {
		res          bool
		err          error
		p, site, via string
	}
	ch := make(chan out, 1)
	go func() {
		var o out
		o.p, o.site, o.via = guardSite2(func() { o.res, o.err = f() })
		ch <- o
	}()
	wd := watchdog
	if hangs >= 3 && wd > 8*time.Second { // goroutines of earlier hangs still spin: do not wait the full time again and again
		wd = 8 * time.Second
	}
	t := time.NewTimer(wd)
	defer t.Stop()
	select {
	case o := <-ch:
		return o.res, o.err, o.p, o.site, o.via, false
	case <-t.C:
		hangs++
		return false, nil, "", "", "", true
	}
}

func call(e *ev) func() (bool, error) {
	a := e.A
	switch e.Op {
	case "qrp":
		return func() (bool, error) {
			ver, err := qrdec.Version_GetVersionForNumber(arg(a, 0, 1))
			if err != nil {
				panic("harness: version")
			}
			r, err := qrdec.DecodedBitStreamParser_Decode(hlib.IntsToBytes(e.B), ver, ecLevels[arg(a, 1, 0)&3], hintMap(e.H))
			return r != nil, err
		}
	case "dmp":
		return func() (bool, error) {
			r, err := dmdec.DecodedBitStreamParser_decode(hlib.IntsToBytes(e.B))
			return r != nil, err
		}
	case "azp":
		return func() (bool, error) {
			_, err := azdec.NewDecoder().HighLevelDecode(hlib.Unchunk(e.B, arg(a, 0, 0)))
			return err == nil, err
		}
	case "img":
		return func() (bool, error) {
			img := synthImage(arg(a, 0, 0), arg(a, 1, 1), arg(a, 2, 1), int64(arg(a, 3, 0)), arg(a, 4, 1))
			return decodeWith(e.Api, img, arg(a, 5, 0), e.H)
		}
	case "sym":
		return func() (bool, error) {
			f := arg(a, 0, 0)
			rng := rand.New(rand.NewSource(int64(arg(a, 1, 0))))
			txt, wh := content(f, rng)
			w := writerFor(f)
			if w == nil {
				panic("harness: unknown writer")
			}
			scale, height := arg(a, 2, 1), arg(a, 3, 1)
			var m *gozxing.BitMatrix
			var err error
			if f <= 1 {
				m, err = w.Encode(txt, writerFormats[f], 0, 0, wh)
				if err == nil {
					m = scaleMatrix(m, scale)
				}
			} else {
				var nat *gozxing.BitMatrix
				nat, err = w.Encode(txt, writerFormats[f], 0, 0, wh)
				if err == nil {
					m, err = w.Encode(txt, writerFormats[f], (nat.GetWidth()+14)*scale, height, wh) // 7 more quiet modules per side
				}
			}
			if err != nil || m == nil {
				return false, fmt.Errorf("skip: writer refused %q: %v", txt, err)
			}
			quiet := 0
			if f <= 1 {
				quiet = 2 * scale
			}
			img := mutate(matrixImage(m, quiet), arg(a, 4, 0), arg(a, 5, 0), int64(arg(a, 6, 0)))
			return decodeWith(e.Api, rotate(img, arg(a, 7, 0)), arg(a, 8, 0), e.H)
		}
	case "png":
		return func() (bool, error) {
			fs := samplePNGs()
			if len(fs) == 0 {
				return false, fmt.Errorf("harness: no sample images")
			}
			img, err := loadGray(fs[arg(a, 0, 0)%len(fs)], 400)
			if err != nil {
				return false, fmt.Errorf("harness: %v", err)
			}
			img = mutate(img, arg(a, 1, 0), arg(a, 2, 0), int64(arg(a, 3, 0)))
			return decodeWith(e.Api, rotate(img, arg(a, 4, 0)), arg(a, 5, 0), e.H)
		}
	case "cwq":
		return func() (bool, error) {
			m, err := qrSymbol(e.B, arg(a, 0, 1), arg(a, 1, 0), arg(a, 2, 0))
			if err != nil {
				return false, fmt.Errorf("harness: qr symbol: %v", err)
			}
			switch e.Api {
			case "qr.decoder":
				r, err := qrdec.NewDecoder().Decode(m, hintMap(e.H))
				return r != nil, err
			}
			s := 1 + arg(a, 3, 0)%4
			return decodeWith(e.Api, matrixImage(scaleMatrix(m, s), 4*s), 0, e.H)
		}
	case "qrv":
		// a symbol of a given version and level written by the real encoder (forced version), a few modules flipped, then decoded:
		// every (version, level) pair reaches the decoder's per-version tables
		return func() (bool, error) {
			rng := rand.New(rand.NewSource(int64(arg(a, 2, 0))))
			n := 1 + rng.Intn(12)
			txt := make([]byte, n)
			for i := range txt {
				txt[i] = "ABCDEFGHIJKLMNOPQRSTUVWXYZ0123456789 abc"[rng.Intn(40)]
			}
			code, err := qrenc.Encoder_encode(string(txt), ecLevels[arg(a, 1, 0)&3], map[gozxing.EncodeHintType]interface{}{gozxing.EncodeHintType_QR_VERSION: arg(a, 0, 1)})
			if err != nil || code == nil {
				return false, fmt.Errorf("skip: encoder refused version %d: %v", arg(a, 0, 1), err)
			}
			bm := code.GetMatrix()
			m, _ := gozxing.NewBitMatrix(bm.GetWidth(), bm.GetHeight())
			for y := 0; y < bm.GetHeight(); y++ {
				for x := 0; x < bm.GetWidth(); x++ {
					if bm.Get(x, y) == 1 {
						m.Set(x, y)
					}
				}
			}
			for k := 0; k < arg(a, 3, 0); k++ {
				m.Flip(rng.Intn(m.GetWidth()), rng.Intn(m.GetHeight()))
			}
			if arg(a, 5, 0) == 1 { // mirrored symbol (transposed matrix)
				t, _ := gozxing.NewBitMatrix(m.GetHeight(), m.GetWidth())
				for y := 0; y < m.GetHeight(); y++ {
					for x := 0; x < m.GetWidth(); x++ {
						if m.Get(x, y) {
							t.Set(y, x)
						}
					}
				}
				m = t
			}
			switch e.Api {
			case "qr.decoder":
				r, err := qrdec.NewDecoder().Decode(m, hintMap(e.H))
				return r != nil, err
			}
			s := 1 + arg(a, 4, 0)%3
			return decodeWith(e.Api, matrixImage(scaleMatrix(m, s), 4*s), 0, e.H)
		}
	case "cwd":
		return func() (bool, error) {
			m, err := dmSymbol(e.B, arg(a, 0, 0) == 1)
			if err != nil {
				return false, fmt.Errorf("harness: dm symbol: %v", err)
			}
			switch e.Api {
			case "dm.decoder":
				r, err := dmdec.NewDecoder().Decode(m)
				return r != nil, err
			}
			s := 1 + arg(a, 1, 0)%4
			return decodeWith(e.Api, matrixImage(scaleMatrix(m, s), 3*s), 0, e.H)
		}
	case "mat":
		return func() (bool, error) {
			m := synthMatrix(arg(a, 0, 0), arg(a, 1, 1), arg(a, 2, 1), int64(arg(a, 3, 0)), arg(a, 4, 1))
			switch e.Api {
			case "qr.decoder":
				r, err := qrdec.NewDecoder().Decode(m, hintMap(e.H))
				return r != nil, err
			case "dm.decoder":
				r, err := dmdec.NewDecoder().Decode(m)
				return r != nil, err
			case "az.decoder":
				r, err := azdec.NewDecoder().Decode(azdet.NewAztecDetectorResult(m, nil, arg(a, 5, 0) == 1, arg(a, 7, 1), arg(a, 6, 1)))
				return r != nil, err
			}
			panic("harness: unknown matrix decoder " + e.Api)
		}
	case "runs":
		return func() (bool, error) {
			q, sc, ht := arg(a, 0, 10), imax(1, arg(a, 1, 1)), imax(1, arg(a, 2, 1))
			n := 2 * q
			if t := arg(a, 4, -1); t >= 0 { // trailing quiet zone given separately (0: the row ends with the last bar)
				n = q + t
			}
			for _, r := range e.B {
				n += r
			}
			img := grayFill(n*sc, ht, 255)
			x, black := q*sc, true
			for _, r := range e.B {
				if black {
					for y := 0; y < ht; y++ {
						for k := x; k < x+r*sc; k++ {
							img.Pix[y*img.Stride+k] = 0
						}
					}
				}
				x += r * sc
				black = !black
			}
			if arg(a, 3, 0) == 0 {
				return decodeWith(e.Api, img, 1, e.H)
			}
			row := gozxing.NewBitArray(n * sc)
			for i := 0; i < n*sc; i++ {
				if img.Pix[i] == 0 {
					row.Set(i)
				}
			}
			if arg(a, 3, 0) == 2 {
				row.Reverse()
			}
			hints := hintMap(e.H)
			dec, ok := reader(e.Api, hints).(oned.RowDecoder)
			if !ok {
				panic("harness: " + e.Api + " is not a RowDecoder")
			}
			r, err := dec.DecodeRow(0, row, hints)
			return r != nil, err
		}
	case "row":
		return func() (bool, error) {
			n := arg(a, 1, 1)
			var row *gozxing.BitArray
			if arg(a, 0, 0) == 0 {
				row = gozxing.NewBitArray(n)
				for i, b := range hlib.Unchunk(e.B, n) {
					if b {
						row.Set(i)
					}
				}
			} else {
				m := synthMatrix(arg(a, 0, 0)-1, n, 1, int64(arg(a, 2, 0)), arg(a, 4, 1))
				row = m.GetRow(0, nil)
			}
			hints := hintMap(e.H)
			rd := reader(e.Api, hints)
			dec, ok := rd.(oned.RowDecoder)
			if !ok {
				panic("harness: " + e.Api + " is not a RowDecoder")
			}
			r, err := dec.DecodeRow(arg(a, 3, 0), row, hints)
			return r != nil, err
		}
	}
	return nil
}

// execLoop is hlib.ExecLoop with a flush after every observation: when the process dies on an input (fatal runtime
// error that recover() cannot catch), the orchestrator sees which input it was.
func execLoop(f func(raw []byte) (interface{}, error)) {
	args := os.Args[1:]
	fail := func(err error) {
		fmt.Fprintln(os.Stderr, "vdrive:", err)
		os.Exit(3)
	}
	if len(args) < 3 || args[0] != "exec" {
		fail(fmt.Errorf("usage: exec <in.ndjson> <out.ndjson>"))
	}
	in, err := os.Open(args[1])
	if err != nil {
		fail(err)
	}
	defer in.Close()
	out, err := os.Create(args[2])
	if err != nil {
		fail(err)
	}
	defer out.Close()
	enc := json.NewEncoder(out)
	sc := bufio.NewScanner(in)
	sc.Buffer(make([]byte, 1<<20), 1<<28)
	n := 0
	for sc.Scan() {
		n++
		line := sc.Bytes()
		if len(line) == 0 {
			continue
		}
		o, err := f(line)
		if err != nil {
			fail(fmt.Errorf("input %d: %v", n, err))
		}
		if err := enc.Encode(o); err != nil {
			fail(err)
		}
	}
	if err := sc.Err(); err != nil {
		fail(err)
	}
}

func main() {
	if s := os.Getenv("VERIF_C06_WATCHDOG_MS"); s != "" {
		if v, err := strconv.Atoi(s); err == nil && v > 0 {
			watchdog = time.Duration(v) * time.Millisecond
		}
	}
	execLoop(func(raw []byte) (interface{}, error) {
		var e ev
		if err := json.Unmarshal(raw, &e); err != nil {
			return nil, err
		}
		e.A, e.B, e.H, e.R = hlib.NZ(e.A), hlib.NZ(e.B), hlib.NZ(e.H), []int{}
		e.Via = ""
		e.Res, e.Err, e.Errc, e.Site, e.Panic, e.Hang, e.Msg, e.Skip = 0, "", "", "", 0, 0, "", 0
		t0 := time.Now()
		if hangs >= 12 { // the process is saturated by spinning goroutines: the remaining inputs are not run (and not judged)
			e.Skip, e.Msg = 1, "skip: not run after 12 hangs in this process"
			return e, nil
		}
		if e.Op == "eci" {
			form, lo, n := arg(e.A, 0, 1), arg(e.A, 1, 0), arg(e.A, 2, 1)
			for v := lo; v < lo+n; v++ {
				vv := v
				none := false
				res, err, p, hang := guarded(func() (bool, error) {
					if form == 6 { // the registry itself: an entry, or nothing registered (nil, nil), or out of range (error)
						c, err := common.GetCharacterSetECIByValue(vv)
						none = c == nil && err == nil
						return c != nil, err
					}
					return eciCall(form, vv)
				})
				if hang {
					e.R = append(e.R, 7)
					e.Hang = 1
					continue
				}
				o := outcome(res, err, p)
				if none && p == "" {
					o = 8
				}
				if o >= 3 && e.Msg == "" {
					e.Msg = fmt.Sprintf("eci %d: %s%v", v, p, err)
				}
				e.R = append(e.R, o)
			}
			e.Res = 1
			e.Ms = int(time.Since(t0) / time.Millisecond)
			return e, nil
		}
		f := call(&e)
		if f == nil {
			return nil, fmt.Errorf("unknown op %q", e.Op)
		}
		res, err, p, site, via, hang := guardedSite2(f)
		e.Ms = int(time.Since(t0) / time.Millisecond)
		if hang {
			e.Hang = 1
			return e, nil
		}
		if p != "" {
			if len(p) >= 8 && p[:8] == "harness:" {
				return nil, fmt.Errorf("%s", p)
			}
			e.Panic, e.Msg, e.Site, e.Via = 1, p, site, via
			return e, nil
		}
		if err != nil {
			if m := err.Error(); len(m) >= 8 && m[:8] == "harness:" {
				return nil, err // input construction failed: infrastructure, never an observation
			}
			if m := err.Error(); len(m) >= 5 && m[:5] == "skip:" {
				e.Skip, e.Msg = 1, m // no call of the function under observation took place
				return e, nil
			}
			e.Err, e.Errc = kind(err), chainKind(err)
			e.Msg = err.Error()
			if len(e.Msg) > 160 {
				e.Msg = e.Msg[:160]
			}
		}
		e.Res = hlib.B2I(res)
		return e, nil
	})
}
