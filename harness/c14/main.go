// vdrive c14
package main

// C14 driver.  "sym": the encoder-level module matrix of a symbol (QR: encoder.Encoder_encode; Data Matrix / 1-D: the
// 0x0, margin-0 rendering).  "render": Writer.Encode with a requested size and margin hint; the returned BitMatrix is
// read through its image.Image view (Bounds / ColorModel / At) and recorded as run-length encoded rows with
// multiplicities.  The driver decides nothing - TLC (Trace_Render) recomputes size, module size, padding and pixels.

import (
	"encoding/json"
	"fmt"
	"image"
	"image/color"
	"strconv"

	"github.com/makiuchi-d/gozxing"
	"github.com/makiuchi-d/gozxing/datamatrix"
	dmenc "github.com/makiuchi-d/gozxing/datamatrix/encoder"
	"github.com/makiuchi-d/gozxing/oned"
	"github.com/makiuchi-d/gozxing/qrcode"
	"github.com/makiuchi-d/gozxing/qrcode/decoder"
	qrenc "github.com/makiuchi-d/gozxing/qrcode/encoder"
	"verifharness/hlib"
)

type renderEv struct {
	Op     string `json:"op"`     // sym | render
	Fmt    string `json:"fmt"`    // barcode format; DATA_MATRIX_RECT = Data Matrix with the rectangle shape hint
	Txt    []int  `json:"txt"`    // contents (bytes)
	Rw     int    `json:"rw"`     // requested size
	Rh     int    `json:"rh"`
	Margin int    `json:"margin"` // MARGIN hint, -1: no hint
	MStr   int    `json:"mstr"`   // 1: pass the hint as a decimal string
	// observations
	Nw       int     `json:"nw"` // sym: module matrix
	Nh       int     `json:"nh"`
	Mods     [][]int `json:"mods"`
	Gw       int     `json:"gw"` // render: BitMatrix.GetWidth/GetHeight
	Gh       int     `json:"gh"`
	Bounds   []int   `json:"bounds"` // image.Image view
	Gray     int     `json:"gray"`   // ColorModel is color.GrayModel
	BadColor int     `json:"badcolor"`
	Rows     [][]int `json:"rows"` // [multiplicity, white run, black run, white run, ...] top to bottom
	Err      int     `json:"err"`
	Panic    int     `json:"panic"`
	Msg      string  `json:"msg"`
}

var formats = map[string]gozxing.BarcodeFormat{
	"QR_CODE": gozxing.BarcodeFormat_QR_CODE, "DATA_MATRIX": gozxing.BarcodeFormat_DATA_MATRIX,
	"DATA_MATRIX_RECT": gozxing.BarcodeFormat_DATA_MATRIX,
	"EAN_8":            gozxing.BarcodeFormat_EAN_8, "EAN_13": gozxing.BarcodeFormat_EAN_13, "UPC_A": gozxing.BarcodeFormat_UPC_A,
	"UPC_E": gozxing.BarcodeFormat_UPC_E, "CODE_39": gozxing.BarcodeFormat_CODE_39, "CODE_93": gozxing.BarcodeFormat_CODE_93,
	"CODE_128": gozxing.BarcodeFormat_CODE_128, "ITF": gozxing.BarcodeFormat_ITF, "CODABAR": gozxing.BarcodeFormat_CODABAR,
}

// one writer object per symbology for the whole run, as applications keep them: a writer that remembers anything of an earlier
// call (a margin, a size) shows in the next image
var writers = map[string]gozxing.Writer{}

func writerFor(f string) gozxing.Writer {
	if w, ok := writers[f]; ok {
		return w
	}
	w := newWriter(f)
	writers[f] = w
	return w
}

func newWriter(f string) gozxing.Writer {
	switch f {
	case "QR_CODE":
		return qrcode.NewQRCodeWriter()
	case "DATA_MATRIX", "DATA_MATRIX_RECT":
		return datamatrix.NewDataMatrixWriter()
	case "EAN_8":
		return oned.NewEAN8Writer()
	case "EAN_13":
		return oned.NewEAN13Writer()
	case "UPC_A":
		return oned.NewUPCAWriter()
	case "UPC_E":
		return oned.NewUPCEWriter()
	case "CODE_39":
		return oned.NewCode39Writer()
	case "CODE_93":
		return oned.NewCode93Writer()
	case "CODE_128":
		return oned.NewCode128Writer()
	case "ITF":
		return oned.NewITFWriter()
	case "CODABAR":
		return oned.NewCodaBarWriter()
	}
	return nil
}

func hintsFor(e *renderEv, margin int) map[gozxing.EncodeHintType]interface{} {
	h := map[gozxing.EncodeHintType]interface{}{}
	if margin >= 0 {
		if e.MStr == 1 {
			h[gozxing.EncodeHintType_MARGIN] = strconv.Itoa(margin)
		} else {
			h[gozxing.EncodeHintType_MARGIN] = margin
		}
	}
	if e.Fmt == "DATA_MATRIX_RECT" {
		h[gozxing.EncodeHintType_DATA_MATRIX_SHAPE] = dmenc.SymbolShapeHint_FORCE_RECTANGLE
	}
	return h
}

// rle: run lengths of one image row read through the image.Image interface, beginning with the white run
func rle(img image.Image, y, x0, x1 int, badColor *int) []int {
	runs := []int{}
	col, n := 0, 0
	for x := x0; x < x1; x++ {
		c := 0
		g, ok := img.At(x, y).(color.Gray)
		if !ok || (g.Y != 0 && g.Y != 255) {
			*badColor = 1
		}
		if ok && g.Y == 0 {
			c = 1
		}
		if c == col {
			n++
		} else {
			runs = append(runs, n)
			col, n = c, 1
		}
	}
	return append(runs, n)
}

func same(a, b []int) bool {
	if len(a) != len(b) {
		return false
	}
	for i := range a {
		if a[i] != b[i] {
			return false
		}
	}
	return true
}

func main() {
	hlib.Main(func(raw []byte) (interface{}, error) {
		var e renderEv
		if err := json.Unmarshal(raw, &e); err != nil {
			return nil, err
		}
		e.Mods, e.Bounds, e.Rows = [][]int{}, []int{}, [][]int{}
		if e.Txt == nil {
			e.Txt = []int{}
		}
		wr := writerFor(e.Fmt)
		if wr == nil {
			return nil, fmt.Errorf("unknown format %q", e.Fmt)
		}
		txt := string(hlib.IntsToBytes(e.Txt))
		p := hlib.Guard(func() {
			switch e.Op {
			case "sym":
				if e.Fmt == "QR_CODE" {
					code, err := qrenc.Encoder_encode(txt, decoder.ErrorCorrectionLevel_L, nil)
					if err != nil {
						e.Err, e.Msg = 1, err.Error()
						return
					}
					m := code.GetMatrix()
					e.Nw, e.Nh = m.GetWidth(), m.GetHeight()
					for y := 0; y < e.Nh; y++ {
						row := make([]int, e.Nw)
						for x := range row {
							row[x] = int(m.Get(x, y))
						}
						e.Mods = append(e.Mods, row)
					}
					return
				}
				m, err := wr.Encode(txt, formats[e.Fmt], 0, 0, hintsFor(&e, 0))
				if err != nil {
					e.Err, e.Msg = 1, err.Error()
					return
				}
				e.Nw, e.Nh = m.GetWidth(), m.GetHeight()
				for y := 0; y < e.Nh; y++ {
					row := make([]int, e.Nw)
					for x := range row {
						row[x] = hlib.B2I(m.Get(x, y))
					}
					e.Mods = append(e.Mods, row)
				}
			case "render":
				m, err := wr.Encode(txt, formats[e.Fmt], e.Rw, e.Rh, hintsFor(&e, e.Margin))
				if err != nil {
					e.Err, e.Msg = 1, err.Error()
					return
				}
				e.Gw, e.Gh = m.GetWidth(), m.GetHeight()
				var img image.Image = m
				b := img.Bounds()
				e.Bounds = []int{b.Min.X, b.Min.Y, b.Max.X, b.Max.Y}
				e.Gray = hlib.B2I(img.ColorModel() == color.GrayModel)
				for y := b.Min.Y; y < b.Max.Y; y++ {
					r := rle(img, y, b.Min.X, b.Max.X, &e.BadColor)
					if k := len(e.Rows); k > 0 && same(e.Rows[k-1][1:], r) {
						e.Rows[k-1][0]++
					} else {
						e.Rows = append(e.Rows, append([]int{1}, r...))
					}
				}
			default:
				panic("unknown op " + e.Op)
			}
		})
		if p != "" {
			e.Panic, e.Msg = 1, p
			if p == "unknown op "+e.Op {
				return nil, fmt.Errorf("%s", p)
			}
		}
		if len(e.Msg) > 200 {
			e.Msg = e.Msg[:200]
		}
		return e, nil
	})
}
