// vdrive c19
package main

// C19 driver: calls the real common.GridSampler_checkAndNudgePoints, PerspectiveTransform_QuadrilateralToQuadrilateral
// + TransformPoints, and GridSampler.SampleGrid / SampleGridWithTransform, and records what came back.  Nothing is
// decided here.  Floats are projected to integers: exact fixed point (value*s) where the inputs are dyadic, and
// floor + nine decimal digits for transformed points.

import (
	"encoding/json"
	"math"

	"github.com/makiuchi-d/gozxing"
	"github.com/makiuchi-d/gozxing/common"
	"verifharness/hlib"
)

type ev struct {
	Op    string  `json:"op"`
	Mode  int     `json:"mode"`
	W     int     `json:"w"`
	H     int     `json:"h"`
	S     int     `json:"s"`
	Pts   [][]int `json:"pts"`
	Img   [][]int `json:"img"`
	Dimx  int     `json:"dimx"`
	Dimy  int     `json:"dimy"`
	A2    int     `json:"a2"`
	C     int     `json:"c"`
	Src   []int   `json:"src"`
	Dst   []int   `json:"dst"`
	F     int     `json:"f"`
	M     int     `json:"m"`
	In    [][]int `json:"in"`
	Out   [][]int `json:"out"`
	Bits  [][]int `json:"bits"`
	Exact int     `json:"exact"`
	Err   int     `json:"err"`
	Panic int     `json:"panic"`
	Msg   string  `json:"msg,omitempty"`
}

func errClass(err error) int {
	if err == nil {
		return 0
	}
	if _, ok := err.(gozxing.NotFoundException); ok {
		return 1
	}
	return 2
}

func split(v float64) (int, int, int) {
	if math.IsNaN(v) || math.IsInf(v, 0) || math.Abs(v) > 1e6 {
		return 0, 0, 1
	}
	fl := math.Floor(v)
	fr := math.Floor((v - fl) * 1e9)
	if fr > 999999999 {
		fr = 999999999
	}
	return int(fl), int(fr), 0
}

func quad(q []int, f float64) []float64 {
	out := make([]float64, 8)
	for i := range out {
		out[i] = float64(q[i]) / f
	}
	return out
}

func main() {
	hlib.Main(func(raw []byte) (interface{}, error) {
		var e ev
		if err := json.Unmarshal(raw, &e); err != nil {
			return nil, err
		}
		msg := hlib.Guard(func() {
			switch e.Op {
			case "nudge":
				img, _ := gozxing.NewBitMatrix(e.W, e.H)
				pts := make([]float64, 0, 2*len(e.Pts))
				for _, p := range e.Pts {
					pts = append(pts, float64(p[0])/float64(e.S), float64(p[1])/float64(e.S))
				}
				e.Err = errClass(common.GridSampler_checkAndNudgePoints(img, pts))
				e.Exact = 1
				e.Out = make([][]int, len(e.Pts))
				for i := range e.Pts {
					x, y := pts[2*i]*float64(e.S), pts[2*i+1]*float64(e.S)
					if x != math.Round(x) || y != math.Round(y) || math.Abs(x) > 1e9 || math.Abs(y) > 1e9 {
						e.Exact = 0
						x, y = 0, 0
					}
					e.Out[i] = []int{int(x), int(y)}
				}
			case "xform":
				s, d := quad(e.Src, float64(e.F)), quad(e.Dst, float64(e.F))
				t := common.PerspectiveTransform_QuadrilateralToQuadrilateral(s[0], s[1], s[2], s[3], s[4], s[5], s[6], s[7],
					d[0], d[1], d[2], d[3], d[4], d[5], d[6], d[7])
				e.Out = make([][]int, len(e.In))
				for i, p := range e.In {
					den := float64(p[2]) * float64(e.F)
					pt := []float64{float64(p[0]) / den, float64(p[1]) / den}
					t.TransformPoints(pt)
					xi, xf, b1 := split(pt[0])
					yi, yf, b2 := split(pt[1])
					e.Out[i] = []int{xi, xf, yi, yf, b1 | b2}
				}
			case "sample":
				img, _ := gozxing.NewBitMatrix(e.W, e.H)
				for y := 0; y < e.H; y++ {
					for x, b := range hlib.Unchunk(e.Img[y], e.W) {
						if b {
							img.Set(x, y)
						}
					}
				}
				a, c := float64(e.A2)/2, float64(e.C)
				d := quad(e.Dst, 16)
				var bm *gozxing.BitMatrix
				var err error
				gs := common.GridSampler_GetInstance()
				if e.Mode == 0 {
					bm, err = gs.SampleGrid(img, e.Dimx, e.Dimy, a, a, a+c, a, a+c, a+c, a, a+c,
						d[0], d[1], d[2], d[3], d[4], d[5], d[6], d[7])
				} else {
					t := common.PerspectiveTransform_QuadrilateralToQuadrilateral(a, a, a+c, a, a+c, a+c, a, a+c,
						d[0], d[1], d[2], d[3], d[4], d[5], d[6], d[7])
					bm, err = gs.SampleGridWithTransform(img, e.Dimx, e.Dimy, t)
				}
				e.Err = errClass(err)
				e.Bits = [][]int{}
				if err == nil && bm != nil {
					if bm.GetWidth() != e.Dimx || bm.GetHeight() != e.Dimy {
						e.Err = 3
					} else {
						for y := 0; y < e.Dimy; y++ {
							yy := y
							e.Bits = append(e.Bits, hlib.ChunkBits(e.Dimx, func(i int) bool { return bm.Get(i, yy) }))
						}
					}
				}
			default:
				panic("unknown op " + e.Op)
			}
		})
		if msg != "" {
			e.Panic, e.Msg = 1, msg
			if len(msg) > 10 && msg[:10] == "unknown op" {
				return nil, errS(msg)
			}
		}
		for _, p := range []*[][]int{&e.Pts, &e.Img, &e.In, &e.Out, &e.Bits} {
			if *p == nil {
				*p = [][]int{}
			}
		}
		e.Src, e.Dst = hlib.NZ(e.Src), hlib.NZ(e.Dst)
		return e, nil
	})
}

type errS string

func (e errS) Error() string { return string(e) }
