// vdrive c20
package main

// C20 driver: calls the real oned.RecordPattern / oned.RecordPatternInReverse / oned.PatternMatchVariance on the
// given inputs and records what came back.  Nothing is decided here; the float score is projected to integers
// (k = round(r*den), res = ceil(|r*den-k|*1e9) with den = sum(counters)*sum(pattern)) because TLC has no reals.

import (
	"encoding/json"
	"math"

	"github.com/makiuchi-d/gozxing"
	"github.com/makiuchi-d/gozxing/oned"
	"verifharness/hlib"
)

type recEv struct {
	Op    string `json:"op"`
	Row   []int  `json:"row"`
	Len   int    `json:"len"`
	Mk    int    `json:"mk"`
	Start int    `json:"start"`
	N     int    `json:"n"`
	X     int    `json:"x"`
	Xerr  int    `json:"xerr"`
	Xc    []int  `json:"xc"`
	C     []int  `json:"c"`
	Err   int    `json:"err"`
	Panic int    `json:"panic"`
	Msg   string `json:"msg,omitempty"`
}

type pmvEv struct {
	Op    string `json:"op"`
	C     []int  `json:"c"`
	P     []int  `json:"p"`
	Vn    int    `json:"vn"`
	Vd    int    `json:"vd"`
	X     int    `json:"x"`
	Xinf  int    `json:"xinf"`
	Xnum  int    `json:"xnum"`
	Inf   int    `json:"inf"`
	Nan   int    `json:"nan"`
	Den   int    `json:"den"`
	K     int    `json:"k"`
	Res   int    `json:"res"`
	Panic int    `json:"panic"`
	Msg   string `json:"msg,omitempty"`
}

const clamp = 1 << 30

func sum(a []int) int {
	s := 0
	for _, v := range a {
		s += v
	}
	return s
}

func main() {
	hlib.Main(func(raw []byte) (interface{}, error) {
		var head struct {
			Op string `json:"op"`
		}
		if err := json.Unmarshal(raw, &head); err != nil {
			return nil, err
		}
		if head.Op == "pmv" {
			var e pmvEv
			if err := json.Unmarshal(raw, &e); err != nil {
				return nil, err
			}
			c := append([]int{}, e.C...)
			p := append([]int{}, e.P...)
			var r float64
			if msg := hlib.Guard(func() { r = oned.PatternMatchVariance(c, p, float64(e.Vn)/float64(e.Vd)) }); msg != "" {
				e.Panic, e.Msg = 1, msg
				return e, nil
			}
			e.Den = sum(e.C) * sum(e.P)
			switch {
			case math.IsInf(r, 1):
				e.Inf = 1
			case math.IsNaN(r) || math.IsInf(r, -1):
				e.Nan = 1
			default:
				x := r * float64(e.Den)
				k := math.Round(x)
				if math.Abs(k) >= clamp {
					e.K, e.Res = clamp, clamp
				} else {
					e.K = int(k)
					e.Res = int(math.Min(math.Ceil(math.Abs(x-k)*1e9), clamp))
				}
			}
			return e, nil
		}
		var e recEv
		if err := json.Unmarshal(raw, &e); err != nil {
			return nil, err
		}
		bits := hlib.Unchunk(e.Row, e.Len)
		var row *gozxing.BitArray
		switch e.Mk {
		case 1:
			row = gozxing.NewEmptyBitArray()
			for _, b := range bits {
				row.AppendBit(b)
			}
		case 2:
			row = gozxing.NewEmptyBitArray()
			for i := 0; i < len(bits); i += 5 {
				n, v := 0, 0
				for ; n < 5 && i+n < len(bits); n++ {
					v <<= 1
					if bits[i+n] {
						v |= 1
					}
				}
				row.AppendBits(v, n)
			}
		default:
			row = gozxing.NewBitArray(e.Len)
			for i, b := range bits {
				if b {
					row.Set(i)
				}
			}
		}
		counters := make([]int, e.N)
		for i := range counters {
			counters[i] = 9 // stale content of a re-used counter slice
		}
		var err error
		msg := hlib.Guard(func() {
			if e.Op == "fwd" {
				err = oned.RecordPattern(row, e.Start, counters)
			} else {
				err = oned.RecordPatternInReverse(row, e.Start, counters)
			}
		})
		if msg != "" {
			e.Panic, e.Msg = 1, msg
		}
		if err != nil {
			if _, ok := err.(gozxing.NotFoundException); ok {
				e.Err = 1
			} else {
				e.Err = 2
			}
		}
		e.C = counters
		e.Row = hlib.NZ(e.Row)
		e.Xc = hlib.NZ(e.Xc)
		return e, nil
	})
}
