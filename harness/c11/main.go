// vdrive c11
package main

// C11 driver: decodes reference Aztec symbols (module matrices produced by TLC from spec/Aztec.tla) with the real
// gozxing code and records what came back.  It decides nothing.  Go-side work is projection only: building a
// BitMatrix from row chunks, flipping the listed modules, rotating / scaling the modules into a gray image.
//
//	reset : rows (16-bit chunks) define the current symbol; decoded directly with decoder.Decode(AztecDetectorResult)
//	mat   : the current symbol with the listed modules flipped, decoded directly
//	img   : the current symbol (+flips) rendered at rot*90 degrees, `scale` pixels per module, `quiet` modules of white
//	        margin, read with aztec.AztecReader.Decode
//	hl    : bits (chunks, nbits) given to decoder.HighLevelDecode
//	tmpl  : rows = function patterns of a symbol with an empty mode ring, mask = which modules are function modules
//	det   : the template with the listed mode-ring cells (flips) dark and pseudo-random data modules (seeded by id),
//	        rendered like img; detector.Detect is asked which (compact, layers, data codewords) the symbol announces
//
// One Decoder and one AztecReader serve the whole run (applications keep them; state carried between symbols shows).

import (
	"encoding/json"
	"image"
	"image/color"

	"github.com/makiuchi-d/gozxing"
	"github.com/makiuchi-d/gozxing/aztec"
	azdec "github.com/makiuchi-d/gozxing/aztec/decoder"
	azdet "github.com/makiuchi-d/gozxing/aztec/detector"
	"verifharness/hlib"
)

type ev struct {
	Op     string  `json:"op"`
	C      int     `json:"c"`
	Layers int     `json:"layers"`
	Nd     int     `json:"nd"`
	Items  [][]int `json:"items"`
	Rows   [][]int `json:"rows"`
	Mask   [][]int `json:"mask"`
	Faults [][]int `json:"faults"`
	Flips  [][]int `json:"flips"`
	Rot    int     `json:"rot"`
	Scale  int     `json:"scale"`
	Quiet  int     `json:"quiet"`
	Bits   []int   `json:"bits"`
	NBits  int     `json:"nbits"`
	Txt    []int   `json:"txt"`
	Err    int     `json:"err"`
	Panic  int     `json:"panic"`
	Msg    string  `json:"msg"`
	Id     int     `json:"id"`
}

type symbol struct {
	size, c, layers, nd int
	cells               [][]bool
	mask                [][]bool // tmpl only
}

func runes(s string) []int {
	out := []int{}
	for _, r := range s {
		out = append(out, int(r))
	}
	return out
}

func (s *symbol) matrix(flips [][]int) *gozxing.BitMatrix {
	m, _ := gozxing.NewSquareBitMatrix(s.size)
	for y := 0; y < s.size; y++ {
		for x := 0; x < s.size; x++ {
			if s.cells[y][x] {
				m.Set(x, y)
			}
		}
	}
	for _, f := range flips {
		if len(f) == 2 && f[0] >= 0 && f[0] < s.size && f[1] >= 0 && f[1] < s.size {
			m.Flip(f[0], f[1])
		}
	}
	return m
}

func render(m *gozxing.BitMatrix, rot, scale, quiet int) image.Image {
	n := m.GetWidth()
	if scale < 1 {
		scale = 1
	}
	pad := quiet * scale
	w := n*scale + 2*pad
	img := image.NewGray(image.Rect(0, 0, w, w))
	for i := range img.Pix {
		img.Pix[i] = 255
	}
	for y := 0; y < n; y++ {
		for x := 0; x < n; x++ {
			if !m.Get(x, y) {
				continue
			}
			xx, yy := x, y
			for k := 0; k < rot%4; k++ { // quarter turns clockwise
				xx, yy = n-1-yy, xx
			}
			for dy := 0; dy < scale; dy++ {
				for dx := 0; dx < scale; dx++ {
					img.SetGray(pad+xx*scale+dx, pad+yy*scale+dy, color.Gray{Y: 0})
				}
			}
		}
	}
	return img
}

func main() {
	var cur *symbol
	dec := azdec.NewDecoder()
	rd := aztec.NewAztecReader()
	hlib.Main(func(raw []byte) (interface{}, error) {
		var e ev
		if err := json.Unmarshal(raw, &e); err != nil {
			return nil, err
		}
		e.Txt = []int{}
		fail := func(err error) {
			e.Err = 1
			e.Msg = err.Error()
			if len(e.Msg) > 120 {
				e.Msg = e.Msg[:120]
			}
		}
		direct := func(m *gozxing.BitMatrix) {
			r, err := dec.Decode(azdet.NewAztecDetectorResult(m, nil, cur.c == 1, cur.nd, cur.layers))
			if err != nil {
				fail(err)
				return
			}
			e.Txt = runes(r.GetText())
		}
		p := hlib.Guard(func() {
			switch e.Op {
			case "reset":
				n := len(e.Rows)
				s := &symbol{size: n, c: e.C, layers: e.Layers, nd: e.Nd, cells: make([][]bool, n)}
				for y := 0; y < n; y++ {
					s.cells[y] = hlib.Unchunk(e.Rows[y], n)
				}
				cur = s
				direct(cur.matrix(nil))
			case "mat":
				direct(cur.matrix(e.Flips))
			case "img":
				bmp, err := gozxing.NewBinaryBitmapFromImage(render(cur.matrix(e.Flips), e.Rot, e.Scale, e.Quiet))
				if err != nil {
					fail(err)
					return
				}
				r, err := rd.Decode(bmp, nil)
				if err != nil {
					fail(err)
					return
				}
				e.Txt = runes(r.GetText())
			case "tmpl":
				n := len(e.Rows)
				s := &symbol{size: n, c: e.C, layers: e.Layers, cells: make([][]bool, n), mask: make([][]bool, n)}
				for y := 0; y < n; y++ {
					s.cells[y] = hlib.Unchunk(e.Rows[y], n)
					s.mask[y] = hlib.Unchunk(e.Mask[y], n)
				}
				cur = s
			case "det":
				m := cur.matrix(e.Flips)
				rnd := uint32(e.Id)*2654435761 + 12345
				for y := 0; y < cur.size; y++ {
					for x := 0; x < cur.size; x++ {
						rnd = rnd*1664525 + 1013904223
						if !cur.mask[y][x] && rnd>>16&1 == 1 {
							m.Set(x, y)
						}
					}
				}
				bmp, err := gozxing.NewBinaryBitmapFromImage(render(m, e.Rot, e.Scale, e.Quiet))
				if err != nil {
					fail(err)
					return
				}
				bm, err := bmp.GetBlackMatrix()
				if err != nil {
					fail(err)
					return
				}
				r, err := azdet.NewDetector(bm).Detect(false)
				if err != nil {
					fail(err)
					return
				}
				c := 0
				if r.IsCompact() {
					c = 1
				}
				e.Txt = []int{c, r.GetNbLayers(), r.GetNbDatablocks()}
			case "hl":
				s, err := dec.HighLevelDecode(hlib.Unchunk(e.Bits, e.NBits))
				if err != nil {
					fail(err)
					return
				}
				e.Txt = runes(s)
			}
		})
		if p != "" {
			e.Panic, e.Msg = 1, p
		}
		if e.Items == nil {
			e.Items = [][]int{}
		}
		if e.Rows == nil {
			e.Rows = [][]int{}
		}
		if e.Mask == nil {
			e.Mask = [][]int{}
		}
		if e.Op == "tmpl" {
			e.Mask = [][]int{} // not needed by the judgement; keeps the trace small
		}
		if e.Faults == nil {
			e.Faults = [][]int{}
		}
		if e.Flips == nil {
			e.Flips = [][]int{}
		}
		if e.Bits == nil {
			e.Bits = []int{}
		}
		return e, nil
	})
}
