// vdrive c11
package main

// C11 driver: decodes reference Aztec symbols (module matrices produced by TLC from spec/Aztec.tla) with the real
// gozxing code and records what came back.  It decides nothing.  Go-side work is projection only: building a
// BitMatrix from row chunks, flipping the listed modules, rotating / scaling the modules into a gray image.
//
//	reset : rows (16-bit chunks) define the current symbol; decoded directly with decoder.Decode(AztecDetectorResult)
//	mat   : the current symbol with the listed modules flipped, decoded directly
//	img   : the current symbol (+flips) rendered at rot*90 degrees, `scale` pixels per module, `quiet` modules of white
//	        margin, read with aztec.AztecReader.Decode
//	hl    : bits (chunks, nbits) given to decoder.HighLevelDecode

import (
	"encoding/json"
	"image"
	"image/color"

	"github.com/makiuchi-d/gozxing"
	"github.com/makiuchi-d/gozxing/aztec"
	azdec "github.com/makiuchi-d/gozxing/aztec/decoder"
	azdet "github.com/makiuchi-d/gozxing/aztec/detector"
	"verifharness/hlib"
)

type ev struct {
	Op     string  `json:"op"`
	C      int     `json:"c"`
	Layers int     `json:"layers"`
	Nd     int     `json:"nd"`
	Items  [][]int `json:"items"`
	Rows   [][]int `json:"rows"`
	Faults [][]int `json:"faults"`
	Flips  [][]int `json:"flips"`
	Rot    int     `json:"rot"`
	Scale  int     `json:"scale"`
	Quiet  int     `json:"quiet"`
	Bits   []int   `json:"bits"`
	NBits  int     `json:"nbits"`
	Txt    []int   `json:"txt"`
	Err    int     `json:"err"`
	Panic  int     `json:"panic"`
	Msg    string  `json:"msg"`
	Id     int     `json:"id"`
}

type symbol struct {
	size, c, layers, nd int
	cells               [][]bool
}

func runes(s string) []int {
	out := []int{}
	for _, r := range s {
		out = append(out, int(r))
	}
	return out
}

func (s *symbol) matrix(flips [][]int) *gozxing.BitMatrix {
	m, _ := gozxing.NewSquareBitMatrix(s.size)
	for y := 0; y < s.size; y++ {
		for x := 0; x < s.size; x++ {
			if s.cells[y][x] {
				m.Set(x, y)
			}
		}
	}
	for _, f := range flips {
		if len(f) == 2 && f[0] >= 0 && f[0] < s.size && f[1] >= 0 && f[1] < s.size {
			m.Flip(f[0], f[1])
		}
	}
	return m
}

func render(m *gozxing.BitMatrix, rot, scale, quiet int) image.Image {
	n := m.GetWidth()
	if scale < 1 {
		scale = 1
	}
	pad := quiet * scale
	w := n*scale + 2*pad
	img := image.NewGray(image.Rect(0, 0, w, w))
	for i := range img.Pix {
		img.Pix[i] = 255
	}
	for y := 0; y < n; y++ {
		for x := 0; x < n; x++ {
			if !m.Get(x, y) {
				continue
			}
			xx, yy := x, y
			for k := 0; k < rot%4; k++ { // quarter turns clockwise
				xx, yy = n-1-yy, xx
			}
			for dy := 0; dy < scale; dy++ {
				for dx := 0; dx < scale; dx++ {
					img.SetGray(pad+xx*scale+dx, pad+yy*scale+dy, color.Gray{Y: 0})
				}
			}
		}
	}
	return img
}

func main() {
	var cur *symbol
	hlib.Main(func(raw []byte) (interface{}, error) {
		var e ev
		if err := json.Unmarshal(raw, &e); err != nil {
			return nil, err
		}
		e.Txt = []int{}
		fail := func(err error) {
			e.Err = 1
			e.Msg = err.Error()
			if len(e.Msg) > 120 {
				e.Msg = e.Msg[:120]
			}
		}
		direct := func(m *gozxing.BitMatrix) {
			r, err := azdec.NewDecoder().Decode(azdet.NewAztecDetectorResult(m, nil, cur.c == 1, cur.nd, cur.layers))
			if err != nil {
				fail(err)
				return
			}
			e.Txt = runes(r.GetText())
		}
		p := hlib.Guard(func() {
			switch e.Op {
			case "reset":
				n := len(e.Rows)
				s := &symbol{size: n, c: e.C, layers: e.Layers, nd: e.Nd, cells: make([][]bool, n)}
				for y := 0; y < n; y++ {
					s.cells[y] = hlib.Unchunk(e.Rows[y], n)
				}
				cur = s
				direct(cur.matrix(nil))
			case "mat":
				direct(cur.matrix(e.Flips))
			case "img":
				bmp, err := gozxing.NewBinaryBitmapFromImage(render(cur.matrix(e.Flips), e.Rot, e.Scale, e.Quiet))
				if err != nil {
					fail(err)
					return
				}
				r, err := aztec.NewAztecReader().Decode(bmp, nil)
				if err != nil {
					fail(err)
					return
				}
				e.Txt = runes(r.GetText())
			case "hl":
				s, err := azdec.NewDecoder().HighLevelDecode(hlib.Unchunk(e.Bits, e.NBits))
				if err != nil {
					fail(err)
					return
				}
				e.Txt = runes(s)
			}
		})
		if p != "" {
			e.Panic, e.Msg = 1, p
		}
		if e.Items == nil {
			e.Items = [][]int{}
		}
		if e.Rows == nil {
			e.Rows = [][]int{}
		}
		if e.Faults == nil {
			e.Faults = [][]int{}
		}
		if e.Flips == nil {
			e.Flips = [][]int{}
		}
		if e.Bits == nil {
			e.Bits = []int{}
		}
		return e, nil
	})
}
