// vdrive dm: drives the real Data Matrix encoder / decoder / writer / reader for C02, C05, C08, C13.
// Pure recorder: every observation is judged by TLC (spec/Trace_DM.tla).
package main

import (
	"encoding/json"
	"fmt"
	"github.com/makiuchi-d/gozxing/common"
	"hash/crc32"
	"time"

	"github.com/makiuchi-d/gozxing"
	"github.com/makiuchi-d/gozxing/datamatrix"
	dmdec "github.com/makiuchi-d/gozxing/datamatrix/decoder"
	dmenc "github.com/makiuchi-d/gozxing/datamatrix/encoder"
	"verifharness/hlib"
)

type in struct {
	Op    string `json:"op"`
	Text  []int  `json:"text"`  // Latin-1 code points / UTF-8? -> see Utf
	Utf   int    `json:"utf"`   // 1: Text holds raw UTF-8 bytes of the Go string; 0: Text holds code points < 256 (Go string built from runes)
	Shape int    `json:"shape"` // 0 none, 1 square, 2 rectangle
	Mn    []int  `json:"mn"`    // [w, h] or []
	Mx    []int  `json:"mx"`
	Img   []int  `json:"img"` // [w, h] requested image size for the writer/reader path, [] = skip
	N     int    `json:"n"`
	Nr    int    `json:"nr"`
	Nc    int    `json:"nc"`
	Cw    []int  `json:"cw"`
	Data  []int  `json:"data"`
	Mode  int    `json:"mode"`
	Pos   int    `json:"pos"`
	Sets  []struct {
		Flip [][]int `json:"flip"`
	} `json:"sets"`
}

var shapes = []dmenc.SymbolShapeHint{dmenc.SymbolShapeHint_FORCE_NONE, dmenc.SymbolShapeHint_FORCE_SQUARE, dmenc.SymbolShapeHint_FORCE_RECTANGLE}

func dim(a []int) *gozxing.Dimension {
	if len(a) != 2 {
		return nil
	}
	d, err := gozxing.NewDimension(a[0], a[1])
	if err != nil {
		return nil
	}
	return d
}

func kind(err error) string {
	if err == nil {
		return ""
	}
	switch err.(type) {
	case gozxing.NotFoundException:
		return "notfound"
	case gozxing.ChecksumException:
		return "checksum"
	case gozxing.FormatException:
		return "format"
	case gozxing.WriterException:
		return "writer"
	}
	return "other"
}

func str(e *in) string {
	if e.Utf == 1 {
		return string(hlib.IntsToBytes(e.Text))
	}
	r := make([]rune, len(e.Text))
	for i, c := range e.Text {
		r[i] = rune(c)
	}
	return string(r)
}

func rowsOf(m *gozxing.BitMatrix) [][]int {
	rows := make([][]int, m.GetHeight())
	for y := range rows {
		yy := y
		rows[y] = hlib.ChunkBits(m.GetWidth(), func(i int) bool { return m.Get(i, yy) })
	}
	return rows
}

func hints(e *in) map[gozxing.EncodeHintType]interface{} {
	h := map[gozxing.EncodeHintType]interface{}{}
	if e.Shape != 0 {
		h[gozxing.EncodeHintType_DATA_MATRIX_SHAPE] = shapes[e.Shape]
	}
	if d := dim(e.Mn); d != nil {
		h[gozxing.EncodeHintType_MIN_SIZE] = d
	}
	if d := dim(e.Mx); d != nil {
		h[gozxing.EncodeHintType_MAX_SIZE] = d
	}
	return h
}

// watchdog runs f with a time limit; hang = 1 when it did not return in time (the goroutine is abandoned).
func watchdog(limit time.Duration, f func()) (hang int, pnc string) {
	done := make(chan string, 1)
	go func() { done <- hlib.Guard(f) }()
	select {
	case p := <-done:
		return 0, p
	case <-time.After(limit):
		return 1, ""
	}
}

// errText: the full error chain as text (the library wraps its causes), cut to a manageable length.
func errText(err error) string {
	s := fmt.Sprintf("%+v", err)
	if len(s) > 400 {
		s = s[:400]
	}
	return s
}

func crc(s string) []int {
	h := crc32.ChecksumIEEE([]byte(s))
	return []int{int(h >> 16), int(h & 0xFFFF)}
}

func main() {
	hlib.Main(func(raw []byte) (interface{}, error) {
		var e in
		if err := json.Unmarshal(raw, &e); err != nil {
			return nil, err
		}
		o := map[string]interface{}{}
		if err := json.Unmarshal(raw, &o); err != nil {
			return nil, err
		}
		o["panic"], o["hang"] = 0, 0
		var bad error
		hang, p := watchdog(10*time.Second, func() {
			switch e.Op {
			case "sym":
				doSym(&e, o)
			case "hl":
				doHL(&e, o)
			case "ecc":
				doEcc(&e, o)
			case "place":
				doPlace(&e, o)
			case "lookup":
				doLookup(&e, o)
			case "decver":
				o["versions"] = dmdec.VerifVersions()
			case "la":
				o["r"] = dmenc.HighLevelEncoder_lookAheadTest(hlib.IntsToBytes(e.Text), e.Pos, e.Mode)
			case "dmg":
				doDmg(&e, o)
			default:
				bad = fmt.Errorf("unknown op %s", e.Op)
			}
		})
		if bad != nil {
			return nil, bad
		}
		if hang == 1 {
			// the abandoned goroutine may still write to o: hand back a fresh map
			o2 := map[string]interface{}{}
			_ = json.Unmarshal(raw, &o2)
			o2["panic"], o2["hang"] = 0, 1
			fillDefaults(e.Op, o2)
			return o2, nil
		}
		if p != "" {
			o["panic"], o["msg"] = 1, p
		}
		fillDefaults(e.Op, o)
		return o, nil
	})
}

// fillDefaults makes sure that every field the trace spec reads exists even when the call panicked or hung.
func fillDefaults(op string, o map[string]interface{}) {
	def := map[string]interface{}{}
	switch op {
	case "sym":
		def = map[string]interface{}{"err": 0, "cw": []int{}, "cwerr": 0, "w": 0, "h": 0, "rows": [][]int{}}
	case "hl":
		def = map[string]interface{}{"cwerr": 0, "cw": []int{}, "dtext": []int{}, "derr": "skipped", "werr": 0, "w": 0, "h": 0,
			"rtext": []int{}, "rerr": "skipped", "rfmt": 0, "utf8": []int{}, "cwmsg": "", "mtext": []int{}, "merr": "skipped", "btext": []int{}, "berr": "skipped"}
	case "ecc":
		def = map[string]interface{}{"err": 0, "all": []int{}}
	case "place":
		def = map[string]interface{}{"rows": [][]int{}, "prev_then": 0, "prev_now": 0}
	case "lookup":
		def = map[string]interface{}{"err": 0, "w": 0, "h": 0, "cap": 0, "ecw": 0, "dw": 0, "dh": 0, "rw": 0, "rh": 0, "nblk": 0, "blkd": []int{}, "blke": []int{}, "total": 0}
	case "dmg":
		def = map[string]interface{}{"err": 0, "w": 0, "h": 0, "res": [][]int{}, "th": []int{0, 0}}
	case "la":
		def = map[string]interface{}{"r": -1}
	}
	for k, v := range def {
		if _, ok := o[k]; !ok {
			o[k] = v
		}
	}
}

func doSym(e *in, o map[string]interface{}) {
	text := str(e)
	cw, err := dmenc.EncodeHighLevel(text, shapes[e.Shape], dim(e.Mn), dim(e.Mx))
	if err != nil {
		o["cwerr"], o["cw"] = 1, []int{}
	} else {
		o["cwerr"], o["cw"] = 0, hlib.BytesToInts(string(cw))
	}
	bm, werr := datamatrix.NewDataMatrixWriter().Encode(text, gozxing.BarcodeFormat_DATA_MATRIX, 0, 0, hints(e))
	if werr != nil || bm == nil {
		o["err"], o["w"], o["h"], o["rows"] = 1, 0, 0, [][]int{}
		return
	}
	o["err"], o["w"], o["h"], o["rows"] = 0, bm.GetWidth(), bm.GetHeight(), rowsOf(bm)
}

// doHL: C02 - high-level encodation, codeword-level decode, and the writer -> pure-barcode reader path
func doHL(e *in, o map[string]interface{}) {
	text := str(e)
	o["utf8"] = hlib.BytesToInts(text)
	cw, err := dmenc.EncodeHighLevel(text, shapes[e.Shape], dim(e.Mn), dim(e.Mx))
	o["cwmsg"] = ""
	if err != nil {
		o["cwerr"], o["cw"], o["cwmsg"] = 1, []int{}, errText(err)
	} else {
		o["cwerr"], o["cw"] = 0, hlib.BytesToInts(string(cw))
		dr, derr := dmdec.DecodedBitStreamParser_decode(cw)
		switch {
		case derr == nil && dr == nil:
			o["derr"] = "neither"
		case derr != nil:
			o["derr"] = kind(derr)
		default:
			o["derr"], o["dtext"] = "", hlib.BytesToInts(dr.GetText())
		}
	}
	if len(e.Img) == 2 {
		bm, werr := datamatrix.NewDataMatrixWriter().Encode(text, gozxing.BarcodeFormat_DATA_MATRIX, e.Img[0], e.Img[1], hints(e))
		if werr != nil || bm == nil {
			o["werr"] = 1
			return
		}
		o["werr"], o["w"], o["h"] = 0, bm.GetWidth(), bm.GetHeight()
		if e.Img[0] == 0 && e.Img[1] == 0 {
			// requested size 0x0: the writer's matrix is the symbol itself (one pixel per module) - the two module-matrix entry
			// points of the decoder: Decode(*BitMatrix) and DecodeBoolMap([][]bool)
			one := func(key string, f func() (*common.DecoderResult, error)) {
				r, err := f()
				switch {
				case err == nil && r == nil:
					o[key+"err"] = "neither"
				case err != nil:
					o[key+"err"] = kind(err)
				default:
					o[key+"err"], o[key+"text"] = "", hlib.BytesToInts(r.GetText())
				}
			}
			cp, _ := gozxing.NewBitMatrix(bm.GetWidth(), bm.GetHeight())
			bools := make([][]bool, bm.GetHeight())
			for y := range bools {
				bools[y] = make([]bool, bm.GetWidth())
				for x := range bools[y] {
					if bm.Get(x, y) {
						bools[y][x] = true
						cp.Set(x, y)
					}
				}
			}
			one("m", func() (*common.DecoderResult, error) { return sharedDecoder.Decode(cp) })
			one("b", func() (*common.DecoderResult, error) { return sharedDecoder.DecodeBoolMap(bools) })
		}
		bmp, _ := gozxing.NewBinaryBitmapFromImage(bm)
		res, rerr := datamatrix.NewDataMatrixReader().Decode(bmp, map[gozxing.DecodeHintType]interface{}{gozxing.DecodeHintType_PURE_BARCODE: true})
		switch {
		case rerr == nil && res == nil:
			o["rerr"] = "neither"
		case rerr != nil:
			o["rerr"] = kind(rerr)
		default:
			o["rerr"], o["rtext"], o["rfmt"] = "", hlib.BytesToInts(res.GetText()), hlib.B2I(res.GetBarcodeFormat() == gozxing.BarcodeFormat_DATA_MATRIX)
		}
	}
}

func symbolFor(n int, rect bool) (*dmenc.SymbolInfo, error) {
	sh := dmenc.SymbolShapeHint_FORCE_SQUARE
	if rect {
		sh = dmenc.SymbolShapeHint_FORCE_RECTANGLE
	}
	return dmenc.SymbolInfo_Lookup(n, sh, nil, nil, true)
}

func doEcc(e *in, o map[string]interface{}) {
	si, err := symbolFor(len(e.Data), e.Shape == 2)
	if err != nil || si == nil || si.GetDataCapacity() != len(e.Data) {
		o["err"], o["all"] = 1, []int{}
		return
	}
	all, err := dmenc.ErrorCorrection_EncodeECC200(hlib.IntsToBytes(e.Data), si)
	if err != nil {
		o["err"], o["all"] = 1, []int{}
		return
	}
	o["err"], o["all"] = 0, hlib.BytesToInts(string(all))
}

// the placement of the previous "place" event stays alive: a later placement must not change what it holds
var prevPl *dmenc.DefaultPlacement
var prevNc, prevNr int
var prevThen uint32

func placeDigest(pl *dmenc.DefaultPlacement, nc, nr int) uint32 {
	h := crc32.NewIEEE()
	for y := 0; y < nr; y++ {
		for x := 0; x < nc; x++ {
			if pl.GetBit(x, y) {
				h.Write([]byte{1})
			} else {
				h.Write([]byte{0})
			}
		}
	}
	return h.Sum32()
}

func doPlace(e *in, o map[string]interface{}) {
	pl := dmenc.NewDefaultPlacement(hlib.IntsToBytes(e.Cw), e.Nc, e.Nr)
	pl.Place()
	o["prev_then"], o["prev_now"] = 0, 0
	if prevPl != nil {
		now := placeDigest(prevPl, prevNc, prevNr)
		o["prev_then"], o["prev_now"] = []int{int(prevThen >> 16), int(prevThen & 0xFFFF)}, []int{int(now >> 16), int(now & 0xFFFF)}
	}
	prevPl, prevNc, prevNr, prevThen = pl, e.Nc, e.Nr, placeDigest(pl, e.Nc, e.Nr)
	rows := make([][]int, e.Nr)
	for y := range rows {
		yy := y
		rows[y] = hlib.ChunkBits(e.Nc, func(i int) bool { return pl.GetBit(i, yy) })
	}
	o["rows"] = rows
}

func doLookup(e *in, o map[string]interface{}) {
	si, err := dmenc.SymbolInfo_Lookup(e.N, shapes[e.Shape], dim(e.Mn), dim(e.Mx), true)
	if err != nil || si == nil {
		o["err"] = 1
		return
	}
	o["err"] = 0
	o["w"], o["h"], o["cap"], o["ecw"] = si.GetSymbolWidth(), si.GetSymbolHeight(), si.GetDataCapacity(), si.GetErrorCodewords()
	o["dw"], o["dh"], o["rw"], o["rh"] = si.GetSymbolDataWidth(), si.GetSymbolDataHeight(), si.GetMatrixWidth(), si.GetMatrixHeight()
	nb := si.GetInterleavedBlockCount()
	o["nblk"], o["total"] = nb, si.GetCodewordCount()
	bd, be := []int{}, []int{}
	for i := 1; i <= nb; i++ {
		bd = append(bd, si.GetDataLengthForInterleavedBlock(i))
		be = append(be, si.GetErrorLengthForInterleavedBlock(i))
	}
	o["blkd"], o["blke"] = bd, be
}

var sharedDecoder = dmdec.NewDecoder()

// doDmg: write a symbol, flip the modules of every fault script (computed by TLC from the standard's placement), decode.
func doDmg(e *in, o map[string]interface{}) {
	text := str(e)
	o["th"] = crc(text)
	bm, werr := datamatrix.NewDataMatrixWriter().Encode(text, gozxing.BarcodeFormat_DATA_MATRIX, 0, 0, hints(e))
	if werr != nil || bm == nil {
		o["err"] = 1
		return
	}
	o["err"], o["w"], o["h"] = 0, bm.GetWidth(), bm.GetHeight()
	res := make([][]int, len(e.Sets))
	dec := sharedDecoder // one decoder object for the whole run (history-dependent decoder state must show)
	for k, st := range e.Sets {
		c, _ := gozxing.NewBitMatrix(bm.GetWidth(), bm.GetHeight())
		for y := 0; y < bm.GetHeight(); y++ {
			for x := 0; x < bm.GetWidth(); x++ {
				if bm.Get(x, y) {
					c.Set(x, y)
				}
			}
		}
		for _, f := range st.Flip {
			c.Flip(f[0], f[1])
		}
		r := []int{6, 0, 0}
		p := hlib.Guard(func() {
			dr, derr := dec.Decode(c)
			switch {
			case derr == nil && dr == nil:
				r[0] = 5
			case derr == nil:
				h := crc(dr.GetText())
				r = []int{0, h[0], h[1]}
			default:
				r[0] = map[string]int{"checksum": 1, "format": 2, "notfound": 3}[kind(derr)]
				if r[0] == 0 {
					r[0] = 4
				}
			}
		})
		if p != "" {
			r = []int{6, 0, 0}
		}
		res[k] = r
	}
	o["res"] = res
}
