// vdrive c15
package main

// C15 driver: character sets and ECI.  Executes one call of the real code per input and records the outcome.
// It decides nothing.  Go-side work: calling golang.org/x/text directly (the trusted byte<->code point tables) to
// attach INPUT DATA to an event (the bytes of a text in a named character set, the text of bytes), rendering nothing.
//
//	byname : common.GetCharacterSetECIByName(name)                          -> found, oname, oval
//	bycs   : entry by name, then common.GetCharacterSetECI(entry.GetCharset()) -> found, oname, oval
//	lookup : common.GetCharacterSetECIByValue(v) for v = lo..lo+n-1          -> hits [[v, name, value]], nnone, nerr
//	guess  : common.StringUtils_guessCharset(bytes, hint?)                   -> guess (label)
//	qr     : QRCodeWriter.Encode(text, hint?) -> QRCodeReader.Decode         -> werr, rerr, otext, head, segs
//	         (enc/rep: bytes of text in character set cs by x/text, attached as data)
//	parse  : decoder.DecodedBitStreamParser_Decode(stream, version 1, hint?)  -> err, otext
//	         (dec/decok: x/text decoding of `bytes` in character set cs, attached as data)
//	table  : for a single-byte character set cs: code point of every byte (or -1)   [input data for the generator]
//	stable : bytes -> runes by x/text in cs, ok iff they encode back to the same bytes [input data for the generator]

import (
	"encoding/json"
	"unicode/utf8"

	"github.com/makiuchi-d/gozxing"
	"github.com/makiuchi-d/gozxing/common"
	"github.com/makiuchi-d/gozxing/qrcode"
	qrdec "github.com/makiuchi-d/gozxing/qrcode/decoder"
	"golang.org/x/text/encoding"
	"golang.org/x/text/encoding/charmap"
	"golang.org/x/text/encoding/ianaindex"
	"golang.org/x/text/encoding/japanese"
	"golang.org/x/text/encoding/korean"
	"golang.org/x/text/encoding/simplifiedchinese"
	"golang.org/x/text/encoding/traditionalchinese"
	"golang.org/x/text/encoding/unicode"
	"verifharness/hlib"
)

type ev struct {
	Op     string          `json:"op"`
	Name   string          `json:"name"`
	Hint   string          `json:"hint"`
	Gs1    int             `json:"gs1"`  // qr: also pass GS1_FORMAT = false (1) / "false" (2) to the writer
	HMut   int             `json:"hmut"` // the call wrote into the caller's hints map
	Cs     string          `json:"cs"`
	Text   []int           `json:"text"`
	Bytes  []int           `json:"bytes"`
	Stream []int           `json:"stream"`
	Eci    int             `json:"eci"`
	Lo     int             `json:"lo"`
	N      int             `json:"n"`
	Enc    []int           `json:"enc"`
	Rep    int             `json:"rep"`
	Dec    []int           `json:"dec"`
	DecOK  int             `json:"decok"`
	Found  int             `json:"found"`
	OName  string          `json:"oname"`
	OVal   int             `json:"oval"`
	Hits   [][]interface{} `json:"hits"`
	NNone  int             `json:"nnone"`
	NErr   int             `json:"nerr"`
	WErr   int             `json:"werr"`
	RErr   int             `json:"rerr"`
	OText  []int           `json:"otext"`
	Head   []int           `json:"head"`
	Segs   [][]int         `json:"segs"`
	Guess  string          `json:"guess"`
	Err    int             `json:"err"`
	Panic  int             `json:"panic"`
	Msg    string          `json:"msg"`
}

var asciiEnc, _ = ianaindex.IANA.Encoding("US-ASCII")

// canonical registry name (spec/Charset.tla) or guess label -> x/text encoding; independent of the library's registry
var encodings = map[string]encoding.Encoding{
	"Cp437": charmap.CodePage437, "ISO-8859-1": charmap.ISO8859_1, "ISO-8859-2": charmap.ISO8859_2,
	"ISO-8859-3": charmap.ISO8859_3, "ISO-8859-4": charmap.ISO8859_4, "ISO-8859-5": charmap.ISO8859_5,
	"ISO-8859-7": charmap.ISO8859_7, "ISO-8859-9": charmap.ISO8859_9, "ISO-8859-13": charmap.ISO8859_13,
	"ISO-8859-15": charmap.ISO8859_15, "ISO-8859-16": charmap.ISO8859_16, "Shift_JIS": japanese.ShiftJIS,
	"windows-1250": charmap.Windows1250, "windows-1251": charmap.Windows1251, "windows-1252": charmap.Windows1252,
	"windows-1256": charmap.Windows1256, "UTF-16BE": unicode.UTF16(unicode.BigEndian, unicode.IgnoreBOM),
	"UTF-8": unicode.UTF8, "ASCII": asciiEnc, "Big5": traditionalchinese.Big5, "GB18030": simplifiedchinese.GB18030,
	"EUC-KR":       korean.EUCKR,
	"UTF-16BE+BOM": unicode.UTF16(unicode.BigEndian, unicode.UseBOM),
	"UTF-16LE+BOM": unicode.UTF16(unicode.LittleEndian, unicode.UseBOM),
}

func label(enc encoding.Encoding) string {
	for _, n := range []string{"UTF-8", "Shift_JIS", "ISO-8859-1", "UTF-16BE+BOM", "UTF-16LE+BOM"} {
		if enc == encodings[n] {
			return n
		}
	}
	if eci, ok := common.GetCharacterSetECI(enc); ok && eci != nil {
		return eci.Name()
	}
	if n, err := ianaindex.IANA.Name(enc); err == nil {
		return "iana:" + n
	}
	return "?"
}

func cps(s string) []int {
	out := []int{}
	for _, r := range s {
		out = append(out, int(r))
	}
	return out
}

func str(cp []int) string {
	rs := make([]rune, len(cp))
	for i, c := range cp {
		rs[i] = rune(c)
	}
	return string(rs)
}

func ints(b []byte) []int {
	out := make([]int, len(b))
	for i, v := range b {
		out[i] = int(v)
	}
	return out
}

var sharedRead = map[gozxing.DecodeHintType]interface{}{gozxing.DecodeHintType_PURE_BARCODE: true}
var sharedParse = map[gozxing.DecodeHintType]interface{}{gozxing.DecodeHintType_TRY_HARDER: true}

func main() {
	hlib.Main(func(raw []byte) (interface{}, error) {
		var e ev
		if err := json.Unmarshal(raw, &e); err != nil {
			return nil, err
		}
		e.Enc, e.Dec, e.OText, e.Head, e.Segs, e.Hits = []int{}, []int{}, []int{}, []int{}, [][]int{}, [][]interface{}{}
		e.OName, e.Guess, e.Msg = "", "", ""
		msg := func(err error) {
			e.Msg = err.Error()
			if len(e.Msg) > 100 {
				e.Msg = e.Msg[:100]
			}
		}
		p := hlib.Guard(func() {
			switch e.Op {
			case "byname":
				if eci, ok := common.GetCharacterSetECIByName(e.Name); ok && eci != nil {
					e.Found, e.OName, e.OVal = 1, eci.Name(), eci.GetValue()
				}
			case "bycs":
				if eci, ok := common.GetCharacterSetECIByName(e.Name); ok && eci != nil {
					if back, ok := common.GetCharacterSetECI(eci.GetCharset()); ok && back != nil {
						e.Found, e.OName, e.OVal = 1, back.Name(), back.GetValue()
					}
				}
			case "lookup":
				for v := e.Lo; v < e.Lo+e.N; v++ {
					eci, err := common.GetCharacterSetECIByValue(v)
					if err != nil {
						e.NErr++
					} else if eci == nil {
						e.NNone++
					} else {
						e.Hits = append(e.Hits, []interface{}{v, eci.Name(), eci.GetValue()})
					}
				}
			case "guess":
				var hints map[gozxing.DecodeHintType]interface{}
				if e.Hint != "" {
					hints = map[gozxing.DecodeHintType]interface{}{gozxing.DecodeHintType_CHARACTER_SET: e.Hint}
				}
				enc, err := common.StringUtils_guessCharset(hlib.IntsToBytes(e.Bytes), hints)
				if err != nil {
					e.Err = 1
					msg(err)
				} else {
					e.Guess = label(enc)
				}
			case "qr":
				text := str(e.Text)
				if enc, ok := encodings[e.Cs]; ok { // attached data: the text's bytes by x/text
					if b, err := enc.NewEncoder().Bytes([]byte(text)); err == nil {
						e.Enc, e.Rep = ints(b), 1
					}
				}
				var hints map[gozxing.EncodeHintType]interface{}
				if e.Hint != "" {
					hints = map[gozxing.EncodeHintType]interface{}{gozxing.EncodeHintType_CHARACTER_SET: e.Hint}
					switch e.Gs1 { // a GS1_FORMAT hint that says "no" must change nothing
					case 1:
						hints[gozxing.EncodeHintType_GS1_FORMAT] = false
					case 2:
						hints[gozxing.EncodeHintType_GS1_FORMAT] = "false"
					}
				}
				m, err := qrcode.NewQRCodeWriter().Encode(text, gozxing.BarcodeFormat_QR_CODE, 0, 0, hints)
				if err != nil {
					e.WErr = 1
					msg(err)
					return
				}
				bmp, err := gozxing.NewBinaryBitmap(gozxing.NewHybridBinarizer(matrixSource(m, 3)))
				if err != nil {
					e.RErr = 1
					msg(err)
					return
				}
				// ONE hints map for all reads of the run, as a caller keeps it: nothing may be written into it
				res, err := qrcode.NewQRCodeReader().Decode(bmp, sharedRead)
				if len(sharedRead) != 1 || sharedRead[gozxing.DecodeHintType_PURE_BARCODE] != true {
					e.HMut = 1
					sharedRead = map[gozxing.DecodeHintType]interface{}{gozxing.DecodeHintType_PURE_BARCODE: true}
				}
				if err != nil {
					e.RErr = 1
					msg(err)
					return
				}
				if !utf8.ValidString(res.GetText()) {
					e.RErr = 2
				}
				e.OText = cps(res.GetText())
				rb := res.GetRawBytes()
				if len(rb) > 5 {
					rb = rb[:5]
				}
				e.Head = ints(rb)
				if segs, ok := res.GetResultMetadata()[gozxing.ResultMetadataType_BYTE_SEGMENTS].([][]byte); ok {
					for _, s := range segs {
						e.Segs = append(e.Segs, ints(s))
					}
				}
			case "parse":
				if enc, ok := encodings[e.Cs]; ok { // attached data: the payload's text by x/text
					if b, err := enc.NewDecoder().Bytes(hlib.IntsToBytes(e.Bytes)); err == nil {
						e.Dec, e.DecOK = cps(string(b)), 1
					}
				}
				hints := sharedParse // un-hinted parses share one (non-nil) map
				if e.Hint != "" {
					hints = map[gozxing.DecodeHintType]interface{}{gozxing.DecodeHintType_CHARACTER_SET: e.Hint}
				}
				v, _ := qrdec.Version_GetVersionForNumber(1)
				res, err := qrdec.DecodedBitStreamParser_Decode(hlib.IntsToBytes(e.Stream), v, qrdec.ErrorCorrectionLevel_L, hints)
				if len(sharedParse) != 1 || sharedParse[gozxing.DecodeHintType_TRY_HARDER] != true {
					e.HMut = 1
					sharedParse = map[gozxing.DecodeHintType]interface{}{gozxing.DecodeHintType_TRY_HARDER: true}
				}
				if err != nil {
					e.Err = 1
					if _, ok := err.(gozxing.FormatException); !ok {
						e.Err = 2
					}
					msg(err)
					return
				}
				if res == nil {
					e.Err = 3
					return
				}
				e.OText = cps(res.GetText())
				for _, s := range res.GetByteSegments() {
					e.Segs = append(e.Segs, ints(s))
				}
			case "table":
				enc := encodings[e.Cs]
				for b := 0; b < 256; b++ {
					out, err := enc.NewDecoder().Bytes([]byte{byte(b)})
					r, n := utf8.DecodeRune(out)
					back, err2 := enc.NewEncoder().Bytes(out)
					if err != nil || r == utf8.RuneError || n != len(out) || err2 != nil || len(back) != 1 || back[0] != byte(b) {
						e.Dec = append(e.Dec, -1)
					} else {
						e.Dec = append(e.Dec, int(r))
					}
				}
			case "stable":
				enc := encodings[e.Cs]
				in := hlib.IntsToBytes(e.Bytes)
				out, err := enc.NewDecoder().Bytes(in)
				if err == nil && utf8.Valid(out) {
					ok := true
					for _, r := range string(out) {
						if r == utf8.RuneError {
							ok = false
						}
					}
					back, err2 := enc.NewEncoder().Bytes(out)
					if ok && err2 == nil && string(back) == string(in) {
						e.Dec, e.DecOK = cps(string(out)), 1
					}
				}
			}
		})
		if p != "" {
			e.Panic, e.Msg = 1, p
		}
		if e.Text == nil {
			e.Text = []int{}
		}
		if e.Bytes == nil {
			e.Bytes = []int{}
		}
		if e.Stream == nil {
			e.Stream = []int{}
		}
		return e, nil
	})
}

// matrixSource: the writer's module matrix as a luminance source, `scale` pixels per module (black = 0, white = 255).
func matrixSource(m *gozxing.BitMatrix, scale int) gozxing.LuminanceSource {
	w, h := m.GetWidth()*scale, m.GetHeight()*scale
	pix := make([]int, w*h)
	for y := 0; y < h; y++ {
		for x := 0; x < w; x++ {
			if m.Get(x/scale, y/scale) {
				pix[y*w+x] = 0xFF000000
			} else {
				pix[y*w+x] = 0xFFFFFFFF
			}
		}
	}
	return gozxing.NewRGBLuminanceSource(w, h, pix)
}
