// vdrive x04
package main

// X04 driver: calls the real common.BitSource (NewBitSource / ReadBits / GetByteOffset / GetBitOffset / Available) and
// records the answers and the state after each call.  Nothing is decided here; TLC judges the events (Trace_BitSource).

import (
	"encoding/json"

	"github.com/makiuchi-d/gozxing/common"
	"verifharness/hlib"
)

type ev struct {
	Op    string `json:"op"`
	Bytes []int  `json:"bytes"`
	N     int    `json:"n"`
	Err   int    `json:"err"`
	Hi    int    `json:"hi"`
	Lo    int    `json:"lo"`
	Bo    int    `json:"bo"`
	Bi    int    `json:"bi"`
	Av    int    `json:"av"`
	Panic int    `json:"panic"`
	Msg   string `json:"msg,omitempty"`
}

func main() {
	var src *common.BitSource
	hlib.Main(func(raw []byte) (interface{}, error) {
		var e ev
		if err := json.Unmarshal(raw, &e); err != nil {
			return nil, err
		}
		if e.Bytes == nil {
			e.Bytes = []int{}
		}
		msg := hlib.Guard(func() {
			switch e.Op {
			case "new":
				b := make([]byte, len(e.Bytes))
				for i, v := range e.Bytes {
					b[i] = byte(v)
				}
				src = common.NewBitSource(b)
			case "read":
				v, err := src.ReadBits(e.N)
				if err != nil {
					e.Err = 1
				} else {
					e.Hi, e.Lo = int(uint64(v)>>16), v&0xFFFF
					if v < 0 || v > 0xFFFFFFFF {
						e.Hi = -1
					}
				}
			}
			e.Bo, e.Bi, e.Av = src.GetByteOffset(), src.GetBitOffset(), src.Available()
		})
		if msg != "" {
			e.Panic, e.Msg = 1, msg
		}
		return e, nil
	})
}
