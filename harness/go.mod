module verifharness

go 1.17

require github.com/makiuchi-d/gozxing v0.0.0

require golang.org/x/xerrors v0.0.0-20200804184101-5ec99f83aff1 // indirect

replace github.com/makiuchi-d/gozxing => /repo

require golang.org/x/text v0.3.7
