module verifharness

go 1.17

require github.com/makiuchi-d/gozxing v0.0.0

replace github.com/makiuchi-d/gozxing => /repo
