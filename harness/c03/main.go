// vdrive c03
package main

// C03 driver: write -> render -> read with the real oned writers / readers.
//   rt    : content c is written by the matching writer (requested width = wk * natural + wa where natural is the width
//           the writer produces for width 0, requested height h, MARGIN hint unless margin < 0, optional forced code set);
//           the written row is recorded as pixel run lengths; the BitMatrix is then read back by the matching reader
//           ("own"; "ext" = Code 39 reader in extended mode), the multi-format UPC/EAN reader without hints ("multi") or with all four formats ("multiA").
//   read  : a symbol given as run lengths (built by TLC) is painted and decoded (as in the C10 driver).
//   block : for cnt consecutive payloads: which check digits the writer accepts (bit mask), then the symbol written with
//           the last accepted digit at the given width is read back: decoded check digit (10 = error) and a flag
//           "format matches and the other digits equal the payload".
// The driver decides nothing; TLC judges the recorded events (spec/Trace_OneDRT.tla).

import (
	"encoding/json"

	"github.com/makiuchi-d/gozxing"
	"github.com/makiuchi-d/gozxing/oned"
	"verifharness/c10/odr"
	"verifharness/hlib"
)

type ev struct {
	Op     string `json:"op"`
	Sym    string `json:"sym"`
	C      []int  `json:"c"`
	Force  string `json:"force"`
	Wk     int    `json:"wk"`
	Wa     int    `json:"wa"`
	H      int    `json:"h"`
	Margin int    `json:"margin"`
	Rd     string `json:"rd"`
	Runs   []int  `json:"runs"`
	Q      int    `json:"q"`
	Scale  int    `json:"scale"`
	Base   []int  `json:"base"`
	Cnt    int    `json:"cnt"`
	M      []int  `json:"m"`
	K      []int  `json:"k"`
	S      []int  `json:"s"`
	Werr   int    `json:"werr"`
	W      int    `json:"w"`
	Hh     int    `json:"hh"`
	Lead   int    `json:"lead"`
	Trail  int    `json:"trail"`
	Same   int    `json:"same"`
	Text   []int  `json:"text"`
	Err    int    `json:"err"`
	Orient int    `json:"orient"`
	Ext    []int  `json:"ext"`
	Fmt    string `json:"fmt"`
	Panic  int    `json:"panic"`
	Msg    string `json:"msg,omitempty"`
}

func nz(e *ev) {
	e.C, e.Runs, e.Base, e.M, e.K, e.S = hlib.NZ(e.C), hlib.NZ(e.Runs), hlib.NZ(e.Base), hlib.NZ(e.M), hlib.NZ(e.K), hlib.NZ(e.S)
	e.Text, e.Ext = hlib.NZ(e.Text), hlib.NZ(e.Ext)
}

func hints(margin int, force string) map[gozxing.EncodeHintType]interface{} {
	h := map[gozxing.EncodeHintType]interface{}{}
	if margin >= 0 {
		h[gozxing.EncodeHintType_MARGIN] = margin
	}
	if force != "" {
		h[gozxing.EncodeHintType_FORCE_CODE_SET] = force
	}
	return h
}

func reader(sym, rd string) (gozxing.Reader, map[gozxing.DecodeHintType]interface{}) {
	switch rd {
	case "ext": // Code 39 reader in extended (full ASCII) mode
		return oned.NewCode39ReaderWithFlags(false, true), nil
	case "multi":
		return oned.NewMultiFormatUPCEANReader(nil), nil
	case "multiA":
		h := map[gozxing.DecodeHintType]interface{}{gozxing.DecodeHintType_POSSIBLE_FORMATS: []gozxing.BarcodeFormat{
			gozxing.BarcodeFormat_UPC_A, gozxing.BarcodeFormat_EAN_13, gozxing.BarcodeFormat_EAN_8, gozxing.BarcodeFormat_UPC_E}}
		return oned.NewMultiFormatUPCEANReader(h), h
	}
	return odr.Reader(sym), nil
}

func main() {
	hlib.Main(func(raw []byte) (interface{}, error) {
		var e ev
		if err := json.Unmarshal(raw, &e); err != nil {
			return nil, err
		}
		nz(&e)
		switch e.Op {
		case "read":
			if e.Scale < 1 {
				e.Scale = 2
			}
			o := odr.Decode(odr.Reader(e.Sym), odr.Render(e.Runs, e.Q, e.Scale, 8), nil)
			e.Text, e.Err, e.Orient, e.Ext, e.Fmt, e.Panic, e.Msg = o.Text, o.Err, o.Orient, o.Ext, o.Fmt, o.Panic, o.Msg
		case "rt":
			var m *gozxing.BitMatrix
			p := hlib.Guard(func() {
				wr, f, hs, content := odr.Writer(e.Sym), odr.Format(e.Sym), hints(e.Margin, e.Force), string(hlib.IntsToBytes(e.C))
				w := 0
				if e.Wk != 0 || e.Wa != 0 {
					nat, err := wr.Encode(content, f, 0, 0, hs)
					if err != nil {
						e.Werr = 1
						return
					}
					w = e.Wk*nat.GetWidth() + e.Wa
				}
				var err error
				m, err = wr.Encode(content, f, w, e.H, hs)
				if err != nil {
					e.Werr = 1
					m = nil
					return
				}
				e.W, e.Hh = m.GetWidth(), m.GetHeight()
				e.Lead, e.Runs, e.Trail, e.Same = odr.MatrixRuns(m)
			})
			if p != "" {
				e.Panic, e.Msg = 1, p
				break
			}
			if m != nil {
				r, hs := reader(e.Sym, e.Rd)
				o := odr.Decode(r, m, hs)
				e.Text, e.Err, e.Orient, e.Ext, e.Fmt, e.Panic, e.Msg = o.Text, o.Err, o.Orient, o.Ext, o.Fmt, o.Panic, o.Msg
			}
		case "block":
			p := hlib.Guard(func() {
				wr, f, hs := odr.Writer(e.Sym), odr.Format(e.Sym), hints(e.Margin, "")
				rdr, _ := reader(e.Sym, e.Rd)
				pay := append([]int{}, e.Base...)
				n := len(pay)
				content := make([]byte, n+1)
				for i := 0; i < e.Cnt; i++ {
					for k, d := range pay {
						content[k] = byte('0' + d)
					}
					mask, acc := 0, -1
					for d := 0; d < 10; d++ {
						content[n] = byte('0' + d)
						if _, err := wr.Encode(string(content), f, 0, 1, hs); err == nil {
							mask |= 1 << uint(d)
							acc = d
						}
					}
					k, s := 10, 0
					if acc >= 0 {
						content[n] = byte('0' + acc)
						if m, err := wr.Encode(string(content), f, e.Wa, e.H, hs); err == nil {
							if bmp, err := gozxing.NewBinaryBitmapFromImage(m); err == nil {
								if res, err := rdr.Decode(bmp, nil); err == nil {
									t := res.GetText()
									if len(t) == n+1 && t[n] >= '0' && t[n] <= '9' {
										k = int(t[n] - '0')
										if t[:n] == string(content[:n]) && res.GetBarcodeFormat() == f {
											s = 1
										}
									}
								}
							}
						}
					}
					e.M, e.K, e.S = append(e.M, mask), append(e.K, k), append(e.S, s)
					for j := n - 1; j >= 0; j-- {
						pay[j]++
						if pay[j] < 10 {
							break
						}
						pay[j] = 0
					}
				}
			})
			if p != "" {
				e.Panic, e.Msg = 1, p
			}
		}
		return e, nil
	})
}
