// vdrive rss
package main

// RSS-14 driver: paints reference symbols (run lengths produced by TLC from spec/RSS14.tla) and reads them with the real
// RSS-14 reader.  It decides nothing.  The verif hooks in oned/rss/rss14_reader.go report every DecodeRow call (the left and
// right pair it found) and every Reset; they are recorded per event so that Trace_RSS can replay the reader's pair tally
// (spec/RSSTally.tla).
//
//	img : runs (46 module counts, first a space) painted `scale` pixels per module with `quiet` modules of white on both
//	      sides, `height` identical rows, turned by rot (0 / 180) degrees; read by
//	        fresh = 1 : a new reader
//	        fresh = 0 : the run's shared reader, after Reset() when reset = 1 - and as it is when reset = 0
//	      with TRY_HARDER when th = 1

import (
	"encoding/json"
	"image"
	"image/color"
	"reflect"

	"github.com/makiuchi-d/gozxing"
	"github.com/makiuchi-d/gozxing/oned/rss"
	"github.com/makiuchi-d/gozxing/verifhook"
	"verifharness/hlib"
)

type ev struct {
	Op     string  `json:"op"`
	K      int     `json:"k"`
	Ds     []int   `json:"ds"`
	Runs   []int   `json:"runs"`
	Scale  int     `json:"scale"`
	Quiet  int     `json:"quiet"`
	Height int     `json:"height"`
	Rot    int     `json:"rot"`
	Fresh  int     `json:"fresh"`
	Reset  int     `json:"reset"`
	Th     int     `json:"th"`
	Rows   [][]int `json:"rows"`   // per DecodeRow call: left value, checksum portion, finder; right value, checksum portion, finder (-1 0 0: none)
	NReset int     `json:"nreset"` // Reset calls seen by the hook before the first row of this event
	Text   []int   `json:"text"`
	Err    int     `json:"err"`
	Kind   string  `json:"kind"`
	Fmt    string  `json:"fmt"`
	Panic  int     `json:"panic"`
	Msg    string  `json:"msg"`
}

func pairInfo(p *rss.Pair) []int {
	if p == nil {
		return []int{-1, 0, 0}
	}
	return []int{p.GetValue(), p.GetChecksumPortion(), p.GetFinderPattern().GetValue()}
}

func paint(e *ev) image.Image {
	w := 0
	for _, r := range e.Runs {
		w += r
	}
	w = (w + 2*e.Quiet) * e.Scale
	img := image.NewGray(image.Rect(0, 0, w, e.Height))
	for i := range img.Pix {
		img.Pix[i] = 255
	}
	x := e.Quiet * e.Scale
	for i, r := range e.Runs {
		for k := 0; k < r*e.Scale; k++ {
			if i%2 == 1 { // the first run is a space
				xx := x
				if e.Rot == 180 {
					xx = w - 1 - x
				}
				for y := 0; y < e.Height; y++ {
					img.SetGray(xx, y, color.Gray{Y: 0})
				}
			}
			x++
		}
	}
	return img
}

func main() {
	shared := rss.NewRSS14Reader()
	var cur *ev
	verifhook.Access = func(loc string, obj interface{}, write bool) {
		if cur == nil {
			return
		}
		switch loc {
		case "rss14.row":
			if ps, ok := obj.([2]*rss.Pair); ok {
				cur.Rows = append(cur.Rows, append(pairInfo(ps[0]), pairInfo(ps[1])...))
			}
		case "rss14.reset":
			if len(cur.Rows) == 0 {
				cur.NReset++
			}
		}
	}
	hlib.Main(func(raw []byte) (interface{}, error) {
		var e ev
		if err := json.Unmarshal(raw, &e); err != nil {
			return nil, err
		}
		e.Rows, e.Text = [][]int{}, []int{}
		cur = &e
		p := hlib.Guard(func() {
			bmp, err := gozxing.NewBinaryBitmapFromImage(paint(&e))
			if err != nil {
				e.Err, e.Kind = 1, "bitmap"
				return
			}
			rd := shared
			if e.Fresh == 1 {
				rd = rss.NewRSS14Reader()
			} else if e.Reset == 1 {
				rd.Reset()
			}
			var h map[gozxing.DecodeHintType]interface{}
			if e.Th == 1 {
				h = map[gozxing.DecodeHintType]interface{}{gozxing.DecodeHintType_TRY_HARDER: true}
			}
			res, err := rd.Decode(bmp, h)
			if err != nil {
				e.Err, e.Msg = 1, err.Error()
				switch err.(type) {
				case gozxing.NotFoundException:
					e.Kind = "notfound"
				case gozxing.ChecksumException:
					e.Kind = "checksum"
				case gozxing.FormatException:
					e.Kind = "format"
				default:
					e.Kind = reflect.TypeOf(err).String()
				}
				if len(e.Msg) > 100 {
					e.Msg = e.Msg[:100]
				}
				return
			}
			for _, c := range res.GetText() {
				e.Text = append(e.Text, int(c)-'0')
			}
			e.Fmt = res.GetBarcodeFormat().String()
		})
		cur = nil
		if p != "" {
			e.Panic, e.Msg = 1, p
		}
		return e, nil
	})
}
