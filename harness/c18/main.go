// vdrive c18: concurrent driver.  K goroutines, each with its own writer / reader instances, run jobs drawn from all
// symbologies at the same time (randomised start barriers); every job is also run alone.  Recorded: for every job the
// digest of its result alone and concurrently, and - through the verif hooks - which goroutine touched which cache /
// scratch object / package-level location.  Built with -race by the check; race reports go to GORACE's log_path.
// The driver never decides anything: TLC (spec/Trace_Conc.tla) judges ownership, determinism and the race count.
package main

import (
	dmdec "github.com/makiuchi-d/gozxing/datamatrix/decoder"
	qrdec "github.com/makiuchi-d/gozxing/qrcode/decoder"
	qrenc "github.com/makiuchi-d/gozxing/qrcode/encoder"
	"time"

	"bytes"
	"encoding/json"
	"fmt"
	"hash/crc32"
	"image"
	"image/color"
	"math/rand"
	"runtime"
	"sort"
	"strconv"
	"sync"

	"github.com/makiuchi-d/gozxing"
	"github.com/makiuchi-d/gozxing/aztec"
	"github.com/makiuchi-d/gozxing/datamatrix"
	"github.com/makiuchi-d/gozxing/oned"
	"github.com/makiuchi-d/gozxing/qrcode"
	"github.com/makiuchi-d/gozxing/verifhook"
	"verifharness/c10/odr"
	"verifharness/hlib"
)

type job struct {
	Kind string `json:"kind"` // qr, dm, ean13, ean8, upca, upce, code39, code93, code128, itf, codabar, aztecread
	Text string `json:"text"`
	W    int    `json:"w"`
	H    int    `json:"h"`
	// kind "runs": a 1-D symbol given as module runs (built by TLC from the standard's tables, e.g. EAN-13 with an add-on)
	Sym   string `json:"sym"`
	Runs  []int  `json:"runs"`
	Q     int    `json:"q"`
	Scale int    `json:"scale"`
	// kind "qr": optional CHARACTER_SET hint for the writer (the reader then decodes an ECI-designated byte segment)
	Cs string `json:"cs"`
	// kind "aztec": a reference Aztec symbol (module matrix as rows of 16-bit chunks, built by TLC from spec/Aztec.tla)
	Rows [][]int `json:"rows"`
	// First: in the first round EVERY goroutine starts with this job, at the same moment - state that is built lazily on
	// first use (tables, caches) is then first used by all of them at once
	First int `json:"first"`
}

type in struct {
	Op     string `json:"op"`
	K      int    `json:"k"`
	Rounds int    `json:"rounds"`
	Procs  int    `json:"procs"`
	Seed   int64  `json:"seed"`
	Jobs   []job  `json:"jobs"`
	Share  int    `json:"share"` // self-test only: 1 = all goroutines deliberately share one RS encoder object through the public API
}

// a round of the quick tier takes a few seconds; a round still running after this many seconds is reported as hung
const roundLimit = 240

func nfirst(js []job) int {
	n := 0
	for _, j := range js {
		if j.First == 1 {
			n++
		}
	}
	return n
}

func gid() int {
	var buf [64]byte
	n := runtime.Stack(buf[:], false)
	f := bytes.Fields(buf[:n])
	if len(f) >= 2 {
		if v, err := strconv.Atoi(string(f[1])); err == nil {
			return v
		}
	}
	return -1
}

type key struct {
	g   int
	loc string
	obj string
}

var (
	mu     sync.Mutex
	access = map[key][2]int{}
	phase  = "seq"
	keep   []interface{} // every observed object stays reachable, so an address is never reused for another object
)

func hook(loc string, obj interface{}, write bool) {
	o := ""
	if obj != nil {
		o = fmt.Sprintf("%p", obj)
	}
	g := gid()
	mu.Lock()
	k := key{g, loc, phase + ":" + o}
	c, seen := access[k]
	if !seen && obj != nil {
		keep = append(keep, obj)
	}
	if write {
		c[1]++
	} else {
		c[0]++
	}
	access[k] = c
	mu.Unlock()
}

func digestMatrix(m *gozxing.BitMatrix, err error) uint32 {
	if err != nil || m == nil {
		return crc32.ChecksumIEEE([]byte("ERR:" + kindOf(err)))
	}
	h := crc32.NewIEEE()
	fmt.Fprintf(h, "%dx%d:", m.GetWidth(), m.GetHeight())
	for y := 0; y < m.GetHeight(); y++ {
		row := make([]byte, (m.GetWidth()+7)/8)
		for x := 0; x < m.GetWidth(); x++ {
			if m.Get(x, y) {
				row[x/8] |= 1 << uint(x%8)
			}
		}
		h.Write(row)
	}
	return h.Sum32()
}

func kindOf(err error) string {
	switch err.(type) {
	case nil:
		return ""
	case gozxing.NotFoundException:
		return "notfound"
	case gozxing.ChecksumException:
		return "checksum"
	case gozxing.FormatException:
		return "format"
	case gozxing.WriterException:
		return "writer"
	}
	return "other"
}

func digestResult(r *gozxing.Result, err error) uint32 {
	if err != nil || r == nil {
		return crc32.ChecksumIEEE([]byte("ERR:" + kindOf(err)))
	}
	return crc32.ChecksumIEEE([]byte(fmt.Sprintf("%v|%s", r.GetBarcodeFormat(), r.GetText())))
}

// run one job on private instances: write, then read the rendered image through the normal locating path.
func run(j job) (uint32, uint32) {
	var w gozxing.Writer
	var r gozxing.Reader
	var f gozxing.BarcodeFormat
	switch j.Kind {
	case "runs":
		o := odr.Decode(odr.Reader(j.Sym), odr.Render(j.Runs, j.Q, j.Scale, 12), nil)
		return crc32.ChecksumIEEE([]byte(fmt.Sprint(j.Sym, len(j.Runs)))), crc32.ChecksumIEEE([]byte(fmt.Sprint(o.Text, o.Err, o.Ext, o.Fmt, o.Panic)))
	case "aztec":
		n := len(j.Rows)
		sc, q := 3, 2
		img := image.NewGray(image.Rect(0, 0, (n+2*q)*sc, (n+2*q)*sc))
		for i := range img.Pix {
			img.Pix[i] = 255
		}
		for y := 0; y < n; y++ {
			for x, b := range hlib.Unchunk(j.Rows[y], n) {
				if b {
					for dy := 0; dy < sc; dy++ {
						for dx := 0; dx < sc; dx++ {
							img.SetGray((q+x)*sc+dx, (q+y)*sc+dy, color.Gray{Y: 0})
						}
					}
				}
			}
		}
		bmp, _ := gozxing.NewBinaryBitmapFromImage(img)
		res, rerr := aztec.NewAztecReader().Decode(bmp, nil)
		return crc32.ChecksumIEEE([]byte(fmt.Sprint("aztec", n))), digestResult(res, rerr)
	case "qrdmg", "dmdmg":
		// a DAMAGED symbol decoded directly: only then does the Reed-Solomon decoder go past the syndrome test (error locator,
		// Chien search, Forney) - state shared there does not show on clean symbols
		var bm *gozxing.BitMatrix
		if j.Kind == "qrdmg" {
			code, err := qrenc.Encoder_encode(j.Text, []qrdec.ErrorCorrectionLevel{qrdec.ErrorCorrectionLevel_L, qrdec.ErrorCorrectionLevel_M,
				qrdec.ErrorCorrectionLevel_Q, qrdec.ErrorCorrectionLevel_H}[j.H%4], nil)
			if err != nil {
				return crc32.ChecksumIEEE([]byte("ERR:writer")), 0
			}
			m := code.GetMatrix()
			d := m.GetWidth()
			bm, _ = gozxing.NewSquareBitMatrix(d)
			for y := 0; y < d; y++ {
				for x := 0; x < d; x++ {
					if m.Get(x, y) == 1 {
						bm.Set(x, y)
					}
				}
			}
			bm.Flip(d-1, d-1)
			bm.Flip(d-1, d-3)
			res, rerr := qrdec.NewDecoder().Decode(bm, nil)
			if rerr != nil || res == nil {
				return crc32.ChecksumIEEE([]byte(fmt.Sprint("qrdmg", d))), crc32.ChecksumIEEE([]byte("ERR:" + kindOf(rerr)))
			}
			return crc32.ChecksumIEEE([]byte(fmt.Sprint("qrdmg", d))), crc32.ChecksumIEEE([]byte(res.GetText()))
		}
		m, err := datamatrix.NewDataMatrixWriter().Encode(j.Text, gozxing.BarcodeFormat_DATA_MATRIX, 0, 0, nil)
		if err != nil || m == nil {
			return crc32.ChecksumIEEE([]byte("ERR:writer")), 0
		}
		m.Flip(2, m.GetHeight()-3)
		res, rerr := dmdec.NewDecoder().Decode(m)
		if rerr != nil || res == nil {
			return crc32.ChecksumIEEE([]byte(fmt.Sprint("dmdmg", m.GetWidth()))), crc32.ChecksumIEEE([]byte("ERR:" + kindOf(rerr)))
		}
		return crc32.ChecksumIEEE([]byte(fmt.Sprint("dmdmg", m.GetWidth()))), crc32.ChecksumIEEE([]byte(res.GetText()))
	case "qr":
		w, r, f = qrcode.NewQRCodeWriter(), qrcode.NewQRCodeReader(), gozxing.BarcodeFormat_QR_CODE
	case "dm":
		w, r, f = datamatrix.NewDataMatrixWriter(), datamatrix.NewDataMatrixReader(), gozxing.BarcodeFormat_DATA_MATRIX
	case "ean13":
		w, r, f = oned.NewEAN13Writer(), oned.NewEAN13Reader(), gozxing.BarcodeFormat_EAN_13
	case "ean8":
		w, r, f = oned.NewEAN8Writer(), oned.NewEAN8Reader(), gozxing.BarcodeFormat_EAN_8
	case "upca":
		w, r, f = oned.NewUPCAWriter(), oned.NewUPCAReader(), gozxing.BarcodeFormat_UPC_A
	case "upce":
		w, r, f = oned.NewUPCEWriter(), oned.NewUPCEReader(), gozxing.BarcodeFormat_UPC_E
	case "code39":
		w, r, f = oned.NewCode39Writer(), oned.NewCode39Reader(), gozxing.BarcodeFormat_CODE_39
	case "code93":
		w, r, f = oned.NewCode93Writer(), oned.NewCode93Reader(), gozxing.BarcodeFormat_CODE_93
	case "code128":
		w, r, f = oned.NewCode128Writer(), oned.NewCode128Reader(), gozxing.BarcodeFormat_CODE_128
	case "itf":
		w, r, f = oned.NewITFWriter(), oned.NewITFReader(), gozxing.BarcodeFormat_ITF
	case "codabar":
		w, r, f = oned.NewCodaBarWriter(), oned.NewCodaBarReader(), gozxing.BarcodeFormat_CODABAR
	case "multi":
		w, r, f = oned.NewEAN13Writer(), oned.NewMultiFormatUPCEANReader(nil), gozxing.BarcodeFormat_EAN_13
	case "aztecread":
		w, r, f = qrcode.NewQRCodeWriter(), aztec.NewAztecReader(), gozxing.BarcodeFormat_QR_CODE
	default:
		return 0, 0
	}
	var wh map[gozxing.EncodeHintType]interface{}
	if j.Cs != "" {
		wh = map[gozxing.EncodeHintType]interface{}{gozxing.EncodeHintType_CHARACTER_SET: j.Cs}
	}
	m, err := w.Encode(j.Text, f, j.W, j.H, wh)
	d1 := digestMatrix(m, err)
	if err != nil || m == nil {
		return d1, 0
	}
	bmp, _ := gozxing.NewBinaryBitmapFromImage(m)
	res, rerr := r.Decode(bmp, nil)
	return d1, digestResult(res, rerr)
}

func main() {
	hlib.Main(func(raw []byte) (interface{}, error) {
		var e in
		if err := json.Unmarshal(raw, &e); err != nil {
			return nil, err
		}
		if e.Procs > 0 {
			runtime.GOMAXPROCS(e.Procs)
		}
		mu.Lock()
		access = map[key][2]int{}
		phase = "seq"
		mu.Unlock()
		verifhook.Access = hook
		// The concurrent rounds run FIRST, in a fresh process: lazily grown shared state (a cache that only races while it is
		// cold) must meet the goroutines before any sequential call has warmed it up.  The jobs run alone afterwards.
		type conc struct {
			ji, g int
			a, b  uint32
		}
		results := []conc{}
		rng := rand.New(rand.NewSource(e.Seed))
		mainG := gid()
		for round := 0; round < e.Rounds; round++ {
			mu.Lock()
			phase = "r" + strconv.Itoa(round)
			mu.Unlock()
			// Even rounds (the first one included) run WITHOUT the access hooks and without any lock of the driver between the
			// jobs: the hook's mutex would order the goroutines (happens-before edges) and hide races from the detector.
			// Odd rounds run with the hooks and give the ownership observations.
			if round%2 == 0 {
				verifhook.Access = nil
			} else {
				verifhook.Access = hook
			}
			perm := rng.Perm(len(e.Jobs))
			start := make(chan struct{})
			var wg sync.WaitGroup
			local := make([][]conc, e.K)
			for g := 0; g < e.K; g++ {
				mine := []int{}
				if round == 0 {
					for ji, j := range e.Jobs {
						if j.First == 1 {
							mine = append(mine, ji)
						}
					}
				}
				for n, ji := range perm {
					if n%e.K == g {
						mine = append(mine, ji)
					}
				}
				spin := rng.Intn(2000)
				wg.Add(1)
				go func(gi int, mine []int, spin int) {
					defer wg.Done()
					<-start
					for x := 0; x < spin; x++ { // randomised start offset
						_ = x * x
					}
					me := gid()
					for _, ji := range mine {
						a, b := run(e.Jobs[ji])
						local[gi] = append(local[gi], conc{ji, me, a, b})
					}
				}(g, mine, spin)
			}
			close(start)
			// a round that does not come back (a decode that never ends on state two goroutines built at once) is an observation, not a
			// reason to wait: the process reports hang = 1 and ends (the stuck goroutines cannot be stopped)
			done := make(chan struct{})
			go func() { wg.Wait(); close(done) }()
			select {
			case <-done:
			case <-time.After(time.Duration(roundLimit) * time.Second):
				verifhook.Access = nil
				return map[string]interface{}{"op": "round", "k": e.K, "rounds": e.Rounds, "procs": e.Procs, "njobs": len(e.Jobs), "nfirst": nfirst(e.Jobs),
					"main": mainG, "own": [][]interface{}{}, "res": [][]int{}, "races": 0, "panic": 0, "hang": 1}, nil
			}
			for _, l := range local {
				results = append(results, l...)
			}
		}
		mu.Lock()
		phase = "seq"
		mu.Unlock()
		seq := make([][2]uint32, len(e.Jobs))
		for i, j := range e.Jobs {
			a, b := run(j)
			seq[i] = [2]uint32{a, b}
		}
		res := [][]int{}
		for _, c := range results {
			res = append(res, []int{c.ji, c.g, int(c.a >> 16), int(c.a & 0xFFFF), int(c.b >> 16), int(c.b & 0xFFFF),
				int(seq[c.ji][0] >> 16), int(seq[c.ji][0] & 0xFFFF), int(seq[c.ji][1] >> 16), int(seq[c.ji][1] & 0xFFFF)})
		}
		verifhook.Access = nil
		own := [][]interface{}{}
		mu.Lock()
		keys := make([]key, 0, len(access))
		for k := range access {
			keys = append(keys, k)
		}
		sort.Slice(keys, func(a, b int) bool {
			if keys[a].obj != keys[b].obj {
				return keys[a].obj < keys[b].obj
			}
			if keys[a].loc != keys[b].loc {
				return keys[a].loc < keys[b].loc
			}
			return keys[a].g < keys[b].g
		})
		for _, k := range keys {
			c := access[k]
			own = append(own, []interface{}{k.g, k.loc, k.obj, c[0], c[1]})
		}
		mu.Unlock()
		return map[string]interface{}{"op": "round", "k": e.K, "rounds": e.Rounds, "procs": e.Procs, "njobs": len(e.Jobs), "nfirst": nfirst(e.Jobs),
			"main": mainG, "own": own, "res": res, "races": 0, "panic": 0, "hang": 0}, nil
	})
}
