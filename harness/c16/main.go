// vdrive c16
package main

// C16 driver: executes BitMatrix / BitArray operation histories on the real containers and records, after
// every call, the projected state (16-bit chunks of Get), the answer, the error outcome and whether it panicked.

import (
	"encoding/json"
	"image/color"
	"strings"

	"github.com/makiuchi-d/gozxing"
	"verifharness/hlib"
)

type bitsEv struct {
	K     string  `json:"k"`
	Op    string  `json:"op"`
	A     []int   `json:"a"`
	B     [][]int `json:"b"`
	W     int     `json:"w"`
	H     int     `json:"h"`
	N     int     `json:"n"`
	St    [][]int `json:"st"`
	R     []int   `json:"r"`
	Err   int     `json:"err"`
	Panic int     `json:"panic"`
	Msg   string  `json:"msg,omitempty"`
}

func matrixState(m *gozxing.BitMatrix) (w, h int, st [][]int) {
	w, h = m.GetWidth(), m.GetHeight()
	st = make([][]int, h)
	for y := 0; y < h; y++ {
		yy := y
		st[y] = hlib.ChunkBits(w, func(i int) bool { return m.Get(i, yy) })
	}
	return
}

func arrayOf(cs []int, n int) *gozxing.BitArray {
	a := gozxing.NewBitArray(n)
	for i, b := range hlib.Unchunk(cs, n) {
		if b {
			a.Set(i)
		}
	}
	return a
}

var bitsTokens = [][3]string{{"X", ".", "\n"}, {"X ", "  ", "\n"}, {"1", "0", "\r\n"}, {"ab", "a", "\n"}}

func main() {
	{
		m, _ := gozxing.NewBitMatrix(1, 1)
		arr := gozxing.NewEmptyBitArray()
		hlib.Main(func(raw []byte) (interface{}, error) {
			var e bitsEv
			if err := json.Unmarshal(raw, &e); err != nil {
				return nil, err
			}
			e.R = []int{}
			a := e.A
			fail := func(err error) {
				if err != nil {
					e.Err = 1
				}
			}
			p := hlib.Guard(func() {
				switch e.Op {
				// ---------------- BitMatrix
				case "new":
					if nm, err := gozxing.NewBitMatrix(a[0], a[1]); err != nil {
						e.Err = 1
					} else {
						m = nm
					}
				case "newsq":
					if nm, err := gozxing.NewSquareBitMatrix(a[0]); err != nil {
						e.Err = 1
					} else {
						m = nm
					}
				case "parsebool":
					img := make([][]bool, a[1])
					for y := range img {
						img[y] = hlib.Unchunk(e.B[y], a[0])
					}
					if nm, err := gozxing.ParseBoolMapToBitMatrix(img); err != nil {
						e.Err = 1
					} else {
						m = nm
					}
				case "parsestr":
					tk := bitsTokens[a[2]%4]
					var sb strings.Builder
					for y := 0; y < a[1]; y++ {
						for _, b := range hlib.Unchunk(e.B[y], a[0]) {
							if b {
								sb.WriteString(tk[0])
							} else {
								sb.WriteString(tk[1])
							}
						}
						sb.WriteString(tk[2])
					}
					if nm, err := gozxing.ParseStringToBitMatrix(sb.String(), tk[0], tk[1]); err != nil {
						e.Err = 1
					} else {
						m = nm
					}
				case "set":
					m.Set(a[0], a[1])
				case "unset":
					m.Unset(a[0], a[1])
				case "flip":
					m.Flip(a[0], a[1])
				case "flipall":
					m.FlipAll()
				case "clear":
					m.Clear()
				case "rot180":
					m.Rotate180()
				case "rot90":
					m.Rotate90()
				case "region":
					fail(m.SetRegion(a[0], a[1], a[2], a[3]))
				case "xor":
					img := make([][]bool, a[1])
					for y := range img {
						img[y] = hlib.Unchunk(e.B[y], a[0])
					}
					mask, err := gozxing.ParseBoolMapToBitMatrix(img)
					if err != nil {
						e.Err = 1
					} else {
						fail(m.Xor(mask))
					}
				case "setrow":
					m.SetRow(a[0], arrayOf(e.B[0], m.GetWidth()))
				case "get":
					e.R = []int{hlib.B2I(m.Get(a[0], a[1]))}
				case "getrow":
					var row *gozxing.BitArray
					if a[1] >= 0 {
						row = gozxing.NewBitArray(m.GetWidth() + a[1])
						row.SetRange(0, row.GetSize())
					}
					got := m.GetRow(a[0], row)
					e.R = append([]int{got.GetSize()}, hlib.ChunkBits(got.GetSize(), got.Get)...)
				case "enclosing":
					e.R = hlib.NZ(m.GetEnclosingRectangle())
				case "topleft":
					e.R = hlib.NZ(m.GetTopLeftOnBit())
				case "bottomright":
					e.R = hlib.NZ(m.GetBottomRightOnBit())
				case "dims":
					e.R = []int{m.GetWidth(), m.GetHeight(), m.GetRowSize()}
				case "tostring":
					tk := bitsTokens[a[0]%4]
					if a[0]%4 == 1 {
						e.R = hlib.BytesToInts(m.String())
					} else if tk[2] == "\n" {
						e.R = hlib.BytesToInts(m.ToString(tk[0], tk[1]))
					} else {
						e.R = hlib.BytesToInts(m.ToStringWithLineSeparator(tk[0], tk[1], tk[2]))
					}
				case "reparse":
					tk := bitsTokens[a[0]%4]
					if nm, err := gozxing.ParseStringToBitMatrix(m.ToStringWithLineSeparator(tk[0], tk[1], tk[2]), tk[0], tk[1]); err != nil {
						e.Err = 1
					} else {
						m = nm
					}
				case "at":
					c := m.At(a[0], a[1])
					g, ok := c.(color.Gray)
					if !ok {
						e.R = []int{-1}
					} else {
						e.R = []int{int(g.Y)}
					}
				case "bounds":
					b := m.Bounds()
					e.R = []int{b.Min.X, b.Min.Y, b.Max.X, b.Max.Y, hlib.B2I(m.ColorModel() == color.GrayModel)}
				// ---------------- BitArray
				case "anew":
					arr = gozxing.NewBitArray(a[0])
				case "aempty":
					arr = gozxing.NewEmptyBitArray()
				case "aset":
					arr.Set(a[0])
				case "aflip":
					arr.Flip(a[0])
				case "aclear":
					arr.Clear()
				case "setrange":
					fail(arr.SetRange(a[0], a[1]))
				case "appendbit":
					arr.AppendBit(a[0] == 1)
				case "appendbits":
					fail(arr.AppendBits(a[0]<<16|a[1], a[2]))
				case "appendarr":
					arr.AppendBitArray(arrayOf(e.B[0], a[0]))
				case "appendself":
					arr.AppendBitArray(arr)
				case "axor":
					fail(arr.Xor(arrayOf(e.B[0], a[0])))
				case "reverse":
					arr.Reverse()
				case "setbulk":
					arr.SetBulk(a[0], uint32(a[1])|uint32(a[2])<<16)
				case "aget":
					e.R = []int{hlib.B2I(arr.Get(a[0]))}
				case "nextset":
					e.R = []int{arr.GetNextSet(a[0])}
				case "nextunset":
					e.R = []int{arr.GetNextUnset(a[0])}
				case "isrange":
					r, err := arr.IsRange(a[0], a[1], a[2] == 1)
					e.R = []int{hlib.B2I(r)}
					fail(err)
				case "tobytes":
					buf := make([]byte, a[1]+2)
					arr.ToBytes(a[0], buf, 1, a[1])
					e.R = make([]int, a[1])
					for i := range e.R {
						e.R[i] = int(buf[1+i])
					}
				case "sizes":
					e.R = []int{arr.GetSize(), arr.GetSizeInBytes()}
				case "astring":
					e.R = hlib.BytesToInts(arr.String())
				default:
					panic("unknown op " + e.Op)
				}
			})
			if p != "" {
				e.Panic, e.Msg = 1, p
				if strings.HasPrefix(p, "unknown op") {
					return nil, errString(p)
				}
			}
			if e.K == "m" {
				if p2 := hlib.Guard(func() { e.W, e.H, e.St = matrixState(m) }); p2 != "" {
					e.Panic, e.W, e.H, e.St = 1, 1, 1, [][]int{{0}}
				}
			} else {
				if p2 := hlib.Guard(func() { e.N = arr.GetSize(); e.St = [][]int{hlib.ChunkBits(e.N, arr.Get)} }); p2 != "" {
					e.Panic, e.N, e.St = 1, 0, [][]int{{}}
				}
			}
			if e.B == nil {
				e.B = [][]int{}
			}
			return e, nil
		})
	}
}

type errString string

func (e errString) Error() string { return string(e) }
