// vdrive c04
package main

// C04 driver: calls the real reedsolomon package (GenericGF tables, ReedSolomonEncoder.Encode,
// ReedSolomonDecoder.Decode) on the given inputs and records what came back.  It decides nothing: TLC judges the
// recorded events against spec/GF.tla and spec/RS.tla (Trace_RS).  One encoder and one decoder per field live for
// the whole run, as in the library's own use (the encoder caches its generator polynomials).

import (
	"encoding/json"
	"fmt"
	"time"

	"github.com/makiuchi-d/gozxing/common/reedsolomon"
	"verifharness/hlib"
)

type ev struct {
	Op     string  `json:"op"`
	F      int     `json:"f"`
	A      []int   `json:"a"`
	X      []int   `json:"x"`
	E      [][]int `json:"e"`
	C      []int   `json:"c"`
	Y      []int   `json:"y"`
	W      []int   `json:"w"`
	Z      []int   `json:"z"`
	Err    int     `json:"err"`
	Panic  int     `json:"panic"`
	Derr   int     `json:"derr"`
	Dpanic int     `json:"dpanic"`
	Fresh  int     `json:"fresh"` // input only: 1 = use a fresh encoder for this event
	Msg    string  `json:"msg,omitempty"`
}

// field ids of spec/GF.tla
func field(id int) *reedsolomon.GenericGF {
	switch id {
	case 1:
		return reedsolomon.GenericGF_QR_CODE_FIELD_256
	case 2:
		return reedsolomon.GenericGF_DATA_MATRIX_FIELD_256
	case 3:
		return reedsolomon.GenericGF_AZTEC_PARAM
	case 4:
		return reedsolomon.GenericGF_AZTEC_DATA_6
	case 5:
		return reedsolomon.GenericGF_AZTEC_DATA_10
	case 6:
		return reedsolomon.GenericGF_AZTEC_DATA_12
	}
	return nil
}

// guarded runs f with recover() and a watchdog: 0 = returned, 1 = panicked, 2 = did not return within the limit.
func guarded(limit time.Duration, f func()) (int, string) {
	done := make(chan string, 1)
	go func() { done <- hlib.Guard(f) }()
	select {
	case p := <-done:
		if p != "" {
			return 1, p
		}
		return 0, ""
	case <-time.After(limit):
		return 2, "watchdog"
	}
}

func cp(a []int) []int { return append([]int{}, a...) }

// A call that does not return cannot be stopped; after maxHangs of them the remaining codec inputs are not executed
// any more and are reported with panic = 3 (abandoned), so that a run on a hanging implementation ends.
const maxHangs = 3
const callLimit = 20 * time.Second

func main() {
	encs := map[int]*reedsolomon.ReedSolomonEncoder{}
	decs := map[int]*reedsolomon.ReedSolomonDecoder{}
	hangs := 0
	hlib.Main(func(raw []byte) (interface{}, error) {
		var e ev
		if err := json.Unmarshal(raw, &e); err != nil {
			return nil, err
		}
		gf := field(e.F)
		if gf == nil {
			return nil, fmt.Errorf("unknown field id %d", e.F)
		}
		if e.A == nil {
			e.A = []int{}
		}
		if e.X == nil {
			e.X = []int{}
		}
		if e.E == nil {
			e.E = [][]int{}
		}
		if e.C == nil {
			e.C = []int{}
		}
		e.Y, e.W, e.Z = []int{}, []int{}, []int{}
		if encs[e.F] == nil || e.Fresh == 1 {
			encs[e.F] = reedsolomon.NewReedSolomonEncoder(gf)
			decs[e.F] = reedsolomon.NewReedSolomonDecoder(gf)
		}
		e.Fresh = 0
		q := gf.GetSize()
		switch e.Op {
		case "tables":
			e.Panic, e.Msg = guarded(20*time.Second, func() {
				for i := 0; i < q; i++ {
					e.Y = append(e.Y, gf.Exp(i))
				}
				for a := 1; a < q; a++ {
					l, err := gf.Log(a)
					if err != nil {
						e.Err++
					}
					e.W = append(e.W, l)
					v, err := gf.Inverse(a)
					if err != nil {
						e.Err++
					}
					e.Z = append(e.Z, v)
				}
			})
		case "mulrow":
			e.Panic, e.Msg = guarded(20*time.Second, func() {
				for b := 0; b < q; b++ {
					e.Y = append(e.Y, gf.Multiply(e.A[0], b))
				}
			})
		case "enc", "dec":
			if hangs >= maxHangs {
				e.Panic, e.Msg = 3, "abandoned after repeated hangs"
				break
			}
			r := e.A[0]
			word := make([]int, len(e.X)+r)
			copy(word, e.X)
			for i := len(e.X); i < len(word); i++ {
				word[i] = q - 1 // stale content of the parity area must not matter
			}
			enc := encs[e.F]
			e.Panic, e.Msg = guarded(callLimit, func() {
				if err := enc.Encode(word, r); err != nil {
					e.Err = 1
					e.Msg = err.Error()
				}
			})
			e.Y = cp(word)
			if e.Panic == 2 {
				encs[e.F] = nil
				hangs++
			}
			if e.Op == "dec" && e.Panic == 0 && e.Err == 0 {
				rcv := cp(word)
				for _, pm := range e.E {
					if len(pm) == 2 && pm[0] >= 0 && pm[0] < len(rcv) {
						rcv[pm[0]] ^= pm[1]
					}
				}
				e.W = cp(rcv)
				dec := decs[e.F]
				e.Dpanic, e.Msg = guarded(callLimit, func() {
					if err := dec.Decode(rcv, r); err != nil {
						e.Derr = 1
					}
				})
				if e.Dpanic == 2 {
					hangs++
					e.Z = []int{}
				} else {
					e.Z = cp(rcv)
				}
			}
		default:
			return nil, fmt.Errorf("unknown op %q", e.Op)
		}
		return &e, nil
	})
}
