// vdrive c12
package main

// C12 driver: calls gozxing.Writer.Encode of the eleven writers with arbitrary contents, formats, sizes and hints and
// records what came back: a matrix (and its size), an error, both, neither, a panic, or nothing within the time bound.
//
// Every call runs in a *worker process* (this binary re-executed with "worker"): the parent hands it one input line,
// waits for one observation line and kills it when it does not answer - a goroutine stuck in an endless loop cannot
// be stopped any other way, and a fatal runtime error (stack overflow, out of memory) is not recoverable in-process.
// The time bound is 2 s of *processor* time consumed by the call (the machine is shared; a call that merely waits for
// a processor must not look like non-termination), with a wall-clock limit of 30 s.
//
// Besides the call under observation the worker performs the *bare* call (same writer, contents and hints, requested
// size 0x0, MARGIN 0): its result is the module matrix of the symbol itself (QR: no quiet zone, 1-D: one pixel per
// module and one row, Data Matrix: the bare symbol).  Requested sizes can be given relative to it (wk/hk: 0 literal,
// 1 = symbol size + w, 2 = symbol size * w).  The driver decides nothing - TLC (Trace_Totality) judges every event.

import (
	"math"
	"bufio"
	"encoding/json"
	"fmt"
	"io"
	"os"
	"os/exec"
	"runtime"
	"sync"
	"syscall"
	"time"

	"github.com/makiuchi-d/gozxing"
	"github.com/makiuchi-d/gozxing/datamatrix"
	dmenc "github.com/makiuchi-d/gozxing/datamatrix/encoder"
	"github.com/makiuchi-d/gozxing/oned"
	"github.com/makiuchi-d/gozxing/qrcode"
	"github.com/makiuchi-d/gozxing/qrcode/decoder"
)

type hint struct {
	K  string `json:"k"`  // hint key name
	T  int    `json:"t"`  // 0 int, 1 string, 2 bool, 3 ErrorCorrectionLevel, 4 SymbolShapeHint, 5 *Dimension, 6 int i + a * symbol width
	I  int    `json:"i"`  // int / bool / enum value (t = 3: 0..3 = L M Q H, anything else = the raw enum value)
	S  []int  `json:"s"`  // string bytes
	Sn string `json:"sn"` // the same string as text (for the reader of the trace; not used here)
	A  int    `json:"a"`  // Dimension width
	B  int    `json:"b"`  // Dimension height
}

type ev struct {
	Op    string `json:"op"`
	Wr    string `json:"wr"`  // writer
	Fmt   int    `json:"fmt"` // BarcodeFormat value
	Cp    []int  `json:"cp"`  // contents: the bytes cp repeated cyclically up to length cn
	Cn    int    `json:"cn"`
	Wk    int    `json:"wk"` // how the requested width is meant: 0 literal, 1 symbol + w0, 2 symbol * w0
	Hk    int    `json:"hk"`
	W0    int    `json:"w0"`
	H0    int    `json:"h0"`
	Hints []hint `json:"hints"`
	Tag   string `json:"tag"`
	// observations
	W     int    `json:"w"` // requested size actually passed
	H     int    `json:"h"`
	Sok   int    `json:"sok"` // bare call returned a matrix
	Sw    int    `json:"sw"`  // its size = the symbol's module matrix
	Sh    int    `json:"sh"`
	Mat   int    `json:"mat"` // matrix != nil
	Err   int    `json:"err"` // err != nil
	Panic int    `json:"panic"`
	Hang  int    `json:"hang"`
	Ow    int    `json:"ow"` // size of the returned matrix
	Oh    int    `json:"oh"`
	Ms    int    `json:"ms"`
	Msg   string `json:"msg"`
}

var hintKeys = map[string]gozxing.EncodeHintType{
	"ERROR_CORRECTION": gozxing.EncodeHintType_ERROR_CORRECTION, "CHARACTER_SET": gozxing.EncodeHintType_CHARACTER_SET,
	"MARGIN": gozxing.EncodeHintType_MARGIN, "QR_VERSION": gozxing.EncodeHintType_QR_VERSION,
	"QR_MASK_PATTERN": gozxing.EncodeHintType_QR_MASK_PATTERN, "GS1_FORMAT": gozxing.EncodeHintType_GS1_FORMAT,
	"DATA_MATRIX_SHAPE": gozxing.EncodeHintType_DATA_MATRIX_SHAPE, "MIN_SIZE": gozxing.EncodeHintType_MIN_SIZE,
	"MAX_SIZE": gozxing.EncodeHintType_MAX_SIZE, "FORCE_CODE_SET": gozxing.EncodeHintType_FORCE_CODE_SET,
}

func writerFor(w string) gozxing.Writer {
	switch w {
	case "QR":
		return qrcode.NewQRCodeWriter()
	case "DM":
		return datamatrix.NewDataMatrixWriter()
	case "EAN13":
		return oned.NewEAN13Writer()
	case "EAN8":
		return oned.NewEAN8Writer()
	case "UPCA":
		return oned.NewUPCAWriter()
	case "UPCE":
		return oned.NewUPCEWriter()
	case "C39":
		return oned.NewCode39Writer()
	case "C93":
		return oned.NewCode93Writer()
	case "C128":
		return oned.NewCode128Writer()
	case "ITF":
		return oned.NewITFWriter()
	case "CBAR":
		return oned.NewCodaBarWriter()
	}
	return nil
}

func str(a []int) string {
	b := make([]byte, len(a))
	for i, v := range a {
		b[i] = byte(v)
	}
	return string(b)
}

func contents(e *ev) string {
	if len(e.Cp) == 0 || e.Cn <= 0 {
		return ""
	}
	b := make([]byte, e.Cn)
	for i := range b {
		b[i] = byte(e.Cp[i%len(e.Cp)])
	}
	return string(b)
}

func hintMap(hs []hint, bare bool) (map[gozxing.EncodeHintType]interface{}, error) {
	if len(hs) == 0 && !bare {
		return nil, nil
	}
	m := map[gozxing.EncodeHintType]interface{}{}
	for _, h := range hs {
		k, ok := hintKeys[h.K]
		if !ok {
			return nil, fmt.Errorf("unknown hint key %q", h.K)
		}
		switch h.T {
		case 0:
			m[k] = h.I
		case 6:
			m[k] = 0 // resolved after the bare call
		case 7:
			m[k] = int(uint64(1)<<uint(h.A)) + h.I // 2^a + i; a = 63, i = -1 is the largest int
		case 1:
			m[k] = str(h.S)
		case 2:
			m[k] = h.I != 0
		case 3:
			switch h.I {
			case 0:
				m[k] = decoder.ErrorCorrectionLevel_L
			case 1:
				m[k] = decoder.ErrorCorrectionLevel_M
			case 2:
				m[k] = decoder.ErrorCorrectionLevel_Q
			case 3:
				m[k] = decoder.ErrorCorrectionLevel_H
			default:
				m[k] = decoder.ErrorCorrectionLevel(h.I)
			}
		case 4:
			m[k] = dmenc.SymbolShapeHint(h.I)
		case 5:
			d, err := gozxing.NewDimension(h.A, h.B)
			if err != nil {
				return nil, fmt.Errorf("dimension %dx%d cannot be constructed", h.A, h.B)
			}
			m[k] = d
		default:
			return nil, fmt.Errorf("unknown hint type %d", h.T)
		}
	}
	if bare {
		m[gozxing.EncodeHintType_MARGIN] = 0
	}
	return m, nil
}

type outcome struct {
	mat, err, panicked, hang int
	w, h                     int
	msg                      string
	ms                       int
}

// call runs one Encode under recover() and a watchdog.
func call(wr gozxing.Writer, c string, f gozxing.BarcodeFormat, w, h int, hm map[gozxing.EncodeHintType]interface{},
	bound time.Duration) outcome {
	ch := make(chan outcome, 1)
	t0 := time.Now()
	go func() {
		var o outcome
		defer func() {
			if r := recover(); r != nil {
				o = outcome{panicked: 1, msg: fmt.Sprint(r)}
				if len(o.msg) > 160 {
					o.msg = o.msg[:160]
				}
			}
			ch <- o
		}()
		m, err := wr.Encode(c, f, w, h, hm)
		if m != nil {
			o.mat, o.w, o.h = 1, m.GetWidth(), m.GetHeight()
		}
		if err != nil {
			o.err = 1
			o.msg = err.Error()
			if len(o.msg) > 160 {
				o.msg = o.msg[:160]
			}
		}
	}()
	// The time bound is CPU time: on a loaded machine a call may wait for a processor much longer than it computes.
	// A call that has burnt `bound` of processor time (this process does nothing else), or has not returned after
	// wallLimit whatever it burnt, is recorded as a hang.
	c0, n := cpuTime(), 0
	tick := time.NewTicker(20 * time.Millisecond)
	defer tick.Stop()
	for {
		select {
		case o := <-ch:
			o.ms = int(time.Since(t0) / time.Millisecond)
			return o
		case <-tick.C:
			if cpuTime()-c0 >= bound || time.Since(t0) >= wallLimit {
				return outcome{hang: 1, ms: int(time.Since(t0) / time.Millisecond), msg: "no return within the time bound"}
			}
			if n++; n%10 == 0 { // a loop that only grows its output must not take the (shared) machine down
				var ms runtime.MemStats
				runtime.ReadMemStats(&ms)
				if ms.HeapAlloc > heapLimit {
					return outcome{hang: 1, ms: int(time.Since(t0) / time.Millisecond), msg: "no return before 1.5 GB were allocated"}
				}
			}
		}
	}
}

const (
	wallLimit = 30 * time.Second
	heapLimit = 1536 << 20
)

// cpuTime is the processor time (user + system) this process has consumed.
func cpuTime() time.Duration {
	var ru syscall.Rusage
	if err := syscall.Getrusage(syscall.RUSAGE_SELF, &ru); err != nil {
		return 0
	}
	return time.Duration(ru.Utime.Nano() + ru.Stime.Nano())
}

func resolve(kind, v, sym int) int {
	switch kind {
	case 1:
		return sym + v
	case 2:
		return sym * v
	case 3: // the top of the int range: MaxInt64 - v
		return math.MaxInt64 - v
	}
	return v
}

// clamp keeps a requested size inside TLC's 32-bit integers when it is reported back (2^30 stands for "2^30 or more")
func clamp(v int) int {
	if v > 1<<30 {
		return 1 << 30
	}
	return v
}

// observe performs the bare call and the call under observation.
func observe(e *ev, bound time.Duration) error {
	wr := writerFor(e.Wr)
	if wr == nil {
		return fmt.Errorf("unknown writer %q", e.Wr)
	}
	c := contents(e)
	bm, err := hintMap(e.Hints, true)
	if err != nil {
		return err
	}
	b := call(wr, c, gozxing.BarcodeFormat(e.Fmt), 0, 0, bm, bound)
	if b.mat == 1 && b.err == 0 && b.panicked == 0 && b.hang == 0 {
		e.Sok, e.Sw, e.Sh = 1, b.w, b.h
	}
	for i := range e.Hints { // an int hint given relative to the symbol width becomes a plain int
		if e.Hints[i].T == 6 {
			e.Hints[i].T, e.Hints[i].I, e.Hints[i].A = 0, e.Hints[i].I+e.Hints[i].A*e.Sw, 0
		}
	}
	hm, err := hintMap(e.Hints, false)
	if err != nil {
		return err
	}
	if b.hang == 1 { // the stuck goroutine stays behind: report it on the call itself, the parent restarts the worker
		e.Hang, e.Msg, e.Ms = 1, "bare call: "+b.msg, b.ms
		e.W, e.H = resolve(e.Wk, e.W0, 0), resolve(e.Hk, e.H0, 0)
		return nil
	}
	e.W, e.H = resolve(e.Wk, e.W0, e.Sw), resolve(e.Hk, e.H0, e.Sh)
	o := call(writerFor(e.Wr), c, gozxing.BarcodeFormat(e.Fmt), e.W, e.H, hm, bound)
	e.Mat, e.Err, e.Panic, e.Hang, e.Ow, e.Oh, e.Ms, e.Msg = o.mat, o.err, o.panicked, o.hang, clamp(o.w), clamp(o.h), o.ms, o.msg
	e.W, e.H = clamp(e.W), clamp(e.H)
	return nil
}

// ---------------------------------------------------------------- worker process
func worker() {
	in := bufio.NewReaderSize(os.Stdin, 1<<20)
	out := bufio.NewWriter(os.Stdout)
	for {
		line, err := in.ReadBytes('\n')
		if len(line) > 1 {
			var req struct {
				Bound int             `json:"bound"`
				Ev    json.RawMessage `json:"ev"`
			}
			var e ev
			resp := map[string]interface{}{}
			if uerr := json.Unmarshal(line, &req); uerr != nil {
				resp["fail"] = uerr.Error()
			} else if uerr := json.Unmarshal(req.Ev, &e); uerr != nil {
				resp["fail"] = uerr.Error()
			} else if oerr := observe(&e, time.Duration(req.Bound)*time.Millisecond); oerr != nil {
				resp["fail"] = oerr.Error()
			} else {
				if e.Cp == nil {
					e.Cp = []int{}
				}
				if e.Hints == nil {
					e.Hints = []hint{}
				}
				for i := range e.Hints {
					if e.Hints[i].S == nil {
						e.Hints[i].S = []int{}
					}
				}
				resp["ev"] = e
			}
			b, _ := json.Marshal(resp)
			out.Write(b)
			out.WriteByte('\n')
			out.Flush()
		}
		if err != nil {
			return
		}
	}
}

type proc struct {
	cmd *exec.Cmd
	in  io.WriteCloser
	out *bufio.Reader
}

func spawn() (*proc, error) {
	exe, err := os.Executable()
	if err != nil {
		return nil, err
	}
	cmd := exec.Command(exe, "worker")
	cmd.Stderr = io.Discard
	in, err := cmd.StdinPipe()
	if err != nil {
		return nil, err
	}
	o, err := cmd.StdoutPipe()
	if err != nil {
		return nil, err
	}
	if err := cmd.Start(); err != nil {
		return nil, err
	}
	return &proc{cmd, in, bufio.NewReaderSize(o, 1<<20)}, nil
}

func (p *proc) kill() {
	p.in.Close()
	p.cmd.Process.Kill()
	p.cmd.Wait()
}

type answer struct {
	line []byte
	err  error
}

// ask sends one request; returns the response line, or died/timeout.
func (p *proc) ask(raw []byte, boundMs int) (resp []byte, died, timeout bool) {
	req, _ := json.Marshal(map[string]interface{}{"bound": boundMs, "ev": json.RawMessage(raw)})
	if _, err := p.in.Write(append(req, '\n')); err != nil {
		return nil, true, false
	}
	ch := make(chan answer, 1)
	go func() {
		l, err := p.out.ReadBytes('\n')
		ch <- answer{l, err}
	}()
	select {
	case a := <-ch:
		if a.err != nil {
			return nil, true, false
		}
		return a.line, false, false
	case <-time.After(2*wallLimit + 15*time.Second):
		return nil, false, true
	}
}

const bound1 = 2000 // ms of processor time: the time bound of the property's reading

func parent(inPath, outPath string) error {
	in, err := os.Open(inPath)
	if err != nil {
		return err
	}
	defer in.Close()
	var lines [][]byte
	sc := bufio.NewScanner(in)
	sc.Buffer(make([]byte, 1<<20), 1<<28)
	for sc.Scan() {
		if len(sc.Bytes()) > 0 {
			lines = append(lines, append([]byte(nil), sc.Bytes()...))
		}
	}
	if err := sc.Err(); err != nil {
		return err
	}
	results := make([][]byte, len(lines))
	nw := runtime.NumCPU() / 2
	if nw < 1 {
		nw = 1
	}
	if nw > 8 {
		nw = 8
	}
	idx := make(chan int, 1024)
	var wg sync.WaitGroup
	var mu sync.Mutex
	var firstErr error
	fail := func(e error) {
		mu.Lock()
		if firstErr == nil {
			firstErr = e
		}
		mu.Unlock()
	}
	for k := 0; k < nw; k++ {
		wg.Add(1)
		go func() {
			defer wg.Done()
			var p *proc
			defer func() {
				if p != nil {
					p.kill()
				}
			}()
			for i := range idx {
				mu.Lock()
				stop := firstErr != nil
				mu.Unlock()
				if stop {
					continue
				}
				var final []byte
				for _, bound := range []int{bound1} {
					if p == nil {
						var err error
						if p, err = spawn(); err != nil {
							fail(err)
							break
						}
					}
					resp, died, timeout := p.ask(lines[i], bound)
					var r struct {
						Fail string          `json:"fail"`
						Ev   json.RawMessage `json:"ev"`
					}
					var e ev
					if !died && !timeout {
						if err := json.Unmarshal(resp, &r); err != nil {
							fail(fmt.Errorf("input %d: bad worker answer: %v", i+1, err))
							break
						}
						if r.Fail != "" {
							fail(fmt.Errorf("input %d: %s", i+1, r.Fail))
							break
						}
						if err := json.Unmarshal(r.Ev, &e); err != nil {
							fail(err)
							break
						}
					}
					if died || timeout || e.Hang == 1 {
						p.kill() // a goroutine is stuck in there or the process is gone
						p = nil
					}
					if died { // fatal runtime error: not recoverable, counts as a panic of the call
						json.Unmarshal(lines[i], &e)
						e.Panic, e.Msg = 1, "fatal: the worker process died during the call"
						e.W, e.H = resolve(e.Wk, e.W0, 0), resolve(e.Hk, e.H0, 0)
						fix(&e)
						final, _ = json.Marshal(e)
						break
					}
					if timeout || e.Hang == 1 {
						if timeout {
							json.Unmarshal(lines[i], &e)
							e.Hang, e.Msg = 1, "worker unresponsive"
							e.W, e.H = resolve(e.Wk, e.W0, 0), resolve(e.Hk, e.H0, 0)
						}
						fix(&e)
						final, _ = json.Marshal(e)
						break
					}
					final = r.Ev
					break
				}
				results[i] = final
			}
		}()
	}
	for i := range lines {
		idx <- i
	}
	close(idx)
	wg.Wait()
	if firstErr != nil {
		return firstErr
	}
	out, err := os.Create(outPath)
	if err != nil {
		return err
	}
	defer out.Close()
	w := bufio.NewWriterSize(out, 1<<20)
	defer w.Flush()
	for i, r := range results {
		if r == nil {
			return fmt.Errorf("input %d: no observation", i+1)
		}
		w.Write(r)
		w.WriteByte('\n')
	}
	return nil
}

func fix(e *ev) {
	if e.Cp == nil {
		e.Cp = []int{}
	}
	if e.Hints == nil {
		e.Hints = []hint{}
	}
	for i := range e.Hints {
		if e.Hints[i].S == nil {
			e.Hints[i].S = []int{}
		}
		if e.Hints[i].T == 6 { // the symbol width is not known when the worker did not answer
			e.Hints[i].T, e.Hints[i].A = 0, 0
		}
	}
}

func main() {
	if len(os.Args) >= 2 && os.Args[1] == "worker" {
		worker()
		return
	}
	if len(os.Args) < 4 || os.Args[1] != "exec" {
		fmt.Fprintln(os.Stderr, "usage: exec <in.ndjson> <out.ndjson>")
		os.Exit(3)
	}
	if err := parent(os.Args[2], os.Args[3]); err != nil {
		fmt.Fprintln(os.Stderr, "vdrive:", err)
		os.Exit(3)
	}
}
