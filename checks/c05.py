"""C05 - damaged QR / Data Matrix symbols decode exactly up to the promised capacity.
Fault scripts are expressed in codeword / bit coordinates of the STANDARD's block structure; TLC (Gen_QRPos, Gen_DMPos)
supplies the placement maps that turn them into module flips, the harness applies them to symbols written by the real
encoder and decodes with the real decoder, and TLC (Trace_QR / Trace_DM) re-derives every script from the standard,
decides whether it is within capacity and judges the outcome."""
import itertools, random
import vlib, qrlib


def qr_maps(ctx, versions):
    res = vlib.run_tlc(ctx, "Gen_QRPos", "Gen_QRPos", workers=min(vlib.NCPU, len(versions)), timeout=1500,
                       consts={"Vs": "{" + ", ".join(map(str, versions)) + "}"})
    maps = {m["v"]: m for m in vlib.tlc_printed(res)}
    if set(maps) != set(versions):
        raise vlib.Infra("Gen_QRPos returned maps for %s, wanted %s\n%s" % (sorted(maps), versions, res.out[-1500:]))
    return maps


def flips_of(mp, ec, faults):
    out = []
    for kind, a, b, c in faults:
        if kind == 0:
            s = mp["blocks"][ec - 1][a - 1][b - 1]
            for j in range(8):
                if (c >> (7 - j)) & 1:
                    out.append(mp["pos"][8 * (s - 1) + j])
        else:
            out.append(mp[{1: "f1", 2: "f2", 3: "v1", 4: "v2"}[kind]][a])
    return out


def mkset(mp, ec, faults):
    return dict(faults=[list(f) for f in faults], flip=flips_of(mp, ec, faults))


def full_capacity(rng, mp, ec, style, extra_block=None):
    fs = []
    t = mp["t"][ec - 1]
    for b, idx in enumerate(mp["blocks"][ec - 1], 1):
        k = t + (1 if extra_block == b else 0)
        for i in rng.sample(range(1, len(idx) + 1), min(k, len(idx))):
            x = 1 if style == 0 else 255 if style == 1 else rng.randint(1, 255)
            fs.append((0, b, i, x))
    return fs


def qr_workload(ctx, maps, g, extra_maps=None):
    extra_maps = extra_maps or {}
    rng = random.Random(ctx.seed * 13 + 1)
    ev = []
    sweep_full = [1, 5, 7, 10, 14] if ctx.quick else list(maps)
    for v in sorted(maps):
        mp = maps[v]
        for ec in range(1, 5):
            cap = g["caps"][v - 1][ec - 1][2]
            n = max(1, rng.choice([cap, cap // 2, cap - 1]))
            text, cs = qrlib.text_of("byte", n, rng)
            sets = []
            # (i) single-codeword faults at every codeword position of every block
            step = 1 if v in sweep_full else 7
            allpos = [(b, i) for b, idx in enumerate(mp["blocks"][ec - 1], 1) for i in range(1, len(idx) + 1)]
            off = rng.randrange(step)
            for (b, i) in allpos[off::step]:
                sets.append(mkset(mp, ec, [(0, b, i, rng.choice([1, 128, 255, rng.randint(1, 255)]))]))
            # (ii) exactly t faults in every block at once, alone and together with 3+3 format and 3+3 version bit flips
            for style in range(3 if ctx.quick else 8):
                fs = full_capacity(rng, mp, ec, style % 3)
                if style >= 1:
                    fs += [(1, a, 0, 0) for a in rng.sample(range(15), 3)] + [(2, a, 0, 0) for a in rng.sample(range(15), 3)]
                    if v >= 7:
                        fs += [(3, a, 0, 0) for a in rng.sample(range(18), 3)] + [(4, a, 0, 0) for a in rng.sample(range(18), 3)]
                sets.append(mkset(mp, ec, fs))
            # (iv) one codeword beyond capacity in one block: an error or the right text, never other text
            nb = len(mp["blocks"][ec - 1])
            sets.append(mkset(mp, ec, full_capacity(rng, mp, ec, 2, extra_block=rng.randint(1, nb))))
            ev.append(dict(op="dmg", text=text, ec=ec, vh=v, mh=(v + ec + ctx.seed) % 8, cs=cs, sets=sets, tag="blocks"))
    # (v) every other version: one symbol (rotating level) with full-capacity scripts - decoder-only table slips (alignment centres,
    #     block structure of one version) are absorbed by error correction on clean symbols and only show under damage
    for v in sorted(extra_maps):
        mp = extra_maps[v]
        ec = 1 + (v + ctx.seed) % 4
        cap = g["caps"][v - 1][ec - 1][2]
        text, cs = qrlib.text_of("byte", max(1, cap - 1), rng)
        sets = [mkset(mp, ec, full_capacity(rng, mp, ec, st)) for st in (2, 1, 2)]
        ev.append(dict(op="dmg", text=text, ec=ec, vh=v, mh=(v + ctx.seed) % 8, cs=cs, sets=sets, tag="allversions"))
    # (vi) damage within capacity AIMED at shortcuts in the Reed-Solomon decoder (gfaim: windows of vanishing syndromes, ghost single errors),
    #      in one block of small and of multi-block symbols
    import gfaim
    for v in [x for x in (1, 2, 7) if x in maps]:
        mp = maps[v]
        for ec in range(1, 5):
            blocks = mp["blocks"][ec - 1]
            r = (g["total"][v - 1] - g["data"][v - 1][ec - 1]) // len(blocks)
            if r // 2 < 2:
                continue
            text, cs = qrlib.text_of("byte", max(1, g["caps"][v - 1][ec - 1][2] - 2), rng)
            b = rng.randint(1, len(blocks))
            sets = [mkset(mp, ec, [(0, b, p + 1, x) for p, x in errs]) for _, errs in gfaim.patterns(1, 256, 0, len(blocks[b - 1]), r, rng)]
            ev.append(dict(op="dmg", text=text, ec=ec, vh=v, mh=(v + ec) % 8, cs=cs, sets=sets, tag="aimed"))
    # (iii) format information: all subsets of <= 3 of the 15 bits of copy 1 (copy 2 intact / also damaged by <= 3), and of copy 2
    for ec in range(1, 5):
        for v in ([1] if ctx.quick else [1, 2, 7]):
            mp = maps[v]
            text, cs = qrlib.text_of("alnum", 5, rng)
            sets = []
            for k in range(0, 4):
                for sub in itertools.combinations(range(15), k):
                    which = (len(sets) + ec) % 3
                    fs = [(1 if which != 1 else 2, a, 0, 0) for a in sub]
                    if which == 2:
                        fs += [(2, a, 0, 0) for a in rng.sample(range(15), rng.randint(1, 3))]
                    sets.append(mkset(mp, ec, fs))
                    if k > 0:       # the same subset in BOTH copies: no intact copy can rescue a miscounted distance
                        sets.append(mkset(mp, ec, [(1, a, 0, 0) for a in sub] + [(2, a, 0, 0) for a in sub]))
            sets.append(mkset(mp, ec, [(1, a, 0, 0) for a in range(4)] + [(2, a, 0, 0) for a in range(4, 8)]))  # beyond: 4 + 4
            ev.append(dict(op="dmg", text=text, ec=ec, vh=v, mh=(ec * 3 + ctx.seed) % 8, cs=cs, sets=sets, tag="format"))
    # (iii-b) all 32 format words (level x mask): singles, seeded doubles and triples flipped identically in both copies - a slip in
    #         one entry of the decoder's format table is absorbed by nearest-codeword decoding until three more bits are damaged
    for ec in range(1, 5):
        for mask in range(8):
            mp = maps[1]
            text, cs = qrlib.text_of("alnum", 4, rng)
            subs = [(a,) for a in range(15)] + [tuple(rng.sample(range(15), 2)) for _ in range(20 if ctx.quick else 105)] \
                + [tuple(rng.sample(range(15), 3)) for _ in range(40 if ctx.quick else 455)]
            sets = [mkset(mp, ec, [(1, a, 0, 0) for a in sub] + [(2, a, 0, 0) for a in sub]) for sub in subs]
            ev.append(dict(op="dmg", text=text, ec=ec, vh=1, mh=mask, cs=cs, sets=sets, tag="formatwords"))
    # version information: seeded subsets of <= 3 of 18 bits per copy (exhaustive over single and double flips of copy 1)
    for v in [x for x in sorted(maps) if x >= 7][: (2 if ctx.quick else 40)]:
        mp = maps[v]
        text, cs = qrlib.text_of("num", 9, rng)
        sets = []
        for k in (1, 2):
            for sub in itertools.combinations(range(18), k):
                fs = [(3, a, 0, 0) for a in sub] + [(4, a, 0, 0) for a in rng.sample(range(18), rng.randint(0, 3))]
                sets.append(mkset(mp, 1, fs))
        for _ in range(40 if ctx.quick else 300):
            fs = [(3, a, 0, 0) for a in rng.sample(range(18), 3)] + [(4, a, 0, 0) for a in rng.sample(range(18), 3)]
            sets.append(mkset(mp, 1, fs))
        if v == 7 or not ctx.quick:     # every subset of <= 3 of the 18 bits, identically in both copies
            for k in (1, 2, 3):
                for sub in itertools.combinations(range(18), k):
                    sets.append(mkset(mp, 1, [(3, a, 0, 0) for a in sub] + [(4, a, 0, 0) for a in sub]))
        ev.append(dict(op="dmg", text=text, ec=1, vh=v, mh=v % 8, cs=cs, sets=sets, tag="version"))
    return ev


def judge_qr(ctx, ev, label):
    obs = qrlib.judge(ctx, ev, label)
    nsets = sum(len(o.get("sets", ())) for o in obs)
    ctx.extra["qr_fault_scripts"] = ctx.extra.get("qr_fault_scripts", 0) + nsets
    for o in obs:
        for k, st in enumerate(o.get("sets", ())):
            ctx.count_case(("qrset", o["vh"], o["ec"], tuple(map(tuple, st["faults"][:6])), len(st["faults"])))
    return obs


def run(ctx):
    res = vlib.run_tlc(ctx, "MC_QR", "MC_QR_c13", workers=vlib.NCPU, timeout=1500)
    ctx.note("MC_QR: %d states: BCH(15,5) minimum distance 7 and BCH(18,6) minimum distance 8 (so <= 3 flips per copy have a unique "
             "nearest word), block table laws (parity per block) for all 160 pairs" % res.generated)
    g = qrlib.gen_caps(ctx)
    versions = [1, 5, 7, 10, 14, 27, 40] if ctx.quick else list(range(1, 41))
    maps = qr_maps(ctx, versions)
    extra = qr_maps(ctx, [v for v in range(1, 41) if v not in versions]) if ctx.quick else {}
    judge_qr(ctx, qr_workload(ctx, maps, g, extra), "C05 QR damage")
    try:
        import c05dm
        c05dm.run_dm(ctx)
    except ImportError:
        ctx.note("Data Matrix half of C05 not built yet")
    ctx.exhaustive = False
    return vlib.finish(ctx, level="fault_enumeration",
                       rule="one case = one fault script (set of corrupted codewords / flipped format or version bits) applied to a "
                       "symbol of the real encoder; single-codeword faults enumerate every codeword position of every block "
                       "(quick: versions 1,5,7,10,14 fully, 27 and 40 every 7th); full-capacity scripts put floor(ec/2) faults in "
                       "every block at once; all C(15,<=3) format-bit subsets; seeded version-bit subsets",
                       assumptions=["replacement values are sampled (1, 128, 255, random), not enumerated"],
                       trusted=["TLC", "spec/QRSymbol.tla placement and block structure (ISO/IEC 18004)", "CRC-32 of texts computed by the harness"])


def replay(ctx, path):
    import json, dmlib
    r = json.load(open(path))
    return (dmlib if "size" in r["inputs"][0] else qrlib).replay(ctx, path)
