"""C16 - BitMatrix / BitArray are plain bit containers.
spec/Bits.tla (abstract containers), spec/MC_Bits (design check on tiny grids + behaviour generation),
spec/Trace_Bits (validation of recorded histories of the real containers)."""
import json, random, re
import vlib

QUERIES_M = ["get", "getrow", "enclosing", "topleft", "bottomright", "dims", "tostring", "at", "bounds"]


def chunks(rng, n, mode=None):
    mode = mode or rng.choice(["rand", "rand", "ones", "sparse", "edge"])
    bits = []
    for i in range(n):
        if mode == "rand":
            b = rng.random() < 0.5
        elif mode == "ones":
            b = True
        elif mode == "sparse":
            b = rng.random() < 0.06
        elif mode == "zero":
            b = False
        else:
            b = i in (0, n - 1, 31, 32, 63, 64) or (n > 1 and i == n - 2 and rng.random() < 0.5)
        bits.append(b)
    out = [0] * ((n + 15) // 16)
    for i, b in enumerate(bits):
        if b:
            out[i // 16] |= 1 << (i % 16)
    return out


def coord(rng, n):
    """in-range coordinate biased to word boundaries"""
    c = [0, n - 1, 15, 16, 30, 31, 32, 33, 63, 64, 65, 95, 96, 127, 128]
    c = [v for v in c if 0 <= v < n]
    return rng.choice(c) if rng.random() < 0.6 else rng.randrange(n)


class MGen:
    def __init__(self, rng, w, h):
        self.rng, self.w, self.h, self.ev = rng, w, h, []

    def e(self, op, a=(), b=()):
        self.ev.append(dict(k="m", op=op, a=list(a), b=[list(x) for x in b]))

    def content(self, mode=None):
        return [chunks(self.rng, self.w, mode) for _ in range(self.h)]

    def queries(self):
        self.e("enclosing"); self.e("topleft"); self.e("bottomright")

    def prefix(self):
        r = self.rng
        self.e("new", [self.w, self.h]); self.e("dims"); self.queries()
        self.e(r.choice(["parsebool", "parsestr"]), [self.w, self.h, r.randrange(4)], self.content("rand"))
        self.queries()
        self.e("rot180"); self.queries()
        self.e("getrow", [r.randrange(self.h), -1])
        self.e("flipall"); self.queries(); self.e("getrow", [r.randrange(self.h), r.choice([0, 1, 31, 32])])
        self.e("rot90"); self.w, self.h = self.h, self.w
        self.e("dims"); self.e("rot90"); self.w, self.h = self.h, self.w
        self.e("clear"); self.e("set", [self.w - 1, self.h - 1]); self.queries()
        self.e("rot180"); self.queries()
        self.e("xor", [self.w, self.h], self.content("edge")); self.e("rot180"); self.queries()
        self.e("tostring", [r.randrange(4)]); self.e("reparse", [r.randrange(4)])
        # full-width band, full-height band, whole matrix, single cells at the far corner (word-aligned fast paths)
        self.e("clear"); self.e("region", [0, r.randrange(self.h), self.w, 1]); self.queries(); self.e("getrow", [r.randrange(self.h), -1])
        self.e("clear"); self.e("region", [r.randrange(self.w), 0, 1, self.h]); self.queries()
        self.e("clear"); self.e("region", [0, 0, self.w, self.h]); self.e("flipall"); self.queries()
        self.e("region", [max(0, self.w - 33), 0, min(33, self.w), self.h]); self.queries()

    def step(self):
        r, w, h = self.rng, self.w, self.h
        op = r.choice(["set", "unset", "flip", "flip", "flipall", "clear", "rot180", "rot180", "rot90", "region", "region",
                       "regionbad", "xor", "xorbad", "setrow", "get", "getout", "getrow", "enclosing", "topleft",
                       "bottomright", "dims", "tostring", "reparse", "at", "bounds", "parse", "newbad", "newsq"])
        if op in ("set", "unset", "flip", "get", "at"):
            self.e(op, [coord(r, w), coord(r, h)])
        elif op == "getout":
            x, y = r.choice([(-1, 0), (w, 0), (0, -1), (0, h), (w, h), (w + 31, 0)])
            self.e(r.choice(["get", "at"]), [x, y])
        elif op in ("flipall", "clear", "rot180", "enclosing", "topleft", "bottomright", "dims", "bounds"):
            self.e(op)
        elif op == "rot90":
            self.e(op); self.w, self.h = h, w
        elif op == "region":
            l, t = coord(r, w), coord(r, h)
            ww = r.choice([1, w - l, r.randint(1, w - l)]); hh = r.choice([1, h - t, r.randint(1, h - t)])
            self.e("region", [l, t, ww, hh])
        elif op == "regionbad":
            self.e("region", r.choice([[-1, 0, 1, 1], [0, -1, 1, 1], [0, 0, 0, 1], [0, 0, 1, 0], [0, 0, w + 1, 1],
                                       [0, 0, 1, h + 1], [w - 1, h - 1, 2, 1], [w - 1, h - 1, 1, 2]]))
        elif op == "xor":
            self.e("xor", [w, h], self.content())
        elif op == "xorbad":
            w2, h2 = r.choice([(w + 1, h), (w, h + 1), (w + 32, h)])
            self.e("xor", [w2, h2], [chunks(r, w2, "rand") for _ in range(h2)])
        elif op == "setrow":
            self.e("setrow", [r.randrange(h)], [chunks(r, w)])
        elif op == "getrow":
            self.e("getrow", [r.randrange(h), r.choice([-1, -1, 0, 1, 5, 32])])
        elif op in ("tostring", "reparse"):
            self.e(op, [r.randrange(4)])
        elif op == "parse":
            self.e(r.choice(["parsebool", "parsestr"]), [w, h, r.randrange(4)], self.content())
        elif op == "newbad":
            self.e("new", r.choice([[0, h], [w, 0], [-1, 1]]))
        elif op == "newsq":
            d = r.choice([w, h]); self.e("newsq", [d]); self.w = self.h = d


class AGen:
    def __init__(self, rng, n):
        self.rng, self.n, self.ev = rng, n, []

    def e(self, op, a=(), b=()):
        self.ev.append(dict(k="a", op=op, a=list(a), b=[list(x) for x in b]))

    def prefix(self, n, empty=False):
        r = self.rng
        if empty:
            self.e("aempty")
        else:
            self.e("anew", [n])
        self.n = n
        self.e("sizes"); self.e("nextset", [0]); self.e("nextunset", [0]); self.e("reverse"); self.e("astring")
        self.e("axor", [n], [chunks(r, n, "rand")]); self.e("reverse"); self.e("nextset", [0]); self.e("nextunset", [0])
        if n:
            self.e("nextset", [n - 1]); self.e("nextunset", [n - 1])
            self.e("setrange", [0, n]); self.e("isrange", [0, n, 1]); self.e("nextunset", [0]); self.e("reverse")
            self.e("aclear"); self.e("aset", [n - 1]); self.e("reverse"); self.e("nextset", [0]); self.e("aget", [0])
        self.e("tobytes", [0, n // 8])
        self.e("appendbits", [r.randrange(65536), r.randrange(65536), 32]); self.n += 32
        self.e("appendbit", [1]); self.n += 1; self.e("reverse"); self.e("sizes")

    def step(self):
        r, n = self.rng, self.n
        op = r.choice(["aset", "aflip", "aclear", "setrange", "setrangebad", "appendbit", "appendbits", "appendbitsbad",
                       "appendarr", "appendself", "axor", "axorbad", "reverse", "reverse", "setbulk", "aget", "nextset", "nextunset",
                       "isrange", "israngebad", "tobytes", "sizes", "astring"])
        if op in ("aset", "aflip", "aget"):
            if n:
                self.e(op, [coord(r, n)])
        elif op in ("aclear", "reverse", "sizes", "astring"):
            self.e(op)
        elif op == "setrange":
            s = r.randint(0, n); en = r.choice([s, n, r.randint(s, n)])
            self.e("setrange", [s, en])
        elif op in ("setrangebad", "israngebad"):
            a = r.choice([[-1, 0], [1, 0] if n else [-1, -1], [0, n + 1], [n + 1, n + 1]])
            self.e("setrange" if op == "setrangebad" else "isrange", a + ([r.randrange(2)] if op == "israngebad" else []))
        elif op == "appendbit":
            if n < 400:
                self.e(op, [r.randrange(2)]); self.n += 1
        elif op == "appendbits":
            k = r.choice([0, 1, 4, 8, 13, 16, 31, 32, r.randint(0, 32)])
            if n + k < 400:
                self.e(op, [r.randrange(65536), r.randrange(65536), k]); self.n += k
        elif op == "appendbitsbad":
            self.e("appendbits", [1, 1, r.choice([-1, 33, 64])])
        elif op == "appendarr":
            k = r.choice([0, 1, 31, 32, 33, r.randint(0, 70)])
            if n + k < 400:
                self.e(op, [k], [chunks(r, k)]); self.n += k
        elif op == "appendself":            # the array appended to itself, then one more bit (what the call left above the size shows then)
            if 0 < 2 * n + 1 < 400:
                self.e("appendself"); self.n = 2 * n
                self.e("appendbit", [r.randrange(2)]); self.n += 1
                self.e("sizes")
        elif op == "axor":
            self.e(op, [n], [chunks(r, n)])
        elif op == "axorbad":
            self.e("axor", [n + 1], [chunks(r, n + 1)])
        elif op == "setbulk":
            if n:
                i = 32 * r.randrange((n + 31) // 32)
                v = r.getrandbits(32) & ((1 << min(32, n - i)) - 1)
                self.e(op, [i, v & 0xFFFF, v >> 16])
        elif op in ("nextset", "nextunset"):
            self.e(op, [r.choice([0, n, n + 1, n + 40, r.randint(0, n)])])
        elif op == "isrange":
            s = r.randint(0, n); en = r.choice([s, n, r.randint(s, n)])
            self.e(op, [s, en, r.randrange(2)])
        elif op == "tobytes":
            nb = r.randint(0, n // 8); off = r.randint(0, n - 8 * nb) if nb else 0
            self.e(op, [off, nb])


def gen_inputs(ctx):
    rng = random.Random(ctx.seed * 7919 + (1 if ctx.quick else 2))
    traces = []
    heights = [1, 2, 5, 8] if ctx.quick else list(range(1, 9))
    reps, hlen = (1, 12) if ctx.quick else (6, 40)
    for w in range(1, 131):
        for h in heights:
            for rep in range(reps):
                g = MGen(rng, w, h)
                if rep == 0:
                    g.prefix()
                else:
                    g.e("parsebool", [w, h, 0], g.content())
                for _ in range(hlen):
                    g.step()
                traces.append(g.ev)
    for n in range(0, 201):
        for rep in range(1 if ctx.quick else 6):
            g = AGen(rng, n)
            g.prefix(n) if rep == 0 else (g.e("anew", [n]), g.e("axor", [n], [chunks(rng, n, "rand")]))
            for _ in range(hlen):
                g.step()
            traces.append(g.ev)
    g = AGen(rng, 0); g.prefix(0, empty=True)
    for _ in range(hlen):
        g.step()
    traces.append(g.ev)
    return traces


def tlc_behaviours(ctx):
    """Design check of the abstract containers on tiny grids (MC_Bits.cfg) and behaviours generated by TLC on
    word-boundary sizes (Gen_Bits.cfg, simulation) to be replayed on the real containers."""
    res = vlib.run_tlc(ctx, "MC_Bits", "MC_Bits", workers=vlib.NCPU, timeout=900)
    ctx.note("MC_Bits: %d states, %d distinct: algebraic laws of the abstract containers hold" % (res.generated, res.distinct))
    num = 40 if ctx.quick else 1500
    res = vlib.run_tlc(ctx, "MC_Bits", "Gen_Bits", workers=1, timeout=900,
                       args=["-simulate", "num=%d" % num, "-depth", "60", "-seed", str(ctx.seed)])
    out = vlib.tlc_printed(res)
    if not out:
        raise vlib.Infra("Gen_Bits produced no behaviours:\n" + res.out[-2000:])
    return out


def judge(ctx, traces, label):
    inputs = [e for t in traces for e in t]
    starts, i = [], 0
    for t in traces:
        starts.append(i); i += len(t)
    obs = vlib.drive(ctx, "c16", inputs)
    bad = validate_sharded(ctx, obs, starts)
    ctx.traces += len(traces)
    for o in obs:
        ctx.count_case((o["k"], o["op"], o["a"], o.get("w"), o.get("h"), o.get("n")), nontrivial=True)
    import bisect
    for gi, ent in bad:
        ti = bisect.bisect_right(starts, gi) - 1
        hist = inputs[starts[ti]:gi + 1]
        ev = dict(obs[gi]); ev["stateok"], ev["resok"] = ent[2], ent[3]
        ev["wmod32"] = (ev.get("w", 0) % 32) if ev["k"] == "m" else None
        vlib.reject(ctx, ev, "%s: %s %s a=%s rejected by Trace_Bits (state ok=%s, answer ok=%s)" % (
            label, ev["k"], ev["op"], ev["a"], ent[2], ent[3]), replay_events=hist)
    if obs:
        ctx.sample(dict(kind=label, event={k: obs[len(obs) // 2][k] for k in ("k", "op", "a", "w", "h", "n", "r", "err")}))


def validate_sharded(ctx, obs, starts):
    """cut the concatenated histories into shards at history starts"""
    n = vlib.NCPU
    target = max(1, (len(obs) + n - 1) // n)
    cuts, last = [0], 0
    for s in starts[1:]:
        if s - last >= target:
            cuts.append(s); last = s
    cuts.append(len(obs))
    import concurrent.futures
    out = []

    def one(i):
        lo, hi = cuts[i], cuts[i + 1]
        return [(lo + gi, ent) for gi, ent in vlib.validate(ctx, "Trace_Bits", obs[lo:hi], shards=1, stateless=False)]
    with concurrent.futures.ThreadPoolExecutor(max_workers=n) as ex:
        for r in ex.map(one, range(len(cuts) - 1)):
            out.extend(r)
    return out


def run(ctx):
    gen = tlc_behaviours(ctx)
    judge(ctx, gen, "TLC-generated behaviour")
    judge(ctx, gen_inputs(ctx), "seeded history")
    ctx.exhaustive = False
    ctx.extra["sizes"] = "BitMatrix widths 1..130 x heights %s; BitArray sizes 0..200" % ("{1,2,5,8}" if ctx.quick else "1..8")
    return vlib.finish(ctx, rule="one case = one recorded call (container kind, op, arguments, dimensions); every "
                       "width 1..130 and BitArray size 0..200 is enumerated, histories are seeded; plus TLC-simulated "
                       "behaviours of MC_Bits on word-boundary sizes",
                       assumptions=["arguments are in range as the API documents (Set/Flip inside the matrix, SetBulk "
                                    "without bits beyond size, ToBytes inside size)"],
                       trusted=["TLC", "spec/Bits.tla", "harness/c16.go projection (Get of every cell)"])


def replay(ctx, path):
    r = json.load(open(path))
    judge(ctx, [r["inputs"]], "replay")
    return vlib.finish(ctx, rule="replay of one recorded history")
