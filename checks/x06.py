"""X06 (beyond the listed properties) - common/detector.WhiteRectangleDetector, the search Data Matrix and Aztec detection start from.
spec/WhiteRect.tla is the search as a state machine (one step per border line examined); MC_WhiteRect explores it on every solid
rectangle, pixel pair and L-triple of a 7 x 6 image: no read leaves the image, the rectangle only grows and contains the start
square, the search ends (liveness), at "done" all four border lines are white, and a solid black rectangle under the start square
is answered by exactly its white frame.  Trace_WhiteRect judges the real detector (hook wrd.rect = the rectangle at the end of
the expansion loop): constructor verdict, exceeded / not, the rectangle itself, and the four points (black pixels inside it)."""
import json, random
import vlib


def image(rng, w, h, mode):
    px = set()
    if mode == "solid":
        x0, y0 = rng.randrange(w), rng.randrange(h)
        x1, y1 = rng.randrange(x0, w), rng.randrange(y0, h)
        px = {(x, y) for x in range(x0, x1 + 1) for y in range(y0, y1 + 1)}
    elif mode == "frame":       # a symbol-like square: solid border on two sides, dashed on the others, noise inside, white margin
        m = rng.randint(0, 4)
        x0, y0, x1, y1 = m, rng.randint(1, 4), w - 1 - rng.randint(1, 4), h - 1 - rng.randint(0, 4)
        for x in range(x0, x1 + 1):
            px.add((x, y1))
            if (x - x0) % 2 == 0:
                px.add((x, y0))
        for y in range(y0, y1 + 1):
            px.add((x0, y))
            if (y1 - y) % 2 == 0:
                px.add((x1, y))
        px |= {(x, y) for x in range(x0 + 1, x1) for y in range(y0 + 1, y1) if rng.random() < 0.45}
    elif mode == "blobs":
        for _ in range(rng.randint(1, 5)):
            cx, cy, r = rng.randrange(w), rng.randrange(h), rng.randint(0, 4)
            px |= {(x, y) for x in range(max(0, cx - r), min(w, cx + r + 1)) for y in range(max(0, cy - r), min(h, cy + r + 1)) if rng.random() < 0.9}
    elif mode == "sparse":
        px = {(rng.randrange(w), rng.randrange(h)) for _ in range(rng.randint(0, 12))}
    else:                       # dense noise
        dens = rng.choice([0.05, 0.2, 0.5])
        px = {(x, y) for x in range(w) for y in range(h) if rng.random() < dens}
    return sorted(p for p in px if 0 <= p[0] < w and 0 <= p[1] < h)


def run(ctx, inputs=None, label="white rectangle"):
    if inputs is None:
        res = vlib.run_tlc(ctx, "MC_WhiteRect", "MC_WhiteRect", workers=vlib.NCPU, timeout=900)
        ctx.note("MC_WhiteRect: %d states, %d distinct: reads inside, growth, termination, white-frame and solid-rectangle laws hold" % (res.generated, res.distinct))
        rng = random.Random(ctx.seed * 15485863 + (1 if ctx.quick else 2))
        inputs = []
        for _ in range(1500 if ctx.quick else 30000):
            w, h = rng.randint(1, 34), rng.randint(1, 34)
            if rng.random() < 0.3:
                w = h = rng.choice([12, 20, 32, 33])
            mode = rng.choice(["solid", "frame", "frame", "frame", "blobs", "sparse", "noise"])
            if mode == "frame" and rng.random() < 0.8:
                w, h = max(w, 14), max(h, 14)
            px = [list(p) for p in image(rng, w, h, mode)]
            size = rng.choice([10, 10, 2, 3, 4, 6, 0, 1])
            if rng.random() < 0.7:
                cx, cy = w // 2, h // 2
            else:
                cx, cy = rng.randint(-1, w), rng.randint(-1, h)
            inputs.append(dict(op="wrd", w=w, h=h, px=px, size=size, cx=cx, cy=cy))
    obs = vlib.drive(ctx, "x06", inputs, timeout=1200)
    bad = vlib.validate(ctx, "Trace_WhiteRect", obs, stateless=True, timeout=1500)
    ctx.traces += 1
    outcomes = {}
    for o in obs:
        k = "refused" if o["cerr"] else "exceeded" if (o["rect"] and o["rect"][4]) else "nopoint" if o["err"] else "found"
        outcomes[k] = outcomes.get(k, 0) + 1
        ctx.count_case((o["w"], o["h"], o["size"], o["cx"], o["cy"], len(o["px"]), k))
    ctx.note("outcomes: %s" % json.dumps(outcomes, sort_keys=True))
    for gi, ent in bad:
        o = obs[gi]
        vlib.reject(ctx, dict(op="wrd", w=o["w"], h=o["h"], why=ent[1]),
                    "%s: %dx%d image, %d black pixels, start square %d at (%d,%d): rect=%s err=%d pts=%s: %s" % (
                        label, o["w"], o["h"], len(o["px"]), o["size"], o["cx"], o["cy"], o["rect"], o["err"], o["pts"], ent[1]),
                    replay_events=inputs[gi:gi + 1])
    ctx.exhaustive = False
    return vlib.finish(ctx, rule="one case = one image and start square; constructor verdict, expansion rectangle and corner points compared with the model",
                       assumptions=["which black pixel a corner diagonal meets first is not fixed by the model (float stepping); only that it is black and inside the rectangle"],
                       trusted=["TLC", "spec/WhiteRect.tla", "hook wrd.rect"])


def replay(ctx, path):
    r = json.load(open(path))
    return run(ctx, inputs=r["inputs"], label="replay")
