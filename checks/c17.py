"""C17 - luminance views are consistent and bilevel images binarise exactly.
spec/Lum.tla (views as windows on a 2-D array; exact global-histogram binariser; bilevel law),
spec/MC_Lum (design check of the view algebra + behaviour generation), spec/Trace_Lum (validation of recorded
calls on the real sources / BinaryBitmap)."""
import bisect, concurrent.futures, json, random
import vlib

IMG_KINDS = ["gray", "plain", "gray16", "rgba", "nrgba", "rgba64", "nrgba64", "cmyk", "pal", "ycbcr",
             # the same picture as a SubImage of a larger parent (stride wider than the picture, origin inside the parent)
             "gray+sub", "rgba+sub", "nrgba+sub", "gray16+sub", "cmyk+sub", "ycbcr+sub", "pal+sub"]
ALL_KINDS = ["rgb", "yuv"] + IMG_KINDS
SIZES = [1, 2, 3, 4, 5, 6, 7, 8, 9, 10, 15, 16, 17, 24, 31, 32, 33, 39, 40, 41, 47, 48, 49, 63, 64, 65, 79, 80, 100, 127, 128,
         160, 199, 200]
FULL = 1024          # views up to this area are recorded in full, bigger ones as row checksums + a few full rows
SYMS = [("QR_CODE", "HELLO-17"), ("QR_CODE", "a much longer text for a bigger symbol, 0123456789"),
        ("DATA_MATRIX", "DM17"), ("DATA_MATRIX", "Data Matrix content 0123456789 abcdefghijklmnopqrstuvwxyz"),
        ("EAN_8", "1234567"), ("EAN_13", "590123412345"), ("UPC_A", "03600029145"), ("UPC_E", "01234565"),
        ("CODE_39", "C17-OK"), ("CODE_93", "C17OK"), ("CODE_128", "Code128-c17"), ("ITF", "123456"), ("CODABAR", "A1234B")]


_PRE = [0]


def ev(op, a=(), kind="", bin=0, adopt=0, ys=(-1,), base=(), fmt="", txt=(), bw=0, bh=0):
    pre = 0
    if op in ("brot", "bcrop"):      # two of three: the parent bitmap's matrix is requested (cached) before the child is made, and again after
        _PRE[0] += 1
        pre = 1 if _PRE[0] % 3 else 0
    return dict(op=op, kind=kind, bin=bin, adopt=adopt, pre=pre, a=list(a), ys=list(ys), base=[list(r) for r in base], fmt=fmt,
                txt=list(txt), bw=bw, bh=bh)


# ---------------------------------------------------------------- pixel contents
def image(rng, w, h, mode):
    if mode == "rand":
        return [[rng.randrange(256) for _ in range(w)] for _ in range(h)]
    if mode == "grad":
        a, b, c = rng.randrange(1, 9), rng.randrange(1, 9), rng.randrange(256)
        return [[(a * x + b * y + c) % 256 for x in range(w)] for y in range(h)]
    if mode == "twotone":      # dark and light populations with noise: the global method finds a valley
        d, l = rng.randrange(0, 90), rng.randrange(150, 256)
        p = rng.choice([0.2, 0.5, 0.8])
        return [[min(255, max(0, (d if rng.random() < p else l) + rng.randrange(-12, 13))) for _ in range(w)] for _ in range(h)]
    if mode == "flat":         # little contrast
        c = rng.randrange(256)
        return [[min(255, max(0, c + rng.randrange(-6, 7))) for _ in range(w)] for _ in range(h)]
    return bilevel(rng, w, h, mode)


def bilevel(rng, w, h, mode):
    if mode == "noise":
        p = rng.choice([0.05, 0.3, 0.5, 0.7, 0.95])
        return [[0 if rng.random() < p else 255 for _ in range(w)] for _ in range(h)]
    if mode == "white":
        return [[255] * w for _ in range(h)]
    if mode == "black":
        return [[0] * w for _ in range(h)]
    if mode == "corner":       # black only in one corner block / on the border
        m = [[255] * w for _ in range(h)]
        k = rng.choice([1, 3, 8])
        cx, cy = rng.choice([(0, 0), (w - 1, 0), (0, h - 1), (w - 1, h - 1)])
        for y in range(h):
            for x in range(w):
                if abs(x - cx) < k and abs(y - cy) < k:
                    m[y][x] = 0
        return m
    if mode == "bars":         # 1-D like
        s = rng.randrange(1, 5)
        col = [0 if rng.random() < 0.5 else 255 for _ in range(w // s + 1)]
        q = rng.randrange(0, 12)
        return [[255 if x < q or x >= w - q else col[x // s] for x in range(w)] for _ in range(h)]
    # "modules": 2-D symbol like, module size s, quiet zone q
    s = rng.randrange(1, 6)
    q = rng.choice([0, 1, s, 4 * s])
    mod = [[rng.random() < 0.5 for _ in range(w // s + 1)] for _ in range(h // s + 1)]
    return [[255 if x < q or y < q or x >= w - q or y >= h - q else (0 if mod[y // s][x // s] else 255)
             for x in range(w)] for y in range(h)]


# ---------------------------------------------------------------- histories
class View:
    """The generator's own guess of the current window; used to aim inputs only (never for a verdict)."""

    def __init__(self, bw, bh, left, top, w, h, rot):
        self.bw, self.bh, self.left, self.top, self.w, self.h, self.rot = bw, bh, left, top, w, h, rot


def ys_for(rng, w, h):
    if w * h <= FULL:
        return [-1]
    return sorted({0, h - 1, rng.randrange(h), rng.randrange(h), rng.randrange(h)})


def span_in(rng, n):
    l = rng.choice([0, 0, rng.randrange(n)])
    c = rng.choice([n - l, n - l, 1, rng.randint(1, n - l)])
    return l, c


def crop_rect(rng, v, cls):
    """a rectangle of the wanted class (in / nd / neg / out); None when the view has no such rectangle"""
    if cls == "in":
        l, cw = span_in(rng, v.w)
        t, ch = span_in(rng, v.h)
        return l, t, cw, ch
    if cls == "neg":
        l, cw = span_in(rng, v.w)
        t, ch = span_in(rng, v.h)
        which = rng.randrange(3)
        k = rng.choice([1, 1, 2, 7])
        if which != 1:
            l = -k
        if which != 0:
            t = -k
        return l, t, cw, ch
    roomx, roomy = v.bw - v.left - v.w, v.bh - v.top - v.h
    if cls == "nd":
        opts = [d for d, r in (("x", roomx), ("y", roomy)) if r > 0]
        if not opts:
            return None
        d = rng.choice(opts)
        l, cw = span_in(rng, v.w)
        t, ch = span_in(rng, v.h)
        if d == "x":
            cw = v.w - l + rng.randint(1, roomx)
        else:
            ch = v.h - t + rng.randint(1, roomy)
        return l, t, cw, ch
    # out: reaches beyond the underlying image; preferably still "inside" when the window offset is forgotten
    l, cw = span_in(rng, v.w)
    t, ch = span_in(rng, v.h)
    k = rng.choice([1, 1, 2, 5])
    if rng.random() < 0.5:
        cw = v.bw - v.left - l + k
    else:
        ch = v.bh - v.top - t + k
    return l, t, cw, ch


def queries(rng, v, out, heavy=True):
    """observations of the current view: single rows (in and out of range), black rows, now and then the black matrix"""
    for _ in range(rng.randint(1, 3)):
        y = rng.choice([0, v.h - 1, rng.randrange(v.h), rng.randrange(v.h), -1, v.h, v.h + rng.randint(1, 9), -rng.randint(2, 9)])
        out.append(ev("getrow", [y, rng.choice([-1, -1, 0, max(0, v.w - 1), v.w, v.w + 7])]))
    if rng.random() < 0.6:
        y = rng.choice([0, v.h - 1, rng.randrange(v.h), -1, v.h])
        out.append(ev("brow", [y, rng.choice([-1, -1, max(0, v.w - 1), v.w, v.w + 40])], bin=rng.randrange(2)))
    if heavy and rng.random() < 0.3:
        out.append(ev("bmatrix", bin=rng.randrange(2)))


def view_history(rng, kind, bw, bh, mode, nops=6):
    base = image(rng, bw, bh, mode)
    out = []
    if kind == "yuv":
        if rng.random() < 0.15:    # a window that does not fit the data: must be refused
            l, t = rng.randrange(bw), rng.randrange(bh)
            bad = [l, t, bw - l + rng.choice([0, 1]), bh - t + 1, 0, 0, 0] if rng.random() < 0.5 else [l, t, bw - l + 1, bh - t, 0, 0, 0]
            out.append(ev("new", bad, kind=kind, base=base, bw=bw, bh=bh))
        l, w = span_in(rng, bw)
        t, h = span_in(rng, bh)
        out.append(ev("new", [l, t, w, h, rng.choice([0, 0, 1]), 0, 0], kind=kind, base=base, bw=bw, bh=bh, ys=ys_for(rng, w, h)))
        v = View(bw, bh, l, t, w, h, False)
    else:
        ox, oy = rng.choice([(0, 0), (0, 0), (3, 5), (-2, 7)])
        out.append(ev("new", [0, 0, bw, bh, 0, ox, oy], kind=kind, base=base, bw=bw, bh=bh, ys=ys_for(rng, bw, bh)))
        v = View(bw, bh, 0, 0, bw, bh, kind != "rgb")
    queries(rng, v, out)
    for _ in range(rng.randint(2, nops)):
        op = rng.choice(["in", "in", "nd", "neg", "out", "invert", "rotate", "rotate"])
        if op == "invert":
            out.append(ev("invert", ys=ys_for(rng, v.w, v.h)))
        elif op == "rotate":
            out.append(ev("rotate", ys=ys_for(rng, v.h, v.w)))
            if v.rot:
                v = View(v.h, v.w, 0, 0, v.h, v.w, True)
        else:
            r = crop_rect(rng, v, op)
            if r is None:
                continue
            # only rectangles inside the view become the current view: the outcome of every other class is either an
            # error or left open by the property, so the generator could not aim the following operations
            adopt = 1 if op == "in" else 0
            if rng.random() < 0.2:
                out.append(ev("bcrop", r, bin=rng.randrange(2)))
            out.append(ev("crop", list(r) + [rng.choice([0, r[3] - 1, rng.randrange(r[3]), -1, r[3]])], adopt=adopt,
                          ys=ys_for(rng, r[2], r[3])))
            if adopt:
                v = View(v.bw, v.bh, v.left + r[0], v.top + r[1], r[2], r[3], v.rot)
        queries(rng, v, out)
    if rng.random() < 0.3:
        out.append(ev("brot", bin=rng.randrange(2)))
    out.append(ev("matrix", ys=ys_for(rng, v.w, v.h)))
    return out


def bilevel_history(rng, kind, w, h, mode, rows=3):
    """a bilevel image through both binarisers, directly and through invert / crop / rotate of the BinaryBitmap"""
    base = bilevel(rng, w, h, mode)
    out = [ev("new", [0, 0, w, h, 0, 0, 0], kind=kind, base=base, bw=w, bh=h, ys=[0])]
    out += [ev("bmatrix", bin=0), ev("bmatrix", bin=1)]
    for _ in range(rows):
        out.append(ev("brow", [rng.randrange(h), rng.choice([-1, w, w + 3])], bin=rng.randrange(2)))
    v = View(w, h, 0, 0, w, h, kind not in ("rgb", "yuv"))
    k = rng.random()
    if k < 0.35:
        r = crop_rect(rng, v, "in")
        out.append(ev("bcrop", r, bin=1))
        out.append(ev("bcrop", r, bin=0))
    elif k < 0.6:
        out.append(ev("brot", bin=1))
    elif k < 0.8:
        out.append(ev("invert", ys=[0]))
        out.append(ev("bmatrix", bin=1))
    return out


def symbol_history(rng, fmt, txt, rw, rh):
    out = [ev("new", [0, 0, rw, rh, 0, 0, 0], kind="sym", fmt=fmt, txt=list(txt.encode()), ys=[0])]
    out += [ev("bmatrix", bin=1), ev("bmatrix", bin=0)]
    for y in (0, rh // 2, 3):
        out.append(ev("brow", [y, -1], bin=rng.randrange(2)))
    if rng.random() < 0.5:
        out.append(ev("brot", bin=1))
    return out


def from_tlc(hist, kind, rng):
    """instantiate a TLC-generated history (inputs only) for one source kind and add row observations after each step"""
    n = hist[0]
    l, t, w, h = n["a"][:4]
    base = n["base"]
    bw, bh = len(base[0]), len(base)
    out = []
    if kind == "yuv":
        out.append(ev("new", [l, t, w, h, 0, 0, 0], kind=kind, base=base, bw=bw, bh=bh))
    else:
        out.append(ev("new", [0, 0, bw, bh, 0, 0, 0], kind=kind, base=base, bw=bw, bh=bh))
        if (l, t, w, h) != (0, 0, bw, bh):
            out.append(ev("crop", [l, t, w, h], adopt=1))
    m = max(bw, bh)
    rot = kind not in ("rgb", "yuv")
    for e in hist[1:]:
        if e["op"] == "rotate" and not rot:
            break                 # these kinds do not turn: the history ends with the refused turn
        a = e["a"] + [rng.randint(-1, e["a"][3])] if e["op"] == "crop" else e["a"]
        out.append(ev(e["op"], a, adopt=e["adopt"]))
        out.append(ev("getrow", [rng.randint(-1, m), rng.choice([-1, 0, 9])]))
    if not rot:
        out.append(ev("rotate"))
    k = rng.randrange(4)
    if k == 0:
        for y in range(-1, m + 1):
            out.append(ev("getrow", [y, -1]))
    elif k == 1:
        out.append(ev("bmatrix", bin=rng.randrange(2)))
    elif k == 2:
        out.append(ev("brot", bin=0))
    return out


# ---------------------------------------------------------------- TLC side
def tlc_design_and_behaviours(ctx):
    res = vlib.run_tlc(ctx, "MC_Lum", "MC_Lum", workers=vlib.NCPU, timeout=900,
                       consts=None if ctx.quick else {"MaxDepth": 5})
    ctx.note("MC_Lum: %d states, %d distinct: view algebra (4 quarter turns, double inversion, crop offsets compose, "
             "turn/crop commute) and bilevel laws of the binariser model hold" % (res.generated, res.distinct))
    res = vlib.run_tlc(ctx, "MC_Lum", "GenQ_Lum" if ctx.quick else "Gen_Lum", workers=4, timeout=900)
    ex = vlib.tlc_printed(res)
    seen, exh = set(), []
    for hst in ex:
        k = json.dumps(hst)
        if k not in seen:
            seen.add(k)
            exh.append(hst)
    if not exh:
        raise vlib.Infra("Gen_Lum produced no behaviours:\n" + res.out[-2000:])
    num = 60 if ctx.quick else 1500
    res = vlib.run_tlc(ctx, "MC_Lum", "Sim_Lum", workers=1, timeout=900,
                       args=["-simulate", "num=%d" % num, "-depth", "40", "-seed", str(ctx.seed)])
    sim = vlib.tlc_printed(res)
    if not sim:
        raise vlib.Infra("Sim_Lum produced no behaviours:\n" + res.out[-2000:])
    return exh, sim


# ---------------------------------------------------------------- judging
# predicates for known/C17.json: which refused-by-the-property rectangles the unchanged code is known to accept
PREDS = {
    "crop_call": lambda e: e["op"] in ("crop", "bcrop"),
    # RGBLuminanceSource.Crop compares left+width with dataWidth and forgets the window's own offset
    "far_edge_fits_when_offset_forgotten": lambda e: e.get("far_edge") in ("rel", "both"),
    "far_edge_fits_only_when_offset_forgotten": lambda e: e.get("far_edge") == "rel",
    # PlanarYUVLuminanceSource checks the far edge at the composed offset, but not the sign of the origin
    "far_edge_fits_with_offset": lambda e: e.get("far_edge") in ("abs", "both"),
}


def cost(o):
    return 40 + max(o.get("w", 0), 0) * max(o.get("h", 0), 0) + o.get("bw", 0) * o.get("bh", 0) // 4


def validate_sharded(ctx, obs, starts):
    """cut the concatenated histories at history starts into shards of similar pixel volume"""
    total = sum(cost(o) for o in obs)
    nsh = vlib.NCPU
    target = total / nsh
    cuts, acc = [0], 0
    sset = set(starts)
    for i, o in enumerate(obs):
        if i in sset and acc >= target and i > cuts[-1]:
            cuts.append(i)
            acc = 0
        acc += cost(o)
    cuts.append(len(obs))
    out = []

    def one(i):
        lo, hi = cuts[i], cuts[i + 1]
        return [(lo + gi, ent) for gi, ent in vlib.validate(ctx, "Trace_Lum", obs[lo:hi], shards=1, stateless=False)]
    with concurrent.futures.ThreadPoolExecutor(max_workers=vlib.NCPU) as ex:
        for r in ex.map(one, range(len(cuts) - 1)):
            out.extend(r)
    return out


def judge(ctx, groups, count=True):
    """groups: [(label, [history, ...])]; all histories go through the real code in one driver run and are validated
    by Trace_Lum in NCPU shards cut at history starts"""
    traces, labels = [], []
    for label, ts in groups:
        for t in ts:
            if t:
                traces.append(t)
                labels.append(label)
    inputs = [e for t in traces for e in t]
    starts, i = [], 0
    for t in traces:
        starts.append(i)
        i += len(t)
    obs = vlib.drive(ctx, "c17", inputs)
    bad = validate_sharded(ctx, obs, starts)
    ctx.traces += len(traces)
    kind = None
    for gi, o in enumerate(obs):
        if o["op"] == "new":
            kind = o["kind"]
        o["src"] = kind
        if count:
            ctx.count_case((o["op"], o["src"], o["bin"], o["a"], o["w"], o["h"], o["ck"][:4], o["st"][:2]))
    for gi, ent in bad:
        ti = bisect.bisect_right(starts, gi) - 1
        hist = inputs[starts[ti]:gi + 1]
        o = obs[gi]
        e = {k: o[k] for k in ("op", "src", "bin", "adopt", "a", "w", "h", "err", "err2", "panic", "rotsup", "msg")}
        e["why"], e["far_edge"] = ent[2], ent[3]
        e["family"] = "yuv" if o["src"] == "yuv" else "rgb"      # Go image sources embed RGBLuminanceSource
        key = "%s/%s/%s" % (e["family"], o["op"], ent[2])
        ctx.extra.setdefault("rejections_by_reason", {})
        ctx.extra["rejections_by_reason"][key] = ctx.extra["rejections_by_reason"].get(key, 0) + 1
        vlib.reject(ctx, e, "%s: %s a=%s on a %s source rejected by Trace_Lum: %s" % (labels[ti], o["op"], o["a"], o["src"], ent[2]),
                    replay_events=hist, preds=PREDS)
    seen = set()
    for ti, st in enumerate(starts):
        if labels[ti] not in seen and len(traces[ti]) > 2:
            seen.add(labels[ti])
            o = obs[st + 2]
            ctx.sample(dict(kind=labels[ti], source=o["src"], history=[[x["op"]] + x["a"] for x in traces[ti][:8]],
                            event={k: o[k] for k in ("op", "bin", "a", "w", "h", "err", "err2", "yl")},
                            px_first_row=(o["px"][0][:12] if o["px"] else []), st_first_row=(o["st"][0][:4] if o["st"] else [])))
    return obs


def seeded(ctx):
    rng = random.Random(ctx.seed * 104729 + (1 if ctx.quick else 2))
    views, bil, syms = [], [], []
    modes = ["rand", "rand", "grad", "twotone", "twotone", "flat", "modules", "noise"]
    # --- views: every special size on one axis with a random partner; all source kinds in turn
    k = 0
    big = [s for s in SIZES if s > 48]
    small = [s for s in SIZES if s <= 48]
    reps = 1 if ctx.quick else 6
    for rep in range(reps):
        for a in SIZES:
            for b in ([rng.choice(small), rng.choice(SIZES)] if ctx.quick else [rng.choice(small), rng.choice(big), rng.randint(1, 200)]):
                if ctx.quick and a * b > 12000:
                    b = rng.choice(small)
                w, h = (a, b) if rng.random() < 0.5 else (b, a)
                views.append(view_history(rng, ALL_KINDS[k % len(ALL_KINDS)], w, h, rng.choice(modes)))
                k += 1
    for _ in range(150 if ctx.quick else 3000):       # many small ones: offsets compose on every kind
        views.append(view_history(rng, rng.choice(ALL_KINDS), rng.randint(1, 12), rng.randint(1, 12), rng.choice(modes)))
    if ctx.quick:
        views.append(view_history(rng, rng.choice(IMG_KINDS), 200, 200, "rand", nops=3))
    else:
        for kind in ALL_KINDS:
            views.append(view_history(rng, kind, 200, rng.randint(150, 200), "rand"))
            views.append(view_history(rng, kind, rng.randint(150, 200), 200, "twotone"))
    # --- bilevel images: sizes straddling the 40-pixel switch, all residues mod 8
    bmodes = ["modules", "modules", "noise", "bars", "corner", "white", "black"]
    if ctx.quick:
        dims = [(w, rng.choice([39, 40, 41, 44, 47, 48, 55])) for w in range(33, 58)]
        dims += [(rng.choice([39, 40, 41, 45, 48, 56]), h) for h in range(33, 58)]
        dims += [(rng.randint(1, 32), rng.randint(1, 60)) for _ in range(20)] + [(40, 40), (39, 39), (41, 41), (47, 47), (48, 48), (64, 57)]
    else:
        dims = [(w, h) for w in range(1, 61) for h in range(1, 61)]
        dims += [(rng.randint(40, 200), rng.randint(40, 200)) for _ in range(150)]
    for w, h in dims:
        bil.append(bilevel_history(rng, rng.choice(ALL_KINDS), w, h, rng.choice(bmodes)))
    # --- rendered symbols of every writer at several scales
    req = [0, 41, 58, 87, 120] if ctx.quick else [0, 33, 41, 47, 58, 64, 87, 101, 116, 150, 200]
    for fmt, txt in SYMS:
        for r in (rng.sample(req, 2) if ctx.quick else req):
            two_d = fmt in ("QR_CODE", "DATA_MATRIX")
            syms.append(symbol_history(rng, fmt, txt, r, r if two_d else rng.choice([1, 8, 39, 40, 41, 50])))
    return views, bil, syms


def run(ctx):
    exh, sim = tlc_design_and_behaviours(ctx)
    rng = random.Random(ctx.seed)
    gen1 = []
    for i, hst in enumerate(exh):
        kinds = ["yuv", (["rgb"] + IMG_KINDS)[i % (1 + len(IMG_KINDS))]]
        for kind in ([kinds[i % 2]] if ctx.quick else kinds):
            gen1.append(from_tlc(hst, kind, rng))
    ctx.extra["exhaustive_scope"] = "%d distinct depth-2 histories of MC_Lum on PlanarYUV and RGB / Go-image sources" % len(exh)
    gen2 = []
    for i, hst in enumerate(sim):
        kinds = ["rgb", "yuv", IMG_KINDS[i % len(IMG_KINDS)], IMG_KINDS[(i + 3) % len(IMG_KINDS)]]
        for kind in ([kinds[i % 2], kinds[2]] if ctx.quick else kinds):
            gen2.append(from_tlc(hst, kind, rng))
    views, bil, syms = seeded(ctx)
    judge(ctx, [("TLC-enumerated history (all sequences of 2 view operations on tiny windows)", gen1),
                ("TLC-simulated history (6 view operations)", gen2),
                ("seeded view history", views), ("bilevel image", bil), ("rendered symbol", syms)])
    ctx.exhaustive = False
    return vlib.finish(ctx, rule="one case = one recorded call on a real source / BinaryBitmap (operation, source kind, "
                       "binariser, arguments, view size, pixel/bit digest). TLC enumerates all histories of 2 view operations "
                       "on tiny windows and simulates histories of 6; seeded histories cover sizes up to 200x200, all source "
                       "kinds, in-range / out-of-range / negative-origin rectangles; bilevel images straddle the 40-pixel switch",
                       assumptions=["grey pixels (r=g=b, opaque) have their grey value as luminance",
                                    "crop rectangles have positive extent; PlanarYUV windows have a non-negative origin",
                                    "a rectangle leaving the view but inside the underlying image may be refused or served"],
                       trusted=["TLC", "spec/Lum.tla (naive window model, transcription of the global-histogram method)",
                                "harness/c17 projection (GetMatrix rows, row checksums, BitMatrix.Get chunks)"])


def replay(ctx, path):
    r = json.load(open(path))
    judge(ctx, [("replay", [r["inputs"]])])
    return vlib.finish(ctx, rule="replay of one recorded history")
