"""C03 - 1-D symbologies: a written barcode reads back as the same content and format.
spec/OneDTables.tla + OneD.tla (tables, symbols, reference reader), spec/Check.tla (UPC/EAN writer contract),
spec/OneDRT.tla (acceptance domains, canonical texts, reference encoders), spec/MC_OneDRT (design check + generation of
reference-encoded symbols), spec/Trace_OneDRT (validation of recorded write -> read round trips of the real code)."""
import json, random, concurrent.futures
import vlib

EAN = {"EAN13": 12, "EAN8": 7, "UPCA": 11, "UPCE": 7}
DEFMARGIN = {"EAN13": 9, "EAN8": 9, "UPCA": 9, "UPCE": 9}
SYMS = ["EAN13", "EAN8", "UPCA", "UPCE", "C39", "C93", "C128", "ITF", "CBAR"]
C39PLAIN = [ord(ch) for ch in "0123456789ABCDEFGHIJKLMNOPQRSTUVWXYZ-. $/+%"]
CBDATA = [ord(ch) for ch in "0123456789-$:/.+"]
SIZES = [(0, 0, 0), (1, 1, 1), (2, 0, 30), (3, 1, 7), (1, 13, 2), (5, 3, 3), (17, 0, 2), (41, 5, 1)]   # (k, a, height): width = k*natural + a; the last two are very wide images
RT_KEYS = ("op", "sym", "c", "force", "wk", "wa", "h", "margin", "rd", "werr", "w", "hh", "lead", "trail", "err", "text", "fmt", "panic")


def pdrive(ctx, inputs, per=1500):
    if not inputs:
        return []
    vlib.build_harness(ctx, "c03")
    n = max(1, min(vlib.NCPU, len(inputs) // per or 1))
    size = (len(inputs) + n - 1) // n
    parts = [inputs[i:i + size] for i in range(0, len(inputs), size)]
    with concurrent.futures.ThreadPoolExecutor(max_workers=len(parts)) as ex:
        outs = list(ex.map(lambda p: vlib.drive(ctx, "c03", p), parts))
    return [o for part in outs for o in part]


def slim(o, keys):
    return {k: o[k] for k in keys if k in o}


# ------------------------------------------------------------------ design laws + reference-encoded symbols
def laws(ctx):
    cfg = "MC_OneDRT" if ctx.quick else "MC_OneDRT_full"
    res = vlib.run_tlc(ctx, "MC_OneDRT", cfg, workers=vlib.NCPU, timeout=2400)
    ctx.note("%s: %d states (one per law block): reference encoder and reference reader agree - Code 39 / Code 93 on every "
             "ASCII string of length <= 2 and class strings of length 3, Code 128 on every class string of length <= %d, ITF "
             "lengths 2..16, Codabar all guard pairs, UPC/EAN families incl. refusal of every wrong check digit" % (
                 cfg, res.distinct, 4 if ctx.quick else 6))


def rnd(rng, pool, k):
    return [rng.choice(pool) for _ in range(k)]


def class_string(rng, k):
    """ASCII with digit runs, controls, lower case - the shapes that drive Code 128 code-set changes"""
    out = []
    while len(out) < k:
        t = rng.randrange(7)
        if t == 0:
            out += [rng.randrange(48, 58) for _ in range(rng.choice([1, 2, 3, 4, 5, 6, 9]))]
        elif t == 1:
            out += [rng.randrange(0, 32) for _ in range(rng.choice([1, 1, 2]))]
        elif t == 2:
            out += [rng.randrange(96, 128) for _ in range(rng.choice([1, 1, 3]))]
        elif t == 3:
            out += [rng.randrange(65, 91) for _ in range(rng.choice([1, 2, 4]))]
        else:
            out.append(rng.randrange(32, 127))
    return out[:k]


def gen_symbols(ctx):
    rng = random.Random(ctx.seed * 9176 + 1)
    f = 4 if ctx.quick else 100
    seeds = []
    def add(sym, c, wide=3):
        seeds.append(dict(sym=sym, c=list(c), wide=wide))
    for i in range(60 * f):
        add("C128", class_string(rng, rng.choice([1, 2, 3, 5, 8, 13, 24])))
        add("C93", class_string(rng, rng.choice([1, 2, 4, 9, 20])))
        add("C39", class_string(rng, rng.choice([1, 2, 4, 9, 20])))
        add("C39", rnd(rng, C39PLAIN, rng.choice([1, 3, 10, 30])))
        n = rng.choice([6, 8, 10, 12, 14, 16, 20, 44])
        add("ITF", rnd(rng, list(range(48, 58)), n), 2 + i % 2)
    for g in range(16):
        add("CBAR", [65 + g // 4] + rnd(rng, CBDATA, 2 + g % 5) + [65 + g % 4])
    for sym, n in EAN.items():
        for i in range(8 * f):
            p = [rng.randrange(10) for _ in range(n)]
            if sym == "UPCE":
                p[0] = i % 2
            add(sym, [48 + d for d in p])
    res = vlib.run_tlc(ctx, "MC_OneDRT", "Gen_OneDRT", files={"contents.ndjson": seeds}, workers=vlib.NCPU // 2, timeout=1800)
    cases = vlib.tlc_printed(res)
    if len(cases) != len(seeds):
        raise vlib.Infra("Gen_OneDRT produced %d symbols for %d contents:\n%s" % (len(cases), len(seeds), res.out[-2000:]))
    for i, c in enumerate(cases):
        c["scale"] = 1 + i % 3
        c["q"] = 12 + i % 4
    return cases


# ------------------------------------------------------------------ round trips
def rt_inputs(ctx):
    rng = random.Random(ctx.seed * 3571 + (1 if ctx.quick else 2))
    f = 5 if ctx.quick else 160
    inp = []
    state = {"i": 0}

    def rt(sym, c, force="", rd="own", size=None, margin=None):
        state["i"] += 1
        i = state["i"]
        wk, wa, h = size if size is not None else SIZES[i % len(SIZES)]
        if margin is None:
            margin = -1 if (i // len(SIZES)) % 2 == 0 else DEFMARGIN.get(sym, 10) + 7
        if sym == "C39" and any(b not in C39PLAIN for b in c):
            rd = "ext"                  # full-ASCII contents are read with the extended-mode reader (Trace_OneDRT checks the pairing)
        inp.append(dict(op="rt", sym=sym, c=list(c), force=force, wk=wk, wa=wa, h=h, margin=margin, rd=rd))

    # UPC/EAN: bare payloads at every size, every supplied check digit, multi-format reader, invalid contents
    for sym, n in EAN.items():
        for i in range(14 * f):
            p = [rng.randrange(10) for _ in range(n)]
            if sym == "UPCE":
                p[0] = i % 2
                if i % 3 == 0:
                    p[6] = rng.randrange(5)
            b = [48 + d for d in p]
            rt(sym, b)
            for d in range(10):
                rt(sym, b + [48 + d], rd=["own", "multi", "multiA"][(i + d) % 3])
            if i % 4 == 0:
                if sym in ("EAN13", "UPCA") and i % 8 == 0:
                    b0 = [48] + b[1:]
                    for d in range(10):
                        rt(sym, b0 + [48 + d], rd="multiA")
                rt(sym, b[:-1]); rt(sym, b + [48, 49]); rt(sym, [])
                k = rng.randrange(n)
                rt(sym, b[:k] + [rng.choice([47, 58, 65, 32, 200])] + b[k + 1:])
        for size in SIZES:                       # every size with the margin that satisfies the reader
            p = [48 + rng.randrange(10) for _ in range(n)]
            if sym == "UPCE":
                p[0] = 48 + rng.randrange(2)
            for d in range(10):
                rt(sym, p + [48 + d], size=size, margin=16)
    # ITF
    for i in range(30 * f):
        n = rng.choice([2, 4, 6, 8, 10, 12, 14, 16, 18, 30, 44, 80])
        rt("ITF", rnd(rng, list(range(48, 58)), n))
    for n in (1, 7, 81, 82):
        rt("ITF", rnd(rng, list(range(48, 58)), n))
    rt("ITF", [49, 50, 65, 52, 53, 54]); rt("ITF", [])
    # Code 39 plain / full ASCII, Code 93, Code 128
    for i in range(25 * f):
        rt("C39", rnd(rng, C39PLAIN, rng.choice([1, 2, 5, 17, 40, 80])))
        rt("C39", class_string(rng, rng.choice([1, 2, 5, 17, 40])))
        rt("C93", class_string(rng, rng.choice([1, 2, 5, 17, 40])))
        rt("C93", rnd(rng, list(range(128)), rng.choice([1, 3, 9, 30])))
        rt("C128", class_string(rng, rng.choice([1, 2, 3, 5, 8, 17, 40, 80])))
        rt("C128", rnd(rng, list(range(128)), rng.choice([1, 4, 20, 60])))
        rt("C128", rnd(rng, list(range(48, 58)), rng.choice([1, 2, 3, 4, 5, 7, 10, 33, 80])))
    for b in range(128):                          # every ASCII code on its own and embedded
        for sym in ("C39", "C93", "C128"):
            rt(sym, [b], size=SIZES[b % len(SIZES)])
            if not ctx.quick or b % 4 == 0:
                rt(sym, [65, b, 49, b])
    rt("C39", rnd(rng, C39PLAIN, 81)); rt("C39", [65, 200]); rt("C93", [65, 128, 66]); rt("C128", rnd(rng, list(range(65, 91)), 81))
    rt("C128", [65, 233]); rt("C39", []); rt("C93", []); rt("C128", [])
    for i in range(10 * f):                       # forced code sets, valid and invalid
        rt("C128", rnd(rng, list(range(0, 96)), rng.choice([1, 5, 20])), force="A")
        rt("C128", rnd(rng, list(range(33, 128)), rng.choice([1, 5, 20])), force="B")
        rt("C128", rnd(rng, list(range(48, 58)), rng.choice([2, 4, 10, 40])), force="C")
        rt("C128", rnd(rng, list(range(0, 96)), 3) + [rng.randrange(96, 128)], force="A")
        rt("C128", rnd(rng, list(range(33, 128)), 3) + [rng.randrange(0, 32)], force="B")
        rt("C128", rnd(rng, list(range(48, 58)), rng.choice([1, 3, 7])), force="C")
        rt("C128", rnd(rng, list(range(48, 58)), 3) + [65], force="C")
    # Codabar: every guard pair in both spellings, no guards, foreign characters
    for g in range(16):
        for alt in (0, 1):
            gs = [84, 78, 42, 69] if alt else [65, 66, 67, 68]
            rt("CBAR", [gs[g // 4]] + rnd(rng, CBDATA, rng.choice([2, 3, 8, 20])) + [gs[g % 4]])
    for i in range(10 * f):
        rt("CBAR", rnd(rng, CBDATA, rng.choice([2, 3, 5, 12, 30])))
        d = rnd(rng, CBDATA, 4)
        rt("CBAR", [65] + d[:2] + [rng.choice([66, 88, 97, 32])] + d[2:] + [66])
    rt("CBAR", [])
    return inp


def block_inputs(ctx):
    rng = random.Random(ctx.seed * 811 + 7)
    inp = []
    if ctx.quick:
        for sym in ("UPCE", "EAN8"):
            for i in range(30):
                base = [rng.randrange(10) for _ in range(7)]
                if sym == "UPCE":
                    base[0] = i % 2
                base[1:] = [int(ch) for ch in "%06d" % rng.randrange(0, 10 ** 6 - 400)]
                inp.append(dict(op="block", sym=sym, base=base, cnt=400, wa=70 if sym == "UPCE" else 0, h=1, margin=-1, rd="own"))
    else:
        for ns in (0, 1):
            for b in range(1000):
                inp.append(dict(op="block", sym="UPCE", base=[ns] + [int(ch) for ch in "%06d" % (b * 1000)], cnt=1000,
                                wa=70, h=1, margin=-1, rd="own"))
        for b in range(10000):
            inp.append(dict(op="block", sym="EAN8", base=[int(ch) for ch in "%07d" % (b * 1000)], cnt=1000,
                            wa=0, h=1, margin=-1, rd="own"))
        rng.shuffle(inp)
    return inp


# ------------------------------------------------------------------ judging
def judge(ctx, inputs, label):
    obs = pdrive(ctx, inputs, per=1500 if inputs and inputs[0]["op"] != "block" else 40)
    if ctx.quick:
        shards = min(vlib.NCPU, max(1, len(obs) // (1200 if obs[0]["op"] != "block" else 6)))
    else:
        shards = vlib.NCPU
    bad = vlib.validate(ctx, "Trace_OneDRT", obs, stateless=True, timeout=3000, shards=shards)
    ctx.traces += 1
    for o in obs:
        if o["op"] == "rt":
            ctx.count_case(("rt", o["sym"], o["c"], o["force"], o["wk"], o["wa"], o["h"], o["margin"], o["rd"]))
        elif o["op"] == "read":
            ctx.count_case(("read", o["sym"], o["c"], o["runs"]))
        else:
            ctx.count_case(("block", o["sym"], o["base"], o["cnt"]))
            ctx.evaluations += o["cnt"] - 1
    for gi, ent in bad:
        o = obs[gi]
        ev = slim(o, RT_KEYS) if o["op"] != "block" else slim(o, ("op", "sym", "base", "cnt", "wa", "margin", "panic"))
        ev["why"], ev["diag"], ev["clen"] = ent[2], ent[3], len(o.get("c") or [])
        if o["op"] == "block":
            ev["first"], ev["count"] = ent[4], ent[5]
        vlib.reject(ctx, ev, "%s: %s %s: %s%s" % (label, o["op"], o["sym"], ent[2], (" [" + ent[3] + "]") if ent[3] not in ("", "other") else ""),
                    replay_events=[inputs[gi]])
    return obs, bad


def run(ctx):
    laws(ctx)
    cases = gen_symbols(ctx)
    obs, bad = judge(ctx, cases, "reference-encoded symbol")
    ctx.note("%d symbols built by the reference encoders (Code 128 with SHIFT / code-set switches, full-ASCII Code 39 / 93, ITF "
             "2:1 and 3:1, all Codabar guard pairs, UPC/EAN) read by the real readers" % len(cases))
    for o in obs:
        if o["sym"] == "C128" and len(o["c"]) >= 5:
            ctx.sample(slim(o, ("op", "sym", "c", "text", "err", "orient")))
            break
    inputs = rt_inputs(ctx)
    obs, bad = judge(ctx, inputs, "round trip")
    acc = [o for o in obs if o["werr"] == 0]
    ctx.note("%d write->read round trips (9 symbologies; sizes %s x margin default / default+7; matching reader and multi-format "
             "UPC/EAN reader; valid and invalid contents): %d written, %d refused, %d read back" % (
                 len(obs), SIZES, len(acc), len(obs) - len(acc), sum(1 for o in acc if o["err"] == 0)))
    seen = set()
    for o in acc:
        if o["sym"] not in seen and o["err"] == 0 and len(seen) < 4 and len(o["c"]) <= 14:
            seen.add(o["sym"])
            ctx.sample(slim(o, ("op", "sym", "c", "force", "wk", "wa", "h", "margin", "rd", "w", "hh", "text", "fmt")))
    binp = block_inputs(ctx)
    obs, bad = judge(ctx, binp, "round-trip block")
    tot = sum(o["cnt"] for o in obs)
    ctx.note("%d payloads in %d blocks (UPC-E at width 70, EAN-8 at natural size): accepted check digits and read-back%s" % (
        tot, len(obs), "" if ctx.quick else "; exhaustive over all 2 000 000 UPC-E numbers and all 10 000 000 EAN-8 payloads"))
    ctx.extra["exhaustive_upce_ean8_round_trip"] = not ctx.quick
    if obs:
        o = obs[0]
        ctx.sample(dict(op="block", sym=o["sym"], base=o["base"], cnt=o["cnt"], m=o["m"][:5], k=o["k"][:5], s=o["s"][:5]))
    ctx.exhaustive = False
    return vlib.finish(
        ctx,
        rule="one case = one write->read round trip (symbology, content, forced code set, requested size, margin, reader), one "
             "reference-encoded symbol read by a real reader, or one block of consecutive payloads (each payload an evaluation)",
        assumptions=["sizes are a grid (width 0, natural+1, 2x, 3x+1, natural+13, 5x+3, 17x, 41x+5; heights 0..30), margins default and "
                     "default+7; not every width/height/margin",
                     "Code 39 contents made only of the 43-character alphabet are read with the plain reader, all others with "
                     "the extended-mode reader",
                     "ITF lengths 2 and 4 and Codabar with fewer than two data characters are outside the readers' domain: "
                     "only the written symbol is judged",
                     "Code 128 forced set B with a space, and full-ASCII Code 39 / Code 93 contents longer than 80 symbol "
                     "characters: acceptance is left open",
                     "Code 128 / 93 / 39 / Codabar / ITF character tables are pinned from the baseline after structural validation"],
        trusted=["TLC", "spec/OneDTables.tla, OneD.tla, Check.tla, OneDRT.tla", "harness/c03 (run-length projection of the written "
                 "row, painting of run lengths)"])


def replay(ctx, path):
    r = json.load(open(path))
    judge(ctx, r["inputs"], "replay")
    return vlib.finish(ctx, rule="replay of one recorded call")
