"""C08 - Data Matrix symbols conform to ISO/IEC 16022 ECC 200: the writer's matrix equals the reference construction of
spec/DMPlacement.tla for the codewords the high-level encoder produced; parity, placement, symbol attributes, padding and the
decoder's size table equal spec/DMTables.tla."""
import random
import vlib, dmlib


def workload(ctx):
    rng = random.Random(ctx.seed * 17 + 3)
    ev = [dict(op="decver")]
    # symbol attribute table of the encoder through SymbolInfo_Lookup (exact capacity, shape forced) - all 30 sizes
    for (h, w, n) in dmlib.SIZES:
        ev.append(dict(op="lookup", n=n, shape=2 if h != w else 1, mn=[], mx=[]))
    # parity: random data for every size, and unit vectors that expose the generator polynomial of every parity length
    for (h, w, n) in dmlib.SIZES:
        for rep in range(1 if ctx.quick else 5):
            ev.append(dict(op="ecc", data=[rng.randrange(256) for _ in range(n)], shape=2 if h != w else 1))
        unit = [0] * n
        unit[-1] = 1
        ev.append(dict(op="ecc", data=unit, shape=2 if h != w else 1))
        ev.append(dict(op="ecc", data=[255] * n, shape=2 if h != w else 1))
    # placement of arbitrary codewords in every mapping matrix
    for (nr, nc) in dmlib.MAPS:
        for rep in range(1 if ctx.quick else 4):
            ev.append(dict(op="place", nr=nr, nc=nc, cw=[rng.randrange(256) for _ in range(nr * nc // 8)]))
        ev.append(dict(op="place", nr=nr, nc=nc, cw=[255] * (nr * nc // 8)))
    # whole symbols through the writer: digit strings that fill each size exactly, mixed texts, forced sizes with long pad runs
    for (h, w, n) in dmlib.SIZES:
        shape = 2 if h != w else 1
        ev.append(dmlib.sym([48 + rng.randrange(10) for _ in range(2 * n)], shape=shape, tag="fill"))
        ev.append(dmlib.sym([ord("A")], shape=shape, mn=[w, h], mx=[w, h], tag="pad"))
        for rep in range(1 if ctx.quick else 12):
            k = rng.randint(1, max(1, n // 2))
            text = [rng.choice(b"ABCDEFGHIJKLMNOPQRSTUVWXYZ abcdefghij0123456789.,-/*>\r") for _ in range(k)]
            ev.append(dmlib.sym(text, shape=shape, mn=[w, h], tag="mixed"))
    return ev


def run(ctx):
    res = vlib.run_tlc(ctx, "MC_DM", "MC_DM", workers=vlib.NCPU, timeout=1500)
    ctx.note("MC_DM: %d states: Table 7 laws (data+ec = mapping/8, regions, blocks), Annex F placement is a bijection onto the mapping "
             "matrix for all 30 sizes with the fixed corner pattern where (rows*cols) mod 8 = 4, zero syndromes of every interleaved block "
             "incl. 144x144, randomisation bijective, capacity order" % res.generated)
    dmlib.judge(ctx, workload(ctx), "C08 workload")
    ctx.exhaustive = True
    ctx.extra["exhaustive_over"] = "the 30 symbol sizes, 30 mapping matrices, 16 parity lengths, pad positions 3..1558"
    return vlib.finish(ctx, rule="one case = one recorded call: a whole symbol compared module by module with the reference, a parity "
                       "computation, a placement of arbitrary codewords, a symbol attribute lookup, the decoder's table; all 30 sizes "
                       "are enumerated in both tiers, payloads are seeded",
                       assumptions=["data codewords are those EncodeHighLevel returned (their correctness is C02)"],
                       trusted=["TLC", "spec/DMTables.tla + DMPlacement.tla (transcription of ISO/IEC 16022, self-checked by MC_DM)"])


replay = dmlib.replay
