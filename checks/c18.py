"""C18 - independent readers and writers can run concurrently.
spec/Conc.tla: design model of the library's shared state at the grain of its own reads and writes; TLC explores all
interleavings (NoRace, NoRunPhaseWrite, Deterministic) and must REJECT the mutated designs (hoisted encoder, shared reader,
lazy table initialisation).  The real library is run under the race detector with the verif hooks by harness/c18;
spec/Trace_Conc.tla accepts a run only if it is a behaviour of the model: single-goroutine ownership of every cache / scratch
object, no write to package-level state, results equal to the sequential ones, no race report."""
import glob, os, random
import vlib

KINDS = ["qr", "dm", "ean13", "ean8", "upca", "upce", "code39", "code93", "code128", "itf", "codabar", "multi", "aztecread"]


def ean(rng, n):
    d = [rng.randrange(10) for _ in range(n)]
    return "".join(map(str, d))


def mkjob(rng, kind):
    if kind in ("qr", "aztecread"):
        t = "".join(rng.choice("ABCDEFGHIJKLMNOPQRSTUVWXYZ0123456789 abcdefghijklmnopqrstuvwxyz:/.") for _ in range(rng.randint(5, 180)))
        s = rng.choice([0, 120, 200, 333])
        return dict(kind=kind, text=t, w=s, h=s)
    if kind == "dm":
        # sizes from one block up to several interleaved Reed-Solomon blocks (52x52 and larger need > 174 codewords)
        t = "".join(rng.choice("ABCDEFGHIJKLMNOPQRSTUVWXYZ0123456789 abcdef") for _ in range(rng.choice([rng.randint(3, 120), rng.randint(260, 700), rng.randint(700, 1100)])))
        s = rng.choice([0, 150, 240])
        return dict(kind=kind, text=t, w=s, h=s)
    w, h = rng.choice([(0, 30), (300, 40), (411, 25)])
    if kind in ("ean13", "multi"):
        return dict(kind=kind, text=ean(rng, 12), w=w, h=h)
    if kind == "ean8":
        return dict(kind=kind, text=ean(rng, 7), w=w, h=h)
    if kind == "upca":
        return dict(kind=kind, text=ean(rng, 11), w=w, h=h)
    if kind == "upce":
        return dict(kind=kind, text="0" + ean(rng, 6), w=max(w, 140), h=h)
    if kind == "itf":
        return dict(kind=kind, text=ean(rng, rng.choice([6, 8, 10, 14])), w=w, h=h)
    if kind == "codabar":
        return dict(kind=kind, text="A" + ean(rng, rng.randint(3, 12)) + "B", w=w, h=h)
    if kind == "code39":
        return dict(kind=kind, text="".join(rng.choice("ABCDEFGHIJKLMNOPQRSTUVWXYZ0123456789-. ") for _ in range(rng.randint(2, 18))), w=w, h=h)
    return dict(kind=kind, text="".join(rng.choice("ABCDEFGHIJKLMNOPQRSTUVWXYZ0123456789abcdefxyz-./") for _ in range(rng.randint(2, 24))), w=w, h=h)


def addon_jobs(ctx, rng, n):
    """EAN/UPC symbols carrying 2- and 5-digit add-ons, built by TLC from the standard's tables (spec/OneD.tla via Gen_Check):
    the add-on decoders have scratch state of their own that only such symbols exercise"""
    recs = []
    for i in range(n):
        sym = ["EAN13", "UPCA", "EAN8"][i % 3]
        p = [rng.randrange(10) for _ in range({"EAN13": 12, "UPCA": 11, "EAN8": 7}[sym])]
        if i % 2:
            v = rng.randrange(100)
            recs.append(dict(sym=sym, p=p, ad=[v // 10, v % 10], ap=[(v % 4) >> 1, (v % 4) & 1]))
        else:
            recs.append(dict(sym=sym, p=p, ad=[rng.randrange(10) for _ in range(5)], ap=[rng.randrange(2) for _ in range(5)]))
    res = vlib.run_tlc(ctx, "MC_Check", "Gen_Check", files={"seeds.ndjson": recs}, workers=2, timeout=900, consts={"Stride": "1000"})
    out = [c for lst in vlib.tlc_printed(res) for c in lst if c.get("pos") == 0]
    if len(out) < n:
        raise vlib.Infra("Gen_Check returned %d add-on symbols for %d seeds" % (len(out), n))
    return [dict(kind="runs", text="", w=0, h=0, sym=("MULTI" if i % 4 == 3 else c["sym"]), runs=c["runs"], q=12, scale=2 + i % 2) for i, c in enumerate(out)]


def aztec_jobs(ctx, rng):
    """reference Aztec symbols of every codeword size (6, 8, 10, 12 bits: four different Galois fields, the 12-bit one is used by
    nothing else in the library), built by TLC from spec/Aztec.tla; read concurrently in the fresh process"""
    import c11
    sizes = [(1, 2), (0, 4), (0, 9), (0, 23)] + ([] if ctx.quick else [(0, 26), (0, 12), (1, 4)])
    cases = [dict(c=c, layers=l, pct=8 if l >= 23 else 25, seed=rng.randrange(1, 1 << 30)) for c, l in sizes]
    return [dict(kind="aztec", text="", w=0, h=0, rows=s["rows"], first=1) for s in c11.gen_symbols(ctx, cases)]


def damaged_jobs(rng, n):
    """QR Codes and Data Matrix symbols with a damaged codeword, decoded directly: texts of many lengths, so that many different numbers
    of check codewords per block meet the Reed-Solomon decoder's correction path (and whatever it keeps per field) for the first time"""
    out = []
    for i in range(n):
        ln = [3, 9, 17, 30, 48, 70, 100, 140, 190, 260, 340, 450][i % 12] + rng.randrange(3)
        t = "".join(rng.choice("ABCDEFGHIJKLMNOPQRSTUVWXYZ0123456789 abcdefghij") for _ in range(ln))
        out.append(dict(kind="qrdmg" if i % 2 == 0 else "dmdmg", text=t, w=0, h=i // 2, first=1 if i < 4 else 0))
    return out


CHARSETS = ["UTF-16BE", "UTF-8", "Shift_JIS", "ISO-8859-1", "ISO-8859-7", "GB18030", "EUC-KR", "Big5", "windows-1251", "US-ASCII"]


def charset_jobs(rng, n):
    """QR symbols whose byte segment follows an ECI designator: the readers go through the character-set registry and the text
    decoders behind it (UTF-16BE's is the only stateful one)"""
    out = []
    for i in range(n):
        cs = CHARSETS[i % len(CHARSETS)] if i % 3 else "UTF-16BE"
        if i % 4 == 3:      # spellings the registry does not list (refused): a lookup that misses must not write to the registry either
            cs = rng.choice(["iso-8859-1", "latin1", "utf-8", "shift_jis", "Utf8", "csISOLatin1", "ibm819", "euc-kr", "big5-hkscs", "x-sjis"]) + rng.choice(["", "", " "])
        t = "".join(rng.choice("abcdefghij klmnopqrstuvwxyz,.;!?") for _ in range(rng.randint(4, 60)))
        out.append(dict(kind="qr", text=t, w=rng.choice([0, 150]), h=rng.choice([0, 150]), cs=cs, first=1 if i < 4 else 0))
    return out


def design_check(ctx):
    res = vlib.run_tlc(ctx, "Conc", "MC_Conc" if ctx.quick else "MC_Conc3", workers=vlib.NCPU, timeout=1800)
    ctx.note("Conc.tla: %d states, all interleavings of %s goroutines x programs of 1-2 operations: NoRace, NoRunPhaseWrite, Deterministic hold" % (
        res.generated, "2" if ctx.quick else "3"))
    # non-vacuity: each mutated design must be rejected by TLC
    for share, cfg in (('{"encoder"}', "MC_Conc"), ('{"reader"}', "MC_Conc"), ('{"lazyinit"}', "MC_Conc"), ('{"encoder"}', "MC_Conc_det")):
        r = vlib.run_tlc(ctx, "Conc", cfg, workers=4, timeout=600, consts={"Share": share}, ok_codes=(0, 12))
        if r.rc != 12:
            raise vlib.Infra("mutated design Share=%s (%s) was not rejected by TLC - the model is vacuous" % (share, cfg))
    ctx.note("mutated designs (hoisted encoder, shared reader, lazily built tables) are rejected by TLC: NoRace / NoRunPhaseWrite / Deterministic violated")


def run(ctx, inputs=None, label="concurrent run"):
    if inputs is None:
        design_check(ctx)
        rng = random.Random(ctx.seed * 977 + 5)
        inputs = []
        plan = [(2, 2), (8, 4), (8, 16), (3, 2)] if ctx.quick else [(2, 2), (4, 4), (8, 16), (16, 16), (32, 8), (64, 16), (3, 3), (8, 2)] * 3
        addons = addon_jobs(ctx, rng, 8 if ctx.quick else 24) + aztec_jobs(ctx, rng)
        for (k, procs) in plan:
            jobs = ([dict(mkjob(rng, KINDS[i % len(KINDS)]), first=1 if i < len(KINDS) and i % 4 == 0 else 0) for i in range(39 if ctx.quick else 78)] + addons + [mkjob(rng, "dm") for _ in range(6)]
                    + charset_jobs(rng, 12 if ctx.quick else 30) + damaged_jobs(rng, 16 if ctx.quick else 36))
            inputs.append(dict(op="round", k=k, rounds=4 if ctx.quick else 12, procs=procs, seed=rng.randrange(1 << 30), jobs=jobs, share=0))
            last = jobs
        # a first use happens once per process: several more fresh processes that do nothing but run the `first` jobs on all goroutines at once
        # (a race on lazily built state needs the goroutines to overlap in a window of microseconds - more throws, more hits)
        firsts = [j for j in last if j.get("first")]
        for (k, procs) in ([(8, 8), (4, 16), (16, 4), (8, 2)] if ctx.quick else [(8, 8), (4, 16), (16, 4), (8, 2), (32, 16), (6, 3)] * 3):
            inputs.append(dict(op="round", k=k, rounds=1, procs=procs, seed=rng.randrange(1 << 30), jobs=firsts, share=0))
    # one fresh process per run: shared state that only races while it is cold must meet the goroutines before anything warmed it up
    obs, first = [], ""
    for inp in inputs:
        logdir = ctx.dir("race")
        o = vlib.drive(ctx, "c18", [inp], race=True, timeout=3000, env={"GORACE": "log_path=%s/race halt_on_error=0 exitcode=0 history_size=7" % logdir})[0]
        reports = 0
        for f in glob.glob(os.path.join(logdir, "race*")):
            s = open(f, errors="replace").read()
            reports += s.count("WARNING: DATA RACE")
            if not first and "WARNING: DATA RACE" in s:
                first = s[s.index("WARNING: DATA RACE"):][:3000]
        o["races"] = reports
        obs.append(o)
    bad = vlib.validate(ctx, "Trace_Conc", obs, shards=1)
    ctx.traces += len(obs)
    names = ["no panic, every round comes back", "every cache / scratch object touched by one goroutine", "no write to package-level state",
             "results equal the sequential ones", "no race detector report", "hooks observed the encoders"]
    for o in obs:
        for r in o["res"]:
            ctx.count_case((o["k"], o["procs"], r[0], r[1] % 7, tuple(r[2:6])))
        ctx.extra["jobs_run_concurrently"] = ctx.extra.get("jobs_run_concurrently", 0) + len(o["res"])
        ctx.extra["hooked_objects"] = ctx.extra.get("hooked_objects", 0) + len({x[2] for x in o["own"]})
    for gi, ent in bad:
        o = obs[gi]
        failed = [names[k] for k, f in enumerate(ent[2]) if f == 0]
        ev = dict(op="round", k=o["k"], procs=o["procs"], rounds=o["rounds"], races=o["races"], failed=failed,
                  shared=[x for x in o["own"] if sum(1 for y in o["own"] if y[1] == x[1] and y[2] == x[2]) > 1][:10],
                  diffs=[r for r in o["res"] if r[2:6] != r[6:10]][:10], race_report=first)
        vlib.reject(ctx, ev, "%s K=%d GOMAXPROCS=%d: %s" % (label, o["k"], o["procs"], "; ".join(failed)), replay_events=[inputs[gi]])
    if obs:
        o = obs[0]
        ctx.sample(dict(kind=label, k=o["k"], procs=o["procs"], rounds=o["rounds"], own=o["own"][:4], res=o["res"][:2], races=o["races"]))
    return vlib.finish(ctx, rule="one case = one job (write + read of one symbology on private instances) executed concurrently with the "
                       "others of its round and compared with its execution alone; rounds vary K (2..64 goroutines) and GOMAXPROCS",
                       assumptions=["schedules of the real code are those the Go scheduler produced under the race detector (sampled); the model "
                                    "is explored exhaustively", "hooks cover the RS generator cache, the grid sampler, GF table construction and "
                                    "the 1-D readers' scratch buffers; other shared state is visible only to the race detector"],
                       trusted=["TLC", "Go race detector", "spec/Conc.tla"])


def replay(ctx, path):
    import json
    r = json.load(open(path))
    return run(ctx, inputs=r["inputs"], label="replay")
