"""C11 - Aztec: conforming symbols of every size decode to their text.
spec/Aztec.tla (reference encoder written from ISO/IEC 24778 + high-level decode automaton),
spec/MC_AztecLayout (design check of spiral / sizes / mode message / fields / RS),
spec/MC_Aztec (design check of the message layer over all short scripts + generation of reference symbols),
spec/Trace_Aztec (validation of what the real decoder / reader returned for those symbols)."""
import json, random, time, concurrent.futures
import vlib

# compact k+1 and full-range k have the same width (19, 23, 27) but different layouts: kept adjacent, in both orders, because one
# Decoder / AztecReader serves the whole run (state kept between symbols of equal width must not leak)
QUICK_SIZES = [(1, 1), (1, 2), (0, 1), (1, 2), (0, 2), (1, 3), (0, 3), (1, 4), (0, 4), (0, 5), (0, 8), (0, 9), (0, 22), (0, 23), (0, 32)]
ALL_SIZES = [(1, l) for l in range(1, 5)] + [(0, l) for l in range(1, 33)]
BLANK = dict(op="", c=0, layers=0, nd=0, items=[], rows=[], mask=[], faults=[], flips=[], rot=0, scale=0, quiet=0,
             bits=[], nbits=0, txt=[], err=0, panic=0, msg="", id=0)


def wordsize(layers):
    return 6 if layers <= 2 else 8 if layers <= 8 else 10 if layers <= 22 else 12


def _tlc(ctx, *a, **kw):
    """vlib.run_tlc from worker threads (ctx.dir() is not thread safe: retry on a scratch-name collision)"""
    for _ in range(5):
        try:
            return vlib.run_tlc(ctx, *a, **kw)
        except FileExistsError:
            time.sleep(0.05)
    raise vlib.Infra("could not create a scratch directory")


def design_checks(ctx):
    """TLC model-checks the oracle itself; the explored scripts are returned for replay on the real HighLevelDecode."""
    res = _tlc(ctx, "MC_AztecLayout", "MC_AztecLayout", workers=6, timeout=1500,
               consts=dict(Deep="FALSE" if ctx.quick else "TRUE"))
    ctx.note("MC_AztecLayout: %d jobs (36 sizes: spiral bijection / size table / capacity; 36 header classes: every mode "
             "message is an RS codeword over GF(16); 5 fields; 10 RS samples) hold" % res.distinct)
    segs = 3 if ctx.quick else 4
    res = _tlc(ctx, "MC_Aztec", "MC_Aztec", workers=vlib.NCPU if not ctx.quick else 8, timeout=1700,
               consts=dict(MaxSegs=segs, EmitMax=3))
    scripts = vlib.tlc_printed(res)
    if not scripts:
        raise vlib.Infra("MC_Aztec emitted no scripts:\n" + res.out[-2000:])
    ctx.note("MC_Aztec: all scripts of <= %d segments (%d states, %d distinct): decode automaton reads every stream back, "
             "also after stuffing/unstuffing with 1-padding for 6/8/10/12-bit codewords; %d scripts emitted for replay"
             % (segs, res.generated, res.distinct, len(scripts)))
    return scripts


def plan(ctx):
    rng = random.Random(ctx.seed * 104729 + (11 if ctx.quick else 12))
    out = []
    if ctx.quick:
        sizes = list(QUICK_SIZES)
        extra = rng.sample([s for s in ALL_SIZES if s not in QUICK_SIZES and s[1] <= 16], 3)   # rotate the others in by seed
        sizes += extra
    else:
        sizes = [(1, 2), (0, 1), (1, 2), (1, 3), (0, 2), (1, 3), (1, 4), (0, 3), (1, 4)] + list(ALL_SIZES) + [(0, l) for l in range(1, 9)]   # small sizes twice
    for (c, l) in sizes:
        ws = wordsize(l)
        pct = rng.randint(25, 60) if ws <= 8 else rng.randint(25, 40) if ws == 10 else rng.randint(18, 26)
        if c == 1 and l >= 3:
            pct = rng.randint(25, 32)           # compact 3/4: more than 32 data codewords (top bit of the 6-bit count in the mode message)
        if ctx.quick and ws == 12:
            pct = rng.randint(6, 9)             # ISO/IEC 24778 allows 5%..95%; few check words keep TLC's parity computation short
        out.append(dict(c=c, layers=l, pct=pct, seed=rng.randrange(1, 1 << 30)))
    # scripts that random drawing practically never produces: texts made of the two-character PUNCT codes (CR LF, ". ", ", ", ": " cost 2.5
    # bits per output byte - every size bound derived from "a byte costs at least 4 bits" breaks), and ONE binary-shift run of the greatest
    # length the 11-bit long form can state (2047 + 31 bytes), in the two largest symbols
    LP = [[1, 2, 0, 0, 0], [1, 3, 0, 0, 0]]                    # latch Upper -> Mixed -> Punct
    forced = [dict(c=1, layers=1, items=LP + [[0, 3, 1, 0, 6]]), dict(c=1, layers=3, items=LP + [[0, 3, 3, 0, 20]]),
              dict(c=0, layers=4, items=LP + [[0, 3, 2, 0, 9], [0, 3, 1, 0, 30]]),
              dict(c=0, layers=12, items=[[0, 0, 1, 0, 1]] + LP + [[0, 3, 4, 0, 40], [0, 3, 1, 0, 200]]),
              dict(c=0, layers=32, items=[[3, 0, 7, 13, 2078]])]
    if not ctx.quick:
        forced += [dict(c=0, layers=27, items=LP + [[0, 3, 1, 0, 1500]]), dict(c=0, layers=31, items=[[3, 0, 200, 57, 2048]]),
                   dict(c=0, layers=32, items=[[0, 0, 2, 1, 5], [3, 0, 0, 1, 2060]]), dict(c=0, layers=30, items=[[3, 0, 1, 3, 2047]])]
    for fz in forced:
        out.append(dict(c=fz["c"], layers=fz["layers"], pct=5, seed=rng.randrange(1, 1 << 30), items=fz["items"]))
    return out


def gen_symbols(ctx, cases):
    """One TLC simulation per symbol: a random script filling the symbol + fault sets up to capacity + the module matrix."""
    def one(k):
        extra = dict(UseForced="TRUE") if k.get("items") else {}
        res = _tlc(ctx, "MC_Aztec", "Gen_Aztec", workers=1, timeout=1700,
                   consts=dict(Compact=k["c"], Layers=k["layers"], EcPct=k["pct"], **extra),
                   files={"forced.ndjson": [dict(items=k["items"])]} if k.get("items") else None,
                   args=["-simulate", "num=1", "-depth", "100000", "-seed", str(k["seed"])])
        out = vlib.tlc_printed(res)
        if len(out) != 1:
            raise vlib.Infra("Gen_Aztec produced %d symbols for %s:\n%s" % (len(out), k, res.out[-2000:]))
        return out[0]
    order = sorted(range(len(cases)), key=lambda i: -cases[i]["layers"])       # long jobs first
    syms = [None] * len(cases)
    with concurrent.futures.ThreadPoolExecutor(max_workers=vlib.NCPU) as ex:
        for i, s in zip(order, ex.map(lambda i: one(cases[i]), order)):
            syms[i] = s
    return syms


def symbol_events(ctx, sym, rng):
    """reset (direct decode) + direct decodes of damaged matrices + rendered images in four orientations, scales 2..5."""
    ev = [dict(BLANK, op="reset", c=sym["c"], layers=sym["layers"], nd=sym["nd"], items=sym["items"], rows=sym["rows"])]
    fl = list(zip(sym["faults"], sym["flips"]))
    for f, cells in fl:
        ev.append(dict(BLANK, op="mat", faults=f, flips=cells))
    scales = [2, 3, 4, 5]
    rng.shuffle(scales)
    for rot in range(4):
        for si, scale in enumerate(scales):
            quiet = rng.choice([2, 3, 4])
            # quick: per rotation one clean image and one damaged image, at two different scales (all four scales overall)
            if not ctx.quick or si == rot:
                ev.append(dict(BLANK, op="img", rot=rot, scale=scale, quiet=quiet))
            if fl and (not ctx.quick or si == (rot + 1) % 4):
                f, cells = fl[(rot + si) % len(fl)]
                ev.append(dict(BLANK, op="img", rot=rot, scale=scale, quiet=quiet, faults=f, flips=cells))
    return ev


def tables_of(items):
    t = set()
    mode = 0
    for s in items:
        if s[0] == 0:
            t.add("UPPER LOWER MIXED PUNCT DIGIT".split()[mode])
        elif s[0] == 1:
            mode = s[1]
        elif s[0] == 2:
            t.add("shift-" + "UPPER LOWER MIXED PUNCT DIGIT".split()[s[1]])
        elif s[0] == 3:
            t.add("binary-long" if s[4] > 31 else "binary-short")
    return t


def observe_symbols(ctx, traces):
    """traces: list of event lists, each starting with a reset event.  Returns rejected events as (event, why-part, inputs)."""
    import bisect
    inputs = [e for t in traces for e in t]
    if not inputs:
        return []
    starts, i = [], 0
    for t in traces:
        starts.append(i); i += len(t)
    obs = vlib.drive(ctx, "c11", inputs, timeout=1700)
    bad = vlib.validate(ctx, "Trace_Aztec", obs, stateless=False, timeout=1700)
    ctx.traces += len(traces)
    c = l = 0
    for o in obs:
        if o["op"] == "reset":
            c, l = o["c"], o["layers"]
        ctx.count_case((o["op"], c, l, o["rot"], o["scale"], o["quiet"], o["faults"][:3], len(o["faults"])))
    out = []
    for gi, ent in bad:
        ev = dict(obs[gi])
        if len(ent) < 3 or ent[2] != "decode":
            raise vlib.Infra("Trace_Aztec: premise of event %d (%s) does not hold - the input is not the spec's symbol" % (gi, ev["op"]))
        ti = bisect.bisect_right(starts, gi) - 1
        r = inputs[starts[ti]]
        hist = [r] + ([inputs[gi]] if gi != starts[ti] else [])
        ev.update(c=r["c"], layers=r["layers"], nd=r["nd"], rows=[], flips=ev["flips"][:8], damaged=len(ev["faults"]))
        out.append((ev, "%s of a %s symbol with %d layers, rotation %d, scale %d, %d damaged codewords" % (
            {"reset": "direct decode", "mat": "direct decode", "img": "AztecReader.Decode"}[ev["op"]],
            "compact" if r["c"] else "full-range", r["layers"], ev["rot"], ev["scale"], len(ev["faults"])), hist))
    return out


def mode_messages(ctx, rng):
    """The mode message of every size x number of data codewords (all of them in the thorough tier): TLC lays the header and
    its GF(16) check words round the mode ring (Gen_AztecCore); detector.Detect has to announce (compact, layers, nd)."""
    cores = []
    for (c, l) in ALL_SIZES:
        ws = wordsize(l)
        ncw = ((88 if c else 112) + 16 * l) * l // ws
        hi = min(ncw - 3, 64 if c else 2048)
        if ctx.quick:
            nds = {1, 2, hi, hi - 1} | {x for k in range(12) for x in ((1 << k), (1 << k) + 1, (1 << k) - 1 + (1 << (k // 2)))}
            nds |= {rng.randint(1, hi) for _ in range(24)} | {rng.randint(max(1, hi * 2 // 3), hi) for _ in range(12)}
            nds = sorted(x for x in nds if 1 <= x <= hi)
        else:
            nds = list(range(1, hi + 1))
        cores.append(dict(c=c, layers=l, nds=nds))
    res = _tlc(ctx, "Gen_AztecCore", "Gen_AztecCore", workers=4, timeout=1700, files={"cores.ndjson": cores})
    out = {(x["c"], x["layers"]): x for x in vlib.tlc_printed(res)}
    if len(out) != len(cores):
        raise vlib.Infra("Gen_AztecCore printed %d of %d cores:\n%s" % (len(out), len(cores), res.out[-2000:]))
    traces, n = [], 0
    for k in cores:
        x = out[(k["c"], k["layers"])]
        if x["ncw"] != ((88 if k["c"] else 112) + 16 * k["layers"]) * k["layers"] // wordsize(k["layers"]) or x["nds"] != k["nds"]:
            raise vlib.Infra("Gen_AztecCore: codeword count / request of %s differs from the plan" % k)
        t = [dict(BLANK, op="tmpl", c=k["c"], layers=k["layers"], rows=x["rows"], mask=x["mask"])]
        for nd, cells in zip(x["nds"], x["modes"]):
            n += 1
            t.append(dict(BLANK, op="det", nd=nd, flips=cells, rot=rng.randrange(4), scale=rng.choice([3, 3, 4]), quiet=rng.choice([2, 3]), id=n))
        traces.append(t)
    # many more pictures of the small full-range sizes at 3 pixels per module, unturned: whether the ring round the bull's eye is taken for
    # another ring of it depends on the mode message AND on the data modules next to it (seeded fills)
    for k in cores:
        if k["c"] == 0 and k["layers"] <= 8:
            x = out[(0, k["layers"])]
            t = [dict(BLANK, op="tmpl", c=0, layers=k["layers"], rows=x["rows"], mask=x["mask"])]
            for rep in range(12 if ctx.quick else 120):
                for nd, cells in zip(x["nds"], x["modes"]):
                    n += 1
                    t.append(dict(BLANK, op="det", nd=nd, flips=cells, rot=0, scale=3, quiet=rng.choice([2, 3]), id=n))
            traces.append(t)
    return traces


def observe_modes(ctx, traces):
    inputs = [e for t in traces for e in t]
    obs = vlib.drive(ctx, "c11", inputs, timeout=1700)
    bad = vlib.validate(ctx, "Trace_Aztec", obs, stateless=False, timeout=1700)
    ctx.traces += len(traces)
    c = l = 0
    out = []
    starts = {}
    for i, o in enumerate(obs):
        if o["op"] == "tmpl":
            c, l, t0 = o["c"], o["layers"], i
        else:
            ctx.count_case(("det", c, l, o["nd"], o["rot"], o["scale"]))
        starts[i] = t0
    for gi, ent in bad:
        ev = dict(obs[gi])
        if len(ent) < 3 or ent[2] != "decode":
            raise vlib.Infra("Trace_Aztec: premise of event %d (%s) does not hold - the input is not the spec's mode message" % (gi, ev["op"]))
        r = obs[starts[gi]]
        ev.update(c=r["c"], layers=r["layers"], rows=[], flips=ev["flips"][:8])
        out.append((ev, "detector.Detect on a %s symbol with %d layers announcing %d data codewords, rotation %d, scale %d: read %s" % (
            "compact" if r["c"] else "full-range", r["layers"], ev["nd"], ev["rot"], ev["scale"], ev["txt"]),
            [inputs[starts[gi]], inputs[gi]]))
    ctx.extra["mode_messages"] = len(inputs) - len(traces)
    return out


def observe_scripts(ctx, hl_events):
    if not hl_events:
        return []
    obs = vlib.drive(ctx, "c11", hl_events, timeout=1700)
    bad = vlib.validate(ctx, "Trace_Aztec", obs, stateless=True, timeout=1700)
    ctx.traces += 1
    for o in obs:
        ctx.count_case(("hl", o["items"]))
    out = []
    for gi, ent in bad:
        ev = dict(obs[gi])
        if len(ent) < 3 or ent[2] != "decode":
            raise vlib.Infra("Trace_Aztec: premise of hl event %d does not hold - the bits are not the script's" % gi)
        out.append((ev, "HighLevelDecode of script %s" % ev["items"][:6], [hl_events[gi]]))
    return out


PREDS = {   # predicates of known/C11.json
    "not_located": lambda e: str(e.get("msg", "")).startswith("NotFoundException") and not e.get("txt"),
}


def report(ctx, rejected, label):
    for ev, where, hist in rejected:
        vlib.reject(ctx, ev, "%s: %s -> err=%s panic=%s msg=%r, %d characters returned (Trace_Aztec: not the script's text)" % (
            label, where, ev["err"], ev["panic"], ev.get("msg", ""), len(ev["txt"])), replay_events=hist, preds=PREDS)


def hl_event(x):
    return dict(BLANK, op="hl", items=x["items"], bits=x["hl"], nbits=x["nhl"])


def run(ctx):
    rng = random.Random(ctx.seed * 7 + 5)
    cases = plan(ctx)
    vlib.build_harness(ctx, "c11")
    t0 = time.time()
    stamp = {}

    def message_layer():        # design checks, then every explored script through the real HighLevelDecode
        scripts = design_checks(ctx)
        stamp["design"] = time.time() - t0
        return scripts, observe_scripts(ctx, [hl_event(x) for x in scripts])

    def symbols():              # reference symbols from TLC, then every decode of them
        syms = gen_symbols(ctx, cases)
        stamp["generation"] = time.time() - t0
        traces = [symbol_events(ctx, s, rng) for s in syms]
        return syms, observe_symbols(ctx, traces) + observe_scripts(ctx, [hl_event(s) for s in syms]) + observe_modes(ctx, mode_messages(ctx, rng))

    with concurrent.futures.ThreadPoolExecutor(max_workers=2) as ex:
        fa, fb = ex.submit(message_layer), ex.submit(symbols)
        (scripts, rej_a), (syms, rej_b) = fa.result(), fb.result()
    report(ctx, rej_b + rej_a, "reference symbol")
    ctx.extra["phase_s"] = {k: round(v, 1) for k, v in stamp.items()}
    seen = set()
    for s in syms:
        seen |= tables_of(s["items"])
    sizes = sorted({(s["c"], s["layers"]) for s in syms})
    ctx.extra["sizes"] = ["%s%d" % ("C" if c else "F", l) for c, l in sizes]
    ctx.extra["encodings_in_symbols"] = sorted(seen)
    ctx.extra["check_word_share"] = {"%s%d" % ("C" if s["c"] else "F", s["layers"]): "%d/%d" % (s["ncw"] - s["nd"], s["ncw"]) for s in syms}
    ctx.exhaustive = False
    for s in syms[:2] + syms[-2:]:
        ctx.sample(dict(kind="reference symbol", compact=s["c"], layers=s["layers"], codewords=s["ncw"], data_codewords=s["nd"],
                        script=s["items"][:8], text=s["text"][:24], damaged=[len(f) for f in s["faults"]]))
    ctx.sample(dict(kind="script for HighLevelDecode", items=scripts[len(scripts) // 2]["items"], text=scripts[len(scripts) // 2]["text"][:24]))
    return vlib.finish(ctx,
        rule="one case = one decode of the real code: (entry point, symbol size, rotation, scale, quiet zone, damaged codewords) "
             "or one script through HighLevelDecode; symbols and fault sets are TLC-simulated (seeded), scripts <= 3 segments "
             "are enumerated exhaustively by TLC",
        assumptions=["images are clean (pure black/white, >= 2 modules of margin, 2..5 pixels per module, quarter-turn rotations)",
                     "damage = up to floor(check words / 2) codewords with arbitrary wrong values, placed through the spec's spiral",
                     "FLG(n)/ECI and shift-followed-by-control sequences are not generated (outside the property)"],
        trusted=["TLC", "spec/Aztec.tla (reference encoder from ISO/IEC 24778, checked by MC_AztecLayout / MC_Aztec)",
                 "harness/c11 projection (matrix from row chunks, module flips, rendering)", "HybridBinarizer on clean images"])


def replay(ctx, path):
    r = json.load(open(path))
    ins = r["inputs"]
    if ins and ins[0]["op"] == "hl":
        report(ctx, observe_scripts(ctx, ins), "replay")
    elif ins and ins[0]["op"] == "tmpl":
        report(ctx, observe_modes(ctx, [ins]), "replay")
    else:
        report(ctx, observe_symbols(ctx, [ins]), "replay")
    return vlib.finish(ctx, rule="replay of one recorded decode")
