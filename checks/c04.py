"""C04 - Reed-Solomon codec and GF(2^m) arithmetic exact up to the design distance.
spec/GF.tla (fields from their primitive polynomials; eager exp/log tables), spec/RS.tla (code = zero syndromes,
systematic encoding, declarative decoding), spec/MC_GF (TLC proves tables == carry-less multiplication mod p),
spec/MC_RS (design check on tiny codes + generation of error-pattern cases), spec/Trace_RS (validation of the
observations of the real reedsolomon package recorded by harness/c04)."""
import json, random, concurrent.futures
import vlib

FIELDS = {1: (256, 0, "QR-256"), 2: (256, 1, "DataMatrix-256"), 3: (16, 1, "Aztec-16"), 4: (64, 1, "Aztec-64"),
          5: (1024, 1, "Aztec-1024"), 6: (4096, 1, "Aztec-4096")}

# Code shapes (data symbols k, check symbols r) of the symbologies - only used to CHOOSE inputs.
QR_SHAPES = [(19,7),(16,10),(34,10),(13,13),(55,15),(9,16),(27,16),(28,16),(9,17),(14,18),(15,18),(16,18),(17,18),(31,18),
 (32,18),(68,18),(69,18),(16,20),(17,20),(78,20),(80,20),(81,20),(11,22),(12,22),(13,22),(18,22),(19,22),(22,22),(36,22),
 (37,22),(38,22),(39,22),(87,22),(88,22),(12,24),(13,24),(19,24),(20,24),(21,24),(40,24),(41,24),(42,24),(43,24),(92,24),
 (93,24),(97,24),(98,24),(99,24),(13,26),(14,26),(15,26),(20,26),(21,26),(22,26),(24,26),(41,26),(42,26),(43,26),(44,26),
 (45,26),(106,26),(107,26),(108,26),(14,28),(15,28),(16,28),(22,28),(23,28),(45,28),(46,28),(47,28),(48,28),(107,28),
 (108,28),(111,28),(112,28),(113,28),(114,28),(115,28),(116,28),(117,28),(15,30),(16,30),(17,30),(23,30),(24,30),(25,30),
 (50,30),(51,30),(115,30),(116,30),(117,30),(118,30),(119,30),(120,30),(121,30),(122,30),(123,30)]
DM_SHAPES = [(3,5),(5,7),(8,10),(10,11),(12,12),(16,14),(18,14),(22,18),(30,20),(32,24),(36,24),(44,28),(49,28),(62,36),
 (92,36),(86,42),(102,42),(114,48),(136,56),(140,56),(144,56),(155,62),(156,62),(163,62),(174,68),(175,68)]


def aztec_shapes(quick):
    """(field, k, r) of Aztec symbols: mode message (GF16) and data words per layer count at 23%+3 / 33%+3 / minimal ec."""
    out = [(3, 2, 5), (3, 4, 6)]
    sizes = [(True, l) for l in range(1, 5)] + [(False, l) for l in range(1, 33)]
    if quick:
        sizes = [(True, 1), (True, 4), (False, 1), (False, 2), (False, 3), (False, 8), (False, 9), (False, 22), (False, 23)]
    for compact, l in sizes:
        bits = ((88 if compact else 112) + 16 * l) * l
        ws, f = (6, 4) if l <= 2 else (8, 2) if l <= 8 else (10, 5) if l <= 22 else (12, 6)
        n = bits // ws
        for r in ([n * 23 // 100 + 3] if quick else [n * 23 // 100 + 3, n * 33 // 100 + 3, 3]):
            out.append((f, n - r, r))
    return out


# ---------------------------------------------------------------- inputs
def ev(op, f, a=(), x=(), e=(), c=(), fresh=0):
    return dict(op=op, f=f, a=list(a), x=list(x), e=[list(p) for p in e], c=list(c), y=[], w=[], z=[], err=0, panic=0,
                derr=0, dpanic=0, fresh=fresh)


def rand_data(rng, q, k):
    m = rng.choice(["rand", "rand", "rand", "lead0", "zero", "max", "sparse"])
    if m == "rand":
        return [rng.randrange(q) for _ in range(k)]
    if m == "lead0":
        z = rng.randint(1, k)
        return [0] * z + [rng.randrange(q) for _ in range(k - z)]
    if m == "zero":
        return [0] * k
    if m == "max":
        return [q - 1] * k
    return [rng.randrange(q) if rng.random() < 0.1 else 0 for _ in range(k)]


def rand_errs(rng, q, n, cnt, edge):
    cnt = min(cnt, n)
    pos = set()
    if edge and cnt >= 1:
        pos.add(rng.choice([0, n - 1]))
    if edge and cnt >= 2:
        pos.update([0, n - 1])
    if edge and cnt >= 3 and rng.random() < 0.5:          # a burst
        s = rng.randrange(n - min(cnt, n) + 1)
        pos.update(range(s, s + cnt - len(pos)))
    while len(pos) < cnt:
        pos.add(rng.randrange(n))
    pos = sorted(pos)[:cnt]
    return [[p, rng.choice([1, 2, q - 1, rng.randrange(1, q), rng.randrange(1, q)])] for p in pos]


def seeded_cases(ctx):
    """dec/enc inputs over the (k, r) shapes of QR / Data Matrix / Aztec and over arbitrary shapes incl. the extremes."""
    rng = random.Random(ctx.seed * 104729 + (11 if ctx.quick else 12))
    shapes = [(1, k, r) for k, r in QR_SHAPES] + [(2, k, r) for k, r in DM_SHAPES] + aztec_shapes(ctx.quick)
    out = []

    def add(f, k, r, counts):
        q, n, t = FIELDS[f][0], k + r, r // 2
        for cnt in counts:
            cnt = {"t": t, "t-1": max(t - 1, 0), "t+1": t + 1, "rand": rng.randint(0, t), "half": (t + 1) // 2}.get(cnt, cnt)
            data, errs = rand_data(rng, q, k), rand_errs(rng, q, n, cnt, rng.random() < 0.6)
            if errs and data[0] and rng.random() < 0.15:      # the error wipes out the leading symbol(s) of the word
                errs = [[0, data[0]]] + [p for p in errs[1:] if p[0] != 0]
                if len(errs) >= 2 and k >= 2 and data[1] and rng.random() < 0.5:
                    errs = errs[:1] + [[1, data[1]]] + [p for p in errs[2:] if p[0] > 1]
            out.append(ev("dec", f, [r], data, errs))

    reps = 1 if ctx.quick else 12
    for f, k, r in shapes:
        big = (k + r) * r > 60000
        for _ in range(1 if big else reps):
            add(f, k, r, ["t"] if big and ctx.quick else ["t", 0] if big else ["t", "t", 1, 0, "rand", "t+1", "t-1"])
    # arbitrary shapes of every field, incl. k = 1, r = 1, 2, 3 and full length n = q - 1
    for f, (q, _, _) in FIELDS.items():
        ext = [(1, 1), (1, 2), (2, 1), (1, 3), (q - 2, 1), (q - 3, 2), (q - 4, 3), (q - 5, 4), (1, min(q - 2, 254)),
               (2, min(q - 3, 200)), (q - 1 - min(q // 2, 64), min(q // 2, 64))]
        if q <= 256:
            ext += [(q // 2, q // 2 - 1), (3, q - 4)]
        for k, r in ext:
            add(f, k, r, ["t", 0, "t+1"] if (k + r) * r > 60000 else ["t", "t", 0, 1, "t+1", "rand"])
        nrand = (12 if ctx.quick else 300) if q <= 256 else (4 if ctx.quick else 60)
        for _ in range(nrand):
            n = rng.randint(2, min(q - 1, 300 if q > 256 else q - 1))
            r = rng.randint(1, min(n - 1, 70))
            add(f, n - r, r, ["t", "rand", "t+1"] if ctx.quick else ["t", "t", "rand", 1, 0, "t+1"])
    # position sweeps on full-length words (n = q - 1, r = 4): a pair of errors at p and p + 17 for every p (quick: a
    # stride for the two big fields), so that every root of the locator polynomial / every position is hit
    for f, (q, _, _) in FIELDS.items():
        n = q - 1
        stride = 1 if q <= 256 else (8 if q == 1024 else 64) if ctx.quick else (1 if q == 1024 else 2)
        data = rand_data(rng, q, n - 4)
        ps = sorted(set(range(0, n, stride)) | {0, 1, n - 2, n - 1})
        for p in ps:
            out.append(ev("dec", f, [4], data, sorted([[p, rng.randrange(1, q)], [(p + 17) % n, rng.randrange(1, q)]])))
        for p in ps[::max(1, len(ps) // 64)]:                    # single errors take a shortcut in the decoder
            out.append(ev("dec", f, [4], data, [[p, rng.randrange(1, q)]]))
    # error patterns within capacity AIMED at decoders that look at only some syndromes (gfaim: "blind" windows of vanishing syndromes,
    # "ghost" single errors): every field, several code shapes
    import gfaim
    aim = {1: [(16, 10), (9, 17), (68, 18), (13, 13)], 2: [(5, 7), (30, 20), (12, 12)], 3: [(7, 8), (4, 10)], 4: [(20, 10), (40, 22)],
           5: [(50, 12), (200, 30)], 6: [(60, 12), (400, 40)]}
    for f, shapes in aim.items():
        q, base, _ = FIELDS[f]
        for (k, r) in shapes:
            data = rand_data(rng, q, k)
            for kind, errs in gfaim.patterns(f, q, base, k + r, r, rng, per=1 if ctx.quick else 4):
                out.append(ev("dec", f, [r], data, sorted(errs)))
    # encoder: data whose parity STARTS with one, two or three zeros (the division's remainder is shorter than r), every field
    for f, shapes in aim.items():
        q, base, _ = FIELDS[f]
        for (k, r) in shapes[:2]:
            for lead in (1, 2, 3):
                if lead < r:
                    d = gfaim.zero_parity_data(f, q, base, k, r, lead, rng)
                    if d:
                        out.append(ev("enc", f, [r], d))
    # encoder only: generator cache exercised in non-monotone order of degrees, every r of a small field
    for f in (1, 2, 3, 4):
        q = FIELDS[f][0]
        rs = list(range(1, min(q - 2, 40 if ctx.quick else 120) + 1))
        rng.shuffle(rs)
        for r in rs:
            k = rng.randint(1, min(q - 1 - r, 40))
            out.append(ev("enc", f, [r], rand_data(rng, q, k)))
    return out


def gf_inputs(ctx):
    rng = random.Random(ctx.seed * 7907 + 5)
    out = [ev("tables", f) for f in FIELDS]
    rows = {}
    for f, (q, _, _) in FIELDS.items():
        if q <= 256 or not ctx.quick:
            rows[f] = list(range(q))
        else:
            cnt = 128 if q == 1024 else 48
            fixed = {0, 1, 2, 3, q - 1, q - 2, q // 2, q // 2 - 1}
            while len(fixed) < cnt:
                fixed.add(rng.randrange(q))
            rows[f] = sorted(fixed)
        out += [ev("mulrow", f, [a]) for a in rows[f]]
    return out, rows


# ---------------------------------------------------------------- TLC: design checks and generation
def run_design(ctx):
    """MC_GF for the six fields and MC_RS on tiny codes, concurrently.  A violated design invariant is a defect of the
    specification, not of the code under test: no verdict (Infra)."""
    rng = random.Random(ctx.seed * 31 + 7)
    tasks = []
    for f, (q, _, name) in FIELDS.items():
        cfg = open(vlib.SPEC + "/MC_GF.cfg").read().replace("Fid = 3", "Fid = %d" % f).replace("Fields = {3}", "Fields = {%d}" % f)
        rows = q
        if q == 4096 and ctx.quick:
            rs = {0, 1, 2, 3, 4095, 4094, 2048, 2047}
            while len(rs) < 384:
                rs.add(rng.randrange(q))
            cfg = cfg.replace("Rows <- AllRows", "Rows = {%s}" % ",".join(map(str, sorted(rs))))
            rows = len(rs)
        tasks.append(("MC_GF", "MC_GF_f%d" % f, cfg, 12 if q == 4096 else 4 if q == 1024 else 2, (f, name, q, rows)))
    cfg = open(vlib.SPEC + "/MC_RS.cfg").read()
    if ctx.quick:
        cfg = cfg.replace("Shapes <- MCShapes", "Shapes <- MCShapesQuick").replace("MaxErr = 3", "MaxErr = 2") \
                 .replace("Pats = {0, 1, 2, 3}", "Pats = {0, 2}")
    tasks.append(("MC_RS", "MC_RS_t", cfg, 6, None))

    def one(t):
        mod, cfgname, cfg, workers, info = t
        return t, vlib.run_tlc(ctx, mod, cfgname, files={cfgname + ".cfg": cfg}, workers=workers, timeout=2400,
                               ok_codes=(0, 12, 13))
    with concurrent.futures.ThreadPoolExecutor(max_workers=7) as ex:
        results = list(ex.map(one, tasks))
    pairs = 0
    for (mod, cfgname, cfg, workers, info), res in results:
        if res.rc != 0 or "No error has been found" not in res.out:
            raise vlib.Infra("design model %s/%s does not satisfy its own laws (specification defect, no verdict):\n%s"
                             % (mod, cfgname, res.out[-2500:]))
        if info:
            f, name, q, rows = info
            pairs += rows * q
            ctx.extra.setdefault("gf_design", {})[name] = "%d rows x %d: table product == clmul mod p, inverse, exp/log; tables sound" % (rows, q)
        else:
            ctx.note("MC_RS: %d states (%d distinct): encode laws for all data words, min distance r+1, unique nearest "
                     "codeword within floor(r/2) on tiny GF(16) codes" % (res.generated, res.distinct))
    ctx.note("MC_GF: %d products proved equal to carry-less multiplication mod the primitive polynomial at the design level"
             % pairs)


def generated_cases(ctx):
    cfg = open(vlib.SPEC + "/Gen_RS.cfg").read()
    runs = [("Gen_RS_a", cfg if ctx.quick else cfg.replace("GenShapesQuick", "GenShapesFull").replace("MaxErr = 2", "MaxErr = 3")
             .replace("Pats = {1, 2, 4}", "Pats = {2, 4}"))]
    if not ctx.quick:   # every magnitude, single and double errors, GF(16) and GF(64) short codes
        runs.append(("Gen_RS_b", cfg.replace("Shapes <- GenShapesQuick", "Shapes <- GenShapesAllMag").replace("AllMags = FALSE", "AllMags = TRUE")
                     .replace("Pats = {1, 2, 4}", "Pats = {2}")))

    def one(r):
        name, c = r
        return vlib.run_tlc(ctx, "MC_RS", name, files={name + ".cfg": c}, workers=4, timeout=2400, xmx="6g")
    cases = []
    with concurrent.futures.ThreadPoolExecutor(max_workers=2) as ex:
        for res in ex.map(one, runs):
            got = vlib.tlc_printed(res)
            # every distinct non-emitted state prints exactly one case: distinct states = 2 x cases
            if not got or 2 * len(got) != res.distinct:
                raise vlib.Infra("Gen_RS: %d cases parsed for %d distinct states:\n%s" % (len(got), res.distinct, res.out[-1500:]))
            cases += got
    return cases


# ---------------------------------------------------------------- judging
def cost(e):
    q = FIELDS[e["f"]][0]
    if e["op"] == "mulrow":
        return 30 * q
    if e["op"] == "tables":
        return 60 * q
    n = len(e["x"]) + e["a"][0]
    return 200 + 2 * n * e["a"][0] * (2 if e["op"] == "dec" else 1)


def validate_balanced(ctx, obs):
    """LPT-balanced sharding (events are independent): returns [(global index, bad entry)]"""
    nb = min(vlib.NCPU, max(1, len(obs) // 40))
    order = sorted(range(len(obs)), key=lambda i: -cost(obs[i]))
    bins, load = [[] for _ in range(nb)], [0] * nb
    for i in order:
        b = load.index(min(load))
        bins[b].append(i)
        load[b] += cost(obs[i])

    def one(b):
        idx = sorted(bins[b])
        return [(idx[gi], ent) for gi, ent in vlib.validate(ctx, "Trace_RS", [obs[i] for i in idx], shards=1, timeout=3000)]
    out = []
    with concurrent.futures.ThreadPoolExecutor(max_workers=nb) as ex:
        for r in ex.map(one, range(nb)):
            out.extend(r)
    ctx.traces += nb                               # trace files of the real code consumed by TLC
    return sorted(out, key=lambda p: p[0])


def key_of(o):
    if o["op"] in ("tables", "mulrow"):
        return (o["op"], o["f"], tuple(o["a"]))
    return (o["op"], o["f"], o["a"][0], tuple(o["x"]), tuple(map(tuple, o["e"])))


def judge(ctx, inputs, labels, may_retry=True):
    """inputs -> real code -> Trace_RS (one balanced validation round for all of them); labels[i] names the origin."""
    if not inputs:
        return []
    obs = vlib.drive(ctx, "c04", inputs)
    bad = validate_balanced(ctx, obs)
    for o in obs:
        ctx.count_case(key_of(o), nontrivial=not (o["op"] == "dec" and not o["e"]))
    beyond = nrej = 0
    for gi, ent in bad:
        o, label = obs[gi], labels[gi]
        if ent[1] == "beyond":                       # informational: more errors than the capacity, no claim
            beyond += 1
            continue
        if ent[1] in ("input", "harness"):
            raise vlib.Infra("event %d (%s) is not judgeable (%s): %s" % (gi, label, ent, json.dumps(inputs[gi])[:400]))
        replay = [dict(inputs[gi], fresh=1)]
        nrej += 1
        if nrej > 60:                                # the verdict is settled; keep the run short
            continue
        if may_retry and nrej <= 3 and o["op"] in ("enc", "dec"):   # does it reproduce on its own with a fresh encoder?
            o1 = vlib.drive(ctx, "c04", replay)
            if not vlib.validate(ctx, "Trace_RS", o1, shards=1):
                replay = [x for x in inputs[:gi + 1] if x["f"] == o["f"] and x["op"] in ("enc", "dec")][-400:]
        summ = dict(op=o["op"], f=o["f"], field=FIELDS[o["f"]][2], a=o["a"], k=len(o["x"]), nerrs=len(o["e"]), x=o["x"][:40],
                    e=o["e"][:40], err=o["err"], panic=o["panic"], derr=o["derr"], dpanic=o["dpanic"], verdict=ent[1:])
        vlib.reject(ctx, summ, "%s: %s field=%s a=%s k=%d errors=%d rejected by Trace_RS %s" % (
            label, o["op"], FIELDS[o["f"]][2], o["a"], len(o["x"]), len(o["e"]), ent[1:]), replay_events=replay)
    if beyond:
        ctx.extra["beyond_capacity_silent_noncodeword"] = ctx.extra.get("beyond_capacity_silent_noncodeword", 0) + beyond
    return obs


def sample_of(o):
    s = dict(op=o["op"], field=FIELDS[o["f"]][2], a=o["a"])
    if o["op"] == "mulrow":
        s["row_head"] = o["y"][:8]
    elif o["op"] in ("enc", "dec"):
        s.update(k=len(o["x"]), data_head=o["x"][:6], errors=o["e"][:4], nerrors=len(o["e"]), parity_head=o["y"][len(o["x"]):][:6],
                 decode_err=o["derr"], restored=int(o["z"] == o["y"]))
    return s


def run(ctx):
    pool = concurrent.futures.ThreadPoolExecutor(max_workers=1)
    design = pool.submit(run_design, ctx)          # design-level model checking runs next to the binding phases
    # (A) GF(2^m) arithmetic of the real tables, judged against clmul mod p
    gin, rows = gf_inputs(ctx)
    ctx.extra["gf_rows_validated"] = {FIELDS[f][2]: "%d of %d rows x %d" % (len(r), FIELDS[f][0], FIELDS[f][0]) for f, r in rows.items()}
    # (B) TLC-generated error patterns on short codes (all single and double positions)
    gen = generated_cases(ctx)
    ctx.note("MC_RS generated %d cases (all error patterns of weight <= min(MaxErr, capacity+1) on short codes of the six fields)" % len(gen))
    gen = [ev("dec", g["f"], [g["r"]], g["x"], g["e"], g["c"]) for g in gen]
    # (C) seeded cases over the shapes of QR / Data Matrix / Aztec, arbitrary shapes, position sweeps
    sc = seeded_cases(ctx)
    inputs = gin + gen + sc
    labels = ["GF arithmetic"] * len(gin) + ["TLC-generated case"] * len(gen) + ["seeded case"] * len(sc)
    obs = judge(ctx, inputs, labels)
    g0, s0 = len(gin), len(gin) + len(gen)
    for i in (len(FIELDS) + 300, g0 + len(gen) // 2, s0 - 1, s0, s0 + len(sc) // 3, s0 + 2 * len(sc) // 3):
        ctx.sample(sample_of(obs[i]))
    dec = [o for o in obs[s0:] if o["op"] == "dec"]
    within = sum(1 for o in dec if len(o["e"]) <= o["a"][0] // 2)
    ctx.extra["seeded"] = "%d codec events (%d decode events within capacity, %d beyond: no claim)" % (len(sc), within, len(dec) - within)
    design.result()
    ctx.exhaustive = False
    return vlib.finish(
        ctx,
        rule="one case = one recorded call: (field, row a) for a multiplication row of |F| products, (field) for the "
             "exp/log/inverse tables, (field, r, data, error list) for an encode / encode+corrupt+decode; decode events "
             "without errors are counted as trivial",
        assumptions=["symbols are field elements, k >= 1, r >= 1, k + r <= |F| - 1 (the property's domain)",
                     "error sets beyond floor(r/2) positions are exercised but nothing is demanded of them",
                     "quick tier: GF(1024)/GF(4096) multiplication rows are sampled (all b for each sampled a); thorough: all rows"],
        trusted=["TLC", "CommunityModules Bitwise (^^) and Json", "spec/GF.tla field definitions (primitive polynomials and "
                 "generator base from ISO/IEC 18004, 16022, 24778)", "harness/c04 (copies arguments, applies the xor "
                 "of the listed errors - re-checked by Trace_RS)"])


def replay(ctx, path):
    r = json.load(open(path))
    judge(ctx, r["inputs"], ["replay"] * len(r["inputs"]), may_retry=False)
    return vlib.finish(ctx, rule="replay of recorded inputs")
