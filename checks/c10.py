"""C10 - check digits and checksums are computed, demanded and enforced.
spec/OneDTables.tla + OneD.tla (tables, check formulae, symbol construction, reference reader), spec/Check.tla (fault
model, admissible reader answers, writer contract), spec/MC_Check (design laws + generation of substituted symbols),
spec/Trace_Check (validation of what the real readers / writers did)."""
import json, random, concurrent.futures
import vlib

GENPAR = 5          # TLC processes used for generation (each with 3 workers)
EAN = {"EAN13": 12, "EAN8": 7, "UPCA": 11, "UPCE": 7}      # payload lengths (without check digit)


# ------------------------------------------------------------------ helpers
def pdrive(ctx, inputs, n=None):
    """inputs -> observations through the real code, over several driver processes"""
    if not inputs:
        return []
    vlib.build_harness(ctx, "c10")
    n = max(1, min(n or vlib.NCPU, len(inputs) // 2000 or 1))
    size = (len(inputs) + n - 1) // n
    parts = [inputs[i:i + size] for i in range(0, len(inputs), size)]
    with concurrent.futures.ThreadPoolExecutor(max_workers=len(parts)) as ex:
        outs = list(ex.map(lambda p: vlib.drive(ctx, "c10", p), parts))
    return [o for part in outs for o in part]


def split_bad(bad):
    rej, tol = [], []
    for gi, ent in bad:
        (tol if ent[1] == "tolerated" else rej).append((gi, ent))
    return rej, tol


def slim(o, keys):
    return {k: o[k] for k in keys if k in o}


READ_KEYS = ("op", "sym", "rd", "n", "pos", "d", "ad", "ap", "runs", "q", "scale", "text", "err", "orient", "ext", "fmt", "panic")
WRITE_KEYS = ("op", "sym", "c", "err", "runs", "lead", "trail", "panic")


# ------------------------------------------------------------------ design laws
def laws(ctx):
    cfg = "MC_Check" if ctx.quick else "MC_Check_full"
    res = vlib.run_tlc(ctx, "MC_Check", cfg, workers=vlib.NCPU, timeout=2400)
    ctx.note("%s: %d states (one per law block): tables, mod-10/103/47 substitution laws, UPC-E expand/suppress over %s, "
             "add-on parities, reference reader refuses every substitution of the families" % (
                 cfg, res.distinct, "digits {0,2,3,4,5,9}" if ctx.quick else "all digits (2 000 000 UPC-E numbers, all zero-suppressible UPC-A numbers)"))


# ------------------------------------------------------------------ generation of substituted symbols (TLC)
def rnd_digits(rng, n):
    return [rng.randrange(10) for _ in range(n)]


def c128_seed(rng, k):
    """start + data code words of a plain Code 128 symbol (no FNC, shift/switch never last)"""
    kind = rng.choice("ABCM")
    if kind == "B":
        return [104] + [rng.randrange(96) for _ in range(k)]
    if kind == "A":
        return [103] + [rng.randrange(96) for _ in range(k)]
    if kind == "C":
        return [105] + [rng.randrange(100) for _ in range(k)]
    body = [104, rng.randrange(96)]
    body += [99] + [rng.randrange(100) for _ in range(max(1, k // 2))] + [rng.choice([100, 101]), rng.randrange(64)]
    return body


def c93_seed(rng, k):
    """data values of a Code 93 symbol: plain characters and well-formed shift pairs"""
    v = []
    while len(v) < k:
        if rng.random() < 0.25:
            s = rng.choice([43, 44, 46])
            v += [s, 10 + rng.randrange(26)]
        else:
            v.append(rng.randrange(43))
    return v


def seeds(ctx):
    rng = random.Random(ctx.seed * 104729 + (11 if ctx.quick else 12))
    f = 1 if ctx.quick else 50
    out = {}          # (sym, stride) -> list of seed records
    def add(sym, stride, p, ad=(), ap=()):
        out.setdefault((sym, stride), []).append(dict(sym=sym, p=list(p), ad=list(ad), ap=list(ap)))
    for sym, cnt in (("EAN13", 36), ("EAN8", 40), ("UPCA", 30), ("UPCE", 60)):
        n = EAN[sym]
        add(sym, 1, [0] * n); add(sym, 1, [9] * n if sym != "UPCE" else [1] + [9] * 6)
        for i in range(cnt * f):
            p = rnd_digits(rng, n)
            if sym == "UPCE":
                p[0] = i % 2
                if i % 5 == 0:
                    p[6] = rng.choice([0, 1, 2, 3, 4])      # every expansion rule
            add(sym, 1, p)
    for i in range(10 * f):
        k = 1 + i % 5
        add("C128", 1 if k <= 3 else 4, c128_seed(rng, k))
    for i in range(3 * f):
        add("C128", 23, c128_seed(rng, rng.randint(10, 40)))
    for i in range(10 * f):
        k = 1 + i % 6
        add("C93", 1 if k <= 4 else 3, c93_seed(rng, k))
    for i in range(3 * f):
        add("C93", 13, c93_seed(rng, rng.randint(21, 40) if i == 0 else rng.randint(10, 40)))
    for i in range(6 * f):                   # Code 39 with the optional modulo-43 check character
        k = 1 + i % 6
        add("C39K", 1 if k <= 4 else 3, [rng.randrange(43) for _ in range(k)])
    add("C39K", 13, [rng.randrange(43) for _ in range(30)])
    # add-ons: every EAN-2 value with every parity pair; seeded EAN-5 values with all 32 parity patterns
    mains = ["EAN13", "UPCA", "EAN8", "UPCE"]
    for v in range(100):
        sym = mains[v % 4]
        p = rnd_digits(rng, EAN[sym])
        if sym == "UPCE":
            p[0] = v % 2
        for par in range(4):
            add(sym, 1, p, [v // 10, v % 10], [par >> 1, par & 1])
    for i in range(20 * f):
        sym = mains[i % 4]
        p = rnd_digits(rng, EAN[sym])
        if sym == "UPCE":
            p[0] = i % 2
        d = rnd_digits(rng, 5) if i else [9, 0, 0, 0, 0]
        for par in range(32):
            add(sym, 1, p, d, [(par >> k) & 1 for k in (4, 3, 2, 1, 0)])
    return out


def generate(ctx):
    groups = seeds(ctx)
    jobs = []
    bystride = {}
    for (sym, stride), recs in sorted(groups.items()):
        bystride.setdefault(stride, []).extend(recs)
    for stride, recs in sorted(bystride.items()):
        per = max(60, (len(recs) + GENPAR - 1) // GENPAR) if stride == 1 else len(recs)
        for i in range(0, len(recs), per):
            jobs.append((stride, recs[i:i + per]))

    def one(job):
        stride, recs = job
        res = vlib.run_tlc(ctx, "MC_Check", "Gen_Check", files={"seeds.ndjson": recs}, workers=3, timeout=1800,
                           consts={"Stride": str(stride)})
        out = vlib.tlc_printed(res)
        if len(out) != len(recs):
            raise vlib.Infra("Gen_Check produced %d case lists for %d seeds:\n%s" % (len(out), len(recs), res.out[-2000:]))
        return [c for lst in out for c in lst]
    with concurrent.futures.ThreadPoolExecutor(max_workers=GENPAR + 4) as ex:
        parts = list(ex.map(one, jobs))
    cases = [c for p in parts for c in p]
    extra = []
    for i, c in enumerate(cases):          # a quarter of the UPC/EAN symbols is also shown to the multi-format reader
        if c["sym"] in EAN and i % 4 == 0:
            m = dict(c); m["rd"] = "multi"
            extra.append(m)
    cases += extra
    for i, c in enumerate(cases):
        c["scale"] = 2 + (i % 2)
        c["q"] = 10 + (i % 5)
        c["h"] = 8
    return cases


# ------------------------------------------------------------------ judging
def judge(ctx, inputs, label, keys):
    obs = pdrive(ctx, inputs)
    shards = min(vlib.NCPU, max(1, len(obs) // (4000 if obs[0]["op"] != "mask" else 25))) if ctx.quick else vlib.NCPU
    bad = vlib.validate(ctx, "Trace_Check", obs, stateless=True, timeout=2400, shards=shards)
    rej, tol = split_bad(bad)
    ctx.traces += 1
    for o in obs:
        if o["op"] == "read":
            ctx.count_case(("read", o["sym"], o["rd"], o["n"], o["ad"], o["ap"]))
        elif o["op"] == "write":
            ctx.count_case(("write", o["sym"], o["c"]))
        else:
            ctx.count_case(("mask", o["sym"], o["base"], o["cnt"]))
            ctx.evaluations += o["cnt"] - 1
    for gi, ent in rej:
        ev = slim(obs[gi], keys) if obs[gi]["op"] != "mask" else slim(obs[gi], ("op", "sym", "base", "cnt", "panic"))
        ev["why"] = ent[2]
        ev["diag"] = ent[4] if len(ent) > 4 and isinstance(ent[4], str) else ""
        ev["clen"] = len(obs[gi].get("c") or [])
        if obs[gi]["op"] == "mask":
            ev["part"] = "short" if ent[2].startswith("symbol for the bare payload") else "mask"
            ev["first"], ev["count"] = ent[3], ent[5]
        vlib.reject(ctx, ev, "%s: %s %s: %s" % (label, ev["op"], ev["sym"], ent[2]), replay_events=[inputs[gi]])
    return obs, rej, tol


def reads(ctx):
    cases = generate(ctx)
    obs, rej, tol = judge(ctx, cases, "TLC-built symbol", READ_KEYS)
    nsub = sum(1 for c in cases if c["pos"] > 0)
    rev = sum(1 for o in obs if o["err"] == 0 and o["orient"] == 180)
    fwd = sum(1 for o in obs if o["err"] == 0 and o["orient"] == 0 and o["pos"] > 0)
    tol_rev = sum(1 for gi, ent in tol if obs[gi]["orient"] == 180)
    tol_multi = len(tol) - tol_rev
    ctx.note("%d symbols built by TLC from the spec's tables and read by the real readers (matching reader; UPC/EAN also "
             "multi-format reader): %d single-character substitutions - %d refused, %d read forward (valid symbols in their "
             "own right, or tolerated), %d read from the reversed row; tolerated answers with a verifying check digit that the "
             "exact reference reader does not produce: %d reversed-row readings, %d EAN-8 readings of a longer symbol by the "
             "multi-format reader; %d add-on cases" % (
                 len(cases), nsub, sum(1 for o in obs if o["pos"] > 0 and o["err"] == 1), fwd, rev, tol_rev, tol_multi,
                 sum(1 for c in cases if c["ad"])))
    ctx.extra["tolerated_reversed_readings"] = tol_rev
    ctx.extra["tolerated_multi_format_ean8_readings"] = tol_multi
    for want in (lambda o: o["pos"] > 0 and o["sym"] == "EAN13", lambda o: o["pos"] > 0 and o["sym"] == "UPCE" and o["err"] == 0,
                 lambda o: o["sym"] == "C128" and o["pos"] > 0, lambda o: len(o["ad"]) == 5 and o["ext"]):
        for o in obs:
            if want(o):
                ctx.sample(slim(o, ("op", "sym", "n", "pos", "d", "ad", "ap", "text", "err", "orient", "ext")))
                break


def writes(ctx):
    rng = random.Random(ctx.seed * 7907 + 5)
    f = 1 if ctx.quick else 25
    inputs = []
    def w(sym, c):
        inputs.append(dict(op="write", sym=sym, c=list(c)))
    for sym, n in EAN.items():
        for i in range(12 * f):
            p = rnd_digits(rng, n)
            if sym == "UPCE":
                p[0] = i % 2 if i % 6 else rng.randrange(2, 10)        # also foreign number systems
                if i % 4 == 1:
                    p[6] = rng.randrange(5)
            b = [48 + d for d in p]
            w(sym, b)                                                   # check digit to be computed
            for d in range(10):
                w(sym, b + [48 + d])                                    # every supplied check digit
            if i % 3 == 0:
                w(sym, b[:-1]); w(sym, b + [48, 48]); w(sym, [])
                k = rng.randrange(n)
                for ch in (47, 58, 65, 32):
                    w(sym, b[:k] + [ch] + b[k + 1:])
                    w(sym, b[:k] + [ch] + b[k + 1:] + [48 + rng.randrange(10)])
    for i in range(40 * f):
        k = rng.choice([1, 2, 3, 5, 8, 13, 20, 40])
        kind = i % 4
        if kind == 0:
            c = [rng.randrange(32, 127) for _ in range(k)]
        elif kind == 1:
            c = [rng.randrange(48, 58) for _ in range(k)]
        elif kind == 2:
            c = [rng.choice([rng.randrange(0, 32), rng.randrange(65, 91), rng.randrange(48, 58)]) for _ in range(k)]
        else:
            c = [rng.randrange(0, 128) for _ in range(k)]
        w("C128", c)
        w("C93", c[:30])
    obs, rej, tol = judge(ctx, inputs, "writer", WRITE_KEYS)
    ctx.note("%d writer calls (bare payload, every supplied check digit 0..9, wrong lengths, foreign characters; Code 128 / "
             "Code 93 contents whose written symbol is re-read by the reference reader): %d accepted, %d refused" % (
                 len(obs), sum(1 for o in obs if o["err"] == 0), sum(1 for o in obs if o["err"] == 1)))
    for o in obs:
        if o["sym"] == "EAN8" and len(o["c"]) == 8 and o["err"] == 0:
            ctx.sample(slim(o, ("op", "sym", "c", "err", "runs")))
            break


def masks(ctx):
    rng = random.Random(ctx.seed * 6007 + 3)
    inputs = []
    if ctx.quick:
        for sym, blocks in (("UPCE", 30), ("EAN8", 30), ("EAN13", 12), ("UPCA", 12)):
            n = EAN[sym]
            for i in range(blocks):
                base = rnd_digits(rng, n)
                if sym == "UPCE":
                    base[0] = i % 2
                low = rng.randrange(0, 10 ** 6 - 400)
                base[n - 6:] = [int(ch) for ch in "%06d" % low]
                inputs.append(dict(op="mask", sym=sym, base=base, cnt=400))
        exhaustive = False
    else:
        for ns in (0, 1):
            for b in range(1000):
                inputs.append(dict(op="mask", sym="UPCE", base=[ns] + [int(ch) for ch in "%06d" % (b * 1000)], cnt=1000))
        for b in range(10000):
            inputs.append(dict(op="mask", sym="EAN8", base=[int(ch) for ch in "%07d" % (b * 1000)], cnt=1000))
        for sym in ("EAN13", "UPCA"):
            n = EAN[sym]
            for i in range(300):
                base = rnd_digits(rng, n)
                base[n - 6:] = [int(ch) for ch in "%06d" % rng.randrange(0, 10 ** 6 - 1000)]
                inputs.append(dict(op="mask", sym=sym, base=base, cnt=1000))
        rng.shuffle(inputs)
        exhaustive = True
    obs, rej, tol = judge(ctx, inputs, "check-digit acceptance block", ())
    tot = sum(o["cnt"] for o in obs)
    ctx.note("%d payloads in %d blocks: which of the ten check digits the real writer accepts%s" % (
        tot, len(obs), "; exhaustive over all 2 000 000 UPC-E and all 10 000 000 EAN-8 payloads" if exhaustive else " (seeded blocks)"))
    ctx.extra["writer_acceptance_exhaustive_upce_ean8"] = exhaustive
    if obs:
        o = obs[0]
        ctx.sample(dict(op="mask", sym=o["sym"], base=o["base"], cnt=o["cnt"], m=o["m"][:6], s=o["s"][:6]))


def run(ctx):
    laws(ctx)
    reads(ctx)
    writes(ctx)
    masks(ctx)
    ctx.exhaustive = False
    return vlib.finish(
        ctx,
        rule="one case = one call of a real reader on a TLC-built symbol (symbology, carried characters, add-on digits and "
             "parities), one writer call (symbology, content), or one block of consecutive payloads offered to the writer "
             "with all ten check digits (each payload counted as an evaluation)",
        assumptions=["readers are observed on clean renderings (2-3 pixels per module, quiet zones of 10-14 modules) of "
                     "symbols built from the spec's tables",
                     "an answer that the exact reference reader does not produce is tolerated when its check digit verifies and it "
                     "was read from the reversed row (tolerant pattern matcher) or by the multi-format reader as an EAN-8 "
                     "number of a longer damaged symbol (guard search skips digits); both are counted in the evidence",
                     "a refused five-digit add-on whose two leading digits form a valid two-digit add-on may be reported as that",
                     "Code 128 / Code 93 character tables are pinned from the baseline after structural validation"],
        trusted=["TLC", "spec/OneDTables.tla, OneD.tla, Check.tla", "harness/c10 (painting of run lengths, run-length "
                 "projection of the written row)"])


def replay(ctx, path):
    r = json.load(open(path))
    obs, rej, tol = judge(ctx, r["inputs"], "replay", READ_KEYS + WRITE_KEYS)
    return vlib.finish(ctx, rule="replay of one recorded call")
