"""X03 (beyond the listed properties) - the local (hybrid) binarisation of gray images, exactly.
spec/Hybrid.tla states HybridBinarizer.GetBlackMatrix for images of at least 40 x 40 pixels declaratively (8 x 8 blocks pulled back
inside the image, black points with the low-contrast rule and the three-neighbour correction, 5 x 5 mean with a clamped centre, a pixel
black iff some covering block says so); spec/Trace_Hybrid compares every pixel of the real binariser's matrix on seeded gray pictures
(noise, gradients, low-contrast plateaus, text-like bars, sizes straddling multiples of 8)."""
import json, random
import vlib


def picture(rng, w, h, mode):
    if mode == "noise":
        return [[rng.randrange(256) for _ in range(w)] for _ in range(h)]
    if mode == "flat":              # low contrast everywhere: only the neighbour rule and min / 2 decide
        b = rng.randrange(20, 236)
        return [[b + rng.randrange(-10, 11) for _ in range(w)] for _ in range(h)]
    if mode == "gradient":
        return [[min(255, max(0, (x * 255) // w + rng.randrange(-6, 7))) for x in range(w)] for y in range(h)]
    if mode == "bars":              # dark bars of uneven width on a light, slightly noisy ground, with a darker corner
        cols = []
        x, dark = 0, False
        while x < w:
            n = rng.randint(1, 9)
            cols += [dark] * n
            x += n
            dark = not dark
        return [[(rng.randrange(0, 40) if cols[x] else rng.randrange(190, 256)) - (60 if x < w // 3 and y < h // 3 and not cols[x] else 0)
                 for x in range(w)] for y in range(h)]
    if mode == "range":             # every 8 x 8 patch has a dynamic range of exactly 23, 24, 25 or 26: the low-contrast rule's boundary
        out = [[0] * w for _ in range(h)]
        for by in range(0, h, 8):
            for bx in range(0, w, 8):
                lo = rng.randrange(0, 200)
                r = rng.choice([23, 24, 24, 25, 25, 26])
                cells = [(x, y) for y in range(by, min(h, by + 8)) for x in range(bx, min(w, bx + 8))]
                for (x, y) in cells:
                    out[y][x] = lo + rng.randrange(0, r + 1)
                a, b = rng.sample(cells, 2)
                out[a[1]][a[0]], out[b[1]][b[0]] = lo, lo + r
        return out
    # plateaus: 8 x 8 aligned patches of low contrast at different levels next to high-contrast patches
    lv = [[rng.choice([10, 60, 120, 200, 250]) for _ in range((w + 7) // 8)] for _ in range((h + 7) // 8)]
    hi = [[rng.random() < 0.3 for _ in range((w + 7) // 8)] for _ in range((h + 7) // 8)]
    return [[rng.randrange(256) if hi[y // 8][x // 8] else min(255, max(0, lv[y // 8][x // 8] + rng.randrange(-8, 9))) for x in range(w)] for y in range(h)]


def run(ctx, inputs=None, label="hybrid binarisation"):
    if inputs is None:
        rng = random.Random(ctx.seed * 2221 + (1 if ctx.quick else 2))
        inputs = []
        sizes = [(40, 40), (41, 47), (48, 40), (40, 49), (55, 63), (64, 64), (71, 42)] if ctx.quick else \
            [(w, h) for w in (40, 41, 47, 48, 49, 56, 63, 64, 65, 80, 97) for h in (40, 43, 48, 55, 64, 72)]
        for (w, h) in sizes:
            for mode in ("noise", "flat", "gradient", "bars", "plateaus", "range"):
                base = picture(rng, w, h, mode)
                kind = rng.choice(["gray", "rgb", "gray+sub", "nrgba"])
                base = [[(v if kind != "rgb" else v) for v in row] for row in base]
                inputs.append(dict(op="new", kind=kind, bin=0, adopt=0, pre=0, a=[0, 0, w, h, 0, 0, 0], ys=[-1], base=base, fmt="", txt=[], bw=w, bh=h))
                inputs.append(dict(op="bmatrix", kind="", bin=1, adopt=0, pre=0, a=[], ys=[-1], base=[], fmt="", txt=[], bw=0, bh=0))
    obs = vlib.drive(ctx, "c17", inputs, timeout=3000)
    # the rgb source derives luminance from the colour channels: the picture the binariser sees is what the source reports (C17 judges that)
    bad = vlib.validate(ctx, "Trace_Hybrid", obs, stateless=False, timeout=3000)
    ctx.traces += len(obs) // 2
    for i in range(0, len(obs), 2):
        ctx.count_case((obs[i]["bw"], obs[i]["bh"], json.dumps(obs[i]["base"][:2])))
    for gi, ent in bad:
        if ent[1] == "premise":
            raise vlib.Infra("Trace_Hybrid: premise of event %d does not hold" % gi)
        o = obs[gi - 1]
        vlib.reject(ctx, dict(op="bmatrix", w=o["bw"], h=o["bh"], why=ent[1]), "%s: %dx%d picture: the black matrix is not the one Hybrid.tla defines" % (label, o["bw"], o["bh"]),
                    replay_events=inputs[gi - 1:gi + 1])
    ctx.exhaustive = False
    return vlib.finish(ctx, rule="one case = one gray picture of at least 40 x 40 pixels binarised by HybridBinarizer; every pixel compared",
                       assumptions=["pictures are given as gray values; the conversion of colour to luminance is C17's subject"],
                       trusted=["TLC", "spec/Hybrid.tla"])


def replay(ctx, path):
    r = json.load(open(path))
    return run(ctx, inputs=r["inputs"], label="replay")
