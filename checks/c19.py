"""C19 - grid sampling and perspective mapping are geometrically exact and bounded.
spec/Geom.tla (check-and-nudge, projective maps and sampling in exact integer arithmetic), spec/MC_Geom (nudge automaton
and its laws on all small rows, SquareToQuad's defining property on all small quadrilaterals, generation of cases),
spec/Trace_Geom (judges every recorded call of the real checkAndNudgePoints / TransformPoints / SampleGrid)."""
import json, random
import vlib

BLANK = dict(mode=0, w=1, h=1, s=1, pts=[], img=[], dimx=1, dimy=1, a2=0, c=1, src=[], dst=[], f=1, m=1)
BLANK["in"] = []


def ev(op, **kw):
    e = dict(BLANK)
    e["op"] = op
    e.update(kw)
    return e


def cross(ax, ay, bx, by):
    return ax * by - ay * bx


def convex(q):
    p = [(q[2 * i], q[2 * i + 1]) for i in range(4)]
    t = []
    for i in range(4):
        a, b, c = p[i], p[(i + 1) % 4], p[(i + 2) % 4]
        t.append(cross(b[0] - a[0], b[1] - a[1], c[0] - b[0], c[1] - b[1]))
    return all(v > 0 for v in t) or all(v < 0 for v in t)


# ------------------------------------------------------------------ TLC: design checks + generated cases
def tlc_design(ctx):
    consts = dict(Record="TRUE")
    if not ctx.quick:
        consts.update(MaxLine=8, W=4, H=3)
    res = vlib.run_tlc(ctx, "MC_Geom", "MC_GeomNudge", workers=vlib.NCPU, timeout=1500, consts=consts, xmx="6g")
    cases = vlib.tlc_printed(res)
    if not cases:
        raise vlib.Infra("MC_GeomNudge printed no cases:\n" + res.out[-2000:])
    ctx.note("MC_GeomNudge: %d states; nudge automaton = functional form, = pointwise definition on lines, transposition "
             "and reversal symmetric, idempotent; %d rows generated" % (res.generated, len(cases)))
    res = vlib.run_tlc(ctx, "MC_Geom", "MC_GeomQuad", workers=vlib.NCPU, timeout=1500,
                       consts=None if ctx.quick else dict(Q=4), xmx="6g")
    ctx.note("MC_GeomQuad: SquareToQuad maps the unit square's corners onto the corners of every convex quadrilateral "
             "with corners in 0..%d (%d quadrilaterals)" % (3 if ctx.quick else 4, res.distinct))
    return [ev("nudge", w=c["w"], h=c["h"], s=c["s"], pts=c["pts"]) for c in cases]


def xform_cases(ctx, rng):
    """random pairs of convex quadrilaterals (axis-aligned, rotated, sheared, perspective); TLC turns them into exact
    source points (MC_GeomXform)"""
    def quad(kind, f):
        n = 7 * f
        for _ in range(1000):
            if kind == "rect":
                x0, x1 = sorted(rng.sample(range(n + 1), 2)); y0, y1 = sorted(rng.sample(range(n + 1), 2))
                q = [x0, y0, x1, y0, x1, y1, x0, y1]
            elif kind in ("para", "near"):                        # rotated squares and sheared parallelograms
                ox, oy = rng.randint(0, n), rng.randint(0, n)
                ux, uy, vx, vy = [rng.randint(-n, n) for _ in range(4)]
                if rng.random() < 0.4:
                    vx, vy = -uy, ux                              # rotated square
                q = [ox, oy, ox + ux, oy + uy, ox + ux + vx, oy + uy + vy, ox + vx, oy + vy]
                if kind == "near":                                # a parallelogram with one corner displaced by less than half a
                    a, b = rng.randint(-(f // 2 - 1), f // 2 - 1), rng.randint(-(f // 2 - 1), f // 2 - 1)   # pixel: slight perspective
                    if a == 0 and b == 0:
                        continue
                    q[6] += a; q[7] += b
            else:
                q = [rng.randint(0, n) for _ in range(8)]
            if all(0 <= v <= n for v in q) and convex(q):
                r = rng.randrange(4)                              # any starting corner, either orientation
                pts = [(q[2 * i], q[2 * i + 1]) for i in range(4)]
                pts = pts[r:] + pts[:r]
                if rng.random() < 0.5:
                    pts = [pts[0]] + pts[:0:-1]
                return [v for p in pts for v in p]
        raise vlib.Infra("no convex quadrilateral found")
    pairs = []
    n = 300 if ctx.quick else 30000
    for i in range(n):
        f = rng.choice([1, 1, 2, 8])
        kinds = ["rect", "para", "persp", "persp"] if f < 4 else ["rect", "para", "near", "near"]
        ks = rng.choice(kinds); kd = rng.choice(kinds)
        pairs.append(dict(src=quad(ks, f), dst=quad(kd, f), f=f, m=rng.choice([1, 2, 4, 4, 8] if not ctx.quick else [1, 2, 4])))
    # the weakest perspective this model's 32-bit arithmetic can state exactly: a small square with one corner displaced by 1/1024
    # pixel (a tolerance in the test for "affine" shows as an error of about 1e-3 pixel at that corner, 1000 times the accepted 1e-6)
    # (a quadrilateral of 1/32 pixel: the exact reference needs denominators below 2^27)
    F, S = 1024, 32
    sq = [0, 0, S, 0, S, S, 0, S]
    for a, b in ((1, 0), (0, 1), (1, 1), (-1, 0), (0, -1), (-1, 1)):
        q = [0, 0, S, 0, S + a, S + b, 0, S]
        pairs.append(dict(src=sq, dst=q, f=F, m=1))
        pairs.append(dict(src=q, dst=sq, f=F, m=1))
    out = []
    step = 2000
    for lo in range(0, len(pairs), step):
        res = vlib.run_tlc(ctx, "MC_Geom", "MC_GeomXform", workers=1, timeout=1500, files={"quads.ndjson": pairs[lo:lo + step]})
        cs = vlib.tlc_printed(res)
        if len(cs) != len(pairs[lo:lo + step]):
            raise vlib.Infra("MC_GeomXform printed %d of %d cases:\n%s" % (len(cs), step, res.out[-2000:]))
        out += cs
    return [ev("xform", src=c["src"], dst=c["dst"], f=c["f"], m=c["m"], **{"in": c["in"]}) for c in out]


# ------------------------------------------------------------------ seeded inputs
def seeded_lines(ctx, rng):
    """rows of equally spaced points (1/16 pixel) whose ends lie inside, in the one-pixel bands outside each of the
    four edges, or beyond; images across the 32-bit word boundary"""
    out = []
    sizes = [(1, 1), (2, 3), (5, 4), (24, 24), (31, 33), (32, 32), (33, 31), (40, 64), (100, 7)]
    reps = 60 if ctx.quick else 5000
    S = 16

    def place(size, cls):
        if cls == "in":
            return rng.randint(0, size * S - 1)
        if cls == "lo":
            return rng.choice([-S, -S + 1, -1, -S // 2, rng.randint(-S, -1)])          # [-1, 0)
        if cls == "hi":
            return rng.choice([size * S, size * S + S - 1, size * S + rng.randint(0, S - 1)])   # [size, size+1)
        if cls == "amb":
            return rng.randint(-2 * S + 1, -S - 1)                                     # (-2, -1)
        if cls == "farlo":
            return rng.choice([-2 * S, -2 * S - 1, -5 * S])
        return rng.choice([size * S + S, size * S + S + 1, size * S + 5 * S])          # farhi
    classes = ["in", "in", "in", "lo", "hi", "lo", "hi", "amb", "farlo", "farhi"]
    for (w, h) in sizes:
        for _ in range(reps):
            n = rng.choice([0, 1, 2, 3, 5, 8, 21, 40, 177])
            x0, y0 = place(w, rng.choice(classes)), place(h, rng.choice(classes))
            x1, y1 = place(w, rng.choice(classes)), place(h, rng.choice(classes))
            if n <= 1:
                pts = [[x0, y0]] * n
            else:
                dx, dy = (x1 - x0) // (n - 1), (y1 - y0) // (n - 1)                    # equally spaced, exact
                pts = [[x0 + i * dx, y0 + i * dy] for i in range(n)]
            out.append(ev("nudge", w=w, h=h, s=S, pts=pts))
    return out


def rand_image(rng, w, h):
    style = rng.choice(["rand", "rand", "checker", "border"])
    rows = []
    for y in range(h):
        if style == "rand":
            bits = [rng.random() < 0.5 for _ in range(w)]
        elif style == "checker":
            bits = [(x + y) % 2 == 0 for x in range(w)]
        else:
            bits = [x in (0, w - 1) or y in (0, h - 1) or rng.random() < 0.2 for x in range(w)]
        ch = [0] * ((w + 15) // 16)
        for i, b in enumerate(bits):
            if b:
                ch[i // 16] |= 1 << (i % 16)
        rows.append(ch)
    return rows


def seeded_samples(ctx, rng):
    out = []
    # --- exactly representable affine family: dyadic scale, rotations by 90 degrees, flips, dyadic shear
    n = 700 if ctx.quick else 50000
    big = 0
    for i in range(n):
        c = rng.choice([1, 2, 4, 8, 16, 32, 64])
        a2 = rng.choice([0, 0, 1, 7])
        if rng.random() < (0.02 if ctx.quick else 0.01):
            dimx, dimy = rng.choice([(177, 177), (177, 21), (100, 144), (150, 150)]); big += 1
            sc = rng.choice([1, 2])                                # 1/16 .. 1/8 pixel per cell
        else:
            dimx, dimy = rng.randint(1, 30), rng.randint(1, 30)
            if rng.random() < 0.6:
                dimy = dimx
            sc = rng.choice([2, 4, 8, 16, 16, 16, 24, 32, 48])     # cell size in 1/16 pixel
        ux, uy, vx, vy = sc, 0, 0, sc
        if rng.random() < 0.3:
            vx = rng.choice([-1, 1]) * rng.choice([sc // 2, sc // 4, sc])          # shear
        if rng.random() < 0.2:
            uy = rng.choice([-1, 1]) * rng.choice([sc // 2, sc // 4])
        for _ in range(rng.randrange(4)):                          # rotate by 90 degrees
            ux, uy, vx, vy = -uy, ux, -vy, vx
        if rng.random() < 0.3:
            ux, uy = -ux, -uy                                      # flip
        if cross(ux, uy, vx, vy) == 0:
            continue
        # extent of the sample points relative to the origin O (1/16 pixel): cell (x,y) -> O + (2x+1-a2)/2*U + (2y+1-a2)/2*V
        def at(x, y, o=(0, 0)):
            return (o[0] + ((2 * x + 1 - a2) * ux + (2 * y + 1 - a2) * vx) // 2, o[1] + ((2 * x + 1 - a2) * uy + (2 * y + 1 - a2) * vy) // 2)
        if any(((2 * x + 1 - a2) * ux + (2 * y + 1 - a2) * vx) % 2 or ((2 * x + 1 - a2) * uy + (2 * y + 1 - a2) * vy) % 2
               for x in (0, 1) for y in (0, 1)):
            ux, uy, vx, vy = 2 * ux, 2 * uy, 2 * vx, 2 * vy        # keep sample points on the 1/16 lattice
        cs = [at(x, y) for x in (0, dimx - 1) for y in (0, dimy - 1)]
        minx, maxx = min(p[0] for p in cs), max(p[0] for p in cs)
        miny, maxy = min(p[1] for p in cs), max(p[1] for p in cs)
        w = min(100, (maxx - minx) // 16 + 1 + rng.randint(0, 3)); h = min(100, (maxy - miny) // 16 + 1 + rng.randint(0, 3))
        if (maxx - minx) // 16 + 1 > 100 or (maxy - miny) // 16 + 1 > 100:
            continue

        def offset(lo, hi, size):
            """origin coordinate putting the extent [lo,hi] inside / into a band / beyond"""
            k = rng.choice(["in", "in", "lo", "hi", "lo", "hi", "amb", "farlo", "farhi"])
            room = size * 16 - 1 - (hi - lo)
            if k == "in" or room < 0:
                return -lo + rng.randint(0, max(room, 0))
            if k == "lo":
                return -lo + rng.randint(-16, -1)
            if k == "hi":
                return -hi + size * 16 + rng.randint(0, 15)
            if k == "amb":
                return -lo + rng.randint(-31, -17)
            if k == "farlo":
                return -lo + rng.choice([-32, -33, -80])
            return -hi + size * 16 + rng.choice([16, 17, 80])
        ox, oy = offset(minx, maxx, w), offset(miny, maxy, h)
        p0 = (ox, oy)
        dst = [p0[0], p0[1], p0[0] + c * ux, p0[1] + c * uy, p0[0] + c * ux + c * vx, p0[1] + c * uy + c * vy, p0[0] + c * vx, p0[1] + c * vy]
        # the source square starts at a2/2: O is the image of the square's origin, cell centres are relative to it
        out.append(ev("sample", mode=i % 2, w=w, h=h, img=rand_image(rng, w, h), dimx=dimx, dimy=dimy, a2=a2, c=c, dst=dst))
    # --- perspective: integer-pixel quadrilaterals, square grids spanning the source square (QR-like inset 3.5 or none)
    n = 250 if ctx.quick else 16000
    for i in range(n):
        w, h = rng.randint(8, 40), rng.randint(8, 40)
        dim = rng.randint(1, 40) if rng.random() < 0.97 else rng.choice([101, 177])
        a2 = rng.choice([0, 0, 7]) if dim > 8 else 0
        c = dim - a2
        if dim > 2 and rng.random() < 0.25:
            # the source square is a small part of the grid: the cells outside it are extrapolated, and a row's interior
            # points can leave the image (on any side) while its end points are inside ("twisted" transforms)
            a2 = rng.randint(0, dim)
            c = rng.randint(1, max(1, dim // 2))
        for _ in range(200):
            m = rng.choice([0, 0, 0, 1])                            # corners inside the image, sometimes one pixel outside
            q = [rng.randint(-m, w - 1 + m), rng.randint(-m, h - 1 + m), rng.randint(-m, w - 1 + m), rng.randint(-m, h - 1 + m),
                 rng.randint(-m, w - 1 + m), rng.randint(-m, h - 1 + m), rng.randint(-m, w - 1 + m), rng.randint(-m, h - 1 + m)]
            if convex(q) and abs(cross(q[2] - q[0], q[3] - q[1], q[6] - q[0], q[7] - q[1])) >= 16:
                break
        else:
            continue
        out.append(ev("sample", mode=i % 2, w=w, h=h, img=rand_image(rng, w, h), dimx=dim, dimy=dim, a2=a2, c=c,
                      dst=[16 * v for v in q]))
    # regression (fixed 36fd29a): row end points inside the image, interior points above / left of it
    rr = random.Random(36)
    out.append(ev("sample", mode=0, w=22, h=39, img=rand_image(rr, 22, 39), dimx=10, dimy=10, a2=7, c=3,
                  dst=[192, 608, 160, 176, 144, 160, 32, 592]))
    out.append(ev("sample", mode=1, w=22, h=39, img=rand_image(rr, 22, 39), dimx=10, dimy=10, a2=7, c=3,
                  dst=[192, 608, 160, 176, 144, 160, 32, 592]))
    return out


# ------------------------------------------------------------------ judging
def describe(e):
    if e["op"] == "nudge":
        return "checkAndNudgePoints(%dx%d, pts/%d=%s) -> err=%d out=%s" % (e["w"], e["h"], e["s"], e["pts"][:6], e["err"], e["out"][:6])
    if e["op"] == "xform":
        return "QuadrilateralToQuadrilateral(src=%s dst=%s /%d).TransformPoints -> %s" % (e["src"], e["dst"], e["f"], e["out"][:4])
    return "SampleGrid%s(%dx%d image, grid %dx%d, square origin %s side %d -> quad/16 %s) -> err=%d" % (
        "WithTransform" if e["mode"] else "", e["w"], e["h"], e["dimx"], e["dimy"], e["a2"] / 2, e["c"], e["dst"], e["err"])


def judge(ctx, inputs, label):
    if not inputs:
        return
    obs = vlib.drive(ctx, "c19", inputs)
    order = list(range(len(obs)))
    if obs[0]["op"] == "sample":                       # balance the shards: big grids are spread evenly
        order.sort(key=lambda i: -(obs[i]["dimx"] * obs[i]["dimy"]))
        k = vlib.NCPU
        order = [i for r in range(k) for i in order[r::k]]
    bad = vlib.validate(ctx, "Trace_Geom", [obs[i] for i in order], stateless=True, xmx="2g")
    ctx.traces += 1
    skipped = {order[gi] for gi, ent in bad if ent[1].startswith("skip")}
    nden = sum(1 for gi, ent in bad if ent[1] == "skip_den")
    for i, o in enumerate(obs):
        if i in skipped:
            continue
        if o["op"] == "nudge":
            ctx.count_case(("nudge", o["w"], o["h"], o["s"], o["pts"]))
        elif o["op"] == "xform":
            ctx.count_case(("xform", o["src"], o["dst"], o["f"], o["m"]))
        else:
            ctx.count_case(("sample", o["mode"], o["w"], o["h"], o["img"], o["dimx"], o["dimy"], o["a2"], o["c"], o["dst"]))
    if skipped:
        ctx.note("%s: %d of %d events not judged (a sample point within 1e-6 of a pixel boundary in inexact arithmetic: %d; "
                 "a cell behind the projection's horizon: %d)" % (label, len(skipped), len(obs), len(skipped) - nden, nden))
    for gi, ent in bad:
        i = order[gi]
        if ent[1].startswith("skip"):
            continue
        e = dict(obs[i])
        e["why"] = ent[1]
        if ent[1] == "shape":
            raise vlib.Infra("%s: ill-formed event: %s" % (label, describe(e)))
        vlib.reject(ctx, e, "%s: %s: %s" % (label, describe(e), ent[1]), replay_events=[inputs[i]])
    mid = obs[len(obs) // 3]
    ctx.sample(dict(kind=label, event={k: (v if not isinstance(v, list) or len(v) <= 8 else v[:8] + ["..."])
                                       for k, v in mid.items() if k != "msg"}))


def run(ctx):
    rng = random.Random(ctx.seed * 15485863 + (1 if ctx.quick else 2))
    gen = tlc_design(ctx)
    judge(ctx, gen, "TLC-generated row")
    judge(ctx, seeded_lines(ctx, rng), "seeded line")
    judge(ctx, xform_cases(ctx, rng), "quadrilateral pair")
    judge(ctx, seeded_samples(ctx, rng), "sampled grid")
    ctx.exhaustive = False
    return vlib.finish(ctx, rule="one case = one call: (image size, point row) for check-and-nudge, (quadrilateral pair, "
                       "point grid) for the transform, (image, grid dimensions, source square, destination quadrilateral) "
                       "for sampling; small rows are enumerated by TLC, the rest is seeded",
                       assumptions=["points of a row are examined from both ends until one lies inside (ZXing's documented "
                                    "contract); truncation is toward zero; a coordinate in (-2,-1) may be nudged or refused",
                                    "transform accuracy is decided at 1e-6*max(1,|value|) for quadrilaterals with integer or "
                                    "half-integer corners in 0..7 at the points (i/m, j/m) of the unit square",
                                    "sampling through non-dyadic maps is judged only when every sample point is more than "
                                    "1e-6 away from a pixel boundary"],
                       trusted=["TLC", "spec/Geom.tla", "harness/c19 projection of float64 to fixed point / floor + 9 digits"])


def replay(ctx, path):
    r = json.load(open(path))
    judge(ctx, r["inputs"], "replay")
    return vlib.finish(ctx, rule="replay of recorded calls")
