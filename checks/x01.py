"""X01 (beyond the listed properties) - GS1 DataBar Omnidirectional (RSS-14): conforming symbols read as their 13 digits +
check digit, and the reader's pair tally is the state machine of spec/RSSTally.tla.
spec/RSS14.tla      reference ENCODER written from ISO/IEC 24724 (the library only has a reader for this symbology);
spec/MC_RSS14       table laws, every character value round-trips, seeded symbols have 46 elements / 96 modules;
spec/RSSTally.tla   the reader object: two lists of tallied pairs that outlive a Decode call; MC_RSSTally: with Reset between
                    images no stale answer and three rows per answer - without Reset TLC must exhibit the stale answer;
spec/Trace_RSS      every Decode of the real reader, with the pairs its hooks reported, replayed through the tally machine."""
import json, random
import vlib


def design(ctx):
    res = vlib.run_tlc(ctx, "MC_RSS14", "MC_RSS14" if ctx.quick else "MC_RSS14_full", workers=vlib.NCPU, timeout=2400)
    ctx.note("MC_RSS14: %d jobs: subset sizes and group sums reproduce the standard's tables, %s character value read back, 40+ seeded symbols "
             "of 46 elements / 96 modules" % (res.distinct, "every 7th / 5th" if ctx.quick else "every"))
    res = vlib.run_tlc(ctx, "MC_RSSTally", "MC_RSSTally", workers=4, timeout=600)
    ctx.note("MC_RSSTally: %d states: NoStale, ThreeRows, Answered hold when the caller resets between images" % res.distinct)
    r = vlib.run_tlc(ctx, "MC_RSSTally", "MC_RSSTally_noreset", workers=4, timeout=600, ok_codes=(0, 12))
    if r.rc != 12:
        raise vlib.Infra("MC_RSSTally without Reset was not rejected by TLC - the model is vacuous")
    ctx.note("without Reset TLC exhibits the stale answer (NoStale violated): the contract 'reset between images' is load-bearing")
    apalache(ctx)


def apalache(ctx):
    """unbounded: the inductive invariant of spec/Apa_RSSTally.tla (Init => IndInv, IndInv /\\ Next => IndInv') discharged by Apalache;
    the same module without the caller's reset must be refuted"""
    import os, shutil, subprocess
    d = ctx.dir("apa")
    for f in ("RSSTally.tla", "Apa_RSSTally.tla"):
        shutil.copy(os.path.join(vlib.VERIF, "spec", f), d)
    bad = open(os.path.join(d, "Apa_RSSTally.tla")).read().replace("MODULE Apa_RSSTally", "MODULE Apa_Bad").replace(
        "Begin(s) == img = 0 /\\ lefts = <<>> /\\ rights = <<>> /\\ img' = s", "Begin(s) == img = 0 /\\ img' = s")
    open(os.path.join(d, "Apa_Bad.tla"), "w").write(bad)

    def run(mod, init, length):
        try:
            r = subprocess.run(["apalache-mc", "check", "--init=" + init, "--inv=IndInv", "--length=%d" % length, mod + ".tla"], cwd=d,
                               capture_output=True, text=True, timeout=900)
        except subprocess.TimeoutExpired:
            raise vlib.Infra("apalache timed out on " + mod)
        return r.returncode, r.stdout + r.stderr
    rc0, o0 = run("Apa_RSSTally", "Init", 0)
    rc1, o1 = run("Apa_RSSTally", "IndInit", 1)
    rcb, ob = run("Apa_Bad", "IndInit", 1)
    if rc0 != 0 or rc1 != 0 or "NoError" not in o1:
        raise vlib.Infra("Apalache did not discharge the inductive invariant of Apa_RSSTally (rc %d / %d):\n%s" % (rc0, rc1, (o0 + o1)[-1500:]))
    if rcb != 12:
        raise vlib.Infra("Apalache did not refute the tally machine without Reset (rc %d) - the invariant is vacuous" % rcb)
    ctx.note("Apalache: IndInv of Apa_RSSTally is inductive (base + step): NoStale holds for ANY number of images and rows when the caller "
             "resets the reader; without the reset the step is refuted")
    ctx.cmds.append("apalache-mc check --init=IndInit --inv=IndInv --length=1 Apa_RSSTally.tla")


def digits(rng):
    k = rng.random()
    if k < 0.1:
        return [0] * rng.randint(1, 12) + [rng.randrange(10) for _ in range(13)]
    if k < 0.2:
        return [9] * 13
    return [rng.randrange(10) for _ in range(13)]


def boundary_values():
    """13-digit values at the group boundaries of the four characters"""
    out = []
    outs = [0, 160, 161, 960, 961, 2014, 2015, 2714, 2715, 2840]
    ins = [0, 335, 336, 1035, 1036, 1515, 1516, 1596]
    for c1 in outs:
        for c2 in (ins[0], ins[3], ins[-1]):
            for c3 in (outs[1], outs[6], outs[-1]):
                for c4 in (ins[1], ins[4], ins[-1]):
                    v = (1597 * c1 + c2) * 4537077 + 1597 * c3 + c4
                    if v < 10 ** 13:
                        out.append([int(ch) for ch in "%013d" % v])
    for c2 in ins:
        for c4 in ins:
            v = (1597 * 7 + c2) * 4537077 + 1597 * 1234 + c4
            out.append([int(ch) for ch in "%013d" % v])
    return out


def run(ctx, inputs=None, label="RSS-14 read"):
    if inputs is None:
        design(ctx)
        rng = random.Random(ctx.seed * 7919 + (3 if ctx.quick else 4))
        seeds = boundary_values()
        if ctx.quick:
            rng.shuffle(seeds)
            seeds = seeds[:120]
        seeds += [digits(rng)[-13:] for _ in range(300 if ctx.quick else 6000)]
        recs = [dict(ds=d) for d in seeds]
        res = vlib.run_tlc(ctx, "MC_RSS14", "Gen_RSS14", files={"seeds.ndjson": recs}, workers=vlib.NCPU, timeout=2400)
        syms = sorted(vlib.tlc_printed(res), key=lambda x: x["k"])
        if len(syms) != len(recs):
            raise vlib.Infra("Gen_RSS14 printed %d of %d symbols:\n%s" % (len(syms), len(recs), res.out[-2000:]))
        inputs = []
        for i, s in enumerate(syms):
            mode = i % 5            # 0, 1: fresh reader; 2, 3: shared reader after Reset; 4: shared reader as the last call left it
            inputs.append(dict(op="img", k=i, ds=s["ds"], runs=s["runs"], scale=1 + (i * 7 + i // 5) % 4, quiet=rng.choice([1, 2, 10]),
                               height=rng.choice([3, 4, 10, 33, 70]) if i % 11 else rng.choice([1, 2]), rot=180 if i % 3 == 1 else 0,
                               fresh=1 if mode < 2 else 0, reset=1 if mode in (2, 3) else 0, th=1 if i % 4 == 3 else 0))
    obs = vlib.drive(ctx, "rss", inputs, timeout=3000)
    bad = vlib.validate(ctx, "Trace_RSS", obs, shards=1, stateless=False, timeout=3000)
    ctx.traces += 1
    stats = {}
    for o in obs:
        ctx.count_case((tuple(o["ds"]), o["scale"], o["quiet"], o["height"], o["rot"], o["fresh"], o["reset"], o["th"]))
        own = o["fresh"] or o["reset"]
        k = ("own " if own else "no reset ") + ("read" if not o["err"] else o["kind"])
        stats[k] = stats.get(k, 0) + 1
    ctx.note("%s: %s" % (label, ", ".join("%s=%d" % kv for kv in sorted(stats.items()))))
    stale = sum(1 for o in obs if not o["err"] and not (o["fresh"] or o["reset"]) and o["text"][:13] != o["ds"])
    ctx.extra["stale_answers_without_reset_predicted_by_the_model"] = stale
    for gi, ent in bad:
        o = {k: v for k, v in obs[gi].items()}
        if ent[1] == "premise":
            raise vlib.Infra("Trace_RSS: premise of event %d does not hold (%s)" % (gi, ent[2]))
        o["why"] = ent[1]
        hist = inputs[:gi + 1] if not (o["fresh"] or o["reset"]) else [inputs[gi]]
        vlib.reject(ctx, o, "%s: digits %s scale=%d height=%d rot=%d fresh=%d reset=%d -> err=%d text=%s rows=%d: %s" % (
            label, "".join(map(str, o["ds"])), o["scale"], o["height"], o["rot"], o["fresh"], o["reset"], o["err"],
            "".join(map(str, o["text"])), len(o["rows"]), {"tally": "outcome is not the tally machine's", "pairs": "answering pairs are not the symbol's",
            "text": "conforming symbol not read as its digits + check digit", "panic": "panic"}.get(ent[1], ent[1])), replay_events=hist[-400:])
    for o in obs[:2]:
        ctx.sample({k: o[k] for k in ("ds", "runs", "scale", "height", "rot", "fresh", "reset", "rows", "text", "err")})
    ctx.exhaustive = False
    return vlib.finish(ctx, rule="one case = one Reader.Decode of a painted reference symbol (digits, scale, quiet zone, height, rotation, reader "
                       "object: fresh / reset / as left by the previous call, TRY_HARDER)",
                       assumptions=["clean bilevel images of identical rows; no linkage flag (values below 10^13)",
                                    "the reference encoder is written from ISO/IEC 24724 as the author knows it; it is cross-validated by the "
                                    "reader accepting every generated symbol with the intended content"],
                       trusted=["TLC", "spec/RSS14.tla", "spec/RSSTally.tla", "verif hooks rss14.row / rss14.reset (commit 93c1311)"])


def replay(ctx, path):
    r = json.load(open(path))
    return run(ctx, inputs=r["inputs"], label="replay")
