"""C09 - located symbols are never misread; orientation and mirroring are handled.
spec/Pose.tla (pose = exact pixel map; safety, upside-down, sideways and mirror clauses), spec/Retry.tla (retry automata of
OneDReader and of the QR decoder), spec/MC_Retry + MC_Pose (design laws; Gen_Pose.cfg enumerates the pose grid),
spec/Trace_Pose (validation of what the real writers -> readers did on every posed image)."""
import json, random, concurrent.futures
import vlib

ALNUM = b"0123456789ABCDEFGHIJKLMNOPQRSTUVWXYZ $%*+-./:"
C39PLAIN = b"0123456789ABCDEFGHIJKLMNOPQRSTUVWXYZ-. $/+%"
CBDATA = b"0123456789-$:/.+"
ONED = ["EAN13", "EAN8", "UPCA", "UPCE", "C128", "C93", "C39", "ITF", "CBAR"]
KEYS = ("op", "sym", "c", "ec", "rd", "th", "al", "se", "cb", "h", "mg", "pad", "scale", "rot", "mir")
# counterexamples found by earlier runs: (symbology, content, pad, scale, rot, TRY_HARDER, reader)
REGRESSIONS = [("UPCE", "1694148", 10, 2, 180, 0, "own"), ("UPCE", "1694148", 10, 4, 270, 1, "multi"), ("UPCE", "0100242", 10, 2, 180, 0, "own")]
SHOW = KEYS + ("werr", "w0", "h0", "lead", "trail", "w", "hh", "text", "err", "kind", "orient", "fmt", "mirf", "derr", "dkind", "panic")


# ------------------------------------------------------------------ workload
def digits(rng, n):
    return [48 + rng.randrange(10) for _ in range(n)]


def content(rng, sym, big):
    """(content bytes, reader) inside the writer's and the matching reader's domain (ASCII only: character sets are C15's)"""
    if sym == "QR":
        kind = rng.choice(["num", "alnum", "byte", "byte"])
        n = rng.choice([1, 2, 5, 9, 14, 20, 33, 50, 80, 120, 180] + ([260, 400, 600] if big else []))
        if kind == "num":
            return digits(rng, n), "own"
        if kind == "alnum":
            return [rng.choice(ALNUM) for _ in range(n)], "own"
        return [rng.randrange(32, 127) for _ in range(n)], "own"
    if sym == "DM":
        n = rng.choice([1, 2, 3, 5, 8, 12, 20, 30, 45, 70, 100] + ([160, 250, 400] if big else []))
        k = rng.random()
        if k < 0.2:
            return digits(rng, n), "own"
        if k < 0.4:
            return [rng.choice(b"ABCDEFGHIJKLMNOPQRSTUVWXYZ0123456789 ") for _ in range(n)], "own"
        return [rng.randrange(32, 127) for _ in range(n)], "own"
    if sym == "EAN13":
        return digits(rng, 12), rng.choice(["own", "multi"])
    if sym == "EAN8":
        return digits(rng, 7), rng.choice(["own", "multi"])
    if sym == "UPCA":
        return digits(rng, 11), rng.choice(["own", "multi"])
    if sym == "UPCE":
        return [48 + rng.randrange(2)] + digits(rng, 6), rng.choice(["own", "multi"])
    if sym == "C128":
        n = rng.randint(1, 20)
        k = rng.random()
        if k < 0.25:
            return digits(rng, 2 * rng.randint(1, 10)), "own"
        if k < 0.4:
            return [rng.randrange(0, 128) for _ in range(n)], "own"
        return [rng.randrange(32, 127) for _ in range(n)], "own"
    if sym == "C93":
        n = rng.randint(1, 14)
        if rng.random() < 0.5:
            return [rng.choice(C39PLAIN) for _ in range(n)], "own"
        return [rng.randrange(0, 128) for _ in range(n)], "own"
    if sym == "C39":
        if rng.random() < 0.65:
            return [rng.choice(C39PLAIN) for _ in range(rng.randint(1, 14))], "own"
        c = [rng.randrange(0, 128) for _ in range(rng.randint(1, 9))]
        if all(b in C39PLAIN for b in c):
            c[0] = ord("a")
        return c, "ext"
    if sym == "ITF":
        return digits(rng, rng.choice([6, 8, 10, 12, 14, 16, 20])), "own"
    if sym == "CBAR":
        c = [rng.choice(CBDATA) for _ in range(rng.randint(2, 14))]
        if rng.random() < 0.4:
            c = [rng.choice(b"ABCD")] + c + [rng.choice(b"ABCD")]
        return c, "own"
    raise vlib.Infra("unknown symbology " + sym)


def pose_event(case, c, rd, ec, h, mg=-1):
    # ITF: every other pose passes ALLOWED_LENGTHS = [len(content)], a hint the row decoder consumes on every attempt (forward,
    # reversed, turned): hints must survive the retry logic
    al = 1 if case["sym"] == "ITF" and (case["pad"] + case["scale"] + case["rot"] // 90) % 2 == 0 else 0
    if al and (case["pad"] + case["rot"] // 90) % 3 == 0:
        c = list(c)[:4]          # a length only the hint allows (the reader's default lengths are 6, 8, .. 14 and longer)
    # a result-point callback makes the 1-D retry logic rebuild the hints for the reversed row; Codabar's RETURN_CODABAR_START_END
    # changes the answer, so a hint lost on the way shows
    k = case["pad"] + case["scale"] + case["rot"] // 90 + len(c)
    cb = 1 if k % 3 != 1 else 0
    se = 1 if case["sym"] == "CBAR" and k % 2 == 0 else 0
    return dict(op="pose", sym=case["sym"], c=list(c), ec=ec, rd=rd, th=case["th"], al=al, se=se, cb=cb, h=h, mg=mg, pad=case["pad"], scale=case["scale"],
                rot=case["rot"], mir=case["mir"], b=[], bw=0, bh=0)


def chunk_rows(rows, w):
    out = []
    for r in rows:
        cs = [0] * ((w + 15) // 16)
        for i, b in enumerate(r):
            if b:
                cs[i // 16] |= 1 << (i % 16)
        out.append(cs)
    return out


def gen_cases(ctx):
    """design checks, then the pose grid enumerated by TLC"""
    sfx = "" if ctx.quick else "_full"
    half = max(2, vlib.NCPU // 2)
    with concurrent.futures.ThreadPoolExecutor(max_workers=3) as ex:
        f1 = ex.submit(vlib.run_tlc, ctx, "MC_Retry", "MC_Retry" + sfx, workers=half, timeout=2400)
        f2 = ex.submit(vlib.run_tlc, ctx, "MC_Pose", "MC_Pose" + sfx, workers=half, timeout=2400)
        f3 = ex.submit(vlib.run_tlc, ctx, "MC_Pose", "Gen_Pose", workers=1, timeout=600)
        r1, r2, res = f1.result(), f2.result(), f3.result()
    ctx.note("MC_Retry%s: %d states: row-scan / quarter-turn / mirrored-retry automata obey the orientation, flag and error-precedence laws" % (sfx, r1.distinct))
    ctx.note("MC_Pose%s: %d states: pixel-map laws on every tiny image x pose, row facts of posed 1-D images, clauses on the abstract reader" % (sfx, r2.distinct))
    cases = vlib.tlc_printed(res)
    if len(cases) != 4 * 6 * 4 * (2 + 1 + 2 * 9):
        raise vlib.Infra("Gen_Pose printed %d cases:\n%s" % (len(cases), res.out[-2000:]))
    return cases


def build_inputs(ctx, cases):
    rng = random.Random(ctx.seed * 15485863 + (1 if ctx.quick else 2))
    reps = 1 if ctx.quick else 30
    ins = []
    for rep in range(reps):
        for i, case in enumerate(cases):
            sym = case["sym"]
            big = (not ctx.quick) and rep % 5 == 0
            c, rd = content(rng, sym, big)
            h = 0 if sym in ("QR", "DM") else [0, 9, 30, 2][(i + rep) % 4]
            if sym not in ("QR", "DM") and case["rot"] in (90, 270) and case["scale"] <= 2 and (i + rep) % 3 == 0:
                h = -5                      # bars 2.5 times as tall as the symbol is wide: turned sideways the image is much wider than high
            ins.append(pose_event(case, c, rd, 1 + (i + rep) % 4, h))
            if sym in ("QR", "DM"):         # the 2-D locating path: two more contents, QR also with a narrower quiet zone
                for k in (0, 1):
                    c, rd = content(rng, sym, big)
                    ins.append(pose_event(case, c, rd, 1 + (i + rep + k) % 4, 0, mg=k if sym == "QR" else -1))
    # UPC-E is the one symbology whose guards are not symmetric: turned round, its digit boundaries are off by three
    # modules - a denser sweep of numbers there, and the counterexamples found so far (always replayed)
    for sym, text, pad, scale, rot, th, rd in REGRESSIONS:
        ins.append(pose_event(dict(sym=sym, th=th, pad=pad, scale=scale, rot=rot, mir=0), text.encode(), rd, 1, 1))
    for k in range(600 if ctx.quick else 12000):
        c, rd = content(rng, "UPCE", False)
        rot = (180, 270)[k % 2]
        ins.append(pose_event(dict(sym="UPCE", th=1 if rot == 270 else k % 4 // 2, pad=10 + 3 * (k % 3), scale=1 + k % 5, rot=rot, mir=0),
                              c, rd, 1, 1 + k % 7))
    # decoder level: the module matrix and its transpose
    for k in range(24 if ctx.quick else 400):
        c, _ = content(rng, "QR", not ctx.quick and k % 4 == 0)
        if k % 6 == 5:                      # versions >= 7 carry version information, re-read mirrored
            c = (c * 300)[:rng.choice([150, 260, 400])]
        c = c[:400]
        ec = 1 + k % 4
        for mir in (0, 1):
            ins.append(dict(op="qrmat", sym="QR", c=list(c), ec=ec, rd="own", th=0, h=0, mg=-1, pad=0, scale=1, rot=0, mir=mir, b=[], bw=0, bh=0))
    # every (level, mask) pair on a version >= 7 symbol (version information present), plain and mirrored: the format word of a transposed
    # symbol reads back as another word - or as itself - depending on level and mask
    long_text = list(("The quick brown fox jumps over the lazy dog 0123456789 " * 4).encode())[:170]
    for ec in range(1, 5):
        for mask in range(8):
            for mir in (0, 1):
                ins.append(dict(op="qrmat", sym="QR", c=long_text[:{1: 150, 2: 120, 3: 85, 4: 62}[ec]], ec=ec, mh=mask + 1, rd="own", th=0, h=0, mg=-1, pad=0, scale=1, rot=0, mir=mir,
                                b=[], bw=0, bh=0))
    # known finding C09-mirrored-1L-first-reading-accepted: the two inputs found so far (always replayed)
    for text in ("EV9", "P1*L%TUQ+KZO9O"):
        ins.append(dict(op="qrmat", sym="QR", c=list(text.encode()), ec=1, rd="own", th=0, h=0, mg=-1, pad=0, scale=1, rot=0, mir=1, b=[], bw=0, bh=0))
    # the driver's pixel transform against Pose.tla on seeded asymmetric pictures, every pose of the grid once
    poses = sorted({(x["pad"], x["scale"], x["rot"], x["mir"]) for x in cases})
    for k, (pad, scale, rot, mir) in enumerate(poses):
        if ctx.quick and k % 3:
            continue
        w, h = rng.choice([(5, 3), (3, 7), (8, 8), (17, 2), (1, 6), (9, 1)])
        rows = [[rng.randrange(2) for _ in range(w)] for _ in range(h)]
        ins.append(dict(op="xform", sym="QR", c=[], ec=0, rd="own", th=0, h=0, mg=-1, pad=pad, scale=scale, rot=rot, mir=mir,
                        b=chunk_rows(rows, w), bw=w, bh=h))
    return ins


# ------------------------------------------------------------------ driving and judging
def pdrive(ctx, inputs):
    if not inputs:
        return []
    vlib.build_harness(ctx, "c09")
    n = max(1, min(vlib.NCPU, len(inputs) // 200 or 1))
    parts = [inputs[i::n] for i in range(n)]          # strided: every part gets every kind of pose
    with concurrent.futures.ThreadPoolExecutor(max_workers=n) as ex:
        outs = list(ex.map(lambda p: vlib.drive(ctx, "c09", p, timeout=3000), parts))
    obs = [None] * len(inputs)
    for k, part in enumerate(outs):
        for j, o in enumerate(part):
            obs[k + j * n] = o
    return obs


def strip(o):
    o = dict(o)
    o.pop("msg", None)
    return o


PREDS = {}


def judge(ctx, inputs, label):
    obs = pdrive(ctx, inputs)
    bad = vlib.validate(ctx, "Trace_Pose", [strip(o) for o in obs], stateless=True, timeout=3000)
    ctx.traces += len(obs)
    stats = {}
    for o in obs:
        ctx.count_case(tuple(json.dumps(o.get(k)) for k in KEYS), nontrivial=True)
        if o["op"] == "pose":
            cls = "1D" if o["sym"] in ONED else o["sym"]
            res = "unwritten" if o["werr"] else ("read" if not o["err"] else o["kind"])
            stats[(cls, res)] = stats.get((cls, res), 0) + 1
    for gi, ent in bad:
        ev = {k: obs[gi].get(k) for k in SHOW}
        ev["why"], ev["diag"] = ent[1], ent[2] if len(ent) > 2 else ""
        vlib.reject(ctx, ev, "%s: %s %s pad=%d scale=%d rot=%d mir=%d th=%d rd=%s: %s (%s)" % (
            label, ev["op"], ev["sym"], ev["pad"], ev["scale"], ev["rot"], ev["mir"], ev["th"], ev["rd"], ent[1], ev["diag"]),
            replay_events=[inputs[gi]], preds=PREDS)
    return obs, stats


def run(ctx):
    cases = gen_cases(ctx)
    inputs = build_inputs(ctx, cases)
    obs, stats = judge(ctx, inputs, "posed symbol")
    ctx.note("outcomes of the posed reads (class, outcome): " + ", ".join("%s/%s=%d" % (k[0], k[1], v) for k, v in sorted(stats.items())))
    picks = [("QR", 1, 90), ("DM", 0, 180), ("EAN13", 0, 180), ("C128", 0, 270), ("UPCE", 0, 180)]
    for sym, mir, rot in picks:
        for o in obs:
            if o["op"] == "pose" and o["sym"] == sym and o["mir"] == mir and o["rot"] == rot and (o["th"] == 1 or rot != 270) and not o["err"] and not o["werr"]:
                ctx.sample({k: o[k] for k in ("op", "sym", "c", "rd", "th", "pad", "scale", "rot", "mir", "text", "err", "kind", "orient", "mirf")})
                break
    for o in obs:
        if o["op"] == "qrmat" and o["mir"] == 1:
            ctx.sample({k: o[k] for k in ("op", "c", "ec", "mir", "text", "err", "mirf")})
            break
    ctx.exhaustive = False
    ctx.extra["pose_grid"] = "pad {0,1,3,10} x scale 1..6 x rot {0,90,180,270} x mirror (QR) x TRY_HARDER (1-D): %d cases, %d content(s) per case" % (
        len(cases), 1 if ctx.quick else 30)
    return vlib.finish(ctx, rule="one case = one write -> pose -> read (symbology, content, reader, height, pad, scale, rotation, mirror, "
                       "TRY_HARDER) or one decoder call on a module matrix / its transpose or one posed test picture; the pose grid "
                       "is enumerated completely by TLC for each of the 11 symbologies, contents are seeded",
                       assumptions=["contents are ASCII texts inside the writer's and the matching reader's documented domain "
                                    "(character sets are C15's subject)",
                                    "images are exactly bilevel renderings of the writer's output (no blur, noise or perspective)",
                                    "sideways 1-D images are read with TRY_HARDER at the rendered heights 1, 2, 9 and 30 pixels times the scale"],
                       trusted=["TLC", "spec/OneD.tla reference readers (C03/C10)", "spec/Pose.tla, Retry.tla",
                                "harness/c09 pixel transform (itself validated against Pose.tla by the xform events)"])


def replay(ctx, path):
    r = json.load(open(path))
    judge(ctx, r["inputs"], "replay")
    return vlib.finish(ctx, rule="replay of one recorded posed read")
