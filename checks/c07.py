"""C07 - QR symbols conform to ISO/IEC 18004: the encoder's module matrix equals the reference construction of
spec/QRSymbol.tla (function patterns, BCH words, block structure, RS parity, interleave, placement, mask), and the
decoder's per-version tables / BCH decoders agree with spec/QRTables.tla."""
import random
import vlib, qrlib


def flips(rng, w, nbits, k):
    for b in rng.sample(range(nbits), k):
        w ^= 1 << b
    return w


def workload(ctx, g):
    rng = random.Random(ctx.seed * 1009 + 7)
    caps = g["caps"]
    ev = [dict(op="tables", v=v) for v in range(1, 41)]
    # BCH: exact words, every single-bit error, seeded 2- and 3-bit errors in each copy, random pairs
    for i, w in enumerate(g["fmt"]):
        ev.append(dict(op="fmt", w1=w, w2=w))
        for b in range(15):
            ev.append(dict(op="fmt", w1=w ^ (1 << b), w2=w))
            ev.append(dict(op="fmt", w1=w, w2=w ^ (1 << b)))
        for _ in range(6 if ctx.quick else 60):
            ev.append(dict(op="fmt", w1=flips(rng, w, 15, rng.randint(0, 3)), w2=flips(rng, w, 15, rng.randint(0, 3))))
    for _ in range(300 if ctx.quick else 5000):
        ev.append(dict(op="fmt", w1=rng.getrandbits(15), w2=rng.getrandbits(15)))
    for w in g["ver"]:
        ev.append(dict(op="ver", w1=w))
        for b in range(18):
            ev.append(dict(op="ver", w1=w ^ (1 << b)))
        for _ in range(6 if ctx.quick else 60):
            ev.append(dict(op="ver", w1=flips(rng, w, 18, rng.randint(2, 3))))
    for _ in range(300 if ctx.quick else 5000):
        ev.append(dict(op="ver", w1=rng.getrandbits(18)))
    # matrices
    combos = []
    if ctx.quick:
        for v in range(1, 41):
            combos.append((v, 1 + (v + ctx.seed) % 4, (v * 3 + ctx.seed) % 8))
        for v in (1, 7, 40):
            for ec in range(1, 5):
                for m in range(8):
                    if v == 1 or (v == 7 and (m + ec) % 2 == ctx.seed % 2) or (m + 2 * ec + ctx.seed) % 16 == 0:
                        combos.append((v, ec, m))
    else:
        combos = [(v, ec, m) for v in range(1, 41) for ec in range(1, 5) for m in range(8)]
    modes = ["byte", "byte", "num", "alnum", "kanji"]
    for k, (v, ec, m) in enumerate(combos):
        mode = modes[(k + ctx.seed) % len(modes)]
        cap = caps[v - 1][ec - 1][["num", "alnum", "byte", "kanji"].index(mode)]
        lo = caps[v - 2][ec - 1][["num", "alnum", "byte", "kanji"].index(mode)] + 1 if v > 1 else 1
        style = (k + ctx.seed) % 3
        if style == 0:      # exactly at capacity, version chosen by the encoder
            text, cs = qrlib.text_of(mode, cap, rng); vh = 0
        elif style == 1:    # somewhere inside the version's own range, version chosen by the encoder
            text, cs = qrlib.text_of(mode, rng.randint(lo, cap), rng); vh = 0
        else:               # short text in a forced version (long padding run)
            text, cs = qrlib.text_of(mode, rng.randint(1, max(1, cap // 3)), rng); vh = v
        ev.append(qrlib.enc(text, ec, vh=vh, mh=m if (k % 5) else -1, cs=cs, gs1=1 if k % 11 == 3 else 0, chk=1, tag="matrix"))
    # data-dependent corners of the Reed-Solomon step (found by searching with checks/gfaim.py, input aiming only): version 1-M byte-mode
    # texts whose ten check codewords START with one / two zeros (the remainder of the division is shorter than the parity),
    # and texts whose data codewords are all zero in whole blocks of multi-block versions
    for t in ("order-0000152", "order-0000342", "order-0000572", "order-0005130", "order-0015226", "order-0152970"):
        ev.append(qrlib.enc(list(t.encode()), 2, chk=1, dec=1, tag="short remainder"))
    for (n, ec) in ((24, 4), (60, 4), (110, 3), (200, 2)):
        ev.append(qrlib.enc([0] * n, ec, chk=1, dec=1, tag="zero blocks"))
    # placement of arbitrary codeword streams (not RS-valid) through MatrixUtil_buildMatrix
    for v in ([1, 2, 6, 7, 14, 21, 32, 40] if ctx.quick else range(1, 41)):
        ev.append(dict(op="build", v=v, ec=1 + rng.randrange(4), mask=rng.randrange(8), cw=[rng.randrange(256) for _ in range(g["total"][v - 1])]))
    return ev


def run(ctx):
    res = vlib.run_tlc(ctx, "MC_QR", "MC_QR" if ctx.quick else "MC_QR_thorough", workers=vlib.NCPU, timeout=3000)
    ctx.note("MC_QR: %d states: table laws for 40 versions x 4 levels, BCH distances, capacities, reference round trip" % res.generated)
    g = qrlib.gen_caps(ctx)
    qrlib.judge(ctx, workload(ctx, g), "C07 workload")
    ctx.exhaustive = not ctx.quick
    return vlib.finish(ctx, rule="one case = one recorded call: a (version, level, mask, mode, length) encoding compared module by "
                       "module with the reference matrix, a per-version table dump, a BCH format/version decode, or a placement "
                       "of an arbitrary stream; thorough enumerates all 1280 (version, level, mask) configurations",
                       assumptions=["golang.org/x/text supplies the Shift_JIS bytes of Kanji test texts"],
                       trusted=["TLC", "spec/QRTables.tla + QRSymbol.tla + QRStream.tla (transcription of ISO/IEC 18004, self-checked by MC_QR)"])


replay = qrlib.replay
