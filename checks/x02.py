"""X02 (beyond the listed properties) - several QR Codes in one image and structured append.
spec/MultiQR.tla    reference symbols with the structured-append header (QRStream / QRSymbol reference encoder) and the model of
                    QRCodeMultiReader.DecodeMultiple's merge (all header-carrying symbols of the image sorted by sequence number and
                    concatenated into one result after the plain ones; parity and total are not checked - named deviation);
spec/MC_MultiQR     laws of the merge on small lists x every subset of decoded symbols, header read back by the reference parser;
spec/Trace_MultiQR  every DecodeMultiple call on a painted image: soundness (the answer is explained by SOME set of decoded symbols)
                    always, completeness (all symbols) where the layout leaves the detector no choice (single symbol)."""
import json, random
import vlib

WORDS = ["alpha", "bravo", "charlie", "delta", "echo", "foxtrot", "golf", "hotel", "india", "juliet", "kilo", "lima", "mike"]


def spec_of(rng, text, sa=0, seq=0, total=1, par=0):
    return dict(text=list(text.encode()), sa=sa, seq=seq, total=total, par=par, v=rng.choice([1, 1, 2, 3]), ec=rng.choice([1, 2, 3]),
                mask=rng.randrange(8))


def scenes(ctx, rng):
    out = []
    n = 40 if ctx.quick else 600
    for i in range(n):
        kind = i % 5
        if kind == 0:                                        # one plain symbol
            specs = [spec_of(rng, rng.choice(WORDS))]
        elif kind == 1:                                      # k plain symbols
            specs = [spec_of(rng, w) for w in rng.sample(WORDS, rng.choice([2, 3, 4]))]
        elif kind == 2:                                      # one complete message of 2..4 parts, shuffled, plus maybe a plain symbol
            k = rng.choice([2, 3, 4])
            parts = rng.sample(WORDS, k)
            par = 0
            for ch in "".join(parts).encode():
                par ^= ch
            specs = [spec_of(rng, p, 1, j, k, par) for j, p in enumerate(parts)]
            if rng.random() < 0.5:
                specs.append(spec_of(rng, rng.choice(WORDS).upper()))
            rng.shuffle(specs)
        elif kind == 3:                                      # parts of two different messages (the code merges them)
            a, b = rng.sample(WORDS, 2), rng.sample(WORDS, 2)
            specs = [spec_of(rng, a[0], 1, 0, 2, 17), spec_of(rng, b[1], 1, 1, 2, 99), spec_of(rng, a[1], 1, 1, 2, 17)]
            rng.shuffle(specs)
        else:                                                # an incomplete message
            specs = [spec_of(rng, rng.choice(WORDS), 1, 2, 3, 5), spec_of(rng, rng.choice(WORDS))]
        # a text must fit version / level: keep it short (version 1-H holds 7 bytes, 5 with the header)
        for s in specs:
            room = {1: (17, 14, 11, 7), 2: (32, 26, 20, 14), 3: (53, 42, 32, 24)}[s["v"]][s["ec"] - 1] - (2 if s["sa"] else 0)
            s["text"] = s["text"][:room]
        out.append(dict(op="multi", spec=specs, cols=rng.choice([1, 2, 2, 3]), quiet=4, gap=rng.choice([0, 4, 12, 30]), scale=rng.choice([2, 3, 4]),
                        rots=[rng.randrange(4) for _ in specs], th=rng.randrange(2), must=1 if len(specs) == 1 else 0))
    return out


def run(ctx, inputs=None, label="multi QR read"):
    if inputs is None:
        res = vlib.run_tlc(ctx, "MC_MultiQR", "MC_MultiQR", workers=4, timeout=900)
        ctx.note("MC_MultiQR: %d jobs: merge laws on small lists x every subset of decoded symbols; structured-append header read back" % res.distinct)
        rng = random.Random(ctx.seed * 4099 + (1 if ctx.quick else 2))
        inputs = scenes(ctx, rng)
    flat = [s for e in inputs for s in e["spec"]]
    # TLC evaluates the invariant of initial states on one thread: shard the symbol list over processes instead
    import concurrent.futures
    nsh = max(1, min(vlib.NCPU, len(flat) // 4))
    shards = [(i, flat[i::nsh]) for i in range(nsh)]

    def gen(sh):
        i, part = sh
        for _ in range(5):
            try:
                r = vlib.run_tlc(ctx, "MC_MultiQR", "Gen_MultiQR", files={"syms.ndjson": part}, workers=1, timeout=2400)
                break
            except FileExistsError:
                continue
        return [dict(m, k=i + (m["k"] - 1) * nsh + 1) for m in vlib.tlc_printed(r)]
    mats = {}
    with concurrent.futures.ThreadPoolExecutor(max_workers=nsh) as ex:
        for part in ex.map(gen, shards):
            for m in part:
                mats[m["k"]] = m
    if len(mats) != len(flat):
        raise vlib.Infra("Gen_MultiQR printed %d of %d symbols" % (len(mats), len(flat)))
    k = 0
    drive_in = []
    for e in inputs:
        syms = []
        for _ in e["spec"]:
            k += 1
            syms.append(dict(dim=mats[k]["dim"], rows=mats[k]["rows"]))
        drive_in.append(dict(e, syms=syms))
    obs = vlib.drive(ctx, "multiqr", drive_in, timeout=3000)
    for o, e in zip(obs, inputs):
        o["spec"], o["must"] = e["spec"], e["must"]
    bad = vlib.validate(ctx, "Trace_MultiQR", obs, timeout=3000)
    ctx.traces += len(obs)
    found = total = 0
    for o in obs:
        ctx.count_case((json.dumps(o["spec"]), o["cols"], o["gap"], o["scale"], tuple(o["rots"]), o["th"]))
        total += len(o["spec"])
        found += sum(1 for t in o["texts"]) if not any(s["sa"] for s in o["spec"]) else 0
    ctx.extra["symbols_painted"] = total
    ctx.extra["complete_answers"] = sum(1 for o in obs if not o["err"] and len(o["texts"]) == len([s for s in o["spec"] if not s["sa"]]) + (1 if any(s["sa"] for s in o["spec"]) else 0))
    ctx.extra["scenes"] = len(obs)
    for gi, ent in bad:
        if ent[1] == "premise":
            raise vlib.Infra("Trace_MultiQR: premise of event %d does not hold (%s)" % (gi, ent[2]))
        o = dict(obs[gi])
        o["why"] = ent[1]
        o["syms"] = []
        vlib.reject(ctx, o, "%s: %d symbols %s cols=%d gap=%d scale=%d rots=%s -> err=%d texts=%s: %s" % (
            label, len(o["spec"]), [("SA%d/%d:" % (s["seq"], s["total"]) if s["sa"] else "") + bytes(s["text"]).decode("latin-1") for s in o["spec"]],
            o["cols"], o["gap"], o["scale"], o["rots"], o["err"], [bytes(t).decode("latin-1") for t in o["texts"]],
            {"sound": "the answer is not explained by any set of decoded symbols", "complete": "a symbol is missing from the answer",
             "error": "panic or undocumented error"}.get(ent[1], ent[1])), replay_events=[inputs[gi]])
    for o in obs[:3]:
        ctx.sample(dict(spec=[dict(s, text=bytes(s["text"]).decode("latin-1")) for s in o["spec"]], cols=o["cols"], gap=o["gap"], scale=o["scale"],
                        texts=[bytes(t).decode("latin-1") for t in o["texts"]], err=o["err"]))
    ctx.exhaustive = False
    return vlib.finish(ctx, rule="one case = one DecodeMultiple call on an image of 1..5 reference symbols (texts, headers, versions 1-3, levels, masks, "
                       "layout, gap, scale, quarter turns, TRY_HARDER)",
                       assumptions=["clean bilevel images; symbols on a grid with their 4-module quiet zones", "completeness is only demanded of single-symbol images: "
                                    "the multi detector's choice of finder-pattern triples among several symbols is heuristic"],
                       trusted=["TLC", "spec/QRTables.tla, QRSymbol.tla, QRStream.tla (reference encoder)", "spec/MultiQR.tla"])


def replay(ctx, path):
    r = json.load(open(path))
    return run(ctx, inputs=r["inputs"], label="replay")
