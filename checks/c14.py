"""C14 - rendering geometry: size, integer scaling, centring and quiet zone.
spec/Render.tla (out / module size / padding / pixel -> module map for the three writer classes),
spec/MC_Render (design lemmas + boundary-case generation), spec/Trace_Render (validation of Writer.Encode images
against the encoder-level module matrix)."""
import bisect, concurrent.futures, json, random
import vlib

QR1 = ("QR_CODE", "C14")
EAN8 = ("EAN_8", "1234567")
SYMS_QUICK = [QR1, ("QR_CODE", "a longer text that needs a bigger symbol: 0123456789 abcdefghij"),
              ("DATA_MATRIX", "DM"), ("DATA_MATRIX", "Data Matrix contents 0123456789 abcdefghijklmnopqrstuvwxyz"),
              ("DATA_MATRIX_RECT", "RECT14"),
              EAN8, ("EAN_13", "590123412345"), ("UPC_A", "03600029145"), ("UPC_E", "01234565"), ("CODE_39", "C14-OK"),
              ("CODE_93", "C14OK"), ("CODE_128", "Code128-c14"), ("ITF", "123456"), ("CODABAR", "A1234B")]
SYMS_MORE = [("QR_CODE", "0123456789" * 12), ("QR_CODE", "The quick brown fox jumps over the lazy dog. " * 6),
             ("DATA_MATRIX", "x" * 120), ("DATA_MATRIX_RECT", "rectangular 0123456789"), ("CODE_128", "1234567890123456789012"),
             ("CODE_39", "LONGER CODE 39 TEXT"), ("ITF", "12345678901234"), ("EAN_8", "7654321"), ("UPC_E", "1234565")]


def cls_of(fmt):
    return "qr" if fmt == "QR_CODE" else "dm" if fmt.startswith("DATA_MATRIX") else "1d"


def default_margin(fmt):            # only used to aim inputs (which sizes are interesting); never for a verdict
    return 4 if fmt == "QR_CODE" else 0 if fmt.startswith("DATA_MATRIX") else 9 if fmt in ("EAN_8", "EAN_13", "UPC_A", "UPC_E") else 10


def ev(op, fmt, txt, rw=0, rh=0, margin=-1, mstr=0):
    return dict(op=op, fmt=fmt, txt=list(txt.encode()), rw=rw, rh=rh, margin=margin, mstr=mstr)


def quiet(fmt, margin):
    m = default_margin(fmt) if margin < 0 else margin
    return 2 * m if cls_of(fmt) == "qr" else m if cls_of(fmt) == "1d" else 0


def python_cases(ctx, rng, fmt, txt, nw, nh):
    """requested sizes for one symbol: exhaustive small ranges for QR v1 / EAN-8, seeded samples up to 8 x natural"""
    out = []
    c = cls_of(fmt)
    if (fmt, txt) == QR1:
        for m in ([0, 1] if ctx.quick else [0, 1, 4, 20]):
            u = nw + 2 * m
            lo, hi = (u - 1, 2 * u + 1) if (ctx.quick or m > 1) else (0, 2 * u + 2)
            for rw in range(lo, hi + 1):
                for rh in range(lo, hi + 1):
                    out.append((rw, rh, m))
    elif (fmt, txt) == EAN8:
        for m in ([0, -1] if ctx.quick else [0, 1, 4, 20, -1]):
            u = nw + quiet(fmt, m)
            for rw in range(0 if not ctx.quick else u - 2, 2 * u + 2):
                for rh in ([0, 3] if ctx.quick else [0, 1, 2, 3]):
                    out.append((rw, rh, m))
    elif c == "dm" and nw <= 12:
        hi = 3 * nw + 2 if ctx.quick else 5 * nw + 2
        for rw in range(0, hi, 1 if not ctx.quick else 1):
            for rh in (range(0, hi) if not ctx.quick else [0, nh - 1, nh, nh + 1, 2 * nh - 1, 2 * nh, rng.randrange(hi), rng.randrange(hi)]):
                out.append((rw, rh, -1))
    # seeded: anywhere up to 8 x natural size, all residues modulo the module size get hit over the run
    for _ in range(12 if ctx.quick else 100):
        m = rng.choice([-1, 0, 1, 2, 3, 4, 5, 8, 13, 20]) if c != "dm" else -1
        uw, uh = nw + quiet(fmt, m), nh + (quiet(fmt, m) if c == "qr" else 0)
        rw = rng.randint(0, 8 * uw)
        rh = rng.randint(0, 8 * uh) if c != "1d" else rng.choice([0, 1, 2, 10, 37])
        if c != "1d" and rng.random() < 0.5:          # near-square requests: the smaller axis decides the module size
            rh = max(0, rw * uh // uw + rng.randint(-uh, uh))
        if ctx.quick and rw * (rh if c != "1d" else 1) > 400 * 400:
            rw //= 2
            rh //= 2
        out.append((rw, rh, m))
    return out


def tlc_design(ctx):
    consts = {"NMax": 30, "QMax": 30, "ReqMax": 250} if ctx.quick else None
    res = vlib.run_tlc(ctx, "MC_Render", "MC_Render", files={"syms.json": "[]"}, workers=vlib.NCPU, timeout=1200, consts=consts)
    ctx.note("MC_Render: %d states: on every (n, q, requested) of the scope the module size is the largest that fits, the symbol "
             "is inside the image, the leftover is split evenly, the quiet zone is kept, block centres sample their module; "
             "two-axis and Data Matrix fit lemmas hold" % res.generated)


def tlc_cases(ctx, syms):
    """boundary cases computed by TLC from the module counts measured on the real encoders"""
    sj = json.dumps([dict(fmt=s["fmt"], nw=s["nw"], nh=s["nh"]) for s in syms])
    res = vlib.run_tlc(ctx, "MC_Render", "Gen_Render", files={"syms.json": sj}, workers=1, timeout=900,
                       consts={"K": 3 if ctx.quick else 5})
    out = {}
    for lst in vlib.tlc_printed(res):
        for c in lst:
            out.setdefault((c["fmt"], c["nw"], c["nh"]), []).append((c["rw"], c["rh"], c["margin"]))
    if not out:
        raise vlib.Infra("Gen_Render produced no cases:\n" + res.out[-2000:])
    return out


def costs(obs):
    """rough validation cost per event (module rows x image width + image height), to cut shards of similar work"""
    out, nh = [], 1
    for o in obs:
        if o["op"] == "sym":
            nh = max(1, o.get("nh", 1))
            out.append(50 + o.get("nw", 0) * nh // 4)
        else:
            out.append(60 + o.get("gw", 0) * (nh + 2) + 3 * o.get("gh", 0))
    return out


def validate_sharded(ctx, obs, starts):
    cs = costs(obs)
    target = sum(cs) / (vlib.NCPU if ctx.quick else 3 * vlib.NCPU)
    cuts, acc = [0], 0
    sset = set(starts)
    for i, o in enumerate(obs):
        if i in sset and acc >= target and i > cuts[-1]:
            cuts.append(i)
            acc = 0
        acc += cs[i]
    cuts.append(len(obs))
    ctx.extra["validation_cost_units"] = sum(cs)

    def one(i):
        lo, hi = cuts[i], cuts[i + 1]
        return [(lo + gi, ent) for gi, ent in vlib.validate(ctx, "Trace_Render", obs[lo:hi], shards=1, stateless=False)]
    out = []
    with concurrent.futures.ThreadPoolExecutor(max_workers=vlib.NCPU) as ex:
        for r in ex.map(one, range(len(cuts) - 1)):
            out.extend(r)
    return out


def judge(ctx, traces, labels):
    inputs = [e for t in traces for e in t]
    starts, i = [], 0
    for t in traces:
        starts.append(i)
        i += len(t)
    obs = vlib.drive(ctx, "c14", inputs)
    bad = validate_sharded(ctx, obs, starts)
    ctx.traces += len(traces)
    for o in obs:
        ctx.count_case((o["op"], o["fmt"], o["txt"], o["rw"], o["rh"], o["margin"], o["mstr"]), nontrivial=(o["op"] == "render"))
    for gi, ent in bad:
        ti = bisect.bisect_right(starts, gi) - 1
        o = obs[gi]
        e = {k: o[k] for k in ("op", "fmt", "rw", "rh", "margin", "mstr", "gw", "gh", "bounds", "gray", "err", "panic", "msg")}
        e["why"], e["expected_ow_oh_s_px_py"] = ent[2], ent[3]
        e["rows_head"] = o["rows"][:3]
        vlib.reject(ctx, e, "%s: %s %s requested %dx%d margin %d rejected by Trace_Render: %s (expected ow,oh,s,px,py=%s; got %dx%d)" % (
            labels[ti], o["op"], o["fmt"], o["rw"], o["rh"], o["margin"], ent[2], ent[3], o["gw"], o["gh"]),
            replay_events=[inputs[starts[ti]]] + ([inputs[gi]] if gi != starts[ti] else []))
    seen = set()
    for ti, st in enumerate(starts):
        f = traces[ti][0]["fmt"]
        if f not in seen and len(traces[ti]) > 3 and len(seen) < 6:
            seen.add(f)
            o = obs[st + 3]
            ctx.sample(dict(kind=labels[ti], event={k: o[k] for k in ("op", "fmt", "rw", "rh", "margin", "gw", "gh", "bounds")},
                            rows_head=o["rows"][:3]))
    return obs


def run(ctx):
    tlc_design(ctx)
    rng = random.Random(ctx.seed * 7907 + (1 if ctx.quick else 2))
    symlist = SYMS_QUICK + ([] if ctx.quick else SYMS_MORE)
    symobs = vlib.drive(ctx, "c14", [ev("sym", f, t) for f, t in symlist])
    for o in symobs:
        if o["err"] or o["panic"] or o["nw"] < 1:
            raise vlib.Infra("cannot obtain the module matrix of %s: %s" % (o["fmt"], o["msg"]))
    gen = tlc_cases(ctx, symobs)
    traces, labels = [], []
    nexh = 0
    for (f, t), o in zip(symlist, symobs):
        groups = [("TLC boundary case", gen.get((f, o["nw"], o["nh"]), [])), ("enumerated / seeded size", python_cases(ctx, rng, f, t, o["nw"], o["nh"]))]
        for label, cases in groups:
            if (f, t) in (QR1, EAN8) and label.startswith("enumerated"):
                nexh += len(cases)
            cases = sorted(set(cases))
            step = 120 if o["nw"] * o["nh"] < 900 else 30        # short traces for big symbols: finer shard cuts
            for i in range(0, len(cases), step):
                tr = [ev("sym", f, t)]
                for rw, rh, m in cases[i:i + step]:
                    tr.append(ev("render", f, t, rw, rh, m, mstr=1 if (m >= 0 and (rw + rh + m) % 7 == 0) else 0))
                traces.append(tr)
                labels.append(label)
    judge(ctx, traces, labels)
    ctx.exhaustive = False
    ctx.extra["exhaustive_scope"] = ("QR version 1 and EAN-8: every requested size of the small ranges (%d renderings); "
                                     "other writers: TLC boundary cases + seeded sizes up to 8 x natural" % nexh)
    return vlib.finish(ctx, rule="one case = one Writer.Encode call (format, contents, requested width x height, margin hint, hint "
                       "type); sym events (module matrices) are not counted as non-trivial. Requested sizes: exhaustive small "
                       "squares for QR v1 / EAN-8 / small Data Matrix, TLC-computed sizes on, below and above every multiple of "
                       "(n+q), seeded sizes up to 8 x natural",
                       assumptions=["requested sizes >= 0 and margin hints 0..20 (or none); without a hint the documented defaults "
                                    "apply (QR 4 modules per side, UPC/EAN 9 and other 1-D writers 10 modules shared)",
                                    "the module matrix is the encoder output (QR: Encoder_encode at level L; Data Matrix / 1-D: the "
                                    "0x0, margin-0 rendering)"],
                       trusted=["TLC", "spec/Render.tla", "harness/c14 projection (image.Image view -> run-length rows)"])


def replay(ctx, path):
    r = json.load(open(path))
    judge(ctx, [r["inputs"]], ["replay"])
    return vlib.finish(ctx, rule="replay of one rendering")
