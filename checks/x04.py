"""X04 (beyond the listed properties) - common.BitSource, the bit cursor under the QR and Data Matrix bit-stream parsers.
spec/BitSource.tla states it with ONE bit position; MC_BitSource lets TLC take every sequence of reads (n in 0..33) over a few
byte strings and proves the prefix law (the delivered bits are exactly the string's prefix up to the cursor), the split law, the
refusal law and append-only history; Trace_BitSource judges recorded calls on the real object: a sweep that reaches every bit
position of a 9-byte string and asks for every n in -1..34 there, plus seeded random read sequences up to exhaustion."""
import json, random
import vlib


def sweep(rng):
    evs = []
    for p in range(0, 73):
        for n in range(-1, 35):
            b = [rng.randrange(256) for _ in range(9)]
            evs.append(dict(op="new", bytes=b, n=0))
            q = p
            while q > 0:                      # reach position p by reads of uneven sizes
                k = min(q, rng.choice([1, 3, 7, 8, 9, 13, 16, 17, 24, 31, 32]))
                evs.append(dict(op="read", bytes=[], n=k)); q -= k
            evs.append(dict(op="read", bytes=[], n=n))
            evs.append(dict(op="read", bytes=[], n=rng.randint(1, 8)))     # and the cursor is still sound afterwards
    return evs


def randoms(rng, count):
    evs = []
    for _ in range(count):
        ln = rng.choice([0, 1, 2, 3, 4, 5, 8, 16, 33])
        style = rng.random()
        b = [rng.choice([0, 255, 128, 1]) if style < 0.3 else rng.randrange(256) for _ in range(ln)]
        evs.append(dict(op="new", bytes=b, n=0))
        for _ in range(rng.randint(1, 30)):
            n = rng.choice([0, -3, 33, 40]) if rng.random() < 0.08 else rng.randint(1, 32)
            evs.append(dict(op="read", bytes=[], n=n))
    return evs


def run(ctx, inputs=None, label="bit source"):
    if inputs is None:
        res = vlib.run_tlc(ctx, "MC_BitSource", "MC_BitSource", workers=vlib.NCPU, timeout=900)
        ctx.note("MC_BitSource: %d states, %d distinct: prefix, split, refusal laws and append-only history hold" % (res.generated, res.distinct))
        rng = random.Random(ctx.seed * 7919 + (1 if ctx.quick else 2))
        inputs = (sweep(rng) if not ctx.quick else sweep(rng)[:6000]) + randoms(rng, 300 if ctx.quick else 6000)
        while inputs and inputs[0]["op"] != "new":
            inputs.pop(0)
    obs = vlib.drive(ctx, "x04", inputs, timeout=1200)
    starts = [i for i, e in enumerate(inputs) if e["op"] == "new"]
    bad = validate(ctx, obs, starts)
    ctx.traces += len(starts)
    for o in obs:
        if o["op"] == "read":
            ctx.count_case((o["n"], o["bo"], o["bi"], o["err"]))
    import bisect
    for gi, ent in bad:
        s = starts[bisect.bisect_right(starts, gi) - 1]
        o = obs[gi]
        vlib.reject(ctx, dict(op=o["op"], n=o["n"], why=ent[1], bo=o["bo"], bi=o["bi"]),
                    "%s: ReadBits(%d) -> err=%d hi=%d lo=%d, then byteOffset=%d bitOffset=%d available=%d: %s not what BitSource.tla defines" % (
                        label, o["n"], o["err"], o["hi"], o["lo"], o["bo"], o["bi"], o["av"], ent[1]), replay_events=inputs[s:gi + 1])
    ctx.exhaustive = False
    return vlib.finish(ctx, rule="one case = one ReadBits call (n, cursor before, outcome); answer and cursor compared with the model",
                       assumptions=["a 64-bit int (the answer of a 32-bit read is non-negative)"], trusted=["TLC", "spec/BitSource.tla"])


def validate(ctx, obs, starts):
    """shards cut at "new" events (each history is self-contained)"""
    n = vlib.NCPU
    target = max(1, (len(obs) + n - 1) // n)
    cuts, last = [0], 0
    for s in starts[1:]:
        if s - last >= target:
            cuts.append(s); last = s
    cuts.append(len(obs))
    bad = []
    import concurrent.futures
    def one(k):
        a, b = cuts[k], cuts[k + 1]
        return [(a + gi, ent) for gi, ent in vlib.validate(ctx, "Trace_BitSource", obs[a:b], shards=1, stateless=False, timeout=1500)]
    with concurrent.futures.ThreadPoolExecutor(max_workers=n) as ex:
        for r in ex.map(one, range(len(cuts) - 1)):
            bad.extend(r)
    return bad


def replay(ctx, path):
    r = json.load(open(path))
    return run(ctx, inputs=r["inputs"], label="replay")
