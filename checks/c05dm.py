"""Data Matrix half of C05: fault scripts in the standard's block / codeword coordinates, placed through TLC's Annex F map."""
import random
import vlib, dmlib


def dm_maps(ctx, idx):
    res = vlib.run_tlc(ctx, "Gen_DMPos", "Gen_DMPos", workers=min(vlib.NCPU, len(idx)), timeout=1500,
                       consts={"Is": "{" + ", ".join(map(str, idx)) + "}"})
    maps = {m["i"]: m for m in vlib.tlc_printed(res)}
    if set(maps) != set(idx):
        raise vlib.Infra("Gen_DMPos returned %s, wanted %s\n%s" % (sorted(maps), idx, res.out[-1500:]))
    for m in maps.values():       # invert the map: (codeword, bit) -> symbol coordinates; Trace_DM re-checks every flip through the map
        t = m["t"]; rh, rw = t[4], t[5]
        inv = {}
        for my, row in enumerate(m["map"]):
            for mx, v in enumerate(row):
                if v >= 10:
                    inv[(v // 10, v % 10)] = [(mx // rw) * (rw + 2) + mx % rw + 1, (my // rh) * (rh + 2) + my % rh + 1]
        m["inv"] = inv
    return maps


def mkset(m, faults):
    flip = []
    for b, i, x in faults:
        cw = m["blocks"][b - 1][i - 1]
        for bit in range(1, 9):
            if (x >> (8 - bit)) & 1:
                flip.append(m["inv"][(cw, bit)])
    return dict(faults=[list(f) for f in faults], flip=flip)


def full(rng, m, style, extra=None):
    fs = []
    for b, idx in enumerate(m["blocks"], 1):
        k = m["cap"] + (1 if extra == b else 0)
        for i in rng.sample(range(1, len(idx) + 1), min(k, len(idx))):
            fs.append((b, i, 1 if style == 0 else 255 if style == 1 else rng.randint(1, 255)))
    return fs


def run_dm(ctx):
    rng = random.Random(ctx.seed * 29 + 11)
    idx = list(range(1, 31))
    maps = dm_maps(ctx, idx)
    ev = []
    for i in idx:
        m = maps[i]; t = m["t"]
        h, w, cap = t[0], t[1], t[2]
        shape = 2 if h != w else 1
        # small symbols get several different payloads: a decoder slip that mis-reads one module only costs a codeword when the
        # payload makes the two modules differ, and then only shows when the rest of the capacity is used up
        for rep in range(4 if cap <= 50 else 1):
            n = max(1, rng.choice([cap // 2, cap - 2, cap // 3 + 1]))
            text = [rng.choice(b"ABCDEFGHIJKLMNOPQRSTUVWXYZ0123456789 abcdef.,") for _ in range(n)]
            sets = []
            allpos = [(b, k) for b, ix in enumerate(m["blocks"], 1) for k in range(1, len(ix) + 1)]
            step = 1 if (not ctx.quick or len(allpos) <= 500) else 5
            if rep == 0:
                for (b, k) in allpos[rng.randrange(step)::step]:          # every codeword position of every block, single fault
                    sets.append(mkset(m, [(b, k, rng.choice([1, 128, 255, rng.randint(1, 255)]))]))
            for style in range((3 if cap > 100 else 8) if ctx.quick else 12):   # floor(ec/2) faults in every block at once
                sets.append(mkset(m, full(rng, m, style % 3)))
            sets.append(mkset(m, full(rng, m, 2, extra=rng.randint(1, len(m["blocks"])))))   # one beyond capacity: error or right text
            if rep == 0 and m["cap"] >= 2:      # damage within capacity aimed at decoder shortcuts (gfaim), in one block
                import gfaim
                b = rng.randint(1, len(m["blocks"]))
                nb = len(m["blocks"][b - 1])
                r = (sum(len(ix) for ix in m["blocks"]) - cap) // len(m["blocks"])
                for _, errs in gfaim.patterns(2, 256, 1, nb, r, rng):
                    sets.append(mkset(m, [(b, p + 1, x) for p, x in errs]))
            ev.append(dict(op="dmg", text=text, utf=0, shape=shape, mn=[w, h], mx=[w, h], size=i, sets=sets, tag="blocks"))
    obs = dmlib.judge(ctx, ev, "C05 Data Matrix damage")
    ctx.extra["dm_fault_scripts"] = sum(len(o.get("sets", ())) for o in obs)
    for o in obs:
        for st in o.get("sets", ()):
            ctx.count_case(("dmset", o["size"], tuple(map(tuple, st["faults"][:6])), len(st["faults"])))
