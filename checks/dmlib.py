"""Shared workload builders / judging for the Data Matrix family (C02, C05, C08, C13): spec/DMTables, DMPlacement, DMHL, Trace_DM."""
import concurrent.futures, json, random
import vlib

# ISO/IEC 16022 Table 7 sizes as (rows, cols, data codewords) - only used to SHAPE workloads (which lengths to try);
# every expectation is recomputed by TLC from spec/DMTables.tla.
SIZES = [(10, 10, 3), (12, 12, 5), (14, 14, 8), (16, 16, 12), (18, 18, 18), (20, 20, 22), (22, 22, 30), (24, 24, 36), (26, 26, 44),
         (32, 32, 62), (36, 36, 86), (40, 40, 114), (44, 44, 144), (48, 48, 174), (52, 52, 204), (64, 64, 280), (72, 72, 368),
         (80, 80, 456), (88, 88, 576), (96, 96, 696), (104, 104, 816), (120, 120, 1050), (132, 132, 1304), (144, 144, 1558),
         (8, 18, 5), (8, 32, 10), (12, 26, 16), (12, 36, 22), (16, 36, 32), (16, 48, 49)]
MAPS = [(8, 8), (10, 10), (12, 12), (14, 14), (16, 16), (18, 18), (20, 20), (22, 22), (24, 24), (28, 28), (32, 32), (36, 36), (40, 40),
        (44, 44), (48, 48), (56, 56), (64, 64), (72, 72), (80, 80), (88, 88), (96, 96), (108, 108), (120, 120), (132, 132),
        (6, 16), (6, 28), (10, 24), (10, 32), (14, 32), (14, 44)]


def cost(o):
    op = o["op"]
    if op in ("sym", "dmg"):
        return max(o.get("w", 10), 10) * max(o.get("h", 10), 10) * 3 + 20 * sum(len(s["flip"]) + 4 for s in o.get("sets", ()))
    if op == "place":
        return o["nr"] * o["nc"] * 3
    if op == "ecc":
        return 20 * len(o.get("data", ())) + 100
    if op == "hl":
        return 300 + 40 * len(o.get("text", ()))
    return 50


def size_key(o):
    return (o.get("h", 0), o.get("w", 0), o.get("nr", 0), o.get("nc", 0))


def validate_balanced(ctx, obs, timeout=14000, nshards=None):
    n = min(nshards or vlib.NCPU, max(1, len(obs)))
    order = sorted(range(len(obs)), key=lambda i: -cost(obs[i]))
    loads, shards = [0] * n, [[] for _ in range(n)]
    for i in order:
        k = loads.index(min(loads))
        shards[k].append(i); loads[k] += cost(obs[i])
    for s in shards:
        s.sort(key=lambda i: (size_key(obs[i]), i))
    out = []

    def one(s):
        if not s:
            return []
        return [(s[gi], ent) for gi, ent in vlib.validate(ctx, "Trace_DM", [obs[i] for i in s], shards=1, timeout=timeout)]
    with concurrent.futures.ThreadPoolExecutor(max_workers=n) as ex:
        for r in ex.map(one, shards):
            out.extend(r)
    return sorted(out)


FLAGS = {"sym": ["symbol produced / size known", "codeword count / padding / symbol is the first admissible one under the hints", "matrix == reference"], "ecc": ["codewords with parity"],
         "place": ["placement"], "lookup": ["symbol choice / attributes"], "decver": ["decoder size table: the 30 ECC 200 entries", "decoder size table: additional (DMRE) entries consistent"],
         "dmg": ["symbol as requested", "fault scripts: within capacity => decoded text unchanged"],
         "hl": ["terminates without panic", "refusal only when it does not fit", "codewords == reference encodation", "decode(codewords) == text", "read(image) == text"],
         "la": ["look-ahead result"]}


def judge(ctx, inputs, label, preds=None, annotate=None):
    if not inputs:
        return []
    for i, e in enumerate(inputs):
        e["id"] = i
        e.setdefault("tag", "")
    obs = vlib.drive(ctx, "dm", inputs, timeout=3000)
    bad = validate_balanced(ctx, obs)
    ctx.traces += 1
    for o in obs:
        key = (o["op"], tuple(o.get("text", ())[:64]), len(o.get("text", ())), o.get("shape"), tuple(o.get("mn", ())), tuple(o.get("mx", ())),
               o.get("n"), o.get("nr"), o.get("nc"), len(o.get("data", ())), o.get("w"), o.get("h"), tuple(o.get("img", ())))
        ctx.count_case(key)
    if annotate and bad:
        annotate(ctx, [obs[gi] for gi, _ in bad])
    for gi, ent in bad:
        o = obs[gi]
        names = FLAGS.get(o["op"], [])
        failed = [names[k] if k < len(names) else "flag%d" % k for k, f in enumerate(ent[2]) if f == 0]
        ev = {k: v for k, v in o.items() if k not in ("rows", "sets")}
        ev["failed"] = failed
        vlib.reject(ctx, ev, "%s: %s rejected by Trace_DM: %s (text len=%s size=%sx%s shape=%s mn=%s mx=%s)" % (
            label, o["op"], ", ".join(failed), len(o.get("text", ())), o.get("h"), o.get("w"), o.get("shape"), o.get("mn"), o.get("mx")),
            replay_events=[inputs[gi]], preds=preds)
    mid = obs[len(obs) // 2]
    ctx.sample(dict(kind=label, event={k: (v if not isinstance(v, list) or len(v) < 24 else v[:24] + ["..."]) for k, v in mid.items() if k not in ("rows", "sets")}))
    return obs


def replay(ctx, path, preds=None, annotate=None):
    r = json.load(open(path))
    judge(ctx, r["inputs"], "replay", preds=preds, annotate=annotate)
    return vlib.finish(ctx, rule="replay of recorded inputs")


def sym(text, shape=0, mn=(), mx=(), tag=""):
    return dict(op="sym", text=list(text), utf=0, shape=shape, mn=list(mn), mx=list(mx), tag=tag)
