"""C13 - smallest adequate symbol: QR version = min{v : fits} from the standard's formulae (every capacity boundary,
forced versions used or refused, > version 40 refused).  Data Matrix size choice: see dmlib / Trace_DM (added by c08)."""
import random
import vlib, qrlib, dmlib

MODES = ["num", "alnum", "byte", "kanji"]
CHAR = {"num": [55], "alnum": [ord("K")], "byte": [ord("a")], "kanji": list("亜".encode("utf-8"))}


def encn(mode, n, ec, vh=0):
    return dict(op="encn", text=CHAR[mode], n=n, ec=ec, vh=vh, cs="Shift_JIS" if mode == "kanji" else "", tag=mode)


def qr_events(ctx, g):
    rng = random.Random(ctx.seed)
    ev = []
    for v in range(1, 41):
        for ec in range(1, 5):
            for mi, mode in enumerate(MODES):
                cap = g["caps"][v - 1][ec - 1][mi]
                ev.append(encn(mode, cap, ec))            # must choose v
                ev.append(encn(mode, cap + 1, ec))        # must choose v+1 (or refuse beyond 40)
                ev.append(encn(mode, cap, ec, vh=v))      # forced: used exactly
                ev.append(encn(mode, cap + 1, ec, vh=v))  # forced: refused
                if v > 1 and (v + ec + mi + ctx.seed) % 3 == 0:
                    ev.append(encn(mode, rng.randint(1, cap), ec, vh=v))
    ev.append(encn("num", 1, 1, vh=41)); ev.append(encn("num", 1, 1, vh=400))
    if not ctx.quick:   # every length for 8 (mode, level) pairs
        for mode, ec in (("num", 1), ("num", 4), ("alnum", 1), ("alnum", 4), ("byte", 2), ("kanji", 3), ("byte", 1), ("kanji", 1)):
            mi = MODES.index(mode)
            for n in range(1, g["caps"][39][ec - 1][mi] + 3):
                ev.append(encn(mode, n, ec))
    # real texts at the boundaries with mixed content (full enc events, outcome only)
    for v in ([1, 2, 9, 10, 26, 27, 39, 40] if ctx.quick else range(1, 41)):
        for ec in range(1, 5):
            mode = MODES[(v + ec + ctx.seed) % 4]
            cap = g["caps"][v - 1][ec - 1][MODES.index(mode)]
            for n in (cap, cap + 1):
                t, cs = qrlib.text_of(mode, n, rng)
                ev.append(qrlib.enc(t, ec, cs=cs, chk=0, dec=0, tag="boundary"))
    return ev


def dm_events(ctx):
    """Data Matrix symbol choice: SymbolInfo_Lookup(n, shape, min, max) must be the first admissible size in capacity order"""
    rng = random.Random(ctx.seed * 7 + 2)
    dims = [(w, h) for (h, w, n) in dmlib.SIZES]
    pairs = [((), ())] + [((), d) for d in dims] + [(d, ()) for d in dims[::3]]
    for _ in range(40 if ctx.quick else 300):
        a, b = rng.choice(dims), rng.choice(dims)
        pairs.append((a, b))
    pairs += [((1, 1), (200, 200)), ((), (7, 7)), ((145, 145), ()), ((), (17, 9)), ((), (18, 7)), ((20, 10), (40, 12))]
    # boxes that are not on the size list: taller than wide, very flat, one side huge (the filter compares width with width and height with height)
    pairs += [((), (16, 48)), ((), (12, 100)), ((), (24, 1000)), ((), (1000, 12)), ((), (48, 17)), ((8, 20), ()), ((30, 9), ()), ((9, 30), (60, 60)),
              ((), (26, 40)), ((), (40, 26)), ((11, 11), (143, 143)), ((), (rng.randint(8, 150), rng.randint(8, 150))), ((rng.randint(1, 60), rng.randint(1, 60)), ())]
    ns = sorted({n + d for (_, _, n) in dmlib.SIZES for d in (-1, 0, 1)} | {1, 2, 1559, 1560, 3000})
    if not ctx.quick:
        ns = list(range(1, 1561))
    ev = []
    for pi, (mn, mx) in enumerate(pairs):
        for shape in (0, 1, 2):
            for n in (ns if (ctx.quick or pi < 40) else ns[pi % 7::7]):
                if n >= 1:
                    ev.append(dict(op="lookup", n=n, shape=shape, mn=list(mn), mx=list(mx)))
    # the writer end to end: digit strings of every small codeword count with size hints but WITHOUT a shape hint (equal-capacity
    # pairs 12x12 / 8x18 and 20x20 / 12x36 are only told apart by the hints)
    hints = [((), (18, 8)), ((16, 8), ()), ((), (36, 12)), ((), (32, 8)), ((), (26, 12)), ((), (48, 16)), ((13, 13), ()), ((), (12, 12)),
             ((), (20, 20)), ((19, 9), (40, 14)), ((), (16, 16)), ((10, 10), (18, 18)), ((), ())]
    for mn, mx in hints:
        for k in ([1, 3, 5, 6, 8, 10, 12, 16, 18, 22, 23, 30, 32] if ctx.quick else range(1, 50)):
            ev.append(dmlib.sym([48 + (i % 10) for i in range(2 * k)], shape=0, mn=mn, mx=mx, tag="choice"))
    return ev


def run(ctx):
    # design level: the two-pass recommendation equals the definitional minimum for every length (MC_QR c13 cases)
    res = vlib.run_tlc(ctx, "MC_QR", "MC_QR_c13" if ctx.quick else "MC_QR_c13_thorough", workers=vlib.NCPU, timeout=3000)
    ctx.note("MC_QR (C13 cases): %d states: Recommend(two-pass) = MinVersion for every character count 0..cap(40)+3" % res.generated)
    g = qrlib.gen_caps(ctx)
    qrlib.judge(ctx, qr_events(ctx, g), "C13 QR version choice")
    res = vlib.run_tlc(ctx, "MC_DM", "MC_DM", workers=vlib.NCPU, timeout=1500)
    ctx.note("MC_DM: %d states: Table 7 laws, capacity order is strictly increasing, 144x144 holds 1558 codewords" % res.generated)
    dmlib.judge(ctx, dm_events(ctx), "C13 Data Matrix symbol choice")
    ctx.exhaustive = not ctx.quick
    return vlib.finish(ctx, rule="one case = one encode request (mode, length, level, forced version); quick: every capacity boundary "
                       "cap(v), cap(v)+1 of all 160 (version, level) pairs x 4 modes, free and forced; thorough adds every length "
                       "1..cap(40)+2 for 8 (mode, level) pairs",
                       assumptions=[],
                       trusted=["TLC", "spec/QRTables.tla (capacity formulae and Table 9 of ISO/IEC 18004, self-checked by MC_QR)"])


def replay(ctx, path):
    import json
    r = json.load(open(path))
    return (dmlib if r["inputs"][0].get("op") == "lookup" else qrlib).replay(ctx, path)
