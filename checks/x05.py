"""X05 (beyond the listed properties) - ResultPoint_OrderBestPatterns, the step that names a QR Code's three finder patterns
bottom-left / top-left / top-right (also used for every candidate triple in the multi-QR detector).
spec/Points.tla gives the declarative law (a rearrangement; B opposite a longest side; positive turn) and the procedure as a
refinement; MC_Points proves on every triple of a 5 x 5 grid that the procedure satisfies the law, that the law fixes the answer
for generic triples (order of discovery is irrelevant) and that an upright L is named correctly; Trace_Points judges the real
function on EVERY triple of the 5 x 5 grid (15 625 calls, all degenerate cases included) and on seeded far-apart, nearly
isosceles and collinear triples."""
import itertools, json, random
import vlib


def run(ctx, inputs=None, label="order patterns"):
    if inputs is None:
        res = vlib.run_tlc(ctx, "MC_Points", "MC_Points", workers=vlib.NCPU, timeout=900)
        ctx.note("MC_Points: %d states: procedure refines the law; generic triples have exactly one allowed answer" % res.generated)
        rng = random.Random(ctx.seed * 104729 + (1 if ctx.quick else 2))
        grid = [[x, y] for x in range(5) for y in range(5)]
        inputs = [dict(op="order", p=[a, b, c]) for a, b, c in itertools.product(grid, repeat=3)]
        for _ in range(3000 if ctx.quick else 60000):
            k = rng.random()
            if k < 0.4:      # anywhere, also negative
                p = [[rng.randint(-900, 900), rng.randint(-900, 900)] for _ in range(3)]
            elif k < 0.7:    # nearly isosceles: two sides differ by one unit of squared length at most
                a = [rng.randint(-300, 300), rng.randint(-300, 300)]
                dx, dy = rng.randint(1, 200), rng.randint(0, 200)
                p = [a, [a[0] + dx, a[1] + dy], [a[0] - dy + rng.choice([0, 0, 1, -1]), a[1] + dx + rng.choice([0, 0, 1, -1])]]
                rng.shuffle(p)
            elif k < 0.85:   # collinear or nearly
                a = [rng.randint(-300, 300), rng.randint(-300, 300)]
                dx, dy = rng.randint(-20, 20), rng.randint(-20, 20)
                s, t = rng.randint(-15, 15), rng.randint(-15, 15)
                p = [a, [a[0] + s * dx, a[1] + s * dy], [a[0] + t * dx + rng.choice([0, 0, 1]), a[1] + t * dy]]
            else:            # a rotated, scaled L as a detector sees it
                a = [rng.randint(-200, 200), rng.randint(-200, 200)]
                ux, uy = rng.randint(-150, 150), rng.randint(-150, 150)
                p = [a, [a[0] + ux, a[1] + uy], [a[0] - uy, a[1] + ux]]
                rng.shuffle(p)
            inputs.append(dict(op="order", p=p))
    obs = vlib.drive(ctx, "x05", inputs, timeout=1200)
    bad = vlib.validate(ctx, "Trace_Points", obs, stateless=True, timeout=1500)
    ctx.traces += 1
    for o in obs:
        ctx.count_case(json.dumps(o["p"]))
    for gi, ent in bad:
        o = obs[gi]
        vlib.reject(ctx, dict(op="order", p=o["p"], why=ent[1]), "%s: OrderBestPatterns(%s) -> %s: %s" % (label, o["p"], o["o"], ent[1]), replay_events=inputs[gi:gi + 1])
    ctx.exhaustive = False
    return vlib.finish(ctx, rule="one case = one triple of integer points; the answer must satisfy Points.OrderOK",
                       assumptions=["integer-valued coordinates of magnitude < 1000 (float distance comparisons are then exact)"],
                       trusted=["TLC", "spec/Points.tla"])


def replay(ctx, path):
    r = json.load(open(path))
    return run(ctx, inputs=r["inputs"], label="replay")
