"""Shared workload builders / judging for the QR family (C01, C05, C07, C13): spec/QRTables, QRSymbol, QRStream, Trace_QR."""
import concurrent.futures, json, random
import vlib

ALNUM = "0123456789ABCDEFGHIJKLMNOPQRSTUVWXYZ $%*+-./:"
# characters of JIS X 0208 (double-byte in Shift_JIS): range edges 0x8140 (U+3000), 0x9FFC (U+6ECC), 0xE040 (U+6F3E),
# hiragana / katakana, first level-1 kanji, last level-2 kanji (0xEA9F..0xEAA4)
KANJI = "　滌漾あいんアン亜唖娃阿哀愛日本語堯槇遙瑤凜熙"
UTF8_EXTRA = ["é", "ß", "€", "あ", "世", "\U0001f600", "Ж", "\U00020bb7", "\U0002b820"]   # incl. 4-byte sequences whose bytes are all >= 0xA0


def gen_caps(ctx):
    res = vlib.run_tlc(ctx, "Gen_QR", "Gen_QR", workers=1, timeout=300)
    out = vlib.tlc_printed(res)
    if not out:
        raise vlib.Infra("Gen_QR printed nothing:\n" + res.out[-2000:])
    return out[0]


def text_of(mode, n, rng):
    """a text with exactly n characters (bytes for byte mode) that selects `mode`; returns (utf8 byte list, cs hint)"""
    if mode == "num":
        return [48 + rng.randrange(10) for _ in range(n)], ""
    if mode == "alnum":
        t = [ord(rng.choice(ALNUM)) for _ in range(n)]
        if n and all(48 <= c <= 57 for c in t):
            t[rng.randrange(n)] = ord("A")
        return t, ""
    if mode == "kanji":
        return list("".join(rng.choice(KANJI) for _ in range(n)).encode("utf-8")), "Shift_JIS"
    # byte mode: n UTF-8 bytes, not purely alphanumeric
    out = bytearray()
    while len(out) < n:
        left = n - len(out)
        c = rng.choice(UTF8_EXTRA).encode("utf-8") if rng.random() < 0.15 else bytes([rng.choice(b"abcdefghijklmnopqrstuvwxyz ,.;!?#&()")])
        if len(c) <= left:
            out += c
    if n and all(chr(c) in ALNUM for c in out):
        out[0] = ord("a")
    return list(out), ""


def enc(text, ec, vh=0, mh=-1, cs="", gs1=0, img=(), dec=0, chk=1, tag=""):
    return dict(op="enc", text=list(text), ec=ec, vh=vh, mh=mh, cs=cs, gs1=gs1, img=list(img), dec=dec, chk=chk, flip=[], tag=tag)


def cost(o):
    if o["op"] == "enc":
        return (17 + 4 * max(o.get("v", 1), 1)) ** 2 if (o.get("chk") and not o.get("err")) else 40 + len(o.get("text", ())) // 4
    if o["op"] == "build":
        return (17 + 4 * o["v"]) ** 2
    if o["op"] == "dmg":
        return (17 + 4 * max(o.get("v", 1), 1)) ** 2 // 2 + 12 * sum(len(s["flip"]) + 4 for s in o.get("sets", ()))
    return 30


def validate_balanced(ctx, module, obs, timeout=14000, nshards=None):
    """stateless events: longest-processing-time assignment to shards, each shard sorted by version (cache locality)"""
    n = min(nshards or vlib.NCPU, max(1, len(obs)))
    order = sorted(range(len(obs)), key=lambda i: -cost(obs[i]))
    loads, shards = [0] * n, [[] for _ in range(n)]
    for i in order:
        k = loads.index(min(loads))
        shards[k].append(i); loads[k] += cost(obs[i])
    for s in shards:
        s.sort(key=lambda i: (obs[i].get("v", 0), i))
    out = []

    def one(s):
        if not s:
            return []
        return [(s[gi], ent) for gi, ent in vlib.validate(ctx, module, [obs[i] for i in s], shards=1, timeout=timeout)]
    with concurrent.futures.ThreadPoolExecutor(max_workers=n) as ex:
        for r in ex.map(one, shards):
            out.extend(r)
    return sorted(out)


FLAGS = {"enc": ["outcome(version/mode/level/refusal)", "mask / earlier result unchanged", "matrix==reference", "decode(matrix)==text", "read(image)==text"],
         "dmg": ["symbol as requested", "fault scripts: within capacity => decoded text unchanged"],
         "encn": ["version choice / refusal"],
         "tables": ["totals", "alignment centres", "block counts", "block groups", "count widths"],
         "fmt": ["format BCH"], "ver": ["version BCH"], "build": ["placement"]}


def judge(ctx, inputs, label):
    if not inputs:
        return []
    for i, e in enumerate(inputs):
        e["id"] = i
    obs = vlib.drive(ctx, "qr", inputs, timeout=3000)
    for o in obs:
        if o["op"] == "enc" and not o.get("chk"):
            o["rows"] = []
    bad = validate_balanced(ctx, "Trace_QR", obs)
    ctx.traces += 1
    for o in obs:
        key = (o["op"], o.get("ec"), o.get("v"), o.get("mask"), o.get("mode"), len(o.get("text", ())), o.get("vh"), o.get("cs"),
               tuple(o.get("img", ())), o.get("w1"), o.get("w2"), o.get("chk"), o.get("dec"))
        ctx.count_case(key)
    for gi, ent in bad:
        o = obs[gi]
        failed = [FLAGS[o["op"]][k] for k, f in enumerate(ent[2]) if f == 0]
        ev = {k: v for k, v in o.items() if k not in ("rows", "sets")}
        ev["failed"] = failed
        vlib.reject(ctx, ev, "%s: %s rejected by Trace_QR: %s (v=%s ec=%s mask=%s mode=%s len=%s err=%s)" % (
            label, o["op"], ", ".join(failed), o.get("v"), o.get("ec"), o.get("mask"), o.get("mode"), len(o.get("text", ())), o.get("err")),
            replay_events=[inputs[gi]])
    mid = obs[len(obs) // 2]
    ctx.sample(dict(kind=label, event={k: (v if not isinstance(v, list) or len(v) < 24 else v[:24] + ["..."]) for k, v in mid.items() if k not in ("rows", "sets")}))
    return obs


def replay(ctx, path):
    r = json.load(open(path))
    judge(ctx, r["inputs"], "replay")
    return vlib.finish(ctx, rule="replay of recorded inputs")
