"""C15 - character sets and ECI: text survives in every supported encoding.
spec/Charset.tla (ECI registry, designator, charset guess as a fold, QR mode / designator / segment-charset rules),
spec/MC_Charset (design checks: guess laws over all byte-class strings, designator and lookup laws over 0..999999,
case generation), spec/Trace_Charset (validation of registry lookups, guesses, QR write->read round trips and
bit-stream parses of the real code)."""
import json, random, concurrent.futures
import vlib

BLANK = dict(op="", name="", hint="", gs1=0, hmut=0, cs="", text=[], bytes=[], stream=[], eci=-1, lo=0, n=0, enc=[], rep=0, dec=[], decok=0,
             found=0, oname="", oval=0, hits=[], nnone=0, nerr=0, werr=0, rerr=0, otext=[], head=[], segs=[], guess="",
             err=0, panic=0, msg="")
ALPHABET = "{65, 195, 227, 240, 128, 149, 169, 254}"
ALPHABET_THOROUGH = "{65, 195, 227, 240, 128, 149, 169, 254, 255, 237}"


_N = [0]


def ev(op, **kw):
    if op == "qr" and kw.get("hint"):        # every third hinted write also carries a GS1_FORMAT hint that says "no"
        _N[0] += 1
        if _N[0] % 3 == 0:
            kw.setdefault("gs1", 1 + (_N[0] // 3) % 2)
    return dict(BLANK, op=op, **kw)


def design(ctx):
    """TLC: laws of the guess over all class strings (and the strings themselves), laws of designator / lookup, registry dump"""
    maxlen = 5 if ctx.quick else 6
    alphabet = ALPHABET if ctx.quick else ALPHABET_THOROUGH
    r1 = vlib.run_tlc(ctx, "MC_Charset", "MC_Charset", workers=8 if ctx.quick else vlib.NCPU, timeout=1700,
                      consts=dict(MaxLen=maxlen, Alphabet=alphabet))
    strings = vlib.tlc_printed(r1)
    if not strings:
        raise vlib.Infra("MC_Charset emitted no strings:\n" + r1.out[-2000:])
    ctx.note("MC_Charset/guess: all %d byte strings of length <= %d over %d class representatives (%d states): well-formed "
             "non-ASCII UTF-8 is always guessed UTF-8, ASCII is guessed ASCII-transparent, designator/hint never re-guessed"
             % (len(strings), maxlen, alphabet.count(",") + 1, r1.distinct))
    r2 = vlib.run_tlc(ctx, "MC_Charset", "MC_CharsetECI", workers=8, timeout=1500)
    reg = [x for x in vlib.tlc_printed(r2) if isinstance(x, list)]
    if not reg:
        raise vlib.Infra("MC_CharsetECI emitted no registry:\n" + r2.out[-2000:])
    ctx.note("MC_Charset/eci: registry consistent (22 entries, 25 numbers); for every ECI number 0..999999 (%d blocks): designator "
             "parses back with the prescribed length, lookup = entry | nothing | format error (>= 900)" % r2.distinct)
    return strings, reg[0]


def data_events(ctx, events):
    """harness calls that only attach x/text data (tables, stability of byte strings)"""
    return vlib.drive(ctx, "c15", events) if events else []


def mb_candidates(rng, cs, n):
    out = []
    for _ in range(n):
        if cs == "Shift_JIS":
            b = [rng.choice(list(range(0x81, 0xA0)) + list(range(0xE0, 0xEB))), rng.choice(list(range(0x40, 0x7F)) + list(range(0x80, 0xFD)))]
        elif cs == "Big5":
            b = [rng.randrange(0xA1, 0xFA), rng.choice(list(range(0x40, 0x7F)) + list(range(0xA1, 0xFF)))]
        elif cs == "EUC-KR":
            b = [rng.randrange(0xA1, 0xFE), rng.randrange(0xA1, 0xFF)]
        elif cs == "GB18030":
            if rng.random() < 0.7:
                b = [rng.randrange(0x81, 0xFF), rng.choice(list(range(0x40, 0x7F)) + list(range(0x80, 0xFF)))]
            else:
                b = [rng.randrange(0x81, 0x85), rng.randrange(0x30, 0x3A), rng.randrange(0x81, 0xFF), rng.randrange(0x30, 0x3A)]
        out.append(b)
    if cs == "Shift_JIS":   # edges of the two Kanji-mode ranges (7.4.6: 8140..9FFC and E040..EBBF) and of JIS X 0208
        out += [[0x81, 0x40], [0x81, 0x41], [0x9F, 0xFC], [0x9F, 0xFB], [0xE0, 0x40], [0xE0, 0x41], [0xEA, 0xA4], [0xEA, 0xA3], [0x88, 0x9F], [0x98, 0x72], [0x98, 0x9F]]
    return out


def random_cps(rng, n):
    out = []
    for _ in range(n):
        r = rng.random()
        if r < 0.25:
            out.append(rng.randrange(0x20, 0x7F))
        elif r < 0.45:
            out.append(rng.randrange(0xA0, 0x800))
        elif r < 0.85:
            c = rng.randrange(0x800, 0x10000)
            while 0xD800 <= c <= 0xDFFF or c in (0xFFFE, 0xFFFF, 0xFEFF):
                c = rng.randrange(0x800, 0x10000)
            out.append(c)
        else:
            out.append(rng.randrange(0x10000, 0x110000))
    return out


def build_events(ctx, strings, registry):
    rng = random.Random(ctx.seed * 6151 + (1 if ctx.quick else 2))
    names = {r["name"]: [r["name"]] + list(r["aliases"]) for r in registry}
    kind = {r["name"]: r["kind"] for r in registry}
    sb = [n for n in names if kind[n] == "sb"]
    events = []
    # ---- registry
    for n, al in names.items():
        for a in al:
            events.append(ev("byname", name=a))
        events.append(ev("bycs", name=n))
    for a in ["", "FOO-8", "ISO-8859-6x", "utf-9"]:
        events.append(ev("byname", name=a))
    for lo in range(0, 1000000, 1000):
        events.append(ev("lookup", lo=lo, n=1000))
    events.append(ev("lookup", lo=-500, n=1000))
    # ---- guesses: every string TLC explored (thorough: all; quick: all of length <= 5)
    replayed = strings
    if len(strings) > 400000:           # thorough: every string up to length 4 and a seeded sample of the longer ones
        replayed = [s for s in strings if len(s["bytes"]) <= 4] + rng.sample([s for s in strings if len(s["bytes"]) > 4], 380000)
    for s in replayed:
        events.append(ev("guess", bytes=s["bytes"]))
    allal = [a for al in names.values() for a in al]
    for i, s in enumerate(rng.sample(strings, min(len(strings), 300))):
        events.append(ev("guess", bytes=s["bytes"], hint=rng.choice(allal)))
        if i % 5 == 0:                  # a byte-order mark in front does not outrank the caller's hint
            events.append(ev("guess", bytes=rng.choice([[0xFE, 0xFF], [0xFF, 0xFE], [0xEF, 0xBB, 0xBF]]) + s["bytes"][:6], hint=rng.choice(allal)))
    # ---- tables of the single-byte sets and stable byte strings of the multi-byte sets (x/text data)
    tabs = data_events(ctx, [ev("table", cs=n) for n in sb])
    table = {t["cs"]: t["dec"] for t in tabs}
    nmb = 400 if ctx.quick else 6000
    cand = [(cs, b) for cs in ("Shift_JIS", "Big5", "EUC-KR", "GB18030") for b in mb_candidates(rng, cs, nmb)]
    st = data_events(ctx, [ev("stable", cs=cs, bytes=b) for cs, b in cand])
    mbchars = {}
    for o in st:
        if o["decok"] and len(o["dec"]) == 1:
            mbchars.setdefault(o["cs"], []).append((o["dec"][0], o["bytes"]))
    # ---- QR round trips with a hint: every single-byte code point of every single-byte set
    foreign = [0x20AC, 0x3042, 0x0416, 0x00E9, 0x05D0, 0x0E01, 0x4E2D, 0x1F600, 0x0100]
    for n in sb:
        cps = [c for c in table[n] if c >= 0]
        al = names[n]
        step = 24
        for i in range(0, len(cps), step):
            events.append(ev("qr", hint=al[(i // step) % len(al)], cs=n, text=cps[i:i + step]))
        if not ctx.quick:                                                         # thorough: every code point also on its own
            for i, c in enumerate(cps):
                events.append(ev("qr", hint=al[i % len(al)], cs=n, text=[c]))
        reps = 6 if ctx.quick else 250
        for _ in range(reps):
            k = rng.choice([1, 2, 3, 7, 20, 60])
            high = [c for c in cps if c > 127] or cps
            txt = [rng.choice(high if rng.random() < 0.7 else cps) for _ in range(k)]
            events.append(ev("qr", hint=rng.choice(al), cs=n, text=txt))
        for c in [c for c in foreign if c not in cps][:3 if ctx.quick else 9]:       # not representable -> refused
            events.append(ev("qr", hint=rng.choice(al), cs=n, text=[rng.choice(cps), c, rng.choice(cps)]))
            events.append(ev("qr", hint=rng.choice(al), cs=n, text=[c]))
    # ---- multi-byte sets
    reps = 25 if ctx.quick else 1500
    for cs in ("Shift_JIS", "Big5", "EUC-KR", "GB18030"):
        chars = mbchars.get(cs, [])
        if not chars:
            raise vlib.Infra("no stable double-byte characters found for " + cs)
        for _ in range(reps):
            k = rng.choice([1, 2, 3, 5, 12, 30])
            txt = [rng.choice(chars)[0] for _ in range(k)]
            if rng.random() < 0.4:                                                  # mixed with ASCII (never Kanji mode)
                txt.insert(rng.randrange(len(txt) + 1), rng.randrange(0x21, 0x7F))
            events.append(ev("qr", hint=rng.choice(names[cs]), cs=cs, text=txt))
        for c in foreign[:3 if ctx.quick else 9]:
            events.append(ev("qr", hint=rng.choice(names[cs]), cs=cs, text=[c, rng.choice(chars)[0]]))
        if cs == "Shift_JIS":       # every range-edge character alone (Kanji mode) and between two others
            edges = [c for c in chars if c[1] in ([0x81, 0x40], [0x81, 0x41], [0x9F, 0xFC], [0x9F, 0xFB], [0xE0, 0x40], [0xE0, 0x41], [0xEA, 0xA4], [0xEA, 0xA3], [0x88, 0x9F], [0x98, 0x72], [0x98, 0x9F])]
            # long Kanji-mode texts: the character count field is 8 / 10 / 12 bits wide for versions 1-9 / 10-26 / 27-40
            for k in ([200, 1100] if ctx.quick else [60, 200, 600, 1023, 1024, 1100, 1500, 1817]):
                events.append(ev("qr", hint=names[cs][0], cs=cs, text=[rng.choice(chars)[0] for _ in range(k)]))
            for c in edges:
                events.append(ev("qr", hint=names[cs][0], cs=cs, text=[c[0]]))
                events.append(ev("qr", hint=names[cs][0], cs=cs, text=[rng.choice(chars)[0], c[0], rng.choice(chars)[0]]))
    for cs in ("UTF-8", "UTF-16BE"):
        for _ in range(reps):
            events.append(ev("qr", hint=rng.choice(names[cs]), cs=cs, text=random_cps(rng, rng.choice([1, 2, 5, 17, 40]))))
    for cs in names:                                                                # ASCII-only content under every hint
        for txt in ([0x31, 0x32, 0x33], [0x41, 0x42, 0x20, 0x39], [0x61, 0x62, 0x63, 0x21]):
            events.append(ev("qr", hint=rng.choice(names[cs]), cs=cs, text=txt))
    # ---- no hint: UTF-8 text decodes as itself
    for _ in range(150 if ctx.quick else 6000):
        events.append(ev("qr", cs="UTF-8", text=random_cps(rng, rng.choice([1, 2, 3, 6, 20, 50]))))
    special = [[0xE9], [0xE9, 0xE8], [0x30A2, 0x30A4], [0xFF71, 0xFF72], [0xFF71, 0xFF72, 0xFF73], [0x41, 0xE9, 0x42], [0xA1, 0xA2, 0xA3],
               [0x61] * 9 + [0xBF], [0x31, 0x32], [0x41, 0x42], [0x61, 0x62], [0xFEFF, 0x41, 0x42], [0x7F, 0x80], [0x10FFFF], [0xD7FF, 0xE000]]
    for t in special:
        events.append(ev("qr", cs="UTF-8", text=t))
    for s in strings:                                                               # TLC's well-formed class strings as texts
        if s["guess"] == "UTF-8" and len(s["bytes"]) >= 2 and rng.random() < (0.05 if ctx.quick else 0.02):
            try:
                t = bytes(s["bytes"]).decode("utf-8")
            except UnicodeDecodeError:
                continue
            events.append(ev("qr", cs="UTF-8", text=[ord(ch) for ch in t]))
    # ---- parse cases (streams and expected character sets come from TLC)
    cases = []
    ecis = list(range(0, 1101)) + [16383, 16384, 20000, 123456, 999999, 1000000 - 1, 899, 900]
    if not ctx.quick:
        ecis += list(range(1101, 20000, 7)) + [rng.randrange(1101, 1000000) for _ in range(12000)]
    byval = {v: r["name"] for r in registry for v in r["vals"]}
    for r in sorted(byval):                                                         # a registered number plus one high bit of the
        ecis += [r + (1 << k) for k in (7, 8, 10, 12, 13, 14, 16, 18, 19)]          # 2- and 3-byte designator forms: unregistered
    for v in ecis:
        cases.append(dict(eci=v, bytes=[0x41, 0x7A], hint=""))
        if v in byval and kind[byval[v]] == "sb":
            t = [b for b in range(128, 256) if table[byval[v]][b] >= 0]
            if t:
                cases.append(dict(eci=v, bytes=[rng.choice(t) for _ in range(4)], hint=""))
                cases.append(dict(eci=v, bytes=[rng.choice(t) for _ in range(3)], hint=rng.choice(allal)))   # designator beats hint
    for n, al in names.items():                                                     # decode hints on un-designated segments
        for a in al:
            for _ in range(2 if ctx.quick else 12):
                if kind[n] == "sb":
                    t = [b for b in range(256) if table[n][b] >= 0]
                    payload = [rng.choice(t) for _ in range(rng.choice([1, 3, 8]))]
                elif n in mbchars:
                    payload = [x for _ in range(rng.choice([1, 2, 4])) for x in rng.choice(mbchars[n])[1]]
                elif n == "UTF-8":
                    payload = list("".join(chr(c) for c in random_cps(rng, 3)).encode("utf-8"))
                else:
                    payload = list("".join(chr(c) for c in random_cps(rng, 3)).encode("utf-16-be"))
                cases.append(dict(eci=-1, bytes=payload, hint=a))
        if kind[n] == "sb":                                                         # payloads that LOOK like another encoding's signature
            for bom in ([0xFE, 0xFF], [0xFF, 0xFE], [0xEF, 0xBB, 0xBF]):            # (UTF-16 / UTF-8 byte-order marks): the hint still decides
                if all(table[n][b] >= 0 for b in bom):
                    cases.append(dict(eci=-1, bytes=bom + [0x41, 0x42], hint=al[0]))
                    cases.append(dict(eci=-1, bytes=bom + [0x41], hint=rng.choice(al)))
    for s in rng.sample(strings, min(len(strings), 400 if ctx.quick else 4000)):    # no designator, no hint: the guess decides
        if s["bytes"]:
            cases.append(dict(eci=-1, bytes=s["bytes"], hint=""))
    return events, cases


def parse_events(ctx, cases):
    """TLC (Gen_Charset) builds the stream and names the character set for every case"""
    res = vlib.run_tlc(ctx, "MC_Charset", "Gen_Charset", files={"cases.ndjson": cases}, workers=1, timeout=1500)
    out = vlib.tlc_printed(res)
    if len(out) != len(cases):
        raise vlib.Infra("Gen_Charset produced %d of %d cases:\n%s" % (len(out), len(cases), res.out[-2000:]))
    return [ev("parse", eci=o["eci"], bytes=o["bytes"], hint=o["hint"], stream=o["stream"], cs=o["cs"]) for o in out]


def judge(ctx, events, label):
    obs = vlib.drive(ctx, "c15", events, timeout=1700)
    bad = vlib.validate(ctx, "Trace_Charset", obs, stateless=True, timeout=1700)
    ctx.traces += 1
    for o in obs:
        ctx.count_case((o["op"], o["name"], o["hint"], o["cs"], o["text"], o["bytes"], o["eci"], o["lo"]))
    for gi, ent in bad:
        o = dict(obs[gi])
        if len(ent) < 3 or ent[2] != "code":
            raise vlib.Infra("Trace_Charset: premise of event %d (%s %s) does not hold" % (gi, o["op"], {k: o[k] for k in ("name", "hint", "cs", "eci")}))
        what = {"byname": "GetCharacterSetECIByName(%r) -> found=%s %r %s" % (o["name"], o["found"], o["oname"], o["oval"]),
                "bycs": "GetCharacterSetECI(charset of %r) -> found=%s %r %s" % (o["name"], o["found"], o["oname"], o["oval"]),
                "lookup": "GetCharacterSetECIByValue over %d..%d -> %d hits, %d nothing, %d errors" % (o["lo"], o["lo"] + o["n"] - 1, len(o["hits"]), o["nnone"], o["nerr"]),
                "guess": "guessCharset(%s, hint=%r) -> %r" % (o["bytes"], o["hint"], o["guess"]),
                "qr": "QR write(hint=%r)/read of %s (%s bytes %s): write err=%s read err=%s text=%s head=%s segs=%s" % (
                    o["hint"], o["text"][:12], o["cs"], o["enc"][:12] if o["rep"] else "not representable", o["werr"], o["rerr"], o["otext"][:12], o["head"], [s[:12] for s in o["segs"]]),
                "parse": "bit-stream parse eci=%s hint=%r bytes=%s -> err=%s text=%s (expected charset %r, text %s)" % (
                    o["eci"], o["hint"], o["bytes"][:12], o["err"], o["otext"][:12], o["cs"], o["dec"][:12]),
                }.get(o["op"], o["op"])
        vlib.reject(ctx, o, "%s: %s%s - rejected by Trace_Charset" % (label, what, " PANIC " + o["msg"] if o["panic"] else ""),
                    replay_events=[events[gi]])
    return obs


def run(ctx):
    vlib.build_harness(ctx, "c15")
    strings, registry = design(ctx)
    events, cases = build_events(ctx, strings, registry)
    events += parse_events(ctx, cases)
    obs = judge(ctx, events, "charset")
    qr = [o for o in obs if o["op"] == "qr"]
    ctx.extra["events_by_op"] = {op: sum(1 for o in obs if o["op"] == op) for op in ("byname", "bycs", "lookup", "guess", "qr", "parse")}
    ctx.extra["qr_unrepresentable_refused"] = sum(1 for o in qr if not o["rep"])
    ctx.extra["eci_numbers_looked_up"] = 1000000
    ctx.exhaustive = False
    for op in ("qr", "parse", "guess", "byname", "lookup"):
        xs = [o for o in obs if o["op"] == op]
        if xs:
            o = xs[len(xs) // 3]
            ctx.sample({k: (v[:16] if isinstance(v, list) else v) for k, v in o.items() if v not in ([], "", 0) or k in ("op",)})
    return vlib.finish(ctx,
        rule="one case = one call of the real code (registry lookup by name / charset / block of 1000 ECI numbers, one guess, "
             "one QR write->read with a text and hint, one bit-stream parse); every registered name and alias, every ECI "
             "number 0..999999, every defined byte of the 16 single-byte sets and every TLC-explored class string are "
             "enumerated; multi-byte texts, unrepresentable texts and hint combinations are seeded samples",
        assumptions=["registered = the 22 character sets the library exports (AIM ECI numbers 8, 10, 12, 13, 16 are not supported by it "
                     "and count as unregistered)",
                     "designator required only for byte-mode segments; numeric / alphanumeric / Kanji segments need none",
                     "byte <-> code point tables of golang.org/x/text are given data"],
        trusted=["TLC", "spec/Charset.tla", "golang.org/x/text encoders/decoders (attached as input data by harness/c15)",
                 "harness/c15 name -> x/text table", "QR symbol layer (C01/C07) as carrier of the byte stream"])


def replay(ctx, path):
    r = json.load(open(path))
    ins = r["inputs"]
    judge(ctx, ins, "replay")
    return vlib.finish(ctx, rule="replay of one recorded call")
